(* Cfg/SProofs.v -- property C15: the invariant is preserved by every operation (static-view model,
   Cfg/SOps.v). *)
From Coq Require Import ZArith List Bool NArith Lia Sorted.
From Falcon Require Import Base.Res IL.Const IL.Expr IL.Func IL.Loc IL.LocProofs Cfg.CfgOps Cfg.SOps.
Import ListNotations.
Local Open Scope Z_scope.

(* ------------------------------------------------------------------ sortedness, as StronglySorted *)
Definition blt (a b : block) : Prop := b_index a < b_index b.

Lemma sorted_by_SS {A} (key : A -> Z) l :
  sorted_by key l = true <-> StronglySorted (fun a b => key a < key b) l.
Proof.
  split.
  - induction l as [|x t IH]; intros H; [constructor|].
    apply sorted_by_cons in H as [Ht Hall]. constructor; [apply IH; exact Ht|].
    apply Forall_forall. exact Hall.
  - induction 1 as [|x t Hs IH Hall]; [reflexivity|].
    cbn [sorted_by]. destruct t as [|y r]; [reflexivity|].
    apply andb_true_iff. split; [|exact IH].
    apply Z.ltb_lt. apply (Forall_inv Hall).
Qed.

Lemma elt_b_iff a b : elt_b a b = true <-> elt a b.
Proof.
  unfold elt_b, elt. rewrite orb_true_iff, andb_true_iff, !Z.ltb_lt, Z.eqb_eq. reflexivity.
Qed.

Lemma edges_sorted_SS l : edges_sorted l = true <-> StronglySorted elt l.
Proof.
  split.
  - induction l as [|x t IH]; intros H; [constructor|].
    apply edges_sorted_cons in H as [Ht Hall]. constructor; [apply IH; exact Ht|].
    apply Forall_forall. exact Hall.
  - induction 1 as [|x t Hs IH Hall]; [reflexivity|].
    cbn [edges_sorted]. destruct t as [|y r]; [reflexivity|].
    apply andb_true_iff. split; [|exact IH].
    pose proof (Forall_inv Hall) as E. apply elt_b_iff in E. exact E.
Qed.

Lemma SS_filter {A} (R : A -> A -> Prop) p l : StronglySorted R l -> StronglySorted R (filter p l).
Proof.
  induction 1 as [|x t Hs IH Hall]; cbn; [constructor|].
  destruct (p x); [|exact IH]. constructor; [exact IH|].
  apply Forall_forall. intros y Hy. apply filter_In in Hy as [Hy _].
  rewrite Forall_forall in Hall. apply Hall; exact Hy.
Qed.

Lemma SS_map {A} (R : A -> A -> Prop) f l :
  (forall a b, R a b -> R (f a) (f b)) -> StronglySorted R l -> StronglySorted R (map f l).
Proof.
  intros Hf. induction 1 as [|x t Hs IH Hall]; cbn; [constructor|].
  constructor; [exact IH|]. apply Forall_forall. intros y Hy. apply in_map_iff in Hy as (z & <- & Hz).
  apply Hf. rewrite Forall_forall in Hall. apply Hall; exact Hz.
Qed.

(* sorted insertion of a block *)
Lemma in_ins_block b bs x : In x (ins_block b bs) <-> x = b \/ In x bs.
Proof.
  induction bs as [|y t IH]; cbn.
  - split; [intros [<-|[]]; auto | intros [->|[]]; auto].
  - destruct (b_index b <? b_index y); cbn; [split; intros [H|H]; auto|].
    rewrite IH. tauto.
Qed.

Lemma ins_block_SS b bs :
  StronglySorted blt bs -> (forall x, In x bs -> b_index x <> b_index b) -> StronglySorted blt (ins_block b bs).
Proof.
  induction 1 as [|y t Hs IH Hall]; intros Hne; cbn.
  - constructor; constructor.
  - destruct (b_index b <? b_index y) eqn:E.
    + apply Z.ltb_lt in E. constructor; [constructor; assumption|].
      constructor; [exact E|]. rewrite Forall_forall in *. intros z Hz. specialize (Hall z Hz). unfold blt in *. lia.
    + apply Z.ltb_ge in E. assert (b_index y <> b_index b) by (apply Hne; left; reflexivity).
      constructor.
      * apply IH. intros x Hx. apply Hne. right; exact Hx.
      * apply Forall_forall. intros z Hz. apply in_ins_block in Hz as [->|Hz].
        -- unfold blt. lia.
        -- rewrite Forall_forall in Hall. apply Hall; exact Hz.
Qed.

Lemma in_ins_edge e es x : In x (ins_edge_l e es) <-> x = e \/ In x es.
Proof.
  induction es as [|y t IH]; cbn.
  - split; [intros [<-|[]]; auto | intros [->|[]]; auto].
  - destruct (elt_b e y); cbn; [split; intros [H|H]; auto|].
    rewrite IH. tauto.
Qed.

Lemma ins_edge_SS e es :
  StronglySorted elt es -> (forall x, In x es -> ~ (e_head x = e_head e /\ e_tail x = e_tail e)) ->
  StronglySorted elt (ins_edge_l e es).
Proof.
  induction 1 as [|y t Hs IH Hall]; intros Hne; cbn.
  - constructor; constructor.
  - destruct (elt_b e y) eqn:E.
    + apply elt_b_iff in E. constructor; [constructor; assumption|].
      constructor; [exact E|]. rewrite Forall_forall in *. intros z Hz. specialize (Hall z Hz). unfold elt in *. lia.
    + assert (Hn : ~ elt e y) by (intros H; apply elt_b_iff in H; congruence).
      assert (Hd : ~ (e_head y = e_head e /\ e_tail y = e_tail e)) by (apply Hne; left; reflexivity).
      constructor.
      * apply IH. intros x Hx. apply Hne. right; exact Hx.
      * apply Forall_forall. intros z Hz. apply in_ins_edge in Hz as [->|Hz].
        -- unfold elt in *. lia.
        -- rewrite Forall_forall in Hall. apply Hall; exact Hz.
Qed.

(* ------------------------------------------------------------------ blocks *)
Definition block_ok (b : block) : Prop :=
  NoDup (map i_index (b_instrs b)) /\ 0 <= b_next b /\ forall i, In i (b_instrs b) -> 0 <= i_index i < b_next b.

Lemma block_new_ok i : block_ok (block_new i).
Proof. split; [constructor | split; [cbn; lia | intros ? []]]. Qed.

Lemma block_push_ok b op : block_ok b -> block_ok (block_push b op).
Proof.
  intros (Hn & H0 & Hb). unfold block_push, block_ok. cbn [b_instrs b_next]. split; [|split].
  - rewrite map_app. cbn [map i_index]. apply NoDup_app_intro; [exact Hn | constructor; [intros [] | constructor] |].
    intros x Hx [<-|[]]. apply in_map_iff in Hx as (i & Hi & Hin). specialize (Hb i Hin). lia.
  - lia.
  - intros i Hi. apply in_app_or in Hi as [Hi|[<-|[]]].
    + specialize (Hb i Hi). lia.
    + cbn [i_index]. lia.
Qed.

Lemma block_push_index b op : b_index (block_push b op) = b_index b.
Proof. reflexivity. Qed.

(* Block::append = pushing the other block's operations one by one (addresses kept) *)
Lemma block_append_ok b other : block_ok b -> block_ok (block_append b other) /\ b_index (block_append b other) = b_index b.
Proof.
  unfold block_append. generalize (b_instrs other). intros l. revert b.
  induction l as [|i t IH]; intros b Hb; cbn [fold_left]; [auto|].
  set (b1 := mkblock (b_index b) (b_next b + 1) (b_instrs b ++ [mkinstr (b_next b) (i_op i) (i_addr i)]) (b_phis b)).
  assert (H1 : block_ok b1).
  { destruct Hb as (Hn & H0 & Hb). unfold b1, block_ok. cbn [b_instrs b_next]. split; [|split].
    - rewrite map_app. cbn [map i_index]. apply NoDup_app_intro; [exact Hn | constructor; [intros [] | constructor] |].
      intros x Hx [<-|[]]. apply in_map_iff in Hx as (j & Hj & Hin). specialize (Hb j Hin). lia.
    - lia.
    - intros j Hj. apply in_app_or in Hj as [Hj|[<-|[]]].
      + specialize (Hb j Hj). lia.
      + cbn [i_index]. lia. }
  destruct (IH b1 H1) as [Hok Hi]. split; [exact Hok | rewrite Hi; reflexivity].
Qed.

Lemma block_clone_ok b i : block_ok b -> block_ok (block_clone_new_index b i).
Proof. intros H. exact H. Qed.

Lemma remove_first_index_sub is_ idx is' : remove_first_index is_ idx = Some is' ->
  (forall x, In x is' -> In x is_) /\ (NoDup (map i_index is_) -> NoDup (map i_index is')).
Proof.
  revert is'. induction is_ as [|x t IH]; intros is'; cbn [remove_first_index]; [discriminate|].
  destruct (i_index x =? idx).
  - intros [= <-]. split; [intros y Hy; right; exact Hy | intros H; inversion H; assumption].
  - destruct (remove_first_index t idx) as [t'|]; [|discriminate]. intros [= <-].
    destruct (IH t' eq_refl) as [Hs Hn]. split.
    + intros y [<-|Hy]; [left; reflexivity | right; apply Hs; exact Hy].
    + cbn [map]. intros H. inversion H as [|? ? Hx Ht]; subst. constructor; [|apply Hn; exact Ht].
      intros Hin. apply Hx. apply in_map_iff in Hin as (z & Hz & Hzin). apply in_map_iff. exists z. split; [exact Hz | apply Hs; exact Hzin].
Qed.

Lemma block_remove_ok b idx b' : block_ok b -> block_remove_instruction b idx = Ok b' ->
  block_ok b' /\ b_index b' = b_index b.
Proof.
  intros (Hn & H0 & Hb). unfold block_remove_instruction.
  destruct (remove_first_index (b_instrs b) idx) as [is'|] eqn:E; [|discriminate]. intros [= <-].
  destruct (remove_first_index_sub _ _ _ E) as [Hs Hn']. split; [|reflexivity].
  unfold block_ok. cbn [b_instrs b_next]. split; [apply Hn'; exact Hn | split; [exact H0|]].
  intros i Hi. apply Hb. apply Hs. exact Hi.
Qed.

Lemma block_set_address_ok b a : block_ok b -> block_ok (block_set_address b a).
Proof.
  intros (Hn & H0 & Hb). unfold block_set_address, block_ok. cbn [b_instrs b_next].
  assert (E : map i_index (map (fun i => mkinstr (i_index i) (i_op i) a) (b_instrs b)) = map i_index (b_instrs b)).
  { rewrite map_map. apply map_ext. reflexivity. }
  split; [rewrite E; exact Hn | split; [exact H0|]].
  intros i Hi. apply in_map_iff in Hi as (j & <- & Hj). cbn [i_index]. apply Hb; exact Hj.
Qed.

(* ------------------------------------------------------------------ the invariant *)
Record score (g : cfg) : Prop := {
  sc_blocks : StronglySorted blt (g_blocks g);
  sc_edges : StronglySorted elt (g_edges g);
  sc_ends : forall e, In e (g_edges g) -> has_block g (e_head e) = true /\ has_block g (e_tail e) = true;
  sc_ok : forall b, In b (g_blocks g) -> block_ok b /\ 0 <= b_index b < g_next_index g;
  sc_next : 0 <= g_next_index g }.

Definition opt_has (g : cfg) (o : option Z) : Prop := forall i, o = Some i -> has_block g i = true.

(* [sinv] is what every reachable graph satisfies; it implies IL/Func.v's executable [cfg_inv]
   (it additionally records 0 <= next_instruction_index, needed for induction) *)
Record sinv (g : cfg) : Prop := {
  si_core : score g;
  si_entry : opt_has g (g_entry g);
  si_exit : opt_has g (g_exit g) }.

Lemma has_block_iff g i : has_block g i = true <-> exists b, In b (g_blocks g) /\ b_index b = i.
Proof.
  unfold has_block. split.
  - destruct (find_block (g_blocks g) i) as [b|] eqn:E; [|discriminate]. intros _.
    apply find_block_some in E. exists b; exact E.
  - intros (b & Hb & Hi). destruct (find_block (g_blocks g) i) as [b'|] eqn:E; [reflexivity|].
    exfalso. exact (find_block_none _ _ E b Hb Hi).
Qed.

Lemma has_block_blocks g g' i : g_blocks g' = g_blocks g -> has_block g' i = has_block g i.
Proof. unfold has_block. intros ->. reflexivity. Qed.

Lemma nodup_nodupZ l : NoDup l -> nodupZ l = true.
Proof.
  induction 1 as [|x t Hx Ht IH]; [reflexivity|]. cbn [nodupZ]. rewrite IH, andb_true_r.
  apply negb_true_iff. destruct (existsb (Z.eqb x) t) eqn:E; [|reflexivity].
  apply existsb_exists in E as (y & Hy & Exy). apply Z.eqb_eq in Exy. subst. contradiction.
Qed.

Theorem sinv_cfg_inv g : sinv g -> cfg_inv g = true.
Proof.
  intros [[Hb He Hends Hok Hnx] Hen Hex]. unfold cfg_inv. rewrite !andb_true_iff. repeat split.
  - apply sorted_by_SS. exact Hb.
  - apply edges_sorted_SS. exact He.
  - apply forallb_forall. intros e Hin. apply andb_true_iff. exact (Hends e Hin).
  - apply forallb_forall. intros b Hin. destruct (Hok b Hin) as [(Hn & H0 & Hi) Hidx].
    rewrite !andb_true_iff. repeat split.
    + apply nodup_nodupZ; exact Hn.
    + apply forallb_forall. intros i Hii. specialize (Hi i Hii). apply andb_true_iff. split; [apply Z.leb_le | apply Z.ltb_lt]; lia.
    + apply Z.leb_le; lia.
    + apply Z.ltb_lt; lia.
  - destruct (g_entry g) as [i|] eqn:E; [apply Hen; reflexivity | reflexivity].
  - destruct (g_exit g) as [i|] eqn:E; [apply Hex; reflexivity | reflexivity].
Qed.

Lemma sinv_new : sinv s_new.
Proof.
  split; [split|..]; cbn.
  - apply SSorted_nil.
  - apply SSorted_nil.
  - intros ? [].
  - intros ? [].
  - lia.
  - intros ? [=].
  - intros ? [=].
Qed.

(* ---- primitives ---- *)
Lemma bump_core g : score g -> score (bump g).
Proof.
  intros [Hb He Hends Hok Hnx]. split; cbn [bump g_blocks g_edges g_next_index]; auto; [|lia].
  intros b Hin. destruct (Hok b Hin). split; [assumption | lia].
Qed.

Lemma insert_vertex_core g b g' :
  s_insert_vertex g b = Ok g' -> score g -> block_ok b -> 0 <= b_index b < g_next_index g ->
  score g' /\ (forall i, has_block g' i = true <-> has_block g i = true \/ i = b_index b) /\
  g_next_index g' = g_next_index g /\ g_entry g' = g_entry g /\ g_exit g' = g_exit g /\ g_edges g' = g_edges g /\
  (forall x, In x (g_blocks g') <-> x = b \/ In x (g_blocks g)).
Proof.
  unfold s_insert_vertex. destruct (has_block g (b_index b)) eqn:Hh; [discriminate|]. intros [= <-] [Hb He Hends Hok Hnx] Hbo Hidx.
  assert (Hhas : forall i, has_block (s_with g (ins_block b (g_blocks g)) (g_edges g)) i = true <-> has_block g i = true \/ i = b_index b).
  { intros i. rewrite !has_block_iff. cbn [s_with g_blocks]. split.
    - intros (x & Hx & Hi). apply in_ins_block in Hx as [->|Hx]; [right; auto | left; exists x; auto].
    - intros [(x & Hx & Hi)| ->]; [exists x | exists b]; split; auto; apply in_ins_block; auto. }
  split; [|split; [exact Hhas|]].
  - split; cbn [s_with g_blocks g_edges g_next_index].
    + apply ins_block_SS; [exact Hb|]. intros x Hx E.
      assert (has_block g (b_index b) = true) by (apply has_block_iff; exists x; auto). congruence.
    + exact He.
    + intros e Hin. destruct (Hends e Hin). split; apply Hhas; left; assumption.
    + intros x Hx. apply in_ins_block in Hx as [->|Hx]; [split; assumption | apply Hok; exact Hx].
    + exact Hnx.
  - cbn [s_with g_next_index g_entry g_exit g_edges g_blocks]. repeat split; auto; apply in_ins_block.
Qed.

Lemma insert_edge_core g e g' :
  s_insert_edge g e = Ok g' -> score g ->
  score g' /\ g_blocks g' = g_blocks g /\ g_next_index g' = g_next_index g /\ g_entry g' = g_entry g /\ g_exit g' = g_exit g /\
  (forall x, In x (g_edges g') <-> x = e \/ In x (g_edges g)).
Proof.
  unfold s_insert_edge. destruct (find_edge (g_edges g) (e_head e) (e_tail e)) eqn:Ef; [discriminate|].
  destruct (has_block g (e_head e)) eqn:Hh; [|discriminate]. destruct (has_block g (e_tail e)) eqn:Ht; [|discriminate].
  cbn [negb]. intros [= <-] [Hb He Hends Hok Hnx].
  split; [|cbn [s_with g_blocks g_next_index g_entry g_exit g_edges]; repeat split; auto; apply in_ins_edge].
  split; cbn [s_with g_blocks g_edges g_next_index]; auto.
  - apply ins_edge_SS; [exact He|]. intros x Hx. exact (find_edge_none _ _ _ Ef x Hx).
  - intros x Hx. unfold has_block. cbn [s_with g_blocks]. fold (has_block g (e_head x)) (has_block g (e_tail x)).
    apply in_ins_edge in Hx as [->|Hx]; [split; assumption | apply Hends; exact Hx].
Qed.

Lemma s_ins_edge_core g e : score g ->
  score (fst (s_ins_edge g e)) /\ g_blocks (fst (s_ins_edge g e)) = g_blocks g /\
  g_next_index (fst (s_ins_edge g e)) = g_next_index g /\
  g_entry (fst (s_ins_edge g e)) = g_entry g /\ g_exit (fst (s_ins_edge g e)) = g_exit g.
Proof.
  intros Hc. unfold s_ins_edge. destruct (s_insert_edge g e) as [g'| |] eqn:E; cbn [fst]; auto.
  destruct (insert_edge_core g e g' E Hc) as (H1 & H2 & H3 & H4 & H5 & _). auto.
Qed.

Lemma remove_vertex_core g i g' :
  s_remove_vertex g i = Ok g' -> score g ->
  score g' /\ (forall j, has_block g' j = true <-> has_block g j = true /\ j <> i) /\
  g_next_index g' = g_next_index g /\ g_entry g' = g_entry g /\ g_exit g' = g_exit g.
Proof.
  unfold s_remove_vertex. destruct (has_block g i) eqn:Hh; [|discriminate]. cbn [negb].
  intros [= <-] [Hb He Hends Hok Hnx].
  set (g' := s_with g _ _).
  assert (Hhas : forall j, has_block g' j = true <-> has_block g j = true /\ j <> i).
  { intros j. rewrite !has_block_iff. unfold g'. cbn [s_with g_blocks]. split.
    - intros (x & Hx & Hj). apply filter_In in Hx as [Hx Hne]. apply negb_true_iff, Z.eqb_neq in Hne.
      split; [exists x; auto | congruence].
    - intros [(x & Hx & Hj) Hne]. exists x. split; [|exact Hj]. apply filter_In. split; [exact Hx|].
      apply negb_true_iff, Z.eqb_neq. congruence. }
  split; [|split; [exact Hhas | unfold g'; cbn; auto]].
  split; unfold g'; cbn [s_with g_blocks g_edges g_next_index].
  - apply SS_filter; exact Hb.
  - apply SS_filter; exact He.
  - intros e Hin. apply filter_In in Hin as [Hin Hne]. apply andb_true_iff in Hne as [H1 H2].
    apply negb_true_iff, Z.eqb_neq in H1. apply negb_true_iff, Z.eqb_neq in H2.
    destruct (Hends e Hin). fold g'. split; apply Hhas; auto.
  - intros x Hx. apply filter_In in Hx as [Hx _]. apply Hok; exact Hx.
  - exact Hnx.
Qed.

Lemma update_block_core g i f g' :
  s_update_block g i f = Ok g' -> score g ->
  (forall b, In b (g_blocks g) -> b_index b = i -> block_ok (f b) /\ b_index (f b) = b_index b) ->
  score g' /\ (forall j, has_block g' j = has_block g j) /\
  g_next_index g' = g_next_index g /\ g_entry g' = g_entry g /\ g_exit g' = g_exit g /\ g_edges g' = g_edges g.
Proof.
  unfold s_update_block. destruct (find_block (g_blocks g) i) as [b0|] eqn:Ef; [|discriminate].
  intros [= <-] [Hb He Hends Hok Hnx] Hf.
  set (upd := fun x : block => if b_index x =? i then f x else x).
  assert (Hidx : forall x, In x (g_blocks g) -> b_index (upd x) = b_index x).
  { intros x Hx. unfold upd. destruct (b_index x =? i) eqn:E; [|reflexivity]. apply Z.eqb_eq in E. apply (Hf x Hx E). }
  assert (Hmapidx : map b_index (map upd (g_blocks g)) = map b_index (g_blocks g)).
  { rewrite map_map. apply map_ext_in. exact Hidx. }
  assert (Hhas : forall j, has_block (s_with g (map upd (g_blocks g)) (g_edges g)) j = has_block g j).
  { intros j. destruct (has_block g j) eqn:E.
    - apply has_block_iff in E as (x & Hx & Hj). apply has_block_iff. exists (upd x). cbn [s_with g_blocks].
      split; [apply in_map; exact Hx | rewrite Hidx; auto].
    - destruct (has_block (s_with g (map upd (g_blocks g)) (g_edges g)) j) eqn:E'; [|reflexivity].
      apply has_block_iff in E' as (y & Hy & Hj). cbn [s_with g_blocks] in Hy. apply in_map_iff in Hy as (x & <- & Hx).
      assert (has_block g j = true) by (apply has_block_iff; exists x; split; [exact Hx | rewrite <- Hj; symmetry; apply Hidx; exact Hx]).
      congruence. }
  split; [|split; [exact Hhas | cbn; auto]].
  split; cbn [s_with g_blocks g_edges g_next_index].
  - (* sortedness only depends on the indices *)
    clear - Hb Hidx. induction Hb as [|x t Hs IH Hall]; cbn [map]; [constructor|].
    constructor.
    + apply IH. intros y Hy. apply Hidx. right; exact Hy.
    + apply Forall_forall. intros y Hy. apply in_map_iff in Hy as (z & <- & Hz).
      rewrite Forall_forall in Hall. specialize (Hall z Hz). unfold blt in *.
      rewrite (Hidx x (or_introl eq_refl)), (Hidx z (or_intror Hz)). exact Hall.
  - exact He.
  - intros e Hin. rewrite !Hhas. apply Hends; exact Hin.
  - intros y Hy. apply in_map_iff in Hy as (x & <- & Hx). destruct (Hok x Hx) as [Hbo Hi].
    unfold upd. destruct (b_index x =? i) eqn:E; [|split; assumption].
    apply Z.eqb_eq in E. destruct (Hf x Hx E) as [H1 H2]. split; [exact H1 | rewrite H2; exact Hi].
  - exact Hnx.
Qed.

(* ------------------------------------------------------------------ operations keep the invariant *)
Lemma sinv_frame g g' :
  sinv g -> score g' -> (forall j, has_block g j = true -> has_block g' j = true) ->
  g_entry g' = g_entry g -> g_exit g' = g_exit g -> sinv g'.
Proof.
  intros [Hc Hen Hex] Hc' Hh E1 E2. split; [exact Hc'|..]; unfold opt_has in *; intros i Hi.
  - rewrite E1 in Hi. apply Hh, Hen; exact Hi.
  - rewrite E2 in Hi. apply Hh, Hex; exact Hi.
Qed.

Lemma set_entry_inv g i : sinv g -> sinv (fst (s_set_entry g i)).
Proof.
  intros Hs. unfold s_set_entry. destruct (has_block g i) eqn:E; cbn [fst]; [|exact Hs].
  destruct Hs as [[Hb He Hends Hok Hnx] Hen Hex]. split; [split; auto|..]; unfold opt_has; cbn; auto.
  intros j [= <-]. exact E.
Qed.
Lemma set_exit_inv g i : sinv g -> sinv (fst (s_set_exit g i)).
Proof.
  intros Hs. unfold s_set_exit. destruct (has_block g i) eqn:E; cbn [fst]; [|exact Hs].
  destruct Hs as [[Hb He Hends Hok Hnx] Hen Hex]. split; [split; auto|..]; unfold opt_has; cbn; auto.
  intros j [= <-]. exact E.
Qed.

Lemma bump_inv g : sinv g -> sinv (bump g).
Proof.
  intros Hs. apply (sinv_frame g); [exact Hs | apply bump_core; exact (si_core _ Hs) | auto | reflexivity | reflexivity].
Qed.

Lemma new_block_inv g : sinv g -> sinv (fst (s_new_block g)).
Proof.
  intros Hs. unfold s_new_block.
  destruct (s_insert_vertex (bump g) (block_new (g_next_index g))) as [g'| |] eqn:E; cbn [fst]; try (apply bump_inv; exact Hs).
  pose proof (bump_inv g Hs) as Hb.
  destruct (insert_vertex_core _ _ _ E (si_core _ Hb) (block_new_ok _)) as (Hc & Hh & _ & E1 & E2 & _).
  { cbn. pose proof (sc_next _ (si_core _ Hs)). lia. }
  apply (sinv_frame (bump g)); auto. intros j Hj. apply Hh. left; exact Hj.
Qed.

Lemma ins_edge_inv g e : sinv g -> sinv (fst (s_ins_edge g e)).
Proof.
  intros Hs. destruct (s_ins_edge_core g e (si_core _ Hs)) as (Hc & Hb & _ & E1 & E2).
  apply (sinv_frame g); auto. intros j Hj. rewrite (has_block_blocks _ _ j Hb). exact Hj.
Qed.

Lemma on_block_inv g i f : sinv g ->
  (forall b b', block_ok b -> f b = Ok b' -> block_ok b' /\ b_index b' = b_index b) ->
  sinv (fst (s_on_block g i f)).
Proof.
  intros Hs Hf. unfold s_on_block. destruct (find_block (g_blocks g) i) as [b0|] eqn:Ef; cbn [fst]; [|exact Hs].
  destruct (f b0) as [b'| |] eqn:Efb; cbn [fst]; try exact Hs.
  destruct (s_update_block g i (fun _ => b')) as [g'| |] eqn:Eu; cbn [fst]; try exact Hs.
  apply find_block_some in Ef as [Hin Hi].
  destruct (Hf b0 b' (proj1 (sc_ok _ (si_core _ Hs) b0 Hin)) Efb) as [Hok' Hidx'].
  destruct (update_block_core g i _ g' Eu (si_core _ Hs)) as (Hc & Hh & _ & E1 & E2 & _).
  { intros b Hb Hbi. split; [exact Hok' | congruence]. }
  apply (sinv_frame g); auto. intros j Hj. rewrite Hh. exact Hj.
Qed.

Lemma push_op_inv g i op : sinv g -> sinv (fst (s_push_op g i op)).
Proof.
  intros Hs. apply on_block_inv; [exact Hs|]. intros b b' Hb [= <-]. split; [apply block_push_ok; exact Hb | reflexivity].
Qed.
Lemma remove_instruction_inv g i idx : sinv g -> sinv (fst (s_remove_instruction g i idx)).
Proof.
  intros Hs. apply on_block_inv; [exact Hs|]. intros b b' Hb E. exact (block_remove_ok b idx b' Hb E).
Qed.

Lemma has_block_set_address g a j : has_block (s_set_address g a) j = has_block g j.
Proof.
  unfold has_block, s_set_address. cbn [s_with g_blocks].
  induction (g_blocks g) as [|x t IH]; cbn; [reflexivity|]. destruct (b_index x =? j); [reflexivity | exact IH].
Qed.

Lemma set_address_inv g a : sinv g -> sinv (s_set_address g a).
Proof.
  intros Hs. pose proof (si_core _ Hs) as [Hb He Hends Hok Hnx].
  pose proof (has_block_set_address g a) as Hhas.
  apply (sinv_frame g); auto; [|intros j Hj; rewrite Hhas; exact Hj].
  split; unfold s_set_address; cbn [s_with g_blocks g_edges g_next_index]; auto.
  - apply SS_map; [|exact Hb]. intros x y H. exact H.
  - intros e Hin. fold (s_set_address g a). rewrite !Hhas. apply Hends; exact Hin.
  - intros y Hy. apply in_map_iff in Hy as (x & <- & Hx). destruct (Hok x Hx). split; [apply block_set_address_ok; assumption | assumption].
Qed.

(* ---- merge ---- *)
Lemma insert_edges_core g es : score g ->
  score (fst (s_insert_edges g es)) /\ g_blocks (fst (s_insert_edges g es)) = g_blocks g /\
  g_next_index (fst (s_insert_edges g es)) = g_next_index g /\
  g_entry (fst (s_insert_edges g es)) = g_entry g /\ g_exit (fst (s_insert_edges g es)) = g_exit g.
Proof.
  revert g. induction es as [|e t IH]; intros g Hc; cbn [s_insert_edges fst]; [auto|].
  destruct (s_ins_edge_core g e Hc) as (H1 & H2 & H3 & H4 & H5).
  destruct (s_ins_edge g e) as [g' [u| |]] eqn:E; cbn [fst] in *; auto.
  destruct (IH g' H1) as (K1 & K2 & K3 & K4 & K5). split; [exact K1|]. repeat split; congruence.
Qed.

Lemma merge_one_inv g m s : sinv g -> m <> s -> g_entry g <> Some s ->
  sinv (fst (s_merge_one g m s)) /\ g_entry (fst (s_merge_one g m s)) = g_entry g.
Proof.
  intros Hs Hms Hen. unfold s_merge_one.
  destruct (cfg_block g s) as [sb| |] eqn:Esb; cbn [fst]; auto.
  destruct (s_update_block g m (fun b => block_append b sb)) as [g1| |] eqn:Eu; cbn [fst]; auto.
  destruct (update_block_core g m _ g1 Eu (si_core _ Hs)) as (Hc1 & Hh1 & _ & E1 & E1' & _).
  { intros b Hb _. apply block_append_ok. exact (proj1 (sc_ok _ (si_core _ Hs) b Hb)). }
  assert (Hs1 : sinv g1) by (apply (sinv_frame g); auto; intros j Hj; rewrite Hh1; exact Hj).
  assert (Hm : has_block g m = true).
  { unfold s_update_block in Eu. unfold has_block. destruct (find_block (g_blocks g) m); [reflexivity|discriminate]. }
  destruct (cfg_edges_out g1 s) as [outs| |]; cbn [fst]; auto.
  set (es := map (fun e => mkedge m (e_tail e) (e_cond e)) outs).
  destruct (insert_edges_core g1 es Hc1) as (Hc2 & Hb2 & _ & E2 & E2').
  assert (Hs2 : sinv (fst (s_insert_edges g1 es))).
  { apply (sinv_frame g1); auto. intros j Hj. rewrite (has_block_blocks _ _ j Hb2). exact Hj. }
  destruct (s_insert_edges g1 es) as [g2 [u| |]] eqn:Ei; cbn [fst] in *; try (split; [exact Hs2 | congruence]).
  destruct (s_remove_vertex g2 s) as [g3| |] eqn:Er; cbn [fst]; try (split; [exact Hs2 | congruence]).
  destruct (remove_vertex_core g2 s g3 Er Hc2) as (Hc3 & Hh3 & _ & E3 & E3').
  assert (Hh12 : forall j, has_block g j = true -> has_block g2 j = true).
  { intros j Hj. rewrite (has_block_blocks _ _ j Hb2), Hh1. exact Hj. }
  split; [|cbn [g_entry]; congruence].
  split.
  - destruct Hc3 as [A B C D F]. split; cbn [g_blocks g_edges g_next_index]; auto.
  - unfold opt_has. cbn [g_entry]. intros i Hi. unfold has_block. cbn [g_blocks]. fold (has_block g3 i).
    apply Hh3. split; [|congruence]. apply Hh12. apply (si_entry _ Hs). congruence.
  - unfold opt_has. cbn [g_exit]. intros i Hi. unfold has_block. cbn [g_blocks]. fold (has_block g3 i).
    apply Hh3. destruct (g_exit g3) as [x|] eqn:Ex; [|discriminate].
    destruct (x =? s) eqn:Exs; injection Hi as <-.
    + split; [apply Hh12; exact Hm | exact Hms].
    + apply Z.eqb_neq in Exs. split; [|exact Exs]. apply Hh12. apply (si_exit _ Hs). congruence.
Qed.

Lemma scan_post g bs : forall being ms ms',
  (forall m s, In (m, s) ms -> m <> s /\ g_entry g <> Some s) ->
  s_merge_scan g bs being ms = Ok ms' -> forall m s, In (m, s) ms' -> m <> s /\ g_entry g <> Some s.
Proof.
  induction bs as [|b rest IH]; intros being ms ms' Hms; cbn [s_merge_scan].
  - intros [= <-]. exact Hms.
  - destruct (memZ (b_index b) being); [apply IH; exact Hms|].
    destruct (cfg_edges_out g (b_index b)) as [[|e [|e2 l]]| |]; try discriminate; try (apply IH; exact Hms).
    destruct (e_cond e); [apply IH; exact Hms|].
    destruct (match g_entry g with Some en => en =? e_tail e | None => false end) eqn:Een; [apply IH; exact Hms|].
    destruct (e_tail e =? b_index b) eqn:Eself; [apply IH; exact Hms|].
    destruct (memZ (e_tail e) being); [apply IH; exact Hms|].
    destruct (cfg_edges_in g (e_tail e)) as [[|e' [|e'' l']]| |]; try discriminate; try (apply IH; exact Hms).
    apply IH. intros m s Hin. apply in_app_or in Hin as [Hin|[[= <- <-]|[]]]; [apply Hms; exact Hin|].
    split.
    + apply Z.eqb_neq in Eself. congruence.
    + destruct (g_entry g) as [en|]; [|discriminate]. apply Z.eqb_neq in Een. congruence.
Qed.

Lemma merge_apply_inv ms : forall g, sinv g -> (forall m s, In (m, s) ms -> m <> s /\ g_entry g <> Some s) ->
  sinv (fst (s_merge_apply g ms)) /\ g_entry (fst (s_merge_apply g ms)) = g_entry g.
Proof.
  induction ms as [|[m s] t IH]; intros g Hs Hms; cbn [s_merge_apply fst]; [auto|].
  destruct (Hms m s (or_introl eq_refl)) as [H1 H2].
  destruct (merge_one_inv g m s Hs H1 H2) as [Hs1 E1].
  destruct (s_merge_one g m s) as [g' [u| |]] eqn:E; cbn [fst] in *; auto.
  destruct (IH g' Hs1) as [K1 K2].
  { intros m' s' Hin. rewrite E1. apply Hms. right; exact Hin. }
  split; [exact K1 | congruence].
Qed.

Lemma merge_loop_inv fuel : forall g, sinv g -> sinv (fst (s_merge_loop fuel g)).
Proof.
  induction fuel as [|n IH]; intros g Hs; cbn [s_merge_loop fst]; [exact Hs|].
  destruct (s_merge_scan g (g_blocks g) [] []) as [[|p ms]| |] eqn:Esc; cbn [fst]; try exact Hs.
  pose proof (scan_post g (g_blocks g) [] [] (p :: ms) (fun m s H => match H with end) Esc) as Hpost.
  destruct (merge_apply_inv (p :: ms) g Hs Hpost) as [Hs1 _].
  destruct (s_merge_apply g (p :: ms)) as [g' [u| |]]; cbn [fst] in *; auto.
Qed.

Lemma merge_inv g : sinv g -> sinv (fst (s_merge g)).
Proof. apply merge_loop_inv. Qed.

(* ---- append / insert ---- *)
Lemma zmap_get_in m k v : zmap_get m k = Ok v -> In (k, v) m.
Proof.
  induction m as [|[k' v'] t IH]; cbn [zmap_get]; [discriminate|].
  destruct (k' =? k) eqn:E.
  - intros [= <-]. apply Z.eqb_eq in E. subst. left; reflexivity.
  - intros H. right. apply IH; exact H.
Qed.

Definition ib_state (r : cfg * list (Z * Z) * res unit) : cfg := fst (fst r).
Definition ib_map (r : cfg * list (Z * Z) * res unit) : list (Z * Z) := snd (fst r).

Lemma import_blocks_core bs : forall g m, score g -> (forall b, In b bs -> block_ok b) ->
  let r := s_import_blocks g bs m in
  score (ib_state r) /\ (forall j, has_block g j = true -> has_block (ib_state r) j = true) /\
  g_entry (ib_state r) = g_entry g /\ g_exit (ib_state r) = g_exit g /\ g_edges (ib_state r) = g_edges g /\
  (snd r = Ok tt -> forall k v, In (k, v) (ib_map r) -> In (k, v) m \/ has_block (ib_state r) v = true).
Proof.
  induction bs as [|b t IH]; intros g m Hc Hbs; cbn [s_import_blocks].
  - cbn. split; [exact Hc|]. repeat split; auto.
  - pose proof (bump_core g Hc) as Hcb.
    destruct (s_insert_vertex (bump g) (block_clone_new_index b (g_next_index g))) as [g'| |] eqn:E.
    + destruct (insert_vertex_core _ _ _ E Hcb) as (Hc' & Hh & _ & E1 & E2 & E3 & _).
      { apply block_clone_ok. apply Hbs. left; reflexivity. }
      { cbn. pose proof (sc_next _ Hc). lia. }
      specialize (IH g' (m ++ [(b_index b, g_next_index g)]) Hc' (fun x Hx => Hbs x (or_intror Hx))).
      cbn zeta in IH. destruct IH as (K1 & K2 & K3 & K4 & K5 & K6).
      split; [exact K1|]. split; [|split; [|split; [|split]]].
      * intros j Hj. apply K2. apply Hh. left. exact Hj.
      * rewrite K3, E1. reflexivity.
      * rewrite K4, E2. reflexivity.
      * rewrite K5, E3. reflexivity.
      * intros Hr k v Hin. destruct (K6 Hr k v Hin) as [Hm|Hv]; [|right; exact Hv].
        apply in_app_or in Hm as [Hm|[[= <- <-]|[]]]; [left; exact Hm|].
        right. apply K2. apply Hh. right. reflexivity.
    + cbn. split; [exact Hcb|]. repeat split; auto; discriminate.
    + cbn. split; [exact Hcb|]. repeat split; auto; discriminate.
Qed.

Lemma import_edges_core es : forall g m, score g ->
  score (fst (s_import_edges g es m)) /\ g_blocks (fst (s_import_edges g es m)) = g_blocks g /\
  g_next_index (fst (s_import_edges g es m)) = g_next_index g /\
  g_entry (fst (s_import_edges g es m)) = g_entry g /\ g_exit (fst (s_import_edges g es m)) = g_exit g.
Proof.
  induction es as [|e t IH]; intros g m Hc; cbn [s_import_edges fst]; [auto|].
  destruct (zmap_get m (e_head e)) as [h| |]; cbn [fst]; auto.
  destruct (zmap_get m (e_tail e)) as [tl| |]; cbn [fst]; auto.
  destruct (s_ins_edge_core g (mkedge h tl (e_cond e)) Hc) as (H1 & H2 & H3 & H4 & H5).
  destruct (s_ins_edge g (mkedge h tl (e_cond e))) as [g' [u| |]] eqn:E; cbn [fst] in *; auto.
  destruct (IH g' m H1) as (K1 & K2 & K3 & K4 & K5). split; [exact K1|]. repeat split; congruence.
Qed.

Lemma other_blocks_ok other : sinv other -> forall b, In b (g_blocks other) -> block_ok b.
Proof. intros Hs b Hb. exact (proj1 (sc_ok _ (si_core _ Hs) b Hb)). Qed.

Lemma set_ends_inv g en ex : score g -> opt_has g en -> opt_has g ex ->
  sinv (mkcfg (g_blocks g) (g_edges g) (g_next_index g) en ex).
Proof.
  intros [A B C D F] Hen Hex. split; [split; auto|..]; exact Hen || exact Hex.
Qed.

Lemma append_inv g other : sinv g -> sinv other -> sinv (fst (s_append g other)).
Proof.
  intros Hs Ho. unfold s_append.
  destruct (negb _ && _); cbn [fst]; [exact Hs|].
  destruct (g_entry other) as [oen|]; cbn [fst]; [|exact Hs].
  destruct (g_exit other) as [oex|]; cbn [fst]; [|exact Hs].
  pose proof (import_blocks_core (g_blocks other) g [] (si_core _ Hs) (other_blocks_ok other Ho)) as Hib.
  cbn zeta in Hib. destruct (s_import_blocks g (g_blocks other) []) as [[g1 m] r1] eqn:E1.
  unfold ib_state, ib_map in Hib. cbn [fst snd] in Hib. destruct Hib as (Hc1 & Hh1 & En1 & Ex1 & _ & Hm1).
  assert (Hs1 : sinv g1) by (apply (sinv_frame g); auto).
  destruct r1 as [u| |]; cbn [fst]; try exact Hs1.
  destruct (import_edges_core (g_edges other) g1 m Hc1) as (Hc2 & Hb2 & _ & En2 & Ex2).
  assert (Hh2 : forall j, has_block g1 j = true -> has_block (fst (s_import_edges g1 (g_edges other) m)) j = true).
  { intros j Hj. rewrite (has_block_blocks _ _ j Hb2). exact Hj. }
  assert (Hs2 : sinv (fst (s_import_edges g1 (g_edges other) m))) by (apply (sinv_frame g1); auto).
  destruct (s_import_edges g1 (g_edges other) m) as [g2 [u2| |]] eqn:E2; cbn [fst] in *; try exact Hs2.
  assert (Hmap : forall k v, zmap_get m k = Ok v -> has_block g2 v = true).
  { intros k v Hk. apply zmap_get_in in Hk. destruct u. destruct (Hm1 eq_refl k v Hk) as [[]|Hv]. apply Hh2. exact Hv. }
  (* third step: entry adoption or the transition edge *)
  match goal with |- sinv (fst match ?s3 with _ => _ end) => set (step3 := s3) end.
  assert (H3 : sinv (fst step3) /\ (forall j, has_block g2 j = true -> has_block (fst step3) j = true)).
  { unfold step3. destruct (g_blocks g) as [|b0 bt].
    - destruct (zmap_get m oen) as [en'| |] eqn:Een; cbn [fst]; auto.
      split; [|unfold has_block; cbn [g_blocks]; auto].
      apply set_ends_inv; [exact Hc2 | | exact (si_exit _ Hs2)].
      intros i [= <-]. exact (Hmap _ _ Een).
    - destruct (g_exit g2) as [ex|]; cbn [fst]; auto.
      destruct (zmap_get m oen) as [en'| |]; cbn [fst]; auto.
      split; [apply ins_edge_inv; exact Hs2|].
      destruct (s_ins_edge_core g2 (mkedge ex en' None) Hc2) as (_ & Hb3 & _).
      intros j Hj. rewrite (has_block_blocks _ _ j Hb3). exact Hj. }
  destruct H3 as [Hs3 Hh3]. destruct step3 as [g3 [u3| |]]; cbn [fst] in *; try exact Hs3.
  destruct (zmap_get m oex) as [ex'| |] eqn:Eex; cbn [fst]; try exact Hs3.
  apply set_ends_inv; [exact (si_core _ Hs3) | exact (si_entry _ Hs3) |].
  intros i [= <-]. apply Hh3. exact (Hmap _ _ Eex).
Qed.

Lemma insert_inv g other : sinv g -> sinv other -> sinv (fst (s_insert g other)).
Proof.
  intros Hs Ho. unfold s_insert.
  destruct (g_entry other) as [oen|]; cbn [fst]; [|exact Hs].
  destruct (g_exit other) as [oex|]; cbn [fst]; [|exact Hs].
  set (g0 := mkcfg (g_blocks g) (g_edges g) (g_next_index g) None None).
  assert (Hs0 : sinv g0) by (apply set_ends_inv; [exact (si_core _ Hs) | intros ? [=] | intros ? [=]]).
  pose proof (import_blocks_core (g_blocks other) g0 [] (si_core _ Hs0) (other_blocks_ok other Ho)) as Hib.
  cbn zeta in Hib. destruct (s_import_blocks g0 (g_blocks other) []) as [[g1 m] r1] eqn:E1.
  unfold ib_state, ib_map in Hib. cbn [fst snd] in Hib. destruct Hib as (Hc1 & Hh1 & En1 & Ex1 & _ & Hm1).
  assert (Hs1 : sinv g1) by (apply (sinv_frame g0); auto).
  destruct r1 as [u| |]; cbn [fst]; try exact Hs1.
  destruct (import_edges_core (g_edges other) g1 m Hc1) as (Hc2 & Hb2 & _ & En2 & Ex2).
  assert (Hs2 : sinv (fst (s_import_edges g1 (g_edges other) m))).
  { apply (sinv_frame g1); auto. intros j Hj. rewrite (has_block_blocks _ _ j Hb2). exact Hj. }
  destruct (s_import_edges g1 (g_edges other) m) as [g2 [u2| |]] eqn:E2; cbn [fst] in *; try exact Hs2.
  match goal with |- sinv (fst match ?a with _ => _ end) => destruct a end; cbn [fst]; try exact Hs2.
  match goal with |- sinv (fst match ?a with _ => _ end) => destruct a end; cbn [fst]; exact Hs2.
Qed.

(* ------------------------------------------------------------------ histories *)
Lemma s_run_inv g o : sinv g ->
  (forall other, o = SAppend other \/ o = SInsert other -> sinv other) -> sinv (s_run g o).
Proof.
  intros Hs Ho. destruct o; cbn [s_run].
  - apply new_block_inv; exact Hs.
  - apply ins_edge_inv; exact Hs.
  - apply ins_edge_inv; exact Hs.
  - apply set_entry_inv; exact Hs.
  - apply set_exit_inv; exact Hs.
  - apply push_op_inv; exact Hs.
  - apply remove_instruction_inv; exact Hs.
  - apply set_address_inv; exact Hs.
  - apply merge_inv; exact Hs.
  - apply append_inv; [exact Hs | apply Ho; left; reflexivity].
  - apply insert_inv; [exact Hs | apply Ho; right; reflexivity].
Qed.

(* graphs obtained from ControlFlowGraph::new() by the public operations; the graph handed to
   append / insert is itself such a graph *)
Inductive reachable : cfg -> Prop :=
| reach_new : reachable s_new
| reach_op g o : reachable g ->
    (forall other, o = SAppend other \/ o = SInsert other -> reachable other) -> reachable (s_run g o).

Theorem reachable_sinv g : reachable g -> sinv g.
Proof.
  induction 1 as [|g o Hg IH Ho IHo]; [exact sinv_new|]. apply s_run_inv; [exact IH | exact IHo].
Qed.

(* C15, clause 1 *)
Theorem cfg_inv_preserved g : reachable g -> cfg_inv g = true.
Proof. intros H. apply sinv_cfg_inv, reachable_sinv, H. Qed.

(* blockify is a composition of the public operations: its result (Ok or not) is reachable *)
Lemma append_all_reachable gs : forall g, reachable g -> (forall x, In x gs -> reachable x) ->
  reachable (fst (s_append_all g gs)).
Proof.
  induction gs as [|x t IH]; intros g Hg Hgs; cbn [s_append_all fst]; [exact Hg|].
  assert (H1 : reachable (fst (s_append g x))).
  { apply (reach_op g (SAppend x) Hg). intros other [[= <-]|[=]]. apply Hgs. left; reflexivity. }
  destruct (s_append g x) as [g' [u| |]]; cbn [fst] in *; auto.
  apply IH; [exact H1 | intros y Hy; apply Hgs; right; exact Hy].
Qed.

Theorem blockify_reachable gs : (forall x, In x gs -> reachable x) -> reachable (fst (s_blockify gs)).
Proof.
  intros Hgs. unfold s_blockify.
  assert (H1 : reachable (fst (s_new_block s_new))) by (apply (reach_op s_new SNewBlock reach_new); intros ? [[=]|[=]]).
  destruct (s_new_block s_new) as [g1 [bi| |]]; cbn [fst] in *; auto.
  assert (H2 : reachable (fst (s_set_entry g1 bi))) by (apply (reach_op g1 (SSetEntry bi) H1); intros ? [[=]|[=]]).
  destruct (s_set_entry g1 bi) as [g2 [u| |]]; cbn [fst] in *; auto.
  assert (H3 : reachable (fst (s_set_exit g2 bi))) by (apply (reach_op g2 (SSetExit bi) H2); intros ? [[=]|[=]]).
  destruct (s_set_exit g2 bi) as [g3 [u3| |]]; cbn [fst] in *; auto.
  pose proof (append_all_reachable gs g3 H3 Hgs) as H4.
  destruct (s_append_all g3 gs) as [g4 [u4| |]]; cbn [fst] in *; auto.
  apply (reach_op g4 SMerge H4). intros ? [[=]|[=]].
Qed.

(* histories without append/insert, for examples *)
Definition simple_op (o : sop) : Prop := match o with SAppend _ | SInsert _ => False | _ => True end.
Lemma reachable_fold ops : forall g, reachable g -> Forall simple_op ops -> reachable (fold_left s_run ops g).
Proof.
  induction ops as [|o t IH]; intros g Hg Hall; cbn [fold_left]; [exact Hg|].
  inversion Hall as [|? ? Ho Ht]; subst. apply IH; [|exact Ht].
  apply reach_op; [exact Hg|]. intros other [->| ->]; destruct Ho.
Qed.
