(* Cfg/Refine.v -- the four-map model (Cfg/CfgOps.v) refines the static-view model (Cfg/SOps.v):
   under C11's graph_inv and non-negative indices, every operation commutes with [to_static]
   (same result, same static state).  Primitive level first, then the operations. *)
From Coq Require Import ZArith List Bool NArith Lia Sorted.
From Falcon Require Import Base.Res Graph.NMap Graph.NMapFacts Graph.Graph Graph.GraphInv.
From Falcon Require Import IL.Const IL.Expr IL.Func IL.Loc IL.LocProofs Cfg.CfgOps Cfg.SOps Cfg.SProofs Cfg.MergeProofs Cfg.EProofs.
Import ListNotations.
Local Open Scope Z_scope.

(* two lists strictly sorted for the same strict order and with the same elements are equal *)
Lemma SS_ext {A} (R : A -> A -> Prop) :
  (forall x, ~ R x x) -> (forall x y z, R x y -> R y z -> R x z) ->
  forall l1 l2, StronglySorted R l1 -> StronglySorted R l2 -> (forall x, In x l1 <-> In x l2) -> l1 = l2.
Proof.
  intros Hirr Htr. induction l1 as [|a t IH]; intros [|b u] H1 H2 Hx.
  - reflexivity.
  - exfalso. apply (proj2 (Hx b)). left; reflexivity.
  - exfalso. apply (proj1 (Hx a)). left; reflexivity.
  - inversion H1 as [|? ? Hs1 Ha]; inversion H2 as [|? ? Hs2 Hb]; subst.
    rewrite Forall_forall in Ha, Hb.
    assert (a = b) as ->.
    { destruct (proj1 (Hx a) (or_introl eq_refl)) as [Hab|Hin]; [congruence|].
      destruct (proj2 (Hx b) (or_introl eq_refl)) as [Hab|Hin2]; [congruence|].
      exfalso. apply (Hirr a). eapply Htr; [apply Ha; exact Hin2 | apply Hb; exact Hin]. }
    f_equal. apply IH; auto. intros x; split; intros Hin.
    + destruct (proj1 (Hx x) (or_intror Hin)) as [Hbx|]; auto. subst x. exfalso. exact (Hirr b (Ha _ Hin)).
    + destruct (proj2 (Hx x) (or_intror Hin)) as [Hbx|]; auto. subst x. exfalso. exact (Hirr b (Hb _ Hin)).
Qed.

Lemma blt_irr x : ~ blt x x. Proof. unfold blt. lia. Qed.
Lemma blt_trans x y z : blt x y -> blt y z -> blt x z. Proof. unfold blt. lia. Qed.
Lemma elt_irr x : ~ elt x x. Proof. unfold elt. lia. Qed.
Lemma elt_trans x y z : elt x y -> elt y z -> elt x z. Proof. unfold elt. lia. Qed.

Definition blocks_ext := SS_ext blt blt_irr blt_trans.
Definition edges_ext := SS_ext elt elt_irr elt_trans.

(* ------------------------------------------------------------------ the simulation relation *)
Notation G := (graph block edge).
Definition nonneg (g : G) : Prop :=
  (forall k v, In (k, v) (Graph.g_vertices g) -> 0 <= b_index v) /\
  (forall k e, In (k, e) (Graph.g_edges g) -> 0 <= e_head e /\ 0 <= e_tail e).

Record rel (c : ecfg) : Prop := {
  r_inv : ginv (eg c);
  r_nn : nonneg (eg c) }.

Lemma zn_inj a b : 0 <= a -> 0 <= b -> zn a = zn b -> a = b.
Proof. unfold zn. lia. Qed.
Lemma zn_lt a b : 0 <= a -> 0 <= b -> (N.compare (zn a) (zn b) = Lt <-> a < b).
Proof. unfold zn. rewrite N.compare_lt_iff. lia. Qed.

Section Prim.
  Variable g : G.
  Hypothesis Hi : ginv g.
  Hypothesis Hn : nonneg g.

  Lemma vkey k v : In (k, v) (Graph.g_vertices g) -> k = zn (b_index v).
  Proof.
    intros H. apply (nm_get_in k v _ (gi_vsorted g Hi)) in H. symmetry. exact (gi_vkey g Hi k v H).
  Qed.
  Lemma ekey k e : In (k, e) (Graph.g_edges g) -> k = (zn (e_head e), zn (e_tail e)).
  Proof.
    intros H. apply (em_get_in k e _ (ai_esorted g (gi_adj g Hi))) in H. symmetry. exact (ai_ekey g (gi_adj g Hi) k e H).
  Qed.

  Lemma in_vertices v : In v (vertices g) <-> In (zn (b_index v), v) (Graph.g_vertices g).
  Proof.
    unfold vertices. rewrite in_map_iff. split.
    - intros ([k v'] & <- & H). cbn [snd]. rewrite <- (vkey k v' H). exact H.
    - intros H. exists (zn (b_index v), v). auto.
  Qed.
  Lemma in_edges e : In e (edges g) <-> In ((zn (e_head e), zn (e_tail e)), e) (Graph.g_edges g).
  Proof.
    unfold edges. rewrite in_map_iff. split.
    - intros ([k e'] & <- & H). cbn [snd]. rewrite <- (ekey k e' H). exact H.
    - intros H. exists ((zn (e_head e), zn (e_tail e)), e). auto.
  Qed.

  Lemma vertices_SS : StronglySorted blt (vertices g).
  Proof.
    pose proof (gi_vsorted g Hi) as Hs. destruct Hn as [Hnv _]. unfold vertices.
    assert (Hk : forall k v, In (k, v) (Graph.g_vertices g) -> k = zn (b_index v)) by exact vkey.
    revert Hs Hnv Hk. generalize (Graph.g_vertices g). intros m. induction m as [|[k v] t IH]; intros Hs Hnv Hk; cbn [map]; [constructor|].
    inversion Hs as [|? ? Hs' Hall]; subst. constructor.
    - apply IH; [exact Hs' | intros k' v' H; apply (Hnv k' v'); right; exact H | intros k' v' H; apply Hk; right; exact H].
    - apply Forall_forall. intros v' Hv'. apply in_map_iff in Hv' as ([k' v''] & <- & Hin). cbn [snd].
      rewrite Forall_forall in Hall. assert (Hlt : N.compare k k' = Lt) by (apply Hall; apply in_map_iff; exists (k', v''); auto).
      rewrite (Hk k v (or_introl eq_refl)), (Hk k' v'' (or_intror Hin)) in Hlt.
      apply zn_lt in Hlt; [exact Hlt | apply (Hnv k v); left; reflexivity | apply (Hnv k' v''); right; exact Hin].
  Qed.

  Lemma ecmp_lt_elt a b : 0 <= e_head a -> 0 <= e_tail a -> 0 <= e_head b -> 0 <= e_tail b ->
    ecmp (zn (e_head a), zn (e_tail a)) (zn (e_head b), zn (e_tail b)) = Lt -> elt a b.
  Proof.
    intros A1 A2 B1 B2. unfold ecmp. cbn [fst snd]. unfold elt.
    destruct (N.compare (zn (e_head a)) (zn (e_head b))) eqn:E; try discriminate.
    - apply N.compare_eq in E. apply zn_inj in E; [|assumption|assumption]. intros H. apply zn_lt in H; auto.
    - intros _. apply zn_lt in E; auto.
  Qed.

  Lemma edges_SS : StronglySorted elt (edges g).
  Proof.
    pose proof (ai_esorted g (gi_adj g Hi)) as Hs. destruct Hn as [_ Hne]. unfold edges.
    assert (Hk : forall k e, In (k, e) (Graph.g_edges g) -> k = (zn (e_head e), zn (e_tail e))) by exact ekey.
    revert Hs Hne Hk. generalize (Graph.g_edges g). intros m. induction m as [|[k e] t IH]; intros Hs Hne Hk; cbn [map]; [constructor|].
    inversion Hs as [|? ? Hs' Hall]; subst. constructor.
    - apply IH; [exact Hs' | intros k' e' H; apply (Hne k' e'); right; exact H | intros k' e' H; apply Hk; right; exact H].
    - apply Forall_forall. intros e' He'. apply in_map_iff in He' as ([k' e''] & <- & Hin). cbn [snd].
      rewrite Forall_forall in Hall. assert (Hlt : ecmp k k' = Lt) by (apply Hall; apply in_map_iff; exists (k', e''); auto).
      rewrite (Hk k e (or_introl eq_refl)), (Hk k' e'' (or_intror Hin)) in Hlt.
      destruct (Hne k e (or_introl eq_refl)). destruct (Hne k' e'' (or_intror Hin)). apply ecmp_lt_elt; auto.
  Qed.

  (* look-ups *)
  Lemma get_find i : 0 <= i -> nm_get (zn i) (Graph.g_vertices g) = find_block (vertices g) i.
  Proof.
    intros Hi0. destruct (find_block (vertices g) i) as [b|] eqn:F.
    - apply find_block_some in F as [Hb Hbi]. apply in_vertices in Hb. rewrite Hbi in Hb.
      apply (nm_get_in _ _ _ (gi_vsorted g Hi)). exact Hb.
    - destruct (nm_get (zn i) (Graph.g_vertices g)) as [v|] eqn:E; [|reflexivity]. exfalso.
      apply (nm_get_in _ _ _ (gi_vsorted g Hi)) in E. pose proof (vkey _ _ E) as Hk.
      assert (Hv : In v (vertices g)) by (apply in_vertices; rewrite <- Hk; exact E).
      apply zn_inj in Hk; [|exact Hi0 | exact (proj1 Hn _ _ E)].
      exact (find_block_none _ _ F v Hv (eq_sym Hk)).
  Qed.
  Lemma has_vertex_block c' i : 0 <= i -> vertices g = g_blocks c' -> has_vertex g (zn i) = has_block c' i.
  Proof.
    intros Hi0 E. unfold has_vertex, nm_mem, om_mem, has_block. fold (@nm_get block (zn i) (Graph.g_vertices g)).
    rewrite (get_find i Hi0), E. reflexivity.
  Qed.
  Lemma get_find_edge h t : 0 <= h -> 0 <= t -> em_get (zn h, zn t) (Graph.g_edges g) = find_edge (edges g) h t.
  Proof.
    intros Hh Ht. destruct (find_edge (edges g) h t) as [e|] eqn:F.
    - apply find_edge_some in F as (He & E1 & E2). apply in_edges in He. rewrite E1, E2 in He.
      apply (em_get_in _ _ _ (ai_esorted g (gi_adj g Hi))). exact He.
    - destruct (em_get (zn h, zn t) (Graph.g_edges g)) as [e|] eqn:E; [|reflexivity]. exfalso.
      apply (em_get_in _ _ _ (ai_esorted g (gi_adj g Hi))) in E. pose proof (ekey _ _ E) as Hk.
      assert (He : In e (edges g)) by (apply in_edges; rewrite <- Hk; exact E).
      injection Hk as K1 K2. destruct (proj2 Hn _ _ E) as [N1 N2].
      apply zn_inj in K1; auto. apply zn_inj in K2; auto.
      exact (find_edge_none _ _ _ F e He (conj (eq_sym K1) (eq_sym K2))).
  Qed.
End Prim.
