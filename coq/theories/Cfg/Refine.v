(* Cfg/Refine.v -- the four-map model (Cfg/CfgOps.v) refines the static-view model (Cfg/SOps.v):
   under C11's graph_inv and non-negative indices, every operation commutes with [to_static]
   (same result, same static state).  Primitive level first, then the operations. *)
From Coq Require Import ZArith List Bool NArith Lia Sorted.
From Falcon Require Import Base.Res Graph.NMap Graph.NMapFacts Graph.Graph Graph.GraphInv.
From Falcon Require Import IL.Const IL.Expr IL.Func IL.Loc IL.LocProofs Cfg.CfgOps Cfg.SOps Cfg.SProofs Cfg.MergeProofs Cfg.EProofs.
Import ListNotations.
Local Open Scope Z_scope.

(* two lists strictly sorted for the same strict order and with the same elements are equal *)
Lemma SS_ext {A} (R : A -> A -> Prop) :
  (forall x, ~ R x x) -> (forall x y z, R x y -> R y z -> R x z) ->
  forall l1 l2, StronglySorted R l1 -> StronglySorted R l2 -> (forall x, In x l1 <-> In x l2) -> l1 = l2.
Proof.
  intros Hirr Htr. induction l1 as [|a t IH]; intros [|b u] H1 H2 Hx.
  - reflexivity.
  - exfalso. apply (proj2 (Hx b)). left; reflexivity.
  - exfalso. apply (proj1 (Hx a)). left; reflexivity.
  - inversion H1 as [|? ? Hs1 Ha]; inversion H2 as [|? ? Hs2 Hb]; subst.
    rewrite Forall_forall in Ha, Hb.
    assert (a = b) as ->.
    { destruct (proj1 (Hx a) (or_introl eq_refl)) as [Hab|Hin]; [congruence|].
      destruct (proj2 (Hx b) (or_introl eq_refl)) as [Hab|Hin2]; [congruence|].
      exfalso. apply (Hirr a). eapply Htr; [apply Ha; exact Hin2 | apply Hb; exact Hin]. }
    f_equal. apply IH; auto. intros x; split; intros Hin.
    + destruct (proj1 (Hx x) (or_intror Hin)) as [Hbx|]; auto. subst x. exfalso. exact (Hirr b (Ha _ Hin)).
    + destruct (proj2 (Hx x) (or_intror Hin)) as [Hbx|]; auto. subst x. exfalso. exact (Hirr b (Hb _ Hin)).
Qed.

Lemma blt_irr x : ~ blt x x. Proof. unfold blt. lia. Qed.
Lemma blt_trans x y z : blt x y -> blt y z -> blt x z. Proof. unfold blt. lia. Qed.
Lemma elt_irr x : ~ elt x x. Proof. unfold elt. lia. Qed.
Lemma elt_trans x y z : elt x y -> elt y z -> elt x z. Proof. unfold elt. lia. Qed.

Definition blocks_ext := SS_ext blt blt_irr blt_trans.
Definition edges_ext := SS_ext elt elt_irr elt_trans.

(* ------------------------------------------------------------------ the simulation relation *)
Notation G := (graph block edge).
Definition nonneg (g : G) : Prop :=
  (forall k v, In (k, v) (Graph.g_vertices g) -> 0 <= b_index v) /\
  (forall k e, In (k, e) (Graph.g_edges g) -> 0 <= e_head e /\ 0 <= e_tail e).

Record rel (c : ecfg) : Prop := {
  r_inv : ginv (eg c);
  r_nn : nonneg (eg c) }.

Lemma zn_inj a b : 0 <= a -> 0 <= b -> zn a = zn b -> a = b.
Proof. unfold zn. lia. Qed.
Lemma zn_lt a b : 0 <= a -> 0 <= b -> (N.compare (zn a) (zn b) = Lt <-> a < b).
Proof. unfold zn. rewrite N.compare_lt_iff. lia. Qed.

Section Prim.
  Variable g : G.
  Hypothesis Hi : ginv g.
  Hypothesis Hn : nonneg g.

  Lemma vkey k v : In (k, v) (Graph.g_vertices g) -> k = zn (b_index v).
  Proof.
    intros H. apply (nm_get_in k v _ (gi_vsorted g Hi)) in H. symmetry. exact (gi_vkey g Hi k v H).
  Qed.
  Lemma ekey k e : In (k, e) (Graph.g_edges g) -> k = (zn (e_head e), zn (e_tail e)).
  Proof.
    intros H. apply (em_get_in k e _ (ai_esorted g (gi_adj g Hi))) in H. symmetry. exact (ai_ekey g (gi_adj g Hi) k e H).
  Qed.

  Lemma in_vertices v : In v (vertices g) <-> In (zn (b_index v), v) (Graph.g_vertices g).
  Proof.
    unfold vertices. rewrite in_map_iff. split.
    - intros ([k v'] & <- & H). cbn [snd]. rewrite <- (vkey k v' H). exact H.
    - intros H. exists (zn (b_index v), v). auto.
  Qed.
  Lemma in_edges e : In e (edges g) <-> In ((zn (e_head e), zn (e_tail e)), e) (Graph.g_edges g).
  Proof.
    unfold edges. rewrite in_map_iff. split.
    - intros ([k e'] & <- & H). cbn [snd]. rewrite <- (ekey k e' H). exact H.
    - intros H. exists ((zn (e_head e), zn (e_tail e)), e). auto.
  Qed.

  Lemma vertices_SS : StronglySorted blt (vertices g).
  Proof.
    pose proof (gi_vsorted g Hi) as Hs. destruct Hn as [Hnv _]. unfold vertices.
    assert (Hk : forall k v, In (k, v) (Graph.g_vertices g) -> k = zn (b_index v)) by exact vkey.
    revert Hs Hnv Hk. generalize (Graph.g_vertices g). intros m. induction m as [|[k v] t IH]; intros Hs Hnv Hk; cbn [map]; [constructor|].
    inversion Hs as [|? ? Hs' Hall]; subst. constructor.
    - apply IH; [exact Hs' | intros k' v' H; apply (Hnv k' v'); right; exact H | intros k' v' H; apply Hk; right; exact H].
    - apply Forall_forall. intros v' Hv'. apply in_map_iff in Hv' as ([k' v''] & <- & Hin). cbn [snd].
      rewrite Forall_forall in Hall. assert (Hlt : N.compare k k' = Lt) by (apply Hall; apply in_map_iff; exists (k', v''); auto).
      rewrite (Hk k v (or_introl eq_refl)), (Hk k' v'' (or_intror Hin)) in Hlt.
      apply zn_lt in Hlt; [exact Hlt | apply (Hnv k v); left; reflexivity | apply (Hnv k' v''); right; exact Hin].
  Qed.

  Lemma ecmp_lt_elt a b : 0 <= e_head a -> 0 <= e_tail a -> 0 <= e_head b -> 0 <= e_tail b ->
    ecmp (zn (e_head a), zn (e_tail a)) (zn (e_head b), zn (e_tail b)) = Lt -> elt a b.
  Proof.
    intros A1 A2 B1 B2. unfold ecmp. cbn [fst snd]. unfold elt.
    destruct (N.compare (zn (e_head a)) (zn (e_head b))) eqn:E; try discriminate.
    - apply N.compare_eq in E. apply zn_inj in E; [|assumption|assumption]. intros H. apply zn_lt in H; auto.
    - intros _. apply zn_lt in E; auto.
  Qed.

  Lemma edges_SS : StronglySorted elt (edges g).
  Proof.
    pose proof (ai_esorted g (gi_adj g Hi)) as Hs. destruct Hn as [_ Hne]. unfold edges.
    assert (Hk : forall k e, In (k, e) (Graph.g_edges g) -> k = (zn (e_head e), zn (e_tail e))) by exact ekey.
    revert Hs Hne Hk. generalize (Graph.g_edges g). intros m. induction m as [|[k e] t IH]; intros Hs Hne Hk; cbn [map]; [constructor|].
    inversion Hs as [|? ? Hs' Hall]; subst. constructor.
    - apply IH; [exact Hs' | intros k' e' H; apply (Hne k' e'); right; exact H | intros k' e' H; apply Hk; right; exact H].
    - apply Forall_forall. intros e' He'. apply in_map_iff in He' as ([k' e''] & <- & Hin). cbn [snd].
      rewrite Forall_forall in Hall. assert (Hlt : ecmp k k' = Lt) by (apply Hall; apply in_map_iff; exists (k', e''); auto).
      rewrite (Hk k e (or_introl eq_refl)), (Hk k' e'' (or_intror Hin)) in Hlt.
      destruct (Hne k e (or_introl eq_refl)). destruct (Hne k' e'' (or_intror Hin)). apply ecmp_lt_elt; auto.
  Qed.

  (* look-ups *)
  Lemma get_find i : 0 <= i -> nm_get (zn i) (Graph.g_vertices g) = find_block (vertices g) i.
  Proof.
    intros Hi0. destruct (find_block (vertices g) i) as [b|] eqn:F.
    - apply find_block_some in F as [Hb Hbi]. apply in_vertices in Hb. rewrite Hbi in Hb.
      apply (nm_get_in _ _ _ (gi_vsorted g Hi)). exact Hb.
    - destruct (nm_get (zn i) (Graph.g_vertices g)) as [v|] eqn:E; [|reflexivity]. exfalso.
      apply (nm_get_in _ _ _ (gi_vsorted g Hi)) in E. pose proof (vkey _ _ E) as Hk.
      assert (Hv : In v (vertices g)) by (apply in_vertices; rewrite <- Hk; exact E).
      apply zn_inj in Hk; [|exact Hi0 | exact (proj1 Hn _ _ E)].
      exact (find_block_none _ _ F v Hv (eq_sym Hk)).
  Qed.
  Lemma has_vertex_block c' i : 0 <= i -> vertices g = g_blocks c' -> has_vertex g (zn i) = has_block c' i.
  Proof.
    intros Hi0 E. unfold has_vertex, nm_mem, om_mem, has_block. fold (@nm_get block (zn i) (Graph.g_vertices g)).
    rewrite (get_find i Hi0), E. reflexivity.
  Qed.
  Lemma get_find_edge h t : 0 <= h -> 0 <= t -> em_get (zn h, zn t) (Graph.g_edges g) = find_edge (edges g) h t.
  Proof.
    intros Hh Ht. destruct (find_edge (edges g) h t) as [e|] eqn:F.
    - apply find_edge_some in F as (He & E1 & E2). apply in_edges in He. rewrite E1, E2 in He.
      apply (em_get_in _ _ _ (ai_esorted g (gi_adj g Hi))). exact He.
    - destruct (em_get (zn h, zn t) (Graph.g_edges g)) as [e|] eqn:E; [|reflexivity]. exfalso.
      apply (em_get_in _ _ _ (ai_esorted g (gi_adj g Hi))) in E. pose proof (ekey _ _ E) as Hk.
      assert (He : In e (edges g)) by (apply in_edges; rewrite <- Hk; exact E).
      injection Hk as K1 K2. destruct (proj2 Hn _ _ E) as [N1 N2].
      apply zn_inj in K1; auto. apply zn_inj in K2; auto.
      exact (find_edge_none _ _ _ F e He (conj (eq_sym K1) (eq_sym K2))).
  Qed.
End Prim.

(* ------------------------------------------------------------------ membership after map updates *)
Lemma in_nm_insert {A} k0 (a0 : A) m k a : nsorted (map fst m) ->
  (In (k, a) (nm_insert k0 a0 m) <-> (k = k0 /\ a = a0) \/ (k <> k0 /\ In (k, a) m)).
Proof.
  intros Hs. rewrite <- (nm_get_in k a _ (nm_insert_sorted k0 a0 m Hs)).
  destruct (N.eq_dec k k0) as [->|Hne].
  - rewrite nm_get_insert_same. split; [intros [= <-]; left; auto | intros [[_ ->]|[H _]]; [reflexivity | contradiction]].
  - rewrite (nm_get_insert_other k0 k a0 m Hne), (nm_get_in k a m Hs). split; [intros H; right; auto | intros [[H _]|[_ H]]; [contradiction | exact H]].
Qed.
Lemma in_em_insert {A} k0 (a0 : A) m k a : esorted (map fst m) ->
  (In (k, a) (em_insert k0 a0 m) <-> (k = k0 /\ a = a0) \/ (k <> k0 /\ In (k, a) m)).
Proof.
  intros Hs. rewrite <- (em_get_in k a _ (em_insert_sorted k0 a0 m Hs)).
  destruct (edge_eqb k k0) eqn:E.
  - apply edge_eqb_eq in E. subst. rewrite em_get_insert_same. split; [intros [= <-]; left; auto | intros [[_ ->]|[H _]]; [reflexivity | contradiction]].
  - assert (Hne : k <> k0) by (intros ->; assert (edge_eqb k0 k0 = true) by (apply edge_eqb_eq; reflexivity); congruence).
    rewrite (em_get_insert_other k0 k a0 m Hne), (em_get_in k a m Hs). split; [intros H; right; auto | intros [[H _]|[_ H]]; [contradiction | exact H]].
Qed.
Lemma in_nm_remove {A} k0 (m : nmap A) k a : nsorted (map fst m) ->
  (In (k, a) (nm_remove k0 m) <-> k <> k0 /\ In (k, a) m).
Proof.
  intros Hs. rewrite <- (nm_get_in k a _ (nm_remove_sorted k0 m Hs)).
  destruct (N.eq_dec k k0) as [->|Hne].
  - rewrite nm_get_remove_same. split; [discriminate | intros [H _]; contradiction].
  - rewrite (nm_get_remove_other k0 k m Hne), (nm_get_in k a m Hs). tauto.
Qed.

(* ------------------------------------------------------------------ primitives commute with to_static *)
Definition with_g (c : ecfg) (g : G) : ecfg := with_graph c g.

Lemma to_static_with c g1 : to_static (with_graph c g1) = s_with (to_static c) (vertices g1) (edges g1).
Proof. reflexivity. Qed.

Lemma insert_vertex_refines c v : rel c -> 0 <= b_index v ->
  match insert_vertex (eg c) v with
  | Ok g1 => s_insert_vertex (to_static c) v = Ok (to_static (with_graph c g1)) /\ rel (with_graph c g1)
  | Err e => s_insert_vertex (to_static c) v = Err e
  | Panic => False
  end.
Proof.
  intros [Hi Hn] Hv0. unfold s_insert_vertex.
  rewrite <- (has_vertex_block (eg c) Hi Hn (to_static c) (b_index v) Hv0 eq_refl).
  destruct (has_vertex (eg c) (zn (b_index v))) eqn:Hh.
  - assert (Hh' : has_vertex (eg c) (vindex v) = true) by exact Hh.
    rewrite (insert_vertex_err (eg c) v Hh'). reflexivity.
  - assert (Hh' : has_vertex (eg c) (vindex v) = false) by exact Hh.
    destruct (insert_vertex_inv (eg c) v Hi Hh') as (g1 & E & Hi1 & Ev & Ee). rewrite E.
    assert (Hn1 : nonneg g1).
    { split.
      - intros k x Hx. rewrite Ev in Hx. apply (in_nm_insert _ _ _ _ _ (gi_vsorted _ Hi)) in Hx as [[_ ->]|[_ Hx]]; [exact Hv0 | exact (proj1 Hn k x Hx)].
      - intros k e He. rewrite Ee in He. exact (proj2 Hn k e He). }
    split; [|split; assumption].
    rewrite to_static_with. cbn [to_static g_blocks g_edges].
    assert (EE : edges g1 = edges (eg c)) by (unfold edges; rewrite Ee; reflexivity). rewrite EE.
    enough (EV : vertices g1 = ins_block v (vertices (eg c))) by (rewrite EV; reflexivity).
    symmetry. apply blocks_ext.
    + apply ins_block_SS; [apply vertices_SS; assumption|]. intros x Hx E'.
      apply (in_vertices (eg c) Hi) in Hx. rewrite E' in Hx.
      assert (nm_mem (zn (b_index v)) (Graph.g_vertices (eg c)) = true) by (apply nm_mem_in; apply in_map_iff; exists (zn (b_index v), x); auto).
      unfold has_vertex in Hh. congruence.
    + apply vertices_SS; assumption.
    + intros x. rewrite in_ins_block, (in_vertices g1 Hi1), (in_vertices (eg c) Hi), Ev.
      rewrite (in_nm_insert _ _ _ _ _ (gi_vsorted _ Hi)). cbn [vindex block_Vertex]. split.
      * intros [->|H]; [left; auto|]. right. split; [|exact H]. intros E'.
        assert (nm_mem (zn (b_index v)) (Graph.g_vertices (eg c)) = true) by (apply nm_mem_in; apply in_map_iff; exists (zn (b_index x), x); split; [exact E' | exact H]).
        unfold has_vertex in Hh. congruence.
      * intros [[_ ->]|[_ H]]; auto.
Qed.

Lemma insert_edge_refines c e : rel c -> 0 <= e_head e -> 0 <= e_tail e ->
  match insert_edge (eg c) e with
  | Ok g1 => s_insert_edge (to_static c) e = Ok (to_static (with_graph c g1)) /\ rel (with_graph c g1)
  | Err x => s_insert_edge (to_static c) e = Err x
  | Panic => False
  end.
Proof.
  intros [Hi Hn] Hh0 Ht0. unfold s_insert_edge. cbn [to_static g_edges].
  rewrite <- (get_find_edge (eg c) Hi Hn _ _ Hh0 Ht0).
  rewrite <- (has_vertex_block (eg c) Hi Hn (to_static c) (e_head e) Hh0 eq_refl).
  rewrite <- (has_vertex_block (eg c) Hi Hn (to_static c) (e_tail e) Ht0 eq_refl).
  destruct (em_get (zn (e_head e), zn (e_tail e)) (Graph.g_edges (eg c))) as [e0|] eqn:Eg.
  - assert (Hm : has_edge (eg c) (ehead e) (etail e) = true).
    { unfold has_edge. apply em_mem_get. exists e0. exact Eg. }
    unfold insert_edge. unfold has_edge in Hm. rewrite Hm. reflexivity.
  - assert (Hm : has_edge (eg c) (ehead e) (etail e) = false).
    { unfold has_edge. destruct (em_mem (ehead e, etail e) (Graph.g_edges (eg c))) eqn:M; [|reflexivity].
      apply em_mem_get in M as [a Ha]. change (em_get (zn (e_head e), zn (e_tail e)) (Graph.g_edges (eg c)) = Some a) in Ha. congruence. }
    destruct (has_vertex (eg c) (zn (e_head e))) eqn:Hh.
    + destruct (has_vertex (eg c) (zn (e_tail e))) eqn:Ht.
      * destruct (insert_edge_inv (eg c) e Hi Hm Hh Ht) as (g1 & E & Hi1 & Ev & Ee). rewrite E. cbn [negb].
        assert (Hn1 : nonneg g1).
        { split.
          - intros k x Hx. rewrite Ev in Hx. exact (proj1 Hn k x Hx).
          - intros k x Hx. rewrite Ee in Hx. apply (in_em_insert _ _ _ _ _ (ai_esorted _ (gi_adj _ Hi))) in Hx as [[_ ->]|[_ Hx]]; [auto | exact (proj2 Hn k x Hx)]. }
        split; [|split; assumption].
        rewrite to_static_with. cbn [to_static g_blocks g_edges].
        assert (EV : vertices g1 = vertices (eg c)) by (unfold vertices; rewrite Ev; reflexivity). rewrite EV.
        enough (EE : edges g1 = ins_edge_l e (edges (eg c))) by (rewrite EE; reflexivity).
        symmetry. apply edges_ext.
        -- apply ins_edge_SS; [apply edges_SS; assumption|]. intros x Hx [E1 E2].
           apply (in_edges (eg c) Hi) in Hx. rewrite E1, E2 in Hx.
           apply (em_get_in _ _ _ (ai_esorted _ (gi_adj _ Hi))) in Hx. congruence.
        -- apply edges_SS; assumption.
        -- intros x. rewrite in_ins_edge, (in_edges g1 Hi1), (in_edges (eg c) Hi), Ee.
           rewrite (in_em_insert _ _ _ _ _ (ai_esorted _ (gi_adj _ Hi))).
           change (@ehead edge edge_Edge e) with (zn (e_head e)). change (@etail edge edge_Edge e) with (zn (e_tail e)). split.
           ++ intros [->|H]; [left; auto|]. right. split; [|exact H]. intros E'. rewrite E' in H.
              apply (em_get_in _ _ _ (ai_esorted _ (gi_adj _ Hi))) in H. congruence.
           ++ intros [[_ ->]|[_ H]]; auto.
      * unfold insert_edge. unfold has_edge in Hm. rewrite Hm. unfold has_vertex in Hh, Ht. change (@ehead edge edge_Edge e) with (zn (e_head e)). change (@etail edge edge_Edge e) with (zn (e_tail e)). rewrite Hh, Ht. reflexivity.
    + unfold insert_edge. unfold has_edge in Hm. rewrite Hm. unfold has_vertex in Hh. change (@ehead edge edge_Edge e) with (zn (e_head e)). change (@etail edge edge_Edge e) with (zn (e_tail e)). rewrite Hh. reflexivity.
Qed.

Lemma in_em_remove {A} k0 (m : emap A) k a : esorted (map fst m) ->
  (In (k, a) (em_remove k0 m) <-> k <> k0 /\ In (k, a) m).
Proof.
  intros Hs. rewrite <- (em_get_in k a _ (em_remove_sorted k0 m Hs)).
  destruct (edge_eqb k k0) eqn:E.
  - apply edge_eqb_eq in E. subst. rewrite em_get_remove_same. split; [discriminate | intros [H _]; contradiction].
  - assert (Hne : k <> k0) by (intros ->; assert (edge_eqb k0 k0 = true) by (apply edge_eqb_eq; reflexivity); congruence).
    rewrite (em_get_remove_other k0 k m Hne), (em_get_in k a m Hs). tauto.
Qed.

Lemma fold_em_remove_in {A} (l : list (N * N)) : forall (m : emap A) k a, esorted (map fst m) ->
  esorted (map fst (fold_left (fun m e => em_remove e m) l m)) /\
  (In (k, a) (fold_left (fun m e => em_remove e m) l m) <-> ~ In k l /\ In (k, a) m).
Proof.
  induction l as [|k0 t IH]; intros m k a Hs; cbn [fold_left].
  - split; [exact Hs | tauto].
  - destruct (IH (em_remove k0 m) k a (em_remove_sorted k0 m Hs)) as [S1 S2]. split; [exact S1|].
    rewrite S2, (in_em_remove k0 m k a Hs). cbn [In]. split.
    + intros [H1 [H2 H3]]. split; [intros [E|E]; [congruence | contradiction] | exact H3].
    + intros [H1 H2]. split; [tauto|]. split; [intros E; apply H1; left; congruence | exact H2].
Qed.

Lemma update_vertex_refines c i f : rel c -> 0 <= i -> (forall v, b_index (f v) = b_index v) ->
  match update_vertex (eg c) (zn i) f with
  | Ok g1 => s_update_block (to_static c) i f = Ok (to_static (with_graph c g1)) /\ rel (with_graph c g1)
  | Err x => s_update_block (to_static c) i f = Err x
  | Panic => False
  end.
Proof.
  intros [Hi Hn] Hi0 Hf. unfold update_vertex, s_update_block. cbn [to_static g_blocks].
  rewrite (get_find (eg c) Hi Hn i Hi0).
  destruct (find_block (vertices (eg c)) i) as [v|] eqn:F; [|reflexivity].
  set (g1 := mkGraph (nm_insert (zn i) (f v) (Graph.g_vertices (eg c))) (Graph.g_edges (eg c)) (Graph.g_successors (eg c)) (Graph.g_predecessors (eg c))).
  assert (Eu : update_vertex (eg c) (zn i) f = Ok g1).
  { unfold update_vertex. rewrite (get_find (eg c) Hi Hn i Hi0), F. reflexivity. }
  assert (Hi1 : ginv g1).
  { apply (update_vertex_inv (eg c) (zn i) f Hi); [|exact Eu]. intros x. cbn [vindex block_Vertex]. rewrite Hf. reflexivity. }
  apply find_block_some in F as [Hv Hvi].
  assert (Hvin : In (zn i, v) (Graph.g_vertices (eg c))) by (apply (in_vertices (eg c) Hi) in Hv; rewrite Hvi in Hv; exact Hv).
  assert (Hn1 : nonneg g1).
  { split.
    - intros k x Hx. cbn [g1 Graph.g_vertices] in Hx. apply (in_nm_insert _ _ _ _ _ (gi_vsorted _ Hi)) in Hx as [[_ ->]|[_ Hx]].
      + rewrite Hf. exact (proj1 Hn _ _ Hvin).
      + exact (proj1 Hn k x Hx).
    - intros k e He. exact (proj2 Hn k e He). }
  split; [|split; assumption].
  rewrite to_static_with. cbn [to_static g_blocks g_edges].
  assert (EE : edges g1 = edges (eg c)) by reflexivity. rewrite EE.
  enough (EV : vertices g1 = map (fun x => if b_index x =? i then f x else x) (vertices (eg c))) by (rewrite EV; reflexivity).
  apply blocks_ext.
  - apply vertices_SS; assumption.
  - pose proof (vertices_SS (eg c) Hi Hn) as Hss. clear - Hss Hf.
    induction Hss as [|x t Hs IH Hall]; cbn [map]; [constructor|]. constructor; [exact IH|].
    apply Forall_forall. intros y Hy. apply in_map_iff in Hy as (z & <- & Hz). rewrite Forall_forall in Hall. specialize (Hall z Hz).
    unfold blt in *. destruct (b_index x =? i), (b_index z =? i); rewrite ?Hf; exact Hall.
  - intros x. rewrite (in_vertices g1 Hi1). cbn [g1 Graph.g_vertices].
    rewrite (in_nm_insert _ _ _ _ _ (gi_vsorted _ Hi)), in_map_iff. split.
    + intros [[Hk ->]|[Hk Hx]].
      * exists v. split; [rewrite Hvi, Z.eqb_refl; reflexivity | exact Hv].
      * exists x. split; [|apply (in_vertices (eg c) Hi); exact Hx].
        destruct (b_index x =? i) eqn:E; [|reflexivity]. apply Z.eqb_eq in E. exfalso. apply Hk. rewrite E. reflexivity.
    + intros (y & <- & Hy). destruct (b_index y =? i) eqn:E.
      * apply Z.eqb_eq in E. left. rewrite Hf, E. split; [reflexivity|]. f_equal.
        pose proof (find_block_in _ y (proj2 (sorted_by_SS b_index _) (vertices_SS (eg c) Hi Hn)) Hy) as F1.
        pose proof (find_block_in _ v (proj2 (sorted_by_SS b_index _) (vertices_SS (eg c) Hi Hn)) Hv) as F2.
        rewrite E in F1. rewrite Hvi in F2. congruence.
      * apply Z.eqb_neq in E. right. split.
        -- intros K. apply zn_inj in K; [contradiction | | exact Hi0].
           apply (in_vertices (eg c) Hi) in Hy. exact (proj1 Hn _ _ Hy).
        -- apply (in_vertices (eg c) Hi). exact Hy.
Qed.

Lemma remove_vertex_refines c i : rel c -> 0 <= i ->
  match remove_vertex (eg c) (zn i) with
  | Ok g1 => s_remove_vertex (to_static c) i = Ok (to_static (with_graph c g1)) /\ rel (with_graph c g1)
  | Err x => s_remove_vertex (to_static c) i = Err x
  | Panic => False
  end.
Proof.
  intros [Hi Hn] Hi0. unfold s_remove_vertex.
  rewrite <- (has_vertex_block (eg c) Hi Hn (to_static c) i Hi0 eq_refl).
  destruct (has_vertex (eg c) (zn i)) eqn:Hh; cbn [negb].
  - destruct (remove_vertex_inv (eg c) (zn i) Hi Hh) as (g1 & E & Hi1 & Ev & Ee & _). rewrite E.
    pose proof (ai_esorted _ (gi_adj _ Hi)) as Hes.
    destruct (incident_edges_spec (eg c) (zn i) (gi_adj _ Hi)) as (_ & Hinc_e & Hinc1 & Hinc2).
    assert (Hein : forall k e, In (k, e) (Graph.g_edges g1) <-> In (k, e) (Graph.g_edges (eg c)) /\ fst k <> zn i /\ snd k <> zn i).
    { intros k e. rewrite Ee. rewrite (proj2 (fold_em_remove_in (incident_edges (eg c) (zn i)) (Graph.g_edges (eg c)) k e Hes)). split.
      - intros [H1 H2]. split; [exact H2|]. destruct k as [h t]. cbn [fst snd]. split; intros ->; apply H1; apply Hinc1; auto;
          apply em_mem_in; apply in_map_iff; exists ((zn i, t), e) + exists ((h, zn i), e); auto.
      - intros [H1 [H2 H3]]. split; [|exact H1]. destruct k as [h t]. intros Hin. destruct (Hinc2 h t Hin); cbn [fst snd] in *; contradiction. }
    assert (Hn1 : nonneg g1).
    { split.
      - intros k x Hx. rewrite Ev in Hx. apply (in_nm_remove _ _ _ _ (gi_vsorted _ Hi)) in Hx as [_ Hx]. exact (proj1 Hn k x Hx).
      - intros k e He. apply Hein in He as [He _]. exact (proj2 Hn k e He). }
    split; [|split; assumption].
    rewrite to_static_with. cbn [to_static g_blocks g_edges]. f_equal. f_equal.
    + symmetry. apply blocks_ext; [apply vertices_SS; assumption | apply SS_filter; apply vertices_SS; assumption |].
      intros x. rewrite (in_vertices g1 Hi1), Ev, (in_nm_remove _ _ _ _ (gi_vsorted _ Hi)), filter_In, (in_vertices (eg c) Hi), negb_true_iff, Z.eqb_neq. split.
      * intros [H1 H2]. split; [exact H2 | intros E'; apply H1; rewrite E'; reflexivity].
      * intros [H1 H2]. split; [|exact H1]. intros K. apply zn_inj in K; [contradiction | exact (proj1 Hn _ _ H1) | exact Hi0].
    + symmetry. apply edges_ext; [apply edges_SS; assumption | apply SS_filter; apply edges_SS; assumption |].
      intros x. rewrite (in_edges g1 Hi1), Hein, filter_In, (in_edges (eg c) Hi), andb_true_iff, !negb_true_iff, !Z.eqb_neq. cbn [fst snd]. split.
      * intros [H1 [H2 H3]]. split; [exact H1|]. split; intros E'; [apply H2 | apply H3]; rewrite E'; reflexivity.
      * intros [H1 [H2 H3]]. split; [exact H1|]. destruct (proj2 Hn _ _ H1) as [N1 N2].
        split; intros K; apply zn_inj in K; auto.
  - rewrite (remove_vertex_err (eg c) (zn i) Hh). reflexivity.
Qed.

(* ------------------------------------------------------------------ edges_out / edges_in *)
Section Lookup.
  Variable g : G.
  Hypothesis Hi : ginv g.
  Hypothesis Hn : nonneg g.
  Definition ekey_of (e : edge) : N * N := (zn (e_head e), zn (e_tail e)).

  Lemma lookup_edges_ok keys : (forall k, In k keys -> em_mem k (Graph.g_edges g) = true) ->
    exists l, lookup_edges (Graph.g_edges g) keys = Ok l /\ Forall2 (fun k e => em_get k (Graph.g_edges g) = Some e) keys l.
  Proof.
    induction keys as [|k t IH]; intros H; cbn [lookup_edges].
    - exists []. split; [reflexivity | constructor].
    - destruct (proj1 (em_mem_get k _) (H k (or_introl eq_refl))) as [e He]. rewrite He.
      destruct (IH (fun k' Hk' => H k' (or_intror Hk'))) as (l & El & Hl). rewrite El. cbn [bind].
      exists (e :: l). split; [reflexivity | constructor; assumption].
  Qed.

  Lemma get_edge_facts k e : em_get k (Graph.g_edges g) = Some e ->
    In e (edges g) /\ k = ekey_of e /\ 0 <= e_head e /\ 0 <= e_tail e.
  Proof.
    intros H. apply (em_get_in _ _ _ (ai_esorted _ (gi_adj _ Hi))) in H.
    pose proof (ekey g Hi k e H) as Hk. split; [apply (in_edges g Hi); unfold ekey_of in Hk; rewrite <- Hk; exact H|].
    split; [exact Hk | exact (proj2 Hn k e H)].
  Qed.

  Lemma lookup_filter keys (P : edge -> bool) : esorted keys ->
    (forall k, In k keys -> em_mem k (Graph.g_edges g) = true) ->
    (forall e, In e (edges g) -> (P e = true <-> In (ekey_of e) keys)) ->
    lookup_edges (Graph.g_edges g) keys = Ok (filter P (edges g)).
  Proof.
    intros Hs Hmem HP. destruct (lookup_edges_ok keys Hmem) as (l & El & Hl). rewrite El. f_equal.
    apply edges_ext.
    - (* l is sorted because the keys are *)
      clear El Hmem HP. induction Hl as [|k e ks es Hke Hrest IH]; [constructor|].
      inversion Hs as [|? ? Hs' Hall]; subst. constructor; [apply IH; exact Hs'|].
      apply Forall_forall. intros e' He'. rewrite Forall_forall in Hall.
      assert (Hex : exists k', In k' ks /\ em_get k' (Graph.g_edges g) = Some e').
      { clear - Hrest He'. induction Hrest as [|k0 e0 ks0 es0 H0 Hr IH']; [destruct He'|].
        destruct He' as [<-|He']; [exists k0; split; [left; reflexivity | exact H0]|].
        destruct (IH' He') as (k' & Hk' & Hg). exists k'. split; [right; exact Hk' | exact Hg]. }
      destruct Hex as (k' & Hk' & Hg'). specialize (Hall k' Hk').
      destruct (get_edge_facts k e Hke) as (_ & -> & A1 & A2). destruct (get_edge_facts k' e' Hg') as (_ & -> & B1 & B2).
      apply ecmp_lt_elt; assumption.
    - apply SS_filter. apply edges_SS; assumption.
    - intros e. rewrite filter_In. split.
      + intros He.
        assert (Hex : exists k, In k keys /\ em_get k (Graph.g_edges g) = Some e).
        { clear - Hl He. induction Hl as [|k0 e0 ks0 es0 H0 Hr IH']; [destruct He|].
          destruct He as [<-|He]; [exists k0; split; [left; reflexivity | exact H0]|].
          destruct (IH' He) as (k' & Hk' & Hg). exists k'. split; [right; exact Hk' | exact Hg]. }
        destruct Hex as (k & Hk & Hg). destruct (get_edge_facts k e Hg) as (Hin & -> & _).
        split; [exact Hin | apply HP; assumption].
      + intros [Hin HPe]. apply HP in HPe; [|exact Hin].
        assert (Hg : em_get (ekey_of e) (Graph.g_edges g) = Some e).
        { apply (em_get_in _ _ _ (ai_esorted _ (gi_adj _ Hi))). apply (in_edges g Hi). exact Hin. }
        clear - Hl HPe Hg. induction Hl as [|k0 e0 ks0 es0 H0 Hr IH']; [destruct HPe|].
        destruct HPe as [->|HPe]; [left; congruence | right; apply IH'; exact HPe].
  Qed.

  Lemma esorted_map_head a ss : nsorted ss -> esorted (map (fun s => (a, s)) ss).
  Proof.
    induction 1 as [|x t Hs IH Hall]; cbn [map]; constructor; [exact IH|].
    apply Forall_forall. intros k Hk. apply in_map_iff in Hk as (y & <- & Hy). rewrite Forall_forall in Hall.
    unfold ecmp. cbn [fst snd]. rewrite N.compare_refl. exact (Hall y Hy).
  Qed.
  Lemma esorted_map_tail a ps : nsorted ps -> esorted (map (fun p => (p, a)) ps).
  Proof.
    induction 1 as [|x t Hs IH Hall]; cbn [map]; constructor; [exact IH|].
    apply Forall_forall. intros k Hk. apply in_map_iff in Hk as (y & <- & Hy). rewrite Forall_forall in Hall.
    unfold ecmp. cbn [fst snd]. rewrite (Hall y Hy). reflexivity.
  Qed.

  Lemma edges_out_refines c' i : 0 <= i -> vertices g = g_blocks c' -> edges g = g_edges c' ->
    edges_out g (zn i) = cfg_edges_out c' i.
  Proof.
    intros Hi0 EV EE. unfold edges_out, cfg_edges_out.
    rewrite <- (has_vertex_block g Hi Hn c' i Hi0 EV). unfold has_vertex. rewrite <- (gi_skeys g Hi).
    destruct (nm_get (zn i) (Graph.g_successors g)) as [ss|] eqn:Es.
    - assert (Hm : nm_mem (zn i) (Graph.g_successors g) = true) by (apply nm_mem_get; eauto). rewrite Hm, <- EE.
      pose proof (gi_adj g Hi) as Ha.
      apply lookup_filter.
      + apply esorted_map_head. exact (ai_sset g Ha _ _ Es).
      + intros k Hk. apply in_map_iff in Hk as (s & <- & Hs). apply (ai_succ g Ha). eauto.
      + intros e He. rewrite Z.eqb_eq, in_map_iff. unfold ekey_of. split.
        * intros <-. exists (zn (e_tail e)). split; [reflexivity|].
          assert (Hmem : em_mem (zn (e_head e), zn (e_tail e)) (Graph.g_edges g) = true).
          { apply em_mem_in. apply in_map_iff. exists ((zn (e_head e), zn (e_tail e)), e). split; [reflexivity | apply (in_edges g Hi); exact He]. }
          apply (ai_succ g Ha) in Hmem as (s' & Hs' & Hin). congruence.
        * intros (s & [= K1 K2] & _). apply (in_edges g Hi) in He. destruct (proj2 Hn _ _ He). symmetry. apply zn_inj; auto.
    - assert (Hm : nm_mem (zn i) (Graph.g_successors g) = false) by (apply nm_mem_false_get; exact Es). rewrite Hm. reflexivity.
  Qed.

  Lemma edges_in_refines c' i : 0 <= i -> vertices g = g_blocks c' -> edges g = g_edges c' ->
    edges_in g (zn i) = cfg_edges_in c' i.
  Proof.
    intros Hi0 EV EE. unfold edges_in, cfg_edges_in.
    rewrite <- (has_vertex_block g Hi Hn c' i Hi0 EV). unfold has_vertex. rewrite <- (gi_pkeys g Hi).
    destruct (nm_get (zn i) (Graph.g_predecessors g)) as [ps|] eqn:Es.
    - assert (Hm : nm_mem (zn i) (Graph.g_predecessors g) = true) by (apply nm_mem_get; eauto). rewrite Hm, <- EE.
      pose proof (gi_adj g Hi) as Ha.
      apply lookup_filter.
      + apply esorted_map_tail. exact (ai_pset g Ha _ _ Es).
      + intros k Hk. apply in_map_iff in Hk as (p & <- & Hp). apply (ai_pred g Ha). eauto.
      + intros e He. rewrite Z.eqb_eq, in_map_iff. unfold ekey_of. split.
        * intros <-. exists (zn (e_head e)). split; [reflexivity|].
          assert (Hmem : em_mem (zn (e_head e), zn (e_tail e)) (Graph.g_edges g) = true).
          { apply em_mem_in. apply in_map_iff. exists ((zn (e_head e), zn (e_tail e)), e). split; [reflexivity | apply (in_edges g Hi); exact He]. }
          apply (ai_pred g Ha) in Hmem as (p' & Hp' & Hin). congruence.
        * intros (p & [= K1 K2] & _). apply (in_edges g Hi) in He. destruct (proj2 Hn _ _ He). symmetry. apply zn_inj; auto.
    - assert (Hm : nm_mem (zn i) (Graph.g_predecessors g) = false) by (apply nm_mem_false_get; exact Es). rewrite Hm. reflexivity.
  Qed.
End Lookup.

(* ------------------------------------------------------------------ operations *)
(* full relation: graph invariant, non-negative indices, non-negative counter *)
Definition exit_nonneg (c : ecfg) : Prop := forall x, e_exit c = Some x -> 0 <= x.
Record erel (c : ecfg) : Prop := { er_rel : rel c; er_next : 0 <= e_next c /\ exit_nonneg c }.

Definition commutes {A} (c : ecfg) (r : ecfg * res A) (sr : cfg * res A) : Prop :=
  sr = (to_static (fst r), snd r) /\ erel (fst r).

Lemma erel_with c g1 : erel c -> rel (with_graph c g1) -> erel (with_graph c g1).
Proof. intros [_ Hnx] Hr. split; [exact Hr | exact Hnx]. Qed.

Lemma set_entry_commutes c i : erel c -> 0 <= i -> commutes c (set_entry c i) (s_set_entry (to_static c) i).
Proof.
  intros [[Hi Hn] Hnx] Hi0. unfold commutes, set_entry, s_set_entry.
  rewrite (has_vertex_block (eg c) Hi Hn (to_static c) i Hi0 eq_refl).
  destruct (has_block (to_static c) i); cbn [fst snd]; (split; [reflexivity | split; [split; assumption | exact Hnx]]).
Qed.
Lemma set_exit_commutes c i : erel c -> 0 <= i -> commutes c (set_exit c i) (s_set_exit (to_static c) i).
Proof.
  intros [[Hi Hn] Hnx] Hi0. unfold commutes, set_exit, s_set_exit.
  rewrite (has_vertex_block (eg c) Hi Hn (to_static c) i Hi0 eq_refl).
  destruct (has_block (to_static c) i); cbn [fst snd]; (split; [reflexivity | split; [split; assumption |]]); [|exact Hnx].
  split; [exact (proj1 Hnx) | intros x [= <-]; exact Hi0].
Qed.

Lemma new_block_commutes c : erel c -> commutes c (new_block c) (s_new_block (to_static c)).
Proof.
  intros [[Hi Hn] Hnx]. unfold commutes, new_block, s_new_block.
  set (c1 := mkE (eg c) (e_next c + 1) (e_entry c) (e_exit c)).
  assert (Hr1 : rel c1) by (split; assumption).
  assert (Eb : bump (to_static c) = to_static c1) by reflexivity.
  cbn [to_static g_next_index]. rewrite Eb.
  pose proof (insert_vertex_refines c1 (block_new (e_next c)) Hr1 (proj1 Hnx)) as K. cbn [c1 eg] in K.
  destruct (insert_vertex (eg c) (block_new (e_next c))) as [g1| |]; cbn [fst snd].
  - destruct K as [K1 K2]. fold c1. rewrite K1. split; [reflexivity|]. split; [exact K2 | split; [cbn; lia | exact (proj2 Hnx)]].
  - fold c1. rewrite K. split; [reflexivity|]. split; [exact Hr1 | split; [cbn; lia | exact (proj2 Hnx)]].
  - destruct K.
Qed.

Lemma ins_edge_commutes c e : erel c -> 0 <= e_head e -> 0 <= e_tail e ->
  commutes c (ins_edge c e) (s_ins_edge (to_static c) e).
Proof.
  intros [Hr Hnx] Hh Ht. unfold commutes, ins_edge, s_ins_edge.
  pose proof (insert_edge_refines c e Hr Hh Ht) as K.
  destruct (insert_edge (eg c) e) as [g1| |]; cbn [fst snd].
  - destruct K as [K1 K2]. rewrite K1. split; [reflexivity | apply erel_with; [split|]; assumption].
  - rewrite K. split; [reflexivity | split; assumption].
  - destruct K.
Qed.

Lemma vertex_refines c i : rel c -> 0 <= i -> vertex (eg c) (zn i) = cfg_block (to_static c) i.
Proof.
  intros [Hi Hn] Hi0. unfold vertex, cfg_block. cbn [to_static g_blocks]. rewrite (get_find (eg c) Hi Hn i Hi0). reflexivity.
Qed.

(* updating with a function that only matters on the block found *)
Lemma update_agree (g : G) k f1 f2 : (forall v, nm_get k (Graph.g_vertices g) = Some v -> f1 v = f2 v) ->
  update_vertex g k f1 = update_vertex g k f2.
Proof. intros H. unfold update_vertex. destruct (nm_get k (Graph.g_vertices g)) as [v|]; [rewrite (H v eq_refl)|]; reflexivity. Qed.
Lemma s_update_agree g i f1 f2 : (forall b, In b (g_blocks g) -> b_index b = i -> f1 b = f2 b) ->
  s_update_block g i f1 = s_update_block g i f2.
Proof.
  intros H. unfold s_update_block. destruct (find_block (g_blocks g) i); [|reflexivity]. f_equal. f_equal.
  apply map_ext_in. intros x Hx. destruct (b_index x =? i) eqn:E; [apply Z.eqb_eq in E; apply H; assumption | reflexivity].
Qed.

Lemma on_block_commutes c i f : erel c -> 0 <= i -> (forall b b', f b = Ok b' -> b_index b' = b_index b) ->
  commutes c (on_block c i f) (s_on_block (to_static c) i f).
Proof.
  intros [Hr Hnx] Hi0 Hf. pose proof Hr as [Hi Hn]. unfold commutes, on_block, s_on_block.
  rewrite (vertex_refines c i Hr Hi0). unfold cfg_block.
  destruct (find_block (g_blocks (to_static c)) i) as [b|] eqn:F; cbn [fst snd]; [|split; [reflexivity | split; assumption]].
  destruct (f b) as [b'| |] eqn:Efb; cbn [fst snd]; try (split; [reflexivity | split; assumption]).
  set (fn := fun x : block => if b_index b' =? b_index x then b' else x).
  assert (Hfn : forall x, b_index (fn x) = b_index x).
  { intros x. unfold fn. destruct (b_index b' =? b_index x) eqn:E; [apply Z.eqb_eq in E; exact E | reflexivity]. }
  pose proof (find_block_some _ _ _ F) as [Hb Hbi].
  assert (Hbb' : b_index b' = i) by (rewrite (Hf b b' Efb); exact Hbi).
  rewrite (update_agree (eg c) (zn i) (fun _ => b') fn).
  2:{ intros v Hv. rewrite (get_find (eg c) Hi Hn i Hi0) in Hv. cbn [to_static g_blocks] in F. rewrite F in Hv. injection Hv as <-.
      unfold fn. rewrite Hbb', Hbi, Z.eqb_refl. reflexivity. }
  rewrite (s_update_agree (to_static c) i (fun _ => b') fn).
  2:{ intros x Hx Hxi. unfold fn. rewrite Hbb', Hxi, Z.eqb_refl. reflexivity. }
  pose proof (update_vertex_refines c i fn Hr Hi0 Hfn) as K.
  destruct (update_vertex (eg c) (zn i) fn) as [g1| |]; cbn [fst snd].
  - destruct K as [K1 K2]. rewrite K1. split; [reflexivity | apply erel_with; [split|]; assumption].
  - rewrite K. split; [reflexivity | split; assumption].
  - destruct K.
Qed.

Lemma set_address_commutes c a : erel c ->
  s_set_address (to_static c) a = to_static (set_address c a) /\ erel (set_address c a).
Proof.
  intros [[Hi Hn] Hnx]. split.
  - unfold s_set_address, set_address, to_static, s_with, vertices, edges. cbn [eg with_graph Graph.g_vertices Graph.g_edges g_blocks g_edges g_next_index g_entry g_exit e_next e_entry e_exit].
    rewrite !map_map. reflexivity.
  - split; [split|exact Hnx].
    + apply (set_address_ginv c a). exact Hi.
    + destruct Hn as [Hnv Hne]. split.
      * intros k v Hv. cbn [set_address eg with_graph Graph.g_vertices] in Hv. apply in_map_iff in Hv as ([k' v'] & [= <- <-] & Hin).
        cbn [snd]. exact (Hnv k' v' Hin).
      * intros k e He. exact (Hne k e He).
Qed.

(* ---- merge ---- *)
Lemma memN_memZ x l : 0 <= x -> (forall y, In y l -> 0 <= y) -> memN (zn x) (map zn l) = memZ x l.
Proof.
  intros Hx Hl. unfold memN, memZ. induction l as [|y t IH]; cbn [map existsb]; [reflexivity|].
  rewrite IH by (intros z Hz; apply Hl; right; exact Hz). f_equal.
  destruct (x =? y) eqn:E.
  - apply Z.eqb_eq in E. subst. apply N.eqb_refl.
  - apply N.eqb_neq. intros K. apply zn_inj in K; [apply Z.eqb_neq in E; contradiction | exact Hx | apply Hl; left; reflexivity].
Qed.

Lemma edge_in_nonneg c e : rel c -> In e (edges (eg c)) -> 0 <= e_head e /\ 0 <= e_tail e.
Proof. intros [Hi Hn] He. apply (in_edges (eg c) Hi) in He. exact (proj2 Hn _ _ He). Qed.
Lemma block_in_nonneg c b : rel c -> In b (vertices (eg c)) -> 0 <= b_index b.
Proof. intros [Hi Hn] Hb. apply (in_vertices (eg c) Hi) in Hb. exact (proj1 Hn _ _ Hb). Qed.

Lemma out_head_in g i e l : cfg_edges_out g i = Ok (e :: l) -> In e (g_edges g).
Proof.
  unfold cfg_edges_out. destruct (has_block g i); [|discriminate]. intros [= E].
  assert (H : In e (filter (fun e0 => e_head e0 =? i) (g_edges g))) by (rewrite E; left; reflexivity).
  apply filter_In in H as [H _]. exact H.
Qed.
Lemma out_all_in g i l e : cfg_edges_out g i = Ok l -> In e l -> In e (g_edges g).
Proof.
  unfold cfg_edges_out. destruct (has_block g i); [|discriminate]. intros [= <-] H.
  apply filter_In in H as [H _]. exact H.
Qed.

Lemma merge_scan_commutes c : rel c -> forall bs being ms,
  (forall b, In b bs -> In b (vertices (eg c))) -> (forall y, In y being -> 0 <= y) ->
  merge_scan c bs (map zn being) ms = s_merge_scan (to_static c) bs being ms.
Proof.
  intros Hr. pose proof Hr as [Hi Hn].
  induction bs as [|b rest IH]; intros being ms Hbs Hbe; cbn [merge_scan s_merge_scan]; [reflexivity|].
  assert (Hrest : forall x, In x rest -> In x (vertices (eg c))) by (intros x Hx; apply Hbs; right; exact Hx).
  assert (Hb0 : 0 <= b_index b) by (apply (block_in_nonneg c b Hr); apply Hbs; left; reflexivity).
  rewrite (memN_memZ _ _ Hb0 Hbe). destruct (memZ (b_index b) being); [apply IH; assumption|].
  rewrite (edges_out_refines (eg c) Hi Hn (to_static c) (b_index b) Hb0 eq_refl eq_refl).
  destruct (cfg_edges_out (to_static c) (b_index b)) as [[|e [|e2 l]]| |] eqn:Eo; try reflexivity; try (apply IH; assumption).
  assert (He : In e (edges (eg c))) by exact (out_head_in _ _ _ _ Eo).
  destruct (edge_in_nonneg c e Hr He) as [_ Ht0].
  destruct (e_cond e); [apply IH; assumption|].
  change (e_entry c) with (g_entry (to_static c)).
  destruct (match g_entry (to_static c) with Some en => en =? e_tail e | None => false end); [apply IH; assumption|].
  destruct (e_tail e =? b_index b); [apply IH; assumption|].
  rewrite (memN_memZ _ _ Ht0 Hbe). destruct (memZ (e_tail e) being); [apply IH; assumption|].
  rewrite (edges_in_refines (eg c) Hi Hn (to_static c) (e_tail e) Ht0 eq_refl eq_refl).
  destruct (cfg_edges_in (to_static c) (e_tail e)) as [[|e1 [|e1' l']]| |]; try reflexivity; try (apply IH; assumption).
  apply (IH (e_tail e :: b_index b :: being)); [assumption|].
  intros y [<-|[<-|Hy]]; auto.
Qed.

Lemma s_scan_nonneg g bs : forall being ms ms',
  (forall b, In b bs -> 0 <= b_index b) -> (forall e, In e (g_edges g) -> 0 <= e_tail e) ->
  (forall m s, In (m, s) ms -> 0 <= m /\ 0 <= s) ->
  s_merge_scan g bs being ms = Ok ms' -> forall m s, In (m, s) ms' -> 0 <= m /\ 0 <= s.
Proof.
  induction bs as [|b rest IH]; intros being ms ms' Hbs Hes Hms; cbn [s_merge_scan].
  - intros [= <-]. exact Hms.
  - assert (Hrest : forall x, In x rest -> 0 <= b_index x) by (intros x Hx; apply Hbs; right; exact Hx).
    destruct (memZ (b_index b) being); [apply IH; assumption|].
    destruct (cfg_edges_out g (b_index b)) as [[|e [|e2 l]]| |] eqn:Eo; try discriminate; try (apply IH; assumption).
    destruct (e_cond e); [apply IH; assumption|].
    destruct (match g_entry g with Some en => en =? e_tail e | None => false end); [apply IH; assumption|].
    destruct (e_tail e =? b_index b); [apply IH; assumption|].
    destruct (memZ (e_tail e) being); [apply IH; assumption|].
    destruct (cfg_edges_in g (e_tail e)) as [[|e1 [|e1' l']]| |]; try discriminate; try (apply IH; assumption).
    apply IH; [assumption | assumption|].
    intros m s Hin. apply in_app_or in Hin as [Hin|[[= <- <-]|[]]]; [apply Hms; exact Hin|].
    split; [apply Hbs; left; reflexivity|]. apply Hes. exact (out_head_in _ _ _ _ Eo).
Qed.

Lemma insert_edges_commutes es : forall c, erel c -> (forall e, In e es -> 0 <= e_head e /\ 0 <= e_tail e) ->
  commutes c (insert_edges c es) (s_insert_edges (to_static c) es).
Proof.
  induction es as [|e t IH]; intros c Hr Hes; cbn [insert_edges s_insert_edges].
  - split; [reflexivity | exact Hr].
  - destruct (Hes e (or_introl eq_refl)) as [Hh Ht].
    destruct (ins_edge_commutes c e Hr Hh Ht) as [K1 K2]. rewrite K1.
    destruct (ins_edge c e) as [c' [u| |]]; cbn [fst snd] in *; try (split; [reflexivity | exact K2]).
    apply IH; [exact K2 | intros e' He'; apply Hes; right; exact He'].
Qed.

Lemma merge_one_commutes c m s : erel c -> 0 <= m -> 0 <= s ->
  commutes c (merge_one c m s) (s_merge_one (to_static c) m s).
Proof.
  intros [Hr Hnx] Hm0 Hs0. unfold commutes, merge_one, s_merge_one.
  rewrite (vertex_refines c s Hr Hs0).
  destruct (cfg_block (to_static c) s) as [sb| |]; cbn [fst snd]; try (split; [reflexivity | split; assumption]).
  pose proof (update_vertex_refines c m (fun b => block_append b sb) Hr Hm0 (fun v => block_append_index v sb)) as K.
  destruct (update_vertex (eg c) (zn m) (fun b => block_append b sb)) as [g1| |]; cbn [fst snd];
    [|rewrite K; split; [reflexivity | split; assumption] | destruct K].
  destruct K as [K1 Hr1]. rewrite K1. set (c1 := with_graph c g1) in *.
  pose proof Hr1 as [Hi1 Hn1].
  assert (Eo : edges_out g1 (zn s) = cfg_edges_out (to_static c1) s) by (apply (edges_out_refines g1 Hi1 Hn1 (to_static c1) s Hs0); reflexivity).
  rewrite Eo.
  destruct (cfg_edges_out (to_static c1) s) as [outs| |] eqn:Eouts; cbn [fst snd];
    try (split; [reflexivity | split; [exact Hr1 | exact Hnx]]).
  assert (Hes : forall e, In e (map (fun e => mkedge m (e_tail e) (e_cond e)) outs) -> 0 <= e_head e /\ 0 <= e_tail e).
  { intros e He. apply in_map_iff in He as (e0 & <- & He0). cbn [e_head e_tail]. split; [exact Hm0|].
    exact (proj2 (edge_in_nonneg c1 e0 Hr1 (out_all_in _ _ _ _ Eouts He0))). }
  assert (Her1 : erel c1) by (split; [exact Hr1 | exact Hnx]).
  destruct (insert_edges_commutes _ c1 Her1 Hes) as [K2 Her2]. rewrite K2.
  destruct (insert_edges c1 (map (fun e => mkedge m (e_tail e) (e_cond e)) outs)) as [c2 [u| |]]; cbn [fst snd] in *;
    try (split; [reflexivity | exact Her2]).
  pose proof (remove_vertex_refines c2 s (er_rel _ Her2) Hs0) as K3.
  destruct (remove_vertex (eg c2) (zn s)) as [g3| |]; cbn [fst snd];
    [|rewrite K3; split; [reflexivity | exact Her2] | destruct K3].
  destruct K3 as [K3 Hr3]. rewrite K3. cbn [to_static g_blocks g_edges g_next_index g_entry g_exit with_graph eg e_next e_entry e_exit].
  split; [reflexivity|]. split; [destruct Hr3 as [A B]; split; assumption|].
  destruct (er_next _ Her2) as [N1 N2]. split; [exact N1|].
  intros x. cbn [e_exit]. destruct (e_exit c2) as [x0|] eqn:Ex; [|discriminate].
  destruct (x0 =? s); intros [= <-]; [exact Hm0 | exact (N2 x0 Ex)].
Qed.

Lemma merge_apply_commutes ms : forall c, erel c -> (forall m s, In (m, s) ms -> 0 <= m /\ 0 <= s) ->
  commutes c (merge_apply c ms) (s_merge_apply (to_static c) ms).
Proof.
  induction ms as [|[m s] t IH]; intros c Hr Hms; cbn [merge_apply s_merge_apply].
  - split; [reflexivity | exact Hr].
  - destruct (Hms m s (or_introl eq_refl)) as [Hm0 Hs0].
    destruct (merge_one_commutes c m s Hr Hm0 Hs0) as [K1 K2]. rewrite K1.
    destruct (merge_one c m s) as [c' [u| |]]; cbn [fst snd] in *; try (split; [reflexivity | exact K2]).
    apply IH; [exact K2 | intros m' s' H; apply Hms; right; exact H].
Qed.

Lemma merge_loop_commutes fuel : forall c, erel c ->
  commutes c (merge_loop fuel c) (s_merge_loop fuel (to_static c)).
Proof.
  induction fuel as [|n IH]; intros c Hr; cbn [merge_loop s_merge_loop]; [split; [reflexivity | exact Hr]|].
  pose proof (merge_scan_commutes c (er_rel _ Hr) (vertices (eg c)) [] [] (fun b H => H) (fun y H => match H with end)) as Esc.
  cbn [map] in Esc. rewrite Esc. change (g_blocks (to_static c)) with (vertices (eg c)).
  destruct (s_merge_scan (to_static c) (vertices (eg c)) [] []) as [[|p ms]| |] eqn:Es; cbn [fst snd];
    try (split; [reflexivity | exact Hr]).
  assert (Hnn : forall m s, In (m, s) (p :: ms) -> 0 <= m /\ 0 <= s).
  { apply (s_scan_nonneg (to_static c) (vertices (eg c)) [] [] (p :: ms)); [| | intros ? ? [] | exact Es].
    - intros b Hb. exact (block_in_nonneg c b (er_rel _ Hr) Hb).
    - intros e He. exact (proj2 (edge_in_nonneg c e (er_rel _ Hr) He)). }
  destruct (merge_apply_commutes (p :: ms) c Hr Hnn) as [K1 K2]. rewrite K1.
  destruct (merge_apply c (p :: ms)) as [c' [u| |]]; cbn [fst snd] in *; try (split; [reflexivity | exact K2]).
  apply IH. exact K2.
Qed.

Lemma merge_commutes c : erel c -> commutes c (merge c) (s_merge (to_static c)).
Proof.
  intros Hr. unfold merge, s_merge. cbn [to_static g_blocks]. unfold vertices. rewrite map_length. apply merge_loop_commutes. exact Hr.
Qed.

(* ---- append / insert ---- *)
Definition map_nonneg (m : list (Z * Z)) : Prop := forall k v, In (k, v) m -> 0 <= v.

Lemma import_blocks_commutes bs : forall c m, erel c -> map_nonneg m ->
  let r := import_blocks c bs m in
  s_import_blocks (to_static c) bs m = (to_static (fst (fst r)), snd (fst r), snd r) /\
  erel (fst (fst r)) /\ map_nonneg (snd (fst r)) /\ e_exit (fst (fst r)) = e_exit c /\ e_entry (fst (fst r)) = e_entry c.
Proof.
  induction bs as [|b t IH]; intros c m Hr Hm; cbn [import_blocks s_import_blocks].
  - cbn. auto.
  - destruct Hr as [[Hi Hn] Hnx].
    set (c1 := mkE (eg c) (e_next c + 1) (e_entry c) (e_exit c)).
    assert (Hr1 : rel c1) by (split; assumption).
    assert (Eb : bump (to_static c) = to_static c1) by reflexivity.
    cbn [to_static g_next_index]. rewrite Eb.
    assert (Hm' : map_nonneg (m ++ [(b_index b, e_next c)])).
    { intros k v Hin. apply in_app_or in Hin as [Hin|[[= <- <-]|[]]]; [exact (Hm k v Hin) | exact (proj1 Hnx)]. }
    pose proof (insert_vertex_refines c1 (block_clone_new_index b (e_next c)) Hr1 (proj1 Hnx)) as K. cbn [c1 eg] in K.
    destruct (insert_vertex (eg c) (block_clone_new_index b (e_next c))) as [g1| |].
    + destruct K as [K1 K2]. fold c1. rewrite K1.
      assert (He1 : erel (with_graph c1 g1)) by (split; [exact K2 | split; [cbn; lia | exact (proj2 Hnx)]]).
      destruct (IH (with_graph c1 g1) _ He1 Hm') as (E & A & B & C & D). cbn zeta in *. fold c1.
      rewrite E. auto.
    + fold c1. rewrite K. cbn. split; [reflexivity|]. split; [split; [exact Hr1 | split; [cbn; lia | exact (proj2 Hnx)]]|]. auto.
    + destruct K.
Qed.

Lemma import_edges_commutes es : forall c m, erel c -> map_nonneg m ->
  commutes c (import_edges c es m) (s_import_edges (to_static c) es m) /\
  e_exit (fst (import_edges c es m)) = e_exit c /\ e_entry (fst (import_edges c es m)) = e_entry c /\
  e_next (fst (import_edges c es m)) = e_next c.
Proof.
  induction es as [|e t IH]; intros c m Hr Hm; cbn [import_edges s_import_edges].
  - split; [split; [reflexivity | exact Hr] | auto].
  - destruct (zmap_get m (e_head e)) as [h| |] eqn:Eh; cbn [fst snd]; try (split; [split; [reflexivity | exact Hr] | auto]).
    destruct (zmap_get m (e_tail e)) as [tl| |] eqn:Et; cbn [fst snd]; try (split; [split; [reflexivity | exact Hr] | auto]).
    assert (Hh : 0 <= h) by (apply (Hm (e_head e)); apply zmap_get_in; exact Eh).
    assert (Ht : 0 <= tl) by (apply (Hm (e_tail e)); apply zmap_get_in; exact Et).
    destruct (ins_edge_commutes c (mkedge h tl (e_cond e)) Hr Hh Ht) as [K1 K2]. rewrite K1.
    assert (Hsame : e_exit (fst (ins_edge c (mkedge h tl (e_cond e)))) = e_exit c /\ e_entry (fst (ins_edge c (mkedge h tl (e_cond e)))) = e_entry c
                    /\ e_next (fst (ins_edge c (mkedge h tl (e_cond e)))) = e_next c).
    { unfold ins_edge. destruct (insert_edge (eg c) (mkedge h tl (e_cond e))); cbn; auto. }
    destruct (ins_edge c (mkedge h tl (e_cond e))) as [c' [u| |]]; cbn [fst snd] in *; try (split; [split; [reflexivity | exact K2] | exact Hsame]).
    destruct (IH c' m K2 Hm) as (A & B & C & D). split; [exact A|]. destruct Hsame as (S1 & S2 & S3). repeat split; congruence.
Qed.

Lemma num_vertices_empty (g : G) : N.eqb (num_vertices g) 0 = match vertices g with [] => true | _ => false end.
Proof. unfold num_vertices, vertices. destruct (Graph.g_vertices g); reflexivity. Qed.

Lemma append_commutes c other : erel c -> commutes c (append c other) (s_append (to_static c) (to_static other)).
Proof.
  intros Hr. unfold append, s_append. cbn [to_static g_blocks g_edges g_entry g_exit].
  rewrite num_vertices_empty.
  assert (Ei : forall o : option Z, isnone o = match o with None => true | _ => false end) by (intros [|]; reflexivity).
  rewrite !Ei.
  destruct (negb _ && _); [split; [reflexivity | exact Hr]|].
  destruct (e_entry other) as [oen|]; [|split; [reflexivity | exact Hr]].
  destruct (e_exit other) as [oex|]; [|split; [reflexivity | exact Hr]].
  destruct (import_blocks_commutes (vertices (eg other)) c [] Hr (fun k v H => match H with end)) as (E1 & Hr1 & Hm1 & Ex1 & En1).
  cbn zeta in *. change (mkcfg (vertices (eg c)) (edges (eg c)) (e_next c) (e_entry c) (e_exit c)) with (to_static c).
  rewrite E1. destruct (import_blocks c (vertices (eg other)) []) as [[c1 m] [u| |]]; cbn [fst snd] in *;
    try (split; [reflexivity | exact Hr1]).
  destruct (import_edges_commutes (edges (eg other)) c1 m Hr1 Hm1) as ([E2 Hr2] & Ex2 & En2 & Nx2). rewrite E2.
  destruct (import_edges c1 (edges (eg other)) m) as [c2 [u2| |]]; cbn [fst snd] in *; try (split; [reflexivity | exact Hr2]).
  cbn [to_static g_blocks g_edges g_next_index g_entry g_exit].
  destruct (vertices (eg c)) as [|b0 bt].
  - (* appending to an empty graph adopts the entry *)
    destruct (zmap_get m oen) as [en'| |]; cbn [fst snd]; try (split; [reflexivity | exact Hr2]).
    destruct (zmap_get m oex) as [ex'| |] eqn:Eex; cbn [fst snd].
    + split; [reflexivity|]. destruct Hr2 as [R2 [N2 X2]]. split; [destruct R2; split; assumption|]. split; [exact N2|].
      intros x [= <-]. apply (Hm1 oex). apply zmap_get_in. exact Eex.
    + split; [reflexivity|]. destruct Hr2 as [R2 [N2 X2]]. split; [destruct R2; split; assumption | split; assumption].
    + split; [reflexivity|]. destruct Hr2 as [R2 [N2 X2]]. split; [destruct R2; split; assumption | split; assumption].
  - destruct (e_exit c2) as [ex|] eqn:Eex2; cbn [fst snd]; [|split; [reflexivity | exact Hr2]].
    destruct (zmap_get m oen) as [en'| |] eqn:Een; cbn [fst snd]; try (split; [reflexivity | exact Hr2]).
    assert (Hex0 : 0 <= ex) by (apply (proj2 (er_next _ Hr2)); exact Eex2).
    assert (Hen0 : 0 <= en') by (apply (Hm1 oen); apply zmap_get_in; exact Een).
    destruct (ins_edge_commutes c2 (mkedge ex en' None) Hr2 Hex0 Hen0) as [K1 K2].
    change (mkcfg (vertices (eg c2)) (edges (eg c2)) (e_next c2) (e_entry c2) (Some ex)) with (to_static c2) in *.
    rewrite K1.
    assert (Hsame : e_next (fst (ins_edge c2 (mkedge ex en' None))) = e_next c2 /\ e_entry (fst (ins_edge c2 (mkedge ex en' None))) = e_entry c2).
    { unfold ins_edge. destruct (insert_edge (eg c2) (mkedge ex en' None)); cbn; auto. }
    destruct (ins_edge c2 (mkedge ex en' None)) as [c3 [u3| |]]; cbn [fst snd] in *; try (split; [reflexivity | exact K2]).
    destruct (zmap_get m oex) as [ex'| |] eqn:Eex; cbn [fst snd]; try (split; [reflexivity | exact K2]).
    cbn [to_static g_blocks g_edges g_next_index g_entry g_exit].
    split; [reflexivity|]. destruct K2 as [R3 [N3 X3]]. split; [destruct R3; split; assumption|]. split; [exact N3|].
    intros x [= <-]. apply (Hm1 oex). apply zmap_get_in. exact Eex.
Qed.

Lemma insert_commutes c other : erel c -> commutes c (insert c other) (s_insert (to_static c) (to_static other)).
Proof.
  intros Hr. unfold insert, s_insert. cbn [to_static g_blocks g_edges g_entry g_exit g_next_index].
  destruct (e_entry other) as [oen|]; [|split; [reflexivity | exact Hr]].
  destruct (e_exit other) as [oex|]; [|split; [reflexivity | exact Hr]].
  set (c0 := mkE (eg c) (e_next c) None None).
  assert (Hr0 : erel c0).
  { destruct Hr as [R [N X]]. split; [destruct R; split; assumption|]. split; [exact N | intros x [=]]. }
  change (mkcfg (vertices (eg c)) (edges (eg c)) (e_next c) None None) with (to_static c0).
  destruct (import_blocks_commutes (vertices (eg other)) c0 [] Hr0 (fun k v H => match H with end)) as (E1 & Hr1 & Hm1 & _ & _).
  cbn zeta in *. rewrite E1. destruct (import_blocks c0 (vertices (eg other)) []) as [[c1 m] [u| |]]; cbn [fst snd] in *;
    try (split; [reflexivity | exact Hr1]).
  destruct (import_edges_commutes (edges (eg other)) c1 m Hr1 Hm1) as ([E2 Hr2] & _). rewrite E2.
  destruct (import_edges c1 (edges (eg other)) m) as [c2 [u2| |]]; cbn [fst snd] in *; try (split; [reflexivity | exact Hr2]).
  destruct (if existsb (fun b => b_index b =? oen) (vertices (eg other)) then match zmap_get m oen with Ok v => Some v | _ => None end else None);
    [|split; [reflexivity | exact Hr2]].
  destruct (if existsb (fun b => b_index b =? oex) (vertices (eg other)) then match zmap_get m oex with Ok v => Some v | _ => None end else None);
    split; try reflexivity; exact Hr2.
Qed.

(* ---- histories ---- *)
Definition eop_args_ok (o : eop) : Prop :=
  match o with
  | EUncond h t | ECond h t _ => 0 <= h /\ 0 <= t
  | ESetEntry i | ESetExit i => 0 <= i
  | EPush b _ => 0 <= b
  | ERemoveInstr b _ => 0 <= b
  | _ => True
  end.
Definition sop_of (o : eop) : sop :=
  match o with
  | ENewBlock => SNewBlock | EUncond h t => SUncond h t | ECond h t c => SCond h t c
  | ESetEntry i => SSetEntry i | ESetExit i => SSetExit i | EPush b op => SPush b op
  | ERemoveInstr b i => SRemoveInstr b i | ESetAddress a => SSetAddress a | EMerge => SMerge
  | EAppend other => SAppend (to_static other) | EInsert other => SInsert (to_static other)
  end.

(* usize arguments are non-negative: under that proviso the four-map model and the static model
   agree on every operation, state and result *)
Theorem e_run_refines c o : erel c -> eop_args_ok o ->
  to_static (e_run c o) = s_run (to_static c) (sop_of o) /\ erel (e_run c o).
Proof.
  intros Hr Ha. destruct o; cbn [e_run s_run sop_of eop_args_ok] in *.
  - destruct (new_block_commutes c Hr) as [E K]. rewrite E. auto.
  - destruct Ha. destruct (ins_edge_commutes c (mkedge h t None) Hr) as [E K]; auto. unfold s_unconditional_edge. rewrite E. auto.
  - destruct Ha. destruct (ins_edge_commutes c (mkedge h t (Some c0)) Hr) as [E K]; auto. unfold s_conditional_edge. rewrite E. auto.
  - destruct (set_entry_commutes c i Hr Ha) as [E K]. rewrite E. auto.
  - destruct (set_exit_commutes c i Hr Ha) as [E K]. rewrite E. auto.
  - destruct (on_block_commutes c b (fun x => Ok (block_push x o)) Hr Ha) as [E K].
    { intros x x' [= <-]. reflexivity. }
    unfold s_push_op. rewrite E. auto.
  - destruct (on_block_commutes c b (fun x => block_remove_instruction x idx) Hr Ha) as [E K].
    { intros x x'. unfold block_remove_instruction. destruct (remove_first_index (b_instrs x) idx); [|discriminate]. intros [= <-]. reflexivity. }
    unfold s_remove_instruction. rewrite E. auto.
  - destruct (set_address_commutes c a Hr) as [E K]. rewrite E. auto.
  - destruct (merge_commutes c Hr) as [E K]. rewrite E. auto.
  - destruct (append_commutes c other Hr) as [E K]. rewrite E. auto.
  - destruct (insert_commutes c other Hr) as [E K]. rewrite E. auto.
Qed.

Lemma erel_new : erel ecfg_new.
Proof.
  split; [split; [exact graph_inv_new | split; intros ? ? []]|]. split; [cbn; lia | intros x [=]].
Qed.

(* C15: after any history with non-negative (usize) arguments from ControlFlowGraph::new(), the static
   view of the four-map model is the state of the static model after the corresponding history *)
Theorem history_refines ops : Forall eop_args_ok ops ->
  to_static (fold_left e_run ops ecfg_new) = fold_left s_run (map sop_of ops) s_new.
Proof.
  assert (G : forall c, erel c -> Forall eop_args_ok ops ->
              to_static (fold_left e_run ops c) = fold_left s_run (map sop_of ops) (to_static c)).
  { induction ops as [|o t IH]; intros c Hr Ha; cbn [fold_left map]; [reflexivity|].
    inversion Ha as [|? ? Ho Ht]; subst. destruct (e_run_refines c o Hr Ho) as [E K]. rewrite <- E. apply IH; assumption. }
  intros Ha. exact (G ecfg_new erel_new Ha).
Qed.

(* ---- the [U] theorems of the static model, transported to the four-map model ---- *)
Lemma reachable_fold_gen sops : forall g, reachable g ->
  Forall (fun o => forall other, o = SAppend other \/ o = SInsert other -> reachable other) sops ->
  reachable (fold_left s_run sops g).
Proof.
  induction sops as [|o t IH]; intros g Hg Hall; cbn [fold_left]; [exact Hg|].
  inversion Hall as [|? ? Ho Ht]; subst. apply IH; [|exact Ht]. apply reach_op; assumption.
Qed.

(* histories whose appended / inserted graphs are themselves (static views of) reachable graphs *)
Definition eop_other_ok (o : eop) : Prop :=
  match o with EAppend other | EInsert other => reachable (to_static other) | _ => True end.

Theorem fourmap_cfg_inv ops : Forall eop_args_ok ops -> Forall eop_other_ok ops ->
  cfg_inv (to_static (fold_left e_run ops ecfg_new)) = true.
Proof.
  intros Ha Ho. rewrite (history_refines ops Ha). apply cfg_inv_preserved.
  apply reachable_fold_gen; [exact reach_new|].
  clear Ha. induction Ho as [|o t Ho Ht IH]; cbn [map]; constructor; [|exact IH].
  intros other [E|E]; destruct o; cbn [sop_of] in E; try discriminate; injection E as <-; exact Ho.
Qed.

Theorem fourmap_merge_lang c : erel c -> sinv (to_static c) ->
  snd (merge c) = Ok tt /\ forall w, Lang.lang (to_static (fst (merge c))) w <-> Lang.lang (to_static c) w.
Proof.
  intros Hr Hs. destruct (merge_commutes c Hr) as [E _]. destruct (merge_lang (to_static c) Hs) as (H1 & _ & H3).
  rewrite E in H1, H3. cbn [fst snd] in H1, H3. auto.
Qed.
