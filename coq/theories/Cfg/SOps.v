(* Cfg/SOps.v -- the ControlFlowGraph operations of Cfg/CfgOps.v restated directly on the static view
   (IL/Func.v's [cfg]: blocks ascending by index, edges ascending by (head, tail)).
   Same control structure as CfgOps.v, function by function; the graph library is replaced by its
   observable behaviour on a consistent graph: insert = sorted insert with the same pre-checks and
   error kinds, remove_vertex = drop the block and every incident edge, edges_out / edges_in = the
   filters of IL/Func.v.  The `Panic`s of Graph.v on a missing adjacency entry have no counterpart
   (they are unreachable from ControlFlowGraph::new()).  Both models are run against the
   implementation by C15Check.ck.  The C15 theorems are proved about this model (Cfg/SProofs.v). *)
From Coq Require Import ZArith List Bool NArith.
From Falcon Require Import Base.Res IL.Const IL.Expr IL.Func Cfg.CfgOps.
Import ListNotations.
Local Open Scope Z_scope.

Definition s_new : cfg := mkcfg [] [] 0 None None.
Definition s_with (g : cfg) (bs : list block) (es : list edge) : cfg :=
  mkcfg bs es (g_next_index g) (g_entry g) (g_exit g).

(* ---- the graph library, statically ---- *)
Fixpoint ins_block (b : block) (bs : list block) : list block :=
  match bs with
  | [] => [b]
  | x :: t => if b_index b <? b_index x then b :: bs else x :: ins_block b t
  end.
Definition elt_b (a b : edge) : bool :=
  (e_head a <? e_head b) || ((e_head a =? e_head b) && (e_tail a <? e_tail b)).
Fixpoint ins_edge_l (e : edge) (es : list edge) : list edge :=
  match es with
  | [] => [e]
  | x :: t => if elt_b e x then e :: es else x :: ins_edge_l e t
  end.

Definition s_insert_vertex (g : cfg) (b : block) : res cfg :=
  if has_block g (b_index b) then Err ECustom
  else Ok (s_with g (ins_block b (g_blocks g)) (g_edges g)).
Definition s_insert_edge (g : cfg) (e : edge) : res cfg :=
  match find_edge (g_edges g) (e_head e) (e_tail e) with
  | Some _ => Err ECustom
  | None =>
      if negb (has_block g (e_head e)) then Err EGraphVertex
      else if negb (has_block g (e_tail e)) then Err EGraphVertex
      else Ok (s_with g (g_blocks g) (ins_edge_l e (g_edges g)))
  end.
Definition s_remove_vertex (g : cfg) (i : Z) : res cfg :=
  if negb (has_block g i) then Err EGraphVertex
  else Ok (s_with g (filter (fun b => negb (b_index b =? i)) (g_blocks g))
                    (filter (fun e => negb (e_head e =? i) && negb (e_tail e =? i)) (g_edges g))).
(* vertex_mut(i) followed by an in-place edit that keeps the index *)
Definition s_update_block (g : cfg) (i : Z) (f : block -> block) : res cfg :=
  match find_block (g_blocks g) i with
  | Some _ => Ok (s_with g (map (fun x => if b_index x =? i then f x else x) (g_blocks g)) (g_edges g))
  | None => Err EGraphVertex
  end.

(* ---- ControlFlowGraph ---- *)
Definition s_set_entry (g : cfg) (i : Z) : cfg * res unit :=
  if has_block g i then (mkcfg (g_blocks g) (g_edges g) (g_next_index g) (Some i) (g_exit g), Ok tt) else (g, Err ECustom).
Definition s_set_exit (g : cfg) (i : Z) : cfg * res unit :=
  if has_block g i then (mkcfg (g_blocks g) (g_edges g) (g_next_index g) (g_entry g) (Some i), Ok tt) else (g, Err ECustom).

Definition bump (g : cfg) : cfg := mkcfg (g_blocks g) (g_edges g) (g_next_index g + 1) (g_entry g) (g_exit g).

Definition s_new_block (g : cfg) : cfg * res Z :=
  let i := g_next_index g in
  match s_insert_vertex (bump g) (block_new i) with
  | Ok g' => (g', Ok i)
  | Err e => (bump g, Err e)
  | Panic => (bump g, Panic)
  end.

Definition s_ins_edge (g : cfg) (e : edge) : cfg * res unit :=
  match s_insert_edge g e with
  | Ok g' => (g', Ok tt)
  | Err x => (g, Err x)
  | Panic => (g, Panic)
  end.
Definition s_unconditional_edge (g : cfg) (h t : Z) := s_ins_edge g (mkedge h t None).
Definition s_conditional_edge (g : cfg) (h t : Z) (c : expr) := s_ins_edge g (mkedge h t (Some c)).

Definition s_on_block (g : cfg) (i : Z) (f : block -> res block) : cfg * res unit :=
  match find_block (g_blocks g) i with
  | Some b =>
      match f b with
      | Ok b' => match s_update_block g i (fun _ => b') with
                 | Ok g' => (g', Ok tt)
                 | Err x => (g, Err x)
                 | Panic => (g, Panic)
                 end
      | Err x => (g, Err x)
      | Panic => (g, Panic)
      end
  | None => (g, Err EGraphVertex)
  end.
Definition s_push_op (g : cfg) (i : Z) (op : operation) := s_on_block g i (fun b => Ok (block_push b op)).
Definition s_remove_instruction (g : cfg) (i idx : Z) := s_on_block g i (fun b => block_remove_instruction b idx).
Definition s_set_address (g : cfg) (a : option Z) : cfg :=
  s_with g (map (fun b => block_set_address b a) (g_blocks g)) (g_edges g).

(* ---- merge ---- *)
Definition memZ (x : Z) (l : list Z) : bool := existsb (Z.eqb x) l.

Fixpoint s_merge_scan (g : cfg) (bs : list block) (being : list Z) (merges : list (Z * Z)) : res (list (Z * Z)) :=
  match bs with
  | [] => Ok merges
  | b :: rest =>
      let bi := b_index b in
      if memZ bi being then s_merge_scan g rest being merges else
      match cfg_edges_out g bi with
      | Ok [e] =>
          match e_cond e with
          | Some _ => s_merge_scan g rest being merges
          | None =>
              let s := e_tail e in
              if match g_entry g with Some en => en =? s | None => false end then s_merge_scan g rest being merges
              else if s =? bi then s_merge_scan g rest being merges
              else if memZ s being then s_merge_scan g rest being merges
              else match cfg_edges_in g s with
                   | Ok [_] => s_merge_scan g rest (s :: bi :: being) (merges ++ [(bi, s)])
                   | Ok _ => s_merge_scan g rest being merges
                   | _ => Panic
                   end
          end
      | Ok _ => s_merge_scan g rest being merges
      | _ => Panic
      end
  end.

Fixpoint s_insert_edges (g : cfg) (es : list edge) : cfg * res unit :=
  match es with
  | [] => (g, Ok tt)
  | e :: t => match s_ins_edge g e with
              | (g', Ok _) => s_insert_edges g' t
              | r => r
              end
  end.

Definition s_merge_one (g : cfg) (m s : Z) : cfg * res unit :=
  match cfg_block g s with
  | Ok sb =>
      match s_update_block g m (fun b => block_append b sb) with
      | Ok g1 =>
          match cfg_edges_out g1 s with
          | Ok outs =>
              match s_insert_edges g1 (map (fun e => mkedge m (e_tail e) (e_cond e)) outs) with
              | (g2, Ok _) =>
                  match s_remove_vertex g2 s with
                  | Ok g3 =>
                      let ex := match g_exit g3 with Some x => if x =? s then Some m else Some x | None => None end in
                      (mkcfg (g_blocks g3) (g_edges g3) (g_next_index g3) (g_entry g3) ex, Ok tt)
                  | Err x => (g2, Err x)
                  | Panic => (g2, Panic)
                  end
              | r => r
              end
          | _ => (g1, Panic)
          end
      | Err x => (g, Err x)
      | Panic => (g, Panic)
      end
  | Err x => (g, Err x)
  | Panic => (g, Panic)
  end.

Fixpoint s_merge_apply (g : cfg) (ms : list (Z * Z)) : cfg * res unit :=
  match ms with
  | [] => (g, Ok tt)
  | (m, s) :: t => match s_merge_one g m s with
                   | (g', Ok _) => s_merge_apply g' t
                   | r => r
                   end
  end.

Fixpoint s_merge_loop (fuel : nat) (g : cfg) : cfg * res unit :=
  match fuel with
  | O => (g, Panic)
  | S n =>
      match s_merge_scan g (g_blocks g) [] [] with
      | Ok [] => (g, Ok tt)
      | Ok ms => match s_merge_apply g ms with
                 | (g', Ok _) => s_merge_loop n g'
                 | r => r
                 end
      | Err x => (g, Err x)
      | Panic => (g, Panic)
      end
  end.
Definition s_merge (g : cfg) : cfg * res unit := s_merge_loop (S (length (g_blocks g))) g.

(* ---- append / insert ---- *)
Fixpoint s_import_blocks (g : cfg) (bs : list block) (m : list (Z * Z)) : cfg * list (Z * Z) * res unit :=
  match bs with
  | [] => (g, m, Ok tt)
  | b :: t =>
      let i := g_next_index g in
      let m' := m ++ [(b_index b, i)] in
      match s_insert_vertex (bump g) (block_clone_new_index b i) with
      | Ok g' => s_import_blocks g' t m'
      | Err x => (bump g, m', Err x)
      | Panic => (bump g, m', Panic)
      end
  end.
Fixpoint s_import_edges (g : cfg) (es : list edge) (m : list (Z * Z)) : cfg * res unit :=
  match es with
  | [] => (g, Ok tt)
  | e :: t =>
      match zmap_get m (e_head e), zmap_get m (e_tail e) with
      | Ok h, Ok tl => match s_ins_edge g (mkedge h tl (e_cond e)) with
                       | (g', Ok _) => s_import_edges g' t m
                       | r => r
                       end
      | _, _ => (g, Panic)
      end
  end.

Definition isnone {A} (o : option A) : bool := match o with None => true | _ => false end.

Definition s_append (g other : cfg) : cfg * res unit :=
  let is_empty := match g_blocks g with [] => true | _ => false end in
  if negb is_empty && (isnone (g_entry g) || isnone (g_exit g)) then (g, Err ECustom) else
  match g_entry other, g_exit other with
  | Some oen, Some oex =>
      match s_import_blocks g (g_blocks other) [] with
      | (g1, m, Ok _) =>
          match s_import_edges g1 (g_edges other) m with
          | (g2, Ok _) =>
              let step3 : cfg * res unit :=
                if is_empty then
                  match zmap_get m oen with
                  | Ok en' => (mkcfg (g_blocks g2) (g_edges g2) (g_next_index g2) (Some en') (g_exit g2), Ok tt)
                  | _ => (g2, Panic)
                  end
                else
                  match g_exit g2, zmap_get m oen with
                  | Some ex, Ok en' => s_ins_edge g2 (mkedge ex en' None)
                  | _, _ => (g2, Panic)
                  end in
              match step3 with
              | (g3, Ok _) =>
                  match zmap_get m oex with
                  | Ok ex' => (mkcfg (g_blocks g3) (g_edges g3) (g_next_index g3) (g_entry g3) (Some ex'), Ok tt)
                  | _ => (g3, Panic)
                  end
              | r => r
              end
          | r => r
          end
      | (g1, _, Err x) => (g1, Err x)
      | (g1, _, Panic) => (g1, Panic)
      end
  | _, _ => (g, Err ECustom)
  end.

Definition s_insert (g other : cfg) : cfg * res (Z * Z) :=
  match g_entry other, g_exit other with
  | Some oen, Some oex =>
      let g0 := mkcfg (g_blocks g) (g_edges g) (g_next_index g) None None in
      match s_import_blocks g0 (g_blocks other) [] with
      | (g1, m, Ok _) =>
          match s_import_edges g1 (g_edges other) m with
          | (g2, Ok _) =>
              let find k := if existsb (fun b => b_index b =? k) (g_blocks other) then
                              match zmap_get m k with Ok v => Some v | _ => None end else None in
              match find oen, find oex with
              | Some a, Some b => (g2, Ok (a, b))
              | _, _ => (g2, Err ENoEntry)
              end
          | (g2, Err x) => (g2, Err x)
          | (g2, Panic) => (g2, Panic)
          end
      | (g1, _, Err x) => (g1, Err x)
      | (g1, _, Panic) => (g1, Panic)
      end
  | _, _ => (g, Err ENoEntry)
  end.

Fixpoint s_append_all (g : cfg) (gs : list cfg) : cfg * res unit :=
  match gs with
  | [] => (g, Ok tt)
  | x :: t => match s_append g x with
              | (g', Ok _) => s_append_all g' t
              | r => r
              end
  end.
Definition s_blockify (gs : list cfg) : cfg * res unit :=
  match s_new_block s_new with
  | (g1, Ok bi) =>
      match s_set_entry g1 bi with
      | (g2, Ok _) =>
          match s_set_exit g2 bi with
          | (g3, Ok _) =>
              match s_append_all g3 gs with
              | (g4, Ok _) => s_merge g4
              | r => r
              end
          | r => r
          end
      | r => r
      end
  | (g1, Err x) => (g1, Err x)
  | (g1, Panic) => (g1, Panic)
  end.

(* ---- the public operations, as data (histories) ---- *)
Inductive sop :=
| SNewBlock
| SUncond (h t : Z)
| SCond (h t : Z) (c : expr)
| SSetEntry (i : Z)
| SSetExit (i : Z)
| SPush (b : Z) (o : operation)
| SRemoveInstr (b idx : Z)
| SSetAddress (a : option Z)
| SMerge
| SAppend (other : cfg)
| SInsert (other : cfg).

Definition s_run (g : cfg) (o : sop) : cfg :=
  match o with
  | SNewBlock => fst (s_new_block g)
  | SUncond h t => fst (s_unconditional_edge g h t)
  | SCond h t c => fst (s_conditional_edge g h t c)
  | SSetEntry i => fst (s_set_entry g i)
  | SSetExit i => fst (s_set_exit g i)
  | SPush b op => fst (s_push_op g b op)
  | SRemoveInstr b idx => fst (s_remove_instruction g b idx)
  | SSetAddress a => s_set_address g a
  | SMerge => fst (s_merge g)
  | SAppend other => fst (s_append g other)
  | SInsert other => fst (s_insert g other)
  end.
