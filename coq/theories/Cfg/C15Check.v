(* Cfg/C15Check.v -- per-case checker of property C15.
   One case = a history of ControlFlowGraph / Block editing operations over 1-3 graphs (all starting
   from ControlFlowGraph::new()); after every operation the harness dumps the operation's result and
   the full structure of the graph it touched.
   fst = tie: the model of Cfg/CfgOps.v, run on the same history, yields the same results and states.
   snd = oracle: every observed state satisfies the invariant of the property text (computed on the
   observed dump only), and merge / append preserve the executable instruction sequences (decided by
   the language-equivalence checker below on the observed before/after states). *)
From Coq Require Import ZArith List Bool NArith.
From Falcon Require Import Base.Res Graph.NMap Graph.Graph IL.Const IL.Expr IL.Func Cfg.CfgOps Cfg.SOps.
Import ListNotations.
Local Open Scope Z_scope.

(* compact forms used by the case files *)
Definition xs : scalar := mks 0%N 16 None.
Definition ia (i k : Z) (a : option Z) : instruction := mkinstr i (OAssign xs (EConst (mkc 16 k))) a.
Definition opk (k : Z) : operation := OAssign xs (EConst (mkc 16 k)).
Definition gd (k : Z) : expr := EBin Cmpeq (EScalar xs) (EConst (mkc 16 k)).

Inductive cop :=
| CNewBlock
| CUncond (h t : Z)
| CCond (h t : Z) (c : expr)
| CSetEntry (i : Z)
| CSetExit (i : Z)
| CPush (b : Z) (o : operation)
| CRemoveInstr (b idx : Z)
| CSetAddress (a : option Z)
| CMerge
| CAppend (src : nat)
| CInsert (src : nat)
| CBlockify (srcs : list nat).      (* target := BlockTranslationResult::new(srcs..).blockify() when Ok *)

(* observed state of one graph: static view + the adjacency queries per block *)
Record ostate := mkobs {
  os_cfg : cfg;
  os_adj : list (Z * res (list Z) * res (list Z)) }.   (* block, successor_indices, predecessor_indices *)

Record hstep := mkstep {
  hs_target : nat;
  hs_op : cop;
  hs_res : res (list Z);        (* new_block: [index]; insert: [entry'; exit']; otherwise [] *)
  hs_after : option ostate }.    (* None: the dump is identical to the previous dump of that graph *)

Inductive case := KHist (ngraphs : nat) (steps : list hstep).

(* ---------------------------------------------------------------- equality *)
Fixpoint leqb {A} (eqb : A -> A -> bool) (l1 l2 : list A) : bool :=
  match l1, l2 with
  | [], [] => true
  | a :: t1, b :: t2 => eqb a b && leqb eqb t1 t2
  | _, _ => false
  end.
Definition oeqb {A} (eqb : A -> A -> bool) (a b : option A) : bool :=
  match a, b with Some x, Some y => eqb x y | None, None => true | _, _ => false end.
Definition intr_eqb (a b : intrinsic) : bool :=
  N.eqb (in_mnemonic a) (in_mnemonic b) && leqb expr_eqb (in_args a) (in_args b)
  && oeqb (leqb expr_eqb) (in_written a) (in_written b) && oeqb (leqb expr_eqb) (in_read a) (in_read b).
Fixpoint operation_eqb (a b : operation) : bool :=
  match a, b with
  | OAssign d s, OAssign d' s' => scalar_eqb d d' && expr_eqb s s'
  | OStore i s, OStore i' s' => expr_eqb i i' && expr_eqb s s'
  | OLoad d i, OLoad d' i' => scalar_eqb d d' && expr_eqb i i'
  | OBranch t, OBranch t' => expr_eqb t t'
  | OIntrinsic i, OIntrinsic j => intr_eqb i j
  | ONop p, ONop q => match p, q with
                      | Some x, Some y => operation_eqb x y
                      | None, None => true
                      | _, _ => false
                      end
  | _, _ => false
  end.
Definition instr_eqb (a b : instruction) : bool :=
  (i_index a =? i_index b) && operation_eqb (i_op a) (i_op b) && oeqb Z.eqb (i_addr a) (i_addr b).
Definition block_eqb (a b : block) : bool :=
  (b_index a =? b_index b) && (b_next a =? b_next b) && leqb instr_eqb (b_instrs a) (b_instrs b).
Definition edge_eqb' (a b : edge) : bool :=
  (e_head a =? e_head b) && (e_tail a =? e_tail b) && oeqb expr_eqb (e_cond a) (e_cond b).
Definition cfg_eqb (a b : cfg) : bool :=
  leqb block_eqb (g_blocks a) (g_blocks b) && leqb edge_eqb' (g_edges a) (g_edges b)
  && (g_next_index a =? g_next_index b) && oeqb Z.eqb (g_entry a) (g_entry b) && oeqb Z.eqb (g_exit a) (g_exit b).
Definition rlz_eqb := res_eqb (leqb Z.eqb).

(* ---------------------------------------------------------------- tie: run the model *)
Definition nth_graph (gs : list ecfg) (k : nat) : ecfg := nth k gs ecfg_new.   (* k < length by construction *)
Fixpoint set_nth {A} (l : list A) (k : nat) (x : A) : list A :=
  match l, k with
  | [], _ => []
  | _ :: t, O => x :: t
  | a :: t, S n => a :: set_nth t n x
  end.
Definition unit_res (r : res unit) : res (list Z) := match r with Ok _ => Ok [] | Err e => Err e | Panic => Panic end.

Definition run_op (gs : list ecfg) (t : nat) (o : cop) : ecfg * res (list Z) :=
  let c := nth_graph gs t in
  match o with
  | CNewBlock => let '(c', r) := new_block c in (c', match r with Ok i => Ok [i] | Err e => Err e | Panic => Panic end)
  | CUncond h tl => let '(c', r) := unconditional_edge c h tl in (c', unit_res r)
  | CCond h tl cd => let '(c', r) := conditional_edge c h tl cd in (c', unit_res r)
  | CSetEntry i => let '(c', r) := set_entry c i in (c', unit_res r)
  | CSetExit i => let '(c', r) := set_exit c i in (c', unit_res r)
  | CPush b op => let '(c', r) := push_op c b op in (c', unit_res r)
  | CRemoveInstr b idx => let '(c', r) := remove_instruction c b idx in (c', unit_res r)
  | CSetAddress a => (set_address c a, Ok [])
  | CMerge => let '(c', r) := merge c in (c', unit_res r)
  | CAppend s => let '(c', r) := append c (nth_graph gs s) in (c', unit_res r)
  | CInsert s => let '(c', r) := insert c (nth_graph gs s) in
                 (c', match r with Ok (a, b) => Ok [a; b] | Err e => Err e | Panic => Panic end)
  | CBlockify ss => match blockify (map (nth_graph gs) ss) with
                    | Ok c' => (c', Ok [])
                    | Err e => (c, Err e)
                    | Panic => (c, Panic)
                    end
  end.

Definition model_adj (c : ecfg) : list (Z * res (list Z) * res (list Z)) :=
  map (fun b => let i := b_index b in
                (i, (l <- successor_indices (eg c) (zn i) ;; Ok (map Z.of_N l)),
                    (l <- predecessor_indices (eg c) (zn i) ;; Ok (map Z.of_N l))))
      (vertices (eg c)).
Definition adj_eqb (a b : Z * res (list Z) * res (list Z)) : bool :=
  (fst (fst a) =? fst (fst b)) && rlz_eqb (snd (fst a)) (snd (fst b)) && rlz_eqb (snd a) (snd b).

Definition empty_ostate : ostate := mkobs (mkcfg [] [] 0 None None) [].
Definition nth_obs (os : list ostate) (k : nat) : ostate := nth k os empty_ostate.
Definition after_of (os : list ostate) (s : hstep) : ostate :=
  match hs_after s with Some o => o | None => nth_obs os (hs_target s) end.

Fixpoint tie_steps (gs : list ecfg) (os : list ostate) (steps : list hstep) : bool :=
  match steps with
  | [] => true
  | s :: rest =>
      let '(c', r) := run_op gs (hs_target s) (hs_op s) in
      let o := after_of os s in
      rlz_eqb r (hs_res s)
      && cfg_eqb (to_static c') (os_cfg o)
      && leqb adj_eqb (model_adj c') (os_adj o)
      && tie_steps (set_nth gs (hs_target s) c') (set_nth os (hs_target s) o) rest
  end.

(* the static-view model (Cfg/SOps.v, the one the theorems are about) on the same history *)
Definition nth_cfg (gs : list cfg) (k : nat) : cfg := nth k gs s_new.
Definition run_sop (gs : list cfg) (t : nat) (o : cop) : cfg * res (list Z) :=
  let c := nth_cfg gs t in
  match o with
  | CNewBlock => let '(c', r) := s_new_block c in (c', match r with Ok i => Ok [i] | Err e => Err e | Panic => Panic end)
  | CUncond h tl => let '(c', r) := s_unconditional_edge c h tl in (c', unit_res r)
  | CCond h tl cd => let '(c', r) := s_conditional_edge c h tl cd in (c', unit_res r)
  | CSetEntry i => let '(c', r) := s_set_entry c i in (c', unit_res r)
  | CSetExit i => let '(c', r) := s_set_exit c i in (c', unit_res r)
  | CPush b op => let '(c', r) := s_push_op c b op in (c', unit_res r)
  | CRemoveInstr b idx => let '(c', r) := s_remove_instruction c b idx in (c', unit_res r)
  | CSetAddress a => (s_set_address c a, Ok [])
  | CMerge => let '(c', r) := s_merge c in (c', unit_res r)
  | CAppend s => let '(c', r) := s_append c (nth_cfg gs s) in (c', unit_res r)
  | CInsert s => let '(c', r) := s_insert c (nth_cfg gs s) in
                 (c', match r with Ok (a, b) => Ok [a; b] | Err e => Err e | Panic => Panic end)
  | CBlockify ss => match s_blockify (map (nth_cfg gs) ss) with
                    | (c', Ok _) => (c', Ok [])
                    | (_, Err e) => (c, Err e)
                    | (_, Panic) => (c, Panic)
                    end
  end.
Fixpoint stie_steps (gs : list cfg) (os : list ostate) (steps : list hstep) : bool :=
  match steps with
  | [] => true
  | s :: rest =>
      let '(c', r) := run_sop gs (hs_target s) (hs_op s) in
      let o := after_of os s in
      rlz_eqb r (hs_res s) && cfg_eqb c' (os_cfg o)
      && stie_steps (set_nth gs (hs_target s) c') (set_nth os (hs_target s) o) rest
  end.

(* ---------------------------------------------------------------- oracle 1: the invariant, on the dump *)
Definition sorted_tails (g : cfg) (i : Z) : list Z := map e_tail (filter (fun e => e_head e =? i) (g_edges g)).
Definition sorted_heads (g : cfg) (i : Z) : list Z := map e_head (filter (fun e => e_tail e =? i) (g_edges g)).
(* predecessor and successor queries agree with the edge set; one entry per block *)
Definition adj_ok (o : ostate) : bool :=
  leqb Z.eqb (map (fun x => fst (fst x)) (os_adj o)) (map b_index (g_blocks (os_cfg o)))
  && forallb (fun x => let i := fst (fst x) in
                       rlz_eqb (snd (fst x)) (Ok (sorted_tails (os_cfg o) i))
                       && rlz_eqb (snd x) (Ok (sorted_heads (os_cfg o) i))) (os_adj o).
Definition inv_ok (o : ostate) : bool := cfg_inv (os_cfg o) && adj_ok o.

(* ---------------------------------------------------------------- oracle 2: executable sequences *)
(* Words over (operation | guard) read along paths from the entry; unconditional edges and empty
   blocks are silent.  A state is (block, position); a word is COMPLETE when it ends at the end of the
   exit block.  [lang_eq] decides equality of both the prefix-closed language and the language of
   complete words by a bisimulation over the determinised automata (subset construction on the fly). *)
Inductive label := LOp (o : operation) | LG (c : expr).
Definition label_eqb (a b : label) : bool :=
  match a, b with
  | LOp x, LOp y => operation_eqb x y
  | LG x, LG y => expr_eqb x y
  | _, _ => false
  end.
Definition st := (Z * nat)%type.
Definition st_eqb (a b : st) : bool := (fst a =? fst b) && Nat.eqb (snd a) (snd b).
Definition mems (s : st) (l : list st) : bool := existsb (st_eqb s) l.
Definition subset (a b : list st) : bool := forallb (fun s => mems s b) a.
Definition seteq (a b : list st) : bool := subset a b && subset b a.

Definition instrs_of (g : cfg) (b : Z) : list instruction :=
  match find_block (g_blocks g) b with Some blk => b_instrs blk | None => [] end.
Definition at_end (g : cfg) (s : st) : bool := Nat.eqb (snd s) (length (instrs_of g (fst s))).
Definition eps_succ (g : cfg) (s : st) : list st :=
  if at_end g s then
    map (fun e => (e_tail e, O))
        (filter (fun e => (e_head e =? fst s) && match e_cond e with None => true | _ => false end) (g_edges g))
  else [].
Definition lab_succ (g : cfg) (s : st) : list (label * st) :=
  if at_end g s then
    flat_map (fun e => if e_head e =? fst s then match e_cond e with Some c => [(LG c, (e_tail e, O))] | None => [] end else [])
             (g_edges g)
  else match nth_error (instrs_of g (fst s)) (snd s) with
       | Some i => [(LOp (i_op i), (fst s, S (snd s)))]
       | None => []
       end.
Definition add_new (xs_ : list st) (acc : list st) : list st :=
  fold_left (fun a s => if mems s a then a else s :: a) xs_ acc.
Fixpoint closure (g : cfg) (fuel : nat) (s : list st) : list st :=
  match fuel with
  | O => s
  | S n => let s' := add_new (flat_map (eps_succ g) s) s in
           if Nat.eqb (length s') (length s) then s else closure g n s'
  end.
Definition cl (g : cfg) (s : list st) : list st := closure g (S (length (g_blocks g))) s.
Definition accepting (g : cfg) (s : list st) : bool :=
  existsb (fun x => at_end g x && match g_exit g with Some ex => ex =? fst x | None => false end) s.
Definition labels_of (g : cfg) (s : list st) : list label :=
  fold_left (fun acc p => if existsb (label_eqb (fst p)) acc then acc else fst p :: acc) (flat_map (lab_succ g) s) [].
Definition next_set (g : cfg) (s : list st) (l : label) : list st :=
  cl g (add_new (map snd (filter (fun p => label_eqb l (fst p)) (flat_map (lab_succ g) s))) []).

(* three-valued: [None] = the search budget ran out (no verdict) *)
Fixpoint bisim (acc : bool) (g1 g2 : cfg) (fuel : nat) (todo visited : list (list st * list st)) : option bool :=
  match fuel with
  | O => None
  | S n =>
      match todo with
      | [] => Some true
      | (s1, s2) :: rest =>
          if existsb (fun v => seteq s1 (fst v) && seteq s2 (snd v)) visited then bisim acc g1 g2 n rest visited
          else
            let l1 := labels_of g1 s1 in
            let l2 := labels_of g2 s2 in
            if (negb acc || Bool.eqb (accepting g1 s1) (accepting g2 s2))
               && forallb (fun l => existsb (label_eqb l) l2) l1
               && forallb (fun l => existsb (label_eqb l) l1) l2
            then bisim acc g1 g2 n (map (fun l => (next_set g1 s1 l, next_set g2 s2 l)) l1 ++ rest) ((s1, s2) :: visited)
            else Some false
      end
  end.
Definition start (g : cfg) : list st := match g_entry g with Some e => cl g [(e, O)] | None => [] end.
(* acc = true: additionally compare the words that end at the end of the exit block.
   The oracle only ever reports a DIFFERENCE that the search exhibited (a reachable pair of state sets
   with different labels / acceptance): when the budget of 2000 pairs is exhausted it is silent (true). *)
Definition lang_eq (acc : bool) (g1 g2 : cfg) : bool :=
  match bisim acc g1 g2 2000 [(start g1, start g2)] [] with Some b => b | None => true end.
Definition lang_budget_ok (acc : bool) (g1 g2 : cfg) : bool :=
  match bisim acc g1 g2 2000 [(start g1, start g2)] [] with Some _ => true | None => false end.

(* what the property text says append must be: the first graph, then a fresh copy of the second,
   joined by one unconditional edge exit(a) -> entry(b'); entry of a, exit of b'.  (Appending to a
   graph without blocks adopts the second graph's entry.)  The copy is re-indexed by a fixed offset;
   the comparison with the implementation's result is by language, hence independent of numbering. *)
Definition spec_append (a b : cfg) : cfg :=
  let off := g_next_index a + 1 in
  let rb := map (fun blk => mkblock (b_index blk + off) (b_next blk) (b_instrs blk) (b_phis blk)) (g_blocks b) in
  let re := map (fun e => mkedge (e_head e + off) (e_tail e + off) (e_cond e)) (g_edges b) in
  let sh := option_map (fun x => x + off) in
  match g_blocks a with
  | [] => mkcfg rb re 0 (sh (g_entry b)) (sh (g_exit b))
  | _ => mkcfg (g_blocks a ++ rb)
               (g_edges a ++ re ++ match g_exit a, sh (g_entry b) with Some x, Some y => [mkedge x y None] | _, _ => [] end)
               0 (g_entry a) (sh (g_exit b))
  end.

Definition is_some {A} (o : option A) : bool := match o with Some _ => true | None => false end.
Definition append_pre (a b : cfg) : bool :=
  is_some (g_entry b) && is_some (g_exit b)
  && match g_blocks a with [] => true | _ => is_some (g_entry a) && is_some (g_exit a) end.
Definition is_okr {A} (r : res A) : bool := match r with Ok _ => true | _ => false end.

Fixpoint oracle_steps (os : list ostate) (steps : list hstep) : bool :=
  match steps with
  | [] => true
  | s :: rest =>
      let before := os_cfg (nth_obs os (hs_target s)) in
      let o := after_of os s in
      let after := os_cfg o in
      inv_ok o
      && match hs_op s with
         | CMerge => is_okr (hs_res s) && lang_eq false before after
         | CAppend k =>
             let src := os_cfg (nth_obs os k) in
             if is_okr (hs_res s) then lang_eq true (spec_append before src) after
             else negb (append_pre before src)      (* with entry/exit set on both sides append does not fail *)
         | CInsert k =>
             (* the inserted copy, entered at the returned entry, runs exactly like the source *)
             match hs_res s with
             | Ok [a; b] => lang_eq true (mkcfg (g_blocks after) (g_edges after) 0 (Some a) (Some b)) (os_cfg (nth_obs os k))
             | _ => true
             end
         | _ => true
         end
      && oracle_steps (set_nth os (hs_target s) o) rest
  end.

Definition ck (k : case) : bool * bool :=
  match k with
  | KHist n steps => (tie_steps (repeat ecfg_new n) (repeat empty_ostate n) steps && stie_steps (repeat s_new n) (repeat empty_ostate n) steps, oracle_steps (repeat empty_ostate n) steps)
  end.
