(* Cfg/MergeProofs.v -- property C15: one merge step (absorbing block s into block m) succeeds on a
   mergeable pair and leaves the executable instruction sequences unchanged. *)
From Coq Require Import ZArith List Bool NArith Lia Sorted.
From Falcon Require Import Base.Res IL.Const IL.Expr IL.Func IL.Loc IL.LocProofs Cfg.CfgOps Cfg.SOps Cfg.SProofs Cfg.Lang.
Import ListNotations.
Local Open Scope Z_scope.

(* the situation merge's candidate scan selects: m has the single, unconditional out-edge m -> s,
   s has that single in-edge, s is not the entry, m <> s *)
Record mergeable (g : cfg) (m s : Z) : Prop := {
  mg_ne : m <> s;
  mg_entry : g_entry g <> Some s;
  mg_m : has_block g m = true;
  mg_s : has_block g s = true;
  mg_out : forall e, In e (g_edges g) -> e_head e = m -> e_tail e = s /\ e_cond e = None;
  mg_edge : exists e, In e (g_edges g) /\ e_head e = m /\ e_tail e = s;
  mg_in : forall e, In e (g_edges g) -> e_tail e = s -> e_head e = m }.

Lemma find_edge_none_intro es h t : (forall e, In e es -> ~ (e_head e = h /\ e_tail e = t)) -> find_edge es h t = None.
Proof.
  induction es as [|x r IH]; intros H; cbn [find_edge]; [reflexivity|].
  destruct ((e_head x =? h) && (e_tail x =? t)) eqn:E.
  - apply andb_true_iff in E as [E1 E2]. apply Z.eqb_eq in E1, E2. exfalso. apply (H x); [left; reflexivity | auto].
  - apply IH. intros e He. apply H. right; exact He.
Qed.

(* inserting a list of new, pairwise distinct edges between existing blocks succeeds *)
Lemma insert_edges_ok es : forall g, score g ->
  NoDup (map (fun e => (e_head e, e_tail e)) es) ->
  (forall e, In e es -> has_block g (e_head e) = true /\ has_block g (e_tail e) = true /\
                        forall x, In x (g_edges g) -> ~ (e_head x = e_head e /\ e_tail x = e_tail e)) ->
  exists g2, s_insert_edges g es = (g2, Ok tt) /\ score g2 /\ g_blocks g2 = g_blocks g /\
             g_next_index g2 = g_next_index g /\ g_entry g2 = g_entry g /\ g_exit g2 = g_exit g /\
             forall x, In x (g_edges g2) <-> In x es \/ In x (g_edges g).
Proof.
  induction es as [|e t IH]; intros g Hc Hnd Hes; cbn [s_insert_edges].
  - exists g. split; [reflexivity|]. split; [exact Hc|]. do 4 (split; [reflexivity|]). intros x. cbn. tauto.
  - destruct (Hes e (or_introl eq_refl)) as (Hh & Ht & Hnew).
    assert (Ei : s_insert_edge g e = Ok (s_with g (g_blocks g) (ins_edge_l e (g_edges g)))).
    { unfold s_insert_edge. rewrite (find_edge_none_intro _ _ _ Hnew), Hh, Ht. reflexivity. }
    destruct (insert_edge_core g e _ Ei Hc) as (Hc1 & Hb1 & Hn1 & En1 & Ex1 & Hin1).
    unfold s_ins_edge. rewrite Ei.
    set (g1 := s_with g (g_blocks g) (ins_edge_l e (g_edges g))) in *.
    inversion Hnd as [|? ? Hk Hnd']; subst.
    destruct (IH g1 Hc1 Hnd') as (g2 & E2 & Hc2 & Hb2 & Hn2 & En2 & Ex2 & Hin2).
    { intros e' He'. destruct (Hes e' (or_intror He')) as (Hh' & Ht' & Hnew').
      rewrite !(has_block_blocks g g1) by exact Hb1. repeat split; auto.
      intros x Hx. apply Hin1 in Hx as [->|Hx]; [|apply Hnew'; exact Hx].
      intros [E1 E2']. apply Hk. apply in_map_iff. exists e'. split; [rewrite E1, E2'; reflexivity | exact He']. }
    exists g2. split; [exact E2|]. split; [exact Hc2|]. repeat split; try congruence.
    + intros Hx. apply Hin2 in Hx as [Hx|Hx]; [left; right; exact Hx|].
      apply Hin1 in Hx as [->|Hx]; [left; left; reflexivity | right; exact Hx].
    + intros [[<-|Hx]|Hx]; apply Hin2; [right; apply Hin1; left; reflexivity | left; exact Hx | right; apply Hin1; right; exact Hx].
Qed.

Lemma block_append_ops b other :
  map i_op (b_instrs (block_append b other)) = map i_op (b_instrs b) ++ map i_op (b_instrs other).
Proof.
  unfold block_append. generalize (b_instrs other). intros l. revert b.
  induction l as [|i t IH]; intros b; cbn [fold_left map]; [rewrite app_nil_r; reflexivity|].
  rewrite IH. cbn [b_instrs]. rewrite map_app. cbn [map i_op]. rewrite <- app_assoc. reflexivity.
Qed.

Lemma score_find g b : score g -> In b (g_blocks g) -> find_block (g_blocks g) (b_index b) = Some b.
Proof. intros Hc Hb. apply find_block_in; [apply sorted_by_SS; exact (sc_blocks _ Hc) | exact Hb]. Qed.

Lemma SS_elt_nodup es : StronglySorted elt es -> NoDup (map (fun e => (e_head e, e_tail e)) es).
Proof.
  induction 1 as [|x t Hs IH Hall]; cbn [map]; constructor; [|exact IH].
  intros Hin. apply in_map_iff in Hin as (y & Hy & Hyt). rewrite Forall_forall in Hall.
  specialize (Hall y Hyt). injection Hy as H1 H2. unfold elt in Hall. lia.
Qed.

Lemma nodup_retarget (outs : list edge) (m s : Z) :
  (forall e, In e outs -> e_head e = s) -> NoDup (map (fun e => (e_head e, e_tail e)) outs) ->
  NoDup (map (fun e => (m, e_tail e)) outs).
Proof.
  induction outs as [|x t IH]; intros Hh Hnd; cbn [map]; [constructor|].
  inversion Hnd as [|? ? Hx Ht]; subst. constructor; [|apply IH; [intros e He; apply Hh; right; exact He | exact Ht]].
  intros Hi. apply in_map_iff in Hi as (y & Hy & Hyt). apply Hx. apply in_map_iff. exists y. split; [|exact Hyt].
  injection Hy as Hy. rewrite (Hh x (or_introl eq_refl)), (Hh y (or_intror Hyt)), Hy. reflexivity.
Qed.

Lemma block_append_index b other : b_index (block_append b other) = b_index b.
Proof.
  unfold block_append. generalize (b_instrs other). intros l. revert b.
  induction l as [|i t IH]; intros b; cbn [fold_left]; [reflexivity|]. rewrite IH. reflexivity.
Qed.

Lemma filter_all {A} (p : A -> bool) l : (forall x, In x l -> p x = true) -> filter p l = l.
Proof.
  induction l as [|x t IH]; intros H; cbn [filter]; [reflexivity|].
  rewrite (H x (or_introl eq_refl)). f_equal. apply IH. intros y Hy. apply H. right; exact Hy.
Qed.

Lemma remove_one_length (l : list block) s :
  StronglySorted blt l -> (exists b, In b l /\ b_index b = s) ->
  S (length (filter (fun b => negb (b_index b =? s)) l)) = length l.
Proof.
  induction 1 as [|x t Hs IH Hall]; intros (b & Hb & Hi); [destruct Hb|].
  cbn [filter length]. rewrite Forall_forall in Hall. destruct (b_index x =? s) eqn:E; cbn [negb].
  - apply Z.eqb_eq in E. rewrite filter_all; [reflexivity|].
    intros y Hy. apply negb_true_iff, Z.eqb_neq. specialize (Hall y Hy). unfold blt in Hall. lia.
  - cbn [length]. f_equal. apply IH. destruct Hb as [->|Hb]; [apply Z.eqb_neq in E; contradiction | exists b; auto].
Qed.

Lemma length_filter_map_idx (f : block -> block) (p : Z -> bool) l :
  (forall x, b_index (f x) = b_index x) ->
  length (filter (fun b => p (b_index b)) (map f l)) = length (filter (fun b => p (b_index b)) l).
Proof.
  intros Hf. induction l as [|x t IH]; cbn [map filter]; [reflexivity|].
  rewrite Hf. destruct (p (b_index x)); cbn [length]; rewrite IH; reflexivity.
Qed.

Section MergeStep.
  Variables (g : cfg) (m s : Z).
  Hypothesis Hs : sinv g.
  Hypothesis Hmg : mergeable g m s.

  Theorem merge_one_shape :
    exists g' bm bs,
      s_merge_one g m s = (g', Ok tt) /\
      find_block (g_blocks g) m = Some bm /\ find_block (g_blocks g) s = Some bs /\
      score g' /\ g_entry g' = g_entry g /\ g_next_index g' = g_next_index g /\
      S (length (g_blocks g')) = length (g_blocks g) /\
      (forall b, In b (g_blocks g') <->
                 (In b (g_blocks g) /\ b_index b <> m /\ b_index b <> s) \/ b = block_append bm bs) /\
      (forall e', In e' (g_edges g') <->
         (In e' (g_edges g) /\ e_head e' <> s /\ e_tail e' <> s) \/
         (exists e0, In e0 (g_edges g) /\ e_head e0 = s /\ e' = mkedge m (e_tail e0) (e_cond e0))).
  Proof.
    destruct Hmg as [Hne Hen Hm Hsb Hout Hedge Hin].
    pose proof (si_core _ Hs) as Hc.
    apply has_block_find in Hm as [bm Ebm]. apply has_block_find in Hsb as [bs Ebs].
    pose proof (find_block_some _ _ _ Ebm) as [Hbm_in Hbm_i]. pose proof (find_block_some _ _ _ Ebs) as [Hbs_in Hbs_i].
    unfold s_merge_one, cfg_block. rewrite Ebs.
    (* update of m *)
    set (upd := fun x : block => if b_index x =? m then block_append x bs else x).
    assert (Eu : s_update_block g m (fun b => block_append b bs) = Ok (s_with g (map upd (g_blocks g)) (g_edges g))).
    { unfold s_update_block. rewrite Ebm. reflexivity. }
    rewrite Eu. set (g1 := s_with g (map upd (g_blocks g)) (g_edges g)).
    destruct (update_block_core g m _ g1 Eu Hc) as (Hc1 & Hh1 & Hn1 & En1 & Ex1 & Ee1).
    { intros b Hb _. apply block_append_ok. exact (proj1 (sc_ok _ Hc b Hb)). }
    assert (Hs1 : has_block g1 s = true) by (rewrite Hh1; unfold has_block; rewrite Ebs; reflexivity).
    assert (Hm1 : has_block g1 m = true) by (rewrite Hh1; unfold has_block; rewrite Ebm; reflexivity).
    unfold cfg_edges_out. rewrite Hs1.
    set (outs := filter (fun e => e_head e =? s) (g_edges g1)).
    set (es := map (fun e => mkedge m (e_tail e) (e_cond e)) outs).
    assert (Houts : forall e, In e outs <-> In e (g_edges g) /\ e_head e = s).
    { intros e. unfold outs. rewrite filter_In, Ee1, Z.eqb_eq. reflexivity. }
    assert (Htail : forall e, In e (g_edges g) -> e_head e = s -> e_tail e <> s).
    { intros e He Hh Ht. apply Hin in Ht; [congruence | exact He]. }
    destruct (insert_edges_ok es g1 Hc1) as (g2 & E2 & Hc2 & Hb2 & Hn2 & En2 & Ex2 & Hin2).
    { unfold es. rewrite map_map. cbn [e_head e_tail]. apply (nodup_retarget outs m s).
      - intros e He. apply Houts in He. exact (proj2 He).
      - unfold outs. rewrite Ee1. exact (SS_elt_nodup _ (SS_filter elt (fun e => e_head e =? s) _ (sc_edges _ Hc))). }
    { intros e He. unfold es in He. apply in_map_iff in He as (e0 & <- & He0). apply Houts in He0 as [He0 Hh0].
      cbn [e_head e_tail]. split; [exact Hm1|]. split.
      - rewrite Hh1. exact (proj2 (sc_ends _ Hc e0 He0)).
      - intros x Hx [Hxh Hxt]. rewrite Ee1 in Hx. destruct (Hout x Hx Hxh) as [Hxs _].
        apply (Htail e0 He0 Hh0). congruence. }
    rewrite E2.
    (* removal of s *)
    assert (Hs2 : has_block g2 s = true) by (rewrite (has_block_blocks g1 g2 s Hb2); exact Hs1).
    assert (Er : s_remove_vertex g2 s =
                 Ok (s_with g2 (filter (fun b => negb (b_index b =? s)) (g_blocks g2))
                               (filter (fun e => negb (e_head e =? s) && negb (e_tail e =? s)) (g_edges g2)))).
    { unfold s_remove_vertex. rewrite Hs2. reflexivity. }
    rewrite Er. set (g3 := s_with g2 _ _).
    destruct (remove_vertex_core g2 s g3 Er Hc2) as (Hc3 & Hh3 & Hn3 & En3 & Ex3).
    eexists _, bm, bs. split; [reflexivity|]. split; [exact Ebm|]. split; [reflexivity|].
    split; [destruct Hc3 as [A B C D F]; split; cbn [g_blocks g_edges g_next_index]; auto|].
    cbn [g_entry g_next_index g_blocks g_edges]. split; [congruence|]. split; [congruence|]. split; [|split].
    - unfold g3. cbn [s_with g_blocks]. rewrite Hb2. unfold g1. cbn [s_with g_blocks].
      rewrite (length_filter_map_idx upd (fun i => negb (i =? s))).
      + apply remove_one_length; [exact (sc_blocks _ Hc)|]. exists bs. auto.
      + intros x. unfold upd. destruct (b_index x =? m); [apply block_append_index | reflexivity].
    - intros b. unfold g3. cbn [s_with g_blocks]. rewrite filter_In, Hb2. unfold g1. cbn [s_with g_blocks].
      rewrite in_map_iff. split.
      + intros [(x & <- & Hx) Hnes]. apply negb_true_iff, Z.eqb_neq in Hnes. unfold upd in *.
        destruct (b_index x =? m) eqn:Exm.
        * apply Z.eqb_eq in Exm. right. f_equal. pose proof (score_find g x Hc Hx) as F. rewrite Exm, Ebm in F. congruence.
        * apply Z.eqb_neq in Exm. left. auto.
      + intros [(Hb & Hbm & Hbs)| ->].
        * split; [|apply negb_true_iff, Z.eqb_neq; exact Hbs]. exists b. split; [|exact Hb].
          unfold upd. destruct (b_index b =? m) eqn:E; [apply Z.eqb_eq in E; contradiction | reflexivity].
        * split.
          -- exists bm. split; [|exact Hbm_in]. unfold upd. rewrite Hbm_i, Z.eqb_refl. reflexivity.
          -- apply negb_true_iff, Z.eqb_neq. rewrite (proj2 (block_append_ok bm bs (proj1 (sc_ok _ Hc bm Hbm_in)))). congruence.
    - intros e'. unfold g3. cbn [s_with g_edges]. rewrite filter_In, Hin2, Ee1, andb_true_iff, !negb_true_iff, !Z.eqb_neq. split.
      + intros [[He|He] [H1 H2]].
        * right. unfold es in He. apply in_map_iff in He as (e0 & <- & He0). apply Houts in He0 as [He0 Hh0]. exists e0. auto.
        * left. auto.
      + intros [(He & H1 & H2)|(e0 & He0 & Hh0 & ->)].
        * auto.
        * cbn [e_head e_tail]. split; [|split; [congruence | exact (Htail e0 He0 Hh0)]].
          left. unfold es. apply in_map_iff. exists e0. split; [reflexivity | apply Houts; auto].
  Qed.

  (* C15, clause 2 (one step): the merge succeeds and the executable sequences are unchanged *)
  Theorem merge_step_lang :
    snd (s_merge_one g m s) = Ok tt /\ forall w, lang (fst (s_merge_one g m s)) w <-> lang g w.
  Proof.
    destruct merge_one_shape as (g' & bm & bs & E & Ebm & Ebs & Hc' & En' & _ & _ & Hblocks & Hedges).
    rewrite E. cbn [fst snd]. split; [reflexivity|].
    destruct Hmg as [Hne Hen Hm Hsb Hout Hedge Hin]. pose proof (si_core _ Hs) as Hc.
    pose proof (find_block_some _ _ _ Ebm) as [Hbm_in Hbm_i]. pose proof (find_block_some _ _ _ Ebs) as [Hbs_in Hbs_i].
    assert (Hidx : b_index (block_append bm bs) = m).
    { rewrite (proj2 (block_append_ok bm bs (proj1 (sc_ok _ Hc bm Hbm_in)))). exact Hbm_i. }
    apply (merge_sim_lang g g' m s (map i_op (b_instrs bm)) (map i_op (b_instrs bs))); auto.
    - unfold block_ops. rewrite Ebm. reflexivity.
    - unfold block_ops. rewrite Ebs. reflexivity.
    - intros e He. pose proof (proj2 (sc_ends _ Hc e He)) as Ht. unfold block_ops.
      apply has_block_find in Ht as [b Eb]. rewrite Eb. discriminate.
    - intros e He. pose proof (si_entry _ Hs e He) as H. apply has_block_find in H as [b Eb].
      unfold block_ops. rewrite Eb. discriminate.
    - (* s is gone *)
      unfold block_ops. destruct (find_block (g_blocks g') s) as [b|] eqn:F; [|reflexivity].
      apply find_block_some in F as [Hb Hi]. apply Hblocks in Hb as [(_ & _ & H)| ->]; [contradiction | congruence].
    - (* m holds both instruction lists *)
      unfold block_ops.
      assert (Hin' : In (block_append bm bs) (g_blocks g')) by (apply Hblocks; right; reflexivity).
      pose proof (score_find g' _ Hc' Hin') as F. rewrite Hidx in F. rewrite F. cbn [option_map].
      rewrite block_append_ops. reflexivity.
    - (* the other blocks are untouched *)
      intros b Hbm Hbs. unfold block_ops.
      destruct (find_block (g_blocks g) b) as [blk|] eqn:F.
      + apply find_block_some in F as [Hb Hi].
        assert (Hin' : In blk (g_blocks g')) by (apply Hblocks; left; repeat split; congruence).
        pose proof (score_find g' _ Hc' Hin') as F'. rewrite Hi in F'. rewrite F'. reflexivity.
      + destruct (find_block (g_blocks g') b) as [blk|] eqn:F'; [|reflexivity].
        apply find_block_some in F' as [Hb Hi]. apply Hblocks in Hb as [(Hb & _ & _)| ->].
        * exfalso. exact (find_block_none _ _ F blk Hb Hi).
        * congruence.
  Qed.
End MergeStep.

(* ------------------------------------------------------------------ a whole merge *)
Lemma merge_one_count g m s : sinv g -> mergeable g m s ->
  S (length (g_blocks (fst (s_merge_one g m s)))) = length (g_blocks g).
Proof.
  intros Hs Hmg. destruct (merge_one_shape g m s Hs Hmg) as (g' & bm & bs & E & _ & _ & _ & _ & _ & Hcnt & _).
  rewrite E. exact Hcnt.
Qed.

(* the pairs chosen in one round: each mergeable, all four-wise distinct *)
Fixpoint flat (ms : list (Z * Z)) : list Z :=
  match ms with [] => [] | (a, b) :: t => a :: b :: flat t end.
Definition pairs_ok (g : cfg) (ms : list (Z * Z)) : Prop :=
  (forall a b, In (a, b) ms -> mergeable g a b) /\ NoDup (flat ms).

Lemma in_flat a b ms : In (a, b) ms -> In a (flat ms) /\ In b (flat ms).
Proof.
  induction ms as [|[x y] t IH]; [intros []|]. cbn [flat]. intros [[= -> ->]|H].
  - split; [left; reflexivity | right; left; reflexivity].
  - destruct (IH H). split; right; right; assumption.
Qed.

Lemma flat_app ms a b : flat (ms ++ [(a, b)]) = flat ms ++ [a; b].
Proof. induction ms as [|[x y] t IH]; cbn [flat app]; [reflexivity | rewrite IH; reflexivity]. Qed.

Lemma memZ_in x l : memZ x l = true <-> In x l.
Proof.
  unfold memZ. rewrite existsb_exists. split.
  - intros (y & Hy & E). apply Z.eqb_eq in E. subst. exact Hy.
  - intros H. exists x. split; [exact H | apply Z.eqb_refl].
Qed.

Lemma singleton_filter {A} (p : A -> bool) l e : filter p l = [e] -> forall x, In x l -> p x = true -> x = e.
Proof.
  intros H x Hx Hp. assert (Hin : In x (filter p l)) by (apply filter_In; auto). rewrite H in Hin.
  destruct Hin as [<-|[]]. reflexivity.
Qed.

Lemma scan_spec g : sinv g -> forall bs being ms,
  (forall b, In b bs -> In b (g_blocks g)) ->
  (forall x, In x (flat ms) -> In x being) -> pairs_ok g ms ->
  exists ms', s_merge_scan g bs being ms = Ok ms' /\ pairs_ok g ms' /\ (ms <> [] -> ms' <> []).
Proof.
  intros Hs. pose proof (si_core _ Hs) as Hc.
  induction bs as [|b rest IH]; intros being ms Hbs Hsub Hok; cbn [s_merge_scan].
  - exists ms. auto.
  - assert (Hrest : forall x, In x rest -> In x (g_blocks g)) by (intros x Hx; apply Hbs; right; exact Hx).
    destruct (memZ (b_index b) being) eqn:Emb; [apply IH; auto|].
    assert (Hb : In b (g_blocks g)) by (apply Hbs; left; reflexivity).
    assert (Hhb : has_block g (b_index b) = true) by (apply has_block_iff; exists b; auto).
    unfold cfg_edges_out. rewrite Hhb.
    destruct (filter (fun e => e_head e =? b_index b) (g_edges g)) as [|e [|e2 l]] eqn:Eout; try (apply IH; auto).
    destruct (e_cond e) eqn:Ec; [apply IH; auto|].
    destruct (match g_entry g with Some en => en =? e_tail e | None => false end) eqn:Een; [apply IH; auto|].
    destruct (e_tail e =? b_index b) eqn:Eself; [apply IH; auto|].
    destruct (memZ (e_tail e) being) eqn:Ems; [apply IH; auto|].
    assert (He : In e (g_edges g) /\ e_head e = b_index b).
    { assert (H : In e (filter (fun e => e_head e =? b_index b) (g_edges g))) by (rewrite Eout; left; reflexivity).
      apply filter_In in H as [H1 H2]. apply Z.eqb_eq in H2. auto. }
    destruct He as [He Hh].
    assert (Hhs : has_block g (e_tail e) = true) by exact (proj2 (sc_ends _ Hc e He)).
    unfold cfg_edges_in. rewrite Hhs.
    destruct (filter (fun e0 => e_tail e0 =? e_tail e) (g_edges g)) as [|e1 [|e1' l']] eqn:Ein; try (apply IH; auto).
    (* the pair (b, tail e) is selected *)
    assert (Hne : b_index b <> e_tail e) by (apply Z.eqb_neq in Eself; congruence).
    assert (Hnb : ~ In (b_index b) being) by (intros H; apply memZ_in in H; congruence).
    assert (Hns : ~ In (e_tail e) being) by (intros H; apply memZ_in in H; congruence).
    destruct (IH (e_tail e :: b_index b :: being) (ms ++ [(b_index b, e_tail e)]) Hrest) as (ms' & E' & Hok' & Hne').
    + intros x Hx. rewrite flat_app in Hx. apply in_app_or in Hx as [Hx|[<-|[<-|[]]]].
      * right; right. apply Hsub; exact Hx.
      * right; left; reflexivity.
      * left; reflexivity.
    + destruct Hok as [Hmg Hnd]. split.
      * intros a c Hin. apply in_app_or in Hin as [Hin|[[= <- <-]|[]]]; [apply Hmg; exact Hin|].
        constructor; auto.
        -- destruct (g_entry g) as [en|]; [|discriminate]. apply Z.eqb_neq in Een. congruence.
        -- intros e' He' Hh'.
           assert (e' = e) by (apply (singleton_filter _ _ _ Eout e' He'); apply Z.eqb_eq; exact Hh'). subst e'. auto.
        -- exists e. auto.
        -- intros e' He' Ht'.
           assert (E1 : e' = e1) by (apply (singleton_filter _ _ _ Ein e' He'); apply Z.eqb_eq; exact Ht').
           assert (E2 : e = e1) by (apply (singleton_filter _ _ _ Ein e He); apply Z.eqb_refl). congruence.
      * rewrite flat_app. apply NoDup_app_intro; [exact Hnd | |].
        -- constructor; [intros [H|[]]; congruence | constructor; [intros [] | constructor]].
        -- intros x Hx [<-|[<-|[]]]; [apply Hnb | apply Hns]; apply Hsub; exact Hx.
    + exists ms'. split; [exact E'|]. split; [exact Hok'|]. intros _. apply Hne'. destruct ms; discriminate.
Qed.

(* merging one pair keeps every other selected pair mergeable *)
Lemma mergeable_preserved g m s m2 s2 : sinv g -> mergeable g m s -> mergeable g m2 s2 ->
  m2 <> m -> m2 <> s -> s2 <> m -> s2 <> s -> mergeable (fst (s_merge_one g m s)) m2 s2.
Proof.
  intros Hs Hmg Hmg2 H1 H2 H3 H4.
  destruct (merge_one_shape g m s Hs Hmg) as (g' & bm & bs & E & Ebm & Ebs & Hc' & En' & _ & _ & Hblocks & Hedges).
  rewrite E. cbn [fst]. destruct Hmg2 as [Hne2 Hen2 Hm2 Hsb2 Hout2 Hedge2 Hin2].
  assert (Hkeep : forall j, j <> m -> j <> s -> has_block g j = true -> has_block g' j = true).
  { intros j Hjm Hjs Hj. apply has_block_iff in Hj as (b & Hb & Hi). apply has_block_iff. exists b. split; [|exact Hi].
    apply Hblocks. left. repeat split; congruence. }
  constructor; auto.
  - congruence.
  - intros e' He' Hh'. apply Hedges in He' as [(He & _ & _)|(e0 & He0 & Hh0 & ->)]; [apply Hout2; assumption|].
    cbn [e_head] in Hh'. congruence.
  - destruct Hedge2 as (e & He & Hh & Ht). exists e. split; [|auto]. apply Hedges. left. repeat split; congruence.
  - intros e' He' Ht'. apply Hedges in He' as [(He & _ & _)|(e0 & He0 & Hh0 & ->)]; [apply Hin2; assumption|].
    cbn [e_tail] in Ht'. cbn [e_head]. exfalso. apply Hin2 in Ht'; [congruence | exact He0].
Qed.

Lemma merge_apply_spec ms : forall g, sinv g -> pairs_ok g ms ->
  snd (s_merge_apply g ms) = Ok tt /\ sinv (fst (s_merge_apply g ms)) /\
  (forall w, lang (fst (s_merge_apply g ms)) w <-> lang g w) /\
  (length (g_blocks (fst (s_merge_apply g ms))) + length ms = length (g_blocks g))%nat.
Proof.
  induction ms as [|[m s] t IH]; intros g Hs [Hmg Hnd]; cbn [s_merge_apply].
  - cbn [fst snd length]. split; [reflexivity|]. split; [exact Hs|]. split; [intros w; reflexivity | lia].
  - pose proof (Hmg m s (or_introl eq_refl)) as Hms.
    destruct (merge_step_lang g m s Hs Hms) as [Eok Hlang].
    pose proof (merge_one_count g m s Hs Hms) as Hcnt.
    destruct (merge_one_inv g m s Hs (mg_ne _ _ _ Hms) (mg_entry _ _ _ Hms)) as [Hs1 _].
    destruct (s_merge_one g m s) as [g1 r1] eqn:E1. cbn [fst snd] in *. subst r1.
    cbn [flat] in Hnd. inversion Hnd as [|? ? Hm_nin Hnd1]; subst. inversion Hnd1 as [|? ? Hs_nin Hnd2]; subst.
    destruct (IH g1 Hs1) as (K1 & K2 & K3 & K4).
    { split; [|exact Hnd2]. intros a b Hin. destruct (in_flat a b t Hin) as [Ha Hb].
      replace g1 with (fst (s_merge_one g m s)) by (rewrite E1; reflexivity).
      apply mergeable_preserved; auto.
      - apply Hmg. right; exact Hin.
      - intros ->. apply Hm_nin. right; exact Ha.
      - intros ->. apply Hs_nin. exact Ha.
      - intros ->. apply Hm_nin. right; exact Hb.
      - intros ->. apply Hs_nin. exact Hb. }
    split; [exact K1|]. split; [exact K2|]. split.
    + intros w. rewrite K3. apply Hlang.
    + cbn [length]. lia.
Qed.

Lemma merge_loop_spec fuel : forall g, sinv g -> (length (g_blocks g) < fuel)%nat ->
  snd (s_merge_loop fuel g) = Ok tt /\ forall w, lang (fst (s_merge_loop fuel g)) w <-> lang g w.
Proof.
  induction fuel as [|n IH]; intros g Hs Hlt; [lia|]. cbn [s_merge_loop].
  destruct (scan_spec g Hs (g_blocks g) [] [] (fun b H => H) (fun x H => match H with end))
    as (ms & Esc & Hok & _).
  { split; [intros ? ? [] | constructor]. }
  rewrite Esc. destruct ms as [|p ms]; [cbn; split; [reflexivity | tauto]|].
  destruct (merge_apply_spec (p :: ms) g Hs Hok) as (K1 & K2 & K3 & K4).
  destruct (s_merge_apply g (p :: ms)) as [g' r'] eqn:Ea. cbn [fst snd] in *. subst r'.
  destruct (IH g' K2) as [L1 L2]; [cbn [length] in K4; lia|].
  split; [exact L1|]. intros w. rewrite L2. apply K3.
Qed.

(* C15, clause 2: merge terminates without error on every invariant-satisfying graph and does not
   change the instruction sequences executable from the entry *)
Theorem merge_lang g : sinv g ->
  snd (s_merge g) = Ok tt /\ sinv (fst (s_merge g)) /\ forall w, lang (fst (s_merge g)) w <-> lang g w.
Proof.
  intros Hs. destruct (merge_loop_spec (S (length (g_blocks g))) g Hs) as [H1 H2]; [lia|].
  split; [exact H1|]. split; [apply merge_inv; exact Hs | exact H2].
Qed.
