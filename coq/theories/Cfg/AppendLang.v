(* Cfg/AppendLang.v -- property C15: "appending runs the first graph and then the second".
   From the structure of append (AppendProofs.append_struct): the words executable from the entry of
   the result are those of g, plus a complete word of g (entry to the end of the exit block) followed by
   a word of [other]; complete words of the result are concatenations of complete words. *)
From Coq Require Import ZArith List Bool NArith Lia Sorted.
From Falcon Require Import Base.Res IL.Const IL.Expr IL.Func IL.Loc IL.LocProofs Cfg.CfgOps Cfg.SOps Cfg.SProofs Cfg.Lang Cfg.MergeProofs Cfg.AppendProofs.
Import ListNotations.
Local Open Scope Z_scope.

Definition is_block (g : cfg) (b : Z) : Prop := block_ops g b <> None.

Section AppendSim.
  Variables (g other g' : cfg) (rho : Z -> Z) (n ex oen : Z).
  Hypothesis Hold_ops : forall b, is_block g b -> block_ops g' b = block_ops g b.
  Hypothesis Hold_lt : forall b, is_block g b -> b < n.
  Hypothesis Hnew_ops : forall i, is_block other i -> block_ops g' (rho i) = block_ops other i.
  Hypothesis Hnew_ge : forall i, is_block other i -> n <= rho i.
  Hypothesis Hinj : forall i j, is_block other i -> is_block other j -> rho i = rho j -> i = j.
  Hypothesis Hedges : forall e, In e (g_edges g') <->
     In e (g_edges g) \/
     (exists e0, In e0 (g_edges other) /\ e = mkedge (rho (e_head e0)) (rho (e_tail e0)) (e_cond e0)) \/
     e = mkedge ex (rho oen) None.
  Hypothesis Hg_ends : forall e, In e (g_edges g) -> is_block g (e_head e) /\ is_block g (e_tail e).
  Hypothesis Ho_ends : forall e, In e (g_edges other) -> is_block other (e_head e) /\ is_block other (e_tail e).
  Hypothesis Hex : is_block g ex.
  Hypothesis Hoen : is_block other oen.

  Definition rst (x : st) : st := (rho (fst x), snd x).

  (* the old part runs as before *)
  Lemma old_step x w y : sstep g x w y -> sstep g' x w y.
  Proof.
    intros [b k ops o Hops Hn | b ops e Hops He Hh].
    - eapply ss_op; [|exact Hn]. rewrite Hold_ops; [exact Hops | unfold is_block; congruence].
    - eapply ss_edge; [|apply Hedges; left; exact He | exact Hh]. rewrite Hold_ops; [exact Hops | unfold is_block; congruence].
  Qed.
  Lemma old_run x w y : srun g x w y -> srun g' x w y.
  Proof. induction 1; [apply sr_nil | eapply sr_step; [apply old_step; eassumption | assumption]]. Qed.

  (* the copy runs like [other] *)
  Lemma new_step x w y : sstep other x w y -> sstep g' (rst x) w (rst y).
  Proof.
    intros [b k ops o Hops Hn | b ops e Hops He Hh]; unfold rst; cbn [fst snd].
    - eapply ss_op; [|exact Hn]. rewrite Hnew_ops; [exact Hops | unfold is_block; congruence].
    - change (guard_word e) with (guard_word (mkedge (rho (e_head e)) (rho (e_tail e)) (e_cond e))).
      change (rho (e_tail e)) with (e_tail (mkedge (rho (e_head e)) (rho (e_tail e)) (e_cond e))).
      eapply ss_edge.
      + rewrite Hnew_ops; [exact Hops | unfold is_block; congruence].
      + apply Hedges. right; left. exists e. auto.
      + cbn [e_head]. rewrite Hh. reflexivity.
  Qed.
  Lemma new_run x w y : srun other x w y -> srun g' (rst x) w (rst y).
  Proof. induction 1; [apply sr_nil | eapply sr_step; [apply new_step; eassumption | assumption]]. Qed.

  (* a run of the result that starts inside the copy stays there and is a run of [other] *)
  Lemma new_step_inv i k w y : is_block other i -> sstep g' (rho i, k) w y ->
    exists y0, y = rst y0 /\ sstep other (i, k) w y0 /\ is_block other (fst y0).
  Proof.
    intros Hi Hst. apply sstep_inv in Hst as [(ops & o & Hops & Hn & -> & ->)|(ops & e & Hops & Hk & He & Hh & -> & ->)].
    - rewrite (Hnew_ops i Hi) in Hops. exists (i, S k). split; [reflexivity|]. split; [eapply ss_op; eassumption | exact Hi].
    - rewrite (Hnew_ops i Hi) in Hops. apply Hedges in He as [He|[(e0 & He0 & ->)| ->]].
      + exfalso. pose proof (Hold_lt _ (proj1 (Hg_ends e He))). pose proof (Hnew_ge i Hi). lia.
      + cbn [e_head e_tail] in *. destruct (Ho_ends e0 He0) as [A1 A2].
        apply (Hinj _ _ A1 Hi) in Hh. exists (e_tail e0, O). split; [reflexivity|]. split; [|exact A2].
        subst k. change (guard_word (mkedge (rho (e_head e0)) (rho (e_tail e0)) (e_cond e0))) with (guard_word e0).
        eapply ss_edge; [exact Hops | exact He0 | exact Hh].
      + exfalso. cbn [e_head] in Hh. pose proof (Hold_lt ex Hex). pose proof (Hnew_ge i Hi). lia.
  Qed.
  Lemma new_run_inv x' w y : srun g' x' w y -> forall i k, x' = (rho i, k) -> is_block other i ->
    exists y0, y = rst y0 /\ srun other (i, k) w y0.
  Proof.
    induction 1 as [z | z w1 z1 w2 z2 Hst Hr IH]; intros i k -> Hi.
    - exists (i, k). split; [reflexivity | apply sr_nil].
    - destruct (new_step_inv i k w1 z1 Hi Hst) as ([i1 k1] & -> & Hst0 & Hi1). cbn [fst] in Hi1.
      destruct (IH i1 k1 eq_refl Hi1) as (y0 & -> & Hr0).
      exists y0. split; [reflexivity | eapply sr_step; eassumption].
  Qed.

  (* a run of the result that starts in the old part either stays there, or reaches the end of the
     exit block, crosses the transition edge silently and continues in the copy *)
  Lemma old_step_inv b k w y : is_block g b -> sstep g' (b, k) w y ->
    (sstep g (b, k) w y /\ is_block g (fst y)) \/
    (exists ops, b = ex /\ block_ops g ex = Some ops /\ k = length ops /\ w = [] /\ y = (rho oen, O)).
  Proof.
    intros Hb Hst. apply sstep_inv in Hst as [(ops & o & Hops & Hn & -> & ->)|(ops & e & Hops & Hk & He & Hh & -> & ->)].
    - rewrite (Hold_ops b Hb) in Hops. left. split; [eapply ss_op; eassumption | exact Hb].
    - rewrite (Hold_ops b Hb) in Hops. apply Hedges in He as [He|[(e0 & He0 & ->)| ->]].
      + left. subst k. split; [eapply ss_edge; eassumption | exact (proj2 (Hg_ends e He))].
      + exfalso. cbn [e_head] in Hh. pose proof (Hold_lt b Hb). pose proof (Hnew_ge _ (proj1 (Ho_ends e0 He0))). lia.
      + right. cbn [e_head e_tail] in *. subst b. exists ops. auto.
  Qed.

  Lemma old_run_inv x w y : srun g' x w y -> is_block g (fst x) ->
    (srun g x w y /\ is_block g (fst y)) \/
    (exists ops w1 w2 z, w = w1 ++ w2 /\ block_ops g ex = Some ops /\ srun g x w1 (ex, length ops) /\
                         srun other (oen, O) w2 z /\ y = rst z).
  Proof.
    induction 1 as [z | [b k] w1 z1 w2 z2 Hst Hr IH]; intros Hb; cbn [fst] in Hb.
    - left. split; [apply sr_nil | exact Hb].
    - destruct (old_step_inv b k w1 z1 Hb Hst) as [[Hst0 Hb1]|(ops & -> & Hops & -> & -> & ->)].
      + destruct (IH Hb1) as [[Hr0 Hb2]|(ops & u1 & u2 & z & Ew & Hops & Hr1 & Hr2 & ->)].
        * left. split; [eapply sr_step; eassumption | exact Hb2].
        * right. exists ops, (w1 ++ u1), u2, z. subst w2. rewrite app_assoc. split; [reflexivity|]. split; [exact Hops|]. split; [eapply sr_step; eassumption|]. split; [exact Hr2 | reflexivity].
      + destruct (new_run_inv _ _ _ Hr oen O eq_refl Hoen) as (y0 & -> & Hr0).
        right. exists ops, [], w2, y0. split; [reflexivity|]. split; [exact Hops|]. split; [apply sr_nil|]. split; [exact Hr0 | reflexivity].
  Qed.

  Lemma other_run_block a w b : srun other a w b -> is_block other (fst a) -> is_block other (fst b).
  Proof.
    induction 1 as [|a u1 a1 u2 a2 Hst Hr IH]; intros Ha; [exact Ha|]. apply IH.
    destruct Hst as [b k ops o Hops Hn | b ops e Hops He Hh]; cbn [fst] in *; [exact Ha | exact (proj2 (Ho_ends e He))].
  Qed.

  Variables (en oex : Z).
  Hypothesis Hentry : g_entry g = Some en.
  Hypothesis Hentry' : g_entry g' = Some en.
  Hypothesis Hen_blk : is_block g en.
  Hypothesis Hexit : g_exit g = Some ex.
  Hypothesis Hoentry : g_entry other = Some oen.
  Hypothesis Hoexit : g_exit other = Some oex.
  Hypothesis Hexit' : g_exit g' = Some (rho oex).
  Hypothesis Hoex : is_block other oex.

  Lemma hop_edge ops : block_ops g ex = Some ops -> srun g' (ex, length ops) [] (rho oen, O).
  Proof.
    intros Hops. apply srun_one.
    change (@nil label) with (guard_word (mkedge ex (rho oen) None)).
    change (rho oen) with (e_tail (mkedge ex (rho oen) None)).
    eapply ss_edge; [rewrite (Hold_ops ex Hex); exact Hops | apply Hedges; right; right; reflexivity | reflexivity].
  Qed.

  (* sequences executable from the entry: those of g, or a complete word of g then a word of other *)
  Theorem append_lang w :
    lang g' w <-> lang g w \/ exists w1 w2, w = w1 ++ w2 /\ clang g w1 /\ lang other w2.
  Proof.
    split.
    - intros (e & y & He & Hr). rewrite Hentry' in He. injection He as <-.
      destruct (old_run_inv _ _ _ Hr Hen_blk) as [[Hr0 _]|(ops & w1 & w2 & z & -> & Hops & Hr1 & Hr2 & ->)].
      + left. exists en, y. auto.
      + right. exists w1, w2. split; [reflexivity|]. split.
        * exists en, ex, ops. auto.
        * exists oen, z. auto.
    - intros [(e & y & He & Hr)|(w1 & w2 & -> & (e & x & ops & He & Hx & Hops & Hr1) & (e2 & z & He2 & Hr2))].
      + rewrite Hentry in He. injection He as <-. exists en, y. split; [exact Hentry' | apply old_run; exact Hr].
      + rewrite Hentry in He. injection He as <-. rewrite Hexit in Hx. injection Hx as <-.
        rewrite Hoentry in He2. injection He2 as <-.
        exists en, (rst z). split; [exact Hentry'|].
        eapply srun_app; [apply old_run; exact Hr1|].
        change w2 with ([] ++ w2). eapply srun_app; [apply hop_edge; exact Hops|].
        exact (new_run _ _ _ Hr2).
  Qed.

  (* complete words of the result = complete word of g followed by complete word of other *)
  Theorem append_clang w :
    clang g' w <-> exists w1 w2, w = w1 ++ w2 /\ clang g w1 /\ clang other w2.
  Proof.
    split.
    - intros (e & x & ops' & He & Hx & Hops' & Hr). rewrite Hentry' in He. injection He as <-.
      rewrite Hexit' in Hx. injection Hx as <-. rewrite (Hnew_ops oex Hoex) in Hops'.
      destruct (old_run_inv _ _ _ Hr Hen_blk) as [[_ Hb]|(ops & w1 & w2 & [zb zk] & -> & Hops & Hr1 & Hr2 & Hz)].
      + exfalso. cbn [fst] in Hb. pose proof (Hold_lt _ Hb). pose proof (Hnew_ge oex Hoex). lia.
      + unfold rst in Hz. cbn [fst snd] in Hz. injection Hz as Hz1 Hz2.
        assert (Hzb : is_block other zb) by exact (other_run_block _ _ _ Hr2 Hoen).
        apply (Hinj _ _ Hoex Hzb) in Hz1. subst zb zk.
        exists w1, w2. split; [reflexivity|]. split.
        * exists en, ex, ops. auto.
        * exists oen, oex, ops'. auto.
    - intros (w1 & w2 & -> & (e & x & ops & He & Hx & Hops & Hr1) & (e2 & x2 & ops2 & He2 & Hx2 & Hops2 & Hr2)).
      rewrite Hentry in He. injection He as <-. rewrite Hexit in Hx. injection Hx as <-.
      rewrite Hoentry in He2. injection He2 as <-. rewrite Hoexit in Hx2. injection Hx2 as <-.
      exists en, (rho oex), ops2. split; [exact Hentry'|]. split; [exact Hexit'|].
      split; [rewrite (Hnew_ops oex Hoex); exact Hops2|].
      eapply srun_app; [apply old_run; exact Hr1|].
      change w2 with ([] ++ w2). eapply srun_app; [apply hop_edge; exact Hops|].
      exact (new_run _ _ _ Hr2).
  Qed.
End AppendSim.

(* ------------------------------------------------------------------ instantiation on s_append *)
Lemma is_block_has g b : is_block g b <-> has_block g b = true.
Proof.
  unfold is_block, block_ops, has_block. destruct (find_block (g_blocks g) b); cbn; split; congruence.
Qed.

Lemma block_ops_in g blk : score g -> In blk (g_blocks g) -> block_ops g (b_index blk) = Some (map i_op (b_instrs blk)).
Proof. intros Hc Hb. unfold block_ops. rewrite (score_find g blk Hc Hb). reflexivity. Qed.

Theorem append_runs_first_then_second g other en ex oen oex :
  sinv g -> sinv other -> g_blocks g <> [] -> g_entry g = Some en -> g_exit g = Some ex ->
  g_entry other = Some oen -> g_exit other = Some oex ->
  let g' := fst (s_append g other) in
  (forall w, lang g' w <-> lang g w \/ exists w1 w2, w = w1 ++ w2 /\ clang g w1 /\ lang other w2) /\
  (forall w, clang g' w <-> exists w1 w2, w = w1 ++ w2 /\ clang g w1 /\ clang other w2).
Proof.
  intros Hs Ho Hne Hen Hex Hoen Hoex.
  assert (Hen' : g_entry g <> None) by congruence.
  destruct (append_struct g other ex oen oex Hs Ho Hne Hen' Hex Hoen Hoex)
    as (g1 & E & Hs1 & Hn1 & Hblocks & Hedges & En1 & Ex1).
  rewrite E. cbn [fst]. pose proof (si_core _ Hs) as Hc. pose proof (si_core _ Ho) as Hco. pose proof (si_core _ Hs1) as Hc1.
  assert (Hold_ops : forall b, is_block g b -> block_ops g1 b = block_ops g b).
  { intros b Hb. apply is_block_has, has_block_iff in Hb as (blk & Hin & <-).
    rewrite (block_ops_in g blk Hc Hin). apply block_ops_in; [exact Hc1|]. apply Hblocks. left; exact Hin. }
  assert (Hold_lt : forall b, is_block g b -> b < g_next_index g).
  { intros b Hb. apply is_block_has, has_block_iff in Hb as (blk & Hin & <-). pose proof (proj2 (sc_ok _ Hc blk Hin)). lia. }
  assert (Hnew_ops : forall i, is_block other i -> block_ops g1 (rho g other i) = block_ops other i).
  { intros i Hi. apply is_block_has, has_block_iff in Hi as (blk & Hin & <-).
    rewrite (block_ops_in other blk Hco Hin).
    assert (Hin1 : In (block_clone_new_index blk (rho g other (b_index blk))) (g_blocks g1)) by (apply Hblocks; right; exists blk; auto).
    pose proof (block_ops_in g1 _ Hc1 Hin1) as F. cbn [block_clone_new_index b_index b_instrs] in F. exact F. }
  assert (Hnew_ge : forall i, is_block other i -> g_next_index g <= rho g other i).
  { intros i Hi. apply is_block_has in Hi. pose proof (rho_fresh g other i Hi). lia. }
  assert (Hinj : forall i j, is_block other i -> is_block other j -> rho g other i = rho g other j -> i = j).
  { intros i j Hi Hj. apply is_block_has in Hi, Hj. apply rho_inj; assumption. }
  assert (Hg_ends : forall e, In e (g_edges g) -> is_block g (e_head e) /\ is_block g (e_tail e)).
  { intros e He. destruct (sc_ends _ Hc e He). split; apply is_block_has; assumption. }
  assert (Ho_ends : forall e, In e (g_edges other) -> is_block other (e_head e) /\ is_block other (e_tail e)).
  { intros e He. destruct (sc_ends _ Hco e He). split; apply is_block_has; assumption. }
  assert (Hexb : is_block g ex) by (apply is_block_has; exact (si_exit _ Hs ex Hex)).
  assert (Hoenb : is_block other oen) by (apply is_block_has; exact (si_entry _ Ho oen Hoen)).
  assert (Hoexb : is_block other oex) by (apply is_block_has; exact (si_exit _ Ho oex Hoex)).
  assert (Henb : is_block g en) by (apply is_block_has; exact (si_entry _ Hs en Hen)).
  assert (Hen1 : g_entry g1 = Some en) by congruence.
  split; intros w.
  - exact (append_lang g other g1 (rho g other) (g_next_index g) ex oen Hold_ops Hold_lt Hnew_ops Hnew_ge Hinj Hedges
             Hg_ends Ho_ends Hexb Hoenb en Hen Hen1 Henb Hex Hoen w).
  - exact (append_clang g other g1 (rho g other) (g_next_index g) ex oen Hold_ops Hold_lt Hnew_ops Hnew_ge Hinj Hedges
             Hg_ends Ho_ends Hexb Hoenb en oex Hen Hen1 Henb Hex Hoen Hoex Ex1 Hoexb w).
Qed.
