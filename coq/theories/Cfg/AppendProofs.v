(* Cfg/AppendProofs.v -- property C15: structure of append (static-view model). *)
From Coq Require Import ZArith List Bool NArith Lia Sorted.
From Falcon Require Import Base.Res IL.Const IL.Expr IL.Func IL.Loc IL.LocProofs Cfg.CfgOps Cfg.SOps Cfg.SProofs Cfg.Lang Cfg.MergeProofs.
Import ListNotations.
Local Open Scope Z_scope.

(* position of a key in a list of keys *)
Fixpoint index_of (i : Z) (l : list Z) : nat :=
  match l with [] => O | x :: t => if x =? i then O else S (index_of i t) end.
Fixpoint zseq (n : Z) (len : nat) : list Z :=
  match len with O => [] | S k => n :: zseq (n + 1) k end.

Lemma zmap_get_app_skip m1 m2 k : (forall v, ~ In (k, v) m1) -> zmap_get (m1 ++ m2) k = zmap_get m2 k.
Proof.
  induction m1 as [|[k' v'] t IH]; intros H; cbn [app zmap_get]; [reflexivity|].
  destruct (k' =? k) eqn:E.
  - apply Z.eqb_eq in E. subst. exfalso. apply (H v'). left; reflexivity.
  - apply IH. intros v Hv. apply (H v). right; exact Hv.
Qed.

Lemma zmap_get_combine ks n i : In i ks ->
  zmap_get (combine ks (zseq n (length ks))) i = Ok (n + Z.of_nat (index_of i ks)).
Proof.
  revert n. induction ks as [|x t IH]; intros n Hin; [destruct Hin|].
  cbn [length zseq combine zmap_get index_of]. destruct (x =? i) eqn:E.
  - f_equal. cbn. lia.
  - destruct Hin as [->|Hin]; [rewrite Z.eqb_refl in E; discriminate|].
    rewrite (IH (n + 1) Hin). f_equal. lia.
Qed.

Lemma index_of_lt i l : In i l -> (index_of i l < length l)%nat.
Proof.
  induction l as [|x t IH]; intros Hin; [destruct Hin|]. cbn [index_of length].
  destruct (x =? i) eqn:E; [lia|]. destruct Hin as [->|Hin]; [rewrite Z.eqb_refl in E; discriminate|].
  specialize (IH Hin). lia.
Qed.
Lemma index_of_inj i j l : In i l -> In j l -> index_of i l = index_of j l -> i = j.
Proof.
  induction l as [|x t IH]; intros Hi Hj; [destruct Hi|]. cbn [index_of].
  destruct (x =? i) eqn:Ei, (x =? j) eqn:Ej; try discriminate.
  - apply Z.eqb_eq in Ei, Ej. congruence.
  - intros [= H]. destruct Hi as [->|Hi]; [rewrite Z.eqb_refl in Ei; discriminate|].
    destruct Hj as [->|Hj]; [rewrite Z.eqb_refl in Ej; discriminate|]. apply IH; assumption.
Qed.

(* ---- importing the blocks of [other]: never fails, fresh consecutive indices ---- *)
Lemma import_blocks_ok bs : forall g m0, score g -> (forall b, In b bs -> block_ok b) ->
  exists g1,
    s_import_blocks g bs m0 = (g1, m0 ++ combine (map b_index bs) (zseq (g_next_index g) (length bs)), Ok tt) /\
    score g1 /\ g_next_index g1 = g_next_index g + Z.of_nat (length bs) /\
    g_entry g1 = g_entry g /\ g_exit g1 = g_exit g /\ g_edges g1 = g_edges g /\
    (forall b, In b (g_blocks g1) <->
       In b (g_blocks g) \/ exists k b0, nth_error bs k = Some b0 /\ b = block_clone_new_index b0 (g_next_index g + Z.of_nat k)).
Proof.
  induction bs as [|b t IH]; intros g m0 Hc Hbs; cbn [s_import_blocks].
  - exists g. cbn [map length zseq combine]. rewrite app_nil_r. split; [reflexivity|]. split; [exact Hc|].
    split; [cbn; lia|]. do 3 (split; [reflexivity|]). intros x. split; [auto|].
    intros [H|(k & b0 & Hk & _)]; [exact H | destruct k; discriminate].
  - pose proof (bump_core g Hc) as Hcb.
    assert (Hfresh : has_block (bump g) (g_next_index g) = false).
    { destruct (has_block (bump g) (g_next_index g)) eqn:E; [|reflexivity].
      apply has_block_iff in E as (x & Hx & Hi). cbn [bump g_blocks] in Hx.
      pose proof (proj2 (sc_ok _ Hc x Hx)). lia. }
    assert (Ei : s_insert_vertex (bump g) (block_clone_new_index b (g_next_index g)) =
                 Ok (s_with (bump g) (ins_block (block_clone_new_index b (g_next_index g)) (g_blocks g)) (g_edges g))).
    { unfold s_insert_vertex. cbn [block_clone_new_index b_index]. rewrite Hfresh. reflexivity. }
    destruct (insert_vertex_core _ _ _ Ei Hcb) as (Hc' & Hh & Hn' & E1 & E2 & E3 & Hin').
    { apply block_clone_ok. apply Hbs. left; reflexivity. }
    { cbn. pose proof (sc_next _ Hc). lia. }
    rewrite Ei. set (g' := s_with (bump g) _ (g_edges g)) in *.
    destruct (IH g' (m0 ++ [(b_index b, g_next_index g)]) Hc' (fun x Hx => Hbs x (or_intror Hx)))
      as (g1 & Eg1 & Hc1 & Hn1 & En1 & Ex1 & Ee1 & Hin1).
    exists g1. split.
    + assert (Hng : g_next_index g' = g_next_index g + 1) by reflexivity.
      rewrite Eg1, Hng. f_equal. f_equal. rewrite <- app_assoc. reflexivity.
    + split; [exact Hc1|]. split; [rewrite Hn1, Hn'; cbn [bump g_next_index length]; lia|].
      split; [rewrite En1, E1; reflexivity|]. split; [rewrite Ex1, E2; reflexivity|]. split; [rewrite Ee1, E3; reflexivity|].
      intros x. rewrite Hin1. rewrite Hin'. rewrite Hn'. cbn [bump g_next_index g_blocks]. split.
      * intros [[->|H]|(k & b0 & Hk & ->)].
        -- right. exists O, b. split; [reflexivity | f_equal; lia].
        -- left; exact H.
        -- right. exists (S k), b0. split; [exact Hk | f_equal; lia].
      * intros [H|(k & b0 & Hk & ->)]; [left; right; exact H|].
        destruct k as [|k]; cbn [nth_error] in Hk.
        -- injection Hk as <-. left; left. f_equal. lia.
        -- right. exists k, b0. split; [exact Hk | f_equal; lia].
Qed.

(* ---- importing edges = inserting the renamed edges ---- *)
Lemma import_edges_as_insert es : forall g m (rho : Z -> Z),
  (forall e, In e es -> zmap_get m (e_head e) = Ok (rho (e_head e)) /\ zmap_get m (e_tail e) = Ok (rho (e_tail e))) ->
  s_import_edges g es m = s_insert_edges g (map (fun e => mkedge (rho (e_head e)) (rho (e_tail e)) (e_cond e)) es).
Proof.
  induction es as [|e t IH]; intros g m rho H; cbn [s_import_edges s_insert_edges map]; [reflexivity|].
  destruct (H e (or_introl eq_refl)) as [-> ->].
  destruct (s_ins_edge g _) as [g' [u| |]]; try reflexivity.
  apply IH. intros e' He'. apply H. right; exact He'.
Qed.

Section Append.
  Variables (g other : cfg) (ex oen oex : Z).
  Hypothesis Hs : sinv g.
  Hypothesis Ho : sinv other.
  Hypothesis Hne : g_blocks g <> [].
  Hypothesis Hen : g_entry g <> None.
  Hypothesis Hex : g_exit g = Some ex.
  Hypothesis Hoen : g_entry other = Some oen.
  Hypothesis Hoex : g_exit other = Some oex.

  (* the re-indexing: k-th block of [other] (in index order) gets index next_index + k *)
  Definition rho (i : Z) : Z := g_next_index g + Z.of_nat (index_of i (map b_index (g_blocks other))).

  Lemma other_key i : has_block other i = true -> In i (map b_index (g_blocks other)).
  Proof. intros H. apply has_block_iff in H as (b & Hb & <-). apply in_map. exact Hb. Qed.

  Lemma rho_fresh i : has_block other i = true ->
    g_next_index g <= rho i < g_next_index g + Z.of_nat (length (g_blocks other)).
  Proof.
    intros H. pose proof (index_of_lt i _ (other_key i H)) as L. rewrite map_length in L. unfold rho. lia.
  Qed.
  Lemma rho_inj i j : has_block other i = true -> has_block other j = true -> rho i = rho j -> i = j.
  Proof.
    intros Hi Hj E. unfold rho in E. apply (index_of_inj i j (map b_index (g_blocks other))); [apply other_key; exact Hi | apply other_key; exact Hj | lia].
  Qed.

  Lemma nth_rho k b0 : nth_error (g_blocks other) k = Some b0 -> rho (b_index b0) = g_next_index g + Z.of_nat k.
  Proof.
    intros Hk. unfold rho. f_equal. f_equal.
    pose proof (sc_blocks _ (si_core _ Ho)) as Hss. revert k Hk. induction Hss as [|x t Hs' IH Hall]; intros k Hk; [destruct k; discriminate|].
    cbn [map index_of]. destruct k as [|k]; cbn [nth_error] in Hk.
    - injection Hk as ->. rewrite Z.eqb_refl. reflexivity.
    - assert (Hin : In b0 t) by (eapply nth_error_In; exact Hk). rewrite Forall_forall in Hall. specialize (Hall b0 Hin).
      unfold blt in Hall. destruct (b_index x =? b_index b0) eqn:E; [apply Z.eqb_eq in E; lia|]. f_equal. apply IH. exact Hk.
  Qed.

  (* C15, clause 3: append = disjoint union with an injectively re-indexed copy of [other], plus
     exactly one unconditional edge exit(g) -> entry(copy); entry of g, exit of the copy *)
  Theorem append_struct :
    exists g',
      s_append g other = (g', Ok tt) /\ sinv g' /\
      g_next_index g' = g_next_index g + Z.of_nat (length (g_blocks other)) /\
      (forall b, In b (g_blocks g') <->
         In b (g_blocks g) \/ exists b0, In b0 (g_blocks other) /\ b = block_clone_new_index b0 (rho (b_index b0))) /\
      (forall e, In e (g_edges g') <->
         In e (g_edges g) \/
         (exists e0, In e0 (g_edges other) /\ e = mkedge (rho (e_head e0)) (rho (e_tail e0)) (e_cond e0)) \/
         e = mkedge ex (rho oen) None) /\
      g_entry g' = g_entry g /\ g_exit g' = Some (rho oex).
  Proof.
    pose proof (si_core _ Hs) as Hc. pose proof (si_core _ Ho) as Hco.
    assert (Happ : sinv (fst (s_append g other))) by (apply append_inv; assumption).
    revert Happ. unfold s_append. destruct (g_blocks g) as [|b0 bt] eqn:Eblocks; [contradiction|]. cbn [negb andb].
    destruct (g_entry g) as [en|] eqn:Een; [|contradiction]. rewrite Hex, Hoen, Hoex. cbn [isnone orb].
    destruct (import_blocks_ok (g_blocks other) g [] Hc (other_blocks_ok other Ho))
      as (g1 & E1 & Hc1 & Hn1 & En1 & Ex1 & Ee1 & Hin1).
    rewrite E1. cbn [app]. set (m := combine (map b_index (g_blocks other)) (zseq (g_next_index g) (length (g_blocks other)))).
    assert (Hm : forall i, has_block other i = true -> zmap_get m i = Ok (rho i)).
    { intros i Hi. unfold m. rewrite <- (map_length b_index (g_blocks other)). apply zmap_get_combine. apply other_key; exact Hi. }
    assert (Hblk1 : forall i, has_block other i = true -> has_block g1 (rho i) = true).
    { intros i Hi. apply has_block_iff in Hi as (b & Hb & <-). apply In_nth_error in Hb as (k & Hk).
      apply has_block_iff. exists (block_clone_new_index b (rho (b_index b))). split; [|reflexivity].
      apply Hin1. right. exists k, b. split; [exact Hk | rewrite (nth_rho k b Hk); reflexivity]. }
    assert (Hold1 : forall i, has_block g i = true -> has_block g1 i = true).
    { intros i Hi. apply has_block_iff in Hi as (b & Hb & <-). apply has_block_iff. exists b. split; [|reflexivity].
      apply Hin1. left. rewrite Eblocks in *. exact Hb. }
    (* edges *)
    rewrite (import_edges_as_insert (g_edges other) g1 m rho).
    2:{ intros e He. destruct (sc_ends _ Hco e He) as [H1 H2]. split; apply Hm; assumption. }
    set (es := map (fun e => mkedge (rho (e_head e)) (rho (e_tail e)) (e_cond e)) (g_edges other)).
    assert (Hold_lt : forall x, In x (g_edges g) -> e_head x < g_next_index g /\ e_tail x < g_next_index g).
    { intros x Hx. destruct (sc_ends _ Hc x Hx) as [H1 H2]. apply has_block_iff in H1 as (b1 & Hb1 & <-). apply has_block_iff in H2 as (b2 & Hb2 & <-).
      pose proof (proj2 (sc_ok _ Hc b1 Hb1)). pose proof (proj2 (sc_ok _ Hc b2 Hb2)). lia. }
    destruct (insert_edges_ok es g1 Hc1) as (g2 & E2 & Hc2 & Hb2 & Hn2 & En2 & Ex2 & Hin2).
    { unfold es. rewrite map_map. cbn [e_head e_tail].
      pose proof (SS_elt_nodup _ (sc_edges _ Hco)) as Hnd.
      assert (Hends : forall e, In e (g_edges other) -> has_block other (e_head e) = true /\ has_block other (e_tail e) = true)
        by (intros e He; exact (sc_ends _ Hco e He)).
      revert Hnd Hends. generalize (g_edges other). intros l. induction l as [|x t IH]; intros Hnd Hends; cbn [map]; [constructor|].
      inversion Hnd as [|? ? Hx Ht]; subst. constructor; [|apply IH; [exact Ht | intros e He; apply Hends; right; exact He]].
      intros Hi. apply in_map_iff in Hi as (y & Hy & Hyt). apply Hx. apply in_map_iff. exists y. split; [|exact Hyt].
      injection Hy as Hy1 Hy2. destruct (Hends x (or_introl eq_refl)) as [A1 A2]. destruct (Hends y (or_intror Hyt)) as [B1 B2].
      rewrite (rho_inj _ _ B1 A1 Hy1), (rho_inj _ _ B2 A2 Hy2). reflexivity. }
    { intros e He. unfold es in He. apply in_map_iff in He as (e0 & <- & He0). cbn [e_head e_tail].
      destruct (sc_ends _ Hco e0 He0) as [H1 H2]. split; [apply Hblk1; exact H1|]. split; [apply Hblk1; exact H2|].
      intros x Hx [Hxh _]. rewrite Ee1 in Hx. pose proof (proj1 (Hold_lt x Hx)). pose proof (rho_fresh _ H1). lia. }
    rewrite E2. rewrite Ex2, Ex1, Hex. rewrite (Hm oen).
    2:{ apply (si_entry _ Ho). exact Hoen. }
    (* the transition edge *)
    assert (Et : s_insert_edge g2 (mkedge ex (rho oen) None) =
                 Ok (s_with g2 (g_blocks g2) (ins_edge_l (mkedge ex (rho oen) None) (g_edges g2)))).
    { unfold s_insert_edge. cbn [e_head e_tail].
      rewrite find_edge_none_intro.
      - rewrite !(has_block_blocks g1 g2) by exact Hb2.
        rewrite (Hold1 ex (si_exit _ Hs ex Hex)), (Hblk1 oen (si_entry _ Ho oen Hoen)). reflexivity.
      - intros x Hx [Hxh Hxt]. apply Hin2 in Hx as [Hx|Hx].
        + unfold es in Hx. apply in_map_iff in Hx as (e0 & <- & He0). cbn [e_head] in Hxh.
          pose proof (rho_fresh _ (proj1 (sc_ends _ Hco e0 He0))).
          pose proof (si_exit _ Hs ex Hex) as Hexb. apply has_block_iff in Hexb as (b & Hb & Hbi).
          pose proof (proj2 (sc_ok _ Hc b Hb)). lia.
        + rewrite Ee1 in Hx. pose proof (proj2 (Hold_lt x Hx)). pose proof (rho_fresh _ (si_entry _ Ho oen Hoen)). lia. }
    unfold s_ins_edge. rewrite Et. set (g3 := s_with g2 (g_blocks g2) _).
    destruct (insert_edge_core g2 _ g3 Et Hc2) as (Hc3 & Hb3 & Hn3 & En3 & Ex3 & Hin3).
    rewrite (Hm oex). 2:{ apply (si_exit _ Ho). exact Hoex. }
    cbn [fst]. intros Happ. eexists. split; [reflexivity|]. split; [exact Happ|].
    cbn [g_next_index g_blocks g_edges g_entry g_exit]. split; [rewrite Hn3, Hn2, Hn1; reflexivity|]. split; [|split; [|split]].
    - intros b. rewrite Hb3, Hb2, Hin1, Eblocks. split.
      + intros [H|(k & b1 & Hk & ->)]; [left; exact H|]. right. exists b1. split; [eapply nth_error_In; exact Hk|].
        rewrite (nth_rho k b1 Hk). reflexivity.
      + intros [H|(b1 & Hb1 & ->)]; [left; exact H|]. right. apply In_nth_error in Hb1 as (k & Hk). exists k, b1.
        split; [exact Hk | rewrite (nth_rho k b1 Hk); reflexivity].
    - intros e. rewrite Hin3, Hin2, Ee1. unfold es. rewrite in_map_iff. split.
      + intros [->|[(e0 & <- & He0)|H]]; [right; right; reflexivity | right; left; exists e0; auto | left; exact H].
      + intros [H|[(e0 & He0 & ->)| ->]]; [right; right; exact H | right; left; exists e0; auto | left; reflexivity].
    - rewrite En3, En2, En1. exact Een.
    - reflexivity.
  Qed.
End Append.

Section Insert.
  Variables (g other : cfg) (oen oex : Z).
  Hypothesis Hs : sinv g.
  Hypothesis Ho : sinv other.
  Hypothesis Hoen : g_entry other = Some oen.
  Hypothesis Hoex : g_exit other = Some oex.

  Lemma existsb_has k : has_block other k = true -> existsb (fun b => b_index b =? k) (g_blocks other) = true.
  Proof.
    intros H. apply has_block_iff in H as (b & Hb & Hi). apply existsb_exists. exists b. split; [exact Hb | apply Z.eqb_eq; exact Hi].
  Qed.

  (* insert = disjoint union with the re-indexed copy, no new edge, entry/exit cleared; the returned
     pair is the image of (entry, exit) of [other] *)
  Theorem insert_struct :
    exists g',
      s_insert g other = (g', Ok (rho g other oen, rho g other oex)) /\ sinv g' /\
      g_next_index g' = g_next_index g + Z.of_nat (length (g_blocks other)) /\
      (forall b, In b (g_blocks g') <->
         In b (g_blocks g) \/ exists b0, In b0 (g_blocks other) /\ b = block_clone_new_index b0 (rho g other (b_index b0))) /\
      (forall e, In e (g_edges g') <->
         In e (g_edges g) \/
         (exists e0, In e0 (g_edges other) /\ e = mkedge (rho g other (e_head e0)) (rho g other (e_tail e0)) (e_cond e0))) /\
      g_entry g' = None /\ g_exit g' = None.
  Proof.
    pose proof (si_core _ Hs) as Hc. pose proof (si_core _ Ho) as Hco.
    assert (Hins : sinv (fst (s_insert g other))) by (apply insert_inv; assumption).
    revert Hins. unfold s_insert. rewrite Hoen, Hoex.
    set (g0 := mkcfg (g_blocks g) (g_edges g) (g_next_index g) None None).
    assert (Hc0 : score g0) by (destruct Hc as [A B C D F]; split; auto).
    destruct (import_blocks_ok (g_blocks other) g0 [] Hc0 (other_blocks_ok other Ho))
      as (g1 & E1 & Hc1 & Hn1 & En1 & Ex1 & Ee1 & Hin1).
    rewrite E1. cbn [app]. cbn [g0 g_next_index] in *.
    set (m := combine (map b_index (g_blocks other)) (zseq (g_next_index g) (length (g_blocks other)))).
    assert (Hm : forall i, has_block other i = true -> zmap_get m i = Ok (rho g other i)).
    { intros i Hi. unfold m. rewrite <- (map_length b_index (g_blocks other)). apply zmap_get_combine. apply other_key; exact Hi. }
    assert (Hblk1 : forall i, has_block other i = true -> has_block g1 (rho g other i) = true).
    { intros i Hi. apply has_block_iff in Hi as (b & Hb & <-). apply In_nth_error in Hb as (k & Hk).
      apply has_block_iff. exists (block_clone_new_index b (rho g other (b_index b))). split; [|reflexivity].
      apply Hin1. right. exists k, b. split; [exact Hk | rewrite (nth_rho g other Ho k b Hk); reflexivity]. }
    rewrite (import_edges_as_insert (g_edges other) g1 m (rho g other)).
    2:{ intros e He. destruct (sc_ends _ Hco e He) as [H1 H2]. split; apply Hm; assumption. }
    set (es := map (fun e => mkedge (rho g other (e_head e)) (rho g other (e_tail e)) (e_cond e)) (g_edges other)).
    assert (Hold_lt : forall x, In x (g_edges g) -> e_head x < g_next_index g /\ e_tail x < g_next_index g).
    { intros x Hx. destruct (sc_ends _ Hc x Hx) as [H1 H2]. apply has_block_iff in H1 as (b1 & Hb1 & <-). apply has_block_iff in H2 as (b2 & Hb2 & <-).
      pose proof (proj2 (sc_ok _ Hc b1 Hb1)). pose proof (proj2 (sc_ok _ Hc b2 Hb2)). lia. }
    destruct (insert_edges_ok es g1 Hc1) as (g2 & E2 & Hc2 & Hb2 & Hn2 & En2 & Ex2 & Hin2).
    { unfold es. rewrite map_map. cbn [e_head e_tail].
      pose proof (SS_elt_nodup _ (sc_edges _ Hco)) as Hnd.
      assert (Hends : forall e, In e (g_edges other) -> has_block other (e_head e) = true /\ has_block other (e_tail e) = true)
        by (intros e He; exact (sc_ends _ Hco e He)).
      revert Hnd Hends. generalize (g_edges other). intros l. induction l as [|x t IH]; intros Hnd Hends; cbn [map]; [constructor|].
      inversion Hnd as [|? ? Hx Ht]; subst. constructor; [|apply IH; [exact Ht | intros e He; apply Hends; right; exact He]].
      intros Hi. apply in_map_iff in Hi as (y & Hy & Hyt). apply Hx. apply in_map_iff. exists y. split; [|exact Hyt].
      injection Hy as Hy1 Hy2. destruct (Hends x (or_introl eq_refl)) as [A1 A2]. destruct (Hends y (or_intror Hyt)) as [B1 B2].
      rewrite (rho_inj g other _ _ B1 A1 Hy1), (rho_inj g other _ _ B2 A2 Hy2). reflexivity. }
    { intros e He. unfold es in He. apply in_map_iff in He as (e0 & <- & He0). cbn [e_head e_tail].
      destruct (sc_ends _ Hco e0 He0) as [H1 H2]. split; [apply Hblk1; exact H1|]. split; [apply Hblk1; exact H2|].
      intros x Hx [Hxh _]. rewrite Ee1 in Hx. cbn [g0 g_edges] in Hx. pose proof (proj1 (Hold_lt x Hx)). pose proof (rho_fresh g other _ H1). lia. }
    rewrite E2.
    rewrite (existsb_has oen (si_entry _ Ho oen Hoen)), (existsb_has oex (si_exit _ Ho oex Hoex)).
    rewrite (Hm oen (si_entry _ Ho oen Hoen)), (Hm oex (si_exit _ Ho oex Hoex)).
    cbn [fst]. intros Hins. exists g2. split; [reflexivity|]. split; [exact Hins|].
    split; [rewrite Hn2, Hn1; reflexivity|]. split; [|split; [|split]].
    - intros b. rewrite Hb2, Hin1. cbn [g0 g_blocks]. split.
      + intros [H|(k & b1 & Hk & ->)]; [left; exact H|]. right. exists b1. split; [eapply nth_error_In; exact Hk|].
        rewrite (nth_rho g other Ho k b1 Hk). reflexivity.
      + intros [H|(b1 & Hb1 & ->)]; [left; exact H|]. right. apply In_nth_error in Hb1 as (k & Hk). exists k, b1.
        split; [exact Hk | rewrite (nth_rho g other Ho k b1 Hk); reflexivity].
    - intros e. rewrite Hin2, Ee1. cbn [g0 g_edges]. unfold es. rewrite in_map_iff. split.
      + intros [(e0 & <- & He0)|H]; [right; exists e0; auto | left; exact H].
      + intros [H|(e0 & He0 & ->)]; [right; exact H | left; exists e0; auto].
    - rewrite En2, En1. reflexivity.
    - rewrite Ex2, Ex1. reflexivity.
  Qed.
End Insert.
