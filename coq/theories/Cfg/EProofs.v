(* Cfg/EProofs.v -- property C15 on the four-map model (Cfg/CfgOps.v over Graph/Graph.v): every
   ControlFlowGraph operation, whatever its outcome, keeps C11's [graph_inv]; hence the predecessor and
   successor queries agree with the edge set after any history from ControlFlowGraph::new(). *)
From Coq Require Import ZArith List Bool NArith Lia.
From Falcon Require Import Base.Res Graph.NMap Graph.NMapFacts Graph.Graph Graph.GraphInv IL.Const IL.Expr IL.Func Cfg.CfgOps.
Import ListNotations.
Local Open Scope Z_scope.

Notation ginv := (@graph_inv block edge block_Vertex edge_Edge).

Lemma iv_any g v : ginv g -> match insert_vertex g v with Ok g' => ginv g' | _ => True end.
Proof.
  intros H. destruct (gapply_inv g (GInsV v) H) as [_ K]. unfold gstep in K. cbn [gapply] in K.
  destruct (insert_vertex g v); [exact K | exact I | exact I].
Qed.
Lemma ie_any g e : ginv g -> match insert_edge g e with Ok g' => ginv g' | _ => True end.
Proof.
  intros H. destruct (gapply_inv g (GInsE e) H) as [_ K]. unfold gstep in K. cbn [gapply] in K.
  destruct (insert_edge g e); [exact K | exact I | exact I].
Qed.
Lemma rv_any g i : ginv g -> match remove_vertex g i with Ok g' => ginv g' | _ => True end.
Proof.
  intros H. destruct (gapply_inv g (GRemV i) H) as [_ K]. unfold gstep in K. cbn [gapply] in K.
  destruct (remove_vertex g i); [exact K | exact I | exact I].
Qed.
Lemma uv_any (g : graph block edge) i f : ginv g -> (forall v, vindex (f v) = vindex v) ->
  match update_vertex g i f with Ok g' => ginv g' | _ => True end.
Proof.
  intros H Hf. destruct (update_vertex g i f) as [g'| |] eqn:E; [|exact I|exact I].
  exact (proj1 (update_vertex_inv g i f H Hf g' E)).
Qed.

Lemma block_append_index b other : b_index (block_append b other) = b_index b.
Proof.
  unfold block_append. generalize (b_instrs other). intros l. revert b.
  induction l as [|i t IH]; intros b; cbn [fold_left]; [reflexivity|]. rewrite IH. reflexivity.
Qed.

(* ---- the operations ---- *)
Definition einv (c : ecfg) : Prop := ginv (eg c).

Lemma new_block_ginv c : einv c -> einv (fst (new_block c)).
Proof.
  unfold einv, new_block. intros H. pose proof (iv_any (eg c) (block_new (e_next c)) H) as K.
  destruct (insert_vertex (eg c) (block_new (e_next c))); cbn [fst eg with_graph]; auto.
Qed.
Lemma ins_edge_ginv c e : einv c -> einv (fst (ins_edge c e)).
Proof.
  unfold einv, ins_edge. intros H. pose proof (ie_any (eg c) e H) as K.
  destruct (insert_edge (eg c) e); cbn [fst eg with_graph]; auto.
Qed.
Lemma set_entry_ginv c i : einv c -> einv (fst (set_entry c i)).
Proof. unfold einv, set_entry. intros H. destruct (has_vertex (eg c) (zn i)); exact H. Qed.
Lemma set_exit_ginv c i : einv c -> einv (fst (set_exit c i)).
Proof. unfold einv, set_exit. intros H. destruct (has_vertex (eg c) (zn i)); exact H. Qed.

Lemma on_block_ginv c i f : einv c -> (forall b b', f b = Ok b' -> b_index b' = b_index b) ->
  einv (fst (on_block c i f)).
Proof.
  unfold einv, on_block. intros H Hf.
  destruct (vertex (eg c) (zn i)) as [b| |] eqn:Ev; cbn [fst]; auto.
  destruct (f b) as [b'| |] eqn:Efb; cbn [fst]; auto.
  (* the constant update equals the index-preserving update on the vertex found *)
  set (fn := fun v : block => match f v with Ok v' => v' | _ => v end).
  assert (Eq : update_vertex (eg c) (zn i) (fun _ => b') = update_vertex (eg c) (zn i) fn).
  { unfold update_vertex, vertex in *. destruct (nm_get (zn i) (Graph.g_vertices (eg c))) as [v|]; [|reflexivity].
    injection Ev as ->. unfold fn. rewrite Efb. reflexivity. }
  rewrite Eq. pose proof (uv_any (eg c) (zn i) fn H) as K.
  destruct (update_vertex (eg c) (zn i) fn); cbn [fst eg with_graph]; auto. apply K.
  intros v. unfold fn. destruct (f v) as [v'| |] eqn:E; [|reflexivity|reflexivity].
  cbn [vindex block_Vertex]. rewrite (Hf v v' E). reflexivity.
Qed.
Lemma push_op_ginv c i op : einv c -> einv (fst (push_op c i op)).
Proof. intros H. apply on_block_ginv; [exact H|]. intros b b' [= <-]. reflexivity. Qed.
Lemma remove_instruction_ginv c i idx : einv c -> einv (fst (remove_instruction c i idx)).
Proof.
  intros H. apply on_block_ginv; [exact H|]. intros b b'. unfold block_remove_instruction.
  destruct (remove_first_index (b_instrs b) idx); [|discriminate]. intros [= <-]. reflexivity.
Qed.

(* set_address rewrites the payloads in place *)
Lemma om_get_map_val {K} (cmp : K -> K -> comparison) (f : block -> block) k (m : list (K * block)) :
  om_get cmp k (map (fun kv => (fst kv, f (snd kv))) m) = option_map f (om_get cmp k m).
Proof.
  induction m as [|[k' a] t IH]; cbn [map om_get fst snd]; [reflexivity|].
  destruct (cmp k k'); [reflexivity | exact IH | exact IH].
Qed.
Lemma set_address_ginv c a : einv c -> einv (set_address c a).
Proof.
  unfold einv, set_address. cbn [eg with_graph]. intros [Hadj Hvs Hvk Hsk Hpk Hends].
  remember (map (fun kv : N * block => (fst kv, block_set_address (snd kv) a)) (Graph.g_vertices (eg c))) as vs' eqn:Evs.
  assert (Hkeys : map fst vs' = map fst (Graph.g_vertices (eg c))).
  { subst vs'. rewrite map_map. reflexivity. }
  assert (Hget : forall i, nm_get i vs' = option_map (fun b => block_set_address b a) (nm_get i (Graph.g_vertices (eg c)))).
  { intros i. subst vs'. apply (om_get_map_val N.compare (fun b => block_set_address b a)). }
  assert (Hmem : forall i, nm_mem i vs' = nm_mem i (Graph.g_vertices (eg c))).
  { intros i. specialize (Hget i). unfold nm_mem, om_mem, nm_get in *. rewrite Hget.
    destruct (om_get N.compare i (Graph.g_vertices (eg c))); reflexivity. }
  constructor; cbn [Graph.g_vertices Graph.g_edges Graph.g_successors Graph.g_predecessors].
  - destruct Hadj. constructor; auto.
  - rewrite Hkeys. exact Hvs.
  - intros i v Hv. rewrite Hget in Hv. destruct (nm_get i (Graph.g_vertices (eg c))) as [v0|] eqn:E; [|discriminate].
    injection Hv as <-. exact (Hvk i v0 E).
  - intros i. rewrite Hmem. apply Hsk.
  - intros i. rewrite Hmem. apply Hpk.
  - intros h t Hm. rewrite !Hmem. apply Hends. exact Hm.
Qed.

(* merge *)
Lemma insert_edges_ginv es : forall c, einv c -> einv (fst (insert_edges c es)).
Proof.
  induction es as [|e t IH]; intros c H; cbn [insert_edges fst]; [exact H|].
  pose proof (ins_edge_ginv c e H) as K. destruct (ins_edge c e) as [c' [u| |]]; cbn [fst] in *; auto.
Qed.
Lemma merge_one_ginv c m s : einv c -> einv (fst (merge_one c m s)).
Proof.
  unfold merge_one. intros H. destruct (vertex (eg c) (zn s)) as [sb| |]; cbn [fst]; auto.
  pose proof (uv_any (eg c) (zn m) (fun b => block_append b sb) H) as K.
  destruct (update_vertex (eg c) (zn m) (fun b => block_append b sb)) as [g1| |]; cbn [fst]; auto.
  assert (H1 : einv (with_graph c g1)).
  { apply K. intros v. cbn [vindex block_Vertex]. rewrite block_append_index. reflexivity. }
  destruct (edges_out g1 (zn s)) as [outs| |]; cbn [fst]; auto.
  pose proof (insert_edges_ginv (map (fun e => mkedge m (e_tail e) (e_cond e)) outs) _ H1) as H2.
  destruct (insert_edges (with_graph c g1) _) as [c2 [u| |]]; cbn [fst] in *; auto.
  pose proof (rv_any (eg c2) (zn s) H2) as H3.
  destruct (remove_vertex (eg c2) (zn s)); cbn [fst eg]; auto.
Qed.
Lemma merge_apply_ginv ms : forall c, einv c -> einv (fst (merge_apply c ms)).
Proof.
  induction ms as [|[m s] t IH]; intros c H; cbn [merge_apply fst]; [exact H|].
  pose proof (merge_one_ginv c m s H) as K. destruct (merge_one c m s) as [c' [u| |]]; cbn [fst] in *; auto.
Qed.
Lemma merge_loop_ginv fuel : forall c, einv c -> einv (fst (merge_loop fuel c)).
Proof.
  induction fuel as [|n IH]; intros c H; cbn [merge_loop fst]; [exact H|].
  destruct (merge_scan c (vertices (eg c)) [] []) as [[|p ms]| |]; cbn [fst]; auto.
  pose proof (merge_apply_ginv (p :: ms) c H) as K.
  destruct (merge_apply c (p :: ms)) as [c' [u| |]]; cbn [fst] in *; auto.
Qed.
Lemma merge_ginv c : einv c -> einv (fst (merge c)).
Proof. apply merge_loop_ginv. Qed.

(* append / insert *)
Lemma import_blocks_ginv bs : forall c m, einv c -> einv (fst (fst (import_blocks c bs m))).
Proof.
  induction bs as [|b t IH]; intros c m H; cbn [import_blocks fst]; [exact H|].
  pose proof (iv_any (eg c) (block_clone_new_index b (e_next c)) H) as K.
  destruct (insert_vertex (eg c) (block_clone_new_index b (e_next c))); cbn [fst]; auto.
Qed.
Lemma import_edges_ginv es : forall c m, einv c -> einv (fst (import_edges c es m)).
Proof.
  induction es as [|e t IH]; intros c m H; cbn [import_edges fst]; [exact H|].
  destruct (zmap_get m (e_head e)); cbn [fst]; auto. destruct (zmap_get m (e_tail e)); cbn [fst]; auto.
  pose proof (ins_edge_ginv c (mkedge a a0 (e_cond e)) H) as K.
  destruct (ins_edge c (mkedge a a0 (e_cond e))) as [c' [u| |]]; cbn [fst] in *; auto.
Qed.

Lemma append_ginv c other : einv c -> einv (fst (append c other)).
Proof.
  unfold append. intros H. destruct (negb _ && _); cbn [fst]; auto.
  destruct (e_entry other) as [oen|]; cbn [fst]; auto. destruct (e_exit other) as [oex|]; cbn [fst]; auto.
  pose proof (import_blocks_ginv (vertices (eg other)) c [] H) as H1.
  destruct (import_blocks c (vertices (eg other)) []) as [[c1 m] [u| |]]; cbn [fst] in *; auto.
  pose proof (import_edges_ginv (edges (eg other)) c1 m H1) as H2.
  destruct (import_edges c1 (edges (eg other)) m) as [c2 [u2| |]]; cbn [fst] in *; auto.
  match goal with |- einv (fst match ?s3 with _ => _ end) => assert (H3 : einv (fst s3)) end.
  { destruct (N.eqb _ _).
    - destruct (zmap_get m oen); cbn [fst]; auto.
    - destruct (e_exit c2); cbn [fst]; auto. destruct (zmap_get m oen); cbn [fst]; auto.
      apply ins_edge_ginv. exact H2. }
  match goal with |- einv (fst match ?s3 with _ => _ end) => destruct s3 as [c3 [u3| |]] end; cbn [fst] in *; auto.
  destruct (zmap_get m oex); cbn [fst]; auto.
Qed.
Lemma insert_ginv c other : einv c -> einv (fst (insert c other)).
Proof.
  unfold insert. intros H. destruct (e_entry other) as [oen|]; cbn [fst]; auto. destruct (e_exit other) as [oex|]; cbn [fst]; auto.
  pose proof (import_blocks_ginv (vertices (eg other)) (mkE (eg c) (e_next c) None None) [] H) as H1.
  destruct (import_blocks _ (vertices (eg other)) []) as [[c1 m] [u| |]]; cbn [fst] in *; auto.
  pose proof (import_edges_ginv (edges (eg other)) c1 m H1) as H2.
  destruct (import_edges c1 (edges (eg other)) m) as [c2 [u2| |]]; cbn [fst] in *; auto.
  match goal with |- einv (fst match ?a with _ => _ end) => destruct a end; cbn [fst]; auto.
  match goal with |- einv (fst match ?a with _ => _ end) => destruct a end; cbn [fst]; auto.
Qed.

(* ---- histories on the four-map model ---- *)
Inductive eop :=
| ENewBlock | EUncond (h t : Z) | ECond (h t : Z) (c : expr) | ESetEntry (i : Z) | ESetExit (i : Z)
| EPush (b : Z) (o : operation) | ERemoveInstr (b idx : Z) | ESetAddress (a : option Z) | EMerge
| EAppend (other : ecfg) | EInsert (other : ecfg).
Definition e_run (c : ecfg) (o : eop) : ecfg :=
  match o with
  | ENewBlock => fst (new_block c)
  | EUncond h t => fst (unconditional_edge c h t)
  | ECond h t cd => fst (conditional_edge c h t cd)
  | ESetEntry i => fst (set_entry c i)
  | ESetExit i => fst (set_exit c i)
  | EPush b op => fst (push_op c b op)
  | ERemoveInstr b idx => fst (remove_instruction c b idx)
  | ESetAddress a => set_address c a
  | EMerge => fst (merge c)
  | EAppend other => fst (append c other)
  | EInsert other => fst (insert c other)
  end.

Lemma e_run_ginv c o : einv c -> einv (e_run c o).
Proof.
  intros H. destruct o; cbn [e_run].
  - apply new_block_ginv; exact H.
  - apply ins_edge_ginv; exact H.
  - apply ins_edge_ginv; exact H.
  - apply set_entry_ginv; exact H.
  - apply set_exit_ginv; exact H.
  - apply push_op_ginv; exact H.
  - apply remove_instruction_ginv; exact H.
  - apply set_address_ginv; exact H.
  - apply merge_ginv; exact H.
  - apply append_ginv; exact H.
  - apply insert_ginv; exact H.
Qed.

(* C15, clause "graph consistency", on the four-map model: any history from ControlFlowGraph::new()
   (the graphs handed to append / insert are arbitrary) *)
Theorem graph_inv_preserved ops : ginv (eg (fold_left e_run ops ecfg_new)).
Proof.
  assert (G : forall c, einv c -> einv (fold_left e_run ops c)).
  { induction ops as [|o t IH]; intros c H; cbn [fold_left]; [exact H|]. apply IH. apply e_run_ginv. exact H. }
  apply G. exact graph_inv_new.
Qed.

(* ... hence predecessor and successor queries agree with the edge set *)
Theorem adjacency_agrees ops i : let g := eg (fold_left e_run ops ecfg_new) in
  has_vertex g i = true ->
  (exists s, successor_indices g i = Ok s /\ forall t, In t s <-> has_edge g i t = true) /\
  (exists p, predecessor_indices g i = Ok p /\ forall h, In h p <-> has_edge g h i = true).
Proof.
  intros g Hv. pose proof (graph_inv_preserved ops) as Hg. fold g in Hg. split.
  - destruct (successor_indices_spec g i Hg Hv) as (s & E & _ & Hs). exists s. auto.
  - destruct (predecessor_indices_spec g i Hg Hv) as (p & E & _ & Hp). exists p. auto.
Qed.
