(* Cfg/CfgOps.v -- model of lib/il/control_flow_graph.rs (editing operations), the Block methods they
   use (lib/il/block.rs) and BlockTranslationResult::blockify, on top of the four-map graph of
   Graph/Graph.v.  Definitions only.

   Every mutator returns the NEW STATE together with the result: several Rust methods fail after
   having changed the graph (new_block bumps next_index before insert_vertex can fail; insert clears
   entry/exit first; append/insert/merge stop at the first failing insert_* with the earlier
   insertions in place).  `Err`/`Panic` in the result component never means "state unchanged".

   Indices are Z (as in IL/Func.v); the graph library is keyed by N: vindex/ehead/etail convert.
   next_temp_index and ssa_form are not modelled (no operation here reads them). *)
From Coq Require Import ZArith List Bool NArith.
From Falcon Require Import Base.Res Graph.NMap Graph.Graph IL.Const IL.Expr IL.Func.
Import ListNotations.
Local Open Scope Z_scope.

#[global] Instance block_Vertex : Vertex block := {| vindex := fun b => Z.to_N (b_index b) |}.
#[global] Instance edge_Edge : Edge edge := {| ehead := fun e => Z.to_N (e_head e); etail := fun e => Z.to_N (e_tail e) |}.

Record ecfg := mkE {
  eg : graph block edge;
  e_next : Z;                (* next_index *)
  e_entry : option Z;
  e_exit : option Z }.

Definition ecfg_new : ecfg := mkE Graph.new 0 None None.
Definition with_graph (c : ecfg) (g : graph block edge) : ecfg := mkE g (e_next c) (e_entry c) (e_exit c).

(* the static view observed by analyses, locations and the executor (IL/Func.v) *)
Definition to_static (c : ecfg) : cfg :=
  mkcfg (vertices (eg c)) (edges (eg c)) (e_next c) (e_entry c) (e_exit c).

(* ---------------------------------------------------------------- Block *)
(* Block::new *)
Definition block_new (i : Z) : block := mkblock i 0 [] [].
(* new_instruction_index + push of an instruction built from an operation (assign/store/load/branch/
   intrinsic/nop/placeholder all have this shape; the address of a fresh instruction is None) *)
Definition block_push (b : block) (op : operation) : block :=
  mkblock (b_index b) (b_next b + 1) (b_instrs b ++ [mkinstr (b_next b) op None]) (b_phis b).
(* Block::append: instructions of [other] cloned with indices from THIS block's counter *)
Definition block_append (b other : block) : block :=
  fold_left (fun acc i => mkblock (b_index acc) (b_next acc + 1)
                                  (b_instrs acc ++ [mkinstr (b_next acc) (i_op i) (i_addr i)]) (b_phis acc))
            (b_instrs other) b.
(* Block::clone_new_index: keeps the instruction counter *)
Definition block_clone_new_index (b : block) (i : Z) : block := mkblock i (b_next b) (b_instrs b) (b_phis b).
(* Block::remove_instruction: first position whose index field matches *)
Fixpoint remove_first_index (is_ : list instruction) (idx : Z) : option (list instruction) :=
  match is_ with
  | [] => None
  | x :: t => if i_index x =? idx then Some t
              else match remove_first_index t idx with Some t' => Some (x :: t') | None => None end
  end.
Definition block_remove_instruction (b : block) (idx : Z) : res block :=
  match remove_first_index (b_instrs b) idx with
  | Some is' => Ok (mkblock (b_index b) (b_next b) is' (b_phis b))
  | None => Err ECustom
  end.
Definition block_set_address (b : block) (a : option Z) : block :=
  mkblock (b_index b) (b_next b) (map (fun i => mkinstr (i_index i) (i_op i) a) (b_instrs b)) (b_phis b).

(* ---------------------------------------------------------------- ControlFlowGraph *)
Definition zn (i : Z) : N := Z.to_N i.

Definition set_entry (c : ecfg) (i : Z) : ecfg * res unit :=
  if has_vertex (eg c) (zn i) then (mkE (eg c) (e_next c) (Some i) (e_exit c), Ok tt) else (c, Err ECustom).
Definition set_exit (c : ecfg) (i : Z) : ecfg * res unit :=
  if has_vertex (eg c) (zn i) then (mkE (eg c) (e_next c) (e_entry c) (Some i), Ok tt) else (c, Err ECustom).

(* new_block: next_index is bumped BEFORE insert_vertex may fail; returns the new block's index *)
Definition new_block (c : ecfg) : ecfg * res Z :=
  let i := e_next c in
  let c1 := mkE (eg c) (i + 1) (e_entry c) (e_exit c) in
  match insert_vertex (eg c) (block_new i) with
  | Ok g' => (with_graph c1 g', Ok i)
  | Err e => (c1, Err e)
  | Panic => (c1, Panic)
  end.

Definition ins_edge (c : ecfg) (e : edge) : ecfg * res unit :=
  match insert_edge (eg c) e with
  | Ok g' => (with_graph c g', Ok tt)
  | Err x => (c, Err x)
  | Panic => (c, Panic)
  end.
Definition unconditional_edge (c : ecfg) (h t : Z) := ins_edge c (mkedge h t None).
Definition conditional_edge (c : ecfg) (h t : Z) (cond : expr) := ins_edge c (mkedge h t (Some cond)).

(* block_mut(i)?.<method> *)
Definition on_block (c : ecfg) (i : Z) (f : block -> res block) : ecfg * res unit :=
  match vertex (eg c) (zn i) with
  | Ok b =>
      match f b with
      | Ok b' => match update_vertex (eg c) (zn i) (fun _ => b') with
                 | Ok g' => (with_graph c g', Ok tt)
                 | Err x => (c, Err x)
                 | Panic => (c, Panic)
                 end
      | Err x => (c, Err x)
      | Panic => (c, Panic)
      end
  | Err x => (c, Err x)
  | Panic => (c, Panic)
  end.
Definition push_op (c : ecfg) (i : Z) (op : operation) := on_block c i (fun b => Ok (block_push b op)).
Definition remove_instruction (c : ecfg) (i idx : Z) := on_block c i (fun b => block_remove_instruction b idx).

(* set_address: every instruction of every block (vertices_mut) *)
Definition set_address (c : ecfg) (a : option Z) : ecfg :=
  let g := eg c in
  with_graph c (mkGraph (map (fun kv => (fst kv, block_set_address (snd kv) a)) (Graph.g_vertices g))
                        (Graph.g_edges g) (Graph.g_successors g) (Graph.g_predecessors g)).

(* ---- merge ---- *)
Definition memN (x : N) (l : list N) : bool := existsb (N.eqb x) l.

(* one candidate scan: blocks in index order; state = (blocks_being_merged, merges) *)
Fixpoint merge_scan (c : ecfg) (bs : list block) (being : list N) (merges : list (Z * Z)) : res (list (Z * Z)) :=
  match bs with
  | [] => Ok merges
  | b :: rest =>
      let bi := b_index b in
      if memN (zn bi) being then merge_scan c rest being merges else
      match edges_out (eg c) (zn bi) with
      | Ok [e] =>
          match e_cond e with
          | Some _ => merge_scan c rest being merges
          | None =>
              let s := e_tail e in
              if match e_entry c with Some en => en =? s | None => false end then merge_scan c rest being merges
              else if s =? bi then merge_scan c rest being merges                  (* fix: never merge a block with itself *)
              else if memN (zn s) being then merge_scan c rest being merges
              else match edges_in (eg c) (zn s) with
                   | Ok [_] => merge_scan c rest (zn s :: zn bi :: being) (merges ++ [(bi, s)])
                   | Ok _ => merge_scan c rest being merges
                   | _ => Panic                                                    (* .unwrap() *)
                   end
          end
      | Ok _ => merge_scan c rest being merges
      | _ => Panic                                                                 (* .unwrap() *)
      end
  end.

Fixpoint insert_edges (c : ecfg) (es : list edge) : ecfg * res unit :=
  match es with
  | [] => (c, Ok tt)
  | e :: t => match ins_edge c e with
              | (c', Ok _) => insert_edges c' t
              | r => r
              end
  end.

(* absorb block [s] into block [m] *)
Definition merge_one (c : ecfg) (m s : Z) : ecfg * res unit :=
  match vertex (eg c) (zn s) with
  | Ok sb =>
      match update_vertex (eg c) (zn m) (fun b => block_append b sb) with
      | Ok g1 =>
          let c1 := with_graph c g1 in
          match edges_out g1 (zn s) with
          | Ok outs =>
              match insert_edges c1 (map (fun e => mkedge m (e_tail e) (e_cond e)) outs) with
              | (c2, Ok _) =>
                  match remove_vertex (eg c2) (zn s) with
                  | Ok g3 =>
                      (* fix: the exit follows the block that absorbed it *)
                      let ex := match e_exit c2 with Some x => if x =? s then Some m else Some x | None => None end in
                      (mkE g3 (e_next c2) (e_entry c2) ex, Ok tt)
                  | Err x => (c2, Err x)
                  | Panic => (c2, Panic)
                  end
              | r => r
              end
          | _ => (c1, Panic)                                                       (* edges_out(..).unwrap() *)
          end
      | Err x => (c, Err x)
      | Panic => (c, Panic)
      end
  | Err x => (c, Err x)
  | Panic => (c, Panic)
  end.

Fixpoint merge_apply (c : ecfg) (ms : list (Z * Z)) : ecfg * res unit :=
  match ms with
  | [] => (c, Ok tt)
  | (m, s) :: t => match merge_one c m s with
                   | (c', Ok _) => merge_apply c' t
                   | r => r
                   end
  end.

(* the outer `loop`: every productive round removes at least one vertex, so [fuel] = number of
   vertices + 1 rounds suffice (CfgProofs.merge_fuel_enough); running out of fuel is Panic *)
Fixpoint merge_loop (fuel : nat) (c : ecfg) : ecfg * res unit :=
  match fuel with
  | O => (c, Panic)
  | S n =>
      match merge_scan c (vertices (eg c)) [] [] with
      | Ok [] => (c, Ok tt)
      | Ok ms => match merge_apply c ms with
                 | (c', Ok _) => merge_loop n c'
                 | r => r
                 end
      | Err x => (c, Err x)
      | Panic => (c, Panic)
      end
  end.
Definition merge (c : ecfg) : ecfg * res unit := merge_loop (S (length (Graph.g_vertices (eg c)))) c.

(* ---- append / insert ---- *)
Fixpoint zmap_get (m : list (Z * Z)) (k : Z) : res Z :=            (* block_map[&k] *)
  match m with [] => Panic | (k', v) :: t => if k' =? k then Ok v else zmap_get t k end.

(* "bring in new blocks": returns the state, the block map, and the first failure *)
Fixpoint import_blocks (c : ecfg) (bs : list block) (m : list (Z * Z)) : ecfg * list (Z * Z) * res unit :=
  match bs with
  | [] => (c, m, Ok tt)
  | b :: t =>
      let i := e_next c in
      let m' := m ++ [(b_index b, i)] in
      let c1 := mkE (eg c) (i + 1) (e_entry c) (e_exit c) in
      match insert_vertex (eg c) (block_clone_new_index b i) with
      | Ok g' => import_blocks (with_graph c1 g') t m'
      | Err x => (c1, m', Err x)
      | Panic => (c1, m', Panic)
      end
  end.
Fixpoint import_edges (c : ecfg) (es : list edge) (m : list (Z * Z)) : ecfg * res unit :=
  match es with
  | [] => (c, Ok tt)
  | e :: t =>
      match zmap_get m (e_head e), zmap_get m (e_tail e) with
      | Ok h, Ok tl => match ins_edge c (mkedge h tl (e_cond e)) with
                       | (c', Ok _) => import_edges c' t m
                       | r => r
                       end
      | _, _ => (c, Panic)
      end
  end.

Definition append (c other : ecfg) : ecfg * res unit :=
  let is_empty := N.eqb (num_vertices (eg c)) 0 in
  if negb is_empty && (match e_entry c with None => true | _ => false end || match e_exit c with None => true | _ => false end)
  then (c, Err ECustom) else
  match e_entry other, e_exit other with
  | Some oen, Some oex =>
      match import_blocks c (vertices (eg other)) [] with
      | (c1, m, Ok _) =>
          match import_edges c1 (edges (eg other)) m with
          | (c2, Ok _) =>
              let step3 : ecfg * res unit :=
                if is_empty then
                  match zmap_get m oen with
                  | Ok en' => (mkE (eg c2) (e_next c2) (Some en') (e_exit c2), Ok tt)
                  | _ => (c2, Panic)
                  end
                else
                  match e_exit c2, zmap_get m oen with
                  | Some ex, Ok en' => ins_edge c2 (mkedge ex en' None)
                  | _, _ => (c2, Panic)
                  end in
              match step3 with
              | (c3, Ok _) =>
                  match zmap_get m oex with
                  | Ok ex' => (mkE (eg c3) (e_next c3) (e_entry c3) (Some ex'), Ok tt)
                  | _ => (c3, Panic)
                  end
              | r => r
              end
          | r => r
          end
      | (c1, _, Err x) => (c1, Err x)
      | (c1, _, Panic) => (c1, Panic)
      end
  | _, _ => (c, Err ECustom)
  end.

(* insert: returns (entry', exit') of the inserted copy; clears this graph's entry/exit first *)
Definition insert (c other : ecfg) : ecfg * res (Z * Z) :=
  match e_entry other, e_exit other with
  | Some oen, Some oex =>
      let c0 := mkE (eg c) (e_next c) None None in
      match import_blocks c0 (vertices (eg other)) [] with
      | (c1, m, Ok _) =>
          match import_edges c1 (edges (eg other)) m with
          | (c2, Ok _) =>
              (* entry_index / exit_index are recorded while scanning the blocks of [other] *)
              let find k := if existsb (fun b => b_index b =? k) (vertices (eg other)) then
                              match zmap_get m k with Ok v => Some v | _ => None end else None in
              match find oen, find oex with
              | Some a, Some b => (c2, Ok (a, b))
              | _, _ => (c2, Err ENoEntry)
              end
          | (c2, Err x) => (c2, Err x)
          | (c2, Panic) => (c2, Panic)
          end
      | (c1, _, Err x) => (c1, Err x)
      | (c1, _, Panic) => (c1, Panic)
      end
  | _, _ => (c, Err ENoEntry)
  end.

(* ---- BlockTranslationResult::blockify over the per-instruction graphs ---- *)
Fixpoint append_all (c : ecfg) (gs : list ecfg) : ecfg * res unit :=
  match gs with
  | [] => (c, Ok tt)
  | g :: t => match append c g with
              | (c', Ok _) => append_all c' t
              | r => r
              end
  end.
Definition blockify (gs : list ecfg) : res ecfg :=
  match new_block ecfg_new with
  | (c1, Ok bi) =>
      match set_entry c1 bi with
      | (c2, Ok _) =>
          match set_exit c2 bi with
          | (c3, Ok _) =>
              match append_all c3 gs with
              | (c4, Ok _) => match merge c4 with
                              | (c5, Ok _) => Ok c5
                              | (_, Err x) => Err x
                              | (_, Panic) => Panic
                              end
              | (_, Err x) => Err x
              | (_, Panic) => Panic
              end
          | (_, Err x) => Err x
          | (_, Panic) => Panic
          end
      | (_, Err x) => Err x
      | (_, Panic) => Panic
      end
  | (_, Err x) => Err x
  | (_, Panic) => Panic
  end.
