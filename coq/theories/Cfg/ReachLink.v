(* Cfg/ReachLink.v -- reachability on the static cfg (IL/LocProofs.breach, used by C18's
   forward_closure_eq_paths) = what the graph library computes (Graph/Algo.reachable_vertices, proved
   correct against the textbook definition in Graph/ReachProofs.v), for the four-map graph of a
   ControlFlowGraph and its static view. *)
From Coq Require Import ZArith List Bool NArith Lia Sorted.
From Falcon Require Import Base.Res Graph.NMap Graph.NMapFacts Graph.Graph Graph.GraphInv Graph.Spec Graph.Algo Graph.ReachProofs.
From Falcon Require Import IL.Const IL.Expr IL.Func IL.Loc IL.LocProofs Cfg.CfgOps Cfg.SOps Cfg.SProofs Cfg.EProofs Cfg.Refine.
Import ListNotations.
Local Open Scope Z_scope.

Section Link.
  Variable c : ecfg.
  Hypothesis Hr : rel c.
  Let Hi : ginv (eg c) := r_inv c Hr.
  Let Hn : nonneg (eg c) := r_nn c Hr.
  Let es := edge_keys (eg c).

  Lemma edge_iff a b : Spec.edge es a b <->
    exists e, In e (g_edges (to_static c)) /\ zn (e_head e) = a /\ zn (e_tail e) = b.
  Proof.
    unfold Spec.edge, es, edge_keys. rewrite in_map_iff. cbn [to_static g_edges]. split.
    - intros ([k e] & Ek & Hin). cbn [fst] in Ek. subst k. pose proof (ekey (eg c) Hi _ _ Hin) as K. injection K as K1 K2.
      exists e. split; [apply (in_edges (eg c) Hi); rewrite <- K1, <- K2; exact Hin | auto].
    - intros (e & He & <- & <-). exists ((zn (e_head e), zn (e_tail e)), e). split; [reflexivity | apply (in_edges (eg c) Hi); exact He].
  Qed.

  Lemma breach_reach en b : g_entry (to_static c) = Some en -> breach (to_static c) b -> Spec.reach es (zn en) (zn b).
  Proof.
    intros Hen. induction 1 as [e He | h e Hh IH He Eh].
    - rewrite Hen in He. injection He as <-. exists []. constructor.
    - apply (reach_step (eg c) (zn en) (zn h)); [exact IH|]. apply edge_iff. exists e. subst h. auto.
  Qed.

  Lemma path_breach a l v : Spec.path es a l v -> forall a0, a = zn a0 -> 0 <= a0 -> breach (to_static c) a0 ->
    exists b0, v = zn b0 /\ 0 <= b0 /\ breach (to_static c) b0.
  Proof.
    induction 1 as [a | a b l v Hab Hp IH]; intros a0 Ea Ha0 Hb.
    - exists a0. auto.
    - apply edge_iff in Hab as (e & He & E1 & E2).
      destruct (edge_in_nonneg c e Hr He) as [N1 N2].
      assert (e_head e = a0) by (apply zn_inj; [exact N1 | exact Ha0 | congruence]).
      apply (IH (e_tail e)); [symmetry; exact E2 | exact N2|].
      eapply br_step; [exact Hb | exact He | exact H].
  Qed.

  (* the reachable set computed by the graph library = the blocks reachable on the static view *)
  Theorem breach_graph_reachable en : e_entry c = Some en -> 0 <= en -> has_block (to_static c) en = true ->
    exists s, reachable_vertices (eg c) (zn en) = Ok s /\
              forall b, 0 <= b -> (breach (to_static c) b <-> In (zn b) s).
  Proof.
    intros Hen Hen0 Hhas.
    assert (Hv : has_vertex (eg c) (zn en) = true).
    { rewrite (has_vertex_block (eg c) Hi Hn (to_static c) en Hen0 eq_refl). exact Hhas. }
    destruct (reachable_vertices_correct (eg c) Hi (zn en) Hv) as (s & Es & _ & Hs).
    exists s. split; [exact Es|]. intros b Hb0. rewrite Hs. split.
    - apply breach_reach. exact Hen.
    - intros [l Hp]. destruct (path_breach _ _ _ Hp en eq_refl Hen0 (br_entry (to_static c) en Hen)) as (b0 & E & Hb00 & Hbr).
      apply zn_inj in E; [subst; exact Hbr | exact Hb0 | exact Hb00].
  Qed.
End Link.

(* C18 + C11: the locations reachable by repeated forward steps from the entry are exactly the
   instructions / empty blocks / edges of the blocks the graph library calls reachable *)
Theorem forward_closure_eq_graph_reachable c f en :
  rel c -> f_cfg f = to_static c -> cfg_inv (f_cfg f) = true -> e_entry c = Some en ->
  exists s, reachable_vertices (eg c) (zn en) = Ok s /\
            forall l, fclosure f l <-> (valid_loc f l = true /\ In (zn (loc_block l)) s).
Proof.
  intros Hr Ef Hinv Hen. pose proof (cfg_inv_wf _ Hinv) as W.
  assert (Hhas : has_block (to_static c) en = true).
  { rewrite <- Ef. apply (wf_entry _ W). rewrite Ef. exact Hen. }
  assert (Hnn : forall b, has_block (to_static c) b = true -> 0 <= b).
  { intros b Hb. apply has_block_find in Hb as [blk Eb]. apply find_block_some in Eb as [Hin <-].
    apply (block_in_nonneg c blk Hr). exact Hin. }
  destruct (breach_graph_reachable c Hr en Hen (Hnn en Hhas) Hhas) as (s & Es & Hs).
  exists s. split; [exact Es|]. intros l. rewrite (forward_closure_eq_paths f Hinv l). unfold on_entry_path. rewrite Ef.
  split; intros [Hv Hp]; (split; [exact Hv|]).
  - apply Hs; [|exact Hp].
    (* the block of a valid location exists, hence is non-negative *)
    apply Hnn. rewrite <- Ef. destruct l as [bi ii|h t|bi]; cbn [loc_block].
    + apply (valid_instr f) in Hv as (b & _ & _ & _ & Hb & <- & _). exact (hb_in f Hinv b Hb).
    + apply (valid_edge f) in Hv as (e & He & <- & _). exact (proj1 (wf_ends _ W e He)).
    + apply (valid_empty f) in Hv as (b & Hb & <- & _). exact (hb_in f Hinv b Hb).
  - apply Hs; [|exact Hp].
    apply Hnn. rewrite <- Ef. destruct l as [bi ii|h t|bi]; cbn [loc_block].
    + apply (valid_instr f) in Hv as (b & _ & _ & _ & Hb & <- & _). exact (hb_in f Hinv b Hb).
    + apply (valid_edge f) in Hv as (e & He & <- & _). exact (proj1 (wf_ends _ W e He)).
    + apply (valid_empty f) in Hv as (b & Hb & <- & _). exact (hb_in f Hinv b Hb).
Qed.

(* the hypothesis [rel c] holds after every history of operations with usize arguments *)
Lemma history_erel ops : Forall eop_args_ok ops -> erel (fold_left e_run ops ecfg_new).
Proof.
  assert (G : forall c, erel c -> Forall eop_args_ok ops -> erel (fold_left e_run ops c)).
  { induction ops as [|o t IH]; intros c Hc Ha; cbn [fold_left]; [exact Hc|].
    inversion Ha as [|? ? Ho Ht]; subst. apply IH; [exact (proj2 (e_run_refines c o Hc Ho)) | exact Ht]. }
  intros Ha. exact (G ecfg_new erel_new Ha).
Qed.
