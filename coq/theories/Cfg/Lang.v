(* Cfg/Lang.v -- the instruction sequences executable from the entry of a static cfg, and the
   simulation argument behind "merging does not change them".
   A state is (block index, position); reading an instruction emits its operation, taking a
   conditional edge emits its guard, unconditional edges (and empty blocks) are silent.
   [lang g] is the prefix-closed set of words read along finite paths from (entry, 0). *)
From Coq Require Import ZArith List Bool NArith Lia.
From Falcon Require Import Base.Res IL.Const IL.Expr IL.Func.
Import ListNotations.
Local Open Scope Z_scope.

Inductive label := LOp (o : operation) | LG (c : expr).
Definition st := (Z * nat)%type.

Definition block_ops (g : cfg) (b : Z) : option (list operation) :=
  option_map (fun blk => map i_op (b_instrs blk)) (find_block (g_blocks g) b).
Definition guard_word (e : edge) : list label := match e_cond e with Some c => [LG c] | None => [] end.

Inductive sstep (g : cfg) : st -> list label -> st -> Prop :=
| ss_op b k ops o : block_ops g b = Some ops -> nth_error ops k = Some o -> sstep g (b, k) [LOp o] (b, S k)
| ss_edge b ops e : block_ops g b = Some ops -> In e (g_edges g) -> e_head e = b ->
    sstep g (b, length ops) (guard_word e) (e_tail e, O).
Inductive srun (g : cfg) : st -> list label -> st -> Prop :=
| sr_nil s : srun g s [] s
| sr_step s w1 s1 w2 s2 : sstep g s w1 s1 -> srun g s1 w2 s2 -> srun g s (w1 ++ w2) s2.

Definition lang (g : cfg) (w : list label) : Prop :=
  exists e s, g_entry g = Some e /\ srun g (e, O) w s.

(* words leading from the entry to the end of the exit block *)
Definition clang (g : cfg) (w : list label) : Prop :=
  exists e x ops, g_entry g = Some e /\ g_exit g = Some x /\ block_ops g x = Some ops /\
                  srun g (e, O) w (x, length ops).

Lemma srun_app g a w1 b w2 c : srun g a w1 b -> srun g b w2 c -> srun g a (w1 ++ w2) c.
Proof.
  induction 1 as [s | s u1 s1 u2 s2 Hst Hr IH]; intros H2; [exact H2|].
  rewrite <- app_assoc. eapply sr_step; [exact Hst | apply IH; exact H2].
Qed.
Lemma srun_one g a w b : sstep g a w b -> srun g a w b.
Proof. intros H. rewrite <- (app_nil_r w). eapply sr_step; [exact H | apply sr_nil]. Qed.

Lemma sstep_inv g b k w y : sstep g (b, k) w y ->
  (exists ops o, block_ops g b = Some ops /\ nth_error ops k = Some o /\ w = [LOp o] /\ y = (b, S k)) \/
  (exists ops e, block_ops g b = Some ops /\ k = length ops /\ In e (g_edges g) /\ e_head e = b /\
                 w = guard_word e /\ y = (e_tail e, O)).
Proof.
  intros H. inversion H; subst.
  - left. eauto 10.
  - right. eauto 10.
Qed.

(* a state inside its block *)
Definition valid_st (g : cfg) (x : st) : Prop :=
  exists ops, block_ops g (fst x) = Some ops /\ (snd x <= length ops)%nat.

(* ------------------------------------------------------------------ merging block s into block m *)
Section MergeSim.
  Variables (g g' : cfg) (m s : Z) (om os_ : list operation).
  Hypothesis Hms : m <> s.
  Hypothesis Hom : block_ops g m = Some om.
  Hypothesis Hos : block_ops g s = Some os_.
  (* what the graph looks like around the pair *)
  Hypothesis Hout_m : forall e, In e (g_edges g) -> e_head e = m -> e_tail e = s /\ e_cond e = None.
  Hypothesis Hms_edge : exists e, In e (g_edges g) /\ e_head e = m /\ e_tail e = s.
  Hypothesis Hin_s : forall e, In e (g_edges g) -> e_tail e = s -> e_head e = m.
  Hypothesis Hends : forall e, In e (g_edges g) -> block_ops g (e_tail e) <> None.
  Hypothesis Hentry : g_entry g <> Some s.
  Hypothesis Hentry_blk : forall e, g_entry g = Some e -> block_ops g e <> None.
  (* what merge produces *)
  Hypothesis S1s : block_ops g' s = None.
  Hypothesis S1m : block_ops g' m = Some (om ++ os_).
  Hypothesis S1o : forall b, b <> m -> b <> s -> block_ops g' b = block_ops g b.
  Hypothesis S2 : forall e', In e' (g_edges g') <->
    (In e' (g_edges g) /\ e_head e' <> s /\ e_tail e' <> s) \/
    (exists e0, In e0 (g_edges g) /\ e_head e0 = s /\ e' = mkedge m (e_tail e0) (e_cond e0)).
  Hypothesis S3 : g_entry g' = g_entry g.

  Definition phi (x : st) : st := if fst x =? s then (m, (length om + snd x)%nat) else x.

  Lemma phi_other b k : b <> s -> phi (b, k) = (b, k).
  Proof. intros H. unfold phi. cbn [fst]. destruct (b =? s) eqn:E; [apply Z.eqb_eq in E; contradiction | reflexivity]. Qed.
  Lemma phi_s k : phi (s, k) = (m, (length om + k)%nat).
  Proof. unfold phi. cbn [fst snd]. rewrite Z.eqb_refl. reflexivity. Qed.

  Lemma out_s_tail e : In e (g_edges g) -> e_head e = s -> e_tail e <> s.
  Proof. intros He Hh Ht. apply Hin_s in Ht; [|exact He]. congruence. Qed.

  (* forward: every step of g is matched by zero or one step of g' *)
  Lemma sim_fwd x w y : sstep g x w y -> srun g' (phi x) w (phi y).
  Proof.
    intros [b k ops o Hops Hn | b ops e Hops He Hh].
    - destruct (Z.eq_dec b s) as [->|Hbs].
      + rewrite !phi_s. rewrite Hos in Hops. injection Hops as <-.
        replace (length om + S k)%nat with (S (length om + k)) by lia.
        apply srun_one. eapply ss_op; [exact S1m|]. rewrite nth_error_app2 by lia.
        replace (length om + k - length om)%nat with k by lia. exact Hn.
      + rewrite !phi_other by exact Hbs. apply srun_one.
        destruct (Z.eq_dec b m) as [->|Hbm].
        * rewrite Hom in Hops. injection Hops as <-. eapply ss_op; [exact S1m|].
          rewrite nth_error_app1; [exact Hn|]. apply nth_error_Some. congruence.
        * eapply ss_op; [rewrite S1o by assumption; exact Hops | exact Hn].
    - destruct (Z.eq_dec b s) as [->|Hbs].
      + (* an out-edge of s becomes an out-edge of m, taken at the end of the merged block *)
        rewrite phi_s. rewrite Hos in Hops. injection Hops as <-.
        pose proof (out_s_tail e He Hh) as Hts. rewrite phi_other by exact Hts.
        replace (length om + length os_)%nat with (length (om ++ os_)) by (rewrite app_length; reflexivity).
        apply srun_one.
        change (guard_word e) with (guard_word (mkedge m (e_tail e) (e_cond e))).
        change (e_tail e, O) with (e_tail (mkedge m (e_tail e) (e_cond e)), O).
        eapply ss_edge; [exact S1m | | reflexivity]. apply S2. right. exists e. auto.
      + rewrite phi_other by exact Hbs.
        destruct (Z.eq_dec b m) as [->|Hbm].
        * (* the edge m -> s: silent, and both ends are mapped to the same state *)
          destruct (Hout_m e He Hh) as [Ht Hc]. rewrite Hom in Hops. injection Hops as <-.
          rewrite Ht, phi_s. unfold guard_word. rewrite Hc. rewrite Nat.add_0_r. apply sr_nil.
        * assert (Hts : e_tail e <> s) by (intros Ht; apply Hin_s in Ht; [congruence | exact He]).
          rewrite phi_other by exact Hts. apply srun_one.
          eapply ss_edge; [rewrite S1o by assumption; exact Hops | | exact Hh].
          apply S2. left. repeat split; [exact He | congruence | exact Hts].
  Qed.

  Lemma sim_fwd_run x w y : srun g x w y -> srun g' (phi x) w (phi y).
  Proof.
    induction 1 as [z | z w1 z1 w2 z2 Hst Hr IH]; [apply sr_nil|].
    eapply srun_app; [apply sim_fwd; exact Hst | exact IH].
  Qed.

  (* backward: every step of g' from the image of a valid state is matched by a run of g *)
  Lemma valid_step x w y : valid_st g x -> sstep g x w y -> valid_st g y.
  Proof.
    intros _ [b k ops o Hops Hn | b ops e Hops He Hh].
    - exists ops. split; [exact Hops|]. cbn [snd].
      assert (k < length ops)%nat by (apply nth_error_Some; congruence). lia.
    - destruct (block_ops g (e_tail e)) as [ops'|] eqn:E; [|exfalso; exact (Hends e He E)].
      exists ops'. cbn [fst snd]. split; [exact E | lia].
  Qed.
  Lemma valid_run x w y : valid_st g x -> srun g x w y -> valid_st g y.
  Proof.
    intros Hv H. induction H as [z | z w1 z1 w2 z2 Hst Hr IH]; [exact Hv|].
    apply IH. eapply valid_step; eassumption.
  Qed.

  (* from the end of m the run of g can silently move to the start of s *)
  Lemma hop : srun g (m, length om) [] (s, O).
  Proof.
    destruct Hms_edge as (e & He & Hh & Ht). destruct (Hout_m e He Hh) as [_ Hc].
    replace (@nil label) with (guard_word e) by (unfold guard_word; rewrite Hc; reflexivity).
    rewrite <- Ht. apply srun_one. eapply ss_edge; [exact Hom | exact He | exact Hh].
  Qed.

  Lemma sim_bwd_step x' w y' : sstep g' x' w y' ->
    forall x, valid_st g x -> phi x = x' -> exists y, srun g x w y /\ phi y = y'.
  Proof.
    intros Hst [b k] (ops & Hops & Hk) Hphi. cbn [fst snd] in Hops, Hk.
    destruct (Z.eq_dec b s) as [->|Hbs].
    - (* x inside s: x' = (m, |om| + k) *)
      rewrite phi_s in Hphi. subst x'. rewrite Hos in Hops. injection Hops as <-.
      apply sstep_inv in Hst as [(ops' & o & Hops' & Hn & -> & ->)|(ops' & e' & Hops' & Hk' & He' & Hh' & -> & ->)].
      + rewrite S1m in Hops'. injection Hops' as <-. rewrite nth_error_app2 in Hn by lia.
        replace (length om + k - length om)%nat with k in Hn by lia.
        exists (s, S k). split; [apply srun_one; eapply ss_op; eassumption|].
        rewrite phi_s. f_equal. lia.
      + rewrite S1m in Hops'. injection Hops' as <-. rewrite app_length in Hk'.
        assert (k = length os_) by lia. subst k.
        apply S2 in He' as [(He & Hh & Ht)|(e0 & He0 & Hh0 & ->)].
        * exfalso. destruct (Hout_m e' He Hh') as [Ht' _]. contradiction.
        * cbn [e_tail]. exists (e_tail e0, O). split.
          -- change (guard_word (mkedge m (e_tail e0) (e_cond e0))) with (guard_word e0).
             apply srun_one. eapply ss_edge; [exact Hos | exact He0 | exact Hh0].
          -- apply phi_other. apply out_s_tail; assumption.
    - rewrite phi_other in Hphi by exact Hbs. subst x'.
      destruct (Z.eq_dec b m) as [->|Hbm].
      + rewrite Hom in Hops. injection Hops as <-.
        apply sstep_inv in Hst as [(ops' & o & Hops' & Hn & -> & ->)|(ops' & e' & Hops' & Hk' & He' & Hh' & -> & ->)].
        * rewrite S1m in Hops'. injection Hops' as <-.
          destruct (Nat.lt_ge_cases k (length om)) as [Hlt|Hge].
          -- rewrite nth_error_app1 in Hn by exact Hlt.
             exists (m, S k). split; [apply srun_one; eapply ss_op; eassumption | apply phi_other; exact Hms].
          -- assert (k = length om) by lia. subst k. rewrite nth_error_app2 in Hn by lia.
             rewrite Nat.sub_diag in Hn.
             exists (s, 1%nat). split.
             ++ change [LOp o] with ([] ++ [LOp o]). eapply srun_app; [exact hop|].
                apply srun_one. eapply ss_op; eassumption.
             ++ rewrite phi_s. f_equal. lia.
        * rewrite S1m in Hops'. injection Hops' as <-. rewrite app_length in Hk'.
          assert (Hk0 : k = length om /\ length os_ = O) by lia. destruct Hk0 as [-> Hl0].
          apply S2 in He' as [(He & Hh & Ht)|(e0 & He0 & Hh0 & ->)].
          -- exfalso. destruct (Hout_m e' He Hh') as [Ht' _]. contradiction.
          -- cbn [e_tail]. exists (e_tail e0, O). split.
             ++ change (guard_word (mkedge m (e_tail e0) (e_cond e0))) with (guard_word e0).
                change (guard_word e0) with ([] ++ guard_word e0). eapply srun_app; [exact hop|].
                apply srun_one. pose proof (ss_edge g s os_ e0 Hos He0 Hh0) as Hst0. rewrite Hl0 in Hst0. exact Hst0.
             ++ apply phi_other. apply out_s_tail; assumption.
      + apply sstep_inv in Hst as [(ops' & o & Hops' & Hn & -> & ->)|(ops' & e' & Hops' & Hk' & He' & Hh' & -> & ->)].
        * rewrite S1o in Hops' by assumption.
          exists (b, S k). split; [apply srun_one; exact (ss_op g b k ops' o Hops' Hn) | apply phi_other; exact Hbs].
        * rewrite S1o in Hops' by assumption. rewrite Hops in Hops'. injection Hops' as <-. subst k.
          apply S2 in He' as [(He & Hh & Ht)|(e0 & He0 & Hh0 & ->)].
          -- exists (e_tail e', O). split; [apply srun_one; eapply ss_edge; eauto | apply phi_other; exact Ht].
          -- cbn [e_head] in Hh'. congruence.
  Qed.

  Lemma sim_bwd_run x' w y' : srun g' x' w y' ->
    forall x, valid_st g x -> phi x = x' -> exists y, srun g x w y /\ phi y = y'.
  Proof.
    induction 1 as [z | z w1 z1 w2 z2 Hst Hr IH]; intros x Hv Hphi.
    - exists x. split; [apply sr_nil | exact Hphi].
    - destruct (sim_bwd_step _ _ _ Hst x Hv Hphi) as (y1 & Hr1 & Hp1).
      destruct (IH y1 (valid_run _ _ _ Hv Hr1) Hp1) as (y2 & Hr2 & Hp2).
      exists y2. split; [eapply srun_app; eassumption | exact Hp2].
  Qed.

  Theorem merge_sim_lang w : lang g' w <-> lang g w.
  Proof.
    split.
    - intros (e & y' & He & Hr). rewrite S3 in He.
      assert (Hes : e <> s) by congruence.
      assert (Hv : valid_st g (e, O)).
      { destruct (block_ops g e) as [ops|] eqn:E; [|exfalso; exact (Hentry_blk e He E)].
        exists ops. split; [exact E | cbn; lia]. }
      destruct (sim_bwd_run _ _ _ Hr (e, O) Hv (phi_other e O Hes)) as (y & Hry & _).
      exists e, y. auto.
    - intros (e & y & He & Hr). exists e, (phi y). split; [congruence|].
      assert (Hes : e <> s) by congruence.
      rewrite <- (phi_other e O Hes). apply sim_fwd_run. exact Hr.
  Qed.
  (* words ending at the end of the exit block: preserved when the exit survives (it is neither m nor s)
     or is the absorbed block s (merge redirects it to m); NOT when the exit is the absorbing block m
     itself, whose end moves behind the instructions of s *)
  Hypothesis Hexit_m : g_exit g <> Some m.
  Hypothesis S4 : g_exit g' = match g_exit g with Some x => if x =? s then Some m else Some x | None => None end.

  Theorem merge_sim_clang w : clang g' w <-> clang g w.
  Proof.
    split.
    - intros (e & x' & ops' & He & Hx' & Hops' & Hr). rewrite S3 in He.
      assert (Hes : e <> s) by congruence.
      assert (Hv : valid_st g (e, O)).
      { destruct (block_ops g e) as [ops|] eqn:E; [|exfalso; exact (Hentry_blk e He E)].
        exists ops. split; [exact E | cbn; lia]. }
      destruct (sim_bwd_run _ _ _ Hr (e, O) Hv (phi_other e O Hes)) as ([b k] & Hry & Hphi).
      pose proof (valid_run _ _ _ Hv Hry) as (opsb & Hopsb & Hk). cbn [fst snd] in Hopsb, Hk.
      rewrite S4 in Hx'. destruct (g_exit g) as [x|] eqn:Ex; [|discriminate].
      destruct (x =? s) eqn:Exs.
      + apply Z.eqb_eq in Exs. subst x. injection Hx' as <-. rewrite S1m in Hops'. injection Hops' as <-.
        rewrite app_length in Hphi.
        destruct (Z.eq_dec b s) as [->|Hbs].
        * rewrite phi_s in Hphi. injection Hphi as Hk'. assert (k = length os_) by lia. subst k.
          exists e, s, os_. auto.
        * rewrite phi_other in Hphi by exact Hbs. injection Hphi as -> ->.
          rewrite Hom in Hopsb. injection Hopsb as <-.
          assert (Hl : length os_ = O) by lia.
          exists e, s, os_. repeat split; auto. rewrite Hl.
          rewrite <- (app_nil_r w). eapply srun_app; [exact Hry|].
          replace (length om + length os_)%nat with (length om) by lia. exact hop.
      + apply Z.eqb_neq in Exs. injection Hx' as <-. assert (Hxm : x <> m) by congruence.
        rewrite (S1o x Hxm Exs) in Hops'.
        destruct (Z.eq_dec b s) as [->|Hbs].
        * rewrite phi_s in Hphi. injection Hphi as Hb _. congruence.
        * rewrite phi_other in Hphi by exact Hbs. injection Hphi as -> ->.
          exists e, x, ops'. auto.
    - intros (e & x & ops & He & Hx & Hops & Hr).
      assert (Hes : e <> s) by congruence. assert (Hxm : x <> m) by congruence.
      pose proof (sim_fwd_run _ _ _ Hr) as Hr'. rewrite (phi_other e O Hes) in Hr'.
      rewrite Hx in S4. destruct (x =? s) eqn:Exs.
      + apply Z.eqb_eq in Exs. subst x. rewrite Hos in Hops. injection Hops as <-. rewrite phi_s in Hr'.
        exists e, m, (om ++ os_). rewrite app_length. repeat split; auto. congruence.
      + apply Z.eqb_neq in Exs. rewrite (phi_other x _ Exs) in Hr'.
        exists e, x, ops. repeat split; auto; [congruence | rewrite (S1o x Hxm Exs); exact Hops].
  Qed.
End MergeSim.

