(* Cfg/MergeLift.v -- ControlFlowGraph::merge preserves C06's function language (Lift/Lang.v):
   words of items  Ins address operation | Grd guard,  where only the unguarded SOLE out-edge of a block
   is silent.  Same simulation as Cfg/Lang.v (phi (s,k) = (m, |instrs m| + k)), redone for that LTS so
   that function recovery (C06) can compose its statements with merge. *)
From Coq Require Import ZArith List Bool NArith Lia Sorted.
From Falcon Require Import Base.Res IL.Const IL.Expr IL.Func IL.Loc IL.LocProofs.
From Falcon Require Import Cfg.CfgOps Cfg.SOps Cfg.SProofs Cfg.MergeProofs Cfg.Refine.
From Falcon Require Import Lift.Lang.
Import ListNotations.
Local Open Scope Z_scope.

Definition same_item (i i' : instruction) : Prop := i_addr i' = i_addr i /\ i_op i' = i_op i.

Definition mapk (f : pos -> pos) (k : kind) : kind :=
  match k with KIns x q => KIns x (f q) | other => other end.

Lemma forall2_nth (l l' : list instruction) : Forall2 same_item l l' -> forall k,
  match nth_error l k, nth_error l' k with
  | Some i, Some i' => same_item i i'
  | None, None => True
  | _, _ => False
  end.
Proof.
  induction 1 as [|i i' t t' Hi Ht IH]; intros [|k]; cbn [nth_error]; try exact I; try exact Hi. apply IH.
Qed.

Section Sim.
  Variables (g g' : cfg) (m s : Z) (bm bs bm' : block) (is' : list instruction) (em : edge).
  Hypothesis Hms : m <> s.
  Hypothesis Hbm : find_block (g_blocks g) m = Some bm.
  Hypothesis Hbs : find_block (g_blocks g) s = Some bs.
  Hypothesis F1o : forall b, b <> m -> b <> s -> find_block (g_blocks g') b = find_block (g_blocks g) b.
  Hypothesis F1m : find_block (g_blocks g') m = Some bm'.
  Hypothesis Hinstr : b_instrs bm' = b_instrs bm ++ is'.
  Hypothesis Hsame : Forall2 same_item (b_instrs bs) is'.
  Hypothesis F2o : forall b, b <> m -> b <> s -> out_edges g' b = out_edges g b.
  Hypothesis F2m : out_edges g' m = map (fun e => mkedge m (e_tail e) (e_cond e)) (out_edges g s).
  Hypothesis F2g : out_edges g m = [em].
  Hypothesis Hem : e_cond em = None /\ e_tail em = s.
  Hypothesis Hin_s : forall e, In e (g_edges g) -> e_tail e = s -> e_head e = m.
  Hypothesis Hentry : g_entry g <> Some s.
  Hypothesis S3 : g_entry g' = g_entry g.

  Let lm := length (b_instrs bm).
  Definition phi (p : pos) : pos := if fst p =? s then (m, (lm + snd p)%nat) else p.
  Definition okp (p : pos) : Prop := fst p = m -> (snd p <= lm)%nat.
  Definition strict (p : pos) : Prop := fst p = m -> (snd p < lm)%nat.

  Lemma phi_other b k : b <> s -> phi (b, k) = (b, k).
  Proof. intros H. unfold phi. cbn [fst]. destruct (b =? s) eqn:E; [apply Z.eqb_eq in E; contradiction | reflexivity]. Qed.
  Lemma phi_s k : phi (s, k) = (m, (lm + k)%nat).
  Proof. unfold phi. cbn [fst snd]. rewrite Z.eqb_refl. reflexivity. Qed.

  Lemma out_tail_ne b e : b <> m -> In e (out_edges g b) -> e_tail e <> s.
  Proof.
    intros Hb He Ht. unfold out_edges in He. apply filter_In in He as [He Hh]. apply Z.eqb_eq in Hh.
    apply Hin_s in Ht; [congruence | exact He].
  Qed.

  Lemma nth_same k : match nth_error (b_instrs bs) k, nth_error is' k with
                     | Some i, Some i' => same_item i i'
                     | None, None => True
                     | _, _ => False
                     end.
  Proof. exact (forall2_nth _ _ Hsame k). Qed.

  (* the shape of a position of g' that is the image of a (strictly inside, for block m) position of g *)
  Lemma kind_phi p : strict p -> kind_of g' (phi p) = mapk phi (kind_of g p).
  Proof.
    destruct p as [b k]. unfold strict. cbn [fst snd]. intros Hst.
    destruct (Z.eq_dec b s) as [->|Hbs'].
    - (* inside s: image inside the second half of the merged block *)
      rewrite phi_s. unfold kind_of. cbn [fst snd]. rewrite F1m, Hbs, Hinstr.
      rewrite nth_error_app2 by lia. replace (lm + k - length (b_instrs bm))%nat with k by (unfold lm; lia).
      pose proof (nth_same k) as Hn.
      destruct (nth_error (b_instrs bs) k) as [i|], (nth_error is' k) as [i'|]; try contradiction.
      + destruct Hn as [-> ->]. cbn [mapk]. rewrite phi_s. do 2 f_equal. lia.
      + rewrite F2m. destruct (out_edges g s) as [|e [|e2 l]]; cbn [map mapk]; [reflexivity | |].
        * unfold edge_lab. cbn [e_cond e_tail]. destruct (e_cond e); reflexivity.
        * rewrite map_map. reflexivity.
    - rewrite phi_other by exact Hbs'.
      destruct (Z.eq_dec b m) as [->|Hbm'].
      + specialize (Hst eq_refl). unfold kind_of. cbn [fst snd]. rewrite F1m, Hbm, Hinstr.
        rewrite nth_error_app1 by exact Hst.
        destruct (nth_error (b_instrs bm) k) as [i|] eqn:E.
        * cbn [mapk]. rewrite phi_other by exact Hms. reflexivity.
        * exfalso. apply nth_error_None in E. unfold lm in Hst. lia.
      + unfold kind_of. cbn [fst snd]. rewrite (F1o b Hbm' Hbs'), (F2o b Hbm' Hbs').
        destruct (find_block (g_blocks g) b) as [blk|]; [|reflexivity].
        destruct (nth_error (b_instrs blk) k); [cbn [mapk]; rewrite phi_other by exact Hbs'; reflexivity|].
        destruct (out_edges g b) as [|e [|e2 l]]; try reflexivity. destruct (e_cond e); reflexivity.
  Qed.

  Lemma kind_m_end : kind_of g (m, lm) = KSilent s.
  Proof.
    unfold kind_of. cbn [fst snd]. rewrite Hbm.
    assert (E : nth_error (b_instrs bm) lm = None) by (apply nth_error_None; unfold lm; lia). rewrite E, F2g.
    destruct Hem as [-> ->]. reflexivity.
  Qed.

  (* targets of silent / branching moves from a block other than m are never s *)
  Lemma silent_target b k t : b <> m -> kind_of g (b, k) = KSilent t -> t <> s.
  Proof.
    intros Hb. unfold kind_of. cbn [fst snd]. destruct (find_block (g_blocks g) b) as [blk|]; [|discriminate].
    destruct (nth_error (b_instrs blk) k); [discriminate|].
    destruct (out_edges g b) as [|e [|e2 l]] eqn:Eo; try discriminate.
    destruct (e_cond e); [discriminate|]. intros [= <-]. apply (out_tail_ne b e Hb). rewrite Eo. left; reflexivity.
  Qed.
  Lemma branch_target b k l c t : b <> m -> kind_of g (b, k) = KBranch l -> In (c, t) l -> t <> s.
  Proof.
    intros Hb. unfold kind_of. cbn [fst snd]. destruct (find_block (g_blocks g) b) as [blk|]; [|intros [= <-] []].
    destruct (nth_error (b_instrs blk) k); [discriminate|].
    assert (G : forall es, (forall e, In e es -> In e (out_edges g b)) -> In (c, t) (map edge_lab es) -> t <> s).
    { intros es Hes Hin. apply in_map_iff in Hin as (e & [= _ <-] & He). exact (out_tail_ne b e Hb (Hes e He)). }
    destruct (out_edges g b) as [|e [|e2 l']] eqn:Eo.
    - intros [= <-] [].
    - destruct (e_cond e) eqn:Ec; [|discriminate]. intros [= <-] Hin. apply (G [e]); [intros x Hx; exact Hx | exact Hin].
    - intros [= <-] Hin. apply (G (e :: e2 :: l')); [intros x Hx; exact Hx | exact Hin].
  Qed.

  Lemma kind_m_lo k : (k < lm)%nat -> exists x, kind_of g (m, k) = KIns x (m, S k).
  Proof.
    intros Hk. unfold kind_of. cbn [fst snd]. rewrite Hbm.
    destruct (nth_error (b_instrs bm) k) as [i|] eqn:E; [eauto|]. apply nth_error_None in E. unfold lm in Hk. lia.
  Qed.

  Lemma kins_next p x q : kind_of g p = KIns x q -> q = (fst p, S (snd p)) /\
    (fst p = m -> okp p -> okp q).
  Proof.
    unfold kind_of. destruct (find_block (g_blocks g) (fst p)) as [blk|] eqn:F; [|discriminate].
    destruct (nth_error (b_instrs blk) (snd p)) as [i|] eqn:E.
    - intros [= _ <-]. split; [reflexivity|]. intros Hm _. unfold okp. cbn [fst snd]. intros _.
      rewrite Hm, Hbm in F. injection F as <-. assert (snd p < length (b_instrs bm))%nat by (apply nth_error_Some; congruence).
      unfold lm. lia.
    - destruct (out_edges g (fst p)) as [|e [|e2 l]]; try discriminate. destruct (e_cond e); discriminate.
  Qed.

  (* ---- forward ---- *)
  Lemma sim_fwd p w q : run g p w q -> okp p -> run g' (phi p) w (phi q).
  Proof.
    induction 1 as [p|p t w q K H IH|p x p' w q V H IH]; intros Hok.
    - apply run_nil.
    - destruct p as [b k]. destruct (Z.eq_dec b m) as [->|Hb].
      + (* only the end of m is silent in block m *)
        assert (k = lm).
        { specialize (Hok eq_refl). cbn [snd] in Hok. destruct (Nat.eq_dec k lm) as [E|E]; [exact E|].
          destruct (kind_m_lo k ltac:(lia)) as [x Hx]. congruence. }
        subst k. rewrite kind_m_end in K. injection K as <-.
        rewrite (phi_other m lm Hms). rewrite <- (Nat.add_0_r lm) at 1. rewrite <- phi_s.
        apply IH. unfold okp. cbn [fst]. intros E. congruence.
      + assert (Ht : t <> s) by exact (silent_target b k t Hb K).
        eapply run_sil.
        * rewrite (kind_phi (b, k)) by (unfold strict; cbn [fst]; intros E; contradiction). rewrite K. reflexivity.
        * rewrite <- (phi_other t O Ht). apply IH. unfold okp. cbn [fst snd]. lia.
    - destruct p as [b k]. inversion V as [x0 q0 K|l c t K Hin]; subst.
      + assert (Hst : strict (b, k)).
        { unfold strict. cbn [fst snd]. intros ->. specialize (Hok eq_refl). cbn [snd] in Hok.
          destruct (Nat.eq_dec k lm) as [E|E]; [subst; rewrite kind_m_end in K; discriminate | lia]. }
        destruct (kins_next _ _ _ K) as [Eq Hnext].
        eapply run_vis.
        * apply vs_ins. rewrite (kind_phi (b, k) Hst), K. reflexivity.
        * apply IH. destruct (Z.eq_dec b m) as [->|Hb]; [apply Hnext; [reflexivity | exact Hok]|].
          subst p'. unfold okp. cbn [fst]. intros E. contradiction.
      + assert (Hb : b <> m).
        { intros ->. specialize (Hok eq_refl). cbn [snd] in Hok. destruct (Nat.eq_dec k lm) as [E|E].
          - subst. rewrite kind_m_end in K. discriminate.
          - destruct (kind_m_lo k ltac:(lia)) as [x Hx]. congruence. }
        assert (Ht : t <> s) by exact (branch_target b k l c t Hb K Hin).
        eapply run_vis.
        * eapply vs_grd; [|exact Hin]. rewrite (kind_phi (b, k)) by (unfold strict; cbn [fst]; intros E; contradiction).
          rewrite K. reflexivity.
        * rewrite <- (phi_other t O Ht). apply IH. unfold okp. cbn [fst snd]. lia.
  Qed.

  (* ---- backward ---- *)
  Lemma mapk_silent k t : mapk phi k = KSilent t -> k = KSilent t.
  Proof. destruct k; cbn; congruence. Qed.
  Lemma mapk_branch k l : mapk phi k = KBranch l -> k = KBranch l.
  Proof. destruct k; cbn; congruence. Qed.
  Lemma mapk_ins k x q' : mapk phi k = KIns x q' -> exists q, k = KIns x q /\ phi q = q'.
  Proof. destruct k; cbn; try discriminate. intros [= <- <-]. eauto. Qed.

  Lemma sim_bwd x' w y' : run g' x' w y' -> forall p, okp p -> phi p = x' ->
    exists q, run g p w q /\ phi q = y'.
  Proof.
    induction 1 as [x'|x' t w y' K H IH|x' x p'' w y' V H IH]; intros p Hok Hphi.
    - exists p. split; [apply run_nil | exact Hphi].
    - (* normalise the end of m to the start of s *)
      assert (Hnorm : exists p0, strict p0 /\ okp p0 /\ phi p0 = x' /\ forall w q, run g p0 w q -> run g p w q).
      { destruct p as [b k]. destruct (Z.eq_dec b m) as [->|Hb].
        - specialize (Hok eq_refl). cbn [snd] in Hok. destruct (Nat.eq_dec k lm) as [->|E].
          + exists (s, O). split; [unfold strict; cbn [fst]; intros E; congruence|]. split; [unfold okp; cbn [fst]; intros E; congruence|].
            split; [rewrite phi_s, Nat.add_0_r; rewrite <- Hphi; symmetry; apply phi_other; exact Hms|].
            intros w0 q0 R. eapply run_sil; [apply kind_m_end | exact R].
          + exists (m, k). split; [unfold strict; cbn [fst snd]; lia|]. split; [unfold okp; cbn [fst snd]; lia|]. auto.
        - exists (b, k). split; [unfold strict; cbn [fst]; intros E; contradiction|]. split; [unfold okp; cbn [fst]; intros E; contradiction|]. auto. }
      destruct Hnorm as ([b k] & Hst & Hok0 & Hphi0 & Hlift). clear Hphi. subst x'.
      rewrite (kind_phi _ Hst) in K. apply mapk_silent in K.
      assert (Hb : b <> m).
      { intros ->. destruct (kind_m_lo k (Hst eq_refl)) as [x Hx]. cbn [fst snd] in *. congruence. }
      assert (Ht : t <> s) by exact (silent_target b k t Hb K).
      destruct (IH (t, O)) as (q & R & Eq); [unfold okp; cbn [fst snd]; lia | apply phi_other; exact Ht|].
      exists q. split; [apply Hlift; eapply run_sil; eassumption | exact Eq].
    - assert (Hnorm : exists p0, strict p0 /\ okp p0 /\ phi p0 = x' /\ forall w q, run g p0 w q -> run g p w q).
      { destruct p as [b k]. destruct (Z.eq_dec b m) as [->|Hb].
        - specialize (Hok eq_refl). cbn [snd] in Hok. destruct (Nat.eq_dec k lm) as [->|E].
          + exists (s, O). split; [unfold strict; cbn [fst]; intros E; congruence|]. split; [unfold okp; cbn [fst]; intros E; congruence|].
            split; [rewrite phi_s, Nat.add_0_r; rewrite <- Hphi; symmetry; apply phi_other; exact Hms|].
            intros w0 q0 R. eapply run_sil; [apply kind_m_end | exact R].
          + exists (m, k). split; [unfold strict; cbn [fst snd]; lia|]. split; [unfold okp; cbn [fst snd]; lia|]. auto.
        - exists (b, k). split; [unfold strict; cbn [fst]; intros E; contradiction|]. split; [unfold okp; cbn [fst]; intros E; contradiction|]. auto. }
      destruct Hnorm as ([b k] & Hst & Hok0 & Hphi0 & Hlift). clear Hphi. subst x'.
      inversion V as [x0 q0 K|l c t K Hin]; subst.
      + rewrite (kind_phi _ Hst) in K. apply mapk_ins in K as (q1 & K & Eq1).
        destruct (kins_next _ _ _ K) as [Eq Hnext].
        destruct (IH q1) as (q & R & Eq2); [|exact Eq1|].
        { destruct (Z.eq_dec b m) as [->|Hb]; [apply Hnext; [reflexivity | exact Hok0]|].
          subst q1. unfold okp. cbn [fst]. intros E. contradiction. }
        exists q. split; [apply Hlift; eapply run_vis; [apply vs_ins; exact K | exact R] | exact Eq2].
      + rewrite (kind_phi _ Hst) in K. apply mapk_branch in K.
        assert (Hb : b <> m).
        { intros ->. destruct (kind_m_lo k (Hst eq_refl)) as [x0 Hx]. cbn [fst snd] in *. congruence. }
        assert (Ht : t <> s) by exact (branch_target b k l c t Hb K Hin).
        destruct (IH (t, O)) as (q & R & Eq); [unfold okp; cbn [fst snd]; lia | apply phi_other; exact Ht|].
        exists q. split; [apply Hlift; eapply run_vis; [eapply vs_grd; eassumption | exact R] | exact Eq].
  Qed.

  Theorem sim_lang w : Lang.lang g' w <-> Lang.lang g w.
  Proof.
    unfold Lang.lang, lang_from. rewrite S3. split.
    - intros (e & He & q' & R). assert (Hes : e <> s) by congruence.
      destruct (sim_bwd _ _ _ R (e, O)) as (q & Rq & _); [unfold okp; cbn [fst snd]; lia | apply phi_other; exact Hes|].
      exists e. split; [exact He | exists q; exact Rq].
    - intros (e & He & q & R). assert (Hes : e <> s) by congruence.
      exists e. split; [exact He|]. exists (phi q). rewrite <- (phi_other e O Hes). apply sim_fwd; [exact R|].
      unfold okp. cbn [fst snd]. lia.
  Qed.
End Sim.

(* ------------------------------------------------------------------ instantiation on s_merge_one *)
Lemma block_append_instrs b o : exists is',
  b_instrs (block_append b o) = b_instrs b ++ is' /\ Forall2 same_item (b_instrs o) is'.
Proof.
  unfold block_append. generalize (b_instrs o). intros l. revert b.
  induction l as [|i t IH]; intros b; cbn [fold_left].
  - exists []. rewrite app_nil_r. split; [reflexivity | constructor].
  - destruct (IH (mkblock (b_index b) (b_next b + 1) (b_instrs b ++ [mkinstr (b_next b) (i_op i) (i_addr i)]) (b_phis b))) as (is' & E & F).
    cbn [b_instrs] in E. exists (mkinstr (b_next b) (i_op i) (i_addr i) :: is'). split.
    + rewrite E, <- app_assoc. reflexivity.
    + constructor; [split; reflexivity | exact F].
Qed.

Lemma singleton_same_key l m s : StronglySorted elt l -> l <> [] ->
  (forall e, In e l -> e_head e = m /\ e_tail e = s) -> exists e, l = [e].
Proof.
  intros Hs Hne Hk. destruct l as [|e [|e2 t]]; [contradiction | eauto |]. exfalso.
  inversion Hs as [|? ? _ Hall]; subst. rewrite Forall_forall in Hall. specialize (Hall e2 (or_introl eq_refl)).
  destruct (Hk e (or_introl eq_refl)), (Hk e2 (or_intror (or_introl eq_refl))). unfold elt in Hall. lia.
Qed.

Theorem merge_step_flang g m s : sinv g -> mergeable g m s ->
  forall w, Lang.lang (fst (s_merge_one g m s)) w <-> Lang.lang g w.
Proof.
  intros Hs Hmg.
  destruct (merge_one_shape g m s Hs Hmg) as (g' & bm & bs & E & Ebm & Ebs & Hc' & En' & _ & _ & Hblocks & Hedges).
  rewrite E. cbn [fst]. destruct Hmg as [Hne Hen Hm Hsb Hout Hedge Hin]. pose proof (si_core _ Hs) as Hc.
  pose proof (find_block_some _ _ _ Ebm) as [Hbm_in Hbm_i]. pose proof (find_block_some _ _ _ Ebs) as [Hbs_in Hbs_i].
  assert (Hidx : b_index (block_append bm bs) = m) by (rewrite block_append_index; exact Hbm_i).
  destruct (block_append_instrs bm bs) as (is' & Hinstr & Hsame).
  (* out-edge lists *)
  assert (Hsorted : forall (gg : cfg) b, score gg -> StronglySorted elt (out_edges gg b)).
  { intros gg b Hg. unfold out_edges. apply SS_filter. exact (sc_edges _ Hg). }
  assert (Hout_in : forall (gg : cfg) b e, In e (out_edges gg b) <-> In e (g_edges gg) /\ e_head e = b).
  { intros gg b e. unfold out_edges. rewrite filter_In, Z.eqb_eq. reflexivity. }
  assert (Htail : forall e, In e (g_edges g) -> e_head e = s -> e_tail e <> s).
  { intros e He Hh Ht. apply Hin in Ht; [congruence | exact He]. }
  destruct Hedge as (em0 & Hem_in & Hem_h & Hem_t).
  destruct (singleton_same_key (out_edges g m) m s (Hsorted g m Hc)) as [em F2g].
  { intros K. assert (In em0 (out_edges g m)) by (apply Hout_in; auto). rewrite K in H. destruct H. }
  { intros e He. apply Hout_in in He as [He Hh]. split; [exact Hh | exact (proj1 (Hout e He Hh))]. }
  assert (Hem : e_cond em = None /\ e_tail em = s).
  { assert (He : In em (out_edges g m)) by (rewrite F2g; left; reflexivity). apply Hout_in in He as [He Hh].
    destruct (Hout em He Hh). auto. }
  apply (sim_lang g g' m s bm bs (block_append bm bs) is' em); auto.
  - (* other blocks *)
    intros b Hbm Hbs. destruct (find_block (g_blocks g) b) as [blk|] eqn:F.
    + apply find_block_some in F as [Hb Hi].
      assert (Hin' : In blk (g_blocks g')) by (apply Hblocks; left; repeat split; congruence).
      pose proof (score_find g' _ Hc' Hin') as F'. rewrite Hi in F'. exact F'.
    + destruct (find_block (g_blocks g') b) as [blk|] eqn:F'; [|reflexivity].
      apply find_block_some in F' as [Hb Hi]. apply Hblocks in Hb as [(Hb & _ & _)| ->].
      * exfalso. exact (find_block_none _ _ F blk Hb Hi).
      * congruence.
  - assert (Hin' : In (block_append bm bs) (g_blocks g')) by (apply Hblocks; right; reflexivity).
    pose proof (score_find g' _ Hc' Hin') as F. rewrite Hidx in F. exact F.
  - (* out-edges of the other blocks *)
    intros b Hbm Hbs. apply edges_ext; [apply Hsorted; exact Hc' | apply Hsorted; exact Hc|].
    intros e. rewrite !Hout_in, Hedges. split.
    + intros [[(He & _ & _)|(e0 & _ & _ & ->)] Hh]; [auto | cbn [e_head] in Hh; congruence].
    + intros [He Hh]. split; [|exact Hh]. left. repeat split; [exact He | congruence|].
      intros Ht. apply Hin in Ht; [congruence | exact He].
  - (* out-edges of m = re-targeted out-edges of s *)
    apply edges_ext.
    + apply Hsorted; exact Hc'.
    + pose proof (Hsorted g s Hc) as Hss.
      assert (Hh : forall e, In e (out_edges g s) -> e_head e = s) by (intros e He; apply Hout_in in He; tauto).
      revert Hss Hh. generalize (out_edges g s). intros l. induction 1 as [|x t Hs' IH Hall]; intros Hh; cbn [map]; constructor.
      * apply IH. intros e He. apply Hh. right; exact He.
      * apply Forall_forall. intros y Hy. apply in_map_iff in Hy as (z & <- & Hz). rewrite Forall_forall in Hall.
        specialize (Hall z Hz). pose proof (Hh x (or_introl eq_refl)). pose proof (Hh z (or_intror Hz)).
        unfold elt in *. cbn [e_head e_tail]. lia.
    + intros e. rewrite Hout_in, Hedges, in_map_iff. split.
      * intros [[(He & _ & Ht)|(e0 & He0 & Hh0 & ->)] Hh].
        -- exfalso. destruct (Hout e He Hh). contradiction.
        -- exists e0. split; [reflexivity | apply Hout_in; auto].
      * intros (e0 & <- & He0). apply Hout_in in He0 as [He0 Hh0]. split; [|reflexivity]. right. exists e0. auto.
Qed.

(* ------------------------------------------------------------------ a whole merge, for any language
   that one merge step preserves *)
Section Whole.
  Variables (W : Type) (L : cfg -> W -> Prop).
  Hypothesis Hstep : forall g m s, sinv g -> mergeable g m s -> forall w, L (fst (s_merge_one g m s)) w <-> L g w.

  Lemma merge_apply_gen ms : forall g, sinv g -> pairs_ok g ms ->
    sinv (fst (s_merge_apply g ms)) /\ forall w, L (fst (s_merge_apply g ms)) w <-> L g w.
  Proof.
    induction ms as [|[m s] t IH]; intros g Hs [Hmg Hnd]; cbn [s_merge_apply].
    - cbn [fst]. split; [exact Hs | intros w; reflexivity].
    - pose proof (Hmg m s (or_introl eq_refl)) as Hms.
      destruct (merge_step_lang g m s Hs Hms) as [Eok _].
      pose proof (Hstep g m s Hs Hms) as HL.
      destruct (merge_one_inv g m s Hs (mg_ne _ _ _ Hms) (mg_entry _ _ _ Hms)) as [Hs1 _].
      destruct (s_merge_one g m s) as [g1 r1] eqn:E1. cbn [fst snd] in *. subst r1.
      cbn [flat] in Hnd. inversion Hnd as [|? ? Hm_nin Hnd1]; subst. inversion Hnd1 as [|? ? Hs_nin Hnd2]; subst.
      destruct (IH g1 Hs1) as (K1 & K2).
      { split; [|exact Hnd2]. intros a b Hin. destruct (in_flat a b t Hin) as [Ha Hb].
        replace g1 with (fst (s_merge_one g m s)) by (rewrite E1; reflexivity).
        apply mergeable_preserved; auto.
        - apply Hmg. right; exact Hin.
        - intros ->. apply Hm_nin. right; exact Ha.
        - intros ->. apply Hs_nin. exact Ha.
        - intros ->. apply Hm_nin. right; exact Hb.
        - intros ->. apply Hs_nin. exact Hb. }
      split; [exact K1|]. intros w. rewrite K2. apply HL.
  Qed.

  Lemma merge_loop_gen fuel : forall g, sinv g -> forall w, L (fst (s_merge_loop fuel g)) w <-> L g w.
  Proof.
    induction fuel as [|n IH]; intros g Hs w; cbn [s_merge_loop]; [reflexivity|].
    destruct (scan_spec g Hs (g_blocks g) [] [] (fun b H => H) (fun x H => match H with end)) as (ms & Esc & Hok & _).
    { split; [intros ? ? [] | constructor]. }
    rewrite Esc. destruct ms as [|p ms]; [reflexivity|].
    destruct (merge_apply_gen (p :: ms) g Hs Hok) as (K1 & K2).
    destruct (merge_apply_spec (p :: ms) g Hs Hok) as (Eok & _).
    destruct (s_merge_apply g (p :: ms)) as [g' r'] eqn:Ea. cbn [fst snd] in *. subst r'.
    rewrite (IH g' K1). apply K2.
  Qed.

  Theorem merge_gen g : sinv g -> forall w, L (fst (s_merge g)) w <-> L g w.
  Proof. intros Hs. apply merge_loop_gen. exact Hs. Qed.
End Whole.

(* ControlFlowGraph::merge preserves C06's function language *)
Theorem merge_flang g : sinv g ->
  snd (s_merge g) = Ok tt /\ sinv (fst (s_merge g)) /\ forall w, Lang.lang (fst (s_merge g)) w <-> Lang.lang g w.
Proof.
  intros Hs. destruct (merge_lang g Hs) as (H1 & H2 & _). split; [exact H1|]. split; [exact H2|].
  exact (merge_gen _ Lang.lang merge_step_flang g Hs).
Qed.

(* sinv from the executable invariant (for graphs that are not given as histories): cfg_inv plus
   non-negative counters *)
Lemma cfg_inv_sinv g : cfg_inv g = true -> 0 <= g_next_index g -> (forall b, In b (g_blocks g) -> 0 <= b_next b) -> sinv g.
Proof.
  intros H Hn Hb. unfold cfg_inv in H. rewrite !andb_true_iff in H. destruct H as [[[[[H1 H2] H3] H4] H5] H6].
  rewrite forallb_forall in H3, H4. split; [split|..].
  - apply sorted_by_SS. exact H1.
  - apply edges_sorted_SS. exact H2.
  - intros e He. specialize (H3 e He). apply andb_true_iff in H3. exact H3.
  - intros b Hin. specialize (H4 b Hin). rewrite !andb_true_iff in H4. destruct H4 as [[[A B] C] D].
    split; [split; [apply nodupZ_NoDup; exact A | split; [apply Hb; exact Hin|]] | split; [apply Z.leb_le; exact C | apply Z.ltb_lt; exact D]].
    rewrite forallb_forall in B. intros i Hi. specialize (B i Hi). apply andb_true_iff in B as [B1 B2].
    apply Z.leb_le in B1. apply Z.ltb_lt in B2. lia.
  - exact Hn.
  - intros i Hi. rewrite Hi in H5. exact H5.
  - intros i Hi. rewrite Hi in H6. exact H6.
Qed.
