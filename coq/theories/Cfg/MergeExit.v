(* Cfg/MergeExit.v -- property C15, the exit clause of merge: the words that lead from the entry to the
   END OF THE EXIT BLOCK ([clang]) are preserved by merge whenever the exit block is terminal (has no
   out-edge), which is how every lifter builds its graphs and what append relies on.  Without that
   proviso the statement is false (see notes/C15.md): when the exit block itself absorbs its successor,
   its end moves behind the successor's instructions. *)
From Coq Require Import ZArith List Bool NArith Lia Sorted.
From Falcon Require Import Base.Res IL.Const IL.Expr IL.Func IL.Loc IL.LocProofs Cfg.CfgOps Cfg.SOps Cfg.SProofs Cfg.Lang Cfg.MergeProofs.
Import ListNotations.
Local Open Scope Z_scope.

Definition redirect (o : option Z) (m s : Z) : option Z :=
  match o with Some x => if x =? s then Some m else Some x | None => None end.

(* where merge_one leaves the exit *)
Lemma merge_one_exit g m s g' : s_merge_one g m s = (g', Ok tt) -> score g -> g_exit g' = redirect (g_exit g) m s.
Proof.
  unfold s_merge_one. intros E Hc.
  destruct (cfg_block g s) as [sb| |]; try discriminate.
  destruct (s_update_block g m (fun b => block_append b sb)) as [g1| |] eqn:Eu; try discriminate.
  destruct (update_block_core g m _ g1 Eu Hc) as (Hc1 & _ & _ & _ & Ex1 & _).
  { intros b Hb _. apply block_append_ok. exact (proj1 (sc_ok _ Hc b Hb)). }
  destruct (cfg_edges_out g1 s) as [outs| |]; try discriminate.
  destruct (insert_edges_core g1 (map (fun e => mkedge m (e_tail e) (e_cond e)) outs) Hc1) as (_ & _ & _ & _ & Ex2).
  destruct (s_insert_edges g1 _) as [g2 [u| |]]; try discriminate. cbn [fst] in Ex2.
  unfold s_remove_vertex in E. destruct (has_block g2 s); cbn [negb] in E; try discriminate.
  injection E as <-. cbn [g_exit s_with]. unfold redirect. rewrite Ex2, Ex1. reflexivity.
Qed.

(* the exit block has no out-edge *)
Definition exit_terminal (g : cfg) : Prop := forall x, g_exit g = Some x -> forall e, In e (g_edges g) -> e_head e <> x.

Section Step.
  Variables (g : cfg) (m s : Z).
  Hypothesis Hs : sinv g.
  Hypothesis Hmg : mergeable g m s.
  Hypothesis Hterm : exit_terminal g.

  Theorem merge_step_clang :
    (forall w, clang (fst (s_merge_one g m s)) w <-> clang g w) /\ exit_terminal (fst (s_merge_one g m s)).
  Proof.
    destruct (merge_one_shape g m s Hs Hmg) as (g' & bm & bs & E & Ebm & Ebs & Hc' & En' & _ & _ & Hblocks & Hedges).
    pose proof (si_core _ Hs) as Hc. pose proof (merge_one_exit g m s g' E Hc) as Hexit.
    rewrite E. cbn [fst]. destruct Hmg as [Hne Hen Hm Hsb Hout Hedge Hin].
    pose proof (find_block_some _ _ _ Ebm) as [Hbm_in Hbm_i]. pose proof (find_block_some _ _ _ Ebs) as [Hbs_in Hbs_i].
    assert (Hidx : b_index (block_append bm bs) = m) by (rewrite block_append_index; exact Hbm_i).
    assert (Hexit_m : g_exit g <> Some m).
    { intros Hx. destruct Hedge as (e & He & Hh & _). exact (Hterm m Hx e He Hh). }
    split.
    - intros w. apply (merge_sim_clang g g' m s (map i_op (b_instrs bm)) (map i_op (b_instrs bs))); auto.
      + unfold block_ops. rewrite Ebm. reflexivity.
      + unfold block_ops. rewrite Ebs. reflexivity.
      + intros e He. pose proof (proj2 (sc_ends _ Hc e He)) as Ht. unfold block_ops.
        apply has_block_find in Ht as [b Eb]. rewrite Eb. discriminate.
      + intros e He. pose proof (si_entry _ Hs e He) as H. apply has_block_find in H as [b Eb].
        unfold block_ops. rewrite Eb. discriminate.
      + unfold block_ops. destruct (find_block (g_blocks g') s) as [b|] eqn:F; [|reflexivity].
        apply find_block_some in F as [Hb Hi]. apply Hblocks in Hb as [(_ & _ & H)| ->]; [contradiction | congruence].
      + unfold block_ops.
        assert (Hin' : In (block_append bm bs) (g_blocks g')) by (apply Hblocks; right; reflexivity).
        pose proof (score_find g' _ Hc' Hin') as F. rewrite Hidx in F. rewrite F. cbn [option_map].
        rewrite block_append_ops. reflexivity.
      + intros b Hbm Hbs. unfold block_ops.
        destruct (find_block (g_blocks g) b) as [blk|] eqn:F.
        * apply find_block_some in F as [Hb Hi].
          assert (Hin' : In blk (g_blocks g')) by (apply Hblocks; left; repeat split; congruence).
          pose proof (score_find g' _ Hc' Hin') as F'. rewrite Hi in F'. rewrite F'. reflexivity.
        * destruct (find_block (g_blocks g') b) as [blk|] eqn:F'; [|reflexivity].
          apply find_block_some in F' as [Hb Hi]. apply Hblocks in Hb as [(Hb & _ & _)| ->].
          -- exfalso. exact (find_block_none _ _ F blk Hb Hi).
          -- congruence.
    - (* the (possibly redirected) exit is still terminal *)
      intros x Hx e He Hh. rewrite Hexit in Hx. unfold redirect in Hx.
      destruct (g_exit g) as [x0|] eqn:Ex0; [|discriminate].
      apply Hedges in He as [(He & Hnh & Hnt)|(e0 & He0 & Hh0 & ->)].
      + destruct (x0 =? s) eqn:Exs; injection Hx as <-.
        * destruct (Hout e He Hh) as [Ht _]. contradiction.
        * exact (Hterm x0 Ex0 e He Hh).
      + cbn [e_head] in Hh. destruct (x0 =? s) eqn:Exs; injection Hx as <-.
        * apply Z.eqb_eq in Exs. subst x0. exact (Hterm s Ex0 e0 He0 Hh0).
        * congruence.
  Qed.
End Step.

(* ---- a whole merge, for a language preserved by one step under a step-stable side condition ---- *)
Section WholeP.
  Variables (W : Type) (L : cfg -> W -> Prop) (P : cfg -> Prop).
  Hypothesis Hstep : forall g m s, sinv g -> mergeable g m s -> P g ->
    (forall w, L (fst (s_merge_one g m s)) w <-> L g w) /\ P (fst (s_merge_one g m s)).

  Lemma merge_apply_P ms : forall g, sinv g -> pairs_ok g ms -> P g ->
    sinv (fst (s_merge_apply g ms)) /\ P (fst (s_merge_apply g ms)) /\ forall w, L (fst (s_merge_apply g ms)) w <-> L g w.
  Proof.
    induction ms as [|[m s] t IH]; intros g Hs [Hmg Hnd] HP; cbn [s_merge_apply].
    - cbn [fst]. split; [exact Hs|]. split; [exact HP | intros w; reflexivity].
    - pose proof (Hmg m s (or_introl eq_refl)) as Hms.
      destruct (merge_step_lang g m s Hs Hms) as [Eok _].
      destruct (Hstep g m s Hs Hms HP) as [HL HP1].
      destruct (merge_one_inv g m s Hs (mg_ne _ _ _ Hms) (mg_entry _ _ _ Hms)) as [Hs1 _].
      destruct (s_merge_one g m s) as [g1 r1] eqn:E1. cbn [fst snd] in *. subst r1.
      cbn [flat] in Hnd. inversion Hnd as [|? ? Hm_nin Hnd1]; subst. inversion Hnd1 as [|? ? Hs_nin Hnd2]; subst.
      destruct (IH g1 Hs1) as (K1 & K2 & K3); [|exact HP1|].
      { split; [|exact Hnd2]. intros a b Hin. destruct (in_flat a b t Hin) as [Ha Hb].
        replace g1 with (fst (s_merge_one g m s)) by (rewrite E1; reflexivity).
        apply mergeable_preserved; auto.
        - apply Hmg. right; exact Hin.
        - intros ->. apply Hm_nin. right; exact Ha.
        - intros ->. apply Hs_nin. exact Ha.
        - intros ->. apply Hm_nin. right; exact Hb.
        - intros ->. apply Hs_nin. exact Hb. }
      split; [exact K1|]. split; [exact K2|]. intros w. rewrite K3. apply HL.
  Qed.

  Lemma merge_loop_P fuel : forall g, sinv g -> P g ->
    P (fst (s_merge_loop fuel g)) /\ forall w, L (fst (s_merge_loop fuel g)) w <-> L g w.
  Proof.
    induction fuel as [|n IH]; intros g Hs HP; cbn [s_merge_loop]; [split; [exact HP | intros w; reflexivity]|].
    destruct (scan_spec g Hs (g_blocks g) [] [] (fun b H => H) (fun x H => match H with end)) as (ms & Esc & Hok & _).
    { split; [intros ? ? [] | constructor]. }
    rewrite Esc. destruct ms as [|p ms]; [split; [exact HP | intros w; reflexivity]|].
    destruct (merge_apply_P (p :: ms) g Hs Hok HP) as (K1 & K2 & K3).
    destruct (merge_apply_spec (p :: ms) g Hs Hok) as (Eok & _).
    destruct (s_merge_apply g (p :: ms)) as [g' r'] eqn:Ea. cbn [fst snd] in *. subst r'.
    destruct (IH g' K1 K2) as [J1 J2]. split; [exact J1|]. intros w. rewrite J2. apply K3.
  Qed.
End WholeP.

(* C15, exit clause: with a terminal exit block, merge preserves the words that lead from the entry to
   the end of the exit block (the exit follows the absorbing block when it is merged away), and the exit
   stays terminal *)
Theorem merge_clang g : sinv g -> exit_terminal g ->
  exit_terminal (fst (s_merge g)) /\ forall w, clang (fst (s_merge g)) w <-> clang g w.
Proof.
  intros Hs Ht. apply (merge_loop_P _ clang exit_terminal); [|exact Hs | exact Ht].
  intros g0 m s Hs0 Hmg Ht0. exact (merge_step_clang g0 m s Hs0 Hmg Ht0).
Qed.

(* the proviso is necessary: exit = block 0 with the single unguarded edge 0 -> 1; before the merge the
   empty word is complete, afterwards the only complete word is the instruction of block 1 *)
Definition cx_g : cfg :=
  mkcfg [mkblock 0 0 [] []; mkblock 1 1 [mkinstr 0 (ONop None) None] []] [mkedge 0 1 None] 2 (Some 0) (Some 0).
Example cx_before : clang cx_g [].
Proof. exists 0, 0, []. repeat split. apply sr_nil. Qed.
Example cx_merged : fst (s_merge cx_g) = mkcfg [mkblock 0 1 [mkinstr 0 (ONop None) None] []] [] 2 (Some 0) (Some 0).
Proof. reflexivity. Qed.
Example cx_after : ~ clang (fst (s_merge cx_g)) [].
Proof.
  rewrite cx_merged. intros (e & x & ops & He & Hx & Hops & Hr). cbn in He, Hx. injection He as <-. injection Hx as <-.
  cbn in Hops. injection Hops as <-. cbn [length] in Hr.
  remember (@nil label) as w eqn:Ew. remember (0, O) as a eqn:Ea. remember (0, 1%nat) as b eqn:Eb.
  destruct Hr as [s0 | s0 w1 s1 w2 s2 Hst Hrest]; [subst; discriminate|].
  subst s0. apply sstep_inv in Hst as [(ops & o & _ & _ & -> & _)|(ops & e & _ & _ & He & _)]; [discriminate Ew | destruct He].
Qed.
