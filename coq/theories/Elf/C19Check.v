(* Elf/C19Check.v -- per-case checker of property C19: fst = tie (model = observed),
   snd = oracle (observed satisfies the specification, computed from the parsed description only). *)
From Coq Require Import ZArith List Bool NArith String Ascii.
From Falcon Require Import Base.Res IL.Const Mem.Backing Mem.BackingSpec Mem.C16Check Elf.ElfModel.
Import ListNotations.
Local Open Scope Z_scope.

Record xelf := mkelf {
  x_machine : Z; x_big : bool; x_entry : Z; x_phdrs : list phdr; x_hex : string;
  x_dynsyms : list sym; x_syms : list sym; x_plt : list rel; x_users : list Z }.
Definition elf_of (x : xelf) : elfd :=
  mkelfd (x_machine x) (x_big x) (x_entry x) (x_phdrs x) (bytes_of_hex (x_hex x))
         (x_dynsyms x) (x_syms x) (x_plt x) (x_users x).

Record obs := mkobs {
  o_arch : string; o_big : bool;
  o_mem : res (list (Z * string * Z));
  o_fes : res (list (Z * option string));
  o_syms : res (list (Z * string));
  o_pe : res Z }.

Inductive case :=
| KOne (e : xelf) (base : Z) (r : res (obs * obs))          (* loaded at base 0 and at base *)
| KLink (m : xelf) (mr : list rel) (l : xelf) (lr : list rel) (r : res obs)
| KLinkI (m : xelf) (mr : list rel) (l : xelf) (lr : list rel) (r : res obs)     (* just_interpreter *)
| KLinkN (m : xelf) (mr : list rel) (libs : list (xelf * list rel)) (r : res obs)
| KLinkM (m : xelf) (mdy : list (Z * Z)) (mr : list rel) (l : xelf) (ldy : list (Z * Z)) (lr : list rel) (r : res obs).

(* ------------------------------------------------------------------ comparisons *)
Definition opt_eqb {A} (e : A -> A -> bool) (x y : option A) : bool :=
  match x, y with Some a, Some b => e a b | None, None => true | _, _ => false end.
Definition fe_eqb (x y : Z * option string) : bool := (fst x =? fst y) && opt_eqb String.eqb (snd x) (snd y).
Definition sy_eqb (x y : Z * string) : bool := (fst x =? fst y) && String.eqb (snd x) (snd y).
Definition mem_of (l : list (Z * string * Z)) : sections Z := layout_of l.

Definition obs_eqb (a b : obs) : bool :=
  String.eqb (o_arch a) (o_arch b) && Bool.eqb (o_big a) (o_big b) &&
  res_eqb (fun x y => list_eqb sec_eqb (mem_of x) (mem_of y)) (o_mem a) (o_mem b) &&
  res_eqb (list_eqb fe_eqb) (o_fes a) (o_fes b) &&
  res_eqb (list_eqb sy_eqb) (o_syms a) (o_syms b) &&
  res_eqb Z.eqb (o_pe a) (o_pe b).

(* ------------------------------------------------------------------ model side *)
Definition hex_of_bytes (l : list Z) : string :=
  fold_right (fun b acc => hex_acc 2 b acc) EmptyString l.
Definition unlayout (s : sections Z) : list (Z * string * Z) :=
  map (fun kv => (fst kv, hex_of_bytes (fst (snd kv)), snd (snd kv))) s.
Definition rmap' {A B} (f : A -> B) (r : res A) : res B :=
  match r with Ok a => Ok (f a) | Err e => Err e | Panic => Panic end.

Definition model_obs (a : arch) (e : elfd) (base : Z) : obs :=
  mkobs (arch_name a) (arch_big a) (rmap' unlayout (memory e base))
        (function_entries e base) (symbols e base) (program_entry e base).

Definition model_link (a : arch) (m : elfd) (mr : list rel) (l : elfd) (lr : list rel) : obs :=
  mkobs (arch_name a) (arch_big a) (rmap' unlayout (link2 m mr l lr))
        (x <- function_entries l LIB_BASE ;; y <- function_entries m 0 ;; Ok (x ++ y))
        (x <- symbols l LIB_BASE ;; y <- symbols m 0 ;; Ok (x ++ y))
        (program_entry m 0).

Definition libs_of (libs : list (xelf * list rel)) : list (elfd * list rel) := map (fun q => (elf_of (fst q), snd q)) libs.
(* bases of the libraries in DT_NEEDED order: 0x42000000, 0x44000000, ... *)
Fixpoint lib_bases (n : nat) (b : Z) : list Z := match n with O => [] | S n' => (b + LIB_STEP) :: lib_bases n' (b + LIB_STEP) end.
Fixpoint cat_res {A} (l : list (res (list A))) : res (list A) :=
  match l with [] => Ok [] | x :: t => a <- x ;; b <- cat_res t ;; Ok (a ++ b) end.
Definition model_link_n (a : arch) (m : elfd) (mr : list rel) (libs : list (elfd * list rel)) : obs :=
  let bs := lib_bases (List.length libs) LIB_BASE0 in
  mkobs (arch_name a) (arch_big a) (rmap' unlayout (linkn m mr libs))
        (cat_res (map (fun q => function_entries (fst (fst q)) (snd q)) (combine libs bs) ++ [function_entries m 0]))
        (cat_res (map (fun q => symbols (fst (fst q)) (snd q)) (combine libs bs) ++ [symbols m 0]))
        (program_entry m 0).

Definition model_link_i (a : arch) (m : elfd) (mr : list rel) (l : elfd) (lr : list rel) : obs :=
  mkobs (arch_name a) (arch_big a) (rmap' unlayout (link_interp m mr l lr))
        (x <- function_entries l LIB_BASE0 ;; y <- function_entries m 0 ;; Ok (x ++ y))
        (x <- symbols l LIB_BASE0 ;; y <- symbols m 0 ;; Ok (x ++ y))
        (program_entry m 0).

Definition model_link_m (a : arch) (m : elfd) (mdy : list (Z * Z)) (mr : list rel) (l : elfd) (ldy : list (Z * Z)) (lr : list rel) : obs :=
  mkobs (arch_name a) (arch_big a) (rmap' unlayout (link2m (e_big m) m mdy mr l ldy lr))
        (x <- function_entries l LIB_BASE ;; y <- function_entries m 0 ;; Ok (x ++ y))
        (x <- symbols l LIB_BASE ;; y <- symbols m 0 ;; Ok (x ++ y))
        (program_entry m 0).

(* component-wise comparison, for diagnosis: arch, endianness, memory, entries, symbols, program entry *)
Definition obs_parts (a b : obs) : list bool :=
  [String.eqb (o_arch a) (o_arch b); Bool.eqb (o_big a) (o_big b);
   res_eqb (fun x y => list_eqb sec_eqb (mem_of x) (mem_of y)) (o_mem a) (o_mem b);
   res_eqb (list_eqb fe_eqb) (o_fes a) (o_fes b);
   res_eqb (list_eqb sy_eqb) (o_syms a) (o_syms b);
   res_eqb Z.eqb (o_pe a) (o_pe b)].
Definition tie_parts (k : case) : list bool :=
  match k with
  | KOne x base (Ok (o0, ob)) =>
      match arch_of (x_machine x) (x_big x) with
      | Ok a => obs_parts (model_obs a (elf_of x) 0) o0 ++ obs_parts (model_obs a (elf_of x) base) ob
      | _ => []
      end
  | KLink xm mr xl lr (Ok o) =>
      match arch_of (x_machine xm) (x_big xm) with
      | Ok a => obs_parts (model_link a (elf_of xm) mr (elf_of xl) lr) o
      | _ => []
      end
  | KLinkM xm mdy mr xl ldy lr (Ok o) =>
      match arch_of (x_machine xm) (x_big xm) with
      | Ok a => obs_parts (model_link_m a (elf_of xm) mdy mr (elf_of xl) ldy lr) o
      | _ => []
      end
  | _ => []
  end.

Definition tie (k : case) : bool :=
  match k with
  | KOne x base r =>
      let e := elf_of x in
      match arch_of (e_machine e) (e_big e), r with
      | Ok a, Ok (o0, ob) => obs_eqb (model_obs a e 0) o0 && obs_eqb (model_obs a e base) ob
      | Err k1, Err k2 => err_eqb k1 k2
      | Panic, Panic => true
      | _, _ => false
      end
  | KLink xm mr xl lr r =>
      let m := elf_of xm in
      match arch_of (e_machine m) (e_big m), r with
      | Ok a, Ok o =>
          (* model_link's own memory may fail: then the observed load must have failed too (not Ok) *)
          obs_eqb (model_link a m mr (elf_of xl) lr) o
      | Ok a, Err k2 =>
          match link2 m mr (elf_of xl) lr with Err k1 => err_eqb k1 k2 | _ => false end
      | Ok a, Panic => match link2 m mr (elf_of xl) lr with Panic => true | _ => false end
      | _, _ => false
      end
  | KLinkI xm mr xl lr r =>
      let m := elf_of xm in
      match arch_of (e_machine m) (e_big m), r with
      | Ok a, Ok o => obs_eqb (model_link_i a m mr (elf_of xl) lr) o
      | Ok a, Err k2 => match link_interp m mr (elf_of xl) lr with Err k1 => err_eqb k1 k2 | _ => false end
      | Ok a, Panic => match link_interp m mr (elf_of xl) lr with Panic => true | _ => false end
      | _, _ => false
      end
  | KLinkN xm mr xlibs r =>
      let m := elf_of xm in
      match arch_of (e_machine m) (e_big m), r with
      | Ok a, Ok o => obs_eqb (model_link_n a m mr (libs_of xlibs)) o
      | Ok a, Err k2 => match linkn m mr (libs_of xlibs) with Err k1 => err_eqb k1 k2 | _ => false end
      | Ok a, Panic => match linkn m mr (libs_of xlibs) with Panic => true | _ => false end
      | _, _ => false
      end
  | KLinkM xm mdy mr xl ldy lr r =>
      let m := elf_of xm in
      match arch_of (e_machine m) (e_big m), r with
      | Ok a, Ok o => obs_eqb (model_link_m a m mdy mr (elf_of xl) ldy lr) o
      | Ok a, Err k2 => match link2m (e_big m) m mdy mr (elf_of xl) ldy lr with Err k1 => err_eqb k1 k2 | _ => false end
      | Ok a, Panic => match link2m (e_big m) m mdy mr (elf_of xl) ldy lr with Panic => true | _ => false end
      | _, _ => false
      end
  end.

(* ------------------------------------------------------------------ specification side *)
(* the architecture and endianness named in the header *)
Definition spec_arch (machine : Z) (big : bool) : option (string * bool) :=
  if machine =? 3 then (if big then None else Some ("x86"%string, false))
  else if machine =? 62 then (if big then None else Some ("amd64"%string, false))
  else if machine =? 8 then Some (if big then ("mips"%string, true) else ("mipsel"%string, false))
  else if machine =? 20 then (if big then Some ("ppc"%string, true) else None)
  else if machine =? 183 then Some (if big then ("aarch64eb"%string, true) else ("aarch64"%string, false))
  else None.

Definition loads (e : elfd) : list phdr := filter (fun ph => p_type ph =? 1) (e_phdrs e).

(* well-formed image at this base: segments inside the file, filesz <= memsz, ends below 2^64, pairwise disjoint *)
Definition seg_ok (e : elfd) (base : Z) (ph : phdr) : bool :=
  (0 <=? p_offset ph) && (p_offset ph + p_filesz ph <=? len (e_file e)) && (0 <=? p_filesz ph) &&
  (p_filesz ph <=? p_memsz ph) && (0 <=? p_vaddr ph) && (p_vaddr ph + base + p_memsz ph <? U64).
Fixpoint pairwise {A} (f : A -> A -> bool) (l : list A) : bool :=
  match l with [] => true | x :: t => forallb (f x) t && pairwise f t end.
Definition seg_disjoint (a b : phdr) : bool :=
  (p_vaddr a + p_memsz a <=? p_vaddr b) || (p_vaddr b + p_memsz b <=? p_vaddr a).
Definition image_wf (e : elfd) (base : Z) : bool :=
  forallb (seg_ok e base) (loads e) && pairwise seg_disjoint (loads e).

(* R/W/X of the segment (PF_R = 4, PF_W = 2, PF_X = 1) as MemoryPermissions (READ = 1, WRITE = 2, EXECUTE = 4) *)
Definition spec_perms (fl : Z) : Z := ((fl / 4) mod 2) * 1 + ((fl / 2) mod 2) * 2 + (fl mod 2) * 4.

(* the cell the image has at offset off of segment ph: file bytes, then zero fill *)
Definition seg_cell (e : elfd) (ph : phdr) (off : Z) : option (Z * Z) :=
  if off <? p_filesz ph
  then match nth_z (e_file e) (p_offset ph + off) with Some b => Some (b, spec_perms (p_flags ph)) | None => None end
  else Some (0, spec_perms (p_flags ph)).

(* the image of the description at base (later program headers win, as in Elf/ElfProofs.image_at) *)
Fixpoint image_at_b (file : list Z) (base : Z) (phs : list phdr) (x : Z) : option (Z * Z) :=
  match phs with
  | [] => None
  | ph :: t =>
      match image_at_b file base t x with
      | Some r => Some r
      | None =>
          if (p_type ph =? 1) && (p_vaddr ph + base <=? x) && (x <? p_vaddr ph + base + p_memsz ph)
          then (if x - (p_vaddr ph + base) <? p_filesz ph
                then match nth_z file (p_offset ph + (x - (p_vaddr ph + base))) with
                     | Some b => Some (b, spec_perms (p_flags ph)) | None => None end
                else Some (0, spec_perms (p_flags ph)))
          else None
      end
  end.

Definition cell_eqb (x y : option (Z * Z)) : bool :=
  opt_eqb (fun a b => (fst a =? fst b) && (snd a =? snd b)) x y.

Fixpoint seg_matches (m : amap Z) (e : elfd) (base : Z) (ph : phdr) (off : Z) (k : nat) : bool :=
  match k with
  | O => true
  | S k' => cell_eqb (m (p_vaddr ph + base + off)) (seg_cell e ph off) && seg_matches m e base ph (off + 1) k'
  end.

Definition amap_of (l : sections Z) : amap Z :=
  write_all empty_map (map (fun kv => (fst kv, fst (snd kv), snd (snd kv))) l).
Definition total_len (l : sections Z) : Z := fold_right (fun kv acc => len (fst (snd kv)) + acc) 0 l.

(* memory_image: exactly the segments (file bytes, zero fill, permissions) and nothing else *)
Definition image_ok (e : elfd) (base : Z) (l : sections Z) : bool :=
  disjoint_from 0 l &&
  forallb (fun ph => seg_matches (amap_of l) e base ph 0 (Z.to_nat (p_memsz ph))) (loads e) &&
  (total_len l =? fold_right (fun ph acc => p_memsz ph + acc) 0 (loads e)).

(* entries_are: addresses of defined function symbols, the program entry, user entries (as a set) *)
Fixpoint zinsert (x : Z) (l : list Z) : list Z :=
  match l with [] => [x] | y :: t => if x <? y then x :: y :: t else if x =? y then y :: t else y :: zinsert x t end.
Definition zset (l : list Z) : list Z := fold_right zinsert [] l.
Definition defined_function (s : sym) : bool := ((s_info s) mod 16 =? 2) && negb (s_shndx s =? 0) && negb (s_value s =? 0).
Definition spec_entries (e : elfd) : list Z :=
  zset (map s_value (filter defined_function (e_dynsyms e ++ e_syms e)) ++ [e_entry e] ++ e_users e).

(* rebase_uniform: everything reported at base B is what is reported at base 0, B higher *)
Definition shifted_obs (b : Z) (o0 ob : obs) : bool :=
  match o_mem o0, o_mem ob with
  | Ok l0, Ok lb => list_eqb sec_eqb (map (fun kv => (fst kv + b, snd kv)) (mem_of l0)) (mem_of lb)
  | _, _ => false
  end &&
  match o_fes o0, o_fes ob with
  | Ok l0, Ok lb => list_eqb fe_eqb (map (fun f => (fst f + b, snd f)) l0) lb
  | _, _ => false
  end &&
  match o_syms o0, o_syms ob with
  | Ok l0, Ok lb => list_eqb sy_eqb (map (fun f => (fst f + b, snd f)) l0) lb
  | _, _ => false
  end &&
  match o_pe o0, o_pe ob with Ok p0, Ok pb => pb =? p0 + b | _, _ => false end.

Definition arch_ok (e : elfd) (o : obs) : bool :=
  match spec_arch (e_machine e) (e_big e) with
  | Some (n, b) => String.eqb (o_arch o) n && Bool.eqb (o_big o) b
  | None => true
  end.

(* little-endian 32-bit word at x of an observed layout *)
Definition word_at (m : amap Z) (x : Z) : option Z := read32 false m x.

(* ---- MIPS: the once-rebased address of the symbol a GOT entry / a R_MIPS_REL32 names *)
Definition is_def_global (t : sym) : bool :=
  negb (s_shndx t =? 0) && negb (s_value t =? 0) && (((s_info t) / 16 =? 1) || ((s_info t) / 16 =? 2)).
(* where a name is defined: main (base 0) first, then the library *)
Definition def_addr (main lib : elfd) (n : string) : option Z :=
  match find (fun t => String.eqb (s_name t) n && is_def_global t) (e_dynsyms main) with
  | Some t => Some (s_value t)
  | None => match find (fun t => String.eqb (s_name t) n && is_def_global t) (e_dynsyms lib) with
            | Some t => Some (s_value t + LIB_BASE)
            | None => None
            end
  end.
Definition sym_addr (main lib : elfd) (B : Z) (s : sym) : option Z :=
  if s_shndx s =? 0 then def_addr main lib (s_name s) else Some (s_value s + B).

Fixpoint got_ok (be : bool) (mem : amap Z) (main lib : elfd) (dynsyms : list sym) (B addr i : Z) (k : nat) : bool :=
  match k with
  | O => true
  | S k' =>
      match nth_z dynsyms i with
      | Some s => match sym_addr main lib B s with
                  | Some v => opt_eqb Z.eqb (read32 be mem addr) (Some (v mod 4294967296))
                  | None => true
                  end
      | None => true
      end && got_ok be mem main lib dynsyms B (addr + 4) (i + 1) k'
  end.

(* one object of a MIPS link: every global GOT entry holds the once-rebased address of its symbol; every
   R_MIPS_REL32 that names a symbol holds addend + that address *)
Definition mips_obj_ok (be : bool) (mem : amap Z) (main lib e : elfd) (dyns : list (Z * Z)) (rels : list rel) (B : Z) : bool :=
  match dyn_get dyns 1879048202, dyn_get dyns 1879048211, dyn_get dyns 1879048209, dyn_get dyns 3 with
  | Some lg, Some gs, Some sn, Some pltgot =>
      got_ok be mem main lib (e_dynsyms e) B (pltgot + B + lg * 4) gs (Z.to_nat (sn - gs)) &&
      forallb (fun q =>
                 if (r_type q =? 3) && negb (r_sym q =? 0) then
                   match nth_z (e_dynsyms e) (r_sym q) with
                   | Some s =>
                       match sym_addr main lib B s,
                             read32 be (fun x => image_at_b (e_file e) B (e_phdrs e) x) (r_offset q + B) with
                       | Some v, Some a => opt_eqb Z.eqb (read32 be mem (r_offset q + B)) (Some ((a + v) mod 4294967296))
                       | _, _ => true
                       end
                   | None => true
                   end
                 else true) rels
  | _, _, _, _ => true
  end.

(* the once-rebased address of the first library (DT_NEEDED order) that defines the name *)
Fixpoint find_def (n : string) (libs : list (elfd * Z)) : option Z :=
  match libs with
  | [] => None
  | (l, b) :: t =>
      match find (fun t0 => String.eqb (s_name t0) n && negb (s_shndx t0 =? 0) && negb (s_value t0 =? 0)) (e_dynsyms l) with
      | Some t0 => Some (s_value t0 + b)
      | None => find_def n t
      end
  end.

Definition oracle (k : case) : bool :=
  match k with
  | KOne x base r =>
      let e := elf_of x in
      match spec_arch (e_machine e) (e_big e), r with
      | None, _ => true                             (* not one of the supported machine/endianness pairs *)
      | Some _, Ok (o0, ob) =>
          if image_wf e 0 && image_wf e base then
            arch_ok e o0 && arch_ok e ob &&
            match o_mem o0, o_mem ob with
            | Ok l0, Ok lb => image_ok e 0 (mem_of l0) && image_ok e base (mem_of lb)
            | _, _ => false
            end &&
            match o_fes o0 with Ok l0 => list_eqb Z.eqb (zset (map fst l0)) (spec_entries e) | _ => false end &&
            shifted_obs base o0 ob
          else arch_ok e o0 && arch_ok e ob
      | Some _, _ => false                          (* a supported, parsable file loads *)
      end
  | KLink xm mr xl lr r =>
      let m := elf_of xm in
      let l := elf_of xl in
      match r with
      | Ok o =>
          match o_mem o with
          | Ok lay =>
              (* reloc_once: every symbolic relocation slot of main holds (library symbol value + library base) *)
              forallb (fun q =>
                         if (r_type q =? 1) || (r_type q =? 6) || (r_type q =? 7) then
                           match nth_z (e_dynsyms m) (r_sym q) with
                           | Some s =>
                               match find (fun t => String.eqb (s_name t) (s_name s) && negb (s_shndx t =? 0) && negb (s_value t =? 0)) (e_dynsyms l) with
                               | Some t => opt_eqb Z.eqb (word_at (amap_of (mem_of lay)) (r_offset q)) (Some ((s_value t + LIB_BASE) mod 4294967296))
                               | None => true
                               end
                           | None => true
                           end
                         else true) (mr ++ e_pltrelocs m)
          | _ => false
          end
      | _ => true
      end
  | KLinkI xm mr xl lr r =>
      let m := elf_of xm in
      match r with
      | Ok o =>
          match o_mem o with
          | Ok lay =>
              forallb (fun q =>
                         if (r_type q =? 1) || (r_type q =? 6) || (r_type q =? 7) then
                           match nth_z (e_dynsyms m) (r_sym q) with
                           | Some s =>
                               match find_def (s_name s) [(elf_of xl, LIB_BASE0)] with
                               | Some v => opt_eqb Z.eqb (word_at (amap_of (mem_of lay)) (r_offset q)) (Some (v mod 4294967296))
                               | None => true
                               end
                           | None => true
                           end
                         else true) (mr ++ e_pltrelocs m)
          | _ => false
          end
      | _ => true
      end
  | KLinkN xm mr xlibs r =>
      let m := elf_of xm in
      let libs := combine (map fst (libs_of xlibs)) (lib_bases (List.length xlibs) LIB_BASE0) in
      match r with
      | Ok o =>
          match o_mem o with
          | Ok lay =>
              (* reloc_once: every symbolic slot of main holds (value + base) of the first library defining the symbol *)
              forallb (fun q =>
                         if (r_type q =? 1) || (r_type q =? 6) || (r_type q =? 7) then
                           match nth_z (e_dynsyms m) (r_sym q) with
                           | Some s =>
                               match find_def (s_name s) libs with
                               | Some v => opt_eqb Z.eqb (word_at (amap_of (mem_of lay)) (r_offset q)) (Some (v mod 4294967296))
                               | None => true
                               end
                           | None => true
                           end
                         else true) (mr ++ e_pltrelocs m)
          | _ => false
          end
      | _ => true
      end
  | KLinkM xm mdy mr xl ldy lr r =>
      let m := elf_of xm in
      let l := elf_of xl in
      match r with
      | Ok o =>
          match o_mem o with
          | Ok lay => mips_obj_ok (e_big m) (amap_of (mem_of lay)) m l m mdy mr 0
                      && mips_obj_ok (e_big m) (amap_of (mem_of lay)) m l l ldy lr LIB_BASE
          | _ => false
          end
      | _ => true
      end
  end.

Definition ck (k : case) : bool * bool := (tie k, oracle k).
