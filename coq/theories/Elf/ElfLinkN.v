(* Elf/ElfLinkN.v -- the link with k DT_NEEDED libraries (linkn), from hypotheses on the descriptions only:
   the link succeeds, the memory is the union of the objects' images at bases 0, 0x42000000, 0x44000000, ...,
   every relocation slot of main holds the registered address of its symbol, and the registered address is the
   FIRST definition in the order main, library 1, library 2, ... (st_value + the base of that object, once). *)
From Coq Require Import ZArith List Bool Lia String.
From Falcon Require Import Base.Res IL.Const Mem.Backing Mem.BackingSpec Mem.BackingProofs Mem.BackingFree
     Elf.ElfModel Elf.ElfProofs Elf.ElfLink.
Import ListNotations.
Local Open Scope Z_scope.

(* ------------------------------------------------------------------ symbol table: first definition wins *)
Lemma st_get_snoc (t : symtab) m a n :
  st_get (t ++ [(m, a)]) n = match st_get t n with Some x => Some x | None => if String.eqb m n then Some a else None end.
Proof.
  induction t as [|[k w] t IH]; cbn [app st_get]; [destruct (String.eqb m n); reflexivity|].
  destruct (String.eqb k n); [reflexivity|apply IH].
Qed.

Definition first_def (n : string) (l : list symbol) : option Z :=
  option_map fst (find (fun q => String.eqb (snd q) n) l).

Lemma st_add_first l : forall t n,
  st_get (st_add t l) n = match st_get t n with Some v => Some v | None => first_def n l end.
Proof.
  induction l as [|[a m] r IH]; intros t n; cbn [st_add].
  - unfold first_def. cbn. destruct (st_get t n); reflexivity.
  - unfold first_def in *. cbn [find snd].
    destruct (st_get t m) eqn:G.
    + rewrite IH. destruct (st_get t n) eqn:Gn; [reflexivity|].
      destruct (String.eqb_spec m n); [subst; congruence|reflexivity].
    + rewrite IH, st_get_snoc. destruct (st_get t n) eqn:Gn; [reflexivity|].
      destruct (String.eqb_spec m n); reflexivity.
Qed.

Lemma st_add_app l1 : forall t l2, st_add t (l1 ++ l2) = st_add (st_add t l1) l2.
Proof.
  induction l1 as [|[a m] r IH]; intros t l2; [reflexivity|]. cbn [app st_add].
  destruct (st_get t m); apply IH.
Qed.

Lemma exported_ok B l : 0 <= B -> Forall (fun s => val_ok B (s_value s)) l -> exists r, exported B l = Ok r.
Proof.
  intros HB F. induction l as [|s t IH]; [exists []; reflexivity|].
  inversion F as [|? ? Hs Ft]; subst. destruct Hs as (V0 & V1). destruct (IH Ft) as (r & E). cbn [exported].
  destruct ((s_value s =? 0) || (s_shndx s =? 0)); [exists r; assumption|].
  destruct ((s_info s / 16 =? 1) || (s_info s / 16 =? 2)); [|exists r; assumption].
  rewrite uadd_ok by lia. cbn [bind]. rewrite E. cbn [bind]. eexists. reflexivity.
Qed.

(* ------------------------------------------------------------------ where the objects are *)
Definition in_obj (o : elfd * Z) (y : Z) : Prop :=
  exists ph, In ph (e_phdrs (fst o)) /\ p_type ph = 1 /\ p_vaddr ph + snd o <= y < p_vaddr ph + snd o + p_memsz ph.
Definition occupied (objs : list (elfd * Z)) (y : Z) : Prop := exists o, In o objs /\ in_obj o y.

(* the exports of the libraries, in DT_NEEDED order, each at its base *)
Fixpoint libs_exports (libs : list (elfd * list rel)) (base : Z) : res (list symbol) :=
  match libs with
  | [] => Ok []
  | (l, _) :: t => ex <- exported (base + LIB_STEP) (e_dynsyms l) ;; r <- libs_exports t (base + LIB_STEP) ;; Ok (ex ++ r)
  end.

(* the images of the libraries over what lies under them *)
Fixpoint libs_img (libs : list (elfd * list rel)) (base : Z) (under : amap Z) (y : Z) : option (Z * Z) :=
  match libs with
  | [] => under y
  | (l, _) :: t =>
      libs_img t (base + LIB_STEP)
               (fun z => match image_at (e_file l) (base + LIB_STEP) (e_phdrs l) z with Some r => Some r | None => under z end) y
  end.

Lemma libs_img_ext libs : forall base (u u' : amap Z), (forall z, u z = u' z) -> forall y, libs_img libs base u y = libs_img libs base u' y.
Proof.
  induction libs as [|[l lr] t IH]; intros base u u' H y; cbn [libs_img]; [apply H|].
  apply IH. intros z. rewrite H. reflexivity.
Qed.

(* well-formed libraries (description level): the i-th library at base + i * 0x02000000 has well-formed, pairwise apart
   PT_LOAD headers, no relocations of its own, exportable symbol values, and lies clear of every object before it *)
Fixpoint libs_wf (done : list (elfd * Z)) (libs : list (elfd * list rel)) (base : Z) : Prop :=
  match libs with
  | [] => True
  | (l, lr) :: t =>
      let B := base + LIB_STEP in
      0 <= B /\ B < U64 /\
      Forall (seg_wf (e_file l) B) (e_phdrs l) /\ ForallOrdPairs segs_apart (e_phdrs l) /\
      lr ++ e_pltrelocs l = [] /\
      Forall (fun s => val_ok B (s_value s)) (e_dynsyms l) /\
      (forall y, in_obj (l, B) y -> ~ occupied done y) /\
      libs_wf (done ++ [(l, B)]) t B
  end.

Lemma occupied_app_l a b y : occupied a y -> occupied (a ++ b) y.
Proof. intros (o & I & H). exists o. split; [apply in_or_app; left; assumption|assumption]. Qed.

Lemma load_libs_norel libs : forall base m st done,
  wf 0 m -> (forall y, abs m y <> None -> occupied done y) -> libs_wf done libs base ->
  exists m' exs, load_libs libs base m st = Ok (m', st_add st exs) /\ libs_exports libs base = Ok exs /\
                 wf 0 m' /\ (forall x, In x m -> In x m') /\ (forall y, abs m' y = libs_img libs base (abs m) y).
Proof.
  induction libs as [|[l lr] t IH]; intros base m st done W OCC LW.
  - exists m, []. cbn. repeat split; auto.
  - cbn [libs_wf] in LW. destruct LW as (B0 & BU & SW & SA & NR & VO & CLEAR & LWt).
    cbn [load_libs libs_exports libs_img]. rewrite uadd_ok by assumption. cbn [bind].
    set (B := base + LIB_STEP) in *.
    destruct (memory_image_thm l B SW) as (lm & Elm & Wlm & Alm). rewrite Elm. cbn [bind].
    rewrite copy_sections_eq.
    assert (FREE : forall y, abs lm y <> None -> abs m y = None).
    { intros y Hy. destruct (abs m y) as [r|] eqn:Am; [|reflexivity]. exfalso.
      rewrite Alm in Hy. destruct (image_at (e_file l) B (e_phdrs l) y) eqn:Il; [|congruence].
      apply image_at_range in Il. apply (CLEAR y); [exact Il|]. apply OCC. congruence. }
    destruct (copy_all_free lm 0 m Wlm ltac:(lia) W FREE) as (m1 & Em1 & Wm1 & P1 & _ & A1).
    rewrite Em1. cbn [bind].
    destruct (exported_ok B (e_dynsyms l) B0 VO) as (ex & Eex). rewrite Eex. cbn [bind].
    rewrite NR. cbn [relocs_x86 bind].
    assert (OCC1 : forall y, abs m1 y <> None -> occupied (done ++ [(l, B)]) y).
    { intros y Hy. rewrite A1 in Hy. destruct (abs lm y) eqn:Al.
      - rewrite Alm in Al. apply image_at_range in Al. exists (l, B). split; [apply in_or_app; right; left; reflexivity|exact Al].
      - apply occupied_app_l, OCC. assumption. }
    destruct (IH B m1 (st_add st ex) (done ++ [(l, B)]) Wm1 OCC1 LWt) as (m' & exs & El & Ee & W' & P' & A').
    exists m', (ex ++ exs). split; [rewrite El, st_add_app; reflexivity|]. split; [rewrite Ee; reflexivity|].
    split; [assumption|]. split; [auto|].
    intros y. rewrite A'. apply libs_img_ext. intros z. rewrite A1, Alm. reflexivity.
Qed.

(* ------------------------------------------------------------------ the whole link *)
(* the link with the first library base b0 + 0x02000000 (b0 = 0x40000000 for DT_NEEDED, 0x3e000000 for the interpreter) *)
Definition linkn_at (b0 : Z) (main : elfd) (mrels : list rel) (libs : list (elfd * list rel)) : res (sections Z) :=
  mm <- memory main 0 ;;
  m1 <- copy_sections [] mm ;;
  ex1 <- exported 0 (e_dynsyms main) ;;
  r <- load_libs libs b0 m1 (st_add [] ex1) ;;
  relocs_x86 0 (e_dynsyms main) (snd r) (mrels ++ e_pltrelocs main) (fst r).

Record linkn_wf_at (b0 : Z) (main : elfd) (mrels : list rel) (libs : list (elfd * list rel)) : Prop := {
  ln_main : Forall (seg_wf (e_file main) 0) (e_phdrs main);
  ln_main_apart : ForallOrdPairs segs_apart (e_phdrs main);
  ln_main_vals : Forall (fun s => val_ok 0 (s_value s)) (e_dynsyms main);
  ln_libs : libs_wf [(main, 0)] libs b0;
  ln_slots_apart : ForallOrdPairs apart (mrels ++ e_pltrelocs main);
  ln_slots_in : Forall (fun r => 0 <= r_offset r /\ in_load main (r_offset r)) (mrels ++ e_pltrelocs main) }.

(* [U] k libraries: the link succeeds; every symbolic relocation slot of main reads the registered address of its
   symbol, which is the first definition in the order main, library 1, ..., library k (link_symbol_first below);
   outside main's slots the memory is exactly the union of the images: main at 0, library i at
   0x40000000 + i * 0x02000000 (rebase_uniform for every object: image_shift) *)
Theorem linkn_at_reloc_once b0 main mrels libs ex1 exs :
  linkn_wf_at b0 main mrels libs ->
  exported 0 (e_dynsyms main) = Ok ex1 -> libs_exports libs b0 = Ok exs ->
  Forall symbolic (mrels ++ e_pltrelocs main) ->
  Forall (fun r => exists v, resolves (e_dynsyms main) (st_add [] (ex1 ++ exs)) r v) (mrels ++ e_pltrelocs main) ->
  exists m', linkn_at b0 main mrels libs = Ok m' /\ wf 0 m' /\
     (forall r v, In r (mrels ++ e_pltrelocs main) -> resolves (e_dynsyms main) (st_add [] (ex1 ++ exs)) r v ->
                  read32 false (abs m') (r_offset r + 0) = Some (v mod 4294967296)) /\
     (forall y, (forall r, In r (mrels ++ e_pltrelocs main) -> ~ (r_offset r + 0 <= y < r_offset r + 0 + 4)) ->
                abs m' y = libs_img libs b0 (image_at (e_file main) 0 (e_phdrs main)) y).
Proof.
  intros [Lm Am Vm LW SA SI] E1 Ee FS FR.
  destruct (load_segs_in (e_file main) 0 (e_phdrs main) [] Lm Am I ltac:(reflexivity)) as (mm & Emm & Wmm & _ & Imm).
  destruct (memory_image_thm main 0 Lm) as (mm' & Emm' & _ & Amm). unfold memory in Emm'. rewrite Emm in Emm'. inversion Emm'; subst mm'.
  destruct (copy_all_free mm 0 [] Wmm ltac:(lia) I ltac:(reflexivity)) as (m1 & Em1 & Wm1 & _ & I1 & A1).
  assert (OCC : forall y, abs m1 y <> None -> occupied [(main, 0)] y).
  { intros y Hy. rewrite A1 in Hy. cbn [abs] in Hy. unfold empty_map in Hy.
    destruct (abs mm y) eqn:Am0; [|congruence]. rewrite Amm in Am0. apply image_at_range in Am0.
    exists (main, 0). split; [left; reflexivity|exact Am0]. }
  destruct (load_libs_norel libs b0 m1 (st_add [] ex1) [(main, 0)] Wm1 OCC LW) as (m2 & exs' & El & Ee' & Wm2 & P2 & A2).
  rewrite Ee in Ee'. inversion Ee'; subst exs'. rewrite <- st_add_app in El.
  assert (SLOTS : Forall (fun r => 0 <= r_offset r /\ slot_ok m2 (r_offset r + 0)) (mrels ++ e_pltrelocs main)).
  { eapply Forall_impl; [|exact SI]. cbn. intros r (O0 & ph & Iph & T & V1 & V2). split; [assumption|].
    assert (M : 0 < p_memsz ph) by lia.
    destruct (Imm ph Iph T M) as (bytes & Ib & Lb).
    exists (p_vaddr ph + 0), bytes, (perms_of_flags (p_flags ph)). split; [|lia].
    eapply In_find_sec; [exact Wm2| |lia]. apply P2, I1. exact Ib. }
  destruct (relocs_x86_once 0 (e_dynsyms main) (st_add [] (ex1 ++ exs)) (mrels ++ e_pltrelocs main) m2 Wm2 ltac:(lia) FS SA SLOTS FR)
    as (m' & E' & W' & _ & RD & FRM).
  exists m'. split; [|split; [assumption|split; [exact RD|]]].
  - unfold linkn_at, memory. rewrite Emm. cbn [bind]. rewrite copy_sections_eq, Em1. cbn [bind]. rewrite E1. cbn [bind].
    rewrite El. cbn [bind fst snd]. exact E'.
  - intros y Hy. rewrite (FRM y Hy), A2. apply libs_img_ext. intros z. rewrite A1. cbn [abs]. unfold empty_map.
    rewrite Amm. destruct (image_at (e_file main) 0 (e_phdrs main) z); reflexivity.
Qed.

Definition linkn_wf := linkn_wf_at LIB_BASE0.

Theorem linkn_reloc_once main mrels libs ex1 exs :
  linkn_wf main mrels libs ->
  exported 0 (e_dynsyms main) = Ok ex1 -> libs_exports libs LIB_BASE0 = Ok exs ->
  Forall symbolic (mrels ++ e_pltrelocs main) ->
  Forall (fun r => exists v, resolves (e_dynsyms main) (st_add [] (ex1 ++ exs)) r v) (mrels ++ e_pltrelocs main) ->
  exists m', linkn main mrels libs = Ok m' /\ wf 0 m' /\
     (forall r v, In r (mrels ++ e_pltrelocs main) -> resolves (e_dynsyms main) (st_add [] (ex1 ++ exs)) r v ->
                  read32 false (abs m') (r_offset r + 0) = Some (v mod 4294967296)) /\
     (forall y, (forall r, In r (mrels ++ e_pltrelocs main) -> ~ (r_offset r + 0 <= y < r_offset r + 0 + 4)) ->
                abs m' y = libs_img libs LIB_BASE0 (image_at (e_file main) 0 (e_phdrs main)) y).
Proof. exact (linkn_at_reloc_once LIB_BASE0 main mrels libs ex1 exs). Qed.

(* ------------------------------------------------------------------ just_interpreter *)
Definition INTERP_B0 : Z := LIB_BASE0 - LIB_STEP.

Lemma link_interp_eq main mrels interp irels :
  link_interp main mrels interp irels = linkn_at INTERP_B0 main mrels [(interp, irels)].
Proof.
  unfold link_interp, linkn_at. destruct (memory main 0); cbn [bind]; try reflexivity.
  destruct (copy_sections [] a); cbn [bind]; try reflexivity.
  destruct (exported 0 (e_dynsyms main)); cbn [bind]; try reflexivity.
  cbn [load_libs]. change (uadd INTERP_B0 LIB_STEP) with (Ok LIB_BASE0). cbn [bind].
  destruct (memory interp LIB_BASE0); cbn [bind]; try reflexivity.
  destruct (copy_sections a0 a2); cbn [bind]; try reflexivity.
  destruct (exported LIB_BASE0 (e_dynsyms interp)); cbn [bind]; try reflexivity.
  destruct (relocs_x86 LIB_BASE0 (e_dynsyms interp) _ _ a3); cbn [bind fst snd]; reflexivity.
Qed.

(* [U] just_interpreter: the link succeeds, main's slots read the registered addresses, and outside those slots the
   memory is exactly main's image at 0 plus the PT_INTERP object's image at 0x40000000 -- nothing of DT_NEEDED *)
Theorem link_interp_image main mrels interp irels ex1 ex2 :
  linkn_wf_at INTERP_B0 main mrels [(interp, irels)] ->
  exported 0 (e_dynsyms main) = Ok ex1 -> exported LIB_BASE0 (e_dynsyms interp) = Ok ex2 ->
  Forall symbolic (mrels ++ e_pltrelocs main) ->
  Forall (fun r => exists v, resolves (e_dynsyms main) (st_add [] (ex1 ++ ex2)) r v) (mrels ++ e_pltrelocs main) ->
  exists m', link_interp main mrels interp irels = Ok m' /\ wf 0 m' /\
     (forall r v, In r (mrels ++ e_pltrelocs main) -> resolves (e_dynsyms main) (st_add [] (ex1 ++ ex2)) r v ->
                  read32 false (abs m') (r_offset r + 0) = Some (v mod 4294967296)) /\
     (forall y, (forall r, In r (mrels ++ e_pltrelocs main) -> ~ (r_offset r + 0 <= y < r_offset r + 0 + 4)) ->
                abs m' y = match image_at (e_file interp) LIB_BASE0 (e_phdrs interp) y with
                           | Some c => Some c
                           | None => image_at (e_file main) 0 (e_phdrs main) y
                           end).
Proof.
  intros LW E1 E2 FS FR.
  assert (Ee : libs_exports [(interp, irels)] INTERP_B0 = Ok (ex2 ++ [])).
  { cbn [libs_exports]. change (INTERP_B0 + LIB_STEP) with LIB_BASE0. rewrite E2. reflexivity. }
  rewrite app_nil_r in Ee.
  destruct (linkn_at_reloc_once INTERP_B0 main mrels [(interp, irels)] ex1 ex2 LW E1 Ee FS FR) as (m' & E' & W' & RD & IM).
  exists m'. rewrite link_interp_eq. split; [assumption|]. split; [assumption|]. split; [assumption|].
  intros y Hy. rewrite (IM y Hy). reflexivity.
Qed.

(* the registered address is the first definition in the order main, library 1, ..., library k *)
Theorem link_symbol_first (ex1 exs : list symbol) n :
  st_get (st_add [] (ex1 ++ exs)) n = first_def n (ex1 ++ exs).
Proof. rewrite st_add_first. reflexivity. Qed.

(* every export of library i is its st_value plus ITS base, once *)
Lemma libs_exports_once libs : forall base exs, libs_exports libs base = Ok exs ->
  forall a n, In (a, n) exs ->
    exists l lr k s, nth_error libs k = Some (l, lr) /\ In s (e_dynsyms l) /\ n = s_name s /\
                     a = s_value s + (base + LIB_STEP * (Z.of_nat k + 1)) /\ s_value s <> 0 /\ s_shndx s <> 0.
Proof.
  induction libs as [|[l lr] t IH]; intros base exs E a n H.
  - cbn in E. inversion E; subst. destruct H.
  - cbn [libs_exports] in E.
    destruct (exported (base + LIB_STEP) (e_dynsyms l)) as [ex| |] eqn:Ex; cbn [bind] in E; try discriminate.
    destruct (libs_exports t (base + LIB_STEP)) as [r| |] eqn:Er; cbn [bind] in E; try discriminate.
    inversion E; subst exs. apply in_app_or in H. destruct H as [H|H].
    + destruct (exported_once _ _ _ Ex _ _ H) as (s & I0 & N & A & V & Sh).
      exists l, lr, 0%nat, s. cbn [nth_error]. repeat split; auto; lia.
    + destruct (IH _ _ Er _ _ H) as (l' & lr' & k & s & Nk & I0 & N & A & V & Sh).
      exists l', lr', (S k), s. cbn [nth_error]. repeat split; auto; lia.
Qed.

(* ------------------------------------------------------------------ R_386_RELATIVE at description level *)
(* rel_val with the pre-relocation memory replaced by the image of the link *)
Definition rel_val_at (B : Z) (dynsyms : list sym) (st : symtab) (img : amap Z) (r : rel) (w : Z) : Prop :=
  (symbolic r /\ exists v, resolves dynsyms st r v /\ w = v mod 4294967296) \/
  (r_type r = 8 /\ exists v0, read32 false img (r_offset r + B) = Some v0 /\
                              w = B mod 4294967296 + v0 /\ 0 <= w < 4294967296).

Lemma rel_val_at_iff B dynsyms st (img : amap Z) (m : sections Z) r w :
  (forall y, abs m y = img y) -> (rel_val_at B dynsyms st img r w <-> rel_val B dynsyms st m r w).
Proof.
  intros H. unfold rel_val_at, rel_val. split; (intros [S|(T & v0 & R & E)]; [left; exact S|right; split; [assumption|]; exists v0; split; [|assumption]]).
  - rewrite <- R. apply read32_ext. intros; apply H.
  - rewrite <- R. apply read32_ext. intros; symmetry; apply H.
Qed.

(* [U] the k-library link with R_386_32 / GLOB_DAT / JMP_SLOT / RELATIVE relocations in main, description level: every
   slot reads the word its relocation prescribes, the addend of a RELATIVE relocation being the word of the image *)
Theorem linkn_at_reloc_all b0 main mrels libs ex1 exs :
  linkn_wf_at b0 main mrels libs ->
  exported 0 (e_dynsyms main) = Ok ex1 -> libs_exports libs b0 = Ok exs ->
  let img := libs_img libs b0 (image_at (e_file main) 0 (e_phdrs main)) in
  let st := st_add [] (ex1 ++ exs) in
  Forall (fun r => exists w, rel_val_at 0 (e_dynsyms main) st img r w) (mrels ++ e_pltrelocs main) ->
  exists m', linkn_at b0 main mrels libs = Ok m' /\ wf 0 m' /\
     (forall r w, In r (mrels ++ e_pltrelocs main) -> rel_val_at 0 (e_dynsyms main) st img r w ->
                  read32 false (abs m') (r_offset r + 0) = Some w) /\
     (forall y, (forall r, In r (mrels ++ e_pltrelocs main) -> ~ (r_offset r + 0 <= y < r_offset r + 0 + 4)) -> abs m' y = img y).
Proof.
  intros [Lm Am Vm LW SA SI] E1 Ee img st FR.
  destruct (load_segs_in (e_file main) 0 (e_phdrs main) [] Lm Am I ltac:(reflexivity)) as (mm & Emm & Wmm & _ & Imm).
  destruct (memory_image_thm main 0 Lm) as (mm' & Emm' & _ & Amm). unfold memory in Emm'. rewrite Emm in Emm'. inversion Emm'; subst mm'.
  destruct (copy_all_free mm 0 [] Wmm ltac:(lia) I ltac:(reflexivity)) as (m1 & Em1 & Wm1 & _ & I1 & A1).
  assert (OCC : forall y, abs m1 y <> None -> occupied [(main, 0)] y).
  { intros y Hy. rewrite A1 in Hy. cbn [abs] in Hy. unfold empty_map in Hy.
    destruct (abs mm y) eqn:Am0; [|congruence]. rewrite Amm in Am0. apply image_at_range in Am0.
    exists (main, 0). split; [left; reflexivity|exact Am0]. }
  destruct (load_libs_norel libs b0 m1 (st_add [] ex1) [(main, 0)] Wm1 OCC LW) as (m2 & exs' & El & Ee' & Wm2 & P2 & A2).
  rewrite Ee in Ee'. inversion Ee'; subst exs'. rewrite <- st_add_app in El.
  assert (IMG : forall y, abs m2 y = img y).
  { intros y. rewrite A2. unfold img. apply libs_img_ext. intros z. rewrite A1. cbn [abs]. unfold empty_map.
    rewrite Amm. destruct (image_at (e_file main) 0 (e_phdrs main) z); reflexivity. }
  assert (SLOTS : Forall (fun r => 0 <= r_offset r /\ slot_ok m2 (r_offset r + 0)) (mrels ++ e_pltrelocs main)).
  { eapply Forall_impl; [|exact SI]. cbn. intros r (O0 & ph & Iph & T & V1 & V2). split; [assumption|].
    assert (M : 0 < p_memsz ph) by lia.
    destruct (Imm ph Iph T M) as (bytes & Ib & Lb).
    exists (p_vaddr ph + 0), bytes, (perms_of_flags (p_flags ph)). split; [|lia].
    eapply In_find_sec; [exact Wm2| |lia]. apply P2, I1. exact Ib. }
  assert (FR2 : Forall (fun r => exists w, rel_val 0 (e_dynsyms main) st m2 r w) (mrels ++ e_pltrelocs main)).
  { eapply Forall_impl; [|exact FR]. cbn. intros r (w & Hw). exists w. apply (rel_val_at_iff 0 _ st img m2 r w IMG). exact Hw. }
  destruct (relocs_x86_all 0 (e_dynsyms main) st (mrels ++ e_pltrelocs main) m2 Wm2 ltac:(lia) SA SLOTS FR2)
    as (m' & E' & W' & _ & RD & FRM).
  exists m'. split; [|split; [assumption|split]].
  - unfold linkn_at, memory. rewrite Emm. cbn [bind]. rewrite copy_sections_eq, Em1. cbn [bind]. rewrite E1. cbn [bind].
    rewrite El. cbn [bind fst snd]. exact E'.
  - intros r w Hr Hv. apply RD; [assumption|]. apply (rel_val_at_iff 0 _ st img m2 r w IMG). exact Hv.
  - intros y Hy. rewrite (FRM y Hy). apply IMG.
Qed.
