(* Elf/ElfProofs.v -- specification of the loaded image (from the property text) and proofs that the
   model of Elf/ElfModel.v meets it; uses the C16 refinement (Mem/BackingProofs.v) for set_memory. *)
From Coq Require Import ZArith List Bool Lia String.
From Falcon Require Import Base.Res IL.Const Mem.Backing Mem.BackingSpec Mem.BackingProofs Mem.BackingShift Elf.ElfModel.
Import ListNotations.
Local Open Scope Z_scope.

(* ------------------------------------------------------------------ specification *)
(* R/W/X of the segment (PF_R = 4, PF_W = 2, PF_X = 1) as MemoryPermissions (READ = 1, WRITE = 2, EXECUTE = 4) *)
Definition spec_perms (fl : Z) : Z := ((fl / 4) mod 2) * 1 + ((fl / 2) mod 2) * 2 + (fl mod 2) * 4.

(* the cell of segment ph at offset off: file bytes up to p_filesz, then zero fill *)
Definition seg_cell (file : list Z) (ph : phdr) (off : Z) : option (Z * Z) :=
  if off <? p_filesz ph
  then match nth_z file (p_offset ph + off) with Some b => Some (b, spec_perms (p_flags ph)) | None => None end
  else Some (0, spec_perms (p_flags ph)).

(* the image at base: each PT_LOAD segment occupies [p_vaddr + base, p_vaddr + base + p_memsz); nothing else
   is mapped (for overlapping segments -- not well-formed -- the later program header wins) *)
Fixpoint image_at (file : list Z) (base : Z) (phs : list phdr) (x : Z) : option (Z * Z) :=
  match phs with
  | [] => None
  | ph :: t =>
      match image_at file base t x with
      | Some r => Some r
      | None =>
          if (p_type ph =? 1) && (p_vaddr ph + base <=? x) && (x <? p_vaddr ph + base + p_memsz ph)
          then seg_cell file ph (x - (p_vaddr ph + base))
          else None
      end
  end.

(* a well-formed loadable segment at this base *)
Definition seg_wf (file : list Z) (base : Z) (ph : phdr) : Prop :=
  p_type ph = 1 ->
  0 <= p_offset ph /\ 0 <= p_filesz ph /\ p_offset ph + p_filesz ph <= len file /\ len file < U64 /\
  p_filesz ph <= p_memsz ph /\ 0 <= p_vaddr ph /\ 0 <= base /\ p_vaddr ph + base + p_memsz ph < U64 /\ 0 <= p_flags ph.

(* ------------------------------------------------------------------ architecture *)
Theorem arch_of_header_thm machine big :
  match arch_of machine big with
  | Ok a =>
      (machine = 3 /\ arch_name a = "x86"%string) \/ (machine = 62 /\ arch_name a = "amd64"%string) \/
      (machine = 8 /\ arch_name a = (if big then "mips" else "mipsel")%string /\ arch_big a = big) \/
      (machine = 20 /\ big = true /\ arch_name a = "ppc"%string /\ arch_big a = true) \/
      (machine = 183 /\ arch_name a = (if big then "aarch64eb" else "aarch64")%string /\ arch_big a = big)
  | Err _ => (machine = 20 /\ big = false) \/ ~ In machine [3; 8; 20; 62; 183]
  | Panic => False
  end.
Proof.
  unfold arch_of.
  destruct (Z.eqb_spec machine 3); [subst; left; auto|].
  destruct (Z.eqb_spec machine 8); [subst; right; right; left; destruct big; auto|].
  destruct (Z.eqb_spec machine 20); [subst; destruct big; [right; right; right; left; auto|left; auto]|].
  destruct (Z.eqb_spec machine 62); [subst; right; left; auto|].
  destruct (Z.eqb_spec machine 183); [subst; right; right; right; right; destruct big; auto|].
  right. cbn. intuition congruence.
Qed.

(* the little-endian-only machines report little endian *)
Lemma arch_big_x86 big a : arch_of 3 big = Ok a -> arch_big a = false.
Proof. cbn. intros H; inversion H; reflexivity. Qed.
Lemma arch_big_amd64 big a : arch_of 62 big = Ok a -> arch_big a = false.
Proof. cbn. intros H; inversion H; reflexivity. Qed.

(* ------------------------------------------------------------------ memory image *)
Lemma perms_spec fl : 0 <= fl -> perms_of_flags fl = spec_perms fl.
Proof.
  intros H. unfold perms_of_flags, spec_perms.
  assert (T : forall n, 0 <= n -> (if Z.testbit fl n then 1 else 0) = (fl / 2 ^ n) mod 2).
  { intros n Hn. destruct (Z.testbit fl n) eqn:E.
    - apply Z.testbit_true in E; [|assumption]. lia.
    - pose proof (Z.testbit_true fl n Hn) as T. pose proof (Z.mod_pos_bound (fl / 2 ^ n) 2 ltac:(lia)).
      destruct (Z.eq_dec ((fl / 2 ^ n) mod 2) 1) as [E1|E1]; [apply T in E1; congruence|lia]. }
  pose proof (T 2 ltac:(lia)) as T2. pose proof (T 1 ltac:(lia)) as T1. pose proof (T 0 ltac:(lia)) as T0.
  change (2 ^ 2) with 4 in T2. change (2 ^ 1) with 2 in T1. change (2 ^ 0) with 1 in T0. rewrite Z.div_1_r in T0.
  destruct (Z.testbit fl 2), (Z.testbit fl 1), (Z.testbit fl 0); lia.
Qed.

Lemma nth_error_repeat {A} (a : A) k i : (i < k)%nat -> nth_error (repeat a k) i = Some a.
Proof. revert i; induction k; intros i H; [lia|]. destruct i; cbn; [reflexivity|apply IHk; lia]. Qed.

Lemma seg_bytes_spec file base ph : p_type ph = 1 -> seg_wf file base ph ->
  exists bytes, seg_bytes file ph = Ok bytes /\ len bytes = p_memsz ph /\
    forall off, 0 <= off < p_memsz ph ->
      exists b, nth_error bytes (Z.to_nat off) = Some b /\ seg_cell file ph off = Some (b, spec_perms (p_flags ph)).
Proof.
  intros T W. destruct (W T) as (O & F & FL & FU & FM & V & B & E & FLG).
  unfold seg_bytes. rewrite uadd_ok by lia.
  cbn [bind]. unfold slice.
  destruct (Z.leb_spec (p_offset ph) (p_offset ph + p_filesz ph)); [|lia].
  destruct (Z.leb_spec (p_offset ph + p_filesz ph) (len file)); [|lia]. cbn [andb].
  set (raw := firstn_z (p_offset ph + p_filesz ph - p_offset ph) (skipn_z (p_offset ph) file)).
  assert (Lr : len raw = p_filesz ph).
  { unfold raw. rewrite len_firstn_z; [lia|]. rewrite len_skipn_z by lia. lia. }
  assert (Nr : forall off, 0 <= off < p_filesz ph ->
                 nth_error raw (Z.to_nat off) = nth_error file (Z.to_nat (p_offset ph + off))).
  { intros off Ho. unfold raw, firstn_z, skipn_z. rewrite nth_error_firstn'.
    destruct (Nat.ltb_spec (Z.to_nat off) (Z.to_nat (p_offset ph + p_filesz ph - p_offset ph))); [|lia].
    rewrite nth_error_skipn'. f_equal. lia. }
  assert (CELL : forall bytes, len bytes = p_memsz ph ->
            (forall off, 0 <= off < p_filesz ph -> nth_error bytes (Z.to_nat off) = nth_error raw (Z.to_nat off)) ->
            (forall off, p_filesz ph <= off < p_memsz ph -> nth_error bytes (Z.to_nat off) = Some 0) ->
            forall off, 0 <= off < p_memsz ph ->
            exists b, nth_error bytes (Z.to_nat off) = Some b /\ seg_cell file ph off = Some (b, spec_perms (p_flags ph))).
  { intros bytes Lb N1 N2 off Ho. unfold seg_cell. destruct (Z.ltb_spec off (p_filesz ph)).
    - rewrite N1, Nr by lia. unfold nth_z. destruct (Z.ltb_spec (p_offset ph + off) 0); [lia|].
      destruct (nth_error file (Z.to_nat (p_offset ph + off))) eqn:En; [eauto|].
      apply nth_error_None in En. unfold len in *. lia.
    - exists 0. split; [apply N2; lia|reflexivity]. }
  destruct (Z.eqb_spec (len raw) (p_memsz ph)) as [Eq|Ne].
  - exists raw. split; [reflexivity|]. split; [assumption|]. apply CELL; [assumption|reflexivity|intros; lia].
  - unfold usub64. destruct (Z.ltb_spec (p_memsz ph) (p_filesz ph)); [lia|]. cbn [bind].
    exists (raw ++ repeat 0 (Z.to_nat (p_memsz ph - p_filesz ph))). split; [reflexivity|]. split.
    + rewrite len_app. unfold len at 2. rewrite repeat_length. lia.
    + apply CELL.
      * rewrite len_app. unfold len at 2. rewrite repeat_length. lia.
      * intros off Ho. apply nth_error_app1. unfold len in Lr. lia.
      * intros off Ho. rewrite nth_error_app2 by (unfold len in Lr; lia). apply nth_error_repeat. unfold len in Lr. lia.
Qed.

Lemma load_segs_spec file base phs : forall m,
  Forall (seg_wf file base) phs -> wf 0 m ->
  exists m', load_segs base file phs m = Ok m' /\ wf 0 m' /\
             forall x, abs m' x = match image_at file base phs x with Some r => Some r | None => abs m x end.
Proof.
  induction phs as [|ph t IH]; intros m F W.
  - exists m. split; [reflexivity|]. split; [assumption|reflexivity].
  - inversion F as [|? ? Hph Ft]; subst. cbn [load_segs image_at].
    destruct (Z.eqb_spec (p_type ph) 1) as [T|T]; cbn [andb].
    + destruct (seg_bytes_spec file base ph T Hph) as (bytes & Eb & Lb & Nb).
      destruct (Hph T) as (O & Fz & FL & FU & FM & V & B & E & FLG).
      rewrite Eb. cbn [bind]. rewrite uadd_ok by lia. cbn [bind].
      destruct (set_memory_spec m (p_vaddr ph + base) bytes (perms_of_flags (p_flags ph)) W ltac:(lia) ltac:(lia))
        as (m1 & E1 & W1 & A1).
      rewrite E1. cbn [bind]. destruct (IH m1 Ft W1) as (m' & E' & W' & A').
      exists m'. split; [assumption|]. split; [assumption|]. intros x. rewrite A'.
      destruct (image_at file base t x); [reflexivity|]. rewrite A1. unfold overwrite.
      destruct (Z.leb_spec (p_vaddr ph + base) x); destruct (Z.ltb_spec x (p_vaddr ph + base + p_memsz ph)); cbn [andb].
      * destruct (Nb (x - (p_vaddr ph + base)) ltac:(lia)) as (b & N & C). rewrite C.
        rewrite region_at_slow_eq. unfold region_at_slow. destruct (Z.leb_spec (p_vaddr ph + base) x); [|lia]. rewrite N.
        rewrite perms_spec by assumption. reflexivity.
      * assert (N : region_at (p_vaddr ph + base) bytes (perms_of_flags (p_flags ph)) x = None)
          by (apply region_at_none; lia). rewrite N. reflexivity.
      * assert (N : region_at (p_vaddr ph + base) bytes (perms_of_flags (p_flags ph)) x = None)
          by (apply region_at_none; lia). rewrite N. reflexivity.
      * assert (N : region_at (p_vaddr ph + base) bytes (perms_of_flags (p_flags ph)) x = None)
          by (apply region_at_none; lia). rewrite N. reflexivity.
    + destruct (IH m Ft W) as (m' & E' & W' & A'). exists m'. split; [assumption|]. split; [assumption|].
      intros x. rewrite A'. destruct (image_at file base t x); reflexivity.
Qed.

(* [U] the loaded memory denotes exactly the image, and its sections are sorted, disjoint, non-empty *)
Theorem memory_image_thm e base :
  Forall (seg_wf (e_file e) base) (e_phdrs e) ->
  exists m, memory e base = Ok m /\ wf 0 m /\ forall x, abs m x = image_at (e_file e) base (e_phdrs e) x.
Proof.
  intros F. destruct (load_segs_spec (e_file e) base (e_phdrs e) [] F I) as (m & E & W & A).
  exists m. split; [exact E|]. split; [assumption|]. intros x. rewrite A.
  destruct (image_at (e_file e) base (e_phdrs e) x); reflexivity.
Qed.

(* the image at base B is the image at base 0, B higher *)
Lemma image_shift file base phs x : image_at file base phs (x + base) = image_at file 0 phs x.
Proof.
  induction phs as [|ph t IH]; [reflexivity|]. cbn [image_at]. rewrite IH.
  destruct (image_at file 0 t x); [reflexivity|].
  replace (p_vaddr ph + 0) with (p_vaddr ph) by lia.
  replace (x + base - (p_vaddr ph + base)) with (x - p_vaddr ph) by lia.
  destruct (p_type ph =? 1); cbn [andb]; [|reflexivity].
  destruct (Z.leb_spec (p_vaddr ph + base) (x + base)); destruct (Z.leb_spec (p_vaddr ph) x); try lia; cbn [andb]; [|reflexivity].
  destruct (Z.ltb_spec (x + base) (p_vaddr ph + base + p_memsz ph)); destruct (Z.ltb_spec x (p_vaddr ph + p_memsz ph)); try lia; reflexivity.
Qed.

Theorem memory_rebase_thm e base :
  Forall (seg_wf (e_file e) base) (e_phdrs e) -> Forall (seg_wf (e_file e) 0) (e_phdrs e) ->
  exists m0 mb, memory e 0 = Ok m0 /\ memory e base = Ok mb /\ forall x, abs mb (x + base) = abs m0 x.
Proof.
  intros Fb F0. destruct (memory_image_thm e base Fb) as (mb & Eb & _ & Ab).
  destruct (memory_image_thm e 0 F0) as (m0 & E0 & _ & A0).
  exists m0, mb. split; [assumption|]. split; [assumption|]. intros x. rewrite Ab, A0. apply image_shift.
Qed.

(* ------------------------------------------------------------------ uniform rebasing of entries and symbols *)
Definition shift_fe (B : Z) (m : list (Z * fentry)) : list (Z * fentry) :=
  map (fun kv => (fst kv, (fst (snd kv) + B, snd (snd kv)))) m.
Definition shift1 (B : Z) (f : fentry) : fentry := (fst f + B, snd f).
Definition shiftS (B : Z) (s : symbol) : symbol := (fst s + B, snd s).

Lemma fe_insert_shift B m k a n : fe_insert (shift_fe B m) k (a + B, n) = shift_fe B (fe_insert m k (a, n)).
Proof.
  induction m as [|[a0 [v0 n0]] t IH]; [reflexivity|]. cbn [shift_fe map fe_insert fst snd].
  destruct (k <? a0); [reflexivity|]. destruct (k =? a0); [reflexivity|]. cbn [map fst snd]. f_equal. apply IH.
Qed.

Lemma fe_mem_shift B m k : fe_mem (shift_fe B m) k = fe_mem m k.
Proof. induction m as [|[a0 [v0 n0]] t IH]; [reflexivity|]. cbn [shift_fe map fe_mem fst]. f_equal. apply IH. Qed.

Definition val_ok (B v : Z) : Prop := 0 <= v /\ v + B < U64.

Lemma fe_syms_rel B l : 0 <= B -> Forall (fun s => val_ok B (s_value s)) l -> forall m,
  exists r, fe_syms 0 l m = Ok r /\ fe_syms B l (shift_fe B m) = Ok (shift_fe B r).
Proof.
  intros HB F. induction l as [|s t IH]; intros m; [exists m; split; reflexivity|].
  inversion F as [|? ? Hs Ft]; subst. destruct Hs as (V0 & V1). cbn [fe_syms].
  destruct (is_function s && negb (s_value s =? 0) && (0 <? s_shndx s)); [|apply IH; assumption].
  rewrite !uadd_ok by lia. cbn [bind]. rewrite Z.add_0_r.
  destruct (IH Ft (fe_insert m (s_value s) (s_value s, Some (s_name s)))) as (r & E0 & EB).
  exists r. split; [assumption|]. rewrite fe_insert_shift. assumption.
Qed.

Lemma fe_users_rel B l : 0 <= B -> Forall (val_ok B) l -> forall m,
  exists r, fe_users 0 l m = Ok r /\ fe_users B l (shift_fe B m) = Ok (shift_fe B r).
Proof.
  intros HB F. induction l as [|u t IH]; intros m; [exists m; split; reflexivity|].
  inversion F as [|? ? Hs Ft]; subst. destruct Hs as (V0 & V1). cbn [fe_users]. rewrite fe_mem_shift.
  destruct (fe_mem m u); [apply IH; assumption|].
  rewrite !uadd_ok by lia. cbn [bind]. rewrite Z.add_0_r.
  destruct (IH Ft (fe_insert m u (u, Some ("user_function_" ++ hex_of u)%string))) as (r & E0 & EB).
  exists r. split; [assumption|]. rewrite fe_insert_shift. assumption.
Qed.

(* every address the object mentions stays a u64 after rebasing *)
Definition rebase_ok (e : elfd) (B : Z) : Prop :=
  0 <= B /\ val_ok B (e_entry e) /\ Forall (val_ok B) (e_users e) /\
  Forall (fun s => val_ok B (s_value s)) (e_dynsyms e) /\ Forall (fun s => val_ok B (s_value s)) (e_syms e) /\
  Forall (fun r => val_ok B (r_offset r)) (e_pltrelocs e).

Theorem entries_rebase_thm e B : rebase_ok e B ->
  exists l0, function_entries e 0 = Ok l0 /\ function_entries e B = Ok (map (shift1 B) l0).
Proof.
  intros (HB & (E0 & E1) & FU & FD & FS & _).
  destruct (fe_syms_rel B (e_dynsyms e) HB FD []) as (m1 & A1 & B1). change (shift_fe B []) with (@nil (Z * fentry)) in B1.
  destruct (fe_syms_rel B (e_syms e) HB FS m1) as (m2 & A2 & B2).
  assert (S3 : exists m3, (if fe_mem m2 (e_entry e) then Ok m2 else a <- uadd (e_entry e) 0;; Ok (fe_insert m2 (e_entry e) (a, None))) = Ok m3 /\
                          (if fe_mem (shift_fe B m2) (e_entry e) then Ok (shift_fe B m2) else a <- uadd (e_entry e) B;; Ok (fe_insert (shift_fe B m2) (e_entry e) (a, None))) = Ok (shift_fe B m3)).
  { rewrite fe_mem_shift. destruct (fe_mem m2 (e_entry e)); [exists m2; split; reflexivity|].
    rewrite !uadd_ok by lia. cbn [bind]. rewrite Z.add_0_r. eexists. split; [reflexivity|]. rewrite fe_insert_shift. reflexivity. }
  destruct S3 as (m3 & A3 & B3).
  destruct (fe_users_rel B (e_users e) HB FU m3) as (m4 & A4 & B4).
  exists (map snd m4). split.
  - unfold function_entries. rewrite A1. cbn [bind]. rewrite A2. cbn [bind]. rewrite A3. cbn [bind]. rewrite A4. reflexivity.
  - unfold function_entries. rewrite B1. cbn [bind]. rewrite B2. cbn [bind]. rewrite B3. cbn [bind]. rewrite B4. cbn [bind].
    unfold shift_fe. rewrite !map_map. reflexivity.
Qed.

Theorem program_entry_rebase_thm e B : rebase_ok e B ->
  program_entry e 0 = Ok (e_entry e) /\ program_entry e B = Ok (e_entry e + B).
Proof.
  intros (HB & (E0 & E1) & _). unfold program_entry. rewrite !uadd_ok by lia. rewrite Z.add_0_r. split; reflexivity.
Qed.

Lemma sym_cmp_shift B a b : sym_cmp (shiftS B a) (shiftS B b) = sym_cmp a b.
Proof.
  unfold sym_cmp, shiftS. cbn [fst snd].
  assert (E : (fst a + B ?= fst b + B) = (fst a ?= fst b)).
  { destruct (Z.compare_spec (fst a) (fst b)); [apply Z.compare_eq_iff|apply Z.compare_lt_iff|apply Z.compare_gt_iff]; lia. }
  rewrite E. reflexivity.
Qed.

Lemma sorted_insert_shift B x l : sorted_insert (shiftS B x) (map (shiftS B) l) = map (shiftS B) (sorted_insert x l).
Proof.
  induction l as [|y t IH]; [reflexivity|]. cbn [map sorted_insert]. unfold sym_leb. rewrite sym_cmp_shift.
  destruct (sym_cmp x y); cbn [map]; try reflexivity. f_equal. apply IH.
Qed.

Lemma sort_shift B l : sort_syms (map (shiftS B) l) = map (shiftS B) (sort_syms l).
Proof.
  induction l as [|x t IH]; [reflexivity|]. cbn [map sort_syms fold_right].
  change (fold_right sorted_insert [] (map (shiftS B) t)) with (sort_syms (map (shiftS B) t)).
  rewrite IH. apply sorted_insert_shift.
Qed.

Lemma dedup_shift B l : dedup (map (shiftS B) l) = map (shiftS B) (dedup l).
Proof.
  induction l as [|x t IH]; [reflexivity|]. destruct t as [|y t']; [reflexivity|].
  cbn [map dedup] in *. unfold sym_eqb. rewrite sym_cmp_shift.
  destruct (sym_cmp x y); [exact IH|cbn [map]; f_equal; exact IH..].
Qed.

Lemma sym_list_rel B l : 0 <= B -> Forall (fun s => val_ok B (s_value s)) l ->
  exists r, sym_list 0 l = Ok r /\ sym_list B l = Ok (map (shiftS B) r).
Proof.
  intros HB F. induction l as [|s t IH]; [exists []; split; reflexivity|].
  inversion F as [|? ? Hs Ft]; subst. destruct Hs as (V0 & V1). destruct (IH Ft) as (r & A & Bq). cbn [sym_list].
  destruct (s_value s =? 0); [exists r; split; assumption|].
  rewrite !uadd_ok by lia. cbn [bind]. rewrite A, Bq. cbn [bind]. rewrite Z.add_0_r.
  eexists. split; reflexivity.
Qed.

Lemma plt_list_rel B ds l : 0 <= B -> Forall (fun r => val_ok B (r_offset r)) l ->
  exists r, plt_list 0 ds l = Ok r /\ plt_list B ds l = Ok (map (shiftS B) r).
Proof.
  intros HB F. induction l as [|q t IH]; [exists []; split; reflexivity|].
  inversion F as [|? ? Hs Ft]; subst. destruct Hs as (V0 & V1). destruct (IH Ft) as (r & A & Bq). cbn [plt_list].
  destruct (nth_sym ds (r_sym q)); [|exists r; split; assumption].
  rewrite !uadd_ok by lia. cbn [bind]. rewrite A, Bq. cbn [bind]. rewrite Z.add_0_r.
  eexists. split; reflexivity.
Qed.

Theorem symbols_rebase_thm e B : rebase_ok e B ->
  exists l0, symbols e 0 = Ok l0 /\ symbols e B = Ok (map (shiftS B) l0).
Proof.
  intros (HB & _ & _ & FD & FS & FP).
  destruct (sym_list_rel B (e_dynsyms e) HB FD) as (a & A0 & AB).
  destruct (sym_list_rel B (e_syms e) HB FS) as (b & B0 & BB).
  destruct (plt_list_rel B (e_dynsyms e) (e_pltrelocs e) HB FP) as (c & C0 & CB).
  exists (dedup (sort_syms (a ++ b ++ c))). split.
  - unfold symbols. rewrite A0, B0, C0. reflexivity.
  - unfold symbols. rewrite AB, BB, CB. cbn [bind].
    rewrite <- !map_app, sort_shift, dedup_shift. reflexivity.
Qed.

(* ------------------------------------------------------------------ which entries *)
Definition defined_function (s : sym) : Prop := is_function s = true /\ s_value s <> 0 /\ 0 < s_shndx s.

Definition keys (m : list (Z * fentry)) : list Z := map fst m.
Definition keyed (m : list (Z * fentry)) : Prop := Forall (fun kv => fst (snd kv) = fst kv) m.

Lemma keys_insert m k v x : In x (keys (fe_insert m k v)) <-> x = k \/ In x (keys m).
Proof.
  induction m as [|[a w] t IH]; cbn [fe_insert keys map In fst]; [intuition|].
  destruct (Z.ltb_spec k a); [cbn [map In fst]; intuition|].
  destruct (Z.eqb_spec k a); [subst; cbn [map In fst]; intuition|].
  cbn [map In fst]. unfold keys in IH. rewrite IH. intuition.
Qed.

Lemma keyed_insert m k n : keyed m -> keyed (fe_insert m k (k, n)).
Proof.
  intros K. induction m as [|[a w] t IH]; cbn [fe_insert]; [repeat constructor|].
  inversion K as [|? ? Ha Kt]; subst.
  destruct (k <? a); [repeat constructor; assumption|].
  destruct (k =? a); [constructor; [reflexivity|assumption]|]. constructor; [assumption|apply IH; assumption].
Qed.

Lemma fe_mem_keys m k : fe_mem m k = true <-> In k (keys m).
Proof.
  induction m as [|[a w] t IH]; cbn [fe_mem keys map In fst]; [split; [discriminate|intros []]|].
  rewrite orb_true_iff, IH. destruct (Z.eqb_spec a k); intuition (try congruence).
Qed.

Lemma fe_syms_keys l : Forall (fun s => val_ok 0 (s_value s)) l -> forall m r,
  fe_syms 0 l m = Ok r -> keyed m ->
  keyed r /\ forall x, In x (keys r) <-> In x (keys m) \/ exists s, In s l /\ defined_function s /\ s_value s = x.
Proof.
  intros F. induction l as [|s t IH]; intros m r E K.
  - cbn in E. inversion E; subst. split; [assumption|]. intros x. split; [auto|intros [H|(s & [] & _)]; assumption].
  - inversion F as [|? ? Hs Ft]; subst. destruct Hs as (V0 & V1). cbn [fe_syms] in E.
    destruct (is_function s && negb (s_value s =? 0) && (0 <? s_shndx s)) eqn:C.
    + rewrite uadd_ok in E by lia. cbn [bind] in E. rewrite Z.add_0_r in E.
      destruct (IH Ft _ _ E (keyed_insert m (s_value s) _ K)) as (Kr & Hr). split; [assumption|].
      apply andb_true_iff in C. destruct C as (C1 & C3). apply andb_true_iff in C1. destruct C1 as (C1 & C2).
      apply negb_true_iff in C2. apply Z.eqb_neq in C2. apply Z.ltb_lt in C3.
      intros x. rewrite Hr, keys_insert. split.
      * intros [[H|H]|(s' & I' & D')]; [right; exists s; subst; repeat split; auto; left; reflexivity|auto|].
        right. exists s'. split; [right; assumption|assumption].
      * intros [H|(s' & [I'|I'] & D' & V')]; [auto| |].
        -- subst s'. left. left. symmetry; assumption.
        -- right. exists s'. auto.
    + destruct (IH Ft _ _ E K) as (Kr & Hr). split; [assumption|]. intros x. rewrite Hr. split.
      * intros [H|(s' & I' & D')]; [auto|]. right. exists s'. split; [right; assumption|assumption].
      * intros [H|(s' & [I'|I'] & (D1 & D2 & D3) & V')]; [auto| |right; exists s'; repeat split; auto].
        subst s'. exfalso. rewrite D1 in C. cbn [andb] in C.
        apply andb_false_iff in C. destruct C as [C|C].
        -- apply negb_false_iff in C. apply Z.eqb_eq in C. contradiction.
        -- apply Z.ltb_ge in C. lia.
Qed.

Lemma fe_users_keys l : Forall (val_ok 0) l -> forall m r,
  fe_users 0 l m = Ok r -> keyed m -> keyed r /\ forall x, In x (keys r) <-> In x (keys m) \/ In x l.
Proof.
  intros F. induction l as [|u t IH]; intros m r E K.
  - cbn in E. inversion E; subst. split; [assumption|]. intros x. cbn [In]. tauto.
  - inversion F as [|? ? Hs Ft]; subst. destruct Hs as (V0 & V1). cbn [fe_users] in E.
    destruct (fe_mem m u) eqn:M.
    + destruct (IH Ft _ _ E K) as (Kr & Hr). split; [assumption|]. intros x. rewrite Hr. cbn [In].
      apply fe_mem_keys in M. split; [tauto|]. intros [H|[H|H]]; [auto|subst; auto|auto].
    + rewrite uadd_ok in E by lia. cbn [bind] in E. rewrite Z.add_0_r in E.
      destruct (IH Ft _ _ E (keyed_insert m u _ K)) as (Kr & Hr). split; [assumption|].
      intros x. rewrite Hr, keys_insert. cbn [In]. intuition.
Qed.

(* [U] the function entries (at base 0; rebase_uniform_entries moves them) are exactly the defined function
   symbols of .dynsym and .symtab, the program entry, and the user-supplied entries *)
Theorem entries_are_thm e l : rebase_ok e 0 -> function_entries e 0 = Ok l ->
  forall a, In a (map fst l) <->
            (exists s, In s (e_dynsyms e ++ e_syms e) /\ defined_function s /\ s_value s = a) \/
            a = e_entry e \/ In a (e_users e).
Proof.
  intros (HB & (E0 & E1) & FU & FD & FS & _) E a. unfold function_entries in E.
  destruct (fe_syms 0 (e_dynsyms e) []) as [m1| |] eqn:A1; try discriminate. cbn [bind] in E.
  destruct (fe_syms 0 (e_syms e) m1) as [m2| |] eqn:A2; try discriminate. cbn [bind] in E.
  destruct (fe_syms_keys _ FD _ _ A1 (Forall_nil _)) as (K1 & H1).
  destruct (fe_syms_keys _ FS _ _ A2 K1) as (K2 & H2).
  assert (S3 : exists m3, (if fe_mem m2 (e_entry e) then Ok m2 else a <- uadd (e_entry e) 0;; Ok (fe_insert m2 (e_entry e) (a, None))) = Ok m3 /\
                          keyed m3 /\ forall x, In x (keys m3) <-> x = e_entry e \/ In x (keys m2)).
  { destruct (fe_mem m2 (e_entry e)) eqn:M.
    - exists m2. split; [reflexivity|]. split; [assumption|]. apply fe_mem_keys in M. intros x. split; [auto|]. intros [H|H]; [subst|]; assumption.
    - rewrite uadd_ok by lia. cbn [bind]. rewrite Z.add_0_r. eexists. split; [reflexivity|]. split; [apply keyed_insert; assumption|].
      intros x. apply keys_insert. }
  destruct S3 as (m3 & A3 & K3 & H3). rewrite A3 in E. cbn [bind] in E.
  destruct (fe_users 0 (e_users e) m3) as [m4| |] eqn:A4; try discriminate. cbn [bind] in E. inversion E; subst l.
  destruct (fe_users_keys _ FU _ _ A4 K3) as (K4 & H4).
  assert (EQ : map fst (map snd m4) = keys m4).
  { clear - K4. induction m4 as [|[k [ad n]] t IH]; [reflexivity|]. inversion K4; subst. cbn in *. f_equal; auto. }
  rewrite EQ, H4, H3, H2, H1. cbn [keys map In]. split.
  - intros [[H|[[[]|(s & I1 & D)]|(s & I2 & D)]]|H]; auto.
    + left. exists s. split; [apply in_or_app; left; assumption|assumption].
    + left. exists s. split; [apply in_or_app; right; assumption|assumption].
  - intros [(s & I0 & D)|[H|H]]; auto. apply in_app_or in I0. destruct I0 as [I0|I0].
    + left. right. left. right. exists s. auto.
    + left. right. right. exists s. auto.
Qed.

(* ------------------------------------------------------------------ linker: what gets registered *)
(* exported symbols are reported once-rebased ... *)
Lemma exported_once B l : forall r, exported B l = Ok r ->
  forall a n, In (a, n) r -> exists s, In s l /\ n = s_name s /\ a = s_value s + B /\ s_value s <> 0 /\ s_shndx s <> 0.
Proof.
  induction l as [|s t IH]; intros r E a n H.
  - cbn in E. inversion E; subst. destruct H.
  - cbn [exported] in E.
    destruct (Z.eqb_spec (s_value s) 0) as [V|V]; cbn [orb] in E.
    { destruct (IH _ E _ _ H) as (s' & I' & R). exists s'. split; [right; assumption|assumption]. }
    destruct (Z.eqb_spec (s_shndx s) 0) as [S|S]; cbn [orb] in E.
    { destruct (IH _ E _ _ H) as (s' & I' & R). exists s'. split; [right; assumption|assumption]. }
    destruct ((s_info s / 16 =? 1) || (s_info s / 16 =? 2)).
    + unfold uadd in E. destruct (s_value s + B <? U64); [|discriminate]. cbn [bind] in E.
      destruct (exported B t) as [r'| |] eqn:E'; try discriminate. cbn [bind] in E. inversion E; subst r.
      destruct H as [H|H].
      * inversion H; subst. exists s. repeat split; auto. left; reflexivity.
      * destruct (IH _ eq_refl _ _ H) as (s' & I' & R). exists s'. split; [right; assumption|assumption].
    + destruct (IH _ E _ _ H) as (s' & I' & R). exists s'. split; [right; assumption|assumption].
Qed.

(* ... and the linker's symbol table stores exactly the reported address (first definition wins) *)
Lemma st_add_get l : forall t n v, st_get (st_add t l) n = Some v ->
  st_get t n = Some v \/ In (v, n) l.
Proof.
  induction l as [|[a m] r IH]; intros t n v H; [left; exact H|]. cbn [st_add] in H.
  destruct (st_get t m) eqn:G.
  - destruct (IH _ _ _ H); [left; assumption|right; right; assumption].
  - destruct (IH _ _ _ H) as [H1|H1]; [|right; right; assumption].
    assert (AG : forall t0, st_get (t0 ++ [(m, a)]) n = match st_get t0 n with Some x => Some x | None => if String.eqb m n then Some a else None end).
    { induction t0 as [|[k w] t0 IH0]; cbn [app st_get]; [destruct (String.eqb m n); reflexivity|].
      destruct (String.eqb k n); [reflexivity|apply IH0]. }
    rewrite AG in H1. destruct (st_get t n); [left; assumption|].
    destruct (String.eqb_spec m n); [|discriminate]. inversion H1; subst. right. left. reflexivity.
Qed.

(* [U] partial reloc_once: every address the two-object link registers for relocation is the st_value of a
   defined dynamic symbol of main (base 0) or of the library plus the library's base -- added once *)
Theorem link_symbols_once_thm main lib ex1 ex2 n v :
  exported 0 (e_dynsyms main) = Ok ex1 -> exported LIB_BASE (e_dynsyms lib) = Ok ex2 ->
  st_get (st_add (st_add [] ex1) ex2) n = Some v ->
  (exists s, In s (e_dynsyms main) /\ n = s_name s /\ v = s_value s + 0) \/
  (exists s, In s (e_dynsyms lib) /\ n = s_name s /\ v = s_value s + LIB_BASE).
Proof.
  intros E1 E2 H. apply st_add_get in H. destruct H as [H|H].
  - apply st_add_get in H. destruct H as [H|H]; [discriminate|].
    destruct (exported_once _ _ _ E1 _ _ H) as (s & I0 & N & A & _). left. exists s. auto.
  - destruct (exported_once _ _ _ E2 _ _ H) as (s & I0 & N & A & _). right. exists s. auto.
Qed.

(* ------------------------------------------------------------------ sections() at base B = sections() at base 0, keys B higher *)
Lemma load_segs_shift file B phs : forall m0,
  Forall (seg_wf file B) phs -> Forall (seg_wf file 0) phs -> wf 0 m0 -> wf 0 (kshift B m0) ->
  exists m, load_segs 0 file phs m0 = Ok m /\ load_segs B file phs (kshift B m0) = Ok (kshift B m).
Proof.
  induction phs as [|ph t IH]; intros m0 FB F0 W WB; [exists m0; split; reflexivity|].
  inversion FB as [|? ? HB FtB]; subst. inversion F0 as [|? ? H0 Ft0]; subst. cbn [load_segs].
  destruct (Z.eqb_spec (p_type ph) 1) as [T|T]; [|apply IH; assumption].
  destruct (seg_bytes_spec file B ph T HB) as (bytes & Eb & Lb & _). rewrite Eb. cbn [bind].
  destruct (HB T) as (O & Fz & FL & FU & FM & V & Bp & E & FLG). destruct (H0 T) as (_ & _ & _ & _ & _ & _ & _ & E0 & _).
  rewrite !uadd_ok by lia. cbn [bind].
  destruct (set_memory_shift B m0 (p_vaddr ph + 0) bytes (perms_of_flags (p_flags ph)) W WB) as (m1 & E1 & E1B); try lia.
  replace (p_vaddr ph + 0 + B) with (p_vaddr ph + B) in E1B by lia. rewrite E1, E1B. cbn [bind].
  destruct (set_memory_spec m0 (p_vaddr ph + 0) bytes (perms_of_flags (p_flags ph)) W ltac:(lia) ltac:(lia)) as (m1' & E1' & W1 & _).
  destruct (set_memory_spec (kshift B m0) (p_vaddr ph + B) bytes (perms_of_flags (p_flags ph)) WB ltac:(lia) ltac:(lia)) as (m1b & E1b & W1b & _).
  rewrite E1 in E1'. inversion E1'; subst m1'. rewrite E1B in E1b. inversion E1b; subst m1b.
  apply IH; assumption.
Qed.

Theorem sections_rebase_thm e B :
  Forall (seg_wf (e_file e) B) (e_phdrs e) -> Forall (seg_wf (e_file e) 0) (e_phdrs e) ->
  exists m0, memory e 0 = Ok m0 /\ memory e B = Ok (kshift B m0).
Proof. intros FB F0. apply (load_segs_shift (e_file e) B (e_phdrs e) [] FB F0 I I). Qed.
