(* Elf/ElfMipsFull.v -- relocations_mips, all of it: whenever the pass succeeds, local GOT entries and defined
   global entries hold their word plus the base, external entries the registered address, every R_MIPS_REL32 word
   its addend plus the address of the symbol it names (the relocated GOT entry for a global symbol), and nothing
   else changed.  Both endiannesses. *)
From Coq Require Import ZArith List Bool Lia String.
From Falcon Require Import Base.Res IL.Const Mem.Backing Mem.BackingSpec Mem.BackingProofs Elf.ElfModel Elf.ElfProofs Elf.ElfLink Elf.ElfMips.
Import ListNotations.
Local Open Scope Z_scope.
Ltac Zify.zify_post_hook ::= Z.div_mod_to_equations.

Lemma get32_some be (m : sections Z) a v : wf 0 m -> get32 be m a = Ok (Some v) -> read32 be (abs m) a = Some v.
Proof.
  intros W E. pose proof (get32_spec_thm be m a W) as S.
  destruct (find_sec m a) as [[k [d p]]|]; [|congruence].
  destruct (a + 4 <=? k + len d); [|congruence].
  destruct S as (v' & R & G). rewrite G in E. inversion E; subst. assumption.
Qed.

Lemma le_bytes32_value_mod w : le_value (le_bytes32 w) = w mod 4294967296.
Proof. unfold le_bytes32. cbn [le_value]. lia. Qed.

Lemma value_mem_bytes_mod be w : value_of be (mem_bytes32 be w) = w mod 4294967296.
Proof. unfold value_of, mem_bytes32. destruct be; [rewrite rev_involutive|]; apply le_bytes32_value_mod. Qed.

Lemma read32_write32_mod be (m : amap Z) x w :
  (forall y, x <= y < x + 4 -> m y <> None) ->
  read32 be (write32 be m x w) x = Some (w mod 4294967296).
Proof.
  intros Hm. unfold read32. cbn [read_bytes]. unfold read8, write32.
  assert (C : forall k, 0 <= k < 4 ->
     option_map fst (if (x <=? x + k) && (x + k <? x + 4)
                     then match m (x + k), nth_error (mem_bytes32 be w) (Z.to_nat (x + k - x)) with
                          | Some (_, t), Some b => Some (b, t) | _, _ => None end
                     else m (x + k)) = nth_error (mem_bytes32 be w) (Z.to_nat k)).
  { intros k Hk. destruct (Z.leb_spec x (x + k)); destruct (Z.ltb_spec (x + k) (x + 4)); try lia. cbn [andb].
    replace (x + k - x) with k by lia.
    destruct (m (x + k)) as [[b0 t]|] eqn:E; [|exfalso; apply (Hm (x + k)); [lia|assumption]].
    destruct (nth_error (mem_bytes32 be w) (Z.to_nat k)) eqn:N; [reflexivity|].
    apply nth_error_None in N. assert (List.length (mem_bytes32 be w) = 4%nat) by (destruct be; reflexivity). lia. }
  pose proof (C 0 ltac:(lia)) as C0. pose proof (C 1 ltac:(lia)) as C1.
  pose proof (C 2 ltac:(lia)) as C2. pose proof (C 3 ltac:(lia)) as C3.
  replace (x + 0) with x in C0 by lia. replace (x + 1 + 1) with (x + 2) by lia. replace (x + 2 + 1) with (x + 3) by lia.
  rewrite C0, C1, C2, C3.
  change (Z.to_nat 0) with 0%nat. change (Z.to_nat 1) with 1%nat. change (Z.to_nat 2) with 2%nat. change (Z.to_nat 3) with 3%nat.
  rewrite <- (value_mem_bytes_mod be w).
  destruct be; unfold mem_bytes32, le_bytes32; cbn [rev app nth_error option_map]; reflexivity.
Qed.

(* a 32-bit write that returned Ok, any value: the slot reads the value mod 2^32 *)
Lemma set32_ok_mod be (m m' : sections Z) x w : wf 0 m -> set32 be m x w = Ok m' ->
  wf 0 m' /\ read32 be (abs m') x = Some (w mod 4294967296) /\ (forall y, ~ (x <= y < x + 4) -> abs m' y = abs m y).
Proof.
  intros W E. pose proof (set32_spec_thm be m x w W) as S.
  destruct (find_sec m x) as [[a [d p]]|] eqn:F; [|congruence].
  destruct (Z.leb_spec (x + 4) (a + len d)); [|congruence].
  destruct S as (m1 & E1 & W1 & A1 & _). rewrite E in E1. inversion E1; subst m1. split; [assumption|]. split.
  - rewrite (read32_ext be (abs m') (write32 be (abs m) x w) x) by (intros; apply A1).
    apply read32_write32_mod. intros y Hy.
    destruct (find_sec_inv _ _ _ _ _ _ W F) as (_ & _ & R0 & _).
    destruct (abs_in_section m x y a d p W F ltac:(lia)) as (b & _ & Ab). congruence.
  - intros y Hy. rewrite A1. unfold write32.
    destruct (Z.leb_spec x y); destruct (Z.ltb_spec y (x + 4)); cbn [andb]; try reflexivity. lia.
Qed.

(* first loop: every GOT word gets the base added (wrapping), nothing else changes *)
Lemma mips_got_base_vals be B pg k : forall i m m', wf 0 m -> 0 <= B -> 0 <= pg -> 0 <= i ->
  mips_got_base be B pg i k m = Ok m' ->
  wf 0 m' /\
  (forall j, 0 <= j < Z.of_nat k -> exists v, read32 be (abs m) (B + (i + j) * 4 + pg) = Some v /\
                                               read32 be (abs m') (B + (i + j) * 4 + pg) = Some ((v + B mod U32) mod U32)) /\
  (forall y, ~ (B + i * 4 + pg <= y < B + i * 4 + pg + 4 * Z.of_nat k) -> abs m' y = abs m y).
Proof.
  induction k as [|k IH]; intros i m m' W HB HP HI E.
  - cbn in E. inversion E; subst. split; [assumption|]. split; [intros; lia|reflexivity].
  - cbn [mips_got_base] in E.
    unfold uadd at 1 in E. destruct (Z.ltb_spec (B + i * 4) U64); [|discriminate]. cbn [bind] in E.
    unfold uadd at 1 in E. destruct (Z.ltb_spec (B + i * 4 + pg) U64); [|discriminate]. cbn [bind] in E.
    set (a := B + i * 4 + pg) in *.
    destruct (get32 be m a) as [[v|]| |] eqn:G; cbn [bind ok_or] in E; try discriminate.
    destruct (set32 be m a ((v + B mod U32) mod U32)) as [m1| |] eqn:E1; cbn [bind] in E; try discriminate.
    destruct (set32_ok be m m1 a _ W (mod_u32 _) E1) as (W1 & R1 & F1).
    destruct (IH (i + 1) m1 m' W1 HB HP ltac:(lia) E) as (W' & RD & FR).
    split; [assumption|]. split.
    + intros j Hj. destruct (Z.eq_dec j 0) as [J0|JN].
      * subst j. replace (B + (i + 0) * 4 + pg) with a by (unfold a; lia). exists v. split; [apply get32_some; assumption|].
        rewrite (read32_ext be (abs m') (abs m1) a) by (intros y Hy; apply FR; unfold a in *; lia). exact R1.
      * destruct (RD (j - 1) ltac:(lia)) as (v' & Rv & Rv'). replace (B + (i + 1 + (j - 1)) * 4 + pg) with (B + (i + j) * 4 + pg) in * by lia.
        exists v'. split; [|assumption]. rewrite <- Rv. apply read32_ext. intros y Hy. symmetry. apply F1. unfold a. lia.
    + intros y Hy. rewrite FR by lia. apply F1. unfold a. lia.
Qed.

(* second loop, the entries that are NOT external keep their word *)
Lemma mips_got_ext_keep be dynsyms st k : forall addr i m m',
  wf 0 m -> 0 <= addr -> mips_got_ext be dynsyms st addr i k m = Ok m' ->
  forall j s, 0 <= j < Z.of_nat k -> nth_sym dynsyms (i + j) = Some s -> s_shndx s <> 0 ->
    forall y, addr + 4 * j <= y < addr + 4 * j + 4 -> abs m' y = abs m y.
Proof.
  induction k as [|k IH]; intros addr i m m' W A E j s Hj Ns Sh y Hy; [lia|].
  cbn [mips_got_ext] in E.
  destruct (nth_sym dynsyms i) as [s0|] eqn:N0; cbn [bind ok_or] in E; [|discriminate].
  set (step := if s_shndx s0 =? 0 then match st_get st (s_name s0) with Some v => set32 be m addr (v mod U32) | None => Err EOther end else Ok m) in E.
  destruct step as [m1| |] eqn:ES; cbn [bind] in E; try discriminate.
  unfold uadd in E. destruct (Z.ltb_spec (addr + 4) U64) as [LU|]; [|discriminate]. cbn [bind] in E.
  assert (S1 : wf 0 m1 /\ (forall z, ~ (addr <= z < addr + 4) -> abs m1 z = abs m z) /\ (s_shndx s0 <> 0 -> m1 = m)).
  { unfold step in ES. destruct (Z.eqb_spec (s_shndx s0) 0) as [Z0|NZ].
    - destruct (st_get st (s_name s0)) as [v0|] eqn:G; [|discriminate].
      destruct (set32_ok be m m1 addr (v0 mod U32) W (mod_u32 v0) ES) as (W1 & _ & F1).
      split; [assumption|]. split; [assumption|]. intros; contradiction.
    - inversion ES; subst. split; [assumption|]. split; [reflexivity|]. reflexivity. }
  destruct S1 as (W1 & F1 & K1).
  destruct (mips_got_ext_once be dynsyms st k (addr + 4) (i + 1) m1 m' W1 ltac:(lia) E) as (_ & _ & FR).
  destruct (Z.eq_dec j 0) as [J0|JN].
  - subst j. replace (i + 0) with i in Ns by lia. rewrite N0 in Ns. inversion Ns; subst s0.
    rewrite FR by lia. rewrite (K1 Sh). reflexivity.
  - rewrite (IH (addr + 4) (i + 1) m1 m' W1 ltac:(lia) E (j - 1) s ltac:(lia)); [apply F1; lia| |assumption|lia].
    replace (i + 1 + (j - 1)) with (i + j) by lia. assumption.
Qed.

(* what a R_MIPS_REL32 adds, stated on a map *)
Definition sym_add_spec (be : bool) (B : Z) (dynsyms : list sym) (gs lg pg : Z) (mp : amap Z) (r : rel) (add : Z) : Prop :=
  (r_sym r = 0 /\ add = B mod U32) \/
  (r_sym r <> 0 /\ r_sym r < gs /\ exists s, nth_sym dynsyms (r_sym r) = Some s /\ add = (s_value s + B) mod U32) \/
  (r_sym r <> 0 /\ gs <= r_sym r /\ read32 be mp (pg + B + (lg + (r_sym r - gs)) * 4) = Some add).

Lemma mips_sym_add_spec be B dynsyms gs lg pg (m : sections Z) r add : wf 0 m ->
  mips_sym_add be B dynsyms gs lg pg m r = Ok add -> sym_add_spec be B dynsyms gs lg pg (abs m) r add.
Proof.
  intros W E. unfold mips_sym_add in E. destruct (Z.eqb_spec (r_sym r) 0) as [Z0|NZ].
  - inversion E. left. auto.
  - destruct (Z.ltb_spec (r_sym r) gs).
    + destruct (nth_sym dynsyms (r_sym r)) as [s|] eqn:N; cbn [bind ok_or] in E; [|discriminate].
      unfold uadd in E. destruct (s_value s + B <? U64); [|discriminate]. cbn [bind] in E. inversion E.
      right. left. split; [assumption|]. split; [assumption|]. exists s. auto.
    + unfold uadd at 1 in E. destruct (pg + B <? U64); [|discriminate]. cbn [bind] in E.
      unfold usub64 in E. destruct (Z.ltb_spec (r_sym r) gs); [lia|]. cbn [bind] in E.
      unfold uadd at 1 in E. destruct (lg + (r_sym r - gs) <? U64); [|discriminate]. cbn [bind] in E.
      destruct (U64 <=? (lg + (r_sym r - gs)) * 4); [discriminate|].
      unfold uadd in E. destruct (pg + B + (lg + (r_sym r - gs)) * 4 <? U64); [|discriminate]. cbn [bind] in E.
      destruct (get32 be m _) as [[g|]| |] eqn:G; cbn [bind ok_or] in E; try discriminate. inversion E; subst.
      right. right. split; [assumption|]. split; [assumption|]. apply get32_some; assumption.
Qed.

Definition is_rel32 (r : rel) : Prop := r_type r = 3.

Lemma sym_add_spec_ext be B dynsyms gs lg pg (mp mp' : amap Z) r add :
  (gs <= r_sym r -> forall y, pg + B + (lg + (r_sym r - gs)) * 4 <= y < pg + B + (lg + (r_sym r - gs)) * 4 + 4 -> mp' y = mp y) ->
  sym_add_spec be B dynsyms gs lg pg mp r add -> sym_add_spec be B dynsyms gs lg pg mp' r add.
Proof.
  intros H [S|[S|(N & G & R)]]; [left; exact S|right; left; exact S|right; right].
  split; [assumption|]. split; [assumption|]. rewrite <- R. apply read32_ext. intros y Hy. apply H; assumption.
Qed.

(* third loop: every R_MIPS_REL32 word becomes addend + symbol address (mod 2^32); nothing else changes *)
Lemma mips_rel32_vals be B dynsyms gs lg pg rels : forall m m', wf 0 m ->
  ForallOrdPairs (fun r1 r2 => is_rel32 r1 -> is_rel32 r2 -> apart r1 r2) rels ->
  (* the GOT words the relocations read are not REL32 slots themselves *)
  (forall r r0, In r rels -> In r0 rels -> is_rel32 r -> is_rel32 r0 -> gs <= r_sym r ->
     r_offset r0 + B + 4 <= pg + B + (lg + (r_sym r - gs)) * 4 \/ pg + B + (lg + (r_sym r - gs)) * 4 + 4 <= r_offset r0 + B) ->
  mips_rel32 be B dynsyms gs lg pg rels m = Ok m' ->
  wf 0 m' /\
  (forall r, In r rels -> is_rel32 r ->
     exists v add, read32 be (abs m) (r_offset r + B) = Some v /\ sym_add_spec be B dynsyms gs lg pg (abs m) r add /\
                   read32 be (abs m') (r_offset r + B) = Some ((v + add) mod 4294967296)) /\
  (forall y, (forall r, In r rels -> is_rel32 r -> ~ (r_offset r + B <= y < r_offset r + B + 4)) -> abs m' y = abs m y).
Proof.
  induction rels as [|r t IH]; intros m m' W AP GOTAP E.
  - cbn in E. inversion E; subst. split; [assumption|]. split; [intros r []|reflexivity].
  - inversion AP as [|? ? Ar At]; subst. cbn [mips_rel32] in E.
    assert (GOTAPt : forall r1 r0, In r1 t -> In r0 t -> is_rel32 r1 -> is_rel32 r0 -> gs <= r_sym r1 ->
              r_offset r0 + B + 4 <= pg + B + (lg + (r_sym r1 - gs)) * 4 \/ pg + B + (lg + (r_sym r1 - gs)) * 4 + 4 <= r_offset r0 + B)
      by (intros r1 r0 I1 I0; apply GOTAP; right; assumption).
    destruct (Z.eqb_spec (r_type r) 3) as [T|T].
    + unfold uadd at 1 in E. destruct (Z.ltb_spec (r_offset r + B) U64); [|discriminate]. cbn [bind] in E.
      destruct (get32 be m (r_offset r + B)) as [[v|]| |] eqn:G; cbn [bind ok_or] in E; try discriminate.
      destruct (mips_sym_add be B dynsyms gs lg pg m r) as [add| |] eqn:SA; cbn [bind] in E; try discriminate.
      destruct (Z.leb_spec U32 (v + add)); [discriminate|].
      destruct (set32 be m (r_offset r + B) (v + add)) as [m1| |] eqn:E1; cbn [bind] in E; try discriminate.
      pose proof (get32_some be m _ v W G) as Rv.
      pose proof (mips_sym_add_spec _ _ _ _ _ _ _ _ _ W SA) as SS.
      destruct (set32_ok_mod be m m1 _ (v + add) W E1) as (W1 & R1 & F1).
      destruct (IH m1 m' W1 At GOTAPt E) as (W' & RD & FR). split; [assumption|]. split.
      * intros r0 [Eq|I0] T0.
        -- subst r0. exists v, add. split; [exact Rv|]. split; [exact SS|].
           rewrite (read32_ext be (abs m') (abs m1) (r_offset r + B)); [exact R1|].
           intros y Hy. apply FR. intros r1 I1 T1. pose proof (proj1 (Forall_forall _ _) Ar r1 I1 T T1) as AP1.
           unfold apart in AP1. lia.
        -- destruct (RD r0 I0 T0) as (v0 & add0 & Rv0 & SS0 & Rf0).
           pose proof (proj1 (Forall_forall _ _) Ar r0 I0 T T0) as AP0. unfold apart in AP0.
           exists v0, add0. split; [|split; [|exact Rf0]].
           ++ rewrite <- Rv0. apply read32_ext. intros y Hy. symmetry. apply F1. lia.
           ++ eapply sym_add_spec_ext; [|exact SS0]. intros Gs y Hy. symmetry. apply F1.
              pose proof (GOTAP r0 r (or_intror I0) (or_introl eq_refl) T0 T Gs). lia.
      * intros y Hy. rewrite FR by (intros r1 I1; apply Hy; right; assumption). apply F1. apply (Hy r (or_introl eq_refl) T).
    + destruct (IH m m' W At GOTAPt E) as (W' & RD & FR). split; [assumption|]. split.
      * intros r0 [Eq|I0] T0; [subst r0; contradiction|]. apply RD; assumption.
      * intros y Hy. apply FR. intros r1 I1. apply Hy. right. assumption.
Qed.

(* [U] relocations_mips, all of it (memory level, both endiannesses): whenever the pass succeeds on an invariant memory and
   the R_MIPS_REL32 slots are pairwise disjoint and clear of the GOT [pg + B, pg + B + 4 * (lg + sn - gs)):
   (a) local GOT entry j < lg:           word + base (wrapping)
   (b) defined global entry (shndx <> 0): word + base (wrapping) -- the word is st_value in a linked object, so st_value + base, once
   (c) external global entry:            the registered address of its symbol
   (d) R_MIPS_REL32:                     addend + address of the symbol it names (mod 2^32), the address being the base
                                         (r_sym = 0), st_value + base (local symbol) or the RELOCATED GOT entry (global symbol)
   (e) every other cell unchanged *)
Theorem relocs_mips_full be B dynsyms st dyns rels m m' lg gs sn pg :
  wf 0 m -> 0 <= B -> 0 <= pg -> 0 <= lg -> 0 <= gs <= sn ->
  dyn_get dyns 1879048202 = Some lg -> dyn_get dyns 1879048211 = Some gs ->
  dyn_get dyns 1879048209 = Some sn -> dyn_get dyns 3 = Some pg ->
  ForallOrdPairs (fun r1 r2 => is_rel32 r1 -> is_rel32 r2 -> apart r1 r2) rels ->
  (forall r, In r rels -> is_rel32 r ->
     r_offset r + B + 4 <= pg + B \/ pg + B + 4 * (lg + (sn - gs)) <= r_offset r + B) ->
  Forall (fun r => is_rel32 r -> r_sym r < sn) rels ->
  relocs_mips be B dynsyms st dyns rels m = Ok m' ->
  let got j := pg + B + 4 * j in
  wf 0 m' /\
  (forall j, 0 <= j < lg -> exists v, read32 be (abs m) (got j) = Some v /\ read32 be (abs m') (got j) = Some ((v + B mod U32) mod U32)) /\
  (forall i s, gs <= i < sn -> nth_sym dynsyms i = Some s -> s_shndx s <> 0 ->
     exists v, read32 be (abs m) (got (lg + (i - gs))) = Some v /\ read32 be (abs m') (got (lg + (i - gs))) = Some ((v + B mod U32) mod U32)) /\
  (forall i s v, gs <= i < sn -> nth_sym dynsyms i = Some s -> s_shndx s = 0 -> st_get st (s_name s) = Some v ->
     read32 be (abs m') (got (lg + (i - gs))) = Some (v mod U32)) /\
  (forall r, In r rels -> is_rel32 r ->
     exists v add, read32 be (abs m) (r_offset r + B) = Some v /\ sym_add_spec be B dynsyms gs lg pg (abs m') r add /\
                   read32 be (abs m') (r_offset r + B) = Some ((v + add) mod 4294967296)) /\
  (forall y, ~ (pg + B <= y < pg + B + 4 * (lg + (sn - gs))) ->
             (forall r, In r rels -> is_rel32 r -> ~ (r_offset r + B <= y < r_offset r + B + 4)) -> abs m' y = abs m y).
Proof.
  intros W HB HP HL HG D1 D2 D3 D4 AP CLEAR SYMS E got.
  unfold relocs_mips in E. rewrite D1, D2, D3, D4 in E. cbn [ok_or bind] in E.
  unfold usub64 in E. destruct (Z.ltb_spec sn gs); [lia|]. cbn [bind] in E.
  unfold uadd at 1 in E. destruct (Z.ltb_spec (lg + (sn - gs)) U64); [|discriminate]. cbn [bind] in E.
  destruct (mips_got_base be B pg 0 (Z.to_nat (lg + (sn - gs))) m) as [m1| |] eqn:E1; cbn [bind] in E; try discriminate.
  destruct (mips_got_base_vals be B pg _ 0 m m1 W HB HP ltac:(lia) E1) as (W1 & V1 & F1).
  unfold uadd at 1 in E. destruct (Z.ltb_spec (pg + B) U64); [|discriminate]. cbn [bind] in E.
  unfold uadd at 1 in E. destruct (Z.ltb_spec (pg + B + lg * 4) U64); [|discriminate]. cbn [bind] in E.
  destruct (mips_got_ext be dynsyms st (pg + B + lg * 4) gs (Z.to_nat (sn - gs)) m1) as [m2| |] eqn:E2; cbn [bind] in E; try discriminate.
  assert (A0 : 0 <= pg + B + lg * 4) by lia.
  destruct (mips_got_ext_once _ _ _ _ _ _ _ _ W1 A0 E2) as (W2 & V2 & F2).
  pose proof (mips_got_ext_keep _ _ _ _ _ _ _ _ W1 A0 E2) as K2.
  assert (GOTAP : forall r r0, In r rels -> In r0 rels -> is_rel32 r -> is_rel32 r0 -> gs <= r_sym r ->
            r_offset r0 + B + 4 <= pg + B + (lg + (r_sym r - gs)) * 4 \/ pg + B + (lg + (r_sym r - gs)) * 4 + 4 <= r_offset r0 + B).
  { intros r r0 I1 I0 T1 T0 Gs. pose proof (proj1 (Forall_forall _ _) SYMS r I1 T1). destruct (CLEAR r0 I0 T0); lia. }
  destruct (mips_rel32_vals _ _ _ _ _ _ _ _ _ W2 AP GOTAP E) as (W' & V3 & F3).
  assert (GOTKEEP : forall y, pg + B <= y < pg + B + 4 * (lg + (sn - gs)) -> abs m' y = abs m2 y).
  { intros y Hy. apply F3. intros r I0 T0. destruct (CLEAR r I0 T0); lia. }
  split; [assumption|]. split; [|split; [|split; [|split]]].
  - intros j Hj. destruct (V1 j ltac:(lia)) as (v & Rv & Rv1).
    replace (B + (0 + j) * 4 + pg) with (got j) in * by (unfold got; lia).
    exists v. split; [assumption|]. rewrite <- Rv1.
    rewrite (read32_ext be (abs m') (abs m2) (got j)) by (intros y Hy; apply GOTKEEP; unfold got in *; lia).
    apply read32_ext. intros y Hy. apply F2. unfold got in *. lia.
  - intros i s Hi Ns Sh. destruct (V1 (lg + (i - gs)) ltac:(lia)) as (v & Rv & Rv1).
    replace (B + (0 + (lg + (i - gs))) * 4 + pg) with (got (lg + (i - gs))) in * by (unfold got; lia).
    exists v. split; [assumption|]. rewrite <- Rv1.
    rewrite (read32_ext be (abs m') (abs m2) (got (lg + (i - gs)))) by (intros y Hy; apply GOTKEEP; unfold got in *; lia).
    apply read32_ext. intros y Hy. apply (K2 (i - gs) s); [lia| |assumption|unfold got in *; lia].
    replace (gs + (i - gs)) with i by lia. assumption.
  - intros i s v Hi Ns Sh G.
    rewrite (read32_ext be (abs m') (abs m2) (got (lg + (i - gs)))) by (intros y Hy; apply GOTKEEP; unfold got in *; lia).
    replace (got (lg + (i - gs))) with (pg + B + lg * 4 + 4 * (i - gs)) by (unfold got; lia).
    apply (V2 (i - gs) s v); [lia| |assumption|assumption]. replace (gs + (i - gs)) with i by lia. assumption.
  - intros r I0 T0. destruct (V3 r I0 T0) as (v & add & Rv & SS & Rf). exists v, add. split; [|split; [|exact Rf]].
    + rewrite <- Rv. apply read32_ext. intros y Hy. rewrite F2, F1; [reflexivity| |]; destruct (CLEAR r I0 T0); lia.
    + eapply sym_add_spec_ext; [|exact SS]. intros Gs y Hy. apply GOTKEEP.
      pose proof (proj1 (Forall_forall _ _) SYMS r I0 T0). lia.
  - intros y Hg Hr. rewrite (F3 y Hr). rewrite F2 by lia. apply F1. lia.
Qed.
