(* Elf/ElfLink.v -- reloc_once for the modelled x86 relocation pass: after relocs_x86 every symbolic
   relocation slot holds the registered address of its symbol (mod 2^32), and nothing else changed. *)
From Coq Require Import ZArith List Bool Lia String.
From Falcon Require Import Base.Res IL.Const Mem.Backing Mem.BackingSpec Mem.BackingProofs Elf.ElfModel Elf.ElfProofs.
Import ListNotations.
Local Open Scope Z_scope.
Ltac Zify.zify_post_hook ::= Z.div_mod_to_equations.

Definition shape (s : sections Z) : list (Z * Z * Z) := map (fun kv => (fst kv, len (fst (snd kv)), snd (snd kv))) s.

(* the four bytes x..x+3 lie in one stored section *)
Definition slot_ok (m : sections Z) (x : Z) : Prop :=
  exists a d p, find_sec m x = Some (a, (d, p)) /\ x + 4 <= a + len d.

Lemma slot_ok_shape (s s' : sections Z) x : shape s' = shape s -> slot_ok s x -> slot_ok s' x.
Proof.
  revert s'. induction s as [|[a [d p]] t IH]; intros s' E (a0 & d0 & p0 & F & R); [discriminate|].
  destruct s' as [|[a' [d' p']] t']; [discriminate|]. cbn [shape map fst snd] in E. injection E as E1 E2 E3 E4. subst a' p'.
  cbn [find_sec] in F. unfold slot_ok. cbn [find_sec]. rewrite E2.
  destruct ((a <=? x) && (x <? a + len d)).
  - inversion F; subst. exists a0, d', p0. split; [reflexivity|lia].
  - apply (IH t' E4). exists a0, d0, p0. auto.
Qed.

Lemma le_bytes32_value w : 0 <= w < 4294967296 -> le_value (le_bytes32 w) = w.
Proof. intros H. unfold le_bytes32. cbn [le_value]. lia. Qed.

Lemma read32_ext be (m m' : amap Z) x :
  (forall y, x <= y < x + 4 -> m y = m' y) -> read32 be m x = read32 be m' x.
Proof.
  intros H. unfold read32. cbn [read_bytes]. unfold read8.
  rewrite (H x), (H (x + 1)), (H (x + 1 + 1)), (H (x + 1 + 1 + 1)) by lia. reflexivity.
Qed.

Lemma read32_write32 (m : amap Z) x w :
  0 <= w < 4294967296 -> (forall y, x <= y < x + 4 -> m y <> None) ->
  read32 false (write32 false m x w) x = Some w.
Proof.
  intros Hw Hm. unfold read32. cbn [read_bytes]. unfold read8, write32.
  assert (C : forall k, 0 <= k < 4 ->
     option_map fst (if (x <=? x + k) && (x + k <? x + 4)
                     then match m (x + k), nth_error (mem_bytes32 false w) (Z.to_nat (x + k - x)) with
                          | Some (_, t), Some b => Some (b, t) | _, _ => None end
                     else m (x + k)) = nth_error (le_bytes32 w) (Z.to_nat k)).
  { intros k Hk. destruct (Z.leb_spec x (x + k)); destruct (Z.ltb_spec (x + k) (x + 4)); try lia. cbn [andb].
    replace (x + k - x) with k by lia. cbn [mem_bytes32].
    destruct (m (x + k)) as [[b0 t]|] eqn:E; [|exfalso; apply (Hm (x + k)); [lia|assumption]].
    destruct (nth_error (le_bytes32 w) (Z.to_nat k)) eqn:N; [reflexivity|].
    apply nth_error_None in N. cbn in N. lia. }
  pose proof (C 0 ltac:(lia)) as C0. pose proof (C 1 ltac:(lia)) as C1.
  pose proof (C 2 ltac:(lia)) as C2. pose proof (C 3 ltac:(lia)) as C3.
  replace (x + 0) with x in C0 by lia. replace (x + 1 + 1) with (x + 2) by lia. replace (x + 2 + 1) with (x + 3) by lia.
  rewrite C0, C1, C2, C3.
  change (Z.to_nat 0) with 0%nat. change (Z.to_nat 1) with 1%nat. change (Z.to_nat 2) with 2%nat. change (Z.to_nat 3) with 3%nat.
  unfold le_bytes32. cbn [nth_error option_map value_of]. f_equal. exact (le_bytes32_value w Hw).
Qed.

Definition symbolic (r : rel) : Prop := r_type r = 1 \/ r_type r = 6 \/ r_type r = 7.
Definition resolves (dynsyms : list sym) (st : symtab) (r : rel) (v : Z) : Prop :=
  exists s, nth_sym dynsyms (r_sym r) = Some s /\ st_get st (s_name s) = Some v.
Definition apart (r1 r2 : rel) : Prop := r_offset r1 + 4 <= r_offset r2 \/ r_offset r2 + 4 <= r_offset r1.

(* [U] the relocation pass over symbolic relocations with pairwise disjoint slots, each inside one section and
   each resolvable: succeeds, every slot holds its symbol's registered address (mod 2^32) -- once --, the
   layout is unchanged and no other cell is altered *)
Theorem relocs_x86_once B dynsyms st rs : forall m,
  wf 0 m -> 0 <= B -> Forall symbolic rs -> ForallOrdPairs apart rs ->
  Forall (fun r => 0 <= r_offset r /\ slot_ok m (r_offset r + B)) rs ->
  Forall (fun r => exists v, resolves dynsyms st r v) rs ->
  exists m', relocs_x86 B dynsyms st rs m = Ok m' /\ wf 0 m' /\ shape m' = shape m /\
    (forall r v, In r rs -> resolves dynsyms st r v -> read32 false (abs m') (r_offset r + B) = Some (v mod 4294967296)) /\
    (forall y, (forall r, In r rs -> ~ (r_offset r + B <= y < r_offset r + B + 4)) -> abs m' y = abs m y).
Proof.
  induction rs as [|r t IH]; intros m W HB FS FA FO FR.
  - exists m. split; [reflexivity|]. split; [assumption|]. split; [reflexivity|]. split; [intros r v []|reflexivity].
  - inversion FS as [|? ? Sr St]; subst. inversion FA as [|? ? Ar At]; subst.
    inversion FO as [|? ? Or Ot]; subst. inversion FR as [|? ? Rr Rt]; subst.
    destruct Or as (O0 & (a & d & p & F & R)). destruct Rr as (v & s & Ns & Gs).
    destruct (find_sec_inv _ _ _ _ _ _ W F) as (_ & _ & R0 & _ & R1).
    set (x := r_offset r + B) in *. set (w := v mod 4294967296).
    assert (Hw : 0 <= w < 4294967296) by (unfold w; lia).
    destruct (set32_within false m x w a d p W F R) as (m1 & E1 & W1 & A1 & L1).
    assert (STEP : relocs_x86 B dynsyms st (r :: t) m = relocs_x86 B dynsyms st t m1).
    { cbn [relocs_x86]. destruct Sr as [T|[T|T]]; rewrite T; cbn [Z.eqb Pos.eqb orb]; rewrite Ns, Gs;
        rewrite uadd_ok by (unfold x in *; lia); cbn [bind]; fold x; fold w; rewrite E1; reflexivity. }
    assert (FO1 : Forall (fun r0 => 0 <= r_offset r0 /\ slot_ok m1 (r_offset r0 + B)) t).
    { eapply Forall_impl; [|exact Ot]. cbn. intros r0 (H0 & H1). split; [assumption|]. eapply slot_ok_shape; [exact L1|exact H1]. }
    destruct (IH m1 W1 HB St At FO1 Rt) as (m' & E' & W' & L' & RD & FRM).
    exists m'. split; [rewrite STEP; exact E'|]. split; [assumption|]. split; [rewrite L'; exact L1|]. split.
    + intros r0 v0 [H|H] Rv.
      * subst r0. destruct Rv as (s0 & Ns0 & Gs0). rewrite Ns in Ns0. inversion Ns0; subst s0. rewrite Gs in Gs0. inversion Gs0; subst v0.
        fold x. fold w.
        rewrite (read32_ext false (abs m') (write32 false (abs m) x w) x).
        -- apply read32_write32; [assumption|]. intros y Hy.
           destruct (abs_in_section m x y a d p W F ltac:(lia)) as (b & _ & Ab). congruence.
        -- intros y Hy. rewrite FRM; [apply A1|]. intros r0 Hr0.
           pose proof (proj1 (Forall_forall _ _) Ar r0 Hr0) as AP. unfold apart in AP. unfold x in Hy. lia.
      * apply RD; assumption.
    + intros y Hy. rewrite FRM by (intros r0 Hr0; apply Hy; right; assumption). rewrite A1. unfold write32.
      pose proof (Hy r (or_introl eq_refl)) as Hyr. fold x in Hyr.
      destruct (Z.leb_spec x y); destruct (Z.ltb_spec y (x + 4)); cbn [andb]; try reflexivity. lia.
Qed.
