(* Elf/ElfLink.v -- reloc_once for the modelled x86 relocation pass: after relocs_x86 every symbolic
   relocation slot holds the registered address of its symbol (mod 2^32), and nothing else changed. *)
From Coq Require Import ZArith List Bool Lia String.
From Falcon Require Import Base.Res IL.Const Mem.Backing Mem.BackingSpec Mem.BackingProofs Mem.BackingFree Elf.ElfModel Elf.ElfProofs.
Import ListNotations.
Local Open Scope Z_scope.
Ltac Zify.zify_post_hook ::= Z.div_mod_to_equations.

Definition shape (s : sections Z) : list (Z * Z * Z) := map (fun kv => (fst kv, len (fst (snd kv)), snd (snd kv))) s.

(* the four bytes x..x+3 lie in one stored section *)
Definition slot_ok (m : sections Z) (x : Z) : Prop :=
  exists a d p, find_sec m x = Some (a, (d, p)) /\ x + 4 <= a + len d.

Lemma slot_ok_shape (s s' : sections Z) x : shape s' = shape s -> slot_ok s x -> slot_ok s' x.
Proof.
  revert s'. induction s as [|[a [d p]] t IH]; intros s' E (a0 & d0 & p0 & F & R); [discriminate|].
  destruct s' as [|[a' [d' p']] t']; [discriminate|]. cbn [shape map fst snd] in E. injection E as E1 E2 E3 E4. subst a' p'.
  cbn [find_sec] in F. unfold slot_ok. cbn [find_sec]. rewrite E2.
  destruct ((a <=? x) && (x <? a + len d)).
  - inversion F; subst. exists a0, d', p0. split; [reflexivity|lia].
  - apply (IH t' E4). exists a0, d0, p0. auto.
Qed.

Lemma le_bytes32_value w : 0 <= w < 4294967296 -> le_value (le_bytes32 w) = w.
Proof. intros H. unfold le_bytes32. cbn [le_value]. lia. Qed.

Lemma read32_ext be (m m' : amap Z) x :
  (forall y, x <= y < x + 4 -> m y = m' y) -> read32 be m x = read32 be m' x.
Proof.
  intros H. unfold read32. cbn [read_bytes]. unfold read8.
  rewrite (H x), (H (x + 1)), (H (x + 1 + 1)), (H (x + 1 + 1 + 1)) by lia. reflexivity.
Qed.

Lemma read32_write32 (m : amap Z) x w :
  0 <= w < 4294967296 -> (forall y, x <= y < x + 4 -> m y <> None) ->
  read32 false (write32 false m x w) x = Some w.
Proof.
  intros Hw Hm. unfold read32. cbn [read_bytes]. unfold read8, write32.
  assert (C : forall k, 0 <= k < 4 ->
     option_map fst (if (x <=? x + k) && (x + k <? x + 4)
                     then match m (x + k), nth_error (mem_bytes32 false w) (Z.to_nat (x + k - x)) with
                          | Some (_, t), Some b => Some (b, t) | _, _ => None end
                     else m (x + k)) = nth_error (le_bytes32 w) (Z.to_nat k)).
  { intros k Hk. destruct (Z.leb_spec x (x + k)); destruct (Z.ltb_spec (x + k) (x + 4)); try lia. cbn [andb].
    replace (x + k - x) with k by lia. cbn [mem_bytes32].
    destruct (m (x + k)) as [[b0 t]|] eqn:E; [|exfalso; apply (Hm (x + k)); [lia|assumption]].
    destruct (nth_error (le_bytes32 w) (Z.to_nat k)) eqn:N; [reflexivity|].
    apply nth_error_None in N. cbn in N. lia. }
  pose proof (C 0 ltac:(lia)) as C0. pose proof (C 1 ltac:(lia)) as C1.
  pose proof (C 2 ltac:(lia)) as C2. pose proof (C 3 ltac:(lia)) as C3.
  replace (x + 0) with x in C0 by lia. replace (x + 1 + 1) with (x + 2) by lia. replace (x + 2 + 1) with (x + 3) by lia.
  rewrite C0, C1, C2, C3.
  change (Z.to_nat 0) with 0%nat. change (Z.to_nat 1) with 1%nat. change (Z.to_nat 2) with 2%nat. change (Z.to_nat 3) with 3%nat.
  unfold le_bytes32. cbn [nth_error option_map value_of]. f_equal. exact (le_bytes32_value w Hw).
Qed.

Definition symbolic (r : rel) : Prop := r_type r = 1 \/ r_type r = 6 \/ r_type r = 7.
Definition resolves (dynsyms : list sym) (st : symtab) (r : rel) (v : Z) : Prop :=
  exists s, nth_sym dynsyms (r_sym r) = Some s /\ st_get st (s_name s) = Some v.
Definition apart (r1 r2 : rel) : Prop := r_offset r1 + 4 <= r_offset r2 \/ r_offset r2 + 4 <= r_offset r1.

(* [U] the relocation pass over symbolic relocations with pairwise disjoint slots, each inside one section and
   each resolvable: succeeds, every slot holds its symbol's registered address (mod 2^32) -- once --, the
   layout is unchanged and no other cell is altered *)
Theorem relocs_x86_once B dynsyms st rs : forall m,
  wf 0 m -> 0 <= B -> Forall symbolic rs -> ForallOrdPairs apart rs ->
  Forall (fun r => 0 <= r_offset r /\ slot_ok m (r_offset r + B)) rs ->
  Forall (fun r => exists v, resolves dynsyms st r v) rs ->
  exists m', relocs_x86 B dynsyms st rs m = Ok m' /\ wf 0 m' /\ shape m' = shape m /\
    (forall r v, In r rs -> resolves dynsyms st r v -> read32 false (abs m') (r_offset r + B) = Some (v mod 4294967296)) /\
    (forall y, (forall r, In r rs -> ~ (r_offset r + B <= y < r_offset r + B + 4)) -> abs m' y = abs m y).
Proof.
  induction rs as [|r t IH]; intros m W HB FS FA FO FR.
  - exists m. split; [reflexivity|]. split; [assumption|]. split; [reflexivity|]. split; [intros r v []|reflexivity].
  - inversion FS as [|? ? Sr St]; subst. inversion FA as [|? ? Ar At]; subst.
    inversion FO as [|? ? Or Ot]; subst. inversion FR as [|? ? Rr Rt]; subst.
    destruct Or as (O0 & (a & d & p & F & R)). destruct Rr as (v & s & Ns & Gs).
    destruct (find_sec_inv _ _ _ _ _ _ W F) as (_ & _ & R0 & _ & R1).
    set (x := r_offset r + B) in *. set (w := v mod 4294967296).
    assert (Hw : 0 <= w < 4294967296) by (unfold w; lia).
    destruct (set32_within false m x w a d p W F R) as (m1 & E1 & W1 & A1 & L1).
    assert (STEP : relocs_x86 B dynsyms st (r :: t) m = relocs_x86 B dynsyms st t m1).
    { cbn [relocs_x86]. destruct Sr as [T|[T|T]]; rewrite T; cbn [Z.eqb Pos.eqb orb]; rewrite Ns, Gs;
        rewrite uadd_ok by (unfold x in *; lia); cbn [bind]; fold x; fold w; rewrite E1; reflexivity. }
    assert (FO1 : Forall (fun r0 => 0 <= r_offset r0 /\ slot_ok m1 (r_offset r0 + B)) t).
    { eapply Forall_impl; [|exact Ot]. cbn. intros r0 (H0 & H1). split; [assumption|]. eapply slot_ok_shape; [exact L1|exact H1]. }
    destruct (IH m1 W1 HB St At FO1 Rt) as (m' & E' & W' & L' & RD & FRM).
    exists m'. split; [rewrite STEP; exact E'|]. split; [assumption|]. split; [rewrite L'; exact L1|]. split.
    + intros r0 v0 [H|H] Rv.
      * subst r0. destruct Rv as (s0 & Ns0 & Gs0). rewrite Ns in Ns0. inversion Ns0; subst s0. rewrite Gs in Gs0. inversion Gs0; subst v0.
        fold x. fold w.
        rewrite (read32_ext false (abs m') (write32 false (abs m) x w) x).
        -- apply read32_write32; [assumption|]. intros y Hy.
           destruct (abs_in_section m x y a d p W F ltac:(lia)) as (b & _ & Ab). congruence.
        -- intros y Hy. rewrite FRM; [apply A1|]. intros r0 Hr0.
           pose proof (proj1 (Forall_forall _ _) Ar r0 Hr0) as AP. unfold apart in AP. unfold x in Hy. lia.
      * apply RD; assumption.
    + intros y Hy. rewrite FRM by (intros r0 Hr0; apply Hy; right; assumption). rewrite A1. unfold write32.
      pose proof (Hy r (or_introl eq_refl)) as Hyr. fold x in Hyr.
      destruct (Z.leb_spec x y); destruct (Z.ltb_spec y (x + 4)); cbn [andb]; try reflexivity. lia.
Qed.

(* ------------------------------------------------------------------ R_386_RELATIVE and the general pass *)
(* the word a relocation must leave in its slot: the registered address of its symbol (symbolic kinds), or the
   word found there plus the object's base (R_386_RELATIVE; the code's u32 addition is overflow-checked) *)
Definition rel_val (B : Z) (dynsyms : list sym) (st : symtab) (m : sections Z) (r : rel) (w : Z) : Prop :=
  (symbolic r /\ exists v, resolves dynsyms st r v /\ w = v mod 4294967296) \/
  (r_type r = 8 /\ exists v0, read32 false (abs m) (r_offset r + B) = Some v0 /\
                              w = B mod 4294967296 + v0 /\ 0 <= w < 4294967296).

Lemma rel_val_frame B dynsyms st (m m1 : sections Z) r w :
  (forall y, r_offset r + B <= y < r_offset r + B + 4 -> abs m1 y = abs m y) ->
  rel_val B dynsyms st m r w -> rel_val B dynsyms st m1 r w.
Proof.
  intros H [S|(T & v0 & R & E)]; [left; exact S|right]. split; [assumption|]. exists v0. split; [|assumption].
  rewrite <- R. apply read32_ext. assumption.
Qed.

Theorem relocs_x86_all B dynsyms st rs : forall m,
  wf 0 m -> 0 <= B -> ForallOrdPairs apart rs ->
  Forall (fun r => 0 <= r_offset r /\ slot_ok m (r_offset r + B)) rs ->
  Forall (fun r => exists w, rel_val B dynsyms st m r w) rs ->
  exists m', relocs_x86 B dynsyms st rs m = Ok m' /\ wf 0 m' /\ shape m' = shape m /\
    (forall r w, In r rs -> rel_val B dynsyms st m r w -> read32 false (abs m') (r_offset r + B) = Some w) /\
    (forall y, (forall r, In r rs -> ~ (r_offset r + B <= y < r_offset r + B + 4)) -> abs m' y = abs m y).
Proof.
  induction rs as [|r t IH]; intros m W HB FA FO FR.
  - exists m. split; [reflexivity|]. split; [assumption|]. split; [reflexivity|]. split; [intros r w []|reflexivity].
  - inversion FA as [|? ? Ar At]; subst. inversion FO as [|? ? Or Ot]; subst. inversion FR as [|? ? Rr Rt]; subst.
    destruct Or as (O0 & (a & d & p & F & R)). destruct Rr as (w & RV).
    destruct (find_sec_inv _ _ _ _ _ _ W F) as (_ & _ & R0 & _ & R1).
    set (x := r_offset r + B) in *.
    assert (Hw : 0 <= w < 4294967296).
    { destruct RV as [(_ & v & _ & E)|(_ & v0 & _ & _ & E)]; [subst w; lia|assumption]. }
    destruct (set32_within false m x w a d p W F R) as (m1 & E1 & W1 & A1 & L1).
    assert (STEP : relocs_x86 B dynsyms st (r :: t) m = relocs_x86 B dynsyms st t m1).
    { cbn [relocs_x86]. destruct RV as [(Sr & v & (s & Ns & Gs) & Ew)|(T & v0 & Rd & Ew & _)].
      - destruct Sr as [T|[T|T]]; rewrite T; cbn [Z.eqb Pos.eqb orb]; rewrite Ns, Gs;
          rewrite uadd_ok by (unfold x in *; lia); cbn [bind]; fold x; rewrite <- Ew; rewrite E1; reflexivity.
      - rewrite T. cbn [Z.eqb Pos.eqb orb]. rewrite uadd_ok by (unfold x in *; lia). cbn [bind]. fold x.
        destruct (get32_within false m x a d p W F R) as (v & Rv & G). rewrite G. cbn [bind].
        fold x in Rd. rewrite Rd in Rv. inversion Rv; subst v. rewrite <- Ew.
        destruct (Z.leb_spec 4294967296 w); [lia|]. rewrite E1. reflexivity. }
    assert (FRAME1 : forall r0, In r0 t -> forall y, r_offset r0 + B <= y < r_offset r0 + B + 4 -> abs m1 y = abs m y).
    { intros r0 Hr0 y Hy. rewrite A1. unfold write32.
      pose proof (proj1 (Forall_forall _ _) Ar r0 Hr0) as AP. unfold apart in AP. unfold x.
      destruct (Z.leb_spec (r_offset r + B) y); destruct (Z.ltb_spec y (r_offset r + B + 4)); cbn [andb]; try reflexivity. lia. }
    assert (FO1 : Forall (fun r0 => 0 <= r_offset r0 /\ slot_ok m1 (r_offset r0 + B)) t).
    { eapply Forall_impl; [|exact Ot]. cbn. intros r0 (H0 & H1). split; [assumption|]. eapply slot_ok_shape; [exact L1|exact H1]. }
    assert (FR1 : Forall (fun r0 => exists w0, rel_val B dynsyms st m1 r0 w0) t).
    { apply Forall_forall. intros r0 Hr0. destruct (proj1 (Forall_forall _ _) Rt r0 Hr0) as (w0 & RV0).
      exists w0. eapply rel_val_frame; [|exact RV0]. apply FRAME1; assumption. }
    destruct (IH m1 W1 HB At FO1 FR1) as (m' & E' & W' & L' & RD & FRM).
    exists m'. split; [rewrite STEP; exact E'|]. split; [assumption|]. split; [rewrite L'; exact L1|]. split.
    + intros r0 w0 [H|H] Rv0.
      * subst r0. assert (w0 = w).
        { destruct Rv0 as [(S1 & v & (s & Ns & Gs) & E)|(T1 & v0 & Rd & E & _)];
          destruct RV as [(S2 & v2 & (s2 & Ns2 & Gs2) & E2)|(T2 & v2 & Rd2 & E2 & _)].
          - rewrite Ns in Ns2. inversion Ns2; subst s2. rewrite Gs in Gs2. inversion Gs2; subst. reflexivity.
          - exfalso. destruct S1 as [S1|[S1|S1]]; rewrite S1 in T2; discriminate.
          - exfalso. destruct S2 as [S2|[S2|S2]]; rewrite S2 in T1; discriminate.
          - rewrite Rd in Rd2. inversion Rd2; subst. reflexivity. }
        subst w0. fold x.
        rewrite (read32_ext false (abs m') (write32 false (abs m) x w) x).
        -- apply read32_write32; [assumption|]. intros y Hy.
           destruct (abs_in_section m x y a d p W F ltac:(lia)) as (b & _ & Ab). congruence.
        -- intros y Hy. rewrite FRM; [apply A1|]. intros r0 Hr0.
           pose proof (proj1 (Forall_forall _ _) Ar r0 Hr0) as AP. unfold apart in AP. unfold x in Hy. lia.
      * apply RD; [assumption|]. eapply rel_val_frame; [|exact Rv0]. apply FRAME1; assumption.
    + intros y Hy. rewrite FRM by (intros r0 Hr0; apply Hy; right; assumption). rewrite A1. unfold write32.
      pose proof (Hy r (or_introl eq_refl)) as Hyr. fold x in Hyr.
      destruct (Z.leb_spec x y); destruct (Z.ltb_spec y (x + 4)); cbn [andb]; try reflexivity. lia.
Qed.

(* ------------------------------------------------------------------ from the description: each PT_LOAD is one stored section *)
Definition segs_apart (a b : phdr) : Prop :=
  p_type a = 1 -> p_type b = 1 ->
  p_vaddr a + p_memsz a <= p_vaddr b \/ p_vaddr b + p_memsz b <= p_vaddr a.

Lemma copy_sections_eq (l : sections Z) : forall m, copy_sections m l = copy_all m l.
Proof. induction l as [|[a [d p]] t IH]; intros m; [reflexivity|]. cbn [copy_sections copy_all]. destruct (set_memory m a d p); cbn [bind]; auto. Qed.

Lemma load_segs_in file base phs : forall m,
  Forall (seg_wf file base) phs -> ForallOrdPairs segs_apart phs -> wf 0 m ->
  (forall ph, In ph phs -> p_type ph = 1 -> forall y, p_vaddr ph + base <= y < p_vaddr ph + base + p_memsz ph -> abs m y = None) ->
  exists m', load_segs base file phs m = Ok m' /\ wf 0 m' /\ (forall x, In x m -> In x m') /\
    (forall ph, In ph phs -> p_type ph = 1 -> 0 < p_memsz ph ->
       exists bytes, In (p_vaddr ph + base, (bytes, perms_of_flags (p_flags ph))) m' /\ len bytes = p_memsz ph).
Proof.
  induction phs as [|ph t IH]; intros m F A W H.
  - exists m. split; [reflexivity|]. split; [assumption|]. split; [auto|]. intros ph [].
  - inversion F as [|? ? Hph Ft]; subst. inversion A as [|? ? Aph At]; subst. cbn [load_segs].
    destruct (Z.eqb_spec (p_type ph) 1) as [T|T].
    + destruct (seg_bytes_spec file base ph T Hph) as (bytes & Eb & Lb & _).
      destruct (Hph T) as (O & Fz & FL & FU & FM & V & B & E & FLG).
      rewrite Eb. cbn [bind]. rewrite uadd_ok by lia. cbn [bind].
      assert (STEP : exists m1, set_memory m (p_vaddr ph + base) bytes (perms_of_flags (p_flags ph)) = Ok m1 /\ wf 0 m1 /\
                (forall x, In x m -> In x m1) /\
                (0 < p_memsz ph -> In (p_vaddr ph + base, (bytes, perms_of_flags (p_flags ph))) m1) /\
                (forall y, abs m1 y = overwrite (abs m) (p_vaddr ph + base) bytes (perms_of_flags (p_flags ph)) y)).
      { destruct (Z.eq_dec (p_memsz ph) 0) as [Z0|NZ].
        - destruct (set_memory_spec m (p_vaddr ph + base) bytes (perms_of_flags (p_flags ph)) W ltac:(lia) ltac:(lia)) as (m1 & E1 & W1 & A1).
          assert (bytes = []) by (apply len_nil_inv; lia). subst bytes. cbn in E1. inversion E1; subst m1.
          exists m. split; [reflexivity|]. split; [assumption|]. split; [auto|]. split; [lia|assumption].
        - assert (Fr : free m (p_vaddr ph + base) (len bytes)).
          { eapply abs_none_free; [exact W|lia|]. intros y Ry. apply (H ph (or_introl eq_refl) T). lia. }
          destruct (set_memory_free m (p_vaddr ph + base) bytes (perms_of_flags (p_flags ph)) W ltac:(lia) ltac:(lia) ltac:(lia) Fr)
            as (m1 & E1 & W1 & I1 & P1 & A1).
          exists m1. repeat split; auto. }
      destruct STEP as (m1 & E1 & W1 & P1 & I1 & A1). rewrite E1. cbn [bind].
      assert (H1 : forall ph', In ph' t -> p_type ph' = 1 -> forall y, p_vaddr ph' + base <= y < p_vaddr ph' + base + p_memsz ph' -> abs m1 y = None).
      { intros ph' I' T' y Ry. rewrite A1. unfold overwrite.
        pose proof (proj1 (Forall_forall _ _) Aph ph' I' T T') as AP.
        assert (N : region_at (p_vaddr ph + base) bytes (perms_of_flags (p_flags ph)) y = None) by (apply region_at_none; lia).
        rewrite N. apply (H ph' (or_intror I') T'). assumption. }
      destruct (IH m1 Ft At W1 H1) as (m' & E' & W' & Pm & Pl).
      exists m'. split; [assumption|]. split; [assumption|]. split; [auto|].
      intros ph' [Eq|I'] T' M'; [subst ph'; exists bytes; split; [apply Pm, I1; assumption|assumption]|apply Pl; assumption].
    + assert (H1 : forall ph', In ph' t -> p_type ph' = 1 -> forall y, p_vaddr ph' + base <= y < p_vaddr ph' + base + p_memsz ph' -> abs m y = None)
        by (intros ph' I'; apply H; right; assumption).
      destruct (IH m Ft At W H1) as (m' & E' & W' & Pm & Pl).
      exists m'. split; [assumption|]. split; [assumption|]. split; [auto|].
      intros ph' [Eq|I'] T' M'; [subst ph'; congruence|apply Pl; assumption].
Qed.

Lemma image_at_range file base phs x : forall r, image_at file base phs x = Some r ->
  exists ph, In ph phs /\ p_type ph = 1 /\ p_vaddr ph + base <= x < p_vaddr ph + base + p_memsz ph.
Proof.
  induction phs as [|ph t IH]; intros r; [discriminate|]. cbn [image_at]. destruct (image_at file base t x) eqn:E.
  - intros _. destruct (IH _ eq_refl) as (ph' & I' & R). exists ph'. split; [right; assumption|assumption].
  - destruct (Z.eqb_spec (p_type ph) 1); cbn [andb]; [|discriminate].
    destruct (Z.leb_spec (p_vaddr ph + base) x); destruct (Z.ltb_spec x (p_vaddr ph + base + p_memsz ph)); cbn [andb]; try discriminate.
    intros _. exists ph. split; [left; reflexivity|]. split; [assumption|lia].
Qed.

(* well-formed two-object link, as a predicate on the description: both objects' PT_LOAD headers well-formed and
   pairwise apart, no library segment overlaps a main segment, the library has no relocations of its own, main's
   symbolic relocations have pairwise disjoint 4-byte slots, each inside one PT_LOAD segment of main *)
Definition in_load (e : elfd) (off : Z) : Prop :=
  exists ph, In ph (e_phdrs e) /\ p_type ph = 1 /\ p_vaddr ph <= off /\ off + 4 <= p_vaddr ph + p_memsz ph.

Record link_wf (main : elfd) (mrels : list rel) (lib : elfd) (lrels : list rel) : Prop := {
  lw_main : Forall (seg_wf (e_file main) 0) (e_phdrs main);
  lw_lib : Forall (seg_wf (e_file lib) LIB_BASE) (e_phdrs lib);
  lw_main_apart : ForallOrdPairs segs_apart (e_phdrs main);
  lw_lib_apart : ForallOrdPairs segs_apart (e_phdrs lib);
  lw_cross : forall a b, In a (e_phdrs main) -> In b (e_phdrs lib) -> p_type a = 1 -> p_type b = 1 ->
             p_vaddr a + p_memsz a <= p_vaddr b + LIB_BASE \/ p_vaddr b + LIB_BASE + p_memsz b <= p_vaddr a;
  lw_lib_norel : lrels ++ e_pltrelocs lib = [];
  lw_slots_apart : ForallOrdPairs apart (mrels ++ e_pltrelocs main);
  lw_slots_in : Forall (fun r => 0 <= r_offset r /\ in_load main (r_offset r)) (mrels ++ e_pltrelocs main) }.

(* [U] reloc_once for the two-object link, from the description alone: the link succeeds and every relocation
   slot of main reads the word its relocation prescribes (for symbolic kinds: the registered address of the
   symbol, which by reloc_once_partial is st_value + base of the defining object, once) *)
Theorem link2_reloc_once main mrels lib lrels ex1 ex2 :
  link_wf main mrels lib lrels ->
  exported 0 (e_dynsyms main) = Ok ex1 -> exported LIB_BASE (e_dynsyms lib) = Ok ex2 ->
  Forall symbolic (mrels ++ e_pltrelocs main) ->
  Forall (fun r => exists v, resolves (e_dynsyms main) (st_add (st_add [] ex1) ex2) r v) (mrels ++ e_pltrelocs main) ->
  exists m', link2 main mrels lib lrels = Ok m' /\ wf 0 m' /\
    forall r v, In r (mrels ++ e_pltrelocs main) -> resolves (e_dynsyms main) (st_add (st_add [] ex1) ex2) r v ->
                read32 false (abs m') (r_offset r + 0) = Some (v mod 4294967296).
Proof.
  intros LW E1 E2 FS FR. destruct LW as [Lm Ll Am Al Cx NR SA SI].
  unfold link2.
  (* main *)
  destruct (load_segs_in (e_file main) 0 (e_phdrs main) [] Lm Am I ltac:(reflexivity)) as (mm & Emm & Wmm & _ & Imm).
  destruct (memory_image_thm main 0 Lm) as (mm' & Emm' & _ & Amm). unfold memory in *. rewrite Emm in Emm'. inversion Emm'; subst mm'.
  rewrite Emm. cbn [bind]. rewrite copy_sections_eq.
  destruct (copy_all_free mm 0 [] Wmm ltac:(lia) I ltac:(reflexivity)) as (m1 & Em1 & Wm1 & _ & I1 & A1).
  rewrite Em1. cbn [bind]. rewrite E1. cbn [bind].
  (* library *)
  destruct (memory_image_thm lib LIB_BASE Ll) as (lm & Elm & Wlm & Alm). unfold memory in Elm. rewrite Elm. cbn [bind].
  rewrite copy_sections_eq.
  assert (FREE : forall y, abs lm y <> None -> abs m1 y = None).
  { intros y Hy. rewrite A1. cbn [abs]. unfold empty_map.
    destruct (abs mm y) as [r|] eqn:Am0; [|reflexivity]. exfalso.
    rewrite Amm in Am0. apply image_at_range in Am0. destruct Am0 as (pa & Ia & Ta & Ra).
    rewrite Alm in Hy. destruct (image_at (e_file lib) LIB_BASE (e_phdrs lib) y) eqn:Il; [|congruence].
    apply image_at_range in Il. destruct Il as (pb & Ib & Tb & Rb).
    destruct (Cx pa pb Ia Ib Ta Tb); lia. }
  destruct (copy_all_free lm 0 m1 Wlm ltac:(lia) Wm1 FREE) as (m2 & Em2 & Wm2 & P2 & _ & A2).
  rewrite Em2. cbn [bind]. rewrite E2. cbn [bind]. rewrite NR. cbn [relocs_x86 bind].
  (* main's relocations *)
  assert (SLOTS : Forall (fun r => 0 <= r_offset r /\ slot_ok m2 (r_offset r + 0)) (mrels ++ e_pltrelocs main)).
  { eapply Forall_impl; [|exact SI]. cbn. intros r (O0 & ph & Iph & T & V1 & V2). split; [assumption|].
    assert (M : 0 < p_memsz ph) by lia.
    destruct (Imm ph Iph T M) as (bytes & Ib & Lb).
    exists (p_vaddr ph + 0), bytes, (perms_of_flags (p_flags ph)). split; [|lia].
    eapply In_find_sec; [exact Wm2| |lia]. apply P2, I1. exact Ib. }
  destruct (relocs_x86_once 0 (e_dynsyms main) (st_add (st_add [] ex1) ex2) (mrels ++ e_pltrelocs main) m2 Wm2 ltac:(lia) FS SA SLOTS FR)
    as (m' & E' & W' & _ & RD & _).
  exists m'. split; [exact E'|]. split; [assumption|exact RD].
Qed.
