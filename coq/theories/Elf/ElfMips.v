(* Elf/ElfMips.v -- reloc_once for the modelled relocations_mips: whenever the pass succeeds, every external
   global GOT entry holds the registered address of the symbol it names (mod 2^32), provided the R_MIPS_REL32
   slots stay clear of those GOT words.  Both endiannesses. *)
From Coq Require Import ZArith List Bool Lia String.
From Falcon Require Import Base.Res IL.Const Mem.Backing Mem.BackingSpec Mem.BackingProofs Elf.ElfModel Elf.ElfProofs Elf.ElfLink.
Import ListNotations.
Local Open Scope Z_scope.
Ltac Zify.zify_post_hook ::= Z.div_mod_to_equations.

Lemma value_mem_bytes be w : 0 <= w < 4294967296 -> value_of be (mem_bytes32 be w) = w.
Proof.
  intros H. unfold value_of, mem_bytes32. destruct be; [rewrite rev_involutive|]; apply le_bytes32_value; assumption.
Qed.

Lemma read32_write32_be be (m : amap Z) x w :
  0 <= w < 4294967296 -> (forall y, x <= y < x + 4 -> m y <> None) ->
  read32 be (write32 be m x w) x = Some w.
Proof.
  intros Hw Hm. unfold read32. cbn [read_bytes]. unfold read8, write32.
  assert (C : forall k, 0 <= k < 4 ->
     option_map fst (if (x <=? x + k) && (x + k <? x + 4)
                     then match m (x + k), nth_error (mem_bytes32 be w) (Z.to_nat (x + k - x)) with
                          | Some (_, t), Some b => Some (b, t) | _, _ => None end
                     else m (x + k)) = nth_error (mem_bytes32 be w) (Z.to_nat k)).
  { intros k Hk. destruct (Z.leb_spec x (x + k)); destruct (Z.ltb_spec (x + k) (x + 4)); try lia. cbn [andb].
    replace (x + k - x) with k by lia.
    destruct (m (x + k)) as [[b0 t]|] eqn:E; [|exfalso; apply (Hm (x + k)); [lia|assumption]].
    destruct (nth_error (mem_bytes32 be w) (Z.to_nat k)) eqn:N; [reflexivity|].
    apply nth_error_None in N. assert (List.length (mem_bytes32 be w) = 4%nat) by (destruct be; reflexivity). lia. }
  pose proof (C 0 ltac:(lia)) as C0. pose proof (C 1 ltac:(lia)) as C1.
  pose proof (C 2 ltac:(lia)) as C2. pose proof (C 3 ltac:(lia)) as C3.
  replace (x + 0) with x in C0 by lia. replace (x + 1 + 1) with (x + 2) by lia. replace (x + 2 + 1) with (x + 3) by lia.
  rewrite C0, C1, C2, C3.
  change (Z.to_nat 0) with 0%nat. change (Z.to_nat 1) with 1%nat. change (Z.to_nat 2) with 2%nat. change (Z.to_nat 3) with 3%nat.
  rewrite <- (value_mem_bytes be w Hw) at 2.
  destruct be; unfold mem_bytes32, le_bytes32; cbn [rev app nth_error option_map]; reflexivity.
Qed.

(* a 32-bit write that returned Ok: invariant kept, the slot reads the value, nothing else altered *)
Lemma set32_ok be (m m' : sections Z) x w : wf 0 m -> 0 <= w < 4294967296 -> set32 be m x w = Ok m' ->
  wf 0 m' /\ read32 be (abs m') x = Some w /\ (forall y, ~ (x <= y < x + 4) -> abs m' y = abs m y).
Proof.
  intros W Hw E. pose proof (set32_spec_thm be m x w W) as S.
  destruct (find_sec m x) as [[a [d p]]|] eqn:F; [|congruence].
  destruct (Z.leb_spec (x + 4) (a + len d)); [|congruence].
  destruct S as (m1 & E1 & W1 & A1 & _). rewrite E in E1. inversion E1; subst m1. split; [assumption|]. split.
  - rewrite (read32_ext be (abs m') (write32 be (abs m) x w) x) by (intros; apply A1).
    apply read32_write32_be; [assumption|]. intros y Hy.
    destruct (find_sec_inv _ _ _ _ _ _ W F) as (_ & _ & R0 & _).
    destruct (abs_in_section m x y a d p W F ltac:(lia)) as (b & _ & Ab). congruence.
  - intros y Hy. rewrite A1. unfold write32.
    destruct (Z.leb_spec x y); destruct (Z.ltb_spec y (x + 4)); cbn [andb]; try reflexivity. lia.
Qed.

Lemma mod_u32 v : 0 <= v mod U32 < 4294967296.
Proof. unfold U32. lia. Qed.

(* first loop: keeps the invariant *)
Lemma mips_got_base_wf be B pltgot k : forall i m m', wf 0 m -> mips_got_base be B pltgot i k m = Ok m' -> wf 0 m'.
Proof.
  induction k as [|k IH]; intros i m m' W E; [cbn in E; inversion E; subst; assumption|].
  cbn [mips_got_base] in E.
  destruct (uadd B (i * 4)) as [a1| |]; cbn [bind] in E; try discriminate.
  destruct (uadd a1 pltgot) as [a| |]; cbn [bind] in E; try discriminate.
  destruct (get32 be m a) as [[v|]| |]; cbn [bind ok_or] in E; try discriminate.
  destruct (set32 be m a ((v + B mod U32) mod U32)) as [m1| |] eqn:E1; cbn [bind] in E; try discriminate.
  eapply IH; [|exact E]. eapply set32_ok; [exact W|apply mod_u32|exact E1].
Qed.

(* second loop: every external entry (st_shndx = 0) holds the registered address of its symbol *)
Lemma mips_got_ext_once be dynsyms st k : forall addr i m m',
  wf 0 m -> 0 <= addr -> mips_got_ext be dynsyms st addr i k m = Ok m' ->
  wf 0 m' /\
  (forall j s v, 0 <= j < Z.of_nat k -> nth_sym dynsyms (i + j) = Some s -> s_shndx s = 0 -> st_get st (s_name s) = Some v ->
                 read32 be (abs m') (addr + 4 * j) = Some (v mod U32)) /\
  (forall y, ~ (addr <= y < addr + 4 * Z.of_nat k) -> abs m' y = abs m y).
Proof.
  induction k as [|k IH]; intros addr i m m' W A E.
  - cbn in E. inversion E; subst. split; [assumption|]. split; [intros; lia|reflexivity].
  - cbn [mips_got_ext] in E.
    destruct (nth_sym dynsyms i) as [s0|] eqn:N0; cbn [bind ok_or] in E; [|discriminate].
    set (step := if s_shndx s0 =? 0 then match st_get st (s_name s0) with Some v => set32 be m addr (v mod U32) | None => Err EOther end else Ok m) in E.
    destruct step as [m1| |] eqn:ES; cbn [bind] in E; try discriminate.
    unfold uadd in E. destruct (Z.ltb_spec (addr + 4) U64) as [LU|]; [|discriminate]. cbn [bind] in E.
    assert (S1 : wf 0 m1 /\ (forall y, ~ (addr <= y < addr + 4) -> abs m1 y = abs m y) /\
                 (s_shndx s0 = 0 -> forall v, st_get st (s_name s0) = Some v -> read32 be (abs m1) addr = Some (v mod U32))).
    { unfold step in ES. destruct (Z.eqb_spec (s_shndx s0) 0) as [Z0|NZ].
      - destruct (st_get st (s_name s0)) as [v0|] eqn:G; [|discriminate].
        destruct (set32_ok be m m1 addr (v0 mod U32) W (mod_u32 v0) ES) as (W1 & R1 & F1).
        split; [assumption|]. split; [assumption|]. intros _ v Hv. inversion Hv; subst. assumption.
      - inversion ES; subst. split; [assumption|]. split; [reflexivity|]. intros; contradiction. }
    destruct S1 as (W1 & F1 & R1).
    destruct (IH (addr + 4) (i + 1) m1 m' W1 ltac:(lia) E) as (W' & RD & FR).
    split; [assumption|]. split.
    + intros j s v Hj Ns Sh G. destruct (Z.eq_dec j 0) as [J0|JN].
      * subst j. replace (i + 0) with i in Ns by lia. rewrite N0 in Ns. inversion Ns; subst s0.
        replace (addr + 4 * 0) with addr by lia.
        rewrite (read32_ext be (abs m') (abs m1) addr) by (intros y Hy; apply FR; lia).
        apply R1; assumption.
      * replace (addr + 4 * j) with (addr + 4 + 4 * (j - 1)) by lia.
        apply (RD (j - 1) s v); [lia| |assumption|assumption]. replace (i + 1 + (j - 1)) with (i + j) by lia. assumption.
    + intros y Hy. rewrite FR by lia. apply F1. lia.
Qed.

(* third loop: cells outside every R_MIPS_REL32 slot are untouched *)
Lemma mips_rel32_frame be B dynsyms gs lg pg rels : forall m m', wf 0 m ->
  mips_rel32 be B dynsyms gs lg pg rels m = Ok m' ->
  wf 0 m' /\ forall y, (forall r, In r rels -> r_type r = 3 -> ~ (r_offset r + B <= y < r_offset r + B + 4)) -> abs m' y = abs m y.
Proof.
  induction rels as [|r t IH]; intros m m' W E.
  - cbn in E. inversion E; subst. split; [assumption|reflexivity].
  - cbn [mips_rel32] in E. destruct (Z.eqb_spec (r_type r) 3) as [T|T].
    + unfold uadd at 1 in E. destruct (Z.ltb_spec (r_offset r + B) U64); [|discriminate]. cbn [bind] in E.
      destruct (get32 be m (r_offset r + B)) as [[v|]| |]; cbn [bind ok_or] in E; try discriminate.
      destruct (mips_sym_add be B dynsyms gs lg pg m r) as [add| |]; cbn [bind] in E; try discriminate.
      destruct (Z.leb_spec U32 (v + add)); [discriminate|].
      destruct (set32 be m (r_offset r + B) (v + add)) as [m1| |] eqn:E1; cbn [bind] in E; try discriminate.
      pose proof (set32_spec_thm be m (r_offset r + B) (v + add) W) as S.
      destruct (find_sec m (r_offset r + B)) as [[a [d p]]|]; [|congruence].
      destruct (r_offset r + B + 4 <=? a + len d); [|congruence].
      destruct S as (m1' & E1' & W1 & A1 & _). rewrite E1 in E1'. inversion E1'; subst m1'.
      destruct (IH m1 m' W1 E) as (W' & FR). split; [assumption|].
      intros y Hy. rewrite FR by (intros r0 I0; apply Hy; right; assumption). rewrite A1. unfold write32.
      pose proof (Hy r (or_introl eq_refl) T).
      destruct (Z.leb_spec (r_offset r + B) y); destruct (Z.ltb_spec y (r_offset r + B + 4)); cbn [andb]; try reflexivity. lia.
    + destruct (IH m m' W E) as (W' & FR). split; [assumption|].
      intros y Hy. apply FR. intros r0 I0. apply Hy. right. assumption.
Qed.

(* [U] reloc_once for relocations_mips: whenever the pass succeeds on an invariant memory, every external global
   GOT entry -- index i in [gotsym, symtabno), st_shndx = 0, symbol registered at v -- holds v mod 2^32 (for a
   symbol of another object v = its st_value + that object's base, once: reloc_once_partial), provided no
   R_MIPS_REL32 slot overlaps that GOT word *)
Theorem relocs_mips_once be B dynsyms st dyns rels m m' lg gs sn pg :
  wf 0 m -> 0 <= B -> 0 <= pg -> 0 <= lg ->
  dyn_get dyns 1879048202 = Some lg -> dyn_get dyns 1879048211 = Some gs ->
  dyn_get dyns 1879048209 = Some sn -> dyn_get dyns 3 = Some pg ->
  relocs_mips be B dynsyms st dyns rels m = Ok m' ->
  wf 0 m' /\
  forall i s v, gs <= i < sn -> nth_sym dynsyms i = Some s -> s_shndx s = 0 -> st_get st (s_name s) = Some v ->
    (forall r, In r rels -> r_type r = 3 ->
       r_offset r + B + 4 <= pg + B + lg * 4 + 4 * (i - gs) \/ pg + B + lg * 4 + 4 * (i - gs) + 4 <= r_offset r + B) ->
    read32 be (abs m') (pg + B + lg * 4 + 4 * (i - gs)) = Some (v mod U32).
Proof.
  intros W HB HP HL D1 D2 D3 D4 E. unfold relocs_mips in E. rewrite D1, D2, D3, D4 in E. cbn [ok_or bind] in E.
  unfold usub64 in E. destruct (Z.ltb_spec sn gs); [discriminate|]. cbn [bind] in E.
  destruct (uadd lg (sn - gs)) as [cnt| |]; cbn [bind] in E; try discriminate.
  destruct (mips_got_base be B pg 0 (Z.to_nat cnt) m) as [m1| |] eqn:E1; cbn [bind] in E; try discriminate.
  pose proof (mips_got_base_wf _ _ _ _ _ _ _ W E1) as W1.
  unfold uadd at 1 in E. destruct (Z.ltb_spec (pg + B) U64); [|discriminate]. cbn [bind] in E.
  unfold uadd at 1 in E. destruct (Z.ltb_spec (pg + B + lg * 4) U64); [|discriminate]. cbn [bind] in E.
  destruct (mips_got_ext be dynsyms st (pg + B + lg * 4) gs (Z.to_nat (sn - gs)) m1) as [m2| |] eqn:E2; cbn [bind] in E; try discriminate.
  assert (A0 : 0 <= pg + B + lg * 4) by lia.
  destruct (mips_got_ext_once _ _ _ _ _ _ _ _ W1 A0 E2) as (W2 & RD & _).
  destruct (mips_rel32_frame _ _ _ _ _ _ _ _ _ W2 E) as (W' & FR). split; [assumption|].
  intros i s v Hi Ns Sh G AP.
  rewrite (read32_ext be (abs m') (abs m2) (pg + B + lg * 4 + 4 * (i - gs))).
  - apply (RD (i - gs) s v); [lia| |assumption|assumption]. replace (gs + (i - gs)) with i by lia. assumption.
  - intros y Hy. apply FR. intros r I0 T. destruct (AP r I0 T); lia.
Qed.
