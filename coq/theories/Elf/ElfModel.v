(* Elf/ElfModel.v -- model of lib/loader/elf/elf.rs and of the bookkeeping of elf_linker.rs, starting
   AFTER goblin: the input is the parsed view (header fields, program headers, symbol tables, PLT
   relocations) plus the raw file bytes.  Follows the code after the repairs recorded in notes/C19.md
   (program_entry and PLT-relocation symbols rebased; ElfLinker registers exported symbols once-rebased). *)
From Coq Require Import ZArith List Bool String Ascii.
From Falcon Require Import Base.Res IL.Const Mem.Backing.
Import ListNotations.
Local Open Scope Z_scope.

Record phdr := mkph { p_type : Z; p_flags : Z; p_offset : Z; p_vaddr : Z; p_filesz : Z; p_memsz : Z }.
Record sym := mksym { s_name : string; s_value : Z; s_shndx : Z; s_info : Z }.
Record rel := mkrel { r_offset : Z; r_sym : Z; r_type : Z }.
Record elfd := mkelfd {
  e_machine : Z; e_big : bool; e_entry : Z; e_phdrs : list phdr; e_file : list Z;
  e_dynsyms : list sym; e_syms : list sym; e_pltrelocs : list rel; e_users : list Z }.

(* ------------------------------------------------------------------ Elf::new: architecture selection *)
Inductive arch := AX86 | AMips | AMipsel | APpc | AAmd64 | AAArch64 | AAArch64Eb.

Definition arch_of (machine : Z) (big : bool) : res arch :=
  if machine =? 3 then Ok AX86
  else if machine =? 8 then Ok (if big then AMips else AMipsel)
  else if machine =? 20 then (if big then Ok APpc else Err EOther)       (* "PPC Little-Endian not supported" *)
  else if machine =? 62 then Ok AAmd64
  else if machine =? 183 then Ok (if big then AAArch64Eb else AAArch64)
  else Err EOther.                                                        (* UnsupportedArchitecture *)

Definition arch_name (a : arch) : string :=
  match a with
  | AX86 => "x86" | AMips => "mips" | AMipsel => "mipsel" | APpc => "ppc"
  | AAmd64 => "amd64" | AAArch64 => "aarch64" | AAArch64Eb => "aarch64eb"
  end.
Definition arch_big (a : arch) : bool :=
  match a with AMips | APpc | AAArch64Eb => true | _ => false end.

(* ------------------------------------------------------------------ memory() *)
(* Vec::get(start..end) *)
Definition slice (l : list Z) (a b : Z) : option (list Z) :=
  if (a <=? b) && (b <=? len l) then Some (firstn_z (b - a) (skipn_z a l)) else None.

Definition perms_of_flags (fl : Z) : Z :=
  (if Z.testbit fl 2 then 1 else 0) + (if Z.testbit fl 1 then 2 else 0) + (if Z.testbit fl 0 then 4 else 0).

Definition usub64 (a b : Z) : res Z := if a <? b then Panic else Ok (a - b).

Definition seg_bytes (file : list Z) (ph : phdr) : res (list Z) :=
  e <- uadd (p_offset ph) (p_filesz ph) ;;
  match slice file (p_offset ph) e with
  | None => Err EOther                                    (* FalconInternal("Malformed Elf") *)
  | Some bytes =>
      if len bytes =? p_memsz ph then Ok bytes
      else (z <- usub64 (p_memsz ph) (p_filesz ph) ;; Ok (bytes ++ repeat 0 (Z.to_nat z)))
  end.

Fixpoint load_segs (base : Z) (file : list Z) (phs : list phdr) (m : sections Z) : res (sections Z) :=
  match phs with
  | [] => Ok m
  | ph :: t =>
      if p_type ph =? 1 then
        bytes <- seg_bytes file ph ;;
        a <- uadd (p_vaddr ph) base ;;
        m' <- set_memory m a bytes (perms_of_flags (p_flags ph)) ;;
        load_segs base file t m'
      else load_segs base file t m
  end.

Definition memory (e : elfd) (base : Z) : res (sections Z) := load_segs base (e_file e) (e_phdrs e) [].

(* ------------------------------------------------------------------ function_entries() *)
Definition fentry : Type := (Z * option string)%type.

(* BTreeMap<u64, FunctionEntry>::insert *)
Fixpoint fe_insert (m : list (Z * fentry)) (k : Z) (v : fentry) : list (Z * fentry) :=
  match m with
  | [] => [(k, v)]
  | (a, w) :: t => if k <? a then (k, v) :: (a, w) :: t
                   else if k =? a then (k, v) :: t
                   else (a, w) :: fe_insert t k v
  end.
Fixpoint fe_mem (m : list (Z * fentry)) (k : Z) : bool :=
  match m with [] => false | (a, _) :: t => (a =? k) || fe_mem t k end.

Definition is_function (s : sym) : bool := (s_info s) mod 16 =? 2.

Fixpoint fe_syms (base : Z) (l : list sym) (m : list (Z * fentry)) : res (list (Z * fentry)) :=
  match l with
  | [] => Ok m
  | s :: t =>
      if is_function s && negb (s_value s =? 0) && (0 <? s_shndx s)
      then (a <- uadd (s_value s) base ;; fe_syms base t (fe_insert m (s_value s) (a, Some (s_name s))))
      else fe_syms base t m
  end.

(* lower-case hexadecimal, no leading zeros ("{:x}") *)
Definition hex_digit (n : Z) : ascii := ascii_of_N (Z.to_N (if n <? 10 then n + 48 else n + 87)).
Fixpoint hex_fuel (f : nat) (v : Z) (acc : string) : string :=
  match f with
  | O => acc
  | S f' => let acc' := String (hex_digit (v mod 16)) acc in
            if v / 16 =? 0 then acc' else hex_fuel f' (v / 16) acc'
  end.
Definition hex_of (v : Z) : string := hex_fuel 17 v EmptyString.

Fixpoint fe_users (base : Z) (l : list Z) (m : list (Z * fentry)) : res (list (Z * fentry)) :=
  match l with
  | [] => Ok m
  | u :: t =>
      if fe_mem m u then fe_users base t m
      else (a <- uadd u base ;;
            fe_users base t (fe_insert m u (a, Some ("user_function_" ++ hex_of u)%string)))
  end.

Definition function_entries (e : elfd) (base : Z) : res (list fentry) :=
  m1 <- fe_syms base (e_dynsyms e) [] ;;
  m2 <- fe_syms base (e_syms e) m1 ;;
  m3 <- (if fe_mem m2 (e_entry e) then Ok m2
         else (a <- uadd (e_entry e) base ;; Ok (fe_insert m2 (e_entry e) (a, None)))) ;;
  m4 <- fe_users base (e_users e) m3 ;;
  Ok (map snd m4).

(* ------------------------------------------------------------------ symbols() *)
Definition symbol : Type := (Z * string)%type.      (* address, name: the derived Ord compares in this order *)

Fixpoint str_cmp (a b : string) : comparison :=
  match a, b with
  | EmptyString, EmptyString => Eq
  | EmptyString, _ => Lt
  | _, EmptyString => Gt
  | String x s, String y t =>
      match N.compare (N_of_ascii x) (N_of_ascii y) with Eq => str_cmp s t | c => c end
  end.
Definition sym_cmp (a b : symbol) : comparison :=
  match Z.compare (fst a) (fst b) with Eq => str_cmp (snd a) (snd b) | c => c end.
Definition sym_leb (a b : symbol) : bool := match sym_cmp a b with Gt => false | _ => true end.
Definition sym_eqb (a b : symbol) : bool := match sym_cmp a b with Eq => true | _ => false end.

Fixpoint sorted_insert (x : symbol) (l : list symbol) : list symbol :=
  match l with
  | [] => [x]
  | y :: t => if sym_leb x y then x :: y :: t else y :: sorted_insert x t
  end.
Definition sort_syms (l : list symbol) : list symbol := fold_right sorted_insert [] l.
Fixpoint dedup (l : list symbol) : list symbol :=
  match l with
  | x :: ((y :: _) as t) => if sym_eqb x y then dedup t else x :: dedup t
  | _ => l
  end.

Fixpoint sym_list (base : Z) (l : list sym) : res (list symbol) :=
  match l with
  | [] => Ok []
  | s :: t =>
      if s_value s =? 0 then sym_list base t
      else (a <- uadd (s_value s) base ;; r <- sym_list base t ;; Ok ((a, s_name s) :: r))
  end.

Definition nth_sym (l : list sym) (i : Z) : option sym := nth_z l i.

Fixpoint plt_list (base : Z) (dynsyms : list sym) (l : list rel) : res (list symbol) :=
  match l with
  | [] => Ok []
  | r :: t =>
      match nth_sym dynsyms (r_sym r) with
      | None => plt_list base dynsyms t
      | Some s => (a <- uadd (r_offset r) base ;; q <- plt_list base dynsyms t ;; Ok ((a, s_name s) :: q))
      end
  end.

Definition symbols (e : elfd) (base : Z) : res (list symbol) :=
  a <- sym_list base (e_dynsyms e) ;;
  b <- sym_list base (e_syms e) ;;
  c <- plt_list base (e_dynsyms e) (e_pltrelocs e) ;;
  Ok (dedup (sort_syms (a ++ b ++ c))).

Definition program_entry (e : elfd) (base : Z) : res Z := uadd (e_entry e) base.

(* exported_symbols(): defined GLOBAL/WEAK dynamic symbols, rebased *)
Fixpoint exported (base : Z) (l : list sym) : res (list symbol) :=
  match l with
  | [] => Ok []
  | s :: t =>
      if (s_value s =? 0) || (s_shndx s =? 0) then exported base t
      else if ((s_info s) / 16 =? 1) || ((s_info s) / 16 =? 2)
           then (a <- uadd (s_value s) base ;; r <- exported base t ;; Ok ((a, s_name s) :: r))
           else exported base t
  end.

(* ------------------------------------------------------------------ ElfLinker (x86, one dependency) *)
Fixpoint copy_sections (m : sections Z) (l : sections Z) : res (sections Z) :=
  match l with
  | [] => Ok m
  | (a, (d, p)) :: t => m' <- set_memory m a d p ;; copy_sections m' t
  end.

Definition symtab : Type := list (string * Z).
Fixpoint st_get (t : symtab) (n : string) : option Z :=
  match t with [] => None | (k, v) :: r => if String.eqb k n then Some v else st_get r n end.
Fixpoint st_add (t : symtab) (l : list symbol) : symtab :=
  match l with
  | [] => t
  | (a, n) :: r => match st_get t n with Some _ => st_add t r | None => st_add (t ++ [(n, a)]) r end
  end.

(* relocations_x86 over dynrelas ++ dynrels ++ pltrelocs; Err ECustom for the unsupported kinds *)
Fixpoint relocs_x86 (base : Z) (dynsyms : list sym) (st : symtab) (l : list rel) (m : sections Z) : res (sections Z) :=
  match l with
  | [] => Ok m
  | r :: t =>
      let ty := r_type r in
      if (ty =? 1) || (ty =? 7) then          (* R_386_32, R_386_JMP_SLOT *)
        match nth_sym dynsyms (r_sym r) with
        | None => Panic
        | Some s =>
            match st_get st (s_name s) with
            | None => Err ECustom
            | Some v => a <- uadd (r_offset r) base ;; m' <- set32 false m a (v mod 4294967296) ;; relocs_x86 base dynsyms st t m'
            end
        end
      else if ty =? 6 then                    (* R_386_GLOB_DAT: unresolved symbols are skipped *)
        match nth_sym dynsyms (r_sym r) with
        | None => Panic
        | Some s =>
            match st_get st (s_name s) with
            | None => relocs_x86 base dynsyms st t m
            | Some v => a <- uadd (r_offset r) base ;; m' <- set32 false m a (v mod 4294967296) ;; relocs_x86 base dynsyms st t m'
            end
        end
      else if ty =? 8 then                    (* R_386_RELATIVE *)
        a <- uadd (r_offset r) base ;;
        g <- get32 false m a ;;
        match g with
        | None => Err ECustom
        | Some v =>
            let w := base mod 4294967296 + v in
            if 4294967296 <=? w then Panic     (* u32 addition overflow *)
            else (m' <- set32 false m a w ;; relocs_x86 base dynsyms st t m')
        end
      else Err ECustom
  end.

Definition LIB_BASE : Z := 1107296256.     (* DEFAULT_LIB_BASE + LIB_BASE_STEP = 0x4200_0000 *)

(* main (base 0) needing exactly one library: load main, register its exports, load the library at
   0x4200_0000, register its exports, relocate the library, relocate main *)
Definition link2 (main : elfd) (mrels : list rel) (lib : elfd) (lrels : list rel) : res (sections Z) :=
  mm <- memory main 0 ;;
  m1 <- copy_sections [] mm ;;
  ex1 <- exported 0 (e_dynsyms main) ;;
  let st1 := st_add [] ex1 in
  lm <- memory lib LIB_BASE ;;
  m2 <- copy_sections m1 lm ;;
  ex2 <- exported LIB_BASE (e_dynsyms lib) ;;
  let st2 := st_add st1 ex2 in
  m3 <- relocs_x86 LIB_BASE (e_dynsyms lib) st2 (lrels ++ e_pltrelocs lib) m2 ;;
  relocs_x86 0 (e_dynsyms main) st2 (mrels ++ e_pltrelocs main) m3.

(* ------------------------------------------------------------------ ElfLinker::relocations_mips *)
(* get_dynamic: the first dynamic entry with this tag *)
Fixpoint dyn_get (dyns : list (Z * Z)) (tag : Z) : option Z :=
  match dyns with [] => None | (t, v) :: r => if t =? tag then Some v else dyn_get r tag end.

Definition ok_or {A} (o : option A) : res A := match o with Some a => Ok a | None => Err ECustom end.
Definition U32 : Z := 4294967296.

(* first loop: add the base to GOT words i, i+1, ... (k of them) *)
Fixpoint mips_got_base (be : bool) (B pltgot : Z) (i : Z) (k : nat) (m : sections Z) : res (sections Z) :=
  match k with
  | O => Ok m
  | S k' =>
      a1 <- uadd B (i * 4) ;; a <- uadd a1 pltgot ;;
      g <- get32 be m a ;; v <- ok_or g ;;
      m' <- set32 be m a ((v + B mod U32) mod U32) ;;        (* value.wrapping_add(base as u32) *)
      mips_got_base be B pltgot (i + 1) k' m'
  end.

(* second loop: external GOT entries (st_shndx = 0) get the registered address of their symbol *)
Fixpoint mips_got_ext (be : bool) (dynsyms : list sym) (st : symtab) (addr : Z) (i : Z) (k : nat) (m : sections Z) : res (sections Z) :=
  match k with
  | O => Ok m
  | S k' =>
      s <- ok_or (nth_sym dynsyms i) ;;
      m' <- (if s_shndx s =? 0
             then match st_get st (s_name s) with
                  | Some v => set32 be m addr (v mod U32)
                  | None => Err EOther                       (* ElfLinkerMissingSymbol *)
                  end
             else Ok m) ;;
      a' <- uadd addr 4 ;;
      mips_got_ext be dynsyms st a' (i + 1) k' m'
  end.

(* third loop (repaired code): R_MIPS_REL32 (type 3) adds to the word the address of the symbol it names -- the
   already relocated GOT entry of a global symbol (r_sym >= gotsym), st_value + base of a local one, the base
   alone when r_sym = 0; other relocation types are ignored *)
Definition mips_sym_add (be : bool) (B : Z) (dynsyms : list sym) (gotsym local_gotno pltgot : Z) (m : sections Z) (r : rel) : res Z :=
  if r_sym r =? 0 then Ok (B mod U32)
  else if r_sym r <? gotsym then
    (s <- ok_or (nth_sym dynsyms (r_sym r)) ;; sv <- uadd (s_value s) B ;; Ok (sv mod U32))
  else
    (a0 <- uadd pltgot B ;;
     d <- usub64 (r_sym r) gotsym ;; i <- uadd local_gotno d ;;
     (if U64 <=? i * 4 then Panic else
      (ga <- uadd a0 (i * 4) ;; g <- get32 be m ga ;; ok_or g))).

Fixpoint mips_rel32 (be : bool) (B : Z) (dynsyms : list sym) (gotsym local_gotno pltgot : Z) (l : list rel) (m : sections Z) : res (sections Z) :=
  match l with
  | [] => Ok m
  | r :: t =>
      if r_type r =? 3 then
        a <- uadd (r_offset r) B ;;
        g <- get32 be m a ;; v <- ok_or g ;;
        add <- mips_sym_add be B dynsyms gotsym local_gotno pltgot m r ;;
        (if U32 <=? v + add then Panic                       (* u32 `value + symbol_address` overflow *)
         else (m' <- set32 be m a (v + add) ;; mips_rel32 be B dynsyms gotsym local_gotno pltgot t m'))
      else mips_rel32 be B dynsyms gotsym local_gotno pltgot t m
  end.

Definition relocs_mips (be : bool) (B : Z) (dynsyms : list sym) (st : symtab) (dyns : list (Z * Z)) (dynrels : list rel)
           (m : sections Z) : res (sections Z) :=
  local_gotno <- ok_or (dyn_get dyns 1879048202) ;;           (* DT_MIPS_LOCAL_GOTNO 0x7000000a *)
  gotsym <- ok_or (dyn_get dyns 1879048211) ;;                (* DT_MIPS_GOTSYM      0x70000013 *)
  symtabno <- ok_or (dyn_get dyns 1879048209) ;;              (* DT_MIPS_SYMTABNO    0x70000011 *)
  pltgot <- ok_or (dyn_get dyns 3) ;;                         (* DT_PLTGOT *)
  nglob <- usub64 symtabno gotsym ;;
  cnt <- uadd local_gotno nglob ;;
  m1 <- mips_got_base be B pltgot 0 (Z.to_nat cnt) m ;;
  a0 <- uadd pltgot B ;; a1 <- uadd a0 (local_gotno * 4) ;;
  m2 <- mips_got_ext be dynsyms st a1 gotsym (Z.to_nat nglob) m1 ;;
  mips_rel32 be B dynsyms gotsym local_gotno pltgot dynrels m2.

(* main (base 0) + one library (0x4200_0000), both EM_MIPS; be = endianness of main's header *)
Definition link2m (be : bool) (main : elfd) (mdyns : list (Z * Z)) (mrels : list rel)
           (lib : elfd) (ldyns : list (Z * Z)) (lrels : list rel) : res (sections Z) :=
  mm <- memory main 0 ;;
  m1 <- copy_sections [] mm ;;
  ex1 <- exported 0 (e_dynsyms main) ;;
  let st1 := st_add [] ex1 in
  lm <- memory lib LIB_BASE ;;
  m2 <- copy_sections m1 lm ;;
  ex2 <- exported LIB_BASE (e_dynsyms lib) ;;
  let st2 := st_add st1 ex2 in
  m3 <- relocs_mips be LIB_BASE (e_dynsyms lib) st2 ldyns lrels m2 ;;
  relocs_mips be 0 (e_dynsyms main) st2 mdyns mrels m3.

(* ------------------------------------------------------------------ several DT_NEEDED libraries (x86) *)
Definition LIB_STEP : Z := 33554432.            (* LIB_BASE_STEP = 0x0200_0000 *)
Definition LIB_BASE0 : Z := 1073741824.         (* DEFAULT_LIB_BASE = 0x4000_0000 *)

(* load_elf of each library in DT_NEEDED order (libraries without dependencies of their own): the next base, its
   memory, its exports, then ITS relocations -- with the symbols registered so far, later libraries not yet *)
Fixpoint load_libs (libs : list (elfd * list rel)) (base : Z) (m : sections Z) (st : symtab) : res (sections Z * symtab) :=
  match libs with
  | [] => Ok (m, st)
  | (l, lr) :: t =>
      B <- uadd base LIB_STEP ;;
      lm <- memory l B ;;
      m1 <- copy_sections m lm ;;
      ex <- exported B (e_dynsyms l) ;;
      let st1 := st_add st ex in
      m2 <- relocs_x86 B (e_dynsyms l) st1 (lr ++ e_pltrelocs l) m1 ;;
      load_libs t B m2 st1
  end.

Definition linkn (main : elfd) (mrels : list rel) (libs : list (elfd * list rel)) : res (sections Z) :=
  mm <- memory main 0 ;;
  m1 <- copy_sections [] mm ;;
  ex1 <- exported 0 (e_dynsyms main) ;;
  r <- load_libs libs LIB_BASE0 m1 (st_add [] ex1) ;;
  relocs_x86 0 (e_dynsyms main) (snd r) (mrels ++ e_pltrelocs main) (fst r).

Lemma linkn_one main mrels lib lrels : linkn main mrels [(lib, lrels)] = link2 main mrels lib lrels.
Proof.
  unfold linkn, link2. destruct (memory main 0); cbn [bind]; try reflexivity.
  destruct (copy_sections [] a); cbn [bind]; try reflexivity.
  destruct (exported 0 (e_dynsyms main)); cbn [bind]; try reflexivity.
  cbn [load_libs]. change (uadd LIB_BASE0 LIB_STEP) with (Ok LIB_BASE). cbn [bind].
  destruct (memory lib LIB_BASE); cbn [bind]; try reflexivity.
  destruct (copy_sections a0 a2); cbn [bind]; try reflexivity.
  destruct (exported LIB_BASE (e_dynsyms lib)); cbn [bind]; try reflexivity.
  destruct (relocs_x86 LIB_BASE (e_dynsyms lib) _ _ a3); cbn [bind fst snd]; reflexivity.
Qed.

(* just_interpreter: only the PT_INTERP object is loaded, at DEFAULT_LIB_BASE itself; DT_NEEDED is ignored *)
Definition link_interp (main : elfd) (mrels : list rel) (interp : elfd) (irels : list rel) : res (sections Z) :=
  mm <- memory main 0 ;;
  m1 <- copy_sections [] mm ;;
  ex1 <- exported 0 (e_dynsyms main) ;;
  let st1 := st_add [] ex1 in
  lm <- memory interp LIB_BASE0 ;;
  m2 <- copy_sections m1 lm ;;
  ex2 <- exported LIB_BASE0 (e_dynsyms interp) ;;
  let st2 := st_add st1 ex2 in
  m3 <- relocs_x86 LIB_BASE0 (e_dynsyms interp) st2 (irels ++ e_pltrelocs interp) m2 ;;
  relocs_x86 0 (e_dynsyms main) st2 (mrels ++ e_pltrelocs main) m3.
