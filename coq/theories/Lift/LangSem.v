(* Lift/LangSem.v -- the link between the position-level executor of Lift/Lang.v (pexec) and the reference
   IL semantics Exec/Sem.v (sem_step / sem_run), and with it C06's  lang_eq_exec  for Sem itself:

     lang_bisim (f_cfg f1) (f_cfg f2) = true, both graphs det and sem_wf  ==>
     for every initial state and every number m1 of Sem steps of f1 there is a number m2 of Sem steps of f2 such
     that the two runs have executed the same instructions (address, operation) in the same order and gone through
     the same states -- and conversely.

   sem_obs m f st  is read off  Sem.sem_run m f (entry location) st  : the (instruction item, state after it) of
   every trace item that sits on an instruction whose operation executes (exec_op succeeds and is not an
   indirect branch). *)
From Coq Require Import ZArith List Bool NArith Lia.
From Falcon Require Import Base.Res IL.Const IL.Expr IL.Func IL.Loc Exec.Sem.
From Falcon Require Import Lift.Lang.
Import ListNotations.
Local Open Scope Z_scope.

(* ------------------------------------------------------------------ Exec/Sem.v as an interpretation of the items *)
Definition is_branch_ev (ev : event) : bool := match ev with EvBranch _ => true | _ => false end.
Definition sem_do (s : sstate) (x : item) : option sstate :=
  match x with
  | Ins _ o => match exec_op s o with
               | Ok (s', ev) => if is_branch_ev ev then None else Some s'
               | _ => None
               end
  | Grd _ => None
  end.
(* edge_enabled of Exec/Sem.v: unguarded = enabled; a guard that does not evaluate to a 1-bit constant faults *)
Definition sem_holds (s : sstate) (c : option expr) : option bool :=
  match c with
  | None => Some true
  | Some e => match den (st_env s) e with
              | Ok v => if negb (cbits v =? 1) then None else Some (cval v =? 1)
              | _ => None
              end
  end.
Definition sem_pexec := pexec sstate sem_do sem_holds.

(* ------------------------------------------------------------------ what is observed of a Sem run *)
Definition item_of (f : func) (l : floc) (st : sstate) : list (item * sstate) :=
  match loc_instruction f l with
  | Some i => match sem_do st (Ins (i_addr i) (i_op i)) with
              | Some st' => [(Ins (i_addr i) (i_op i), st')]
              | None => []
              end
  | None => []
  end.
Definition sem_items (f : func) (tr : list trace_item) : list (item * sstate) :=
  flat_map (fun t => item_of f (ti_loc t) (ti_before t)) tr.
Definition ins_only (l : list (item * sstate)) : list (item * sstate) :=
  filter (fun x => match fst x with Ins _ _ => true | Grd _ => false end) l.

Definition cont (m : nat) (f : func) (r : step_result) : list trace_item :=
  match r with Next l st _ => sem_run m f l st | _ => [] end.
Lemma sem_run_S m f l st : sem_run (S m) f l st = mkti l st (sem_step f l st) :: cont m f (sem_step f l st).
Proof. reflexivity. Qed.

(* ------------------------------------------------------------------ well-formedness needed by the link *)
Definition pair_of (e : edge) : Z * Z := (e_head e, e_tail e).
Record swf (g : cfg) : Prop := {
  w_idx : forall i b, find_block (g_blocks g) i = Some b -> NoDup (map i_index (b_instrs b));
  w_pairs : NoDup (map pair_of (g_edges g));
  w_tail : forall e, In e (g_edges g) -> has_block g (e_tail e) = true;
  w_sil : forall p, settle g (S (length (g_blocks g))) p <> None;
  w_entry : forall e, g_entry g = Some e -> has_block g e = true }.

Section Link.
  Variable f : func.
  Let g := f_cfg f.
  Hypothesis WF : swf g.
  Let sf := silent_fuel g.

  (* ---------- facts about Loc / Sem ---------- *)
  Lemma scan_nth bi : forall is_ k ins, nth_error is_ k = Some ins -> NoDup (map i_index is_) ->
    instr_forward_scan f bi is_ (i_index ins) =
      match nth_error is_ (S k) with
      | Some y => Ok [LInstr bi (i_index y)]
      | None => es <- cfg_edges_out (f_cfg f) bi ;; Ok (edge_locs es)
      end.
  Proof.
    induction is_ as [|x rest IH]; intros k ins N ND; [destruct k; discriminate|].
    cbn [instr_forward_scan]. destruct k as [|k]; cbn [nth_error] in N.
    - injection N as ->. rewrite Z.eqb_refl. destruct rest; reflexivity.
    - inversion ND as [|? ? NI ND']; subst.
      destruct (Z.eqb_spec (i_index x) (i_index ins)) as [E|E].
      + exfalso. apply NI. rewrite E. apply in_map. eapply nth_error_In. exact N.
      + rewrite (IH _ _ N ND'). reflexivity.
  Qed.

  Lemma find_instr_nth : forall is_ k ins, nth_error is_ k = Some ins -> NoDup (map i_index is_) ->
    find_instr is_ (i_index ins) = Some ins.
  Proof.
    induction is_ as [|x rest IH]; intros k ins N ND; [destruct k; discriminate|].
    cbn [find_instr]. destruct k as [|k]; cbn [nth_error] in N.
    - injection N as ->. rewrite Z.eqb_refl. reflexivity.
    - inversion ND as [|? ? NI ND']; subst.
      destruct (Z.eqb_spec (i_index x) (i_index ins)) as [E|E].
      + exfalso. apply NI. rewrite E. apply in_map. eapply nth_error_In. exact N.
      + eapply IH; eassumption.
  Qed.

  Lemma edges_out_eq b blk : find_block (g_blocks g) b = Some blk -> cfg_edges_out (f_cfg f) b = Ok (out_edges g b).
  Proof. intros F. unfold cfg_edges_out, has_block. fold g. rewrite F. reflexivity. Qed.

  Lemma find_edge_in : forall es e, NoDup (map pair_of es) -> In e es -> find_edge es (e_head e) (e_tail e) = Some e.
  Proof.
    induction es as [|x t IH]; intros e ND I; [destruct I|].
    cbn [find_edge]. inversion ND as [|? ? NI ND']; subst. destruct I as [->|I].
    - rewrite !Z.eqb_refl. reflexivity.
    - destruct ((e_head x =? e_head e) && (e_tail x =? e_tail e)) eqn:E.
      + exfalso. apply andb_prop in E as [E1 E2]. apply Z.eqb_eq in E1. apply Z.eqb_eq in E2.
        apply NI. replace (pair_of x) with (pair_of e) by (unfold pair_of; congruence). apply in_map. exact I.
      + apply IH; assumption.
  Qed.

  Definition ht (st : sstate) (e : edge) : bool := holds_t sstate sem_holds st (e_cond e).
  Definition hf (st : sstate) (e : edge) : bool := holds_f sstate sem_holds st (e_cond e).

  Lemma edge_enabled_char st e : find_edge (g_edges g) (e_head e) (e_tail e) = Some e ->
    match edge_enabled f (st_env st) (LEdge (e_head e) (e_tail e)) with
    | Ok b => hf st e = false /\ ht st e = b
    | _ => hf st e = true
    end.
  Proof.
    intros F. unfold edge_enabled, loc_edge, f_edges. fold g. rewrite F.
    unfold hf, ht, holds_f, holds_t, sem_holds. destruct (e_cond e) as [c|]; [|split; reflexivity].
    destruct (den (st_env st) c) as [v| |]; cbn [bind]; try reflexivity.
    destruct (negb (cbits v =? 1)); [reflexivity|]. split; [reflexivity|]. destruct (cval v =? 1); reflexivity.
  Qed.

  Lemma enabled_locs_char st : forall es, (forall e, In e es -> find_edge (g_edges g) (e_head e) (e_tail e) = Some e) ->
    match enabled_locs f (st_env st) (edge_locs es) with
    | Ok ls => existsb (hf st) es = false /\ ls = edge_locs (filter (ht st) es)
    | _ => existsb (hf st) es = true
    end.
  Proof.
    induction es as [|e t IH]; intros R; [split; reflexivity|].
    cbn [edge_locs map enabled_locs existsb filter].
    pose proof (edge_enabled_char st e (R e (or_introl eq_refl))) as C.
    specialize (IH (fun x I => R x (or_intror I))). fold (edge_locs t).
    destruct (edge_enabled f (st_env st) (LEdge (e_head e) (e_tail e))) as [b| |]; cbn [bind].
    - destruct C as [C1 C2]. rewrite C1, C2. cbn [orb].
      destruct (enabled_locs f (st_env st) (edge_locs t)) as [r| |]; cbn [bind]; try exact IH.
      destruct IH as [I1 I2]. split; [exact I1|]. subst r. destruct b; reflexivity.
    - rewrite C. reflexivity.
    - rewrite C. reflexivity.
  Qed.

  Lemma out_edges_in b e : In e (out_edges g b) -> In e (g_edges g) /\ e_head e = b.
  Proof. unfold out_edges. intros I. apply filter_In in I as [I E]. apply Z.eqb_eq in E. split; assumption. Qed.

  Lemma out_edges_resolve b e : In e (out_edges g b) -> find_edge (g_edges g) (e_head e) (e_tail e) = Some e.
  Proof. intros I. apply out_edges_in in I as [I _]. apply find_edge_in; [apply (w_pairs _ WF) | exact I]. Qed.

  (* the five outcomes of Sem's choice among the out-edges of a block *)
  Inductive choice (b : Z) (st : sstate) (ev : event) : step_result -> Prop :=
  | ch_exit : out_edges g b = [] -> choice b st ev (Exit st ev)
  | ch_fault e : out_edges g b <> [] -> existsb (hf st) (out_edges g b) = true -> choice b st ev (Stuck e)
  | ch_none : out_edges g b <> [] -> existsb (hf st) (out_edges g b) = false -> filter (ht st) (out_edges g b) = [] ->
      choice b st ev (Stuck ENoLocation)
  | ch_one e : existsb (hf st) (out_edges g b) = false -> filter (ht st) (out_edges g b) = [e] ->
      choice b st ev (Next (LEdge b (e_tail e)) st ev)
  | ch_many e1 e2 r : existsb (hf st) (out_edges g b) = false -> filter (ht st) (out_edges g b) = e1 :: e2 :: r ->
      choice b st ev (Stuck EOther).

  Lemma choose_char b st ev : choice b st ev (choose f st ev (edge_locs (out_edges g b))).
  Proof.
    pose proof (enabled_locs_char st (out_edges g b) (out_edges_resolve b)) as C.
    unfold choose. destruct (out_edges g b) as [|e0 es0] eqn:O; [apply ch_exit; exact O|].
    cbn [edge_locs map]. fold (edge_locs es0). change (LEdge (e_head e0) (e_tail e0) :: edge_locs es0) with (edge_locs (e0 :: es0)).
    assert (NE : out_edges g b <> []) by (rewrite O; discriminate).
    destruct (enabled_locs f (st_env st) (edge_locs (e0 :: es0))) as [ls| |].
    - destruct C as [C1 C2]. rewrite <- O in C1. destruct (filter (ht st) (e0 :: es0)) as [|e1 [|e2 r]] eqn:Fl; subst ls; cbn [edge_locs map];
        rewrite <- O in Fl.
      + apply ch_none; assumption.
      + assert (I : In e1 (filter (ht st) (out_edges g b))) by (rewrite Fl; left; reflexivity).
        apply filter_In in I as [I _]. apply out_edges_in in I as [_ Eh]. rewrite Eh.
        apply ch_one; assumption.
      + eapply ch_many; eassumption.
    - rewrite <- O in C. apply ch_fault; assumption.
    - rewrite <- O in C. apply ch_fault; assumption.
  Qed.

  (* ---------- facts about kind_of / pexec ---------- *)
  Lemma kind_ins b blk k ins : find_block (g_blocks g) b = Some blk -> nth_error (b_instrs blk) k = Some ins ->
    kind_of g (b, k) = KIns (Ins (i_addr ins) (i_op ins)) (b, S k).
  Proof. intros F N. unfold kind_of. cbn [fst snd]. rewrite F, N. reflexivity. Qed.

  Definition end_kind (b : Z) : kind :=
    match out_edges g b with
    | [e] => match e_cond e with None => KSilent (e_tail e) | Some _ => KBranch [edge_lab e] end
    | es => KBranch (map edge_lab es)
    end.
  Lemma kind_end b blk k : find_block (g_blocks g) b = Some blk -> nth_error (b_instrs blk) k = None ->
    kind_of g (b, k) = end_kind b.
  Proof. intros F N. unfold kind_of, end_kind. cbn [fst snd]. rewrite F, N. reflexivity. Qed.

  Lemma settle_mono : forall j p q, settle g j p = Some q -> settle g (S j) p = Some q.
  Proof.
    induction j as [|j IH]; intros p q H; [discriminate|].
    cbn [settle] in H. change (settle g (S (S j)) p) with (match kind_of g p with KSilent t => settle g (S j) (t, O) | _ => Some p end).
    destruct (kind_of g p); try exact H. apply IH. exact H.
  Qed.

  Lemma sf_eq : sf = S (S (length (g_blocks g))).
  Proof. reflexivity. Qed.

  Lemma settle_some p : exists q, settle g (S (length (g_blocks g))) p = Some q /\ settle g sf p = Some q.
  Proof.
    destruct (settle g (S (length (g_blocks g))) p) as [q|] eqn:E; [|exfalso; exact (w_sil _ WF p E)].
    exists q. split; [reflexivity|]. rewrite sf_eq. apply settle_mono. exact E.
  Qed.

  Lemma pexec_silent n p t s : kind_of g p = KSilent t -> sem_pexec g sf n p s = sem_pexec g sf n (t, O) s.
  Proof.
    intros K. destruct n as [|n]; [reflexivity|]. unfold sem_pexec. cbn [pexec].
    destruct (settle_some (t, O)) as (q & E1 & E2).
    assert (E : settle g sf p = Some q). { rewrite sf_eq. cbn [settle]. rewrite K. exact E1. }
    rewrite E, E2. reflexivity.
  Qed.

  Lemma settle_self p : (forall t, kind_of g p <> KSilent t) -> settle g sf p = Some p.
  Proof. intros N. rewrite sf_eq. cbn [settle]. destruct (kind_of g p) eqn:K; try reflexivity. exfalso. eapply N. reflexivity. Qed.

  Lemma pexec_ins n b blk k ins s : find_block (g_blocks g) b = Some blk -> nth_error (b_instrs blk) k = Some ins ->
    sem_pexec g sf (S n) (b, k) s =
      match sem_do s (Ins (i_addr ins) (i_op ins)) with
      | Some s' => ((Ins (i_addr ins) (i_op ins), s') :: fst (sem_pexec g sf n (b, S k) s'), snd (sem_pexec g sf n (b, S k) s'))
      | None => ([], OFault)
      end.
  Proof.
    intros F N. pose proof (kind_ins _ _ _ _ F N) as K. unfold sem_pexec. cbn [pexec].
    rewrite settle_self by (intros t; rewrite K; discriminate). rewrite K. reflexivity.
  Qed.

  (* labels of a branching point against the edges *)
  Lemma faulty_edges st es : faulty sstate sem_holds st (map edge_lab es) = existsb (hf st) es.
  Proof. unfold faulty. induction es as [|e t IH]; [reflexivity|]. cbn [map existsb]. rewrite IH. reflexivity. Qed.
  Lemma enabled_edges st es : enabled sstate sem_holds st (map edge_lab es) = map edge_lab (filter (ht st) es).
  Proof.
    unfold enabled. induction es as [|e t IH]; [reflexivity|]. cbn [map filter]. unfold ht at 1. cbn [edge_lab fst].
    destruct (holds_t sstate sem_holds st (e_cond e)); cbn [map]; rewrite IH; reflexivity.
  Qed.

  (* ---------- locations against positions ---------- *)
  Inductive corr : floc -> pos -> Prop :=
  | corr_instr b blk k ins : find_block (g_blocks g) b = Some blk -> nth_error (b_instrs blk) k = Some ins ->
      corr (LInstr b (i_index ins)) (b, k)
  | corr_empty b blk : find_block (g_blocks g) b = Some blk -> b_instrs blk = [] -> corr (LEmpty b) (b, O)
  | corr_edge h t blk : find_block (g_blocks g) t = Some blk -> corr (LEdge h t) (t, O).

  Lemma corr_first t blk : find_block (g_blocks g) t = Some blk -> corr (block_first_loc blk) (t, O).
  Proof.
    intros F. destruct (find_block_spec _ _ _ F) as [Ei _]. unfold block_first_loc. rewrite Ei.
    destruct (b_instrs blk) as [|x r] eqn:Eb.
    - eapply corr_empty; eassumption.
    - eapply corr_instr; [exact F | rewrite Eb; reflexivity].
  Qed.

  Lemma tail_block b e : In e (out_edges g b) -> exists blk, find_block (g_blocks g) (e_tail e) = Some blk.
  Proof.
    intros I. apply out_edges_in in I as [I _]. pose proof (w_tail _ WF e I) as H. unfold has_block in H.
    destruct (find_block (g_blocks g) (e_tail e)) as [blk|]; [exists blk; reflexivity | discriminate].
  Qed.

  (* Sem steps *)
  Lemma step_edge h t blk st : find_block (g_blocks g) t = Some blk ->
    sem_step f (LEdge h t) st = Next (block_first_loc blk) st EvNone.
  Proof. intros F. cbn [sem_step forward]. unfold f_block, cfg_block. fold g. rewrite F. reflexivity. Qed.

  Lemma step_empty b blk st : find_block (g_blocks g) b = Some blk ->
    sem_step f (LEmpty b) st = choose f st EvNone (edge_locs (out_edges g b)).
  Proof. intros F. cbn [sem_step forward]. rewrite (edges_out_eq _ _ F). reflexivity. Qed.

  Lemma loc_instr b blk k ins : find_block (g_blocks g) b = Some blk -> nth_error (b_instrs blk) k = Some ins ->
    loc_instruction f (LInstr b (i_index ins)) = Some ins.
  Proof.
    intros F N. unfold loc_instruction, f_blocks. fold g. rewrite F. unfold block_instruction.
    eapply find_instr_nth; [exact N | exact (w_idx _ WF _ _ F)].
  Qed.

  Lemma choose_one b i st ev : choose f st ev [LInstr b i] = Next (LInstr b i) st ev.
  Proof. reflexivity. Qed.

  (* a Sem step on an instruction whose operation executes *)
  Lemma step_instr_ok b blk k ins st st' : find_block (g_blocks g) b = Some blk -> nth_error (b_instrs blk) k = Some ins ->
    sem_do st (Ins (i_addr ins) (i_op ins)) = Some st' ->
    exists ev, sem_step f (LInstr b (i_index ins)) st =
      match nth_error (b_instrs blk) (S k) with
      | Some y => Next (LInstr b (i_index y)) st' ev
      | None => choose f st' ev (edge_locs (out_edges g b))
      end.
  Proof.
    intros F N D. cbn [sem_step]. rewrite (loc_instr _ _ _ _ F N).
    unfold sem_do in D. destruct (exec_op st (i_op ins)) as [[s1 ev]| |]; try discriminate.
    destruct (is_branch_ev ev) eqn:B; [discriminate|]. injection D as ->. exists ev.
    assert (Fw : forward f (LInstr b (i_index ins)) =
                 match nth_error (b_instrs blk) (S k) with
                 | Some y => Ok [LInstr b (i_index y)]
                 | None => Ok (edge_locs (out_edges g b))
                 end).
    { cbn [forward]. unfold f_blocks. fold g. rewrite F. rewrite (scan_nth b _ _ _ N (w_idx _ WF _ _ F)).
      destruct (nth_error (b_instrs blk) (S k)); [reflexivity|]. rewrite (edges_out_eq _ _ F). reflexivity. }
    rewrite Fw. destruct ev; try discriminate B; destruct (nth_error (b_instrs blk) (S k)); reflexivity.
  Qed.

  (* a Sem step on an instruction whose operation faults or is an indirect branch: the run ends *)
  Lemma step_instr_stop b blk k ins st : find_block (g_blocks g) b = Some blk -> nth_error (b_instrs blk) k = Some ins ->
    sem_do st (Ins (i_addr ins) (i_op ins)) = None ->
    forall m, cont m f (sem_step f (LInstr b (i_index ins)) st) = [].
  Proof.
    intros F N D m. cbn [sem_step]. rewrite (loc_instr _ _ _ _ F N).
    unfold sem_do in D. destruct (exec_op st (i_op ins)) as [[s1 ev]| |]; try reflexivity.
    destruct ev; try discriminate D; reflexivity.
  Qed.

  Lemma item_instr b blk k ins st : find_block (g_blocks g) b = Some blk -> nth_error (b_instrs blk) k = Some ins ->
    item_of f (LInstr b (i_index ins)) st =
      match sem_do st (Ins (i_addr ins) (i_op ins)) with Some st' => [(Ins (i_addr ins) (i_op ins), st')] | None => [] end.
  Proof. intros F N. unfold item_of. rewrite (loc_instr _ _ _ _ F N). reflexivity. Qed.

  Notation P n p s := (ins_only (fst (sem_pexec g sf n p s))).

  (* pexec at the end of a block, against Sem's choice there *)
  Lemma end_stop b blk k st ev r : find_block (g_blocks g) b = Some blk -> nth_error (b_instrs blk) k = None ->
    choice b st ev r -> (forall l s e, r <> Next l s e) -> forall n, P n (b, k) st = [].
  Proof.
    intros F N C NN n. destruct n as [|n]; [reflexivity|].
    pose proof (kind_end _ _ _ F N) as K. unfold end_kind in K.
    inversion C as [O|e NE Fa|NE Fa Fl|e Fa Fl|e1 e2 r' Fa Fl]; subst.
    - rewrite O in K. cbn [map] in K. unfold sem_pexec. cbn [pexec].
      rewrite settle_self by (intros t; rewrite K; discriminate). rewrite K. reflexivity.
    - assert (K' : kind_of g (b, k) = KBranch (map edge_lab (out_edges g b))).
      { destruct (out_edges g b) as [|e1 [|e2 r']] eqn:O; [contradiction | | exact K].
        destruct (e_cond e1) eqn:Ec; [exact K|]. exfalso. cbn [existsb] in Fa. unfold hf, holds_f in Fa. rewrite Ec in Fa. discriminate. }
      unfold sem_pexec. cbn [pexec]. rewrite settle_self by (intros t; rewrite K'; discriminate). rewrite K'.
      destruct (map edge_lab (out_edges g b)) eqn:M; [destruct (out_edges g b); [contradiction | discriminate]|].
      rewrite <- M, faulty_edges, Fa. reflexivity.
    - assert (K' : kind_of g (b, k) = KBranch (map edge_lab (out_edges g b))).
      { destruct (out_edges g b) as [|e1 [|e2 r']] eqn:O; [contradiction | | exact K].
        destruct (e_cond e1) eqn:Ec; [exact K|]. exfalso. cbn [filter] in Fl. unfold ht, holds_t in Fl. rewrite Ec in Fl. discriminate. }
      unfold sem_pexec. cbn [pexec]. rewrite settle_self by (intros t; rewrite K'; discriminate). rewrite K'.
      destruct (map edge_lab (out_edges g b)) eqn:M; [destruct (out_edges g b); [contradiction | discriminate]|].
      rewrite <- M, faulty_edges, Fa, enabled_edges, Fl. reflexivity.
    - exfalso. eapply NN. reflexivity.
    - assert (K' : kind_of g (b, k) = KBranch (map edge_lab (out_edges g b))).
      { destruct (out_edges g b) as [|x1 [|x2 r'']] eqn:O; [discriminate Fl | | exact K].
        cbn [filter] in Fl. destruct (ht st x1); discriminate. }
      unfold sem_pexec. cbn [pexec]. rewrite settle_self by (intros t; rewrite K'; discriminate). rewrite K'.
      destruct (map edge_lab (out_edges g b)) eqn:M; [destruct (out_edges g b); [discriminate Fl | discriminate]|].
      rewrite <- M, faulty_edges, Fa, enabled_edges, Fl. reflexivity.
  Qed.

  (* ... and when Sem takes the edge e: pexec either moves silently (a lone unguarded edge) or spends one
     visible step on the decision *)
  Lemma end_next b blk k st e : find_block (g_blocks g) b = Some blk -> nth_error (b_instrs blk) k = None ->
    existsb (hf st) (out_edges g b) = false -> filter (ht st) (out_edges g b) = [e] ->
    (kind_of g (b, k) = KSilent (e_tail e) /\ forall n, P n (b, k) st = P n (e_tail e, O) st) \/
    ((forall t, kind_of g (b, k) <> KSilent t) /\ forall n, P (S n) (b, k) st = P n (e_tail e, O) st).
  Proof.
    intros F N Fa Fl. pose proof (kind_end _ _ _ F N) as K. unfold end_kind in K.
    destruct (out_edges g b) as [|e1 [|e2 r']] eqn:O; [discriminate Fl| |].
    - assert (H1 : ht st e1 = true /\ e = e1).
      { cbn [filter] in Fl. destruct (ht st e1); [|discriminate]. injection Fl as <-. split; reflexivity. }
      destruct H1 as [H1 ->].
      destruct (e_cond e1) eqn:Ec.
      + right. split; [intros t; rewrite K; discriminate|]. intros n. unfold sem_pexec. cbn [pexec].
        rewrite settle_self by (intros t; rewrite K; discriminate). rewrite K.
        change [edge_lab e1] with (map edge_lab [e1]). rewrite faulty_edges, Fa, enabled_edges, Fl.
        cbn [map edge_lab fst snd ins_only filter]. reflexivity.
      + left. split; [exact K|]. intros n. rewrite (pexec_silent n _ _ st K). reflexivity.
    - right. split; [intros t; rewrite K; discriminate|]. intros n. unfold sem_pexec. cbn [pexec].
      rewrite settle_self by (intros t; rewrite K; discriminate). rewrite K.
      rewrite faulty_edges, Fa, enabled_edges, Fl. cbn [map edge_lab fst snd ins_only filter]. reflexivity.
  Qed.

  Notation SI m l st := (sem_items f (sem_run m f l st)).

  Lemma cont_0 r : cont 0 f r = [].
  Proof. destruct r; reflexivity. Qed.
  Lemma items_cons l st r rest : sem_items f (mkti l st r :: rest) = item_of f l st ++ sem_items f rest.
  Proof. reflexivity. Qed.
  Lemma item_edge h t st : item_of f (LEdge h t) st = [].
  Proof. reflexivity. Qed.
  Lemma item_empty b st : item_of f (LEmpty b) st = [].
  Proof. reflexivity. Qed.

  Lemma P_ins n b blk k ins st st' : find_block (g_blocks g) b = Some blk -> nth_error (b_instrs blk) k = Some ins ->
    sem_do st (Ins (i_addr ins) (i_op ins)) = Some st' ->
    P (S n) (b, k) st = (Ins (i_addr ins) (i_op ins), st') :: P n (b, S k) st'.
  Proof. intros F N D. rewrite (pexec_ins n _ _ _ _ st F N), D. reflexivity. Qed.
  Lemma P_ins_stop n b blk k ins st : find_block (g_blocks g) b = Some blk -> nth_error (b_instrs blk) k = Some ins ->
    sem_do st (Ins (i_addr ins) (i_op ins)) = None -> P (S n) (b, k) st = [].
  Proof. intros F N D. rewrite (pexec_ins n _ _ _ _ st F N), D. reflexivity. Qed.

  (* ---------- every Sem run is a pexec run ---------- *)
  Lemma sem_to_pexec : forall m,
    (forall l p st, corr l p -> exists n, SI m l st = P n p st) /\
    (forall b blk k st ev, find_block (g_blocks g) b = Some blk -> nth_error (b_instrs blk) k = None ->
       exists n, sem_items f (cont m f (choose f st ev (edge_locs (out_edges g b)))) = P n (b, k) st).
  Proof.
    induction m as [|m [A1 A2]].
    - split; [intros; exists O; reflexivity|]. intros. exists O. rewrite cont_0. reflexivity.
    - assert (A2' : forall b blk k st ev, find_block (g_blocks g) b = Some blk -> nth_error (b_instrs blk) k = None ->
         exists n, sem_items f (cont (S m) f (choose f st ev (edge_locs (out_edges g b)))) = P n (b, k) st).
      { intros b blk k st ev F N. pose proof (choose_char b st ev) as C.
        inversion C as [Oe H|e NE Fa H|NE Fa Fl H|e Fa Fl H|e1 e2 r' Fa Fl H]; try (exists O; reflexivity).
        clear C.
        assert (Ie : In e (out_edges g b)) by (assert (I : In e (filter (ht st) (out_edges g b))) by (rewrite Fl; left; reflexivity);
                                                apply filter_In in I as [I _]; exact I).
        destruct (tail_block _ _ Ie) as [bt Ft].
        cbn [cont]. rewrite sem_run_S, items_cons, item_edge, (step_edge _ _ _ st Ft). cbn [app cont].
        destruct (A1 _ _ st (corr_first _ _ Ft)) as [n' En]. rewrite En.
        destruct (end_next _ _ _ _ _ F N Fa Fl) as [[_ Q]|[_ Q]]; [exists n' | exists (S n')]; rewrite Q; reflexivity. }
      split; [|exact A2'].
      intros l p st Cr. inversion Cr as [b blk k ins F N|b blk F Eb|h t blk F]; subst.
      + rewrite sem_run_S, items_cons, (item_instr _ _ _ _ st F N).
        destruct (sem_do st (Ins (i_addr ins) (i_op ins))) as [st'|] eqn:D.
        * destruct (step_instr_ok _ _ _ _ st st' F N D) as [ev Es]. rewrite Es.
          destruct (nth_error (b_instrs blk) (S k)) as [y|] eqn:Ny.
          -- cbn [cont]. destruct (A1 _ _ st' (corr_instr _ _ _ _ F Ny)) as [n' En]. exists (S n').
             rewrite (P_ins n' _ _ _ _ st st' F N D), En. reflexivity.
          -- destruct (A2 b blk (S k) st' ev F Ny) as [n' En]. exists (S n').
             rewrite (P_ins n' _ _ _ _ st st' F N D), En. reflexivity.
        * rewrite (step_instr_stop _ _ _ _ st F N D m). exists O. reflexivity.
      + rewrite sem_run_S, items_cons, item_empty, (step_empty _ _ st F). cbn [app].
        apply (A2 b blk O st EvNone F). rewrite Eb. reflexivity.
      + rewrite sem_run_S, items_cons, item_edge, (step_edge _ _ _ st F). cbn [app cont].
        apply A1. apply corr_first. exact F.
  Qed.

  (* ---------- every pexec run is a Sem run ---------- *)
  Lemma pexec_to_sem : forall n,
    (forall l p st, corr l p -> exists m, P n p st = SI m l st) /\
    (forall b blk k st ev, find_block (g_blocks g) b = Some blk -> nth_error (b_instrs blk) k = None ->
       exists m, P n (b, k) st = sem_items f (cont m f (choose f st ev (edge_locs (out_edges g b))))).
  Proof.
    induction n as [|n [B1 B2]].
    - split; [intros; exists O; reflexivity|]. intros. exists O. rewrite cont_0. reflexivity.
    - (* instructions first *)
      assert (Bi : forall b blk k ins st, find_block (g_blocks g) b = Some blk -> nth_error (b_instrs blk) k = Some ins ->
                exists m, P (S n) (b, k) st = SI m (LInstr b (i_index ins)) st).
      { intros b blk k ins st F N. destruct (sem_do st (Ins (i_addr ins) (i_op ins))) as [st'|] eqn:D.
        - destruct (step_instr_ok _ _ _ _ st st' F N D) as [ev Es].
          rewrite (P_ins n _ _ _ _ st st' F N D).
          destruct (nth_error (b_instrs blk) (S k)) as [y|] eqn:Ny.
          + destruct (B1 _ _ st' (corr_instr _ _ _ _ F Ny)) as [m' Em]. exists (S m').
            rewrite sem_run_S, items_cons, (item_instr _ _ _ _ st F N), D, Es. cbn [cont app]. rewrite Em. reflexivity.
          + destruct (B2 b blk (S k) st' ev F Ny) as [m' Em]. exists (S m').
            rewrite sem_run_S, items_cons, (item_instr _ _ _ _ st F N), D, Es. cbn [app]. rewrite Em. reflexivity.
        - exists O. rewrite (P_ins_stop n _ _ _ _ st F N D). reflexivity. }
      (* ends of blocks, by induction on the length of the silent chain *)
      assert (Be : forall j b blk k st ev, find_block (g_blocks g) b = Some blk -> nth_error (b_instrs blk) k = None ->
                settle g j (b, k) <> None ->
                exists m, P (S n) (b, k) st = sem_items f (cont m f (choose f st ev (edge_locs (out_edges g b))))).
      { induction j as [|j IHj]; intros b blk k st ev F N NS; [exfalso; apply NS; reflexivity|].
        pose proof (choose_char b st ev) as C.
        inversion C as [Oe H|e NE Fa H|NE Fa Fl H|e Fa Fl H|e1 e2 r' Fa Fl H];
          try (exists O; rewrite cont_0; eapply (end_stop _ _ _ st ev _ F N C); rewrite <- H; discriminate).
        assert (Ie : In e (out_edges g b)) by (assert (I : In e (filter (ht st) (out_edges g b))) by (rewrite Fl; left; reflexivity);
                                                apply filter_In in I as [I _]; exact I).
        destruct (tail_block _ _ Ie) as [bt Ft].
        destruct (end_next _ _ _ _ _ F N Fa Fl) as [[K Q]|[_ Q]].
        - rewrite Q. cbn [settle] in NS. rewrite K in NS.
          destruct (b_instrs bt) as [|x0 r0] eqn:Eb.
          + destruct (IHj (e_tail e) bt O st EvNone Ft) as [m2 Em]; [rewrite Eb; reflexivity | exact NS |].
            exists (S (S m2)). cbn [cont]. rewrite sem_run_S, items_cons, item_edge, (step_edge _ _ _ st Ft). cbn [app cont].
            assert (Efl : block_first_loc bt = LEmpty (e_tail e)).
            { unfold block_first_loc. rewrite Eb. destruct (find_block_spec _ _ _ Ft) as [-> _]. reflexivity. }
            rewrite Efl, sem_run_S, items_cons, item_empty, (step_empty _ _ st Ft). cbn [app]. exact Em.
          + assert (N0 : nth_error (b_instrs bt) O = Some x0) by (rewrite Eb; reflexivity).
            destruct (Bi _ _ _ _ st Ft N0) as [m1 Em]. exists (S m1).
            cbn [cont]. rewrite sem_run_S, items_cons, item_edge, (step_edge _ _ _ st Ft). cbn [app cont].
            assert (Efl : block_first_loc bt = LInstr (e_tail e) (i_index x0)).
            { unfold block_first_loc. rewrite Eb. destruct (find_block_spec _ _ _ Ft) as [-> _]. reflexivity. }
            rewrite Efl. exact Em.
        - rewrite Q. destruct (B1 _ _ st (corr_edge b _ _ Ft)) as [m1 Em]. exists m1. cbn [cont]. exact Em. }
      assert (B2' : forall b blk k st ev, find_block (g_blocks g) b = Some blk -> nth_error (b_instrs blk) k = None ->
                exists m, P (S n) (b, k) st = sem_items f (cont m f (choose f st ev (edge_locs (out_edges g b))))).
      { intros b blk k st ev F N. eapply Be; [exact F | exact N | apply (w_sil _ WF)]. }
      split; [|exact B2'].
      assert (Bm : forall b blk st, find_block (g_blocks g) b = Some blk -> b_instrs blk = [] ->
                exists m, P (S n) (b, O) st = SI m (LEmpty b) st).
      { intros b blk st F Eb. destruct (B2' b blk O st EvNone F) as [m2 Em]; [rewrite Eb; reflexivity|].
        exists (S m2). rewrite sem_run_S, items_cons, item_empty, (step_empty _ _ st F). cbn [app]. exact Em. }
      intros l p st Cr. inversion Cr as [b blk k ins F N|b blk F Eb|h t blk F]; subst.
      + eapply Bi; eassumption.
      + eapply Bm; eassumption.
      + assert (X : exists m, P (S n) (t, O) st = SI m (block_first_loc blk) st).
        { unfold block_first_loc. destruct (find_block_spec _ _ _ F) as [Ei _]. rewrite Ei.
          destruct (b_instrs blk) as [|x0 r0] eqn:Eb.
          - eapply Bm; eassumption.
          - eapply Bi; [exact F | rewrite Eb; reflexivity]. }
        destruct X as [m1 Em]. exists (S m1).
        rewrite sem_run_S, items_cons, item_edge, (step_edge _ _ _ st F). cbn [app cont]. exact Em.
  Qed.
End Link.

(* ------------------------------------------------------------------ the link, from the entry *)
Definition sem_obs (m : nat) (f : func) (st : sstate) : list (item * sstate) :=
  match from_function f with
  | Some (Ok l) => sem_items f (sem_run m f l st)
  | _ => []
  end.

Theorem sem_pexec_link f e : swf (f_cfg f) -> g_entry (f_cfg f) = Some e ->
  (forall m st, exists n, sem_obs m f st = ins_only (fst (sem_pexec (f_cfg f) (silent_fuel (f_cfg f)) n (e, O) st))) /\
  (forall n st, exists m, ins_only (fst (sem_pexec (f_cfg f) (silent_fuel (f_cfg f)) n (e, O) st)) = sem_obs m f st).
Proof.
  intros WF E. pose proof (w_entry _ WF e E) as HB. unfold has_block in HB.
  destruct (find_block (g_blocks (f_cfg f)) e) as [blk|] eqn:F; [|discriminate].
  assert (FF : from_function f = Some (Ok (block_first_loc blk))).
  { unfold from_function. rewrite E. unfold f_block, cfg_block. rewrite F. reflexivity. }
  unfold sem_obs. rewrite FF. split.
  - intros m st. destruct (sem_to_pexec f WF m) as [A _]. apply A. apply corr_first. exact F.
  - intros n st. destruct (pexec_to_sem f WF n) as [B _]. apply B. apply corr_first. exact F.
Qed.

(* [U] C06's lang_eq_exec for Exec/Sem.v: if the checker accepts the graphs of two functions (hence their
   languages are equal, lang_bisim_sound), both are det and well formed, then from every initial state every
   finite Sem run of one is matched by a Sem run of the other that has executed exactly the same instructions
   (address, operation) in the same order and gone through exactly the same states *)
Theorem lang_eq_exec_sem f1 f2 :
  lang_bisim (f_cfg f1) (f_cfg f2) = true -> det (f_cfg f1) = true -> det (f_cfg f2) = true ->
  swf (f_cfg f1) -> swf (f_cfg f2) ->
  forall st, (forall m1, exists m2, sem_obs m1 f1 st = sem_obs m2 f2 st) /\
             (forall m2, exists m1, sem_obs m1 f1 st = sem_obs m2 f2 st).
Proof.
  intros LB D1 D2 W1 W2 st.
  pose proof (lang_bisim_exec sstate sem_do sem_holds _ _ LB D1 D2) as EX. unfold pexec_entry in EX.
  unfold lang_bisim in LB.
  destruct (g_entry (f_cfg f1)) as [e1|] eqn:E1, (g_entry (f_cfg f2)) as [e2|] eqn:E2; try discriminate.
  - destruct (sem_pexec_link f1 e1 W1 E1) as [A1 B1]. destruct (sem_pexec_link f2 e2 W2 E2) as [A2 B2].
    assert (EQ : forall n, ins_only (fst (sem_pexec (f_cfg f1) (silent_fuel (f_cfg f1)) n (e1, O) st)) =
                           ins_only (fst (sem_pexec (f_cfg f2) (silent_fuel (f_cfg f2)) n (e2, O) st))).
    { intros n. specialize (EX n st). injection EX as EX. unfold sem_pexec. rewrite EX. reflexivity. }
    split.
    + intros m1. destruct (A1 m1 st) as [n En]. destruct (B2 n st) as [m2 Em]. exists m2. rewrite En, EQ, Em. reflexivity.
    + intros m2. destruct (A2 m2 st) as [n En]. destruct (B1 n st) as [m1 Em]. exists m1. rewrite En, <- EQ, Em. reflexivity.
  - unfold sem_obs, from_function. rewrite E1, E2. split; intros; exists O; reflexivity.
Qed.

(* ------------------------------------------------------------------ the executable form of swf *)
Fixpoint nodup_pairs (l : list (Z * Z)) : bool :=
  match l with
  | [] => true
  | x :: t => negb (existsb (fun y => (fst x =? fst y) && (snd x =? snd y)) t) && nodup_pairs t
  end.
Definition sem_wf (g : cfg) : bool :=
  forallb (fun b => nodupZ (map i_index (b_instrs b))) (g_blocks g) &&
  nodup_pairs (map pair_of (g_edges g)) &&
  forallb (fun e => has_block g (e_tail e)) (g_edges g) &&
  forallb (fun b => match settle g (S (length (g_blocks g))) (b_index b, length (b_instrs b)) with Some _ => true | None => false end)
          (g_blocks g) &&
  match g_entry g with Some e => has_block g e | None => true end.

Lemma nodupZ_NoDup l : nodupZ l = true -> NoDup l.
Proof.
  induction l as [|x t IH]; cbn; intros H; [constructor|]. apply andb_prop in H as [H1 H2].
  constructor; [|apply IH; exact H2]. intros I. apply negb_true_iff in H1. rewrite <- not_true_iff_false in H1. apply H1.
  apply existsb_exists. exists x. split; [exact I | apply Z.eqb_refl].
Qed.
Lemma nodup_pairs_NoDup l : nodup_pairs l = true -> NoDup l.
Proof.
  induction l as [|x t IH]; cbn; intros H; [constructor|]. apply andb_prop in H as [H1 H2].
  constructor; [|apply IH; exact H2]. intros I. apply negb_true_iff in H1. rewrite <- not_true_iff_false in H1. apply H1.
  apply existsb_exists. exists x. split; [exact I | rewrite !Z.eqb_refl; reflexivity].
Qed.

Theorem sem_wf_sound g : sem_wf g = true -> swf g.
Proof.
  unfold sem_wf. intros H. apply andb_prop in H as [H H5]. apply andb_prop in H as [H H4].
  apply andb_prop in H as [H H3]. apply andb_prop in H as [H1 H2].
  rewrite forallb_forall in H1, H3, H4. constructor.
  - intros i b F. apply nodupZ_NoDup. apply H1. apply (find_block_spec _ _ _ F).
  - apply nodup_pairs_NoDup. exact H2.
  - exact H3.
  - intros p. cbn [settle]. destruct (kind_of g p) as [x q|t|l] eqn:K; try discriminate.
    (* p is the end of an existing block: same kind as the end position the check looked at *)
    unfold kind_of in K. destruct (find_block (g_blocks g) (fst p)) as [b|] eqn:F; [|discriminate].
    destruct (nth_error (b_instrs b) (snd p)) eqn:N; [discriminate|].
    destruct (find_block_spec _ _ _ F) as [Ei Ib]. specialize (H4 _ Ib). cbn [settle] in H4.
    assert (K2 : kind_of g (b_index b, length (b_instrs b)) = KSilent t).
    { unfold kind_of. cbn [fst snd]. rewrite Ei, F.
      assert (N2 : nth_error (b_instrs b) (length (b_instrs b)) = None) by (apply nth_error_None; lia).
      rewrite N2. exact K. }
    rewrite K2 in H4. destruct (settle g (length (g_blocks g)) (t, O)); [discriminate | discriminate H4].
  - intros e E. rewrite E in H5. exact H5.
Qed.

(* ------------------------------------------------------------------ language equality is enough (det graphs) *)
Lemma nodup_labs_fun l c t t' : nodup_labs l = true -> In (c, t) l -> In (c, t') l -> t = t'.
Proof.
  intros N. apply nodup_labs_NoDup in N. induction l as [|[c0 t0] r IH]; intros I I'; [destruct I|].
  cbn [map fst] in N. inversion N as [|? ? N1 N2]; subst. destruct I as [E|I], I' as [E'|I'].
  - congruence.
  - injection E as -> ->. exfalso. apply N1. apply in_map_iff. exists (c, t'). split; [reflexivity | exact I'].
  - injection E' as -> ->. exfalso. apply N1. apply in_map_iff. exists (c, t). split; [reflexivity | exact I].
  - apply IH; assumption.
Qed.

Lemma kind_ins_item g q x r : kind_of g q = KIns x r -> exists a o, x = Ins a o.
Proof.
  unfold kind_of. destruct (find_block (g_blocks g) (fst q)) as [b|]; [|discriminate].
  destruct (nth_error (b_instrs b) (snd q)) as [i|]; [intros [= <- _]; eexists; eexists; reflexivity|].
  destruct (out_edges g (fst q)) as [|e [|e' es]]; [discriminate | destruct (e_cond e); discriminate | discriminate].
Qed.

Section LangEq.
  Variable St : Type.
  Variable do_ins : St -> item -> option St.
  Variable holds : St -> option expr -> option bool.
  Variables (g1 g2 : cfg) (n1 n2 : nat).
  Hypothesis D1 : det g1 = true.
  Hypothesis D2 : det g2 = true.
  Hypothesis S1 : forall p, settle g1 n1 p <> None.
  Hypothesis S2 : forall p, settle g2 n2 p <> None.

  Definition leq (p1 p2 : pos) : Prop := forall w, lang_from g1 p1 w <-> lang_from g2 p2 w.

  Lemma leq_settle p1 p2 q1 q2 : leq p1 p2 -> settle g1 n1 p1 = Some q1 -> settle g2 n2 p2 = Some q2 -> leq q1 q2.
  Proof.
    intros L E1 E2 w. unfold lang_from. split; intros [r R].
    - assert (X : lang_from g1 p1 w) by (exists r; eapply settle_run; eassumption).
      apply L in X as [r' R']. eapply settle_run_inv; eassumption.
    - assert (X : lang_from g2 p2 w) by (exists r; eapply settle_run; eassumption).
      apply L in X as [r' R']. eapply settle_run_inv; eassumption.
  Qed.

  Lemma one_step g q x p' : vstep g q x p' -> lang_from g q [x].
  Proof. intros V. exists p'. eapply run_vis; [exact V | constructor]. Qed.

  Theorem lang_eq_pexec : forall n p1 p2 s, leq p1 p2 ->
    pexec St do_ins holds g1 n1 n p1 s = pexec St do_ins holds g2 n2 n p2 s.
  Proof.
    induction n as [|n IH]; intros p1 p2 s L; [reflexivity|]. cbn [pexec].
    destruct (settle g1 n1 p1) as [q1|] eqn:E1; [|exfalso; exact (S1 _ E1)].
    destruct (settle g2 n2 p2) as [q2|] eqn:E2; [|exfalso; exact (S2 _ E2)].
    pose proof (leq_settle _ _ _ _ L E1 E2) as Lq.
    assert (NS2 : forall t, kind_of g2 q2 <> KSilent t) by (intros t; eapply settle_not_silent; exact E2).
    destruct (kind_of g1 q1) as [x r1|t1|l1] eqn:K1; [| exfalso; eapply settle_not_silent; [exact E1 | exact K1] |].
    - (* an instruction on the left: the same instruction on the right, equal residual languages *)
      assert (NS1 : forall t, kind_of g1 q1 <> KSilent t) by (intros t; rewrite K1; discriminate).
      assert (X : lang_from g2 q2 [x]) by (apply Lq; eapply one_step; apply vs_ins; exact K1).
      destruct X as [r0 R0]. apply run_cons_inv in R0; [|exact NS2]. destruct R0 as (p' & V & _).
      assert (K2 : exists r2, kind_of g2 q2 = KIns x r2).
      { inversion V as [x0 q0 K|l c t K I]; subst; [exists p'; exact K|].
        exfalso. destruct (kind_ins_item _ _ _ _ K1) as (a & o & Q). discriminate Q. }
      destruct K2 as [r2 K2]. rewrite K2.
      assert (Lr : leq r1 r2).
      { intros w. split; intros [r R].
        - assert (Y : lang_from g2 q2 (x :: w)) by (apply Lq; exists r; eapply run_vis; [apply vs_ins; exact K1 | exact R]).
          destruct Y as [r' R']. apply run_cons_inv in R'; [|exact NS2]. destruct R' as (p'' & V'' & R'').
          inversion V'' as [x0 q0 K|l c t K I]; subst; rewrite K2 in K; [injection K as <-; exists r'; exact R'' | discriminate].
        - assert (Y : lang_from g1 q1 (x :: w)) by (apply Lq; exists r; eapply run_vis; [apply vs_ins; exact K2 | exact R]).
          destruct Y as [r' R']. apply run_cons_inv in R'; [|exact NS1]. destruct R' as (p'' & V'' & R'').
          inversion V'' as [x0 q0 K|l c t K I]; subst; rewrite K1 in K; [injection K as <-; exists r'; exact R'' | discriminate]. }
      destruct (do_ins s x) as [s'|]; [|reflexivity]. rewrite (IH _ _ s' Lr). reflexivity.
    - (* a branching point on the left *)
      assert (NS1 : forall t, kind_of g1 q1 <> KSilent t) by (intros t; rewrite K1; discriminate).
      assert (A : forall c t, In (c, t) l1 -> exists l2 t', kind_of g2 q2 = KBranch l2 /\ In (c, t') l2).
      { intros c t I. assert (X : lang_from g2 q2 [Grd c]) by (apply Lq; eapply one_step; eapply vs_grd; eassumption).
        destruct X as [r0 R0]. apply run_cons_inv in R0; [|exact NS2]. destruct R0 as (p' & V & _).
        inversion V as [x0 q0 K|l c0 t' K I']; subst.
        - exfalso. destruct (kind_ins_item _ _ _ _ K) as (a & o & Q). discriminate Q.
        - exists l, t'. split; assumption. }
      destruct (kind_of g2 q2) as [x2 r2|t2|l2] eqn:K2; [| exfalso; eapply settle_not_silent; [exact E2 | exact K2] |].
      + (* right is an instruction: then the left must be one too *)
        exfalso. assert (X : lang_from g1 q1 [x2]) by (apply Lq; eapply one_step; apply vs_ins; exact K2).
        destruct X as [r0 R0]. apply run_cons_inv in R0; [|exact NS1]. destruct R0 as (p' & V & _).
        inversion V as [x0 q0 K|l c t K I]; subst; rewrite K1 in K; [discriminate|]. injection K as <-.
        destruct (A _ _ I) as (l2 & t' & Kx & _). discriminate Kx.
      + clear NS2. assert (NS2 : forall t, kind_of g2 q2 <> KSilent t) by (intros t; rewrite K2; discriminate).
        assert (A' : forall c t, In (c, t) l1 -> exists t', In (c, t') l2).
        { intros c t I. destruct (A _ _ I) as (l2' & t' & Kx & I'). injection Kx as <-. exists t'. exact I'. }
        assert (B' : forall c t, In (c, t) l2 -> exists t', In (c, t') l1).
        { intros c t I. assert (X : lang_from g1 q1 [Grd c]) by (apply Lq; eapply one_step; eapply vs_grd; eassumption).
          destruct X as [r0 R0]. apply run_cons_inv in R0; [|exact NS1]. destruct R0 as (p' & V & _).
          inversion V as [x0 q0 K|l c0 t' K I']; subst; rewrite K1 in K; [discriminate|]. injection K as <-. exists t'. exact I'. }
        pose proof (det_kind _ _ _ D1 K1) as N1. pose proof (det_kind _ _ _ D2 K2) as N2.
        pose proof (enabled_length St holds s l1 l2 N1 N2 A' B') as Len.
        pose proof (faulty_eq St holds s l1 l2 A' B') as FE.
        destruct l1 as [|a1 l1'], l2 as [|a2 l2'].
        * reflexivity.
        * exfalso. destruct a2 as [c t]. destruct (B' c t (or_introl eq_refl)) as [t' []].
        * exfalso. destruct a1 as [c t]. destruct (A' c t (or_introl eq_refl)) as [t' []].
        * rewrite FE. destruct (faulty St holds s (a2 :: l2')); [reflexivity|].
          destruct (enabled St holds s (a1 :: l1')) as [|[c1 t1] [|? ?]] eqn:En1;
            destruct (enabled St holds s (a2 :: l2')) as [|[c2 t2] [|? ?]] eqn:En2; cbn in Len; try lia; try reflexivity.
          assert (I1 : In (c1, t1) (enabled St holds s (a1 :: l1'))) by (rewrite En1; left; reflexivity).
          unfold enabled in I1. apply filter_In in I1 as [I1 H1]. cbn [fst] in H1.
          destruct (A' _ _ I1) as [t2' I2].
          assert (I2' : In (c1, t2') (enabled St holds s (a2 :: l2'))) by (unfold enabled; apply filter_In; split; [exact I2 | exact H1]).
          rewrite En2 in I2'. destruct I2' as [Q|[]]. injection Q as -> ->. cbn [fst snd].
          assert (I2e : In (c1, t2') (a2 :: l2')) by exact I2.
          assert (Lr : leq (t1, O) (t2', O)).
          { intros w. split; intros [r R].
            - assert (Y : lang_from g2 q2 (Grd c1 :: w)) by (apply Lq; exists r; eapply run_vis; [eapply vs_grd; [exact K1 | exact I1] | exact R]).
              destruct Y as [r' R']. apply run_cons_inv in R'; [|exact NS2]. destruct R' as (p'' & V'' & R'').
              inversion V'' as [x0 q0 K|l c0 t' K I']; subst; rewrite K2 in K; [discriminate|]. injection K as <-.
              rewrite (nodup_labs_fun _ _ _ _ N2 I' I2e) in R''. exists r'. exact R''.
            - assert (Y : lang_from g1 q1 (Grd c1 :: w)) by (apply Lq; exists r; eapply run_vis; [eapply vs_grd; [exact K2 | exact I2e] | exact R]).
              destruct Y as [r' R']. apply run_cons_inv in R'; [|exact NS1]. destruct R' as (p'' & V'' & R'').
              inversion V'' as [x0 q0 K|l c0 t' K I']; subst; rewrite K1 in K; [discriminate|]. injection K as <-.
              rewrite (nodup_labs_fun _ _ _ _ N1 I' I1) in R''. exists r'. exact R''. }
          rewrite (IH _ _ s Lr). reflexivity.
  Qed.
End LangEq.

(* [U] lang_eq_exec for Exec/Sem.v from LANGUAGE EQUALITY alone (no appeal to the checker): two functions whose
   graphs have the same language, are det and well formed, execute alike under Sem from every state *)
Theorem lang_eq_exec_sem_lang f1 f2 :
  (forall w, lang (f_cfg f1) w <-> lang (f_cfg f2) w) -> det (f_cfg f1) = true -> det (f_cfg f2) = true ->
  swf (f_cfg f1) -> swf (f_cfg f2) ->
  forall st, (forall m1, exists m2, sem_obs m1 f1 st = sem_obs m2 f2 st) /\
             (forall m2, exists m1, sem_obs m1 f1 st = sem_obs m2 f2 st).
Proof.
  intros LE D1 D2 W1 W2 st.
  assert (NS1 : forall p, settle (f_cfg f1) (silent_fuel (f_cfg f1)) p <> None).
  { intros p. destruct (settle_some f1 W1 p) as (q & _ & E). rewrite E. discriminate. }
  assert (NS2 : forall p, settle (f_cfg f2) (silent_fuel (f_cfg f2)) p <> None).
  { intros p. destruct (settle_some f2 W2 p) as (q & _ & E). rewrite E. discriminate. }
  destruct (g_entry (f_cfg f1)) as [e1|] eqn:E1, (g_entry (f_cfg f2)) as [e2|] eqn:E2.
  - assert (L : leq (f_cfg f1) (f_cfg f2) (e1, O) (e2, O)).
    { intros w. split; intros X.
      - assert (Y : lang (f_cfg f1) w) by (exists e1; split; [exact E1 | exact X]). apply LE in Y as (e & Ee & Y). rewrite E2 in Ee. injection Ee as <-. exact Y.
      - assert (Y : lang (f_cfg f2) w) by (exists e2; split; [exact E2 | exact X]). apply LE in Y as (e & Ee & Y). rewrite E1 in Ee. injection Ee as <-. exact Y. }
    destruct (sem_pexec_link f1 e1 W1 E1) as [A1 B1]. destruct (sem_pexec_link f2 e2 W2 E2) as [A2 B2].
    assert (EQ : forall n, ins_only (fst (sem_pexec (f_cfg f1) (silent_fuel (f_cfg f1)) n (e1, O) st)) =
                           ins_only (fst (sem_pexec (f_cfg f2) (silent_fuel (f_cfg f2)) n (e2, O) st))).
    { intros n. unfold sem_pexec. rewrite (lang_eq_pexec sstate sem_do sem_holds _ _ _ _ D1 D2 NS1 NS2 n _ _ st L). reflexivity. }
    split.
    + intros m1. destruct (A1 m1 st) as [n En]. destruct (B2 n st) as [m2 Em]. exists m2. rewrite En, EQ, Em. reflexivity.
    + intros m2. destruct (A2 m2 st) as [n En]. destruct (B1 n st) as [m1 Em]. exists m1. rewrite En, <- EQ, Em. reflexivity.
  - exfalso. assert (Y : lang (f_cfg f1) []) by (exists e1; split; [exact E1 | exists (e1, O); constructor]).
    apply LE in Y as (e & Ee & _). rewrite E2 in Ee. discriminate.
  - exfalso. assert (Y : lang (f_cfg f2) []) by (exists e2; split; [exact E2 | exists (e2, O); constructor]).
    apply LE in Y as (e & Ee & _). rewrite E1 in Ee. discriminate.
  - unfold sem_obs, from_function. rewrite E1, E2. split; intros; exists O; reflexivity.
Qed.
