(* Lift/C05Check.v -- the per-case checker evaluated in the kernel by the C05 case files.
   One case = one lifted block: the architecture's address width, the re-lift flag (the same bytes lifted
   a second time in a fresh translator instance gave an identical dump) and the observation.
     fst (tie)    = the re-lift flag                       [determinism of lifting, differential]
     snd (oracle) = re-lift flag && the observation satisfies the property:
                    an error is allowed; a result must pass wf_result and guards_det_check
                    (sound by WfProofs.wf_result_sound / GuardDecide.guards_det_sound);
                    a panic, an abort of the process or a wall-clock timeout never does. *)
From Coq Require Import ZArith List Bool NArith.
From Falcon Require Import Base.Res IL.Const IL.Expr IL.Func Lift.Wf Lift.GuardDecide Lift.WfProofs.
Import ListNotations.
Local Open Scope Z_scope.

Inductive lift_obs :=
| LOk (r : bresult)     (* Ok(BlockTranslationResult), dumped *)
| LErr                  (* Err(_) : allowed by the property *)
| LPanic                (* a Rust panic caught by catch_unwind *)
| LAbort                (* the child process died (abort in C code, stack overflow, ...) *)
| LTimeout.             (* no answer within the wall-clock limit *)

(* Known-finding classes.  A case whose INPUT belongs to a known-finding class (decided by the harness from the
   decoded instruction) names the single clause the class is known to violate.  Its tie then demands that the
   observation passes the validators with exactly that clause waived -- any other failing clause on a tagged input
   makes the tie fail as well, and vcheck reports a VIOLATION instead of a KNOWN-FINDING. *)
Inductive tol :=
| TIndexWidth     (* Load / Store index width differs from the architecture's address width *)
| TBranchWidth    (* Branch target width differs from the architecture's address width *)
| TAssignWidth    (* Assign source width differs from the destination width *)
| TPanic.         (* the lifter panics *)
Definition tol_eqb (a b : tol) : bool :=
  match a, b with
  | TIndexWidth, TIndexWidth | TBranchWidth, TBranchWidth | TAssignWidth, TAssignWidth | TPanic, TPanic => true
  | _, _ => false
  end.
Definition waived (t : tol) (l : list tol) : bool := existsb (tol_eqb t) l.

(* wf_op / wf_graph / wf_result of Lift/Wf.v with the clauses of l waived *)
Definition wf_op_tol (l : list tol) (ab : Z) (o : operation) : bool :=
  match o with
  | OAssign d s => wf_expr s && (waived TAssignWidth l || (e_bits s =? sbits d))
  | OStore i s => wf_expr i && wf_expr s && (waived TIndexWidth l || (e_bits i =? ab)) && mem_w (e_bits s)
  | OLoad d i => wf_expr i && (waived TIndexWidth l || (e_bits i =? ab)) && mem_w (sbits d)
  | OBranch t => wf_expr t && (waived TBranchWidth l || (e_bits t =? ab))
  | _ => wf_op ab o
  end.
Definition wf_graph_tol (l : list tol) (ab : Z) (g : cfg) : bool :=
  match g_entry g, g_exit g with
  | Some en, Some ex =>
      has_block g en && has_block g ex && reach_check g en ex &&
      forallb (fun e => has_block g (e_head e) && has_block g (e_tail e) && wf_guard (e_cond e)) (g_edges g) &&
      forallb (fun b => forallb (fun i => wf_op_tol l ab (i_op i)) (b_instrs b)) (g_blocks g)
  | _, _ => false
  end.
Definition wf_result_tol (l : list tol) (ab : Z) (r : bresult) : bool :=
  forallb (fun p => wf_graph_tol l ab (snd p)) (br_instrs r) &&
  forallb (fun p => wf_guard (snd p)) (br_succs r).

Inductive case := KLift (addr_bits : Z) (relift_equal : bool) (known : list tol) (obs : lift_obs).

Definition obs_ok (ab : Z) (o : lift_obs) : bool :=
  match o with
  | LOk r => wf_result ab r && guards_det_check r
  | LErr => true
  | LPanic | LAbort | LTimeout => false
  end.

(* the observation of an input of known-finding classes l deviates at most in the clauses of l *)
Definition obs_ok_tol (l : list tol) (ab : Z) (o : lift_obs) : bool :=
  match o with
  | LOk r => wf_result_tol l ab r && guards_det_check r
  | LErr => true
  | LPanic => waived TPanic l
  | LAbort | LTimeout => false
  end.

Definition ck (k : case) : bool * bool :=
  match k with
  | KLift ab relift l o =>
      (relift && match l with [] => true | _ => obs_ok_tol l ab o end, relift && obs_ok ab o)
  end.

(* what a passing case means *)
Lemma oracle_sound : forall ab relift l o, snd (ck (KLift ab relift l o)) = true ->
  relift = true /\ (o = LErr \/ exists r, o = LOk r /\ Wf_result ab r /\ Det_result r).
Proof.
  intros ab relift l o H. cbn in H. apply andb_prop in H as [H1 H2]. split; [exact H1|].
  destruct o as [r| | | |]; try discriminate H2; [right|left; reflexivity].
  cbn in H2. apply andb_prop in H2 as [Hw Hd].
  exists r. split; [reflexivity|]. split; [apply wf_result_sound|apply guards_det_sound]; assumption.
Qed.

(* compact constructors used by the case files (harness c05.rs): scalars without ssa version, instructions
   without address, blocks without phi nodes *)
Definition sc (n w : Z) : scalar := mks (Z.to_N n) w None.
Definition es (n w : Z) : expr := EScalar (sc n w).
Definition ek (w v : Z) : expr := EConst (mkc w v).
Definition ins (i : Z) (o : operation) : instruction := mkinstr i o None.
Definition blk (i : Z) (l : list instruction) : block := mkblock i (Z.of_nat (length l)) l [].

(* diagnosis of a failing case (used when examining a rejection by hand):
   [re-lift equal; wf_result; guards of every instruction graph; successor guards; successor addresses distinct] *)
Definition diag (k : case) : list bool :=
  match k with
  | KLift ab relift _ (LOk r) =>
      [relift; wf_result ab r; forallb (fun p => guards_det_graph (snd p)) (br_instrs r);
       match br_succs r with [] => true | ss => exactly_one (map snd ss) end; nodupZ (map fst (br_succs r))]
  | KLift _ relift _ o => [relift; obs_ok 0 o]
  end.
