(* Lift/Recover.v -- Gallina transcription of Translator::translate_function_extended
   (lib/translator/mod.rs), up to but NOT including the final ControlFlowGraph::merge (C15 owns merge and proves
   that it preserves the entry language).

   The block translator and the memory are abstracted into ONE table
       tb : block address -> what `get_bytes` + `translate_block` produced there
   (an address that is not in the table stands for "get_bytes returned no bytes": the empty block).
   The harness records the table while the real default method runs, so the tie
       recover tb fa manual  ~  observed function        (same language, same items; see C06Check.v)
   exercises: the FIFO discovery, the BTreeMap assembly order, instruction_indices sharing, chain edges,
   manual edges, successor joining and duplicate suppression, set_entry.

   Graphs are kept as (blocks, edges) lists in INSERTION order; the static-view sorting is irrelevant for
   every observation made on the result (find_block / find_edge / filter by head). *)
From Coq Require Import ZArith List Bool NArith.
From Falcon Require Import Base.Res IL.Const IL.Expr IL.Func Cfg.SOps.
Import ListNotations.
Local Open Scope Z_scope.

Record block_result := mkbr {
  br_instrs : list (Z * cfg);                 (* BlockTranslationResult::instructions *)
  br_succ : list (Z * option expr) }.         (* BlockTranslationResult::successors *)
Record medge_m := mkmm { mm_head : Z; mm_tail : Z; mm_cond : option expr }.

Definition tbtable := list (Z * res block_result).
Fixpoint tb_lookup (tb : tbtable) (a : Z) : option (res block_result) :=
  match tb with [] => None | (k, r) :: t => if k =? a then Some r else tb_lookup t a end.

(* ControlFlowGraph::new() + new_block() + set_entry + set_exit *)
Definition empty_block_cfg : cfg := mkcfg [mkblock 0 0 [] []] [] 1 (Some 0) (Some 0).

(* ---------------- phase 1: discovery (VecDeque work list, BTreeMap of results) ---------------- *)
Fixpoint bt_mem {A} (m : list (Z * A)) (a : Z) : bool :=
  match m with [] => false | (k, _) :: t => (k =? a) || bt_mem t a end.
(* BTreeMap::insert on a new key: keep ascending key order *)
Fixpoint bt_insert {A} (m : list (Z * A)) (a : Z) (v : A) : list (Z * A) :=
  match m with
  | [] => [(a, v)]
  | (k, w) :: t => if a <? k then (a, v) :: m else if a =? k then (a, v) :: t else (k, w) :: bt_insert t a v
  end.
Fixpoint bt_get {A} (m : list (Z * A)) (a : Z) : option A :=
  match m with [] => None | (k, w) :: t => if k =? a then Some w else bt_get t a end.

Definition enqueue_succ (q : list Z) (succ : list (Z * option expr)) : list Z :=
  fold_left (fun q s => if existsb (Z.eqb (fst s)) q then q else q ++ [fst s]) succ q.

Fixpoint discover (tb : tbtable) (fuel : nat) (q : list Z) (results : list (Z * block_result))
  : res (list (Z * block_result)) :=
  match fuel with
  | O => Panic                                   (* fuel is sized so that this cannot happen *)
  | S f =>
      match q with
      | [] => Ok results
      | a :: q' =>
          if bt_mem results a then discover tb f q' results
          else match tb_lookup tb a with
               | None => discover tb f q' (bt_insert results a (mkbr [(a, empty_block_cfg)] []))
               | Some (Ok r) => discover tb f (enqueue_succ q' (br_succ r)) (bt_insert results a r)
               | Some (Err e) => Err e
               | Some Panic => Panic
               end
      end
  end.

(* ---------------- phase 2: assembly ---------------- *)
Record gstate := mkgs { gs_blocks : list block; gs_edges : list edge; gs_next : Z }.

Definition gs_has_block (g : gstate) (i : Z) : bool :=
  match find_block (gs_blocks g) i with Some _ => true | None => false end.
Definition gs_has_edge (g : gstate) (h t : Z) : bool :=
  match find_edge (gs_edges g) h t with Some _ => true | None => false end.
(* Graph::insert_edge : duplicate or missing endpoint => Err (both are string errors) *)
Definition gs_insert_edge (g : gstate) (e : edge) : res gstate :=
  if gs_has_edge g (e_head e) (e_tail e) then Err ECustom
  else if negb (gs_has_block g (e_head e) && gs_has_block g (e_tail e)) then Err EGraphVertex
  else Ok (mkgs (gs_blocks g) (gs_edges g ++ [e]) (gs_next g)).

Fixpoint number_from (base : Z) (bs : list block) : list (Z * Z) :=   (* old index -> new index *)
  match bs with [] => [] | b :: t => (b_index b, base) :: number_from (base + 1) t end.
Definition reindex (m : list (Z * Z)) (i : Z) : res Z :=
  match bt_get m i with Some j => Ok j | None => Panic end.           (* block_map[&i] *)
Fixpoint map_res {A B} (f : A -> res B) (l : list A) : res (list B) :=
  match l with
  | [] => Ok []
  | x :: t => y <- f x ;; r <- map_res f t ;; Ok (y :: r)
  end.

(* ControlFlowGraph::insert : returns the new state and the (entry, exit) of the inserted copy *)
Definition gs_insert (g : gstate) (other : cfg) : res (gstate * (Z * Z)) :=
  match g_entry other, g_exit other with
  | Some en, Some ex =>
      let m := number_from (gs_next g) (g_blocks other) in
      let nb := map (fun b => mkblock (match bt_get m (b_index b) with Some j => j | None => b_index b end)
                                      (b_next b) (b_instrs b) (b_phis b)) (g_blocks other) in
      es <- map_res (fun e => h <- reindex m (e_head e) ;; t <- reindex m (e_tail e) ;; Ok (mkedge h t (e_cond e)))
                    (g_edges other) ;;
      let g' := mkgs (gs_blocks g ++ nb) (gs_edges g) (gs_next g + Z.of_nat (length (g_blocks other))) in
      g'' <- fold_left (fun acc e => a <- acc ;; gs_insert_edge a e) es (Ok g') ;;
      match bt_get m en, bt_get m ex with
      | Some en', Some ex' => Ok (g'', (en', ex'))
      | _, _ => Err ENoEntry
      end
  | _, _ => Err ENoEntry
  end.

Record astate := mkas {
  as_g : gstate;
  as_ii : list (Z * (Z * Z)) }.       (* instruction_indices *)

(* the inner loop over one block translation result *)
Fixpoint assemble_block (st : astate) (ins : list (Z * cfg)) (block_entry block_exit : Z) (prev : option Z)
  : res (astate * (Z * Z)) :=
  match ins with
  | [] => Ok (st, (block_entry, block_exit))
  | (a, ig) :: rest =>
      r <- match bt_get (as_ii st) a with
           | Some ee => Ok (st, ee)
           | None => x <- gs_insert (as_g st) ig ;; Ok (mkas (fst x) (bt_insert (as_ii st) a (snd x)), snd x)
           end ;;
      let st1 := fst r in let en := fst (snd r) in let ex := snd (snd r) in
      match prev with
      | Some px =>
          g2 <- (if gs_has_edge (as_g st1) px en then Ok (as_g st1) else gs_insert_edge (as_g st1) (mkedge px en None)) ;;
          assemble_block (mkas g2 (as_ii st1)) rest block_entry ex (Some ex)
      | None => assemble_block st1 rest en ex (Some ex)
      end
  end.

Fixpoint assemble (st : astate) (results : list (Z * block_result)) (bi : list (Z * (Z * Z)))
  : res (astate * list (Z * (Z * Z))) :=
  match results with
  | [] => Ok (st, bi)
  | (a, r) :: rest =>
      x <- assemble_block st (br_instrs r) 0 0 None ;;
      assemble (fst x) rest (bt_insert bi a (snd x))
  end.

(* ---------------- phases 3-5: manual edges, successor edges, entry ---------------- *)
Definition bi_get (bi : list (Z * (Z * Z))) (a : Z) : res (Z * Z) :=
  match bt_get bi a with Some x => Ok x | None => Panic end.         (* block_indices[&a] *)

Definition add_manual (bi : list (Z * (Z * Z))) (g : gstate) (m : medge_m) : res gstate :=
  h <- bi_get bi (mm_head m) ;; t <- bi_get bi (mm_tail m) ;;
  if gs_has_edge g (snd h) (fst t) then Ok g else gs_insert_edge g (mkedge (snd h) (fst t) (mm_cond m)).

(* successors which share a target become one edge, taken under either condition (fix 0a63bfb) *)
Fixpoint join_succ (acc : list (Z * option expr)) (s : list (Z * option expr)) : list (Z * option expr) :=
  match s with
  | [] => acc
  | (t, c) :: rest =>
      let fix upd (l : list (Z * option expr)) : option (list (Z * option expr)) :=
        match l with
        | [] => None
        | (t', c') :: r =>
            if t' =? t then Some ((t', match c', c with Some a, Some b => Some (EBin Or a b) | _, _ => None end) :: r)
            else match upd r with Some r' => Some ((t', c') :: r') | None => None end
        end in
      join_succ (match upd acc with Some acc' => acc' | None => acc ++ [(t, c)] end) rest
  end.

Definition add_successors (bi : list (Z * (Z * Z))) (g : gstate) (ar : Z * block_result) : res gstate :=
  x <- bi_get bi (fst ar) ;;
  fold_left (fun acc s =>
               g' <- acc ;; e <- bi_get bi (fst s) ;;
               if gs_has_edge g' (snd x) (fst e) then Ok g'
               else gs_insert_edge g' (mkedge (snd x) (fst e) (snd s)))
            (join_succ [] (br_succ (snd ar))) (Ok g).

Definition discover_fuel (tb : tbtable) (manual : list medge_m) : nat :=
  (4 + 2 * length manual +
   fold_right (fun kr n => (2 + match snd kr with Ok r => length (br_succ r) | _ => O end + n)%nat) O tb)%nat.

(* translate_function_extended without the final merge; Expression::or cannot fail on 1-bit guards of equal
   width -- a sort error there would be Err ESort in Rust and is outside the model (guards are 1 bit) *)
Definition recover (tb : tbtable) (fa : Z) (manual : list medge_m) : res func :=
  let q0 := fa :: flat_map (fun m => [mm_head m; mm_tail m]) manual in
  results <- discover tb (discover_fuel tb manual) q0 [] ;;
  x <- assemble (mkas (mkgs [] [] 0) []) results [] ;;
  let bi := snd x in
  g1 <- fold_left (fun acc m => g <- acc ;; add_manual bi g m) manual (Ok (as_g (fst x))) ;;
  g2 <- fold_left (fun acc ar => g <- acc ;; add_successors bi g ar) results (Ok g1) ;;
  en <- bi_get bi fa ;;
  if gs_has_block g2 (fst en)
  then Ok (mkfunc fa (mkcfg (gs_blocks g2) (gs_edges g2) (gs_next g2) (Some (fst en)) None) None)
  else Err ECustom.

(* ---------------- the final merge (C15's static model of ControlFlowGraph::merge) ---------------- *)
(* the static view keeps edges in BTreeMap<(head, tail)> order *)
Definition edge_le (a b : edge) : bool := (e_head a <? e_head b) || ((e_head a =? e_head b) && (e_tail a <=? e_tail b)).
Fixpoint insert_sorted (e : edge) (l : list edge) : list edge :=
  match l with
  | [] => [e]
  | x :: t => if edge_le e x then e :: l else x :: insert_sorted e t
  end.
Definition sort_edges (l : list edge) : list edge := fold_right insert_sorted [] l.

(* the static view of a graph assembled in insertion order *)
Definition static_view (g : cfg) : cfg :=
  mkcfg (g_blocks g) (sort_edges (g_edges g)) (g_next_index g) (g_entry g) (g_exit g).
(* the executable side condition under which C15's merge theorems apply (Cfg/MergeLift.v cfg_inv_sinv) *)
Definition merge_ready (g : cfg) : bool :=
  cfg_inv g && (0 <=? g_next_index g) && forallb (fun b => 0 <=? b_next b) (g_blocks g).

(* translate_function_extended, complete *)
Definition recover_full (tb : tbtable) (fa : Z) (manual : list medge_m) : res func :=
  f <- recover tb fa manual ;;
  match s_merge (static_view (f_cfg f)) with
  | (g', Ok _) => Ok (mkfunc fa g' None)
  | (_, Err e) => Err e
  | (_, Panic) => Panic
  end.
