(* Lift/C06Check.v -- per-case checker of property C06, evaluated in the kernel by the case files.

   A case carries the machine-code program as the harness read it, ONE INSTRUCTION AT A TIME
   (items: address, length, the IL graphs of the instruction lifted in isolation, its successors),
   the requested manual edges, initial states, and the Function returned by the real
   Translator::translate_function_extended.

   oracle (snd) : the reference graph G_prog is built HERE from the items ("executing the machine code one
                  instruction at a time"), and the observed function must
                    - have the same language (verified checker lang_bisim, Lift/Lang.v),
                    - contain every (address, operation) item of G_prog exactly as often as G_prog does,
                    - start at the function address, name only existing blocks in edges / entry / exit,
                    - behave like G_prog under the reference semantics Exec/Sem.v from the given states
                      (same addresses visited, same states, same outcome),
                    - (harness-side, differential) agree with the toy interpreter under executor::Driver.
   tie (fst)    : Lift/Recover.v (the Gallina transcription of translate_function_extended WITHOUT its final merge),
                  run on the table of block translations the harness recorded, against the observed function:
                  same language (lang_bisim; merge preserves the language -- C15), same multiset of items, same
                  address; or the same error. *)
From Coq Require Import ZArith List Bool NArith.
From Falcon Require Import Base.Res IL.Const IL.Expr IL.Func IL.Loc Exec.Sem Lift.Lang Lift.LangSem Lift.Recover.
Import ListNotations.
Local Open Scope Z_scope.

(* ------------------------------------------------------------------ the program, one instruction at a time *)
Record pinstr := mkpi {
  pi_addr : Z;
  pi_len : Z;
  pi_plain : bool;                        (* falls through to pi_addr + pi_len and nowhere else, not a control transfer *)
  pi_graphs : list cfg;                   (* IL of the unit lifted in isolation (MIPS: condition, delay slot, branch) *)
  pi_succ : list (Z * option expr) }.     (* direct successors with their guards *)
Record medge := mkme { me_head : Z; me_tail : Z; me_cond : option expr }.

Fixpoint find_pi (l : list pinstr) (a : Z) : option pinstr :=
  match l with [] => None | x :: t => if pi_addr x =? a then Some x else find_pi t a end.

(* an unmapped address is an item whose IL is one empty block *)
Definition pi_is_hole (p : pinstr) : bool :=
  match pi_graphs p with
  | [g] => match g_blocks g with [b] => block_is_empty b | _ => false end
  | _ => false
  end.

(* the end of the straight-line run that starts at [a]: the first unit that is not plain, or whose
   fall-through address is not mapped.  A manual edge "from a" leaves the basic block that starts at a. *)
Fixpoint run_end (items : list pinstr) (fuel : nat) (a : Z) : Z :=
  match fuel with
  | O => a
  | S f => match find_pi items a with
           | Some p => if pi_plain p
                       then match find_pi items (pi_addr p + pi_len p) with
                            | Some q => if pi_is_hole q then a else run_end items f (pi_addr q)
                            | None => a
                            end
                       else a
           | None => a
           end
  end.

(* successors that share a target are ONE edge, taken under either condition *)
Fixpoint merge_succ (acc : list (Z * option expr)) (s : list (Z * option expr)) : list (Z * option expr) :=
  match s with
  | [] => acc
  | (t, c) :: rest =>
      let fix upd (l : list (Z * option expr)) : option (list (Z * option expr)) :=
        match l with
        | [] => None
        | (t', c') :: r =>
            if t' =? t then Some ((t', match c', c with Some a, Some b => Some (EBin Or a b) | _, _ => None end) :: r)
            else match upd r with Some r' => Some ((t', c') :: r') | None => None end
        end in
      merge_succ (match upd acc with Some acc' => acc' | None => acc ++ [(t, c)] end) rest
  end.

(* shift a graph's block indices by [base] *)
Definition shift_block (base : Z) (b : block) : block := mkblock (b_index b + base) (b_next b) (b_instrs b) (b_phis b).
Definition shift_edge (base : Z) (e : edge) : edge := mkedge (e_head e + base) (e_tail e + base) (e_cond e).

Record placed := mkpl { pl_addr : Z; pl_entry : Z; pl_exit : Z }.

(* lay the graphs of one unit out from [base]; chain them with unguarded edges *)
Fixpoint place_graphs (base : Z) (prev_exit : option Z) (gs : list cfg)
  : option (list block * list edge * Z * option Z * option Z) :=    (* blocks, edges, next base, first entry, last exit *)
  match gs with
  | [] => Some ([], [], base, None, prev_exit)
  | g :: rest =>
      match g_entry g, g_exit g with
      | Some en, Some ex =>
          match place_graphs (base + g_next_index g) (Some (ex + base)) rest with
          | Some (bs, es, nb, _, lastx) =>
              Some (map (shift_block base) (g_blocks g) ++ bs,
                    match prev_exit with Some px => [mkedge px (en + base) None] | None => [] end
                      ++ map (shift_edge base) (g_edges g) ++ es,
                    nb, Some (en + base), lastx)
          | None => None
          end
      | _, _ => None
      end
  end.

Fixpoint place_items (base : Z) (items : list pinstr) : option (list block * list edge * Z * list placed) :=
  match items with
  | [] => Some ([], [], base, [])
  | p :: rest =>
      match place_graphs base None (pi_graphs p) with
      | Some (bs, es, nb, Some en, Some ex) =>
          match place_items nb rest with
          | Some (bs', es', nb', pls) => Some (bs ++ bs', es ++ es', nb', mkpl (pi_addr p) en ex :: pls)
          | None => None
          end
      | _ => None
      end
  end.

Fixpoint find_pl (l : list placed) (a : Z) : option placed :=
  match l with [] => None | x :: t => if pl_addr x =? a then Some x else find_pl t a end.

Definition add_edge (es : list edge) (e : edge) : list edge :=
  match find_edge es (e_head e) (e_tail e) with Some _ => es | None => es ++ [e] end.

(* manual edges first (the first request for a (head, tail) pair wins), then the successors of every unit;
   an edge of G_prog never replaces a requested one *)
Definition manual_edges (items : list pinstr) (pls : list placed) (ms : list medge) : option (list edge) :=
  fold_left (fun acc m =>
    match acc with
    | None => None
    | Some es =>
        match find_pl pls (run_end items (length items) (me_head m)), find_pl pls (me_tail m) with
        | Some h, Some t => Some (add_edge es (mkedge (pl_exit h) (pl_entry t) (me_cond m)))
        | _, _ => None
        end
    end) ms (Some []).

Definition succ_edges (pls : list placed) (items : list pinstr) (es0 : list edge) : option (list edge) :=
  fold_left (fun acc p =>
    match acc, find_pl pls (pi_addr p) with
    | Some es, Some h =>
        fold_left (fun acc2 tc =>
          match acc2, find_pl pls (fst tc) with
          | Some es2, Some t => Some (add_edge es2 (mkedge (pl_exit h) (pl_entry t) (snd tc)))
          | _, _ => None
          end) (merge_succ [] (pi_succ p)) (Some es)
    | _, _ => None
    end) items (Some es0).

(* G_prog (with the manual edges): None if the items are not closed under successors (a harness bug) *)
Definition gprog (fa : Z) (items : list pinstr) (ms : list medge) : option func :=
  match place_items 0 items with
  | Some (bs, es, nb, pls) =>
      match manual_edges items pls ms with
      | Some me =>
          match succ_edges pls items me, find_pl pls fa with
          | Some se, Some en => Some (mkfunc fa (mkcfg bs (es ++ se) nb (Some (pl_entry en)) None) None)
          | _, _ => None
          end
      | None => None
      end
  | None => None
  end.

(* ------------------------------------------------------------------ structural clauses *)
Definition all_items (g : cfg) : list item :=
  flat_map (fun b => map (fun i => Ins (i_addr i) (i_op i)) (b_instrs b)) (g_blocks g).

Fixpoint remove_one (x : item) (l : list item) : option (list item) :=
  match l with
  | [] => None
  | y :: t => if item_eqb x y then Some t
              else match remove_one x t with Some t' => Some (y :: t') | None => None end
  end.
Fixpoint multiset_eqb (l1 l2 : list item) : bool :=
  match l1 with
  | [] => match l2 with [] => true | _ => false end
  | x :: t => match remove_one x l2 with Some l2' => multiset_eqb t l2' | None => false end
  end.

Definition names_ok (g : cfg) : bool :=
  forallb (fun e => has_block g (e_head e) && has_block g (e_tail e)) (g_edges g) &&
  match g_entry g with Some i => has_block g i | None => false end &&
  match g_exit g with Some i => has_block g i | None => true end.

(* the entry block starts at the function address (when the function address holds an instruction) *)
Definition entry_ok (fa : Z) (items : list pinstr) (g : cfg) : bool :=
  match find_pi items fa with
  | Some p =>
      if pi_is_hole p then true
      else match g_entry g with
           | Some e => match find_block (g_blocks g) e with
                       | Some b => optZ_eqb (block_address b) (Some fa)
                       | None => false
                       end
           | None => false
           end
  | None => true
  end.

(* ------------------------------------------------------------------ agreement under the reference semantics *)
Inductive final := FExit | FGoto (a : Z) | FStuck (e : err) | FCut | FSilent.

Definition skey_eqb' (a b : skey) : bool := skey_eqb a b.
Definition env_eqb (a b : senv) : bool :=
  list_eqb (fun x y => skey_eqb (fst x) (fst y) && const_eqb (snd x) (snd y)) a b.
Definition st_eqb (a b : sstate) : bool :=
  env_eqb (st_env a) (st_env b) &&
  list_eqb (fun x y => (fst x =? fst y) && (snd x =? snd y)) (bm_bytes (st_mem a)) (bm_bytes (st_mem b)).
Definition final_eqb (a b : final) : bool :=
  match a, b with
  | FExit, FExit | FCut, FCut | FSilent, FSilent => true
  | FGoto x, FGoto y => x =? y
  | FStuck e, FStuck e' => err_eqb e e'
  | _, _ => false
  end.

(* run until k instructions have been executed; fuel bounds all steps *)
Fixpoint sem_vis (fuel k : nat) (f : func) (l : floc) (st : sstate) : list (option Z * sstate) * final :=
  match fuel with
  | O => ([], FSilent)
  | S fuel' =>
      let addr := match loc_instruction f l with Some i => Some (i_addr i) | None => None end in
      match addr, k with
      | Some _, O => ([], FCut)
      | _, _ =>
          let k' := match addr with Some _ => pred k | None => k end in
          let here st' := match addr with Some a => [(a, st')] | None => [] end in
          match sem_step f l st with
          | Next l' st' _ => let r := sem_vis fuel' k' f l' st' in (here st' ++ fst r, snd r)
          | Goto a st' => (here st', FGoto a)
          | Exit st' _ => (here st', FExit)
          | Stuck e =>
              (* the operation itself may have succeeded and only the choice of the successor failed
                 (no guard / several guards hold): the instruction still counts as visited *)
              match loc_instruction f l with
              | Some i => match exec_op st (i_op i) with
                          | Ok (st', _) => (here st', FStuck e)
                          | _ => ([], FStuck e)
                          end
              | None => ([], FStuck e)
              end
          end
      end
  end.

Definition vis_eqb (a b : list (option Z * sstate) * final) : bool :=
  list_eqb (fun x y => optZ_eqb (fst x) (fst y) && st_eqb (snd x) (snd y)) (fst a) (fst b) && final_eqb (snd a) (snd b).

Definition sem_agree (k : nat) (f1 f2 : func) (en : senv) : bool :=
  match from_function f1, from_function f2 with
  | Some (Ok l1), Some (Ok l2) =>
      let st := mkst en (mkbmem false []) in
      let fuel1 := (S k * (2 * length (f_blocks f1) + 4))%nat in
      let fuel2 := (S k * (2 * length (f_blocks f2) + 4))%nat in
      vis_eqb (sem_vis fuel1 k f1 l1 st) (sem_vis fuel2 k f2 l2 st)
  | _, _ => false
  end.

(* exact comparison of the static views (next-index counters are private in Rust and not dumped) *)
Definition instr_eqb (a b : instruction) : bool :=
  (i_index a =? i_index b) && op_eqb (i_op a) (i_op b) && optZ_eqb (i_addr a) (i_addr b).
Definition block_eqb (a b : block) : bool := (b_index a =? b_index b) && list_eqb instr_eqb (b_instrs a) (b_instrs b).
Definition edge_eqb (a b : edge) : bool := (e_head a =? e_head b) && (e_tail a =? e_tail b) && lab_eqb (e_cond a) (e_cond b).
Definition cfg_eqb (a b : cfg) : bool :=
  list_eqb block_eqb (g_blocks a) (g_blocks b) && list_eqb edge_eqb (g_edges a) (g_edges b) &&
  optZ_eqb (g_entry a) (g_entry b) && optZ_eqb (g_exit a) (g_exit b).

(* ------------------------------------------------------------------ tb_spec, tested on the recorded block translations *)
(* every block translation the real translate_block returned is a straight-line run of the program's units (as
   lifted in isolation), ended by the first control transfer with that unit's successors, or cut earlier with the
   fall-through successor: the run_spec hypothesis of Props/C06.v recover_struct_once / recover_lang_partial /
   recover_executes_like_machine_code, checked on the real (toy, MIPS, x86) block translators *)
Fixpoint graphs_match (gs : list cfg) (ins : list (Z * cfg)) : option (list (Z * cfg)) :=
  match gs with
  | [] => Some ins
  | g :: gs' => match ins with
                | (_, g') :: ins' => if cfg_eqb g g' then graphs_match gs' ins' else None
                | [] => None
                end
  end.
Definition succ_eqb (a b : list (Z * option expr)) : bool :=
  list_eqb (fun x y => (fst x =? fst y) && lab_eqb (snd x) (snd y)) a b.
Fixpoint run_check (items : list pinstr) (fuel : nat) (a : Z) (ins : list (Z * cfg)) (succ : list (Z * option expr)) : bool :=
  match fuel with
  | O => false
  | S f =>
      match find_pi items a with
      | None => false
      | Some p =>
          match graphs_match (pi_graphs p) ins with
          | None => false
          | Some [] => if pi_plain p then succ_eqb succ [(pi_addr p + pi_len p, None)] else succ_eqb succ (merge_succ [] (pi_succ p))
          | Some rest => pi_plain p && run_check items f (pi_addr p + pi_len p) rest succ
          end
      end
  end.
Definition tb_check (items : list pinstr) (tb : tbtable) : bool :=
  forallb (fun ar => match snd ar with
                     | Ok r => run_check items (S (length (br_instrs r))) (fst ar) (br_instrs r) (br_succ r)
                     | _ => true
                     end) tb.

(* ------------------------------------------------------------------ the case *)
Inductive case :=
| KRec (fa : Z) (items : list pinstr) (manual : list medge) (inits : list senv)
       (drv_ok : bool)                       (* harness: executor::Driver trace = toy interpreter trace *)
       (tb : tbtable)                        (* harness: block address -> result of get_bytes + translate_block *)
       (obs : res func).

Definition oracle_parts (k : case) : list bool :=
  match k with
  | KRec fa items ms inits drv tb obs =>
      match gprog fa items ms with
      | None => [false]
      | Some gp =>
          match obs with
          | Ok f =>
              [ lang_bisim (f_cfg f) (f_cfg gp);
                multiset_eqb (all_items (f_cfg f)) (all_items (f_cfg gp));
                (f_addr f =? fa) && entry_ok fa items (f_cfg f);
                names_ok (f_cfg f);
                forallb (sem_agree 48 f gp) inits;
                drv;
                tb_check items tb;
                (* side conditions of Props/C06.v lang_eq_exec_sem, so that the theorem applies to this very pair of
                   graphs (with manual edges a block may legitimately carry two equal guards) *)
                match ms with
                | [] => det (f_cfg f) && det (f_cfg gp) && sem_wf (f_cfg f) && sem_wf (f_cfg gp)
                | _ => true
                end ]
          | _ => [false]         (* the recovery of a well-formed program must succeed *)
          end
      end
  end.

(* tie: the model INCLUDING the final merge returns exactly the observed function (same blocks with the same
   instruction index fields, same edges, entry, exit), or the same error; the merge-free model is compared too
   (same language, same items) so that a tie failure can be attributed *)
Definition tie (k : case) : bool :=
  match k with
  | KRec fa _ ms _ _ tb obs =>
      let mm := map (fun m => mkmm (me_head m) (me_tail m) (me_cond m)) ms in
      match recover_full tb fa mm, obs with
      | Ok m, Ok f => cfg_eqb (f_cfg m) (f_cfg f) && (f_addr m =? f_addr f) &&
                      match recover tb fa mm with
                      | Ok m0 => let g0 := static_view (f_cfg m0) in
                                 (* merge_ready: Props/C06.v recover_full_lang applies to this very graph *)
                                 merge_ready g0 && lang_bisim g0 (f_cfg f) &&
                                 multiset_eqb (all_items g0) (all_items (f_cfg f))
                      | _ => false
                      end
      | Err e, Err e' => err_eqb e e'
      | Panic, Panic => true
      | _, _ => false
      end
  end.

Definition ck (k : case) : bool * bool := (tie k, forallb (fun b => b) (oracle_parts k)).
