(* Lift/RecoverProofs.v -- what is proved about the model Lift/Recover.v.

   recover_names_ok [U]: for EVERY table of block translations (no hypothesis on the block translator), every
   function address and every manual-edge list, if the model of translate_function_extended returns a function
   then every edge of its graph joins existing blocks and the entry names an existing block (the exit is unset):
   the "no edge or entry refers to a missing block" clause of C06 for the model.  The remaining structural
   clauses: recover_once [U] (no hypothesis either): one instruction graph per distinct lifted address;
   recover_struct_once [U] under tb_spec (block translations are straight-line runs of the program cut ANYWHERE):
   the items of the result are the disjoint union of the instruction graphs of exactly the addresses reachable
   from the roots.  "Entry block at the function address" and recover_lang are open. *)
From Coq Require Import ZArith List Bool NArith Lia.
From Falcon Require Import Base.Res IL.Const IL.Expr IL.Func Cfg.SOps Cfg.SProofs Cfg.MergeProofs Cfg.MergeLift Lift.Lang Lift.Recover Lift.C06Check.
Import ListNotations.
Local Open Scope Z_scope.

Definition edges_ok (g : gstate) : Prop :=
  forall e, In e (gs_edges g) -> gs_has_block g (e_head e) = true /\ gs_has_block g (e_tail e) = true.
Definition grows (g g' : gstate) : Prop := forall i, gs_has_block g i = true -> gs_has_block g' i = true.

Lemma grows_refl g : grows g g. Proof. intros i H. exact H. Qed.
Lemma grows_trans a b c : grows a b -> grows b c -> grows a c.
Proof. intros H1 H2 i H. apply H2, H1, H. Qed.

Ltac inv_bind H :=
  match type of H with
  | bind ?r _ = Ok _ => let E := fresh "E" in destruct r eqn:E; cbn [bind] in H; [|discriminate H|discriminate H]
  end.

Lemma find_block_app bs nb i b : find_block bs i = Some b -> find_block (bs ++ nb) i = Some b.
Proof.
  induction bs as [|x t IH]; cbn; intros H; [discriminate|].
  destruct (b_index x =? i); [exact H | apply IH; exact H].
Qed.

Lemma insert_edge_ok g e g' : gs_insert_edge g e = Ok g' -> edges_ok g -> edges_ok g' /\ grows g g'.
Proof.
  unfold gs_insert_edge. intros H OK.
  destruct (gs_has_edge g (e_head e) (e_tail e)); [discriminate|].
  destruct (gs_has_block g (e_head e) && gs_has_block g (e_tail e)) eqn:B; cbn in H; [|discriminate].
  injection H as <-. apply andb_prop in B as [B1 B2]. split.
  - intros x I. cbn [gs_edges] in I. apply in_app_or in I as [I|[<-|[]]].
    + exact (OK x I).
    + split; assumption.
  - intros i Hi. exact Hi.
Qed.

Lemma fold_insert_edge_ok es : forall g g', fold_left (fun acc e => a <- acc ;; gs_insert_edge a e) es (Ok g) = Ok g' ->
  edges_ok g -> edges_ok g' /\ grows g g'.
Proof.
  induction es as [|e t IH]; cbn [fold_left]; intros g g' H OK.
  - injection H as <-. split; [exact OK | apply grows_refl].
  - cbn [bind] in H. destruct (gs_insert_edge g e) as [g1| |] eqn:E.
    + destruct (insert_edge_ok _ _ _ E OK) as [OK1 G1]. destruct (IH _ _ H OK1) as [OK2 G2].
      split; [exact OK2 | eapply grows_trans; eassumption].
    + exfalso. clear -H. induction t as [|x t IH]; cbn in H; [discriminate | apply IH; exact H].
    + exfalso. clear -H. induction t as [|x t IH]; cbn in H; [discriminate | apply IH; exact H].
Qed.

Lemma insert_ok g other g' ee : gs_insert g other = Ok (g', ee) -> edges_ok g -> edges_ok g' /\ grows g g'.
Proof.
  unfold gs_insert. intros H OK.
  destruct (g_entry other); [|discriminate]. destruct (g_exit other); [|discriminate].
  inv_bind H. inv_bind H.
  set (g0 := mkgs _ _ _) in E0.
  assert (G0 : grows g g0).
  { intros i Hi. unfold gs_has_block in *. cbn [gs_blocks g0].
    destruct (find_block (gs_blocks g) i) eqn:F; [|discriminate]. rewrite (find_block_app _ _ _ _ F). reflexivity. }
  assert (OK0 : edges_ok g0).
  { intros e I. cbn [gs_edges g0] in I. destruct (OK e I) as [A B]. split; apply G0; assumption. }
  destruct (fold_insert_edge_ok _ _ _ E0 OK0) as [OK1 G1].
  destruct (bt_get _ _); [|discriminate]. destruct (bt_get _ _); [|discriminate].
  injection H as <- _. split; [exact OK1 | eapply grows_trans; eassumption].
Qed.

Lemma assemble_block_ok ins : forall st be bx prev st' r,
  assemble_block st ins be bx prev = Ok (st', r) -> edges_ok (as_g st) -> edges_ok (as_g st') /\ grows (as_g st) (as_g st').
Proof.
  induction ins as [|[a ig] rest IH]; intros st be bx prev st' r H OK; cbn [assemble_block] in H.
  - injection H as <- _. split; [exact OK | apply grows_refl].
  - inv_bind H. destruct a0 as [st1 [en ex]]. cbn [fst snd] in H.
    assert (S1 : edges_ok (as_g st1) /\ grows (as_g st) (as_g st1)).
    { destruct (bt_get (as_ii st) a) as [ee|].
      - injection E as <- _. split; [exact OK | apply grows_refl].
      - inv_bind E. destruct a0 as [g1 ee1]. injection E as <- _. cbn [as_g fst]. eapply insert_ok; eassumption. }
    destruct S1 as [OK1 G1].
    destruct prev as [px|].
    + inv_bind H.
      assert (S2 : edges_ok a0 /\ grows (as_g st1) a0).
      { destruct (gs_has_edge (as_g st1) px en).
        - injection E0 as <-. split; [exact OK1 | apply grows_refl].
        - eapply insert_edge_ok; eassumption. }
      destruct S2 as [OK2 G2].
      destruct (IH _ _ _ _ _ _ H OK2) as [OK3 G3]. cbn [as_g] in G3.
      split; [exact OK3 | eapply grows_trans; [exact G1 | eapply grows_trans; eassumption]].
    + destruct (IH _ _ _ _ _ _ H OK1) as [OK3 G3]. split; [exact OK3 | eapply grows_trans; eassumption].
Qed.

Lemma assemble_ok results : forall st bi st' bi',
  assemble st results bi = Ok (st', bi') -> edges_ok (as_g st) -> edges_ok (as_g st').
Proof.
  induction results as [|[a r] rest IH]; intros st bi st' bi' H OK; cbn [assemble] in H.
  - injection H as <- _. exact OK.
  - inv_bind H. destruct a0 as [st1 ee]. cbn [fst snd] in H.
    destruct (assemble_block_ok _ _ _ _ _ _ _ E OK) as [OK1 _]. eapply IH; eassumption.
Qed.

Lemma fold_res_ok {A} (f : gstate -> A -> res gstate) :
  (forall g x g', f g x = Ok g' -> edges_ok g -> edges_ok g') ->
  forall l g g', fold_left (fun acc x => g0 <- acc ;; f g0 x) l (Ok g) = Ok g' -> edges_ok g -> edges_ok g'.
Proof.
  intros F l. induction l as [|x t IH]; cbn [fold_left]; intros g g' H OK.
  - injection H as <-. exact OK.
  - cbn [bind] in H. destruct (f g x) as [g1| |] eqn:E.
    + eapply IH; [exact H | eapply F; eassumption].
    + exfalso. clear -H. induction t as [|y t IH]; cbn in H; [discriminate | apply IH; exact H].
    + exfalso. clear -H. induction t as [|y t IH]; cbn in H; [discriminate | apply IH; exact H].
Qed.

Lemma add_manual_ok bi g m g' : add_manual bi g m = Ok g' -> edges_ok g -> edges_ok g'.
Proof.
  unfold add_manual. intros H OK. inv_bind H. inv_bind H.
  destruct (gs_has_edge g (snd a) (fst a0)).
  - injection H as <-. exact OK.
  - eapply insert_edge_ok; eassumption.
Qed.

Lemma add_successors_ok bi g ar g' : add_successors bi g ar = Ok g' -> edges_ok g -> edges_ok g'.
Proof.
  unfold add_successors. intros H OK. inv_bind H.
  eapply (fold_res_ok (fun g' s => e <- bi_get bi (fst s) ;;
     if gs_has_edge g' (snd a) (fst e) then Ok g' else gs_insert_edge g' (mkedge (snd a) (fst e) (snd s)))); [|exact H|exact OK].
  clear H. intros g0 x g1 H OK0. inv_bind H. destruct (gs_has_edge g0 (snd a) (fst a0)).
  - injection H as <-. exact OK0.
  - eapply insert_edge_ok; eassumption.
Qed.

Theorem recover_names_ok tb fa manual f : recover tb fa manual = Ok f -> names_ok (f_cfg f) = true.
Proof.
  unfold recover. intros H. inv_bind H. inv_bind H. destruct a0 as [st bi]. cbn [fst snd] in H.
  inv_bind H. inv_bind H. inv_bind H.
  destruct (gs_has_block a1 (fst a2)) eqn:HB; [|discriminate]. injection H as <-.
  assert (OK0 : edges_ok (as_g st)).
  { eapply assemble_ok; [exact E0|]. intros e []. }
  assert (OK1 : edges_ok a0).
  { eapply (fold_res_ok (add_manual bi)); [|exact E1|exact OK0]. intros; eapply add_manual_ok; eassumption. }
  assert (OK2 : edges_ok a1).
  { eapply (fold_res_ok (add_successors bi)); [|exact E2|exact OK1]. intros; eapply add_successors_ok; eassumption. }
  unfold names_ok. cbn [f_cfg g_edges g_entry g_exit]. rewrite andb_true_r. apply andb_true_intro. split.
  - apply forallb_forall. intros e I. destruct (OK2 e I) as [A B]. unfold has_block, gs_has_block in *. cbn [g_blocks].
    rewrite A, B. reflexivity.
  - unfold has_block, gs_has_block in *. cbn [g_blocks]. exact HB.
Qed.

(* ------------------------------------------------------------------ every lifted address contributes its graph exactly once *)
Definition bitems (bs : list block) : list item :=
  flat_map (fun b => map (fun i => Ins (i_addr i) (i_op i)) (b_instrs b)) bs.
Lemma all_items_bitems g : all_items g = bitems (g_blocks g).
Proof. reflexivity. Qed.
Lemma bitems_app a b : bitems (a ++ b) = bitems a ++ bitems b.
Proof. unfold bitems. apply flat_map_app. Qed.

Lemma bt_get_insert {A} (m : list (Z * A)) a v a' :
  bt_get (bt_insert m a v) a' = if a =? a' then Some v else bt_get m a'.
Proof.
  induction m as [|[k w] t IH]; cbn [bt_insert bt_get]; [reflexivity|].
  destruct (Z.ltb_spec a k) as [L|L]; cbn [bt_get]; [reflexivity|].
  destruct (Z.eqb_spec a k) as [E|E]; cbn [bt_get].
  - subst k. destruct (Z.eqb_spec a a'); reflexivity.
  - rewrite IH. destruct (Z.eqb_spec k a') as [E2|E2]; [|reflexivity].
    subst a'. destruct (Z.eqb_spec a k); [contradiction | reflexivity].
Qed.

Lemma insert_edge_blocks g e g' : gs_insert_edge g e = Ok g' -> gs_blocks g' = gs_blocks g.
Proof.
  unfold gs_insert_edge. destruct (gs_has_edge _ _ _); [discriminate|].
  destruct (negb _); [discriminate|]. intros [= <-]. reflexivity.
Qed.
Lemma fold_insert_edge_blocks es : forall g g', fold_left (fun acc e => a <- acc ;; gs_insert_edge a e) es (Ok g) = Ok g' ->
  gs_blocks g' = gs_blocks g.
Proof.
  induction es as [|e t IH]; cbn [fold_left]; intros g g' H; [injection H as <-; reflexivity|].
  cbn [bind] in H. destruct (gs_insert_edge g e) as [g1| |] eqn:E.
  - rewrite (IH _ _ H). eapply insert_edge_blocks; exact E.
  - exfalso. clear -H. induction t as [|x t IH]; cbn in H; [discriminate | apply IH; exact H].
  - exfalso. clear -H. induction t as [|x t IH]; cbn in H; [discriminate | apply IH; exact H].
Qed.

Lemma bitems_renumber (f : block -> Z) bs :
  bitems (map (fun b => mkblock (f b) (b_next b) (b_instrs b) (b_phis b)) bs) = bitems bs.
Proof. unfold bitems. induction bs as [|b t IH]; [reflexivity|]. cbn [map flat_map b_instrs]. rewrite IH. reflexivity. Qed.

Lemma insert_items g other g' ee : gs_insert g other = Ok (g', ee) ->
  bitems (gs_blocks g') = bitems (gs_blocks g) ++ bitems (g_blocks other).
Proof.
  unfold gs_insert. intros H. destruct (g_entry other); [|discriminate]. destruct (g_exit other); [|discriminate].
  inv_bind H. inv_bind H. destruct (bt_get _ _); [|discriminate]. destruct (bt_get _ _); [|discriminate].
  injection H as <- _. rewrite (fold_insert_edge_blocks _ _ _ E0). cbn [gs_blocks].
  rewrite bitems_app. f_equal. apply (bitems_renumber (fun b => match bt_get (number_from (gs_next g) (g_blocks other)) (b_index b) with Some j => j | None => b_index b end)).
Qed.

Lemma NoDup_snoc {A} (l : list A) a : NoDup l -> ~ In a l -> NoDup (l ++ [a]).
Proof.
  induction l as [|x t IH]; cbn; intros N NI; [constructor; [intros [] | constructor]|].
  inversion N as [|? ? Nx Nt]; subst. constructor.
  - intros I. apply in_app_or in I as [I|[<-|[]]]; [exact (Nx I) | apply NI; left; reflexivity].
  - apply IH; [exact Nt | intros I; apply NI; right; exact I].
Qed.

Definition litems (L : list (Z * cfg)) : list item := flat_map (fun x => bitems (g_blocks (snd x))) L.

Record ainv (st : astate) (L : list (Z * cfg)) : Prop := {
  ai_keys : forall a, bt_get (as_ii st) a <> None <-> In a (map fst L);
  ai_nodup : NoDup (map fst L);
  ai_items : bitems (gs_blocks (as_g st)) = litems L }.

Lemma assemble_block_once ins : forall st L be bx prev st' r,
  ainv st L -> assemble_block st ins be bx prev = Ok (st', r) ->
  exists L', ainv st' L' /\ incl L L' /\ (forall x, In x L' -> In x L \/ In x ins) /\
             (forall x, In x ins -> In (fst x) (map fst L')).
Proof.
  induction ins as [|[a ig] rest IH]; intros st L be bx prev st' r I H; cbn [assemble_block] in H.
  - injection H as <- _. exists L. split; [exact I|]. split; [apply incl_refl|]. split; [intros x Hx; left; exact Hx | intros x []].
  - inv_bind H. destruct a0 as [st1 [en ex]]. cbn [fst snd] in H.
    assert (S1 : exists L1, ainv st1 L1 /\ incl L L1 /\ (forall x, In x L1 -> In x L \/ x = (a, ig)) /\ In a (map fst L1)).
    { destruct I as [K N T]. destruct (bt_get (as_ii st) a) as [ee|] eqn:G.
      - injection E as <- _. exists L. split; [constructor; assumption|]. split; [apply incl_refl|].
        split; [intros x Hx; left; exact Hx|]. apply K. rewrite G. discriminate.
      - inv_bind E. destruct a0 as [g1 ee1]. injection E as <- _. cbn [fst snd].
        exists (L ++ [(a, ig)]). split; [constructor|split; [|split]].
        + intros a'. cbn [as_ii]. rewrite bt_get_insert, map_app, in_app_iff. cbn [map fst In].
          destruct (Z.eqb_spec a a') as [Ea|Ea].
          * split; [intros _; right; left; exact Ea | intros _; discriminate].
          * rewrite K. split; [intros Hx; left; exact Hx | intros [Hx|[Hx|[]]]; [exact Hx | contradiction]].
        + rewrite map_app. cbn [map fst]. apply NoDup_snoc; [exact N|]. intros Hx. apply K in Hx. apply Hx. exact G.
        + cbn [as_g]. rewrite (insert_items _ _ _ _ E0), T. unfold litems. rewrite flat_map_app. cbn [flat_map snd].
          rewrite app_nil_r. reflexivity.
        + apply incl_appl, incl_refl.
        + intros x Hx. apply in_app_or in Hx as [Hx|[<-|[]]]; [left; exact Hx | right; reflexivity].
        + rewrite map_app. apply in_or_app. right. left. reflexivity. }
    destruct S1 as (L1 & I1 & Inc1 & From1 & Ina).
    assert (S2 : exists st2, ainv st2 L1 /\
              ((exists px, prev = Some px /\ assemble_block st2 rest be ex (Some ex) = Ok (st', r)) \/
               (prev = None /\ st2 = st1 /\ assemble_block st1 rest en ex (Some ex) = Ok (st', r)))).
    { destruct prev as [px|].
      - inv_bind H. exists (mkas a0 (as_ii st1)). split.
        + destruct I1 as [K N T]. constructor; cbn [as_ii as_g]; [exact K | exact N |].
          destruct (gs_has_edge (as_g st1) px en).
          * injection E0 as <-. exact T.
          * rewrite (insert_edge_blocks _ _ _ E0). exact T.
        + left. exists px. split; [reflexivity | exact H].
      - exists st1. split; [exact I1|]. right. split; [reflexivity|]. split; [reflexivity | exact H]. }
    destruct S2 as [st2 [I2 [[px [_ H2]]|[_ [Es H2]]]]]; [|subst st2].
    + destruct (IH _ _ _ _ _ _ _ I2 H2) as (L' & I' & Inc' & From' & Cov').
      exists L'. split; [exact I'|]. split; [eapply incl_tran; [exact Inc1 | exact Inc']|]. split.
      * intros x Hx. destruct (From' x Hx) as [Hx1|Hx1]; [|right; right; exact Hx1].
        destruct (From1 x Hx1) as [Hx2 | ->]; [left; exact Hx2 | right; left; reflexivity].
      * intros x [<-|Hx]; [cbn [fst]; apply (incl_map fst Inc'); exact Ina | apply Cov'; exact Hx].
    + destruct (IH _ _ _ _ _ _ _ I2 H2) as (L' & I' & Inc' & From' & Cov').
      exists L'. split; [exact I'|]. split; [eapply incl_tran; [exact Inc1 | exact Inc']|]. split.
      * intros x Hx. destruct (From' x Hx) as [Hx1|Hx1]; [|right; right; exact Hx1].
        destruct (From1 x Hx1) as [Hx2 | ->]; [left; exact Hx2 | right; left; reflexivity].
      * intros x [<-|Hx]; [cbn [fst]; apply (incl_map fst Inc'); exact Ina | apply Cov'; exact Hx].
Qed.

Lemma assemble_once results : forall st L bi st' bi',
  ainv st L -> assemble st results bi = Ok (st', bi') ->
  exists L', ainv st' L' /\ incl L L' /\
    (forall x, In x L' -> In x L \/ exists a r, In (a, r) results /\ In x (br_instrs r)) /\
    (forall a r x, In (a, r) results -> In x (br_instrs r) -> In (fst x) (map fst L')).
Proof.
  induction results as [|[a r] rest IH]; intros st L bi st' bi' I H; cbn [assemble] in H.
  - injection H as <- _. exists L. split; [exact I|]. split; [apply incl_refl|].
    split; [intros x Hx; left; exact Hx | intros ? ? ? []].
  - inv_bind H. destruct a0 as [st1 ee]. cbn [fst snd] in H.
    destruct (assemble_block_once _ _ _ _ _ _ _ _ I E) as (L1 & I1 & Inc1 & From1 & Cov1).
    destruct (IH _ _ _ _ _ I1 H) as (L' & I' & Inc' & From' & Cov').
    exists L'. split; [exact I'|]. split; [eapply incl_tran; eassumption|]. split.
    + intros x Hx. destruct (From' x Hx) as [Hx1|(a' & r' & Ir & Ix)].
      * destruct (From1 x Hx1) as [Hx2|Hx2]; [left; exact Hx2|]. right. exists a, r. split; [left; reflexivity | exact Hx2].
      * right. exists a', r'. split; [right; exact Ir | exact Ix].
    + intros a' r' x [E'|Ir] Ix.
      * injection E' as <- <-. apply (incl_map fst Inc'). apply Cov1. exact Ix.
      * eapply Cov'; eassumption.
Qed.

Lemma fold_blocks {A} (f : gstate -> A -> res gstate) :
  (forall g x g', f g x = Ok g' -> gs_blocks g' = gs_blocks g) ->
  forall l g g', fold_left (fun acc x => g0 <- acc ;; f g0 x) l (Ok g) = Ok g' -> gs_blocks g' = gs_blocks g.
Proof.
  intros F l. induction l as [|x t IH]; cbn [fold_left]; intros g g' H; [injection H as <-; reflexivity|].
  cbn [bind] in H. destruct (f g x) as [g1| |] eqn:E.
  - rewrite (IH _ _ H). eapply F; exact E.
  - exfalso. clear -H. induction t as [|y t IH]; cbn in H; [discriminate | apply IH; exact H].
  - exfalso. clear -H. induction t as [|y t IH]; cbn in H; [discriminate | apply IH; exact H].
Qed.

Lemma add_manual_blocks bi g m g' : add_manual bi g m = Ok g' -> gs_blocks g' = gs_blocks g.
Proof.
  unfold add_manual. intros H. inv_bind H. inv_bind H. destruct (gs_has_edge _ _ _).
  - injection H as <-. reflexivity.
  - eapply insert_edge_blocks; exact H.
Qed.
Lemma add_successors_blocks bi g ar g' : add_successors bi g ar = Ok g' -> gs_blocks g' = gs_blocks g.
Proof.
  unfold add_successors. intros H. inv_bind H.
  eapply (fold_blocks (fun g' s => e <- bi_get bi (fst s) ;;
     if gs_has_edge g' (snd a) (fst e) then Ok g' else gs_insert_edge g' (mkedge (snd a) (fst e) (snd s)))); [|exact H].
  clear H. intros g0 x g1 H. inv_bind H. destruct (gs_has_edge _ _ _).
  - injection H as <-. reflexivity.
  - eapply insert_edge_blocks; exact H.
Qed.

(* [U], no hypothesis on the block translator: the (address, operation) items of the recovered function are
   exactly those of ONE instruction graph per distinct instruction address occurring in the discovered block
   translations -- the graph listed by the first block (in address order) that contains the address. *)
Theorem recover_once tb fa manual f : recover tb fa manual = Ok f ->
  exists results L,
    discover tb (discover_fuel tb manual) (fa :: flat_map (fun m => [mm_head m; mm_tail m]) manual) [] = Ok results /\
    NoDup (map fst L) /\
    (forall x, In x L -> exists a r, In (a, r) results /\ In x (br_instrs r)) /\
    (forall a r x, In (a, r) results -> In x (br_instrs r) -> In (fst x) (map fst L)) /\
    all_items (f_cfg f) = flat_map (fun x => all_items (snd x)) L.
Proof.
  unfold recover. intros H. inv_bind H. inv_bind H. destruct a0 as [st bi]. cbn [fst snd] in H.
  inv_bind H. inv_bind H. inv_bind H. destruct (gs_has_block a1 (fst a2)); [|discriminate]. injection H as <-.
  assert (I0 : ainv (mkas (mkgs [] [] 0) []) []).
  { constructor; cbn; [intros x; split; [intros X; exfalso; apply X; reflexivity | intros []] | constructor | reflexivity]. }
  destruct (assemble_once _ _ _ _ _ _ I0 E0) as (L & I & _ & From & Cov).
  exists a, L. split; [reflexivity|]. split; [exact (ai_nodup _ _ I)|]. split; [|split; [exact Cov|]].
  - intros x Hx. destruct (From x Hx) as [[]|X]. exact X.
  - cbn [f_cfg]. rewrite all_items_bitems. cbn [g_blocks].
    assert (B2 : gs_blocks a1 = gs_blocks a0).
    { eapply (fold_blocks (add_successors bi)); [|exact E2]. intros; eapply add_successors_blocks; eassumption. }
    assert (B1 : gs_blocks a0 = gs_blocks (as_g st)).
    { eapply (fold_blocks (add_manual bi)); [|exact E1]. intros; eapply add_manual_blocks; eassumption. }
    rewrite B2, B1, (ai_items _ _ I). reflexivity.
Qed.

(* ------------------------------------------------------------------ the abstract machine and tb_spec *)
Record minstr := mkmi {
  mi_graph : cfg;                                    (* the IL of the instruction (lifted in isolation) *)
  mi_len : Z;
  mi_succ : option (list (Z * option expr)) }.       (* None: falls through to the next address *)

Section Spec.
  Variable prog : Z -> option minstr.                (* None: unmapped *)

  Definition direct_succ (a y : Z) : Prop :=
    exists p, prog a = Some p /\ match mi_succ p with None => y = a + mi_len p | Some s => In y (map fst s) end.
  Inductive reach (roots : list Z) : Z -> Prop :=
  | reach_root r : In r roots -> reach roots r
  | reach_step a y : reach roots a -> direct_succ a y -> reach roots y.

  (* what a block translation started at [a] may be: a straight-line run of prog's instructions from a, ended by
     the first control transfer (with its successors) or ANYWHERE earlier (with the fall-through successor).
     Where the run is cut -- the 64-byte window -- is left completely open. *)
  Inductive run_spec : Z -> list (Z * cfg) -> list (Z * option expr) -> Prop :=
  | rs_ctl a p s : prog a = Some p -> mi_succ p = Some s -> run_spec a [(a, mi_graph p)] s
  | rs_cut a p : prog a = Some p -> mi_succ p = None -> run_spec a [(a, mi_graph p)] [(a + mi_len p, None)]
  | rs_cons a p rest s : prog a = Some p -> mi_succ p = None -> run_spec (a + mi_len p) rest s ->
      run_spec a ((a, mi_graph p) :: rest) s.

  Definition tb_spec (tb : tbtable) : Prop :=
    forall a, match tb_lookup tb a with
              | Some (Ok r) => run_spec a (br_instrs r) (br_succ r)
              | Some _ => True
              | None => prog a = None
              end.

  Definition graph_at (x : Z) : cfg := match prog x with Some p => mi_graph p | None => empty_block_cfg end.

  Lemma run_head a ins s : run_spec a ins s -> exists g tl, ins = (a, g) :: tl.
  Proof. intros H. destruct H; eexists; eexists; reflexivity. Qed.

  Lemma run_graphs a ins s : run_spec a ins s -> forall x ig, In (x, ig) ins -> ig = graph_at x /\ prog x <> None.
  Proof.
    induction 1 as [a p s P K|a p P K|a p rest s P K R IH]; intros x ig I.
    - destruct I as [E|[]]. injection E as <- <-. unfold graph_at. rewrite P. split; [reflexivity | discriminate].
    - destruct I as [E|[]]. injection E as <- <-. unfold graph_at. rewrite P. split; [reflexivity | discriminate].
    - destruct I as [E|I]; [|apply IH; exact I]. injection E as <- <-. unfold graph_at. rewrite P. split; [reflexivity | discriminate].
  Qed.

  Lemma run_step a ins s : run_spec a ins s -> forall x y, In x (map fst ins) -> direct_succ x y ->
    In y (map fst ins) \/ In y (map fst s).
  Proof.
    induction 1 as [a p s P K|a p P K|a p rest s P K R IH]; intros x y I (q & Pq & D).
    - destruct I as [<-|[]]. cbn [fst] in Pq. rewrite P in Pq. injection Pq as <-. rewrite K in D. right. exact D.
    - destruct I as [<-|[]]. cbn [fst] in Pq. rewrite P in Pq. injection Pq as <-. rewrite K in D. right. left. symmetry. exact D.
    - destruct I as [<-|I].
      + cbn [fst] in Pq. rewrite P in Pq. injection Pq as <-. rewrite K in D. left. right.
        destruct (run_head _ _ _ R) as (g0 & tl & ->). left. symmetry. exact D.
      + destruct (IH x y I (ex_intro _ q (conj Pq D))) as [H|H]; [left; right; exact H | right; exact H].
  Qed.

  Lemma run_reach roots a ins s : run_spec a ins s -> reach roots a ->
    (forall x, In x (map fst ins) -> reach roots x) /\ (forall y, In y (map fst s) -> reach roots y).
  Proof.
    induction 1 as [a p s P K|a p P K|a p rest s P K R IH]; intros Ra.
    - split; [intros x [<-|[]]; exact Ra|]. intros y I. eapply reach_step; [exact Ra|]. exists p. rewrite K. split; assumption.
    - split; [intros x [<-|[]]; exact Ra|]. intros y [<-|[]]. eapply reach_step; [exact Ra|]. exists p. rewrite K. split; [exact P | reflexivity].
    - assert (Rn : reach roots (a + mi_len p)) by (eapply reach_step; [exact Ra|]; exists p; rewrite K; split; [exact P | reflexivity]).
      destruct (IH Rn) as [I1 I2]. split; [|exact I2]. intros x [<-|I]; [exact Ra | apply I1; exact I].
  Qed.

  (* ---------- the discovery loop ---------- *)
  Lemma bt_mem_insert {A} (m : list (Z * A)) a v x : bt_mem (bt_insert m a v) x = (a =? x) || bt_mem m x.
  Proof.
    induction m as [|[k w] t IH]; cbn [bt_insert bt_mem]; [reflexivity|].
    destruct (Z.ltb_spec a k) as [L|L]; cbn [bt_mem]; [reflexivity|].
    destruct (Z.eqb_spec a k) as [E|E]; cbn [bt_mem].
    - subst k. destruct (a =? x); reflexivity.
    - rewrite IH. destruct (k =? x), (a =? x); reflexivity.
  Qed.
  Lemma bt_in_insert {A} (m : list (Z * A)) a v y : In y (bt_insert m a v) -> y = (a, v) \/ In y m.
  Proof.
    induction m as [|[k w] t IH]; cbn [bt_insert]; [intros [<-|[]]; left; reflexivity|].
    destruct (a <? k); [intros [<-|I]; [left; reflexivity | right; exact I]|].
    destruct (a =? k); [intros [<-|I]; [left; reflexivity | right; right; exact I]|].
    intros [<-|I]; [right; left; reflexivity|]. destruct (IH I) as [E|I']; [left; exact E | right; right; exact I'].
  Qed.
  Lemma bt_mem_in {A} (m : list (Z * A)) x : bt_mem m x = true -> exists v, In (x, v) m.
  Proof.
    induction m as [|[k w] t IH]; cbn [bt_mem]; [discriminate|]. intros H. apply orb_prop in H as [H|H].
    - apply Z.eqb_eq in H. subst k. exists w. left. reflexivity.
    - destruct (IH H) as [v I]. exists v. right. exact I.
  Qed.
  Lemma enqueue_in succ : forall q x, In x (enqueue_succ q succ) <-> In x q \/ In x (map fst succ).
  Proof.
    unfold enqueue_succ. induction succ as [|s t IH]; intros q x; cbn [fold_left map]; [cbn [In]; tauto|].
    rewrite IH. destruct (existsb (Z.eqb (fst s)) q) eqn:E.
    - apply existsb_exists in E as (z & Iz & Ez). apply Z.eqb_eq in Ez. subst z. cbn [In]. split; [tauto|].
      intros [H|[<-|H]]; [left; exact H | left; exact Iz | right; exact H].
    - rewrite in_app_iff. cbn [In]. tauto.
  Qed.

  Definition result_of (tb : tbtable) (a : Z) (r : block_result) : Prop :=
    tb_lookup tb a = Some (Ok r) \/ (tb_lookup tb a = None /\ r = mkbr [(a, empty_block_cfg)] []).

  Record dinv (tb : tbtable) (roots q : list Z) (results : list (Z * block_result)) : Prop := {
    d_entry : forall a r, In (a, r) results -> result_of tb a r;
    d_succ : forall a r s, In (a, r) results -> In s (map fst (br_succ r)) -> bt_mem results s = true \/ In s q;
    d_roots : forall x, In x roots -> bt_mem results x = true \/ In x q;
    d_reach : (forall a r, In (a, r) results -> reach roots a) /\ (forall x, In x q -> reach roots x) }.

  Lemma discover_inv tb roots : tb_spec tb -> forall fuel q results final,
    dinv tb roots q results -> discover tb fuel q results = Ok final -> dinv tb roots [] final.
  Proof.
    intros TS. induction fuel as [|fuel IH]; intros q results final I H; cbn [discover] in H; [discriminate|].
    destruct q as [|a q']; [injection H as <-; exact I|].
    destruct I as [De Ds Dr [Dk Dq]].
    destruct (bt_mem results a) eqn:M.
    - eapply IH; [|exact H]. constructor; [exact De | | | split; [exact Dk | intros x Hx; apply Dq; right; exact Hx]].
      + intros b r s Ib Is. destruct (Ds b r s Ib Is) as [X|[<-|X]]; [left; exact X | left; exact M | right; exact X].
      + intros x Hx. destruct (Dr x Hx) as [X|[<-|X]]; [left; exact X | left; exact M | right; exact X].
    - pose proof (TS a) as Ta.
      assert (Step : forall r q2, result_of tb a r -> (forall x, In x q2 <-> In x q' \/ In x (map fst (br_succ r))) ->
                (forall y, In y (map fst (br_succ r)) -> reach roots y) ->
                dinv tb roots q2 (bt_insert results a r)).
      { intros r q2 Ra Q2 Rs. constructor.
        - intros b r' Ib. apply bt_in_insert in Ib as [E|Ib]; [injection E as -> ->; exact Ra | apply De; exact Ib].
        - intros b r' s Ib Is. rewrite bt_mem_insert. apply bt_in_insert in Ib as [E|Ib].
          + injection E as -> ->. right. apply Q2. right. exact Is.
          + destruct (Ds b r' s Ib Is) as [X|[<-|X]]; [left; rewrite X; apply orb_true_r | left; rewrite Z.eqb_refl; reflexivity | right; apply Q2; left; exact X].
        - intros x Hx. rewrite bt_mem_insert. destruct (Dr x Hx) as [X|[<-|X]];
            [left; rewrite X; apply orb_true_r | left; rewrite Z.eqb_refl; reflexivity | right; apply Q2; left; exact X].
        - split.
          + intros b r' Ib. apply bt_in_insert in Ib as [E|Ib]; [injection E as -> _; apply Dq; left; reflexivity | eapply Dk; exact Ib].
          + intros x Hx. apply Q2 in Hx as [Hx|Hx]; [apply Dq; right; exact Hx | apply Rs; exact Hx]. }
      destruct (tb_lookup tb a) as [[r| |]|] eqn:L; try discriminate.
      + eapply IH; [|exact H]. apply Step; [left; exact L | intros x; apply enqueue_in |].
        assert (Raa : reach roots a) by (apply Dq; left; reflexivity).
        destruct (run_reach roots _ _ _ Ta Raa) as [_ R2]. exact R2.
      + eapply IH; [|exact H]. apply Step; [right; split; [exact L | reflexivity] | intros x; cbn [br_succ map In]; tauto | intros y []].
  Qed.

  (* [U] recover_struct, clause "every reachable address contributes its IL exactly once", for EVERY placement of
     the block ends: the items of the recovered function are the disjoint union, over exactly the addresses
     reachable from the roots (function address and manual-edge endpoints) through direct successors, of the
     items of that address's instruction graph (the empty block for an unmapped address). *)
  Theorem recover_struct_once tb fa manual f : tb_spec tb -> recover tb fa manual = Ok f ->
    let roots := fa :: flat_map (fun m => [mm_head m; mm_tail m]) manual in
    exists L, NoDup (map fst L) /\
      (forall x, In x (map fst L) <-> reach roots x) /\
      (forall x ig, In (x, ig) L -> ig = graph_at x) /\
      all_items (f_cfg f) = flat_map (fun x => all_items (snd x)) L.
  Proof.
    intros TS H roots. destruct (recover_once _ _ _ _ H) as (results & L & D & ND & From & Cov & Items).
    assert (I0 : dinv tb roots roots []).
    { constructor; [intros ? ? [] | intros ? ? ? [] | intros x Hx; right; exact Hx |].
      split; [intros ? ? [] | intros x Hx; apply reach_root; exact Hx]. }
    pose proof (discover_inv tb roots TS _ _ _ _ I0 D) as [De Ds Dr [Dk _]].
    (* what a discovered result looks like *)
    assert (Shape : forall a r, In (a, r) results ->
              (run_spec a (br_instrs r) (br_succ r)) \/ (prog a = None /\ r = mkbr [(a, empty_block_cfg)] [])).
    { intros a r Ia. pose proof (TS a) as Ta. destruct (De a r Ia) as [E|[E ->]]; rewrite E in Ta; [left; exact Ta | right; split; [exact Ta | reflexivity]]. }
    exists L. split; [exact ND|]. split; [|split; [|exact Items]].
    - intros x. split.
      + intros Hx. apply in_map_iff in Hx as ([x' ig] & Ex & Hx). cbn [fst] in Ex. subst x'.
        destruct (From _ Hx) as (a & r & Ia & Ix). pose proof (Dk _ _ Ia) as Ra.
        destruct (Shape _ _ Ia) as [Rs|[_ ->]].
        * destruct (run_reach roots _ _ _ Rs Ra) as [R1 _]. apply R1. apply in_map_iff. exists (x, ig). split; [reflexivity | exact Ix].
        * destruct Ix as [E|[]]. injection E as <- _. exact Ra.
      + intros Rx. assert (X : exists a r, In (a, r) results /\ In x (map fst (br_instrs r))).
        { induction Rx as [r0 Ir|a0 y Ra IH Dy].
          - destruct (Dr _ Ir) as [M|[]]. apply bt_mem_in in M as [r Ia]. exists r0, r. split; [exact Ia|].
            destruct (Shape _ _ Ia) as [Rs|[_ ->]]; [destruct (run_head _ _ _ Rs) as (g0 & tl & ->)|]; left; reflexivity.
          - destruct IH as (b & r & Ib & Ia0). destruct (Shape _ _ Ib) as [Rs|[Pb ->]].
            + destruct (run_step _ _ _ Rs _ _ Ia0 Dy) as [Iy|Iy]; [exists b, r; split; assumption|].
              destruct (Ds _ _ _ Ib Iy) as [M|[]]. apply bt_mem_in in M as [r' Iy']. exists y, r'. split; [exact Iy'|].
              destruct (Shape _ _ Iy') as [Rs'|[_ ->]]; [destruct (run_head _ _ _ Rs') as (g0 & tl & ->)|]; left; reflexivity.
            + exfalso. destruct Ia0 as [<-|[]]. destruct Dy as (p & Pp & _). cbn [fst] in Pp. rewrite Pb in Pp. discriminate. }
        destruct X as (a & r & Ia & Ix). apply in_map_iff in Ix as ([x' ig] & Ex & Ix). cbn [fst] in Ex. subst x'.
        apply (Cov _ _ _ Ia Ix).
    - intros x ig Hx. destruct (From _ Hx) as (a & r & Ia & Ix). destruct (Shape _ _ Ia) as [Rs|[Pa ->]].
      + apply (run_graphs _ _ _ Rs _ _ Ix).
      + destruct Ix as [E|[]]. injection E as <- <-. unfold graph_at. rewrite Pa. reflexivity.
  Qed.
End Spec.

(* ------------------------------------------------------------------ the final merge (composition with C15) *)
(* [U] translate_function_extended INCLUDING its final merge: whenever the merge-free model returns a function whose
   static view passes the executable test merge_ready, the complete model returns a function too (merge does not
   fail) with the same address and exactly the same language (Lift/Lang.v) as the merge-free one.
   Uses Cfg/MergeLift.v merge_flang / cfg_inv_sinv (C15). *)
Theorem recover_full_lang tb fa manual f : recover tb fa manual = Ok f ->
  merge_ready (static_view (f_cfg f)) = true ->
  exists f', recover_full tb fa manual = Ok f' /\ f_addr f' = fa /\
             forall w, lang (f_cfg f') w <-> lang (static_view (f_cfg f)) w.
Proof.
  intros H R. unfold merge_ready in R. apply andb_prop in R as [R R3]. apply andb_prop in R as [R1 R2].
  apply Z.leb_le in R2. rewrite forallb_forall in R3.
  assert (S : sinv (static_view (f_cfg f))).
  { apply cfg_inv_sinv; [exact R1 | exact R2 | intros b Ib; apply Z.leb_le; apply R3; exact Ib]. }
  destruct (merge_flang _ S) as (M1 & _ & M3).
  unfold recover_full. rewrite H. cbn [bind].
  destruct (s_merge (static_view (f_cfg f))) as [g' r] eqn:E. cbn [fst snd] in M1, M3. subst r.
  exists (mkfunc fa g' None). split; [reflexivity|]. split; [reflexivity | exact M3].
Qed.
