(* Lift/RecoverProofs.v -- what is proved about the model Lift/Recover.v.

   recover_names_ok [U]: for EVERY table of block translations (no hypothesis on the block translator), every
   function address and every manual-edge list, if the model of translate_function_extended returns a function
   then every edge of its graph joins existing blocks and the entry names an existing block (the exit is unset):
   the "no edge or entry refers to a missing block" clause of C06 for the model.  The remaining structural
   clauses (each reachable instruction exactly once, entry block at the function address) need tb_spec and are
   open. *)
From Coq Require Import ZArith List Bool NArith Lia.
From Falcon Require Import Base.Res IL.Const IL.Expr IL.Func Lift.Recover Lift.C06Check.
Import ListNotations.
Local Open Scope Z_scope.

Definition edges_ok (g : gstate) : Prop :=
  forall e, In e (gs_edges g) -> gs_has_block g (e_head e) = true /\ gs_has_block g (e_tail e) = true.
Definition grows (g g' : gstate) : Prop := forall i, gs_has_block g i = true -> gs_has_block g' i = true.

Lemma grows_refl g : grows g g. Proof. intros i H. exact H. Qed.
Lemma grows_trans a b c : grows a b -> grows b c -> grows a c.
Proof. intros H1 H2 i H. apply H2, H1, H. Qed.

Ltac inv_bind H :=
  match type of H with
  | bind ?r _ = Ok _ => let E := fresh "E" in destruct r eqn:E; cbn [bind] in H; [|discriminate H|discriminate H]
  end.

Lemma find_block_app bs nb i b : find_block bs i = Some b -> find_block (bs ++ nb) i = Some b.
Proof.
  induction bs as [|x t IH]; cbn; intros H; [discriminate|].
  destruct (b_index x =? i); [exact H | apply IH; exact H].
Qed.

Lemma insert_edge_ok g e g' : gs_insert_edge g e = Ok g' -> edges_ok g -> edges_ok g' /\ grows g g'.
Proof.
  unfold gs_insert_edge. intros H OK.
  destruct (gs_has_edge g (e_head e) (e_tail e)); [discriminate|].
  destruct (gs_has_block g (e_head e) && gs_has_block g (e_tail e)) eqn:B; cbn in H; [|discriminate].
  injection H as <-. apply andb_prop in B as [B1 B2]. split.
  - intros x I. cbn [gs_edges] in I. apply in_app_or in I as [I|[<-|[]]].
    + exact (OK x I).
    + split; assumption.
  - intros i Hi. exact Hi.
Qed.

Lemma fold_insert_edge_ok es : forall g g', fold_left (fun acc e => a <- acc ;; gs_insert_edge a e) es (Ok g) = Ok g' ->
  edges_ok g -> edges_ok g' /\ grows g g'.
Proof.
  induction es as [|e t IH]; cbn [fold_left]; intros g g' H OK.
  - injection H as <-. split; [exact OK | apply grows_refl].
  - cbn [bind] in H. destruct (gs_insert_edge g e) as [g1| |] eqn:E.
    + destruct (insert_edge_ok _ _ _ E OK) as [OK1 G1]. destruct (IH _ _ H OK1) as [OK2 G2].
      split; [exact OK2 | eapply grows_trans; eassumption].
    + exfalso. clear -H. induction t as [|x t IH]; cbn in H; [discriminate | apply IH; exact H].
    + exfalso. clear -H. induction t as [|x t IH]; cbn in H; [discriminate | apply IH; exact H].
Qed.

Lemma insert_ok g other g' ee : gs_insert g other = Ok (g', ee) -> edges_ok g -> edges_ok g' /\ grows g g'.
Proof.
  unfold gs_insert. intros H OK.
  destruct (g_entry other); [|discriminate]. destruct (g_exit other); [|discriminate].
  inv_bind H. inv_bind H.
  set (g0 := mkgs _ _ _) in E0.
  assert (G0 : grows g g0).
  { intros i Hi. unfold gs_has_block in *. cbn [gs_blocks g0].
    destruct (find_block (gs_blocks g) i) eqn:F; [|discriminate]. rewrite (find_block_app _ _ _ _ F). reflexivity. }
  assert (OK0 : edges_ok g0).
  { intros e I. cbn [gs_edges g0] in I. destruct (OK e I) as [A B]. split; apply G0; assumption. }
  destruct (fold_insert_edge_ok _ _ _ E0 OK0) as [OK1 G1].
  destruct (bt_get _ _); [|discriminate]. destruct (bt_get _ _); [|discriminate].
  injection H as <- _. split; [exact OK1 | eapply grows_trans; eassumption].
Qed.

Lemma assemble_block_ok ins : forall st be bx prev st' r,
  assemble_block st ins be bx prev = Ok (st', r) -> edges_ok (as_g st) -> edges_ok (as_g st') /\ grows (as_g st) (as_g st').
Proof.
  induction ins as [|[a ig] rest IH]; intros st be bx prev st' r H OK; cbn [assemble_block] in H.
  - injection H as <- _. split; [exact OK | apply grows_refl].
  - inv_bind H. destruct a0 as [st1 [en ex]]. cbn [fst snd] in H.
    assert (S1 : edges_ok (as_g st1) /\ grows (as_g st) (as_g st1)).
    { destruct (bt_get (as_ii st) a) as [ee|].
      - injection E as <- _. split; [exact OK | apply grows_refl].
      - inv_bind E. destruct a0 as [g1 ee1]. injection E as <- _. cbn [as_g fst]. eapply insert_ok; eassumption. }
    destruct S1 as [OK1 G1].
    destruct prev as [px|].
    + inv_bind H.
      assert (S2 : edges_ok a0 /\ grows (as_g st1) a0).
      { destruct (gs_has_edge (as_g st1) px en).
        - injection E0 as <-. split; [exact OK1 | apply grows_refl].
        - eapply insert_edge_ok; eassumption. }
      destruct S2 as [OK2 G2].
      destruct (IH _ _ _ _ _ _ H OK2) as [OK3 G3]. cbn [as_g] in G3.
      split; [exact OK3 | eapply grows_trans; [exact G1 | eapply grows_trans; eassumption]].
    + destruct (IH _ _ _ _ _ _ H OK1) as [OK3 G3]. split; [exact OK3 | eapply grows_trans; eassumption].
Qed.

Lemma assemble_ok results : forall st bi st' bi',
  assemble st results bi = Ok (st', bi') -> edges_ok (as_g st) -> edges_ok (as_g st').
Proof.
  induction results as [|[a r] rest IH]; intros st bi st' bi' H OK; cbn [assemble] in H.
  - injection H as <- _. exact OK.
  - inv_bind H. destruct a0 as [st1 ee]. cbn [fst snd] in H.
    destruct (assemble_block_ok _ _ _ _ _ _ _ E OK) as [OK1 _]. eapply IH; eassumption.
Qed.

Lemma fold_res_ok {A} (f : gstate -> A -> res gstate) :
  (forall g x g', f g x = Ok g' -> edges_ok g -> edges_ok g') ->
  forall l g g', fold_left (fun acc x => g0 <- acc ;; f g0 x) l (Ok g) = Ok g' -> edges_ok g -> edges_ok g'.
Proof.
  intros F l. induction l as [|x t IH]; cbn [fold_left]; intros g g' H OK.
  - injection H as <-. exact OK.
  - cbn [bind] in H. destruct (f g x) as [g1| |] eqn:E.
    + eapply IH; [exact H | eapply F; eassumption].
    + exfalso. clear -H. induction t as [|y t IH]; cbn in H; [discriminate | apply IH; exact H].
    + exfalso. clear -H. induction t as [|y t IH]; cbn in H; [discriminate | apply IH; exact H].
Qed.

Lemma add_manual_ok bi g m g' : add_manual bi g m = Ok g' -> edges_ok g -> edges_ok g'.
Proof.
  unfold add_manual. intros H OK. inv_bind H. inv_bind H.
  destruct (gs_has_edge g (snd a) (fst a0)).
  - injection H as <-. exact OK.
  - eapply insert_edge_ok; eassumption.
Qed.

Lemma add_successors_ok bi g ar g' : add_successors bi g ar = Ok g' -> edges_ok g -> edges_ok g'.
Proof.
  unfold add_successors. intros H OK. inv_bind H.
  eapply (fold_res_ok (fun g' s => e <- bi_get bi (fst s) ;;
     if gs_has_edge g' (snd a) (fst e) then Ok g' else gs_insert_edge g' (mkedge (snd a) (fst e) (snd s)))); [|exact H|exact OK].
  clear H. intros g0 x g1 H OK0. inv_bind H. destruct (gs_has_edge g0 (snd a) (fst a0)).
  - injection H as <-. exact OK0.
  - eapply insert_edge_ok; eassumption.
Qed.

Theorem recover_names_ok tb fa manual f : recover tb fa manual = Ok f -> names_ok (f_cfg f) = true.
Proof.
  unfold recover. intros H. inv_bind H. inv_bind H. destruct a0 as [st bi]. cbn [fst snd] in H.
  inv_bind H. inv_bind H. inv_bind H.
  destruct (gs_has_block a1 (fst a2)) eqn:HB; [|discriminate]. injection H as <-.
  assert (OK0 : edges_ok (as_g st)).
  { eapply assemble_ok; [exact E0|]. intros e []. }
  assert (OK1 : edges_ok a0).
  { eapply (fold_res_ok (add_manual bi)); [|exact E1|exact OK0]. intros; eapply add_manual_ok; eassumption. }
  assert (OK2 : edges_ok a1).
  { eapply (fold_res_ok (add_successors bi)); [|exact E2|exact OK1]. intros; eapply add_successors_ok; eassumption. }
  unfold names_ok. cbn [f_cfg g_edges g_entry g_exit]. rewrite andb_true_r. apply andb_true_intro. split.
  - apply forallb_forall. intros e I. destruct (OK2 e I) as [A B]. unfold has_block, gs_has_block in *. cbn [g_blocks].
    rewrite A, B. reflexivity.
  - unfold has_block, gs_has_block in *. cbn [g_blocks]. exact HB.
Qed.
