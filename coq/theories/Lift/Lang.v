(* Lift/Lang.v -- the language of a function graph and a verified bisimulation checker (C06, reusable for C15).

   A graph is read as a labelled transition system over positions (block index, offset in the block):
     * an instruction at the position is the visible item  Ins address operation;
     * at the end of a block whose ONLY out-edge is unguarded, control moves silently to the start of the
       successor (this is exactly the situation ControlFlowGraph::merge removes);
     * at the end of any other block every out-edge is the visible item  Grd guard  (guard : option expr).
   lang g = the (prefix-closed) set of finite words readable from the entry block.
   Block indices, block boundaries and instruction index fields are NOT part of the language.

   lang_bisim g1 g2 computes a candidate relation by exploration (untrusted) and then checks that it is a
   bisimulation (is_bisim, trusted through lang_bisim_sound). *)
From Coq Require Import ZArith List Bool NArith Lia.
From Falcon Require Import Base.Res IL.Const IL.Expr IL.Func.
Import ListNotations.
Local Open Scope Z_scope.

(* ------------------------------------------------------------------ decidable equalities *)
Lemma optN_eqb_eq a b : optN_eqb a b = true -> a = b.
Proof. destruct a, b; cbn; intros H; try discriminate; [apply N.eqb_eq in H; subst|]; reflexivity. Qed.

Lemma scalar_eqb_eq a b : scalar_eqb a b = true -> a = b.
Proof.
  destruct a as [n w s], b as [n' w' s']; unfold scalar_eqb; cbn [sname sbits sssa]; intros H.
  apply andb_prop in H as [H H3]. apply andb_prop in H as [H1 H2].
  apply N.eqb_eq in H1. apply Z.eqb_eq in H2. apply optN_eqb_eq in H3. subst. reflexivity.
Qed.

Lemma const_eqb_eq a b : const_eqb a b = true -> a = b.
Proof.
  destruct a as [w v], b as [w' v']; unfold const_eqb; cbn [cbits cval]; intros H.
  apply andb_prop in H as [H1 H2]. apply Z.eqb_eq in H1. apply Z.eqb_eq in H2. subst. reflexivity.
Qed.

Lemma binop_eqb_eq a b : binop_eqb a b = true -> a = b.
Proof. destruct a, b; cbn; intros H; try discriminate; reflexivity. Qed.
Lemma extop_eqb_eq a b : extop_eqb a b = true -> a = b.
Proof. destruct a, b; cbn; intros H; try discriminate; reflexivity. Qed.

Lemma expr_eqb_eq a : forall b, expr_eqb a b = true -> a = b.
Proof.
  induction a as [s|c|o l IHl r IHr|o n e IHe|c IHc t IHt e IHe]; intros b H; destruct b; cbn in H; try discriminate.
  - apply scalar_eqb_eq in H. subst. reflexivity.
  - apply const_eqb_eq in H. subst. reflexivity.
  - apply andb_prop in H as [H H3]. apply andb_prop in H as [H1 H2].
    apply binop_eqb_eq in H1. apply IHl in H2. apply IHr in H3. subst. reflexivity.
  - apply andb_prop in H as [H H3]. apply andb_prop in H as [H1 H2].
    apply extop_eqb_eq in H1. apply Z.eqb_eq in H2. apply IHe in H3. subst. reflexivity.
  - apply andb_prop in H as [H H3]. apply andb_prop in H as [H1 H2].
    apply IHc in H1. apply IHt in H2. apply IHe in H3. subst. reflexivity.
Qed.

Fixpoint list_eqb {A} (eqb : A -> A -> bool) (l1 l2 : list A) : bool :=
  match l1, l2 with
  | [], [] => true
  | x :: t, y :: u => eqb x y && list_eqb eqb t u
  | _, _ => false
  end.
Lemma list_eqb_eq {A} (eqb : A -> A -> bool) :
  (forall a b, eqb a b = true -> a = b) -> forall l1 l2, list_eqb eqb l1 l2 = true -> l1 = l2.
Proof.
  intros E l1. induction l1 as [|x t IH]; intros [|y u] H; cbn in H; try discriminate; [reflexivity|].
  apply andb_prop in H as [H1 H2]. apply E in H1. apply IH in H2. subst. reflexivity.
Qed.

Definition opt_eqb {A} (eqb : A -> A -> bool) (a b : option A) : bool :=
  match a, b with Some x, Some y => eqb x y | None, None => true | _, _ => false end.
Lemma opt_eqb_eq {A} (eqb : A -> A -> bool) :
  (forall a b, eqb a b = true -> a = b) -> forall a b, opt_eqb eqb a b = true -> a = b.
Proof. intros E [x|] [y|] H; cbn in H; try discriminate; [apply E in H; subst|]; reflexivity. Qed.

Definition intr_eqb (a b : intrinsic) : bool :=
  N.eqb (in_mnemonic a) (in_mnemonic b) && list_eqb expr_eqb (in_args a) (in_args b) &&
  opt_eqb (list_eqb expr_eqb) (in_written a) (in_written b) &&
  opt_eqb (list_eqb expr_eqb) (in_read a) (in_read b).
Lemma intr_eqb_eq a b : intr_eqb a b = true -> a = b.
Proof.
  destruct a as [m ar wr rd], b as [m' ar' wr' rd']; unfold intr_eqb; cbn [in_mnemonic in_args in_written in_read].
  intros H. apply andb_prop in H as [H H4]. apply andb_prop in H as [H H3]. apply andb_prop in H as [H1 H2].
  apply N.eqb_eq in H1. apply (list_eqb_eq _ expr_eqb_eq) in H2.
  apply (opt_eqb_eq _ (list_eqb_eq _ expr_eqb_eq)) in H3.
  apply (opt_eqb_eq _ (list_eqb_eq _ expr_eqb_eq)) in H4. subst. reflexivity.
Qed.

Fixpoint op_eqb (a b : operation) : bool :=
  match a, b with
  | OAssign d s, OAssign d' s' => scalar_eqb d d' && expr_eqb s s'
  | OStore i s, OStore i' s' => expr_eqb i i' && expr_eqb s s'
  | OLoad d i, OLoad d' i' => scalar_eqb d d' && expr_eqb i i'
  | OBranch t, OBranch t' => expr_eqb t t'
  | OIntrinsic i, OIntrinsic i' => intr_eqb i i'
  | ONop p, ONop p' => match p, p' with
                       | None, None => true
                       | Some x, Some y => op_eqb x y
                       | _, _ => false
                       end
  | _, _ => false
  end.
Fixpoint op_eqb_eq (a b : operation) {struct a} : op_eqb a b = true -> a = b.
Proof.
  destruct a as [d s|i s|d i|t|i|p]; destruct b as [d' s'|i' s'|d' i'|t'|i'|p']; cbn; intros H; try discriminate.
  - apply andb_prop in H as [H1 H2]. apply scalar_eqb_eq in H1. apply expr_eqb_eq in H2. subst. reflexivity.
  - apply andb_prop in H as [H1 H2]. apply expr_eqb_eq in H1. apply expr_eqb_eq in H2. subst. reflexivity.
  - apply andb_prop in H as [H1 H2]. apply scalar_eqb_eq in H1. apply expr_eqb_eq in H2. subst. reflexivity.
  - apply expr_eqb_eq in H. subst. reflexivity.
  - apply intr_eqb_eq in H. subst. reflexivity.
  - destruct p as [x|], p' as [y|]; try discriminate; [|reflexivity].
    apply op_eqb_eq in H. subst. reflexivity.
Qed.

Definition optZ_eqb' (a b : option Z) : bool := opt_eqb Z.eqb a b.
Lemma optZ_eqb'_eq a b : optZ_eqb' a b = true -> a = b.
Proof. apply opt_eqb_eq. intros x y H. apply Z.eqb_eq. exact H. Qed.
Definition lab_eqb (a b : option expr) : bool := opt_eqb expr_eqb a b.
Lemma lab_eqb_eq a b : lab_eqb a b = true -> a = b.
Proof. apply opt_eqb_eq. exact expr_eqb_eq. Qed.

(* ------------------------------------------------------------------ the transition system *)
Definition pos := (Z * nat)%type.
Definition pos_eqb (p q : pos) : bool := (fst p =? fst q) && Nat.eqb (snd p) (snd q).
Lemma pos_eqb_eq p q : pos_eqb p q = true -> p = q.
Proof.
  destruct p as [a i], q as [b j]; unfold pos_eqb; cbn [fst snd]; intros H.
  apply andb_prop in H as [H1 H2]. apply Z.eqb_eq in H1. apply Nat.eqb_eq in H2. subst. reflexivity.
Qed.

Inductive item :=
| Ins (a : option Z) (o : operation)      (* one IL instruction: native address, operation *)
| Grd (c : option expr).                  (* one out-edge of a branching point *)
Definition item_eqb (x y : item) : bool :=
  match x, y with
  | Ins a o, Ins a' o' => optZ_eqb' a a' && op_eqb o o'
  | Grd c, Grd c' => lab_eqb c c'
  | _, _ => false
  end.
Lemma item_eqb_eq x y : item_eqb x y = true -> x = y.
Proof.
  destruct x as [a o|c], y as [a' o'|c']; cbn; intros H; try discriminate.
  - apply andb_prop in H as [H1 H2]. apply optZ_eqb'_eq in H1. apply op_eqb_eq in H2. subst. reflexivity.
  - apply lab_eqb_eq in H. subst. reflexivity.
Qed.

Inductive kind :=
| KIns (x : item) (p : pos)
| KSilent (t : Z)
| KBranch (l : list (option expr * Z)).

Definition out_edges (g : cfg) (b : Z) : list edge := filter (fun e => e_head e =? b) (g_edges g).
Definition edge_lab (e : edge) : option expr * Z := (e_cond e, e_tail e).

(* a position in a block that does not exist has no moves (KBranch []) *)
Definition kind_of (g : cfg) (p : pos) : kind :=
  match find_block (g_blocks g) (fst p) with
  | None => KBranch []
  | Some b =>
      match nth_error (b_instrs b) (snd p) with
      | Some i => KIns (Ins (i_addr i) (i_op i)) (fst p, S (snd p))
      | None =>
          match out_edges g (fst p) with
          | [e] => match e_cond e with
                   | None => KSilent (e_tail e)
                   | Some _ => KBranch [edge_lab e]
                   end
          | es => KBranch (map edge_lab es)
          end
      end
  end.

Inductive vstep (g : cfg) (p : pos) : item -> pos -> Prop :=
| vs_ins x q : kind_of g p = KIns x q -> vstep g p x q
| vs_grd l c t : kind_of g p = KBranch l -> In (c, t) l -> vstep g p (Grd c) (t, O).

Inductive run (g : cfg) : pos -> list item -> pos -> Prop :=
| run_nil p : run g p [] p
| run_sil p t w q : kind_of g p = KSilent t -> run g (t, O) w q -> run g p w q
| run_vis p x p' w q : vstep g p x p' -> run g p' w q -> run g p (x :: w) q.

Definition lang_from (g : cfg) (p : pos) (w : list item) : Prop := exists q, run g p w q.
Definition lang (g : cfg) (w : list item) : Prop :=
  exists e, g_entry g = Some e /\ lang_from g (e, O) w.
Definition flang (f : func) : list item -> Prop := lang (f_cfg f).

Lemma run_prefix g p w1 w2 q : run g p (w1 ++ w2) q -> exists q', run g p w1 q'.
Proof.
  intros H. remember (w1 ++ w2) as w eqn:E. revert w1 E.
  induction H as [p|p t w q K H IH|p x p' w q V H IH]; intros w1 E.
  - destruct w1; [|discriminate]. exists p. constructor.
  - destruct (IH w1 E) as [q' R]. exists q'. eapply run_sil; eassumption.
  - destruct w1 as [|y w1]; [exists p; constructor|].
    cbn in E. injection E as -> E. destruct (IH w1 E) as [q' R]. exists q'. eapply run_vis; eassumption.
Qed.
Lemma lang_prefix_closed g w1 w2 : lang g (w1 ++ w2) -> lang g w1.
Proof. intros (e & E & q & R). exists e. split; [exact E|]. eapply run_prefix. exact R. Qed.

(* ------------------------------------------------------------------ the checker *)
(* follow silent moves; None = a silent chain longer than the fuel (a silent cycle: see div_ok) *)
Fixpoint settle (g : cfg) (fuel : nat) (p : pos) : option pos :=
  match fuel with
  | O => None
  | S f => match kind_of g p with KSilent t => settle g f (t, O) | _ => Some p end
  end.

(* certified silent divergence: the silent chain from p, cut at the fuel, is closed under the silent move -- every
   position on it moves silently to a position on it -- so nothing is ever read from p *)
Fixpoint chain (g : cfg) (fuel : nat) (p : pos) : list pos :=
  match fuel with
  | O => []
  | S f => match kind_of g p with KSilent t => p :: chain g f (t, O) | _ => [] end
  end.
Definition memP (C : list pos) (p : pos) : bool := existsb (pos_eqb p) C.
Definition closed_chain (g : cfg) (C : list pos) : bool :=
  forallb (fun p => match kind_of g p with KSilent t => memP C (t, O) | _ => false end) C.
Definition div_ok (g : cfg) (fuel : nat) (p : pos) : bool :=
  let C := chain g fuel p in memP C p && closed_chain g C.

Definition ppair := (pos * pos)%type.
Definition ppair_eqb (a b : ppair) : bool := pos_eqb (fst a) (fst b) && pos_eqb (snd a) (snd b).
Definition memR (R : list ppair) (x : ppair) : bool := existsb (ppair_eqb x) R.
Lemma memR_In R x : memR R x = true -> In x R.
Proof.
  unfold memR. intros H. apply existsb_exists in H as (y & Iy & E). unfold ppair_eqb in E.
  apply andb_prop in E as [E1 E2]. apply pos_eqb_eq in E1. apply pos_eqb_eq in E2.
  destruct x, y; cbn in *; subst. exact Iy.
Qed.

Definition sim_edges (R : list ppair) (flip : bool) (l1 l2 : list (option expr * Z)) : bool :=
  forallb (fun a => existsb (fun b => lab_eqb (fst a) (fst b) &&
                                      memR R (if flip then ((snd b, O), (snd a, O)) else ((snd a, O), (snd b, O)))) l2) l1.

Section Check.
  Variables (g1 g2 : cfg) (n1 n2 : nat).

  Definition pair_ok (R : list ppair) (pq : ppair) : bool :=
    match settle g1 n1 (fst pq), settle g2 n2 (snd pq) with
    | Some q1, Some q2 =>
        match kind_of g1 q1, kind_of g2 q2 with
        | KIns x1 r1, KIns x2 r2 => item_eqb x1 x2 && memR R (r1, r2)
        | KBranch l1, KBranch l2 => sim_edges R false l1 l2 && sim_edges R true l2 l1
        | _, _ => false
        end
    | None, None => div_ok g1 n1 (fst pq) && div_ok g2 n2 (snd pq)     (* both diverge silently *)
    | _, _ => false
    end.
  Definition is_bisim (R : list ppair) : bool := forallb (pair_ok R) R.

  Definition edge_pairs (l1 l2 : list (option expr * Z)) : list ppair :=
    flat_map (fun a => flat_map (fun b => if lab_eqb (fst a) (fst b) then [((snd a, O), (snd b, O))] else []) l2) l1.

  (* untrusted exploration: every pair of positions reachable by reading equal items; pairs that do not
     match locally are collected too and removed by [prune] *)
  Fixpoint explore (fuel : nat) (todo visited : list ppair) : option (list ppair) :=
    match fuel with
    | O => None
    | S f =>
        match todo with
        | [] => Some visited
        | pq :: rest =>
            if memR visited pq then explore f rest visited
            else match settle g1 n1 (fst pq), settle g2 n2 (snd pq) with
                 | Some q1, Some q2 =>
                     match kind_of g1 q1, kind_of g2 q2 with
                     | KIns _ r1, KIns _ r2 => explore f ((r1, r2) :: rest) (pq :: visited)
                     | KBranch l1, KBranch l2 => explore f (edge_pairs l1 l2 ++ rest) (pq :: visited)
                     | _, _ => explore f rest (pq :: visited)
                     end
                 | _, _ => explore f rest (pq :: visited)
                 end
        end
    end.

  (* greatest fixed point below the candidate: drop pairs that fail the local test until none does *)
  Fixpoint prune (fuel : nat) (R : list ppair) : list ppair :=
    match fuel with
    | O => R
    | S f => let R' := filter (pair_ok R) R in
             if Nat.eqb (length R') (length R) then R else prune f R'
    end.
End Check.

Definition cfg_size (g : cfg) : nat :=
  S (length (g_blocks g) + length (g_edges g) + fold_right (fun b n => (length (b_instrs b) + n)%nat) O (g_blocks g)).
Definition silent_fuel (g : cfg) : nat := S (S (length (g_blocks g))).

Definition bisim_from (g1 g2 : cfg) (start : ppair) : bool :=
  let n1 := silent_fuel g1 in let n2 := silent_fuel g2 in
  match explore g1 g2 n1 n2 (cfg_size g1 * cfg_size g2 + cfg_size g1 + cfg_size g2) [start] [] with
  | Some R0 => let R := prune g1 g2 n1 n2 (length R0) R0 in memR R start && is_bisim g1 g2 n1 n2 R
  | None => false
  end.

Definition lang_bisim (g1 g2 : cfg) : bool :=
  match g_entry g1, g_entry g2 with
  | Some e1, Some e2 => bisim_from g1 g2 ((e1, O), (e2, O))
  | None, None => true
  | _, _ => false
  end.

(* ------------------------------------------------------------------ soundness *)
Lemma settle_run g n : forall p q w r, settle g n p = Some q -> run g q w r -> run g p w r.
Proof.
  induction n as [|n IH]; intros p q w r S R; cbn in S; [discriminate|].
  destruct (kind_of g p) eqn:K; try (injection S as <-; exact R).
  eapply run_sil; [exact K|]. eapply IH; eassumption.
Qed.

Lemma settle_run_inv g n : forall p q w r, settle g n p = Some q -> run g p w r -> exists r', run g q w r'.
Proof.
  induction n as [|n IH]; intros p q w r S R; cbn in S; [discriminate|].
  destruct (kind_of g p) eqn:K; try (injection S as <-; exists r; exact R).
  inversion R as [p0|p0 t' w0 q0 K' R'|p0 x p' w0 q0 V R']; subst.
  - exists q. constructor.
  - rewrite K in K'. injection K' as <-. eapply IH; eassumption.
  - inversion V as [x0 q1 K'|l c t' K' I]; subst; rewrite K in K'; discriminate.
Qed.

Lemma settle_not_silent g n : forall p q t, settle g n p = Some q -> kind_of g q <> KSilent t.
Proof.
  induction n as [|n IH]; intros p q t S; cbn in S; [discriminate|].
  destruct (kind_of g p) eqn:K; try (injection S as <-; rewrite K; discriminate).
  eapply IH. exact S.
Qed.

Lemma run_cons_inv g p x w r : (forall t, kind_of g p <> KSilent t) -> run g p (x :: w) r ->
  exists p', vstep g p x p' /\ run g p' w r.
Proof.
  intros NS R. inversion R as [|p0 t' w0 q0 K' R'|p0 x0 p' w0 q0 V R']; subst.
  - exfalso. eapply NS. exact K'.
  - exists p'. split; assumption.
Qed.

Lemma memP_In C p : memP C p = true -> In p C.
Proof. unfold memP. intros H. apply existsb_exists in H as (q & Iq & E). apply pos_eqb_eq in E. subst q. exact Iq. Qed.

Lemma closed_silent g C : closed_chain g C = true -> forall p w q, In p C -> run g p w q -> w = [].
Proof.
  intros CC p w q I R. induction R as [p|p t w q K H IH|p x p' w q V H IH].
  - reflexivity.
  - apply IH. unfold closed_chain in CC. rewrite forallb_forall in CC. specialize (CC _ I). rewrite K in CC. apply memP_In. exact CC.
  - exfalso. unfold closed_chain in CC. rewrite forallb_forall in CC. specialize (CC _ I).
    inversion V as [x0 q0 K|l c t K Il]; subst; rewrite K in CC; discriminate.
Qed.
Lemma div_sound g n p w q : div_ok g n p = true -> run g p w q -> w = [].
Proof.
  unfold div_ok. intros H R. apply andb_prop in H as [M C]. eapply closed_silent; [exact C | apply memP_In; exact M | exact R].
Qed.

Section Sound.
  Variables (g1 g2 : cfg) (n1 n2 : nat) (R : list ppair).
  Hypothesis HB : is_bisim g1 g2 n1 n2 R = true.

  Lemma pair_ok_of pq : In pq R -> pair_ok g1 g2 n1 n2 R pq = true.
  Proof. intros I. unfold is_bisim in HB. rewrite forallb_forall in HB. apply HB. exact I. Qed.

  Lemma sim_edges_step flip l1 l2 c t : sim_edges R flip l1 l2 = true -> In (c, t) l1 ->
    exists t', In (c, t') l2 /\ In (if flip then ((t', O), (t, O)) else ((t, O), (t', O))) R.
  Proof.
    unfold sim_edges. intros H I. rewrite forallb_forall in H. specialize (H _ I).
    apply existsb_exists in H as ([c' t'] & I' & E). cbn [fst snd] in E.
    apply andb_prop in E as [E1 E2]. apply lab_eqb_eq in E1. subst c'. apply memR_In in E2.
    exists t'. split; assumption.
  Qed.

  (* R is a simulation from g1 to g2 ... *)
  Lemma sim12 : forall w p1 p2 r, In (p1, p2) R -> run g1 p1 w r -> exists r', run g2 p2 w r'.
  Proof.
    induction w as [|x w IH]; intros p1 p2 r I Rn.
    - exists p2. constructor.
    - pose proof (pair_ok_of _ I) as OK. unfold pair_ok in OK. cbn [fst snd] in OK.
      destruct (settle g1 n1 p1) as [q1|] eqn:S1; destruct (settle g2 n2 p2) as [q2|] eqn:S2; try discriminate;
        [|apply andb_prop in OK as [OK1 _]; discriminate (div_sound _ _ _ _ _ OK1 Rn)].
      destruct (settle_run_inv _ _ _ _ _ _ S1 Rn) as [r1 Rq].
      apply run_cons_inv in Rq; [|intros t; eapply settle_not_silent; exact S1].
      destruct Rq as (p' & V & Rt).
      destruct (kind_of g1 q1) as [x1 s1|t1|l1] eqn:K1; [| discriminate |];
        destruct (kind_of g2 q2) as [x2 s2|t2|l2] eqn:K2; try discriminate.
      + apply andb_prop in OK as [E M]. apply item_eqb_eq in E. subst x2. apply memR_In in M.
        inversion V as [x0 q0 K'|l c t' K' I']; subst; rewrite K1 in K'; [|discriminate].
        injection K' as <- <-.
        destruct (IH _ _ _ M Rt) as [r' R']. exists r'.
        eapply settle_run; [exact S2|]. eapply run_vis; [apply vs_ins; exact K2 | exact R'].
      + apply andb_prop in OK as [F _].
        inversion V as [x0 q0 K'|l c t' K' I']; subst; rewrite K1 in K'; [discriminate|].
        injection K' as <-.
        destruct (sim_edges_step _ _ _ _ _ F I') as (t2 & I2 & M). cbn in M.
        destruct (IH _ _ _ M Rt) as [r' R']. exists r'.
        eapply settle_run; [exact S2|]. eapply run_vis; [eapply vs_grd; [exact K2 | exact I2] | exact R'].
  Qed.

  (* ... and its converse a simulation from g2 to g1 *)
  Lemma sim21 : forall w p1 p2 r, In (p1, p2) R -> run g2 p2 w r -> exists r', run g1 p1 w r'.
  Proof.
    induction w as [|x w IH]; intros p1 p2 r I Rn.
    - exists p1. constructor.
    - pose proof (pair_ok_of _ I) as OK. unfold pair_ok in OK. cbn [fst snd] in OK.
      destruct (settle g1 n1 p1) as [q1|] eqn:S1; destruct (settle g2 n2 p2) as [q2|] eqn:S2; try discriminate;
        [|apply andb_prop in OK as [_ OK2]; discriminate (div_sound _ _ _ _ _ OK2 Rn)].
      destruct (settle_run_inv _ _ _ _ _ _ S2 Rn) as [r1 Rq].
      apply run_cons_inv in Rq; [|intros t; eapply settle_not_silent; exact S2].
      destruct Rq as (p' & V & Rt).
      destruct (kind_of g1 q1) as [x1 s1|t1|l1] eqn:K1; [| discriminate |];
        destruct (kind_of g2 q2) as [x2 s2|t2|l2] eqn:K2; try discriminate.
      + apply andb_prop in OK as [E M]. apply item_eqb_eq in E. subst x2. apply memR_In in M.
        inversion V as [x0 q0 K'|l c t' K' I']; subst; rewrite K2 in K'; [|discriminate].
        injection K' as <- <-.
        destruct (IH _ _ _ M Rt) as [r' R']. exists r'.
        eapply settle_run; [exact S1|]. eapply run_vis; [apply vs_ins; exact K1 | exact R'].
      + apply andb_prop in OK as [_ F].
        inversion V as [x0 q0 K'|l c t' K' I']; subst; rewrite K2 in K'; [discriminate|].
        injection K' as <-.
        destruct (sim_edges_step _ _ _ _ _ F I') as (t1 & I1 & M). cbn in M.
        destruct (IH _ _ _ M Rt) as [r' R']. exists r'.
        eapply settle_run; [exact S1|]. eapply run_vis; [eapply vs_grd; [exact K1 | exact I1] | exact R'].
  Qed.
End Sound.

Theorem bisim_from_sound g1 g2 p1 p2 : bisim_from g1 g2 (p1, p2) = true ->
  forall w, lang_from g1 p1 w <-> lang_from g2 p2 w.
Proof.
  unfold bisim_from. destruct (explore _ _ _ _ _ _ _) as [R0|]; [|discriminate].
  cbv zeta. set (R := prune _ _ _ _ _ R0). intros H w. apply andb_prop in H as [M B]. apply memR_In in M. unfold lang_from. split; intros [q Rn].
  - eapply sim12; eassumption.
  - eapply sim21; eassumption.
Qed.

Theorem lang_bisim_sound g1 g2 : lang_bisim g1 g2 = true -> forall w, lang g1 w <-> lang g2 w.
Proof.
  unfold lang_bisim, lang. destruct (g_entry g1) as [e1|], (g_entry g2) as [e2|]; intros H w; try discriminate.
  - pose proof (bisim_from_sound _ _ _ _ H w) as [A B]. split; intros (e & E & L); injection E as <-.
    + exists e2. split; [reflexivity | apply A; exact L].
    + exists e1. split; [reflexivity | apply B; exact L].
  - split; intros (e & E & _); discriminate.
Qed.

(* ------------------------------------------------------------------ execution is a function of the word read *)
(* Any interpretation of the items: [do_ins s x] executes an instruction item (None = fault / leaves the
   function), [holds s c] says whether a guard is enabled (None = its evaluation faults).  Exec/Sem.v is the
   instance do_ins = exec_op, holds = "den c = 1" (unguarded = enabled). *)
Section Interp.
  Variable St : Type.
  Variable do_ins : St -> item -> option St.
  Variable holds : St -> option expr -> option bool.
  Definition holds_t (s : St) (c : option expr) : bool := match holds s c with Some true => true | _ => false end.
  Definition holds_f (s : St) (c : option expr) : bool := match holds s c with None => true | _ => false end.

  (* states after each item of a word; None = the word is not executable from s *)
  Fixpoint weval (s : St) (w : list item) : option (list St) :=
    match w with
    | [] => Some []
    | Ins a o :: t => match do_ins s (Ins a o) with
                      | Some s' => option_map (cons s') (weval s' t)
                      | None => None
                      end
    | Grd c :: t => if holds_t s c then option_map (cons s) (weval s t) else None
    end.

  (* a feasible execution of g from s: a word of g that s can execute, with the states it goes through *)
  Definition feasible (g : cfg) (s : St) (w : list item) (tr : list St) : Prop := lang g w /\ weval s w = Some tr.

  (* [U] may-semantics: graphs with equal languages have the same feasible executions -- the same
     instruction addresses and operations in the same order, the same states -- from every state *)
  Theorem lang_eq_feasible g1 g2 : (forall w, lang g1 w <-> lang g2 w) ->
    forall s w tr, feasible g1 s w tr <-> feasible g2 s w tr.
  Proof. intros E s w tr. unfold feasible. rewrite (E w). tauto. Qed.

  (* ---- the deterministic executor (must-semantics, as Exec/Sem.v: exactly one enabled guard) ---- *)
  Inductive outcome := OCut | OEnd | ONoGuard | OAmbiguous | OFault | OSilentLoop.

  Definition enabled (s : St) (l : list (option expr * Z)) := filter (fun ct => holds_t s (fst ct)) l.
  Definition faulty (s : St) (l : list (option expr * Z)) : bool := existsb (fun ct => holds_f s (fst ct)) l.

  (* n counts visible steps (instructions and branch decisions); sf bounds silent chains *)
  Fixpoint pexec (g : cfg) (sf : nat) (n : nat) (p : pos) (s : St) : list (item * St) * outcome :=
    match n with
    | O => ([], OCut)
    | S n' =>
        match settle g sf p with
        | None => ([], OSilentLoop)
        | Some q =>
            match kind_of g q with
            | KIns x r => match do_ins s x with
                          | Some s' => let res := pexec g sf n' r s' in ((x, s') :: fst res, snd res)
                          | None => ([], OFault)
                          end
            | KBranch [] => ([], OEnd)
            | KBranch l => if faulty s l then ([], OFault)
                           else match enabled s l with
                           | [] => ([], ONoGuard)
                           | [ct] => let res := pexec g sf n' (snd ct, O) s in ((Grd (fst ct), s) :: fst res, snd res)
                           | _ => ([], OAmbiguous)
                           end
            | KSilent _ => ([], OSilentLoop)
            end
        end
    end.
End Interp.

(* guards of every branching point are pairwise distinct (syntactically) *)
Fixpoint nodup_labs (l : list (option expr * Z)) : bool :=
  match l with
  | [] => true
  | ct :: t => negb (existsb (fun ct' => lab_eqb (fst ct) (fst ct')) t) && nodup_labs t
  end.
Definition block_labs (g : cfg) (b : block) : list (option expr * Z) := map edge_lab (out_edges g (b_index b)).
Definition det (g : cfg) : bool := forallb (fun b => nodup_labs (block_labs g b)) (g_blocks g).

(* ------------------------------------------------------------------ bisimilar deterministic graphs execute alike *)
Lemma scalar_eqb_refl s : scalar_eqb s s = true.
Proof.
  unfold scalar_eqb. rewrite N.eqb_refl, Z.eqb_refl. cbn. destruct (sssa s); cbn; [apply N.eqb_refl | reflexivity].
Qed.
Lemma const_eqb_refl c : const_eqb c c = true.
Proof. unfold const_eqb. rewrite !Z.eqb_refl. reflexivity. Qed.
Lemma expr_eqb_refl e : expr_eqb e e = true.
Proof.
  induction e as [s|c|o l IHl r IHr|o n e IHe|c IHc t IHt e IHe]; cbn.
  - apply scalar_eqb_refl.
  - apply const_eqb_refl.
  - rewrite IHl, IHr. destruct o; reflexivity.
  - rewrite IHe, Z.eqb_refl. destruct o; reflexivity.
  - rewrite IHc, IHt, IHe. reflexivity.
Qed.
Lemma lab_eqb_refl c : lab_eqb c c = true.
Proof. destruct c; cbn; [apply expr_eqb_refl | reflexivity]. Qed.

Lemma nodup_labs_NoDup l : nodup_labs l = true -> NoDup (map fst l).
Proof.
  induction l as [|ct t IH]; cbn; intros H; [constructor|].
  apply andb_prop in H as [H1 H2]. constructor; [|apply IH; exact H2].
  intros I. apply in_map_iff in I as (ct' & E & I).
  apply negb_true_iff in H1. rewrite <- not_true_iff_false in H1. apply H1.
  apply existsb_exists. exists ct'. split; [exact I|]. rewrite E. apply lab_eqb_refl.
Qed.

Lemma NoDup_map_filter {A B} (f : A -> B) (p : A -> bool) l : NoDup (map f l) -> NoDup (map f (filter p l)).
Proof.
  induction l as [|x t IH]; cbn; intros H; [constructor|].
  inversion H as [|y u NI ND]; subst. destruct (p x); cbn; [|apply IH; exact ND].
  constructor; [|apply IH; exact ND].
  intros I. apply NI. apply in_map_iff in I as (z & E & I). apply filter_In in I as [I _].
  apply in_map_iff. exists z. split; assumption.
Qed.

Lemma find_block_spec bs i b : find_block bs i = Some b -> b_index b = i /\ In b bs.
Proof.
  induction bs as [|x t IH]; cbn; intros H; [discriminate|].
  destruct (Z.eqb_spec (b_index x) i) as [E|E].
  - injection H as <-. split; [exact E | left; reflexivity].
  - destruct (IH H) as [A B]. split; [exact A | right; exact B].
Qed.

Lemma det_kind g q l : det g = true -> kind_of g q = KBranch l -> nodup_labs l = true.
Proof.
  unfold det, kind_of. intros D K. rewrite forallb_forall in D.
  destruct (find_block (g_blocks g) (fst q)) as [b|] eqn:F; [|injection K as <-; reflexivity].
  destruct (find_block_spec _ _ _ F) as [Ei Ib]. specialize (D _ Ib). unfold block_labs in D. rewrite Ei in D.
  destruct (nth_error (b_instrs b) (snd q)); [discriminate|].
  destruct (out_edges g (fst q)) as [|e [|e' es]] eqn:O.
  - injection K as <-. reflexivity.
  - destruct (e_cond e); [|discriminate]. injection K as <-. reflexivity.
  - injection K as <-. exact D.
Qed.

Section ExecSound.
  Variable St : Type.
  Variable do_ins : St -> item -> option St.
  Variable holds : St -> option expr -> option bool.
  Variables (g1 g2 : cfg) (n1 n2 : nat) (R : list ppair).
  Hypothesis HB : is_bisim g1 g2 n1 n2 R = true.
  Hypothesis D1 : det g1 = true.
  Hypothesis D2 : det g2 = true.

  Let en := enabled St holds.

  Lemma enabled_incl s l1 l2 :
    (forall c t, In (c, t) l1 -> exists t', In (c, t') l2) -> incl (map fst (en s l1)) (map fst (en s l2)).
  Proof.
    intros A x I. apply in_map_iff in I as ([c t] & E & I). cbn in E. subst x.
    apply filter_In in I as [I H]. cbn in H. destruct (A _ _ I) as [t' I'].
    apply in_map_iff. exists (c, t'). split; [reflexivity|]. apply filter_In. split; [exact I' | exact H].
  Qed.

  Lemma enabled_length s l1 l2 : nodup_labs l1 = true -> nodup_labs l2 = true ->
    (forall c t, In (c, t) l1 -> exists t', In (c, t') l2) ->
    (forall c t, In (c, t) l2 -> exists t', In (c, t') l1) ->
    length (en s l1) = length (en s l2).
  Proof.
    intros N1 N2 A B.
    pose proof (NoDup_map_filter fst (fun ct => holds_t St holds s (fst ct)) l1 (nodup_labs_NoDup _ N1)) as U1.
    pose proof (NoDup_map_filter fst (fun ct => holds_t St holds s (fst ct)) l2 (nodup_labs_NoDup _ N2)) as U2.
    pose proof (NoDup_incl_length U1 (enabled_incl s l1 l2 A)) as L1.
    pose proof (NoDup_incl_length U2 (enabled_incl s l2 l1 B)) as L2.
    unfold en, enabled in *. rewrite !map_length in L1, L2. lia.
  Qed.

  Lemma faulty_incl s l1 l2 : (forall c t, In (c, t) l1 -> exists t', In (c, t') l2) ->
    faulty St holds s l1 = true -> faulty St holds s l2 = true.
  Proof.
    unfold faulty. intros A H. apply existsb_exists in H as ([c t] & I & F). cbn [fst] in F.
    destruct (A _ _ I) as [t' I']. apply existsb_exists. exists (c, t'). split; [exact I' | exact F].
  Qed.
  Lemma faulty_eq s l1 l2 : (forall c t, In (c, t) l1 -> exists t', In (c, t') l2) ->
    (forall c t, In (c, t) l2 -> exists t', In (c, t') l1) -> faulty St holds s l1 = faulty St holds s l2.
  Proof.
    intros A B. destruct (faulty St holds s l1) eqn:F1.
    - symmetry. eapply faulty_incl; eassumption.
    - destruct (faulty St holds s l2) eqn:F2; [|reflexivity].
      rewrite (faulty_incl s l2 l1 B F2) in F1. discriminate.
  Qed.

  Theorem bisim_exec : forall n p1 p2 s, In (p1, p2) R ->
    pexec St do_ins holds g1 n1 n p1 s = pexec St do_ins holds g2 n2 n p2 s.
  Proof.
    induction n as [|n IH]; intros p1 p2 s I; [reflexivity|].
    pose proof (pair_ok_of _ _ _ _ _ HB _ I) as OK. unfold pair_ok in OK. cbn [fst snd] in OK.
    cbn [pexec].
    destruct (settle g1 n1 p1) as [q1|] eqn:S1; destruct (settle g2 n2 p2) as [q2|] eqn:S2; try discriminate; [|reflexivity].
    destruct (kind_of g1 q1) as [x1 r1|t1|l1] eqn:K1; [| discriminate |];
      destruct (kind_of g2 q2) as [x2 r2|t2|l2] eqn:K2; try discriminate.
    - apply andb_prop in OK as [E M]. apply item_eqb_eq in E. subst x2. apply memR_In in M.
      destruct (do_ins s x1) as [s'|]; [|reflexivity]. rewrite (IH _ _ s' M). reflexivity.
    - apply andb_prop in OK as [F12 F21].
      assert (A : forall c t, In (c, t) l1 -> exists t', In (c, t') l2 /\ In ((t, O), (t', O)) R).
      { intros c t Il. destruct (sim_edges_step _ _ _ _ _ _ F12 Il) as (t' & I' & M). exists t'. split; assumption. }
      assert (B : forall c t, In (c, t) l2 -> exists t', In (c, t') l1 /\ In ((t', O), (t, O)) R).
      { intros c t Il. destruct (sim_edges_step _ _ _ _ _ _ F21 Il) as (t' & I' & M). exists t'. split; assumption. }
      pose proof (det_kind _ _ _ D1 K1) as N1. pose proof (det_kind _ _ _ D2 K2) as N2.
      assert (L : length (en s l1) = length (en s l2)).
      { apply enabled_length; try assumption.
        - intros c t Il. destruct (A _ _ Il) as (t' & I' & _). exists t'. exact I'.
        - intros c t Il. destruct (B _ _ Il) as (t' & I' & _). exists t'. exact I'. }
      destruct l1 as [|a1 l1'], l2 as [|a2 l2'].
      + reflexivity.
      + exfalso. destruct a2 as [c t]. destruct (B c t (or_introl eq_refl)) as (t' & [] & _).
      + exfalso. destruct a1 as [c t]. destruct (A c t (or_introl eq_refl)) as (t' & [] & _).
      + assert (FE : faulty St holds s (a1 :: l1') = faulty St holds s (a2 :: l2')).
        { apply faulty_eq.
          - intros c t Il. destruct (A _ _ Il) as (t' & I' & _). exists t'. exact I'.
          - intros c t Il. destruct (B _ _ Il) as (t' & I' & _). exists t'. exact I'. }
        rewrite FE. destruct (faulty St holds s (a2 :: l2')); [reflexivity|].
        fold (en s (a1 :: l1')). fold (en s (a2 :: l2')).
        destruct (en s (a1 :: l1')) as [|[c1 t1] [|? ?]] eqn:E1; destruct (en s (a2 :: l2')) as [|[c2 t2] [|? ?]] eqn:E2;
          cbn in L; try lia; try reflexivity.
        assert (I1 : In (c1, t1) (en s (a1 :: l1'))) by (rewrite E1; left; reflexivity).
        unfold en, enabled in I1. apply filter_In in I1 as [I1 H1]. cbn in H1.
        destruct (A _ _ I1) as (t' & I2 & M).
        assert (I2' : In (c1, t') (en s (a2 :: l2'))) by (unfold en, enabled; apply filter_In; split; [exact I2 | exact H1]).
        rewrite E2 in I2'. destruct I2' as [E|[]]. injection E as <- <-.
        cbn [fst snd]. rewrite (IH _ _ s M). reflexivity.
  Qed.
End ExecSound.

(* [U] what acceptance by the checker means operationally: from the entries, for every interpretation of the
   items, every initial state and every number of visible steps, the two graphs execute the same instruction
   items (addresses, operations) through the same states and end with the same outcome. *)
Definition pexec_entry St do_ins holds (g : cfg) (n : nat) (s : St) :=
  match g_entry g with
  | Some e => Some (pexec St do_ins holds g (silent_fuel g) n (e, O) s)
  | None => None
  end.

Theorem lang_bisim_exec St do_ins holds g1 g2 :
  lang_bisim g1 g2 = true -> det g1 = true -> det g2 = true ->
  forall n s, pexec_entry St do_ins holds g1 n s = pexec_entry St do_ins holds g2 n s.
Proof.
  unfold lang_bisim, pexec_entry. intros H D1 D2 n s.
  destruct (g_entry g1) as [e1|], (g_entry g2) as [e2|]; try discriminate; [|reflexivity].
  unfold bisim_from in H. destruct (explore _ _ _ _ _ _ _) as [R0|]; [|discriminate].
  cbv zeta in H. apply andb_prop in H as [M B]. apply memR_In in M.
  f_equal. eapply bisim_exec; eassumption.
Qed.
