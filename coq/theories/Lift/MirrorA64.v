(* Lift/MirrorA64.v -- C05, third [U] bullet, AArch64 part: the mirror Isa/A64Lift.v (operand presentation of bad64
   + the builders of aarch64/semantics.rs) never panics on an instruction whose fields are in their encodable
   ranges, and every block it produces is well formed and deterministic.  See Lift/MirrorWf.v for the method. *)
From Coq Require Import ZArith List Bool NArith Lia.
From Falcon Require Import Base.Res IL.Const IL.ConstSpec IL.ConstProofs IL.Expr IL.ExprSpec IL.Func Exec.Sem
  Lift.Wf Lift.GuardDecide Lift.WfProofs Lift.MirrorWf.
From Falcon Require Isa.A64 Isa.A64Lift.
Import ListNotations.
Local Open Scope Z_scope.

Module A64W.
Import Isa.A64 Isa.A64Lift.

(* a well-sorted, division-free expression of width w *)
Definition okv (e : expr) (w : Z) : Prop := wf_expr e = true /\ div_free e = true /\ e_bits e = w.

Lemma okv_const v w : 1 <= w <= 4096 -> okv (expr_const v w) w.
Proof. intros H. split; [apply wf_const; exact H|split; reflexivity]. Qed.

Opaque expr_const.

Ltac ahyps :=
  repeat match goal with
         | H : okv _ _ |- _ => destruct H as (? & ? & ?)
         end; MipsW.hyps.
Ltac abits := cbn [e_bits is_cmp sbits sx s_sp s_n s_z s_c s_v s_xzr s_temp0 s_temp1 full_scalar reg_bits];
              rewrite ?expr_const_bits; MipsW.hyps; cbn [e_bits is_cmp sbits].
Lemma mk_ite_ok c t f : e_bits c = 1 -> e_bits t = e_bits f -> mk_ite c t f = Ok (EIte c t f).
Proof. intros H1 H2. unfold mk_ite. rewrite H1, H2, !Z.eqb_refl. reflexivity. Qed.

Ltac amk1 :=
  first [ rewrite mk_bin_ok by (abits; reflexivity)
        | rewrite mk_ite_ok by (abits; reflexivity)
        | rewrite mk_wide_ok by (first [left; reflexivity | right; reflexivity | abits; lia])
        | rewrite mk_trun_ok by (abits; lia) ].
Ltac amk := repeat (amk1; cbn [bind unwrap]).
Ltac aleaves := rewrite ?expr_const_bits, ?df_const; MipsW.hyps; repeat rewrite wf_const by lia.
Ltac aokv := split; [|split]; cbn [wf_expr div_free is_div negb e_bits is_cmp sbits sx s_sp s_xzr full_scalar];
             aleaves; first [reflexivity | lia].

(* AArch64Register::get *)
Lemma reg_get_ok r : exists e, reg_get r = Ok e /\ okv e (reg_bits r).
Proof.
  destruct r; cbn [reg_get reg_bits]; amk; eexists; (split; [reflexivity|]); try aokv; apply okv_const; lia.
Qed.

(* AArch64Register::set *)
Lemma reg_set_ok r v vb : okv v vb -> 1 <= vb <= 64 -> exists op, reg_set r v = Ok op /\ wf_op 64 op = true.
Proof.
  intros (W & D & B) Hv. unfold reg_set. rewrite B.
  replace (64 <? vb) with false by (symmetry; apply Z.ltb_ge; lia).
  destruct (Z.eqb_spec vb 64) as [->|Hne].
  - eexists. split; [reflexivity|]. cbn [wf_op]. rewrite W, B. destruct r; reflexivity.
  - rewrite mk_wide_ok by (first [left; reflexivity | lia]). cbn [unwrap bind].
    eexists. split; [reflexivity|]. cbn [wf_op wf_expr e_bits]. rewrite W, B.
    replace (vb <? 64) with true by (symmetry; apply Z.ltb_lt; lia). destruct r; reflexivity.
Qed.

(* fn shift: LSL/LSR/ASR/ROR need a value of the output width; an extension of length len needs a value no wider than
   the output, and of exactly the output width when nothing is extended (len >= out_bits) *)
Definition sh_len (sh : bshift) : option Z :=
  match sh with
  | BSXTB _ | BUXTB _ => Some 8 | BSXTH _ | BUXTH _ => Some 16 | BSXTW _ | BUXTW _ => Some 32 | BSXTX _ | BUXTX _ => Some 64
  | _ => None
  end.
Definition shift_pre (vb : Z) (sh : bshift) (ob : Z) : Prop :=
  match sh_len sh with
  | None => vb = ob
  | Some len => vb <= ob /\ (ob <= len -> vb = ob)
  end.

Lemma shift_ok v sh ob vb : okv v vb -> (vb = 32 \/ vb = 64) -> (ob = 32 \/ ob = 64) -> shift_pre vb sh ob ->
  exists e, shift_ v sh ob = Ok e /\ okv e ob.
Proof.
  intros (W & D & B) Hvb Hob Hpre. unfold shift_pre in Hpre.
  destruct sh; cbn [sh_len] in Hpre; destruct Hvb as [-> | ->], Hob as [-> | ->]; try lia;
    unfold shift_, lsl_, lsr_, asr_, ror_, sra; rewrite ?B; abits;
    cbn [negb Z.eqb Z.leb Z.ltb Pos.eqb Pos.compare Pos.compare_cont Z.compare bind unwrap];
    repeat (amk1; cbn [bind unwrap]; abits);
    (eexists; split; [reflexivity|]); aokv.
Qed.

Lemma reg_bits_cases r : reg_bits r = 32 \/ reg_bits r = 64.
Proof. destruct r; cbn; auto. Qed.

(* fn operand_load *)
Definition loads (o : opnd) (ob w : Z) : Prop := exists e, operand_load o ob = Ok e /\ okv e w.

Lemma load_reg r ob : loads (OReg r) ob (reg_bits r).
Proof. apply reg_get_ok. Qed.
Lemma load_imm sf v ob : loads (imm_opnd sf v None) ob (dsize sf).
Proof.
  destruct sf; cbn [imm_opnd operand_load maybe_shift dsize]; eexists; (split; [reflexivity|]); apply okv_const; lia.
Qed.
Lemma load_imm_lsl12 sf v : loads (imm_opnd sf v (Some (BLSL 12))) (dsize sf) (dsize sf).
Proof.
  destruct sf; cbn [imm_opnd operand_load maybe_shift dsize]; eapply shift_ok; try (apply okv_const; lia); auto; reflexivity.
Qed.
Lemma load_shiftreg r sh ob : (ob = 32 \/ ob = 64) -> shift_pre (reg_bits r) sh ob -> loads (OShiftReg r sh) ob ob.
Proof.
  intros Hob Hpre. unfold loads. cbn [operand_load]. destruct (reg_get_ok r) as (e & E & He). rewrite E. cbn [bind].
  eapply shift_ok; [exact He|apply reg_bits_cases|exact Hob|exact Hpre].
Qed.
Lemma load_label v ob : loads (OLabel v) ob 64.
Proof. eexists. split; [reflexivity|]. apply okv_const. lia. Qed.

(* fn mem_operand_address + MemOperandSideeffect::apply *)
Inductive mem_shape : opnd -> Prop :=
| MS_reg r : reg_bits r = 64 -> mem_shape (OMemReg r)
| MS_off r off : reg_bits r = 64 -> mem_shape (OMemOffset r off)
| MS_pre r imm : reg_bits r = 64 -> mem_shape (OMemPreIdx r imm)
| MS_post r imm : reg_bits r = 64 -> mem_shape (OMemPostIdxImm r imm)
| MS_ext r ro sh : reg_bits r = 64 ->
    match sh with None => reg_bits ro = 64 | Some s => shift_pre (reg_bits ro) s 64 end -> mem_shape (OMemExt r ro sh).

Definition ops_ok (ops : list operation) : Prop := forallb (wf_op 64) ops = true.

Lemma maddr_ok o : mem_shape o ->
  exists a se wb, mem_operand_address o = Ok (a, se) /\ okv a 64 /\ sideeffect se = Ok wb /\ ops_ok wb.
Proof.
  intros H. destruct H as [r Hr|r off Hr|r imm Hr|r imm Hr|r ro sh Hr Hsh]; cbn [mem_operand_address];
    destruct (reg_get_ok r) as (b & Eb & Hb); rewrite Eb; cbn [bind]; rewrite Hr in Hb.
  - exists b, None, []. repeat split; try apply Hb; reflexivity.
  - destruct Hb as (W & D & B). amk. eexists _, None, []. split; [reflexivity|]. split; [aokv|]. split; reflexivity.
  - pose proof Hb as (W & D & B). amk.
    assert (Ha : okv (EBin Add b (expr_const imm 64)) 64) by aokv.
    destruct (reg_set_ok r _ 64 Ha ltac:(lia)) as (op & Eop & Wop).
    eexists _, _, [op]. split; [reflexivity|]. split; [exact Ha|]. cbn [sideeffect]. rewrite Eop. cbn [bind].
    split; [reflexivity|]. unfold ops_ok. cbn [forallb]. rewrite Wop. reflexivity.
  - pose proof Hb as (W & D & B). amk.
    assert (Ha : okv (EBin Add b (expr_const imm 64)) 64) by aokv.
    destruct (reg_set_ok r _ 64 Ha ltac:(lia)) as (op & Eop & Wop).
    eexists _, _, [op]. split; [reflexivity|]. split; [exact Hb|]. cbn [sideeffect]. rewrite Eop. cbn [bind].
    split; [reflexivity|]. unfold ops_ok. cbn [forallb]. rewrite Wop. reflexivity.
  - destruct (reg_get_ok ro) as (o0 & Eo & Ho). rewrite Eo. cbn [bind].
    assert (Ho1 : exists o1, (match sh with Some s => shift_ o0 s 64 | None => Ok o0 end) = Ok o1 /\ okv o1 64).
    { destruct sh as [s|].
      - eapply shift_ok; [exact Ho|apply reg_bits_cases|auto|exact Hsh].
      - rewrite Hsh in Ho. exists o0. split; [reflexivity|exact Ho]. }
    destruct Ho1 as (o1 & E1 & H1). rewrite E1. cbn [bind]. destruct Hb as (W & D & B). destruct H1 as (W1 & D1 & B1). amk.
    eexists _, None, []. split; [reflexivity|]. split; [aokv|]. split; reflexivity.
Qed.

(* fn operand_store on a register operand *)
Lemma store_ok r v vb : okv v vb -> 1 <= vb <= 64 -> exists op, operand_store (OReg r) v = Ok op /\ wf_op 64 op = true.
Proof. apply reg_set_ok. Qed.

Ltac use L := let x := fresh "x" in let E := fresh "E" in let H := fresh "H" in
              destruct L as (x & E & H); rewrite E; cbn [bind unwrap].
Ltac lists := cbn [nth_op nth_error res_of_option bind operand_storing_width].

Lemma okv_bits e w : okv e w -> e_bits e = w. Proof. intros (_ & _ & H). exact H. Qed.
Lemma ops_cons o t : wf_op 64 o = true -> ops_ok t -> ops_ok (o :: t).
Proof. intros H1 H2. unfold ops_ok in *. cbn [forallb]. rewrite H1, H2. reflexivity. Qed.
Lemma ops_app a b : ops_ok a -> ops_ok b -> ops_ok (a ++ b).
Proof. intros H1 H2. unfold ops_ok in *. rewrite forallb_app, H1, H2. reflexivity. Qed.
Lemma ops_nil : ops_ok []. Proof. reflexivity. Qed.

(* fn add / fn sub *)
Lemma addsub_ok a d o1 o2 : loads o1 (reg_bits d) (reg_bits d) -> loads o2 (reg_bits d) (reg_bits d) ->
  exists ops, b_addsub a [OReg d; o1; o2] = Ok (ops, []) /\ ops_ok ops.
Proof.
  intros L1 L2. unfold b_addsub. lists. use L1. use L2. destruct H as (W1 & D1 & B1), H0 as (W2 & D2 & B2).
  rewrite mk_bin_ok by congruence. cbn [bind unwrap].
  assert (Hs : okv (EBin (arith_op a) x x0) (reg_bits d)) by (destruct a; aokv).
  destruct (store_ok d _ _ Hs) as (op & Eop & Wop); [destruct (reg_bits_cases d); lia|].
  rewrite Eop. cbn [bind]. eexists. split; [reflexivity|]. apply ops_cons; [exact Wop|apply ops_nil].
Qed.

(* fn adds / fn subs *)
Lemma addsubs_ok a d o1 o2 : loads o1 (reg_bits d) (reg_bits d) -> loads o2 (reg_bits d) (reg_bits d) ->
  exists ops, b_addsubs a [OReg d; o1; o2] = Ok (ops, []) /\ ops_ok ops.
Proof.
  intros L1 L2. unfold b_addsubs. lists. use L1. use L2. destruct H as (W1 & D1 & B1), H0 as (W2 & D2 & B2).
  assert (Hc : is_cmp (arith_op a) = false) by (destruct a; reflexivity).
  assert (Hd : is_div (arith_op a) = false) by (destruct a; reflexivity).
  destruct (reg_bits_cases d) as [Hb | Hb]; rewrite Hb in *; amk;
    (assert (Hs : okv (EBin (arith_op a) x x0) (reg_bits d)) by (rewrite Hb; aokv));
    (destruct (store_ok d _ _ Hs) as (op & Eop & Wop); [lia|]); rewrite Eop; cbn [bind];
    (eexists; split; [reflexivity|]); unfold ops_ok;
    cbn [forallb wf_op wf_expr e_bits is_cmp sbits s_n s_z s_c s_v]; aleaves; rewrite Wop; reflexivity.
Qed.

(* fn mov *)
Lemma mov_ok d o1 w : loads o1 (reg_bits d) w -> 1 <= w <= 64 ->
  exists ops, b_mov [OReg d; o1] = Ok (ops, []) /\ ops_ok ops.
Proof.
  intros L1 Hw. unfold b_mov. lists. use L1. destruct (store_ok d _ _ H Hw) as (op & Eop & Wop). rewrite Eop. cbn [bind].
  eexists. split; [reflexivity|]. apply ops_cons; [exact Wop|apply ops_nil].
Qed.

Lemma okv_temp0 w : 1 <= w -> okv (EScalar (s_temp0 w)) w.
Proof. intros H. split; [cbn; apply Z.leb_le; exact H|split; reflexivity]. Qed.
Lemma okv_temp1 w : 1 <= w -> okv (EScalar (s_temp1 w)) w.
Proof. intros H. split; [cbn; apply Z.leb_le; exact H|split; reflexivity]. Qed.

Definition memw (w : Z) : Prop := w = 8 \/ w = 16 \/ w = 32 \/ w = 64.
Lemma memw_ok w : memw w -> mem_w w = true /\ 1 <= w <= 64.
Proof. intros [-> | [-> | [-> | ->]]]; split; try reflexivity; lia. Qed.

(* fn ldr / ldrb / ldrh *)
Lemma ldr_ok fixed t o1 : mem_shape o1 -> memw (match fixed with Some b => b | None => reg_bits t end) ->
  exists ops, b_ldr fixed [OReg t; o1] = Ok (ops, []) /\ ops_ok ops.
Proof.
  intros Hm Hw. unfold b_ldr. lists. destruct (maddr_ok o1 Hm) as (a & se & wb & Ea & Ha & Ese & Hwb). rewrite Ea. cbn [bind fst snd].
  set (bits := match fixed with Some b => b | None => reg_bits t end) in *.
  replace (match fixed with Some b => Ok b | None => Ok (reg_bits t) end) with (Ok bits : res Z) by (destruct fixed; reflexivity).
  cbn [bind]. destruct (memw_ok bits Hw) as (Mw & Rw).
  destruct (store_ok t _ _ (okv_temp0 bits ltac:(lia)) Rw) as (op & Eop & Wop). rewrite Eop, Ese. cbn [bind].
  eexists. split; [reflexivity|]. destruct Ha as (Wa & Da & Ba).
  apply ops_cons; [cbn [wf_op s_temp0 sbits]; rewrite Wa, Ba, Mw; reflexivity|]. apply ops_cons; [exact Wop|exact Hwb].
Qed.

(* fn ldrsb / ldrsh / ldrsw *)
Lemma ldrs_ok width t o1 : mem_shape o1 -> (width = 8 \/ width = 16 \/ width = 32) -> width < reg_bits t ->
  exists ops, b_ldrs width [OReg t; o1] = Ok (ops, []) /\ ops_ok ops.
Proof.
  intros Hm Hw Hlt. unfold b_ldrs. lists.
  assert (Hchk : (width =? 32) && negb (reg_bits t =? 64) = false).
  { destruct (reg_bits_cases t) as [Hb | Hb]; rewrite Hb in *; destruct Hw as [-> | [-> | ->]]; try reflexivity; lia. }
  rewrite Hchk. cbn [bind]. destruct (maddr_ok o1 Hm) as (a & se & wb & Ea & Ha & Ese & Hwb). rewrite Ea. cbn [bind fst snd].
  assert (Mw : mem_w width = true /\ 1 <= width) by (destruct Hw as [-> | [-> | ->]]; split; try reflexivity; lia).
  destruct Mw as (Mw & W1).
  rewrite mk_wide_ok by (first [right; reflexivity | cbn [e_bits s_temp0 sbits]; lia]). cbn [bind unwrap].
  assert (He : okv (EExt Sext (reg_bits t) (EScalar (s_temp0 width))) (reg_bits t)).
  { split; [|split; reflexivity]. cbn [wf_expr e_bits s_temp0 sbits].
    replace (1 <=? width) with true by (symmetry; apply Z.leb_le; lia).
    replace (width <? reg_bits t) with true by (symmetry; apply Z.ltb_lt; lia). reflexivity. }
  destruct (store_ok t _ _ He) as (op & Eop & Wop); [destruct (reg_bits_cases t); lia|]. rewrite Eop, Ese. cbn [bind].
  eexists. split; [reflexivity|]. destruct Ha as (Wa & Da & Ba).
  apply ops_cons; [cbn [wf_op s_temp0 sbits]; rewrite Wa, Ba, Mw; reflexivity|]. apply ops_cons; [exact Wop|exact Hwb].
Qed.

(* fn ldp *)
Lemma ldp_ok t t2 o2 : mem_shape o2 -> reg_bits t2 = reg_bits t ->
  exists ops, b_ldp [OReg t; OReg t2; o2] = Ok (ops, []) /\ ops_ok ops.
Proof.
  intros Hm Ht. unfold b_ldp. lists. destruct (maddr_ok o2 Hm) as (a & se & wb & Ea & Ha & Ese & Hwb). rewrite Ea. cbn [bind fst snd].
  destruct Ha as (Wa & Da & Ba). amk.
  assert (Hw : mem_w (reg_bits t) = true /\ 1 <= reg_bits t <= 64) by (destruct (reg_bits_cases t) as [-> | ->]; split; try reflexivity; lia).
  destruct Hw as (Mw & Rw).
  destruct (store_ok t _ _ (okv_temp0 (reg_bits t) ltac:(lia)) Rw) as (op0 & E0 & W0). rewrite E0. cbn [bind].
  destruct (store_ok t2 _ _ (okv_temp1 (reg_bits t) ltac:(lia)) Rw) as (op1 & E1 & W1). rewrite E1, Ese. cbn [bind].
  eexists. split; [reflexivity|].
  apply ops_cons; [cbn [wf_op s_temp0 sbits]; rewrite Wa, Ba, Mw; reflexivity|].
  apply ops_cons; [cbn [wf_op wf_expr e_bits is_cmp s_temp1 sbits]; aleaves; rewrite Mw; reflexivity|].
  apply ops_cons; [exact W0|]. apply ops_cons; [exact W1|exact Hwb].
Qed.

(* fn ldpsw *)
Lemma ldpsw_ok t t2 o2 : mem_shape o2 -> reg_bits t = 64 -> reg_bits t2 = 64 ->
  exists ops, b_ldpsw [OReg t; OReg t2; o2] = Ok (ops, []) /\ ops_ok ops.
Proof.
  intros Hm Ht Ht2. unfold b_ldpsw. lists. destruct (maddr_ok o2 Hm) as (a & se & wb & Ea & Ha & Ese & Hwb). rewrite Ea. cbn [bind fst snd].
  destruct Ha as (Wa & Da & Ba). amk.
  assert (H0 : okv (EExt Sext 64 (EScalar (s_temp0 32))) 64) by (split; [|split]; reflexivity).
  assert (H1 : okv (EExt Sext 64 (EScalar (s_temp1 32))) 64) by (split; [|split]; reflexivity).
  destruct (store_ok t _ _ H0 ltac:(lia)) as (op0 & E0 & W0). rewrite E0. cbn [bind]. amk.
  destruct (store_ok t2 _ _ H1 ltac:(lia)) as (op1 & E1 & W1). rewrite E1, Ese. cbn [bind].
  eexists. split; [reflexivity|].
  apply ops_cons; [cbn [wf_op s_temp0 sbits]; rewrite Wa, Ba; reflexivity|].
  apply ops_cons; [cbn [wf_op wf_expr e_bits is_cmp s_temp1 sbits]; aleaves; reflexivity|].
  apply ops_cons; [exact W0|]. apply ops_cons; [exact W1|exact Hwb].
Qed.

(* fn str / strb / strh *)
Lemma str_ok trunc t o1 : mem_shape o1 ->
  match trunc with None => True | Some w => (w = 8 \/ w = 16) /\ reg_bits t = 32 end ->
  exists ops, b_str trunc [OReg t; o1] = Ok (ops, []) /\ ops_ok ops.
Proof.
  intros Hm Ht. unfold b_str. lists. destruct (reg_get_ok t) as (v & Ev & Hv).
  destruct (maddr_ok o1 Hm) as (a & se & wb & Ea & (Wa & Da & Ba) & Ese & Hwb).
  destruct trunc as [w|]; cbn [operand_load]; rewrite Ev; cbn [bind]; rewrite Ea; cbn [bind fst snd].
  - destruct Ht as (Hw & Hb). rewrite Hb in Hv. destruct Hv as (Wv & Dv & Bv).
    destruct Hw as [-> | ->]; amk; rewrite Ese; cbn [bind]; (eexists; split; [reflexivity|]);
      (apply ops_app; [|exact Hwb]); (apply ops_cons; [|apply ops_nil]);
      cbn [wf_op wf_expr e_bits]; aleaves; reflexivity.
  - rewrite Ese. cbn [bind]. eexists; split; [reflexivity|]. apply ops_app; [|exact Hwb]. apply ops_cons; [|apply ops_nil].
    destruct Hv as (Wv & Dv & Bv). cbn [wf_op]. aleaves. destruct (reg_bits_cases t) as [-> | ->]; reflexivity.
Qed.

(* fn stp *)
Lemma stp_ok t t2 o2 : mem_shape o2 -> reg_bits t2 = reg_bits t ->
  exists ops, b_stp [OReg t; OReg t2; o2] = Ok (ops, []) /\ ops_ok ops.
Proof.
  intros Hm Ht. unfold b_stp. lists. cbn [operand_load].
  destruct (reg_get_ok t) as (v0 & E0 & (W0 & D0 & B0)). rewrite E0. cbn [bind].
  destruct (reg_get_ok t2) as (v1 & E1 & (W1 & D1 & B1)). rewrite E1. cbn [bind].
  destruct (maddr_ok o2 Hm) as (a & se & wb & Ea & (Wa & Da & Ba) & Ese & Hwb). rewrite Ea. cbn [bind fst snd]. amk.
  rewrite Ese. cbn [bind]. eexists; split; [reflexivity|]. apply ops_app; [|exact Hwb].
  rewrite Ht in B1.
  apply ops_cons; [cbn [wf_op]; aleaves; destruct (reg_bits_cases t) as [-> | ->]; reflexivity|].
  apply ops_cons; [|apply ops_nil]. cbn [wf_op wf_expr e_bits is_cmp]. aleaves. destruct (reg_bits_cases t) as [-> | ->]; reflexivity.
Qed.

(* ------------------------------------------------------------------ successors *)
Definition compl (g1 g2 : expr) : Prop :=
  forall en, env_ok en (guards_scalars [Some g1; Some g2]) ->
  exists b : bool, guard_holds en (Some g1) b /\ guard_holds en (Some g2) (negb b).

Lemma compl_sym g1 g2 : compl g1 g2 -> compl g2 g1.
Proof.
  intros H en He. destruct (H en) as (b & H1 & H2).
  - eapply env_ok_sub; [exact He|]. intros s Hs. cbn [guards_scalars flat_map] in *. rewrite app_nil_r in *.
    apply in_app_or in Hs. apply in_or_app. tauto.
  - exists (negb b). rewrite negb_involutive. split; assumption.
Qed.
Lemma compl_ne1 c : wf_expr c = true -> div_free c = true -> e_bits c = 1 -> compl c (EBin Cmpneq c (expr_const 1 1)).
Proof.
  intros W D B en He. destruct (total1_of en c W D B) as (b & Hb).
  - eapply env_ok_sub; [exact He|]. intros s Hs. cbn [guards_scalars flat_map]. apply in_or_app. left. exact Hs.
  - exists b. split; [exact Hb|apply holds_ne1; exact Hb].
Qed.
Lemma compl_eq_neq a b : okv a (e_bits b) -> wf_expr b = true -> div_free b = true -> compl (EBin Cmpeq a b) (EBin Cmpneq a b).
Proof.
  intros (Wa & Da & Ba) Wb Db en He. apply holds_eq_neq; try assumption.
  eapply env_ok_sub; [exact He|]. intros s Hs. cbn [guards_scalars flat_map scalars]. apply in_or_app. left. exact Hs.
Qed.

Lemma msucc_single t : good_succs (merge_successors [(t, None)]).
Proof.
  split; [reflexivity|]. intros _. split; [intros en _; apply one_none|]. cbn. constructor; [intros []|constructor].
Qed.
Lemma msucc_pair t u g1 g2 : wf_expr g1 = true -> wf_expr g2 = true -> e_bits g1 = 1 -> e_bits g2 = 1 -> compl g1 g2 ->
  good_succs (merge_successors [(t, Some g1); (u, Some g2)]).
Proof.
  intros W1 W2 B1 B2 Hc. unfold merge_successors. cbn [fold_left merge_into fst snd].
  destruct (t =? u) eqn:E.
  - rewrite mk_bin_ok by congruence. split.
    + cbn [forallb snd wf_guard wf_expr e_bits is_cmp]. rewrite W1, W2, B1, B2. reflexivity.
    + intros _. split; [|cbn; constructor; [intros []|constructor]].
      intros en He. cbn [map snd]. apply det_merged; [exact Hc|exact He].
  - split.
    + cbn [forallb snd wf_guard]. rewrite W1, W2, B1, B2. reflexivity.
    + intros _. split.
      * intros en He. cbn [map snd] in *. destruct (Hc en He) as (b & H1 & H2). eapply one_of_two; eassumption.
      * cbn [map fst]. apply Z.eqb_neq in E. constructor; [intros [H | []]; congruence|]. constructor; [intros []|constructor].
Qed.

(* ------------------------------------------------------------------ branches *)
Transparent expr_const.
Lemma const_target_label v : const_target (OLabel v) = Ok (v mod 2 ^ 64).
Proof.
  unfold const_target. cbn [operand_load bind]. unfold expr_const. rewrite new_big_spec by lia. cbn [cval]. unfold U.
  pose proof (Z.mod_pos_bound v (2 ^ 64) ltac:(lia)) as Hb.
  replace (v mod 2 ^ 64 <? 2 ^ 64) with true by (symmetry; apply Z.ltb_lt; lia). reflexivity.
Qed.
Lemma label_is_const v : expr_const v 64 = EConst (new_big v 64). Proof. reflexivity. Qed.
Opaque expr_const.

Definition term_ok (r : res built) : Prop :=
  match r with
  | Panic => False
  | Err _ => True
  | Ok b => ops_ok (fst b) /\ good_succs (merge_successors (snd b))
  end.

Lemma b_ok v : term_ok (b_b [OLabel v]).
Proof. unfold b_b. lists. rewrite const_target_label. cbn [bind term_ok fst snd]. split; [apply ops_nil|apply msucc_single]. Qed.

Lemma okv_flag s : sbits s = 1 -> okv (EScalar s) 1.
Proof. intros H. split; [cbn; rewrite H; reflexivity|split; [reflexivity|exact H]]. Qed.

Lemma bcc_ok addr cond v : 0 <= cond < 16 -> term_ok (b_bcc addr cond [OLabel v]).
Proof.
  intros Hc. assert (Hcases : cond = 0 \/ cond = 1 \/ cond = 2 \/ cond = 3 \/ cond = 4 \/ cond = 5 \/ cond = 6 \/ cond = 7 \/
                              cond = 8 \/ cond = 9 \/ cond = 10 \/ cond = 11 \/ cond = 12 \/ cond = 13 \/ cond = 14 \/ cond = 15) by lia.
  repeat destruct Hcases as [-> | Hcases]; try subst cond; unfold b_bcc;
    cbn [Z.land Pos.land Z.eqb Pos.eqb Z.div Z.div_eucl Z.pos_div_eucl Z.leb Z.ltb Z.compare Pos.compare Pos.compare_cont
         Z.add Z.sub Z.mul Pos.add Pos.mul Pos.succ Pos.pred_double Z.opp Z.pos_sub Z.succ_double Z.pred_double Z.double fst snd andb negb];
    try apply b_ok; lists; rewrite const_target_label; cbn [bind];
    repeat (amk1; cbn [bind unwrap]); cbn [term_ok fst snd]; (split; [apply ops_nil|]);
    (apply msucc_pair; [..|first [apply compl_ne1 | apply compl_sym; apply compl_ne1]]);
    cbn [wf_expr div_free is_div negb e_bits is_cmp sbits s_n s_z s_c s_v]; aleaves; reflexivity.
Qed.

(* a non-terminating builder result: the block falls through *)
Definition plain_ok (r : res built) : Prop :=
  match r with Panic => False | Err _ => True | Ok b => ops_ok (fst b) /\ snd b = [] end.

Lemma succ_nil_a : good_succs (merge_successors []).
Proof. split; [reflexivity|]. intros H. exfalso. apply H. reflexivity. Qed.

Lemma br_ok r : reg_bits r = 64 -> term_ok (b_br [OReg r]).
Proof.
  intros Hr. unfold b_br. lists. cbn [operand_load]. destruct (reg_get_ok r) as (e & E & (W & D & B)). rewrite E. cbn [bind term_ok fst snd].
  split; [|apply succ_nil_a]. apply ops_cons; [|apply ops_nil]. cbn [wf_op]. rewrite W, B, Hr. reflexivity.
Qed.

Lemma ret_ok ops : ops = [] \/ (exists r, ops = [OReg r] /\ reg_bits r = 64) -> term_ok (b_ret ops).
Proof.
  intros [-> | (r & -> & Hr)]; unfold b_ret.
  - cbn [term_ok fst snd]. split; [reflexivity|apply succ_nil_a].
  - cbn [operand_load]. destruct (reg_get_ok r) as (e & E & (W & D & B)). rewrite E. cbn [bind term_ok fst snd].
    split; [|apply succ_nil_a]. apply ops_cons; [|apply ops_nil]. cbn [wf_op]. rewrite W, B, Hr. reflexivity.
Qed.

(* fn bl / blr (non-terminating: the block continues after the call) *)
Lemma bl_ok addr o : (exists v, o = OLabel v) \/ (exists r, o = OReg r /\ reg_bits r = 64) -> plain_ok (b_bl addr [o]).
Proof.
  intros [(v & ->) | (r & -> & Hr)]; unfold b_bl; lists; cbn [operand_load].
  - rewrite label_is_const. cbn [bind plain_ok fst snd]. split; [|reflexivity].
    change (EConst (new_big v 64)) with (expr_const v 64).
    unfold ops_ok. cbn [forallb wf_op wf_expr e_bits sx sbits]. aleaves. reflexivity.
  - destruct (reg_get_ok r) as (e & E & (W & D & B)). rewrite E. cbn [bind]. rewrite Hr in B.
    assert (Hm : forall X Y : list operation, ops_ok X -> ops_ok Y ->
                 plain_ok (match e with EConst _ => Ok (X, []) | _ => Ok (Y, []) end)).
    { intros X Y HX HY. destruct e; cbn [plain_ok fst snd]; split; auto. }
    apply Hm; unfold ops_ok; cbn [forallb wf_op wf_expr e_bits s_temp0 sx sbits]; aleaves; rewrite ?W, ?B; reflexivity.
Qed.

(* fn cbz_cbnz_tbz_tbnz *)
Lemma cb_ok addr biz r v : term_ok (b_cbtb addr biz false [OReg r; OLabel v]).
Proof.
  unfold b_cbtb. lists. rewrite const_target_label. lists. cbn [operand_load].
  destruct (reg_get_ok r) as (e & E & (W & D & B)). rewrite E. cbn [bind]. amk.
  assert (Hc : compl (EBin Cmpeq e (expr_const 0 (reg_bits r))) (EBin Cmpneq e (expr_const 0 (reg_bits r)))).
  { apply compl_eq_neq; [split; [exact W|split; [exact D|rewrite expr_const_bits; exact B]]| |reflexivity].
    apply wf_const. destruct (reg_bits_cases r); lia. }
  assert (Wc : wf_expr (expr_const 0 (reg_bits r)) = true) by (apply wf_const; destruct (reg_bits_cases r); lia).
  destruct biz; cbn [term_ok fst snd]; (split; [apply ops_nil|]);
    (apply msucc_pair; [..|first [exact Hc | apply compl_sym; exact Hc]]);
    cbn [wf_expr e_bits is_cmp]; rewrite ?W, ?Wc, ?B, ?expr_const_bits, ?Z.eqb_refl; reflexivity.
Qed.
Lemma tb_ok addr biz r bit v : term_ok (b_cbtb addr biz true [OReg r; OImm32 bit None; OLabel v]).
Proof.
  unfold b_cbtb. lists. rewrite const_target_label. lists. cbn [operand_load].
  destruct (reg_get_ok r) as (e & E & (W & D & B)). rewrite E. cbn [bind operand_imm_u64].
  destruct (reg_bits r <=? bit); [exact I|]. amk.
  set (m := EBin And e (expr_const (2 ^ bit) (reg_bits r))).
  assert (Wk : forall k, wf_expr (expr_const k (reg_bits r)) = true) by (intros k; apply wf_const; destruct (reg_bits_cases r); lia).
  assert (Hm : okv m (reg_bits r)).
  { split; [|split]; unfold m; cbn [wf_expr div_free is_div negb e_bits is_cmp]; rewrite ?W, ?D, ?Wk, ?B, ?expr_const_bits, ?Z.eqb_refl; reflexivity. }
  assert (Hc : compl (EBin Cmpeq m (expr_const 0 (reg_bits r))) (EBin Cmpneq m (expr_const 0 (reg_bits r)))).
  { apply compl_eq_neq; [rewrite expr_const_bits; exact Hm|apply Wk|reflexivity]. }
  destruct Hm as (Wm & Dm & Bm).
  destruct biz; cbn [term_ok fst snd]; (split; [apply ops_nil|]);
    (apply msucc_pair; [..|first [exact Hc | apply compl_sym; exact Hc]]);
    cbn [wf_expr e_bits is_cmp]; rewrite ?Wm, ?Wk, ?Bm, ?expr_const_bits, ?Z.eqb_refl; reflexivity.
Qed.

(* ------------------------------------------------------------------ SIMD&FP operands (V registers, 128 bits) *)
Lemma okv_vreg n : okv (EScalar (s_vreg n)) 128.
Proof. split; [|split]; reflexivity. Qed.

(* the B/H/S/D/Q view of a V register *)
Lemma load_vreg bits n ob : 1 <= bits <= 128 -> loads (OVReg bits n) ob bits.
Proof.
  intros Hb. unfold loads. cbn [operand_load]. destruct (Z.eqb_spec bits 128) as [-> | Hne].
  - eexists. split; [reflexivity|apply okv_vreg].
  - rewrite mk_trun_ok by (cbn [e_bits s_vreg sbits]; lia). cbn [unwrap]. eexists. split; [reflexivity|].
    split; [|split; reflexivity]. cbn [wf_expr e_bits s_vreg sbits].
    replace (1 <=? bits) with true by (symmetry; apply Z.leb_le; lia).
    replace (bits <? 128) with true by (symmetry; apply Z.ltb_lt; lia). reflexivity.
Qed.
(* an element / arrangement view *)
Lemma load_varr n shift width ix ob : 1 <= width <= 128 -> loads (OVArr n shift width ix) ob width.
Proof.
  intros Hw. unfold loads. cbn [operand_load]. rewrite mk_bin_ok by reflexivity. cbn [unwrap bind].
  assert (Hv : okv (EBin Shr (EScalar (s_vreg n)) (expr_const shift 128)) 128).
  { split; [|split]; cbn [wf_expr div_free is_div negb e_bits is_cmp s_vreg sbits]; aleaves; reflexivity. }
  set (v := EBin Shr (EScalar (s_vreg n)) (expr_const shift 128)) in *. clearbody v.
  destruct (Z.eqb_spec width 128) as [-> | Hne].
  - eexists. split; [reflexivity|exact Hv].
  - destruct Hv as (W & D & B). rewrite mk_trun_ok by (rewrite B; lia). cbn [unwrap]. eexists. split; [reflexivity|].
    split; [|split]; cbn [wf_expr div_free e_bits]; rewrite ?W, ?D, ?B.
    + replace (1 <=? width) with true by (symmetry; apply Z.leb_le; lia).
      replace (width <? 128) with true by (symmetry; apply Z.ltb_lt; lia). reflexivity.
    + reflexivity.
    + reflexivity.
Qed.

(* a destination: its storing width w, and any value of width 1..maxw can be stored to it *)
Definition dest (d : opnd) (w maxw : Z) : Prop :=
  operand_storing_width d = Ok w /\ 1 <= w <= maxw /\
  forall v vb, okv v vb -> 1 <= vb <= maxw -> exists op, operand_store d v = Ok op /\ wf_op 64 op = true.

Lemma dest_reg r : dest (OReg r) (reg_bits r) 64.
Proof. split; [reflexivity|]. split; [destruct (reg_bits_cases r); lia|]. intros v vb Hv Hr. exact (reg_set_ok r v vb Hv Hr). Qed.

(* writing a value of width <= 128 to a full V register *)
Lemma vset_ok n v vb : okv v vb -> 1 <= vb <= 128 ->
  exists op, (if 128 <? e_bits v then Panic
              else if e_bits v =? 128 then Ok (OAssign (s_vreg n) v)
              else z <- unwrap (mk_ext Zext 128 v) ;; Ok (OAssign (s_vreg n) z)) = Ok op /\ wf_op 64 op = true.
Proof.
  intros (W & D & B) Hv. rewrite B. replace (128 <? vb) with false by (symmetry; apply Z.ltb_ge; lia).
  destruct (Z.eqb_spec vb 128) as [-> | Hne].
  - eexists. split; [reflexivity|]. cbn [wf_op s_vreg sbits]. rewrite W, B. reflexivity.
  - rewrite mk_wide_ok by (first [left; reflexivity | lia]). cbn [unwrap bind]. eexists. split; [reflexivity|].
    cbn [wf_op wf_expr e_bits s_vreg sbits]. rewrite W, B.
    replace (vb <? 128) with true by (symmetry; apply Z.ltb_lt; lia). reflexivity.
Qed.
Lemma dest_vreg bits n : 1 <= bits <= 128 -> dest (OVReg bits n) bits 128.
Proof. intros Hb. split; [reflexivity|]. split; [exact Hb|]. intros v vb Hv Hr. cbn [operand_store]. exact (vset_ok n v vb Hv Hr). Qed.

(* resize_zext(128, e) for e no wider than 128 bits *)
Lemma resize128_ok e eb : okv e eb -> 1 <= eb <= 128 ->
  exists r, (if e_bits e =? 128 then Ok e else if e_bits e <? 128 then unwrap (mk_ext Zext 128 e) else unwrap (mk_ext Trun 128 e)) = Ok r
            /\ okv r 128.
Proof.
  intros (W & D & B) He. rewrite B. destruct (Z.eqb_spec eb 128) as [-> | Hne].
  - exists e. split; [reflexivity|]. split; [exact W|split; [exact D|exact B]].
  - replace (eb <? 128) with true by (symmetry; apply Z.ltb_lt; lia).
    rewrite mk_wide_ok by (first [left; reflexivity | lia]). cbn [unwrap]. eexists. split; [reflexivity|].
    split; [|split]; cbn [wf_expr div_free e_bits]; rewrite ?W, ?D, ?B; try reflexivity.
    replace (eb <? 128) with true by (symmetry; apply Z.ltb_lt; lia). reflexivity.
Qed.

(* an element of a V register: shift + width within the 128 bits *)
Lemma dest_varr n shift width ix : 0 <= shift -> 1 <= width -> shift + width <= 128 -> dest (OVArr n shift width ix) width 128.
Proof.
  intros Hs Hw Hsw. split; [reflexivity|]. split; [lia|]. intros v vb Hv Hvb. cbn [operand_store].
  assert (Plain : exists op, (r <- (if e_bits v =? 128 then Ok v else if e_bits v <? 128 then unwrap (mk_ext Zext 128 v) else unwrap (mk_ext Trun 128 v)) ;;
                             (if 128 <? e_bits r then Panic else if e_bits r =? 128 then Ok (OAssign (s_vreg n) r)
                              else z <- unwrap (mk_ext Zext 128 r) ;; Ok (OAssign (s_vreg n) z))) = Ok op /\ wf_op 64 op = true).
  { destruct (resize128_ok v vb Hv Hvb) as (r & Er & Hr). rewrite Er. cbn [bind]. apply (vset_ok n r 128 Hr). lia. }
  destruct ix; cbn [negb]; [|exact Plain].
  (* the masked old value *)
  set (vreg := EScalar (s_vreg n)).
  assert (Hlow : 0 < shift -> okv (EExt Zext 128 (EExt Trun shift vreg)) 128).
  { intros H0. split; [|split; reflexivity]. cbn [wf_expr e_bits vreg s_vreg sbits].
    replace (1 <=? shift) with true by (symmetry; apply Z.leb_le; lia).
    replace (shift <? 128) with true by (symmetry; apply Z.ltb_lt; lia). reflexivity. }
  assert (Hup : okv (EBin Shl (EBin Shr vreg (expr_const (shift + width) 128)) (expr_const (shift + width) 128)) 128).
  { split; [|split]; cbn [wf_expr div_free is_div negb e_bits is_cmp vreg s_vreg sbits]; aleaves; reflexivity. }
  assert (Masked : forall masked, okv masked 128 ->
            exists op, (repl <- (if e_bits v <=? width then Ok v else unwrap (mk_ext Trun width v)) ;;
                        r <- (if e_bits repl =? 128 then Ok repl else if e_bits repl <? 128 then unwrap (mk_ext Zext 128 repl) else unwrap (mk_ext Trun 128 repl)) ;;
                        sh <- unwrap (mk_bin Shl r (expr_const shift 128)) ;;
                        o <- unwrap (mk_bin Or masked sh) ;;
                        (if 128 <? e_bits o then Panic else if e_bits o =? 128 then Ok (OAssign (s_vreg n) o)
                         else z <- unwrap (mk_ext Zext 128 o) ;; Ok (OAssign (s_vreg n) z))) = Ok op /\ wf_op 64 op = true).
  { intros masked (Wm & Dm & Bm). pose proof Hv as (W & D & B).
    assert (Hrepl : exists repl rb, (if e_bits v <=? width then Ok v else unwrap (mk_ext Trun width v)) = Ok repl /\ okv repl rb /\ 1 <= rb <= 128).
    { rewrite B. destruct (Z.leb_spec vb width).
      - exists v, vb. split; [reflexivity|]. split; [exact Hv|lia].
      - rewrite mk_trun_ok by (rewrite B; lia). cbn [unwrap]. eexists _, width. split; [reflexivity|]. split; [|lia].
        split; [|split]; cbn [wf_expr div_free e_bits]; rewrite ?W, ?D, ?B; try reflexivity.
        replace (1 <=? width) with true by (symmetry; apply Z.leb_le; lia).
        replace (width <? vb) with true by (symmetry; apply Z.ltb_lt; lia). reflexivity. }
    destruct Hrepl as (repl & rb & Erepl & Hrepl & Hrb). rewrite Erepl. cbn [bind].
    destruct (resize128_ok repl rb Hrepl Hrb) as (r & Er & (Wr & Dr & Br)). rewrite Er. cbn [bind].
    rewrite mk_bin_ok by (rewrite Br, expr_const_bits; reflexivity). cbn [unwrap bind].
    rewrite mk_bin_ok by (cbn [e_bits is_cmp]; rewrite Bm, Br; reflexivity). cbn [unwrap bind].
    apply (vset_ok n _ 128); [|lia].
    split; [|split]; cbn [wf_expr div_free is_div negb e_bits is_cmp]; rewrite ?Wm, ?Dm, ?Bm, ?Wr, ?Dr, ?Br, ?expr_const_bits, ?df_const;
      try rewrite wf_const by lia; reflexivity. }
  destruct (Z.ltb_spec 0 shift) as [H0 | H0]; destruct (Z.ltb_spec (shift + width) 128) as [H1 | H1].
  - rewrite mk_trun_ok by (cbn [e_bits vreg s_vreg sbits]; lia). cbn [unwrap bind].
    rewrite mk_wide_ok by (first [left; reflexivity | cbn [e_bits]; lia]). cbn [unwrap bind].
    rewrite mk_bin_ok by reflexivity. cbn [unwrap bind]. rewrite mk_bin_ok by reflexivity. cbn [unwrap bind].
    rewrite mk_bin_ok by reflexivity. cbn [unwrap bind].
    apply Masked. destruct (Hlow H0) as (Wl & Dl & Bl). destruct Hup as (Wu & Du & Bu).
    set (lo := EExt Zext 128 (EExt Trun shift vreg)) in *.
    set (up := EBin Shl (EBin Shr vreg (expr_const (shift + width) 128)) (expr_const (shift + width) 128)) in *.
    clearbody lo up.
    split; [|split]; cbn [wf_expr div_free is_div negb e_bits is_cmp]; rewrite ?Wl, ?Dl, ?Bl, ?Wu, ?Du, ?Bu; reflexivity.
  - rewrite mk_trun_ok by (cbn [e_bits vreg s_vreg sbits]; lia). cbn [unwrap bind].
    rewrite mk_wide_ok by (first [left; reflexivity | cbn [e_bits]; lia]). cbn [unwrap bind]. apply Masked. apply Hlow. exact H0.
  - rewrite mk_bin_ok by reflexivity. cbn [unwrap bind]. rewrite mk_bin_ok by reflexivity. cbn [unwrap bind]. apply Masked. exact Hup.
  - cbn [bind]. exact Plain.
Qed.

(* the general builders *)
Lemma mov_gen d o1 w m vb : dest d w m -> loads o1 w vb -> 1 <= vb <= m ->
  exists ops, b_mov [d; o1] = Ok (ops, []) /\ ops_ok ops.
Proof.
  intros (Ew & Hw & St) L1 Hvb. unfold b_mov. cbn [nth_op nth_error res_of_option bind]. rewrite Ew. cbn [bind]. use L1.
  destruct (St _ _ H Hvb) as (op & Eop & Wop). rewrite Eop. cbn [bind].
  eexists. split; [reflexivity|]. apply ops_cons; [exact Wop|apply ops_nil].
Qed.
Lemma addsub_gen a d o1 o2 w m : dest d w m -> loads o1 w w -> loads o2 w w ->
  exists ops, b_addsub a [d; o1; o2] = Ok (ops, []) /\ ops_ok ops.
Proof.
  intros (Ew & Hw & St) L1 L2. unfold b_addsub. cbn [nth_op nth_error res_of_option bind]. rewrite Ew. cbn [bind].
  use L1. use L2. destruct H as (W1 & D1 & B1), H0 as (W2 & D2 & B2).
  rewrite mk_bin_ok by congruence. cbn [bind unwrap].
  assert (Hs : okv (EBin (arith_op a) x x0) w) by (destruct a; aokv).
  destruct (St _ _ Hs Hw) as (op & Eop & Wop). rewrite Eop. cbn [bind].
  eexists. split; [reflexivity|]. apply ops_cons; [exact Wop|apply ops_nil].
Qed.
Lemma ldr_gen d o1 w m : dest d w m -> mem_shape o1 -> mem_w w = true ->
  exists ops, b_ldr None [d; o1] = Ok (ops, []) /\ ops_ok ops.
Proof.
  intros (Ew & Hw & St) Hm Mw. unfold b_ldr. cbn [nth_op nth_error res_of_option bind].
  destruct (maddr_ok o1 Hm) as (a & se & wb & Ea & Ha & Ese & Hwb). rewrite Ea. cbn [bind fst snd]. rewrite Ew. cbn [bind].
  destruct (St _ _ (okv_temp0 w ltac:(lia)) Hw) as (op & Eop & Wop). rewrite Eop, Ese. cbn [bind].
  eexists. split; [reflexivity|]. destruct Ha as (Wa & Da & Ba).
  apply ops_cons; [cbn [wf_op s_temp0 sbits]; rewrite Wa, Ba, Mw; reflexivity|]. apply ops_cons; [exact Wop|exact Hwb].
Qed.
Lemma str_gen d o1 w : operand_storing_width d = Ok w -> loads d w w -> mem_shape o1 -> mem_w w = true ->
  exists ops, b_str None [d; o1] = Ok (ops, []) /\ ops_ok ops.
Proof.
  intros Ew L Hm Mw. unfold b_str. cbn [nth_op nth_error res_of_option bind]. rewrite Ew. cbn [bind]. use L.
  destruct (maddr_ok o1 Hm) as (a & se & wb & Ea & (Wa & Da & Ba) & Ese & Hwb). rewrite Ea. cbn [bind fst snd]. rewrite Ese. cbn [bind].
  eexists. split; [reflexivity|]. apply ops_app; [|exact Hwb]. apply ops_cons; [|apply ops_nil].
  destruct H as (Wv & Dv & Bv). cbn [wf_op]. rewrite Wa, Wv, Ba, Bv, Mw. reflexivity.
Qed.
Lemma ldp_gen d d2 o2 w m : dest d w m -> dest d2 w m -> mem_shape o2 -> mem_w w = true ->
  exists ops, b_ldp [d; d2; o2] = Ok (ops, []) /\ ops_ok ops.
Proof.
  intros (Ew & Hw & St) (Ew2 & _ & St2) Hm Mw. unfold b_ldp. cbn [nth_op nth_error res_of_option bind].
  destruct (maddr_ok o2 Hm) as (a & se & wb & Ea & (Wa & Da & Ba) & Ese & Hwb). rewrite Ea. cbn [bind fst snd]. rewrite Ew. cbn [bind].
  rewrite mk_bin_ok by (rewrite Ba, expr_const_bits; reflexivity). cbn [unwrap bind].
  destruct (St _ _ (okv_temp0 w ltac:(lia)) Hw) as (op0 & E0 & W0). rewrite E0. cbn [bind].
  destruct (St2 _ _ (okv_temp1 w ltac:(lia)) Hw) as (op1 & E1 & W1). rewrite E1, Ese. cbn [bind].
  eexists. split; [reflexivity|].
  apply ops_cons; [cbn [wf_op s_temp0 sbits]; rewrite Wa, Ba, Mw; reflexivity|].
  apply ops_cons; [cbn [wf_op wf_expr e_bits is_cmp s_temp1 sbits]; rewrite Wa, Ba, expr_const_bits, Mw; rewrite wf_const by lia; reflexivity|].
  apply ops_cons; [exact W0|]. apply ops_cons; [exact W1|exact Hwb].
Qed.
Lemma stp_gen d d2 o2 w : operand_storing_width d = Ok w -> loads d w w -> loads d2 w w -> mem_shape o2 -> mem_w w = true ->
  exists ops, b_stp [d; d2; o2] = Ok (ops, []) /\ ops_ok ops.
Proof.
  intros Ew L L2 Hm Mw. unfold b_stp. cbn [nth_op nth_error res_of_option bind]. rewrite Ew. cbn [bind]. use L. use L2.
  destruct H as (W0 & D0 & B0), H0 as (W1 & D1 & B1).
  destruct (maddr_ok o2 Hm) as (a & se & wb & Ea & (Wa & Da & Ba) & Ese & Hwb). rewrite Ea. cbn [bind fst snd].
  rewrite mk_bin_ok by (rewrite Ba, expr_const_bits; reflexivity). cbn [unwrap bind]. rewrite Ese. cbn [bind].
  eexists; split; [reflexivity|]. apply ops_app; [|exact Hwb].
  apply ops_cons; [cbn [wf_op]; rewrite Wa, W0, Ba, B0, Mw; reflexivity|].
  apply ops_cons; [|apply ops_nil]. cbn [wf_op wf_expr e_bits is_cmp]. rewrite Wa, W1, Ba, B1, expr_const_bits, Mw. rewrite wf_const by lia. reflexivity.
Qed.

(* ------------------------------------------------------------------ one instruction *)
Definition outcome (r : res built) : Prop :=
  match r with Panic => False | Err _ => True | Ok b => ops_ok (fst b) /\ good_succs (snd b) end.

Definition wrap (addr : Z) (m : mnem) (ops : list opnd) : res built :=
  b <- dispatch addr m ops ;; Ok (fst b, merge_successors (if terminating m then snd b else [(addr + 4, None)])).

Lemma out_plain addr m ops : terminating m = false -> plain_ok (dispatch addr m ops) -> outcome (wrap addr m ops).
Proof.
  intros Ht H. unfold wrap. destruct (dispatch addr m ops) as [b|e|]; cbn [bind outcome plain_ok] in *; auto.
  rewrite Ht. cbn [fst snd]. split; [apply H|apply msucc_single].
Qed.
Lemma out_term addr m ops : terminating m = true -> term_ok (dispatch addr m ops) -> outcome (wrap addr m ops).
Proof.
  intros Ht H. unfold wrap. destruct (dispatch addr m ops) as [b|e|]; cbn [bind outcome term_ok] in *; auto.
  rewrite Ht. cbn [fst snd]. exact H.
Qed.
Lemma out_unsupported addr ops : outcome (wrap addr MUnsupported ops).
Proof. exact I. Qed.
Lemma ex_plain r : (exists ops, r = Ok (ops, []) /\ ops_ok ops) -> plain_ok r.
Proof. intros (ops & -> & H). split; [exact H|reflexivity]. Qed.

Lemma reg_bits_zr sf n : reg_bits (xreg_zr sf n) = dsize sf.
Proof. unfold xreg_zr. destruct (n =? 31), sf; reflexivity. Qed.
Lemma reg_bits_sp sf n : reg_bits (xreg_sp sf n) = dsize sf.
Proof. unfold xreg_sp. destruct (n =? 31), sf; reflexivity. Qed.
Lemma loads_eq o ob w w' ob' : loads o ob w -> w = w' -> ob = ob' -> loads o ob' w'.
Proof. intros H -> ->. exact H. Qed.
Lemma dsize_range sf : 1 <= dsize sf <= 64. Proof. destruct sf; cbn; lia. Qed.
Lemma dsize_cases sf : dsize sf = 32 \/ dsize sf = 64. Proof. destruct sf; cbn; auto. Qed.

Ltac rb := rewrite ?reg_bits_zr, ?reg_bits_sp.
Ltac ld_reg := eapply loads_eq; [apply load_reg| rb; try reflexivity | rb; try reflexivity].

(* the field ranges of an encodable instruction (what Isa/A64Decode.decode_fields establishes for every decoded word) *)
Definition r32 (x : Z) : Prop := 0 <= x < 32.
(* element geometry of the AdvSIMD copy group: element size 8 * 2^size bits, index idx within the 128-bit register *)
Definition elem_ok (size idx : Z) : Prop := 0 <= size < 4 /\ 0 <= idx /\ (idx + 1) * (8 * 2 ^ size) <= 128.
Definition fields_ok (i : instr) : Prop :=
  match i with
  | ILdStImm size opc _ _ _ _ _ => 0 <= size < 4 /\ 0 <= opc < 4 /\ decode_ldst_opc_ok size opc = true
  | ILdStReg size opc _ option _ _ _ =>
      0 <= size < 4 /\ 0 <= opc < 4 /\ decode_ldst_opc_ok size opc = true /\
      (option = 2 \/ option = 3 \/ option = 6 \/ option = 7)
  | ILdStPair opc mode load _ _ _ _ => opc = 0 \/ opc = 2 \/ (opc = 1 /\ load = true)
  | ILdStOrd size _ _ _ _ | ILdStOrdU size _ _ _ _ => 0 <= size < 4
  | IVLdStImm scale _ _ _ _ _ _ => 0 <= scale <= 4
  | IVLdStReg scale _ _ option _ _ _ => 0 <= scale <= 4 /\ (option = 2 \/ option = 3 \/ option = 6 \/ option = 7)
  | IVLdStPair opc _ _ _ _ _ _ => 0 <= opc <= 2
  | IVIns size dst src _ _ => elem_ok size dst /\ elem_ok size src
  | IVInsG size idx _ _ | IVDupS size idx _ _ => elem_ok size idx
  | IVUmov size idx _ _ => elem_ok size idx
  | IBReg opc _ => opc = 0 \/ opc = 1 \/ opc = 2
  | IBCond cond _ => 0 <= cond < 16
  | _ => True
  end.

Lemma lift_wrap addr i : lift addr i = let '(m, ops) := operands_of addr i in wrap addr m ops.
Proof. unfold lift, wrap. destruct (operands_of addr i). reflexivity. Qed.

Ltac splitifs :=
  repeat match goal with
         | |- context [if ?c then _ else _] =>
             lazymatch c with
             | context [Z.eqb _ _] => destruct c eqn:?
             | context [andb _ _] => destruct c eqn:?
             | context [orb _ _] => destruct c eqn:?
             | context [negb _] => destruct c eqn:?
             end
         end.

Lemma addsub_any addr (sub setflags : bool) d o1 o2 :
  loads o1 (reg_bits d) (reg_bits d) -> loads o2 (reg_bits d) (reg_bits d) ->
  outcome (wrap addr (if sub then (if setflags then MSubs else MSub) else (if setflags then MAdds else MAdd)) [OReg d; o1; o2]).
Proof.
  intros L1 L2. destruct sub, setflags; (apply out_plain; [reflexivity|]); cbn [dispatch]; apply ex_plain;
    first [apply addsub_ok | apply addsubs_ok]; assumption.
Qed.

Lemma lift_addsub_imm addr sf sub setflags sh imm12 rn rd : outcome (lift addr (IAddSubImm sf sub setflags sh imm12 rn rd)).
Proof.
  rewrite lift_wrap. cbn [operands_of].
  destruct (setflags && (rd =? 31)); [apply out_unsupported|].
  destruct (negb sub && negb setflags && negb sh && (imm12 =? 0) && ((rd =? 31) || (rn =? 31))).
  - apply out_plain; [reflexivity|]. cbn [dispatch]. apply ex_plain. eapply mov_ok; [ld_reg|rb; apply dsize_range].
  - apply addsub_any.
    + destruct setflags; ld_reg.
    + assert (Hd : reg_bits (if setflags then xreg_zr sf rd else xreg_sp sf rd) = dsize sf) by (destruct setflags; rb; reflexivity).
      rewrite Hd. destruct sh; [apply load_imm_lsl12|apply load_imm].
Qed.

Lemma lift_addsub_shift addr sf sub setflags k rm imm6 rn rd : outcome (lift addr (IAddSubShift sf sub setflags k rm imm6 rn rd)).
Proof.
  rewrite lift_wrap. cbn [operands_of].
  destruct (setflags && (rd =? 31)); [apply out_unsupported|]. destruct (sub && (rn =? 31)); [apply out_unsupported|].
  apply addsub_any; rb.
  - ld_reg.
  - unfold shifted_reg. destruct k; try destruct (imm6 =? 0); first [ld_reg | apply load_shiftreg; [apply dsize_cases|rb; reflexivity]].
Qed.

Lemma lift_addsub_ext addr sf sub setflags k rm imm3 rn rd : outcome (lift addr (IAddSubExt sf sub setflags k rm imm3 rn rd)).
Proof.
  rewrite lift_wrap. cbn [operands_of].
  destruct (setflags && (rd =? 31)); [apply out_unsupported|].
  assert (Hd : reg_bits (if setflags then xreg_zr sf rd else xreg_sp sf rd) = dsize sf) by (destruct setflags; rb; reflexivity).
  apply addsub_any; rewrite Hd.
  - ld_reg.
  - unfold extended_reg. generalize ((rn =? 31) || negb setflags && (rd =? 31)). intros spi.
    destruct sf, k, spi; cbn [andb ext_is_x negb bext_of]; try destruct (imm3 =? 0); cbn [andb];
      first [ ld_reg
            | apply load_shiftreg; [cbn [dsize]; auto|rb; cbn [dsize shift_pre sh_len]; lia] ].
Qed.

Lemma lift_orr addr sf k rm imm6 rn rd : outcome (lift addr (IOrrShift sf k rm imm6 rn rd)).
Proof.
  rewrite lift_wrap. cbn [operands_of]. destruct k; try apply out_unsupported.
  destruct ((imm6 =? 0) && (rn =? 31)); [|apply out_unsupported].
  apply out_plain; [reflexivity|]. cbn [dispatch]. apply ex_plain. eapply mov_ok; [ld_reg|rb; apply dsize_range].
Qed.

Lemma lift_movwide addr sf opc hw imm16 rd : outcome (lift addr (IMovWide sf opc hw imm16 rd)).
Proof.
  rewrite lift_wrap. cbn [operands_of]. cbv zeta.
  repeat match goal with |- context [if ?c then _ else _] => destruct c end; try apply out_unsupported;
    (apply out_plain; [reflexivity|]); cbn [dispatch]; apply ex_plain;
    (eapply mov_ok; [eapply loads_eq; [apply load_imm|reflexivity|reflexivity]|apply dsize_range]).
Qed.

(* single-register loads and stores: the mnemonic and the transfer register follow size / opc *)
Lemma ldst_any addr size opc rt o1 : 0 <= size < 4 -> 0 <= opc < 4 -> decode_ldst_opc_ok size opc = true -> mem_shape o1 ->
  outcome (wrap addr (ldst_mnem size opc) [OReg (ldst_rt size opc rt); o1]).
Proof.
  intros Hs Ho Hok Hm.
  assert (Hsz : size = 0 \/ size = 1 \/ size = 2 \/ size = 3) by lia.
  assert (Hop : opc = 0 \/ opc = 1 \/ opc = 2 \/ opc = 3) by lia.
  destruct Hsz as [-> | [-> | [-> | ->]]]; destruct Hop as [-> | [-> | [-> | ->]]]; try discriminate Hok;
    unfold ldst_mnem, ldst_rt, ldst_regsize_signed;
    cbn [Z.eqb Z.ltb Z.compare Pos.eqb Pos.compare Pos.compare_cont];
    (apply out_plain; [reflexivity|]); cbn [dispatch]; apply ex_plain;
    first [ apply str_ok; [exact Hm|first [exact I | split; [auto|rb; reflexivity]]]
          | apply ldr_ok; [exact Hm|cbn [memw]; rb; cbn [dsize]; unfold memw; auto]
          | apply ldrs_ok; [exact Hm|auto|rb; cbn [dsize]; lia] ].
Qed.

Lemma lift_ldst_imm addr size opc mode scaled imm rn rt :
  fields_ok (ILdStImm size opc mode scaled imm rn rt) -> outcome (lift addr (ILdStImm size opc mode scaled imm rn rt)).
Proof.
  intros (Hs & Ho & Hok). rewrite lift_wrap. cbn [operands_of]. cbv zeta. apply ldst_any; try assumption.
  destruct mode; constructor; rb; reflexivity.
Qed.

Lemma lift_ldst_reg addr size opc rm option sbit rn rt :
  fields_ok (ILdStReg size opc rm option sbit rn rt) -> outcome (lift addr (ILdStReg size opc rm option sbit rn rt)).
Proof.
  intros (Hs & Ho & Hok & Hopt). rewrite lift_wrap. cbn [operands_of]. cbv zeta. apply ldst_any; try assumption.
  constructor; [rb; reflexivity|].
  destruct Hopt as [-> | [-> | [-> | ->]]]; cbn [decode_ext Z.eqb Pos.eqb ext_is_x bext_of]; destruct sbit; rb; cbn [dsize shift_pre sh_len];
    try reflexivity; lia.
Qed.

Lemma lift_ldlit addr opc imm19 rt : outcome (lift addr (ILdLit opc imm19 rt)).
Proof.
  rewrite lift_wrap. cbn [operands_of]. destruct (opc =? 2) eqn:E.
  - apply Z.eqb_eq in E. subst opc. cbn [Z.eqb Pos.eqb negb]. unfold wrap. cbn [dispatch]. unfold b_ldrs. lists. rb. cbn [dsize Z.eqb Pos.eqb andb negb bind mem_operand_address].
    exact I.
  - unfold wrap. cbn [dispatch]. unfold b_ldr. lists. cbn [mem_operand_address bind]. exact I.
Qed.

Lemma lift_pair addr opc mode load imm7 rt2 rn rt :
  fields_ok (ILdStPair opc mode load imm7 rt2 rn rt) -> outcome (lift addr (ILdStPair opc mode load imm7 rt2 rn rt)).
Proof.
  intros Hf. rewrite lift_wrap. cbn [operands_of]. cbv zeta.
  assert (Hm : mem_shape (match mode with
                          | PNoAlloc | POffset => OMemOffset (xreg_sp true rn) (u64 (sext_imm 7 imm7 * 2 ^ (2 + opc / 2)))
                          | PPre => OMemPreIdx (xreg_sp true rn) (u64 (sext_imm 7 imm7 * 2 ^ (2 + opc / 2)))
                          | PPost => OMemPostIdxImm (xreg_sp true rn) (u64 (sext_imm 7 imm7 * 2 ^ (2 + opc / 2)))
                          end)) by (destruct mode; constructor; rb; reflexivity).
  destruct Hf as [-> | [-> | (-> & ->)]]; try destruct load; cbn [Z.eqb Pos.eqb negb];
    (apply out_plain; [reflexivity|]); cbn [dispatch]; apply ex_plain;
    first [ apply ldp_ok; [exact Hm|rb; reflexivity] | apply stp_ok; [exact Hm|rb; reflexivity]
          | apply ldpsw_ok; [exact Hm|rb; reflexivity|rb; reflexivity] ].
Qed.

Lemma lift_ord addr size load o0 rn rt : fields_ok (ILdStOrd size load o0 rn rt) -> outcome (lift addr (ILdStOrd size load o0 rn rt)).
Proof.
  intros Hs. rewrite lift_wrap. cbn [operands_of fields_ok] in *.
  assert (Hm : mem_shape (OMemOffset (xreg_sp true rn) 0)) by (constructor; rb; reflexivity).
  assert (Hsz : size = 0 \/ size = 1 \/ size = 2 \/ size = 3) by lia.
  destruct Hsz as [-> | [-> | [-> | ->]]]; destruct load; unfold ldst_mnem; cbn [Z.eqb Pos.eqb];
    (apply out_plain; [reflexivity|]); cbn [dispatch]; apply ex_plain;
    first [ apply str_ok; [exact Hm|first [exact I | split; [auto|rb; reflexivity]]]
          | apply ldr_ok; [exact Hm|rb; cbn [dsize]; unfold memw; auto] ].
Qed.

Lemma lift_bimm addr link imm26 : outcome (lift addr (IBImm link imm26)).
Proof.
  rewrite lift_wrap. cbn [operands_of]. destruct link.
  - apply out_plain; [reflexivity|]. cbn [dispatch]. apply bl_ok. left. eexists. reflexivity.
  - apply out_term; [reflexivity|]. cbn [dispatch]. apply b_ok.
Qed.

Lemma lift_breg addr opc rn : fields_ok (IBReg opc rn) -> outcome (lift addr (IBReg opc rn)).
Proof.
  intros Hf. rewrite lift_wrap. cbn [operands_of fields_ok] in *.
  destruct Hf as [-> | [-> | ->]]; cbn [Z.eqb Pos.eqb andb].
  - apply out_term; [reflexivity|]. cbn [dispatch]. apply br_ok. rb. reflexivity.
  - apply out_plain; [reflexivity|]. cbn [dispatch]. apply bl_ok. right. eexists. split; [reflexivity|rb; reflexivity].
  - apply out_term; [reflexivity|]. cbn [dispatch]. apply ret_ok. destruct (rn =? 30); [left; reflexivity|].
    right. eexists. split; [reflexivity|rb; reflexivity].
Qed.

Lemma lift_bcond addr cond imm19 : fields_ok (IBCond cond imm19) -> outcome (lift addr (IBCond cond imm19)).
Proof.
  intros Hf. rewrite lift_wrap. cbn [operands_of]. apply out_term; [reflexivity|]. cbn [dispatch]. apply bcc_ok. exact Hf.
Qed.

Lemma lift_cb addr sf nz imm19 rt : outcome (lift addr (ICB sf nz imm19 rt)).
Proof.
  rewrite lift_wrap. cbn [operands_of]. destruct nz; (apply out_term; [reflexivity|]); cbn [dispatch]; apply cb_ok.
Qed.
Lemma lift_tb addr b5 nz b40 imm14 rt : outcome (lift addr (ITB b5 nz b40 imm14 rt)).
Proof.
  rewrite lift_wrap. cbn [operands_of]. destruct nz; (apply out_term; [reflexivity|]); cbn [dispatch]; apply tb_ok.
Qed.

Lemma lift_ordu addr size load o0 rn rt : fields_ok (ILdStOrdU size load o0 rn rt) -> outcome (lift addr (ILdStOrdU size load o0 rn rt)).
Proof.
  intros Hs. pose proof (lift_ord addr size load o0 rn rt Hs) as H. rewrite lift_wrap in *. exact H.
Qed.

Lemma lift_orrimm addr sf n immr imms rn rd : outcome (lift addr (IOrrImm sf n immr imms rn rd)).
Proof.
  rewrite lift_wrap. cbn [operands_of]. destruct ((rn =? 31) && negb (move_wide_preferred sf n imms immr)); [|apply out_unsupported].
  apply out_plain; [reflexivity|]. cbn [dispatch]. apply ex_plain.
  eapply mov_ok; [eapply loads_eq; [apply load_imm|reflexivity|reflexivity]|apply dsize_range].
Qed.

Lemma lift_nop addr : outcome (lift addr INop).
Proof. rewrite lift_wrap. cbn [operands_of]. apply out_plain; [reflexivity|]. cbn [dispatch plain_ok fst snd]. split; reflexivity. Qed.

(* widths of the SIMD&FP views *)
Lemma vwidth scale : 0 <= scale <= 4 -> 1 <= 8 * 2 ^ scale <= 128 /\ mem_w (8 * 2 ^ scale) = true.
Proof.
  intros H. assert (Hc : scale = 0 \/ scale = 1 \/ scale = 2 \/ scale = 3 \/ scale = 4) by lia.
  destruct Hc as [-> | [-> | [-> | [-> | ->]]]]; split; try reflexivity; cbn; lia.
Qed.
Lemma mem_imm_shape (mode : wbmode) rn off :
  mem_shape (match mode with WOffset => OMemOffset (xreg_sp true rn) off | WPre => OMemPreIdx (xreg_sp true rn) off
                        | WPost => OMemPostIdxImm (xreg_sp true rn) off end).
Proof. destruct mode; constructor; rb; reflexivity. Qed.
Lemma mem_pair_shape (mode : pmode) rn off :
  mem_shape (match mode with PNoAlloc | POffset => OMemOffset (xreg_sp true rn) off | PPre => OMemPreIdx (xreg_sp true rn) off
                        | PPost => OMemPostIdxImm (xreg_sp true rn) off end).
Proof. destruct mode; constructor; rb; reflexivity. Qed.
Lemma mem_ext_shape option (sbit : bool) amount rn rm : (option = 2 \/ option = 3 \/ option = 6 \/ option = 7) ->
  mem_shape (OMemExt (xreg_sp true rn) (xreg_zr (ext_is_x (decode_ext option)) rm)
               (match decode_ext option with
                | XUXTX => if sbit then Some (BLSL amount) else None
                | _ => Some (bext_of (decode_ext option) amount)
                end)).
Proof.
  intros Hopt. constructor; [rb; reflexivity|].
  destruct Hopt as [-> | [-> | [-> | ->]]]; cbn [decode_ext Z.eqb Pos.eqb ext_is_x bext_of]; try destruct sbit; rb; cbn [dsize shift_pre sh_len];
    try reflexivity; lia.
Qed.

Lemma vldst_any addr (load : bool) bits rt o1 : 1 <= bits <= 128 -> mem_w bits = true -> mem_shape o1 ->
  outcome (wrap addr (if load then MLdr else MStr) [OVReg bits rt; o1]).
Proof.
  intros Hb Mw Hm. destruct load; (apply out_plain; [reflexivity|]); cbn [dispatch]; apply ex_plain.
  - eapply ldr_gen; [apply dest_vreg; exact Hb|exact Hm|exact Mw].
  - eapply str_gen; [reflexivity|apply load_vreg; exact Hb|exact Hm|exact Mw].
Qed.

Lemma lift_vldst_imm addr scale load mode scaled imm rn rt :
  fields_ok (IVLdStImm scale load mode scaled imm rn rt) -> outcome (lift addr (IVLdStImm scale load mode scaled imm rn rt)).
Proof.
  intros Hf. rewrite lift_wrap. cbn [operands_of]. cbv zeta. destruct (vwidth scale Hf) as (Hb & Mw).
  apply vldst_any; [exact Hb|exact Mw|apply mem_imm_shape].
Qed.
Lemma lift_vldst_reg addr scale load rm option sbit rn rt :
  fields_ok (IVLdStReg scale load rm option sbit rn rt) -> outcome (lift addr (IVLdStReg scale load rm option sbit rn rt)).
Proof.
  intros (Hs & Hopt). rewrite lift_wrap. cbn [operands_of]. cbv zeta. destruct (vwidth scale Hs) as (Hb & Mw).
  apply vldst_any; [exact Hb|exact Mw|apply mem_ext_shape; exact Hopt].
Qed.
Lemma lift_vpair addr opc mode load imm7 rt2 rn rt :
  fields_ok (IVLdStPair opc mode load imm7 rt2 rn rt) -> outcome (lift addr (IVLdStPair opc mode load imm7 rt2 rn rt)).
Proof.
  intros Hf. rewrite lift_wrap. cbn [operands_of fields_ok] in *. cbv zeta.
  destruct (vwidth (2 + opc) ltac:(lia)) as (Hb & Mw).
  destruct load; (apply out_plain; [reflexivity|]); cbn [dispatch]; apply ex_plain.
  - eapply ldp_gen; [apply dest_vreg; exact Hb|apply dest_vreg; exact Hb|apply mem_pair_shape|exact Mw].
  - eapply stp_gen; [reflexivity|apply load_vreg; exact Hb|apply load_vreg; exact Hb|apply mem_pair_shape|exact Mw].
Qed.

Lemma elem_geom size idx : elem_ok size idx ->
  0 <= idx * (8 * 2 ^ size) /\ 1 <= 8 * 2 ^ size <= 64 /\ idx * (8 * 2 ^ size) + 8 * 2 ^ size <= 128.
Proof.
  intros (Hs & Hi & Hb). assert (Hc : size = 0 \/ size = 1 \/ size = 2 \/ size = 3) by lia.
  destruct Hc as [-> | [-> | [-> | ->]]]; cbn in *; lia.
Qed.

Lemma lift_vins addr size dst src rn rd : fields_ok (IVIns size dst src rn rd) -> outcome (lift addr (IVIns size dst src rn rd)).
Proof.
  intros (Hd & Hs). rewrite lift_wrap. cbn [operands_of]. cbv zeta.
  destruct (elem_geom _ _ Hd) as (D0 & Dw & Db). destruct (elem_geom _ _ Hs) as (S0 & Sw & Sb).
  apply out_plain; [reflexivity|]. cbn [dispatch]. apply ex_plain.
  eapply mov_gen; [apply dest_varr; lia|apply load_varr; lia|lia].
Qed.
Lemma lift_vinsg addr size idx rn rd : fields_ok (IVInsG size idx rn rd) -> outcome (lift addr (IVInsG size idx rn rd)).
Proof.
  intros Hd. rewrite lift_wrap. cbn [operands_of]. cbv zeta. destruct (elem_geom _ _ Hd) as (D0 & Dw & Db).
  apply out_plain; [reflexivity|]. cbn [dispatch]. apply ex_plain.
  eapply mov_gen; [apply dest_varr; lia|apply load_reg|rb; pose proof (dsize_range (size =? 3)); lia].
Qed.
Lemma lift_vumov addr size idx rn rd : fields_ok (IVUmov size idx rn rd) -> outcome (lift addr (IVUmov size idx rn rd)).
Proof.
  intros Hd. rewrite lift_wrap. cbn [operands_of]. cbv zeta. destruct (elem_geom _ _ Hd) as (D0 & Dw & Db).
  apply out_plain; [reflexivity|]. cbn [dispatch]. apply ex_plain.
  eapply mov_gen; [apply dest_reg|apply load_varr; lia|lia].
Qed.
Lemma lift_vdups addr size idx rn rd : fields_ok (IVDupS size idx rn rd) -> outcome (lift addr (IVDupS size idx rn rd)).
Proof.
  intros Hd. rewrite lift_wrap. cbn [operands_of]. cbv zeta. destruct (elem_geom _ _ Hd) as (D0 & Dw & Db).
  apply out_plain; [reflexivity|]. cbn [dispatch]. apply ex_plain.
  eapply mov_gen; [apply dest_vreg; lia|apply load_varr; lia|lia].
Qed.
Lemma lift_vmovv addr q rn rd : outcome (lift addr (IVMovV q rn rd)).
Proof.
  rewrite lift_wrap. cbn [operands_of]. cbv zeta. apply out_plain; [reflexivity|]. cbn [dispatch]. apply ex_plain.
  destruct q; (eapply mov_gen; [apply dest_varr; lia|apply load_varr; lia|lia]).
Qed.
Lemma lift_vaddsub addr sub rm rn rd : outcome (lift addr (IVAddSubD sub rm rn rd)).
Proof.
  rewrite lift_wrap. cbn [operands_of]. destruct sub; (apply out_plain; [reflexivity|]); cbn [dispatch]; apply ex_plain;
    (eapply addsub_gen; [apply dest_vreg; lia|apply load_vreg; lia|apply load_vreg; lia]).
Qed.

(* every mirrored A64 instruction class, every field value in its encodable range: no panic; an Ok result has
   well-formed operations and good successors *)
Theorem lift_outcome : forall addr i, fields_ok i -> outcome (lift addr i).
Proof.
  intros addr i Hf. destruct i.
  - apply lift_addsub_imm.
  - apply lift_addsub_shift.
  - apply lift_addsub_ext.
  - apply lift_orr.
  - apply lift_movwide.
  - apply lift_ldst_imm; exact Hf.
  - apply lift_ldst_reg; exact Hf.
  - apply lift_ldlit.
  - apply lift_pair; exact Hf.
  - apply lift_ord; exact Hf.
  - apply lift_ordu; exact Hf.
  - apply lift_orrimm.
  - apply lift_nop.
  - apply lift_vldst_imm; exact Hf.
  - apply lift_vldst_reg; exact Hf.
  - apply lift_vpair; exact Hf.
  - apply lift_vins; exact Hf.
  - apply lift_vinsg; exact Hf.
  - apply lift_vumov; exact Hf.
  - apply lift_vdups; exact Hf.
  - apply lift_vmovv.
  - apply lift_vaddsub.
  - apply lift_bimm.
  - apply lift_breg; exact Hf.
  - apply lift_bcond; exact Hf.
  - apply lift_cb.
  - apply lift_tb.
Qed.

(* ------------------------------------------------------------------ results *)
Lemma number_from_ops ab addr : forall ops k,
  forallb (fun i => wf_op ab (i_op i)) (number_from k addr ops) = forallb (wf_op ab) ops.
Proof. induction ops as [|o t IH]; intros k; cbn [number_from forallb i_op]; [reflexivity|]. rewrite IH. reflexivity. Qed.

Lemma graph_of_good addr ops : ops_ok ops -> good_graph 64 (graph_of addr ops).
Proof.
  intros H. split; [|apply graph_det_no_edges; reflexivity].
  unfold wf_graph, graph_of. cbn [g_entry g_exit g_blocks g_edges b_instrs forallb]. rewrite number_from_ops, H. reflexivity.
Qed.

Theorem a64_no_panic : forall addr i, fields_ok i -> lift addr i <> Panic.
Proof. intros addr i Hf E. pose proof (lift_outcome addr i Hf) as H. rewrite E in H. exact H. Qed.

Theorem a64_block_good : forall addr i b len, fields_ok i -> lift addr i = Ok b ->
  wf_result 64 (mkbr [(addr, graph_of addr (fst b))] addr len (snd b)) = true /\
  Det_result (mkbr [(addr, graph_of addr (fst b))] addr len (snd b)).
Proof.
  intros addr i b len Hf E. pose proof (lift_outcome addr i Hf) as H. rewrite E in H. destruct H as (Ho & Hs).
  apply good_result; [constructor; [apply graph_of_good; exact Ho|constructor]|exact Hs].
Qed.

(* every 32-bit word that the specification's decoder accepts has its fields in range *)
Lemma bits_lt w hi lo n : 0 <= lo <= hi -> 2 ^ (hi - lo + 1) = n -> 0 <= bits w hi lo < n.
Proof. intros H <-. unfold bits. apply Z.mod_pos_bound. apply Z.pow_pos_nonneg; lia. Qed.
Lemma option_bit1 w : bitb w 14 = true ->
  bits w 15 13 = 2 \/ bits w 15 13 = 3 \/ bits w 15 13 = 6 \/ bits w 15 13 = 7.
Proof.
  unfold bitb, bits. change (2 ^ (14 - 14 + 1)) with 2. change (2 ^ (15 - 13 + 1)) with 8.
  change (2 ^ 14) with 16384. change (2 ^ 13) with 8192. intros H. apply Z.eqb_eq in H.
  pose proof (Z.div_mod w 16384 ltac:(lia)). pose proof (Z.div_mod w 8192 ltac:(lia)).
  pose proof (Z.mod_pos_bound w 16384 ltac:(lia)). pose proof (Z.mod_pos_bound w 8192 ltac:(lia)).
  pose proof (Z.div_mod (w / 8192) 8 ltac:(lia)). pose proof (Z.mod_pos_bound (w / 8192) 8 ltac:(lia)).
  pose proof (Z.div_mod (w / 16384) 2 ltac:(lia)). pose proof (Z.mod_pos_bound (w / 16384) 2 ltac:(lia)).
  assert (w / 8192 / 2 = w / 16384) by (rewrite Z.div_div by lia; reflexivity).
  pose proof (Z.div_mod (w / 8192) 2 ltac:(lia)). pose proof (Z.mod_pos_bound (w / 8192) 2 ltac:(lia)).
  lia.
Qed.

Ltac blh h l := match goal with w : Z |- _ => pose proof (bits_lt w h l _ ltac:(lia) eq_refl) end.

Lemma decode_int_fields : forall w i, decode_int w = Some i -> fields_ok i.
Proof.
  intros w i. unfold decode_int. cbv zeta. intros H.
  repeat match type of H with
         | context [if ?c then _ else _] => let E := fresh "E" in destruct c eqn:E
         end; try discriminate H; inversion H; subst i; clear H; cbn [fields_ok]; try exact I;
    repeat match goal with |- _ /\ _ => split end;
    try (apply bits_lt; [lia|reflexivity]);
    try (apply negb_false_iff; assumption);
    try match goal with H : (_ && bitb _ 14) = true |- _ => apply andb_prop in H; destruct H as [_ H]; apply option_bit1; exact H end.
  all: try (blh 24 21; match goal with H : (_ && (bits _ 24 21 <? 3) && _ && _ && _) = true |- _ =>
              repeat (apply andb_prop in H; destruct H as [H ?]) end;
            match goal with H : (bits _ 24 21 <? 3) = true |- _ => apply Z.ltb_lt in H end; lia).
  all: try (blh 31 30;
            repeat match goal with
                   | H : (_ || _) = false |- _ => apply orb_false_elim in H; destruct H
                   | H : (_ =? _) = false |- _ => apply Z.eqb_neq in H
                   | H : (_ =? _) = true |- _ => apply Z.eqb_eq in H
                   | H : (_ && negb ?l) = false |- _ => destruct l eqn:?; cbn [negb andb] in H; rewrite ?andb_true_r, ?andb_false_r in H
                   end;
            first [lia | right; right; split; [lia|reflexivity] | (left; lia) | (right; left; lia)]).
  all: try (eapply proj1; apply bits_lt; [lia|reflexivity]).
  all: try (eapply proj2; apply bits_lt; [lia|reflexivity]).
  all: try reflexivity.
Qed.

(* LowestSetBit(imm5) and the element indices derived from imm5 / imm4 stay inside the 128-bit register *)
Lemma imm5_size_ok imm5 size : 0 <= imm5 < 32 -> imm5_size imm5 = Some size ->
  elem_ok size (imm5 / 2 ^ (size + 1)) /\ forall imm4, 0 <= imm4 < 16 -> elem_ok size (imm4 / 2 ^ size).
Proof.
  intros H5 E. unfold imm5_size in E.
  repeat match type of E with context [if ?c then _ else _] => destruct c end; try discriminate E; injection E as <-;
    unfold elem_ok; cbn [Z.add Z.pow Z.pow_pos Pos.iter Z.mul Pos.mul Pos.add Pos.succ];
    (split; [|intros imm4 H4]);
    repeat match goal with |- context [?a / ?b] => pose proof (Z.div_mod a b ltac:(lia)); pose proof (Z.mod_pos_bound a b ltac:(lia)); generalize dependent (a / b); intros end;
    lia.
Qed.

Lemma decode_simd_fields : forall w i, decode_simd w = Some i -> fields_ok i.
Proof.
  intros w i. unfold decode_simd. cbv zeta. intros H.
  assert (B5 : 0 <= bits w 20 16 < 32) by (apply bits_lt; [lia|reflexivity]).
  assert (B4 : 0 <= bits w 14 11 < 16) by (apply bits_lt; [lia|reflexivity]).
  assert (B30 : 0 <= bits w 31 30 < 4) by (apply bits_lt; [lia|reflexivity]).
  repeat match type of H with
         | context [if ?c then _ else _] => let E := fresh "E" in destruct c eqn:E
         | context [match imm5_size ?x with _ => _ end] => let E := fresh "E" in destruct (imm5_size x) eqn:E
         end; try discriminate H; inversion H; subst i; clear H; cbn [fields_ok]; try exact I;
    try match goal with E : imm5_size _ = Some _ |- _ => destruct (imm5_size_ok _ _ B5 E) as (Hi5 & Hi4) end;
    try (split; [exact Hi5|apply Hi4; exact B4]); try exact Hi5;
    repeat match goal with
           | H : (_ =? _) = false |- _ => apply Z.eqb_neq in H
           | H : (_ =? _) = true |- _ => apply Z.eqb_eq in H
           | H : (_ <=? _) = true |- _ => apply Z.leb_le in H
           | H : (_ <=? _) = false |- _ => apply Z.leb_gt in H
           | H : (_ && _) = true |- _ => apply andb_prop in H; destruct H
           end;
    try lia;
    try (split; [lia|]; match goal with H : bitb _ 14 = true |- _ => apply option_bit1; exact H end).
Qed.

Theorem decode_fields : forall w i, decode w = Some i -> fields_ok i.
Proof.
  intros w i. unfold decode. destruct (decode_simd w) as [j|] eqn:E.
  - intros H. injection H as <-. apply decode_simd_fields with (w := w). exact E.
  - apply decode_int_fields.
Qed.

(* hence, for every word: the mirror of a decoded instruction never panics and its blocks are good *)
Theorem a64_word_good : forall addr w i, decode w = Some i ->
  lift addr i <> Panic /\
  forall b len, lift addr i = Ok b ->
    wf_result 64 (mkbr [(addr, graph_of addr (fst b))] addr len (snd b)) = true /\
    Det_result (mkbr [(addr, graph_of addr (fst b))] addr len (snd b)).
Proof.
  intros addr w i Hd. pose proof (decode_fields w i Hd) as Hf. split; [apply a64_no_panic; exact Hf|].
  intros b len E. apply a64_block_good with (i := i); assumption.
Qed.

End A64W.
