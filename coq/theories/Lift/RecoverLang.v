(* Lift/RecoverLang.v -- the graph built by the model of translate_function_extended (Lift/Recover.v), edge by edge,
   under tb_spec and without manual edges: recover_graph_spec (it IS G_prog laid out in discovery order),
   recover_entry_block, recover_lang_partial, and the end-to-end statement recover_executes_like_machine_code. *)
From Coq Require Import ZArith List Bool NArith Lia.
From Falcon Require Import Base.Res IL.Const IL.Expr IL.Func Exec.Sem Cfg.SOps Lift.Lang Lift.LangSem Lift.Recover Lift.C06Check Lift.RecoverProofs.
Import ListNotations.
Local Open Scope Z_scope.

(* ------------------------------------------------------------------ instruction graphs as the translators build them *)
(* blocks numbered 0, 1, 2, ... in list order (ControlFlowGraph::new_block), entry and exit set *)
Fixpoint idx_seq (k : Z) (bs : list block) : Prop :=
  match bs with [] => True | b :: t => b_index b = k /\ idx_seq (k + 1) t end.
Definition ig_wf (ig : cfg) : Prop := idx_seq 0 (g_blocks ig).

Lemma idx_seq_ge k bs b : idx_seq k bs -> In b bs -> k <= b_index b < k + Z.of_nat (length bs).
Proof.
  revert k. induction bs as [|x t IH]; intros k S I; [destruct I|]. destruct S as [E S]. cbn [length].
  destruct I as [<-|I]; [lia|]. specialize (IH _ S I). lia.
Qed.

Lemma number_from_get k base bs b : idx_seq k bs -> In b bs ->
  bt_get (number_from base bs) (b_index b) = Some (base + (b_index b - k)).
Proof.
  revert k base. induction bs as [|x t IH]; intros k base S I; [destruct I|]. destruct S as [E S].
  cbn [number_from bt_get]. destruct I as [<-|I].
  - rewrite Z.eqb_refl. f_equal. lia.
  - pose proof (idx_seq_ge _ _ _ S I) as R. destruct (Z.eqb_spec (b_index x) (b_index b)) as [Q|Q]; [lia|].
    rewrite (IH _ _ S I). f_equal. lia.
Qed.
Lemma number_from_some k base bs i v : idx_seq k bs -> bt_get (number_from base bs) i = Some v ->
  v = base + (i - k) /\ k <= i < k + Z.of_nat (length bs).
Proof.
  revert k base. induction bs as [|x t IH]; intros k base S G; [discriminate|]. destruct S as [E S].
  cbn [number_from bt_get length] in *. destruct (Z.eqb_spec (b_index x) i) as [Q|Q].
  - injection G as <-. lia.
  - destruct (IH _ _ S G) as [A B]. lia.
Qed.


(* ------------------------------------------------------------------ what the graph operations do, exactly *)
Lemma find_edge_none_pairs es h t : find_edge es h t = None -> ~ In (h, t) (map pair_of es).
Proof.
  induction es as [|x r IH]; cbn [find_edge map]; intros H I; [destruct I|].
  destruct ((e_head x =? h) && (e_tail x =? t)) eqn:E; [discriminate|]. destruct I as [I|I]; [|exact (IH H I)].
  unfold pair_of in I. injection I as <- <-. rewrite !Z.eqb_refl in E. discriminate.
Qed.

Lemma insert_edge_spec g e g' : gs_insert_edge g e = Ok g' ->
  g' = mkgs (gs_blocks g) (gs_edges g ++ [e]) (gs_next g) /\ ~ In (pair_of e) (map pair_of (gs_edges g)).
Proof.
  unfold gs_insert_edge, gs_has_edge. destruct (find_edge (gs_edges g) (e_head e) (e_tail e)) eqn:F; [discriminate|].
  destruct (negb _); [discriminate|]. intros [= <-]. split; [reflexivity|]. apply find_edge_none_pairs. exact F.
Qed.

Lemma NoDup_pairs_snoc es e : NoDup (map pair_of es) -> ~ In (pair_of e) (map pair_of es) -> NoDup (map pair_of (es ++ [e])).
Proof. intros N I. rewrite map_app. cbn [map]. apply NoDup_snoc; assumption. Qed.

Lemma fold_insert_edge_spec es : forall g g', fold_left (fun acc e => a <- acc ;; gs_insert_edge a e) es (Ok g) = Ok g' ->
  NoDup (map pair_of (gs_edges g)) ->
  g' = mkgs (gs_blocks g) (gs_edges g ++ es) (gs_next g) /\ NoDup (map pair_of (gs_edges g ++ es)).
Proof.
  induction es as [|e t IH]; cbn [fold_left]; intros g g' H N.
  - injection H as <-. rewrite app_nil_r. split; [destruct g; reflexivity | exact N].
  - cbn [bind] in H. destruct (gs_insert_edge g e) as [g1| |] eqn:E.
    + destruct (insert_edge_spec _ _ _ E) as [-> Fr]. destruct (IH _ _ H) as [-> N'].
      * cbn [gs_edges]. apply NoDup_pairs_snoc; assumption.
      * cbn [gs_blocks gs_edges gs_next] in *. rewrite <- app_assoc in *. cbn [app] in *. split; [reflexivity | exact N'].
    + exfalso. clear -H. induction t as [|x t IH]; cbn in H; [discriminate | apply IH; exact H].
    + exfalso. clear -H. induction t as [|x t IH]; cbn in H; [discriminate | apply IH; exact H].
Qed.

Lemma map_res_reindex k base bs es es' : idx_seq k bs ->
  map_res (fun e => h <- reindex (number_from base bs) (e_head e) ;; t <- reindex (number_from base bs) (e_tail e) ;; Ok (mkedge h t (e_cond e))) es = Ok es' ->
  es' = map (fun e => mkedge (base + (e_head e - k)) (base + (e_tail e - k)) (e_cond e)) es.
Proof.
  intros S. revert es'. induction es as [|e t IH]; intros es' H; cbn [map_res] in H; [injection H as <-; reflexivity|].
  inv_bind H. inv_bind H. injection H as <-. cbn [map]. f_equal; [|apply IH; reflexivity].
  unfold reindex in E. inv_bind E. inv_bind E. injection E as <-.
  destruct (bt_get (number_from base bs) (e_head e)) as [h|] eqn:Gh; [|discriminate]. injection E1 as <-.
  destruct (bt_get (number_from base bs) (e_tail e)) as [tl|] eqn:Gt; [|discriminate]. injection E2 as <-.
  destruct (number_from_some _ _ _ _ _ S Gh) as [-> _]. destruct (number_from_some _ _ _ _ _ S Gt) as [-> _]. reflexivity.
Qed.

Lemma gs_insert_spec g other g' ee : ig_wf other -> gs_insert g other = Ok (g', ee) ->
  NoDup (map pair_of (gs_edges g)) ->
  exists en ex, g_entry other = Some en /\ g_exit other = Some ex /\
    0 <= en < Z.of_nat (length (g_blocks other)) /\ 0 <= ex < Z.of_nat (length (g_blocks other)) /\
    ee = (en + gs_next g, ex + gs_next g) /\
    g' = mkgs (gs_blocks g ++ map (shift_block (gs_next g)) (g_blocks other))
              (gs_edges g ++ map (shift_edge (gs_next g)) (g_edges other))
              (gs_next g + Z.of_nat (length (g_blocks other))) /\
    NoDup (map pair_of (gs_edges g')).
Proof.
  unfold ig_wf, gs_insert. intros S H N. destruct (g_entry other) as [en|]; [|discriminate]. destruct (g_exit other) as [ex|]; [|discriminate].
  inv_bind H. inv_bind H.
  destruct (bt_get (number_from (gs_next g) (g_blocks other)) en) as [en'|] eqn:Ge; [|discriminate].
  destruct (bt_get (number_from (gs_next g) (g_blocks other)) ex) as [ex'|] eqn:Gx; [|discriminate].
  injection H as <- <-. exists en, ex. split; [reflexivity|]. split; [reflexivity|].
  destruct (number_from_some _ _ _ _ _ S Ge) as [-> Re]. destruct (number_from_some _ _ _ _ _ S Gx) as [-> Rx].
  split; [lia|]. split; [lia|]. split; [f_equal; lia|].
  rewrite (map_res_reindex _ _ _ _ _ S E) in E0.
  destruct (fold_insert_edge_spec _ _ _ E0 N) as [-> N']. cbn [gs_blocks gs_edges gs_next] in *.
  assert (Eb : map (fun b => mkblock (match bt_get (number_from (gs_next g) (g_blocks other)) (b_index b) with Some j => j | None => b_index b end)
                                     (b_next b) (b_instrs b) (b_phis b)) (g_blocks other) = map (shift_block (gs_next g)) (g_blocks other)).
  { apply map_ext_in. intros b Ib. rewrite (number_from_get _ _ _ _ S Ib). unfold shift_block. f_equal. lia. }
  assert (Ee : map (fun e => mkedge (gs_next g + (e_head e - 0)) (gs_next g + (e_tail e - 0)) (e_cond e)) (g_edges other) =
               map (shift_edge (gs_next g)) (g_edges other)).
  { apply map_ext. intros e. unfold shift_edge. f_equal; lia. }
  rewrite Eb, Ee in *. split; [reflexivity | exact N'].
Qed.

(* ------------------------------------------------------------------ layouts *)
Record ent := mkent { t_addr : Z; t_ig : cfg; t_base : Z }.
Definition t_len (t : ent) : Z := Z.of_nat (length (g_blocks (t_ig t))).
Definition t_entry (t : ent) : Z := match g_entry (t_ig t) with Some e => e + t_base t | None => t_base t end.
Definition t_exit (t : ent) : Z := match g_exit (t_ig t) with Some e => e + t_base t | None => t_base t end.
Definition lay_blocks (lay : list ent) : list block := flat_map (fun t => map (shift_block (t_base t)) (g_blocks (t_ig t))) lay.
Definition lay_edges (lay : list ent) : list edge := flat_map (fun t => map (shift_edge (t_base t)) (g_edges (t_ig t))) lay.
Fixpoint find_ent (lay : list ent) (x : Z) : option ent :=
  match lay with [] => None | t :: r => if t_addr t =? x then Some t else find_ent r x end.
Definition ent_ok (t : ent) : Prop :=
  ig_wf (t_ig t) /\ exists en ex, g_entry (t_ig t) = Some en /\ g_exit (t_ig t) = Some ex /\ 0 <= en < t_len t /\ 0 <= ex < t_len t.
Fixpoint lay_ok (base : Z) (lay : list ent) : Prop :=
  match lay with [] => True | t :: r => t_base t = base /\ ent_ok t /\ lay_ok (base + t_len t) r end.
Fixpoint lay_end (base : Z) (lay : list ent) : Z :=
  match lay with [] => base | t :: r => lay_end (base + t_len t) r end.

Lemma lay_ok_snoc base lay t : lay_ok base lay -> t_base t = lay_end base lay -> ent_ok t -> lay_ok base (lay ++ [t]).
Proof.
  revert base. induction lay as [|u r IH]; intros base L B O; cbn in *; [tauto|].
  destruct L as (A & C & D). split; [exact A|]. split; [exact C|]. apply IH; assumption.
Qed.
Lemma lay_end_snoc base lay t : lay_end base (lay ++ [t]) = lay_end base lay + t_len t.
Proof. revert base. induction lay as [|u r IH]; intros base; cbn; [reflexivity | apply IH]. Qed.
Lemma lay_blocks_snoc lay t : lay_blocks (lay ++ [t]) = lay_blocks lay ++ map (shift_block (t_base t)) (g_blocks (t_ig t)).
Proof. unfold lay_blocks. rewrite flat_map_app. cbn. rewrite app_nil_r. reflexivity. Qed.
Lemma lay_edges_snoc lay t : lay_edges (lay ++ [t]) = lay_edges lay ++ map (shift_edge (t_base t)) (g_edges (t_ig t)).
Proof. unfold lay_edges. rewrite flat_map_app. cbn. rewrite app_nil_r. reflexivity. Qed.
Lemma find_ent_in lay x t : find_ent lay x = Some t -> In t lay /\ t_addr t = x.
Proof.
  induction lay as [|u r IH]; cbn; [discriminate|]. destruct (Z.eqb_spec (t_addr u) x) as [E|E].
  - intros [= <-]. split; [left; reflexivity | exact E].
  - intros H. destruct (IH H). split; [right|]; assumption.
Qed.
Lemma find_ent_none lay x : find_ent lay x = None -> ~ In x (map t_addr lay).
Proof.
  induction lay as [|u r IH]; cbn; [intros _ []|]. destruct (Z.eqb_spec (t_addr u) x) as [E|E]; [discriminate|].
  intros H [I|I]; [contradiction | exact (IH H I)].
Qed.
Lemma find_ent_snoc lay t x : find_ent (lay ++ [t]) x =
  match find_ent lay x with Some u => Some u | None => if t_addr t =? x then Some t else None end.
Proof. induction lay as [|u r IH]; cbn; [reflexivity|]. destruct (t_addr u =? x); [reflexivity | exact IH]. Qed.
Lemma find_ent_nodup lay t : NoDup (map t_addr lay) -> In t lay -> find_ent lay (t_addr t) = Some t.
Proof.
  induction lay as [|u r IH]; cbn; intros N I; [destruct I|]. inversion N as [|? ? Nu Nr]; subst.
  destruct I as [->|I]; [rewrite Z.eqb_refl; reflexivity|].
  destruct (Z.eqb_spec (t_addr u) (t_addr t)) as [E|E]; [|apply IH; assumption].
  exfalso. apply Nu. rewrite E. apply in_map. exact I.
Qed.

(* ------------------------------------------------------------------ the assembly loop keeps a layout *)
Lemma find_edge_some_pair es h t e : find_edge es h t = Some e -> In e es /\ pair_of e = (h, t).
Proof.
  induction es as [|x r IH]; cbn [find_edge]; [discriminate|].
  destruct ((e_head x =? h) && (e_tail x =? t)) eqn:E.
  - intros [= <-]. apply andb_prop in E as [E1 E2]. apply Z.eqb_eq in E1. apply Z.eqb_eq in E2.
    split; [left; reflexivity | unfold pair_of; congruence].
  - intros H. destruct (IH H) as [A B]. split; [right; exact A | exact B].
Qed.

Section Asm.
  Variable G : Z -> cfg.
  Hypothesis G_wf : forall x, ig_wf (G x).
  Variable consec : Z -> Z -> Prop.

  Definition lk_ok (lay : list ent) (e : edge) : Prop :=
    exists tx ty, In tx lay /\ In ty lay /\ e = mkedge (t_exit tx) (t_entry ty) None /\ consec (t_addr tx) (t_addr ty).
  Definition linked (g : gstate) (lay : list ent) (x y : Z) : Prop :=
    exists tx ty, In tx lay /\ In ty lay /\ t_addr tx = x /\ t_addr ty = y /\
                  In (t_exit tx, t_entry ty) (map pair_of (gs_edges g)).

  Record linv (st : astate) (lay : list ent) (lk : list edge) : Prop := {
    v_blocks : gs_blocks (as_g st) = lay_blocks lay;
    v_edges : forall e, In e (gs_edges (as_g st)) <-> In e (lay_edges lay) \/ In e lk;
    v_pairs : NoDup (map pair_of (gs_edges (as_g st)));
    v_ok : lay_ok 0 lay;
    v_next : gs_next (as_g st) = lay_end 0 lay;
    v_keys : NoDup (map t_addr lay);
    v_graph : forall t, In t lay -> t_ig t = G (t_addr t);
    v_ii : forall x, bt_get (as_ii st) x = option_map (fun t => (t_entry t, t_exit t)) (find_ent lay x);
    v_lk : forall e, In e lk -> lk_ok lay e }.

  Lemma lk_ok_mono lay ext e : lk_ok lay e -> lk_ok (lay ++ ext) e.
  Proof. intros (tx & ty & A & B & C & D). exists tx, ty. split; [apply in_or_app; left; exact A|]. split; [apply in_or_app; left; exact B|]. split; assumption. Qed.

  (* look an address up in instruction_indices, inserting its graph when it is new *)
  Lemma ab_lookup st lay lk a st1 en ex : linv st lay lk ->
    match bt_get (as_ii st) a with
    | Some ee => Ok (st, ee)
    | None => x <- gs_insert (as_g st) (G a) ;; Ok (mkas (fst x) (bt_insert (as_ii st) a (snd x)), snd x)
    end = Ok (st1, (en, ex)) ->
    exists ext t, linv st1 (lay ++ ext) lk /\ In t (lay ++ ext) /\ t_addr t = a /\ en = t_entry t /\ ex = t_exit t /\
                  (forall e, In e (gs_edges (as_g st)) -> In e (gs_edges (as_g st1))) /\ (forall u, In u ext -> t_addr u = a).
  Proof.
    intros I H. destruct I as [Vb Ve Vp Vo Vn Vk Vg Vi Vl]. rewrite (Vi a) in H.
    destruct (find_ent lay a) as [t|] eqn:F; cbn [option_map] in H.
    - inversion H; subst; clear H. exists [], t. rewrite app_nil_r. destruct (find_ent_in _ _ _ F) as [It Et].
      split; [constructor; assumption|]. split; [exact It|]. split; [exact Et|]. split; [reflexivity|]. split; [reflexivity|]. split; [intros e He; exact He | intros u []].
    - inv_bind H. destruct a0 as [g1 ee1]. cbn [fst snd] in H. inversion H; subst; clear H.
      destruct (gs_insert_spec _ _ _ _ (G_wf a) E Vp) as (en0 & ex0 & Gen & Gex & Ren & Rex & Eee & -> & Np).
      injection Eee as -> ->. set (t := mkent a (G a) (gs_next (as_g st))).
      assert (Ten : t_entry t = en0 + gs_next (as_g st)) by (unfold t_entry; cbn [t_ig t_base t]; rewrite Gen; reflexivity).
      assert (Tex : t_exit t = ex0 + gs_next (as_g st)) by (unfold t_exit; cbn [t_ig t_base t]; rewrite Gex; reflexivity).
      exists [t], t. split; [constructor; cbn [as_g as_ii gs_blocks gs_edges gs_next]|].
      + rewrite Vb, lay_blocks_snoc. reflexivity.
      + intros e. rewrite in_app_iff, lay_edges_snoc, in_app_iff, (Ve e). cbn [t_base t_ig t]. tauto.
      + exact Np.
      + apply lay_ok_snoc; [exact Vo | cbn [t_base t]; exact Vn |]. split; [exact (G_wf a)|]. exists en0, ex0. cbn [t_ig t]. unfold t_len. cbn [t_ig t]. tauto.
      + rewrite lay_end_snoc, <- Vn. reflexivity.
      + rewrite map_app. cbn [map t_addr t]. apply NoDup_snoc; [exact Vk | apply find_ent_none; exact F].
      + intros u Iu. apply in_app_or in Iu as [Iu|[<-|[]]]; [apply Vg; exact Iu | reflexivity].
      + intros x. rewrite bt_get_insert, find_ent_snoc. cbn [t_addr t].
        destruct (Z.eqb_spec a x) as [<-|Nx].
        * rewrite F. cbn [option_map]. rewrite Ten, Tex. reflexivity.
        * rewrite (Vi x). destruct (find_ent lay x); reflexivity.
      + intros e Ie. apply lk_ok_mono. apply Vl. exact Ie.
      + split; [apply in_or_app; right; left; reflexivity|]. split; [reflexivity|]. split; [symmetry; exact Ten|]. split; [symmetry; exact Tex|].
        split; [intros e He; cbn [as_g gs_edges]; apply in_or_app; left; exact He | intros u [<-|[]]; reflexivity].
  Qed.

  (* the chain edge from the previous instruction *)
  Lemma ab_chain st lay lk tp t g2 : linv st lay lk -> In tp lay -> In t lay -> consec (t_addr tp) (t_addr t) ->
    (if gs_has_edge (as_g st) (t_exit tp) (t_entry t) then Ok (as_g st)
     else gs_insert_edge (as_g st) (mkedge (t_exit tp) (t_entry t) None)) = Ok g2 ->
    exists lk', linv (mkas g2 (as_ii st)) lay lk' /\ incl lk lk' /\ linked g2 lay (t_addr tp) (t_addr t) /\
                (forall e, In e (gs_edges (as_g st)) -> In e (gs_edges g2)).
  Proof.
    intros I Ip It Cs H. destruct I as [Vb Ve Vp Vo Vn Vk Vg Vi Vl]. unfold gs_has_edge in H.
    destruct (find_edge (gs_edges (as_g st)) (t_exit tp) (t_entry t)) as [e0|] eqn:F.
    - injection H as <-. exists lk. split; [constructor; assumption|]. split; [apply incl_refl|]. split; [|intros e He; exact He].
      exists tp, t. repeat (split; [assumption || reflexivity|]). destruct (find_edge_some_pair _ _ _ _ F) as [Ie Pe].
      rewrite <- Pe. apply in_map. exact Ie.
    - destruct (insert_edge_spec _ _ _ H) as [-> Fr]. exists (lk ++ [mkedge (t_exit tp) (t_entry t) None]).
      split; [constructor; cbn [as_g as_ii gs_blocks gs_edges gs_next]; try assumption|].
      + intros e. rewrite !in_app_iff, (Ve e). tauto.
      + apply NoDup_pairs_snoc; assumption.
      + intros e Ie. apply in_app_or in Ie as [Ie|[<-|[]]]; [apply Vl; exact Ie|]. exists tp, t. repeat (split; [assumption || reflexivity|]). exact Cs.
      + split; [apply incl_appl, incl_refl|]. split; [|intros e He; cbn [gs_edges]; apply in_or_app; left; exact He].
        exists tp, t. repeat (split; [assumption || reflexivity|]). cbn [gs_edges]. rewrite map_app. apply in_or_app. right. left. reflexivity.
  Qed.

  Lemma linked_mono g g' lay ext x y : (forall e, In e (gs_edges g) -> In e (gs_edges g')) ->
    linked g lay x y -> linked g' (lay ++ ext) x y.
  Proof.
    intros M (tx & ty & A & B & C & D & E). exists tx, ty. split; [apply in_or_app; left; exact A|]. split; [apply in_or_app; left; exact B|].
    split; [exact C|]. split; [exact D|]. apply in_map_iff in E as (e & Pe & Ie). rewrite <- Pe. apply in_map. apply M. exact Ie.
  Qed.

  Fixpoint chain_ok (pa : option Z) (ins : list (Z * cfg)) : Prop :=
    match ins with
    | [] => True
    | (a, _) :: rest => match pa with Some p => consec p a | None => True end /\ chain_ok (Some a) rest
    end.
  Fixpoint links_done (g : gstate) (lay : list ent) (pa : option Z) (ins : list (Z * cfg)) : Prop :=
    match ins with
    | [] => True
    | (a, _) :: rest => match pa with Some p => linked g lay p a | None => True end /\ links_done g lay (Some a) rest
    end.
  Fixpoint last_addr (ins : list (Z * cfg)) : option Z :=
    match ins with [] => None | (a, _) :: rest => match rest with [] => Some a | _ => last_addr rest end end.
  Definition prev_rel (lay : list ent) (prev pa : option Z) : Prop :=
    match pa with None => prev = None | Some p => exists tp, In tp lay /\ t_addr tp = p /\ prev = Some (t_exit tp) end.

  Lemma links_done_mono g g' lay ext pa ins : (forall e, In e (gs_edges g) -> In e (gs_edges g')) ->
    links_done g lay pa ins -> links_done g' (lay ++ ext) pa ins.
  Proof.
    intros M. revert pa. induction ins as [|[a ig] rest IH]; intros pa H; cbn in *; [exact I|]. destruct H as [H1 H2].
    split; [destruct pa; [eapply linked_mono; eassumption | exact I] | apply IH; exact H2].
  Qed.

  Lemma ab_spec : forall ins st lay lk be bx prev pa st' r,
    linv st lay lk -> (forall x ig, In (x, ig) ins -> ig = G x) -> chain_ok pa ins -> prev_rel lay prev pa ->
    assemble_block st ins be bx prev = Ok (st', r) ->
    exists ext lk', linv st' (lay ++ ext) lk' /\ incl lk lk' /\
      (forall e, In e (gs_edges (as_g st)) -> In e (gs_edges (as_g st'))) /\
      links_done (as_g st') (lay ++ ext) pa ins /\
      (forall x ig, In (x, ig) ins -> In x (map t_addr (lay ++ ext))) /\
      (pa = None -> forall a0 g0 rest, ins = (a0, g0) :: rest -> exists t0, In t0 (lay ++ ext) /\ t_addr t0 = a0 /\ fst r = t_entry t0) /\
      (pa <> None -> fst r = be) /\
      (forall al, last_addr ins = Some al -> exists tl, In tl (lay ++ ext) /\ t_addr tl = al /\ snd r = t_exit tl) /\
      (ins = [] -> snd r = bx) /\
      (forall u, In u ext -> In (t_addr u) (map fst ins)).
  Proof.
    induction ins as [|[a ig] rest IH]; intros st lay lk be bx prev pa st' r I HG HC HP H; cbn [assemble_block] in H.
    - injection H as <- <-. exists [], lk. rewrite app_nil_r. split; [exact I|]. split; [apply incl_refl|]. split; [intros e He; exact He|].
      split; [exact Logic.I|]. split; [intros ? ? []|]. split; [intros _ ? ? ? E; discriminate E|]. split; [reflexivity|]. split; [intros ? E; discriminate E|]. split; [reflexivity | intros u []].
    - rewrite (HG a ig (or_introl eq_refl)) in H. inv_bind H. destruct a0 as [st1 [en ex]]. cbn [fst snd] in H.
      destruct (ab_lookup _ _ _ _ _ _ _ I E) as (ext1 & t & I1 & It & Ta & -> & -> & M1 & Pv1).
      destruct HC as [HC1 HC2].
      assert (HG' : forall x ig0, In (x, ig0) rest -> ig0 = G x) by (intros x ig0 Hx; apply HG; right; exact Hx).
      assert (PR : prev_rel (lay ++ ext1) (Some (t_exit t)) (Some a)) by (exists t; split; [exact It | split; [exact Ta | reflexivity]]).
      assert (Last : forall (r0 : Z * Z) lay2, (forall al, last_addr rest = Some al -> exists tl, In tl lay2 /\ t_addr tl = al /\ snd r0 = t_exit tl) ->
                (rest = [] -> snd r0 = t_exit t) -> (forall u, In u (lay ++ ext1) -> In u lay2) ->
                forall al, last_addr ((a, ig) :: rest) = Some al -> exists tl, In tl lay2 /\ t_addr tl = al /\ snd r0 = t_exit tl).
      { intros r0 lay2 L1 L2 Sub al HL. cbn [last_addr] in HL. destruct rest as [|y rest'].
        - injection HL as <-. exists t. split; [apply Sub; exact It|]. split; [exact Ta | apply L2; reflexivity].
        - apply L1. exact HL. }
      destruct pa as [p|].
      + destruct HP as (tp & Ip & Tp & ->). inv_bind H.
        assert (Ip1 : In tp (lay ++ ext1)) by (apply in_or_app; left; exact Ip).
        assert (Cs : consec (t_addr tp) (t_addr t)) by (rewrite Tp, Ta; exact HC1).
        destruct (ab_chain _ _ _ _ _ _ I1 Ip1 It Cs E0) as (lk2 & I2 & Inc2 & Lk2 & M2).
        destruct (IH _ _ _ _ _ _ _ _ _ I2 HG' HC2 PR H) as (ext2 & lk' & I' & Inc' & M' & LD & Cov & _ & R1' & R2 & R2' & Pv2).
        exists (ext1 ++ ext2), lk'. rewrite app_assoc. split; [exact I'|]. split; [eapply incl_tran; eassumption|].
        split; [intros e He; apply M'; cbn [as_g]; apply M2; apply M1; exact He|].
        split; [cbn [links_done]; split; [|exact LD]; rewrite <- Tp, <- Ta; eapply linked_mono; [|exact Lk2]; exact M'|].
        split; [intros x ig0 [Ex|Hx]; [injection Ex as <- _; rewrite <- Ta; apply in_map; apply in_or_app; left; exact It | eapply Cov; exact Hx]|].
        split; [intros Ep; discriminate Ep|]. split; [intros _; apply R1'; discriminate|].
        split; [apply Last; [exact R2 | exact R2' | intros u Hu; apply in_or_app; left; exact Hu]|]. split; [intros Ei; discriminate Ei|].
        intros u Hu. cbn [map fst]. apply in_app_or in Hu as [Hu|Hu]; [left; symmetry; apply Pv1; exact Hu | right; apply Pv2; exact Hu].
      + cbn in HP. subst prev.
        destruct (IH _ _ _ _ _ _ _ _ _ I1 HG' HC2 PR H) as (ext2 & lk' & I' & Inc' & M' & LD & Cov & _ & R1' & R2 & R2' & Pv2).
        exists (ext1 ++ ext2), lk'. rewrite app_assoc. split; [exact I'|]. split; [exact Inc'|].
        split; [intros e He; apply M'; apply M1; exact He|].
        split; [cbn [links_done]; split; [exact Logic.I | exact LD]|].
        split; [intros x ig0 [Ex|Hx]; [injection Ex as <- _; rewrite <- Ta; apply in_map; apply in_or_app; left; exact It | eapply Cov; exact Hx]|].
        split; [intros _ a0 g0 rest0 Ei; injection Ei as <- _ _; exists t; split; [apply in_or_app; left; exact It | split; [exact Ta | apply R1'; discriminate]]|].
        split; [intros X; exfalso; apply X; reflexivity|].
        split; [apply Last; [exact R2 | exact R2' | intros u Hu; apply in_or_app; left; exact Hu]|]. split; [intros Ei; discriminate Ei|].
        intros u Hu. cbn [map fst]. apply in_app_or in Hu as [Hu|Hu]; [left; symmetry; apply Pv1; exact Hu | right; apply Pv2; exact Hu].
  Qed.

  Lemma last_addr_none ins : last_addr ins = None -> ins = [].
  Proof.
    induction ins as [|[a ig] rest IH]; [reflexivity|]. cbn [last_addr]. destruct rest as [|y r']; [discriminate|].
    intros H. specialize (IH H). discriminate IH.
  Qed.

  (* block_indices of one result: (entry of its first instruction, exit of its last) *)
  Definition bi_ok (lay : list ent) (bi : list (Z * (Z * Z))) (ar : Z * block_result) : Prop :=
    forall a0 g0 rest, br_instrs (snd ar) = (a0, g0) :: rest ->
      exists t0 tl, In t0 lay /\ In tl lay /\ t_addr t0 = a0 /\ last_addr (br_instrs (snd ar)) = Some (t_addr tl) /\
                    bt_get bi (fst ar) = Some (t_entry t0, t_exit tl).
  Lemma bi_ok_mono lay ext bi ar : bi_ok lay bi ar -> bi_ok (lay ++ ext) bi ar.
  Proof.
    intros H a0 g0 rest E. destruct (H _ _ _ E) as (t0 & tl & A & B & C). exists t0, tl.
    split; [apply in_or_app; left; exact A|]. split; [apply in_or_app; left; exact B | exact C].
  Qed.

  Definition res_ok (ar : Z * block_result) : Prop :=
    (forall x ig, In (x, ig) (br_instrs (snd ar)) -> ig = G x) /\ chain_ok None (br_instrs (snd ar)) /\ br_instrs (snd ar) <> [].

  Lemma asm_spec : forall results st lay lk bi st' bi',
    linv st lay lk -> (forall ar, In ar results -> res_ok ar) -> NoDup (map fst results) ->
    (forall a, In a (map fst results) -> bt_get bi a = None) ->
    assemble st results bi = Ok (st', bi') ->
    exists ext lk', linv st' (lay ++ ext) lk' /\ incl lk lk' /\
      (forall e, In e (gs_edges (as_g st)) -> In e (gs_edges (as_g st'))) /\
      (forall ar, In ar results -> links_done (as_g st') (lay ++ ext) None (br_instrs (snd ar))) /\
      (forall ar x ig, In ar results -> In (x, ig) (br_instrs (snd ar)) -> In x (map t_addr (lay ++ ext))) /\
      (forall ar, In ar results -> bi_ok (lay ++ ext) bi' ar) /\
      (forall a, ~ In a (map fst results) -> bt_get bi' a = bt_get bi a) /\
      (forall u, In u ext -> exists ar, In ar results /\ In (t_addr u) (map fst (br_instrs (snd ar)))).
  Proof.
    induction results as [|[a r] rest IH]; intros st lay lk bi st' bi' I HR ND HB H; cbn [assemble] in H.
    - injection H as <- <-. exists [], lk. rewrite app_nil_r. split; [exact I|]. split; [apply incl_refl|]. split; [intros e He; exact He|].
      split; [intros ? []|]. split; [intros ? ? ? []|]. split; [intros ? []|]. split; [reflexivity | intros u []].
    - inv_bind H. destruct a0 as [st1 ee]. cbn [fst snd] in H.
      destruct (HR (a, r) (or_introl eq_refl)) as (RG & RC & RN). cbn [snd] in RG, RC, RN.
      destruct (ab_spec _ _ _ _ _ _ _ None _ _ I RG RC eq_refl E) as (ext1 & lk1 & I1 & Inc1 & M1 & LD1 & Cov1 & R1 & _ & R2 & _ & Pv1).
      inversion ND as [|? ? Na Nr]; subst.
      assert (HB1 : forall a', In a' (map fst rest) -> bt_get (bt_insert bi a ee) a' = None).
      { intros a' Ha. rewrite bt_get_insert. destruct (Z.eqb_spec a a') as [<-|_]; [contradiction|]. apply HB. right. exact Ha. }
      destruct (IH _ _ _ _ _ _ I1 (fun ar Har => HR ar (or_intror Har)) Nr HB1 H) as (ext2 & lk' & I' & Inc' & M' & LD & Cov & BI & Keep & Pv2).
      exists (ext1 ++ ext2), lk'. rewrite app_assoc. split; [exact I'|]. split; [eapply incl_tran; eassumption|].
      split; [intros e He; apply M'; apply M1; exact He|].
      split; [intros ar [<-|Har]; [cbn [snd]; eapply links_done_mono; [exact M' | exact LD1] | apply LD; exact Har]|].
      split; [intros ar x ig [<-|Har] Hx; [cbn [snd] in Hx; rewrite map_app; apply in_or_app; left; eapply Cov1; exact Hx | eapply Cov; eassumption]|].
      split.
      + intros ar [<-|Har]; [|apply BI; exact Har]. apply bi_ok_mono. intros a0 g0 rest0 Ei. cbn [fst snd] in *.
        destruct (R1 eq_refl _ _ _ Ei) as (t0 & I0 & T0 & F0).
        destruct (last_addr (br_instrs r)) as [al|] eqn:La; [|apply last_addr_none in La; rewrite Ei in La; discriminate La].
        destruct (R2 _ eq_refl) as (tl & Il & Tl & Fl).
        exists t0, tl. split; [exact I0|]. split; [exact Il|]. split; [exact T0|]. split; [rewrite Tl; reflexivity|].
        rewrite (Keep a Na), bt_get_insert, Z.eqb_refl. destruct ee as [e1 e2]. cbn [fst snd] in F0, Fl. rewrite F0, Fl. reflexivity.
      + split.
        * intros a' Ha'. rewrite Keep by (intros X; apply Ha'; right; exact X). rewrite bt_get_insert.
          destruct (Z.eqb_spec a a') as [<-|_]; [exfalso; apply Ha'; left; reflexivity | reflexivity].
        * intros u Hu. apply in_app_or in Hu as [Hu|Hu].
          -- exists (a, r). split; [left; reflexivity | cbn [snd]; apply Pv1; exact Hu].
          -- destruct (Pv2 u Hu) as (ar & Iar & X). exists ar. split; [right; exact Iar | exact X].
  Qed.
End Asm.

(* ------------------------------------------------------------------ the successor-edge loop *)
Section Succ.
  Variable lay : list ent.
  Variable bi : list (Z * (Z * Z)).
  Variable results : list (Z * block_result).
  Hypothesis BI : forall ar, In ar results -> bi_ok lay bi ar.
  Hypothesis NE : forall ar, In ar results -> br_instrs (snd ar) <> [].
  (* every successor is a discovered block whose first instruction sits at the successor address *)
  Hypothesis CL : forall ar s c, In ar results -> In (s, c) (join_succ [] (br_succ (snd ar))) ->
    exists rs g0 rest, In (s, rs) results /\ br_instrs rs = (s, g0) :: rest.

  Definition sk_ok (e : edge) : Prop :=
    exists ar tl ts c, In ar results /\ In tl lay /\ In ts lay /\ last_addr (br_instrs (snd ar)) = Some (t_addr tl) /\
      In (t_addr ts, c) (join_succ [] (br_succ (snd ar))) /\ e = mkedge (t_exit tl) (t_entry ts) c.
  Definition sdone (g : gstate) (ar : Z * block_result) (J : list (Z * option expr)) : Prop :=
    forall s c, In (s, c) J -> exists tl ts, In tl lay /\ In ts lay /\ last_addr (br_instrs (snd ar)) = Some (t_addr tl) /\
      t_addr ts = s /\ In (t_exit tl, t_entry ts) (map pair_of (gs_edges g)).
  Record sinv2 (E0 : list edge) (g : gstate) (sk : list edge) : Prop := {
    s_blocks : gs_blocks g = lay_blocks lay;
    s_edges : forall e, In e (gs_edges g) <-> In e E0 \/ In e sk;
    s_pairs : NoDup (map pair_of (gs_edges g));
    s_sk : forall e, In e sk -> sk_ok e }.

  Lemma sdone_mono g g' ar J : (forall e, In e (gs_edges g) -> In e (gs_edges g')) -> sdone g ar J -> sdone g' ar J.
  Proof.
    intros M H s c I. destruct (H s c I) as (tl & ts & A & B & C & D & E). exists tl, ts. repeat (split; [assumption|]).
    apply in_map_iff in E as (e & Pe & Ie). rewrite <- Pe. apply in_map. apply M. exact Ie.
  Qed.

  Lemma add_successors_spec E0 g sk ar g' : In ar results -> sinv2 E0 g sk -> add_successors bi g ar = Ok g' ->
    exists sk', sinv2 E0 g' sk' /\ incl sk sk' /\ (forall e, In e (gs_edges g) -> In e (gs_edges g')) /\
                sdone g' ar (join_succ [] (br_succ (snd ar))).
  Proof.
    intros Iar I H. unfold add_successors in H. inv_bind H.
    destruct (br_instrs (snd ar)) as [|[a0 g0] rest0] eqn:Ei; [exfalso; exact (NE _ Iar Ei)|].
    destruct (BI _ Iar _ _ _ Ei) as (t0 & tl & I0 & Il & T0 & La & Gb).
    unfold bi_get in E. rewrite Gb in E. injection E as <-. cbn [fst snd] in H.
    assert (Gen : forall J g sk, (forall s c, In (s, c) J -> In (s, c) (join_succ [] (br_succ (snd ar)))) -> sinv2 E0 g sk ->
              fold_left (fun acc s => g' <- acc ;; e <- bi_get bi (fst s) ;;
                           if gs_has_edge g' (t_exit tl) (fst e) then Ok g'
                           else gs_insert_edge g' (mkedge (t_exit tl) (fst e) (snd s))) J (Ok g) = Ok g' ->
              exists sk', sinv2 E0 g' sk' /\ incl sk sk' /\ (forall e, In e (gs_edges g) -> In e (gs_edges g')) /\ sdone g' ar J).
    { clear H I g sk. induction J as [|[s c] J IHJ]; intros g sk Sub I H; cbn [fold_left] in H.
      - injection H as <-. exists sk. split; [exact I|]. split; [apply incl_refl|]. split; [intros e He; exact He | intros ? ? []].
      - cbn [bind fst snd] in H.
        destruct (CL ar s c Iar (Sub s c (or_introl eq_refl))) as (rs & gs0 & rests & Irs & Eis).
        destruct (BI _ Irs _ _ _ Eis) as (ts & tls & Its & _ & Tts & _ & Gbs). cbn [fst snd] in Gbs, Tts.
        unfold bi_get in H at 2. rewrite Gbs in H. cbn [bind fst] in H.
        assert (Step : exists g1 sk1, (if gs_has_edge g (t_exit tl) (t_entry ts) then Ok g else gs_insert_edge g (mkedge (t_exit tl) (t_entry ts) c)) = Ok g1 /\
                  sinv2 E0 g1 sk1 /\ incl sk sk1 /\ (forall e, In e (gs_edges g) -> In e (gs_edges g1)) /\
                  In (t_exit tl, t_entry ts) (map pair_of (gs_edges g1))).
        { destruct I as [Sb Se Sp Ss]. unfold gs_has_edge in *.
          destruct (find_edge (gs_edges g) (t_exit tl) (t_entry ts)) as [e0|] eqn:F.
          - exists g, sk. split; [reflexivity|]. split; [constructor; assumption|]. split; [apply incl_refl|]. split; [intros e He; exact He|].
            destruct (find_edge_some_pair _ _ _ _ F) as [Ie Pe]. rewrite <- Pe. apply in_map. exact Ie.
          - destruct (gs_insert_edge g (mkedge (t_exit tl) (t_entry ts) c)) as [g1| |] eqn:Ein.
            + destruct (insert_edge_spec _ _ _ Ein) as [-> Fr]. exists (mkgs (gs_blocks g) (gs_edges g ++ [mkedge (t_exit tl) (t_entry ts) c]) (gs_next g)), (sk ++ [mkedge (t_exit tl) (t_entry ts) c]).
              split; [reflexivity|]. split; [constructor; cbn [gs_blocks gs_edges]|].
              * exact Sb.
              * intros e. rewrite !in_app_iff, (Se e). tauto.
              * apply NoDup_pairs_snoc; assumption.
              * intros e Ie. apply in_app_or in Ie as [Ie|[<-|[]]]; [apply Ss; exact Ie|].
                exists ar, tl, ts, c. repeat (split; [assumption|]). split; [rewrite Tts; apply Sub; left; reflexivity | reflexivity].
              * split; [apply incl_appl, incl_refl|]. split; [intros e He; cbn [gs_edges]; apply in_or_app; left; exact He|].
                cbn [gs_edges]. rewrite map_app. apply in_or_app. right. left. reflexivity.
            + exfalso. clear -H. induction J as [|y J IH]; cbn in H; [discriminate | apply IH; exact H].
            + exfalso. clear -H. induction J as [|y J IH]; cbn in H; [discriminate | apply IH; exact H]. }
        destruct Step as (g1 & sk1 & Eg1 & I1 & Inc1 & M1 & P1). rewrite Eg1 in H.
        destruct (IHJ g1 sk1 (fun s' c' Hs => Sub s' c' (or_intror Hs)) I1 H) as (sk' & I' & Inc' & M' & SD).
        exists sk'. split; [exact I'|]. split; [eapply incl_tran; eassumption|]. split; [intros e He; apply M'; apply M1; exact He|].
        intros s' c' [Es|Hs]; [|exact (SD s' c' Hs)]. injection Es as <- <-. exists tl, ts. repeat (split; [assumption|]).
        apply in_map_iff in P1 as (e & Pe & Ie). rewrite <- Pe. apply in_map. apply M'. exact Ie. }
    apply (Gen _ g sk (fun s c Hs => Hs) I H).
  Qed.

  Lemma succ_phase E0 : forall rs g sk g', (forall ar, In ar rs -> In ar results) -> sinv2 E0 g sk ->
    fold_left (fun acc ar => g0 <- acc ;; add_successors bi g0 ar) rs (Ok g) = Ok g' ->
    exists sk', sinv2 E0 g' sk' /\ (forall e, In e (gs_edges g) -> In e (gs_edges g')) /\
                (forall ar, In ar rs -> sdone g' ar (join_succ [] (br_succ (snd ar)))).
  Proof.
    induction rs as [|ar rs IH]; intros g sk g' Sub I H; cbn [fold_left] in H.
    - injection H as <-. exists sk. split; [exact I|]. split; [intros e He; exact He | intros ? []].
    - cbn [bind] in H. destruct (add_successors bi g ar) as [g1| |] eqn:E.
      + destruct (add_successors_spec _ _ _ _ _ (Sub ar (or_introl eq_refl)) I E) as (sk1 & I1 & _ & M1 & SD1).
        destruct (IH _ _ _ (fun x Hx => Sub x (or_intror Hx)) I1 H) as (sk' & I' & M' & SD).
        exists sk'. split; [exact I'|]. split; [intros e He; apply M'; apply M1; exact He|].
        intros x [<-|Hx]; [eapply sdone_mono; [exact M' | exact SD1] | apply SD; exact Hx].
      + exfalso. clear -H. induction rs as [|y t IH]; cbn in H; [discriminate | apply IH; exact H].
      + exfalso. clear -H. induction rs as [|y t IH]; cbn in H; [discriminate | apply IH; exact H].
  Qed.
End Succ.

(* ------------------------------------------------------------------ ranges of a layout *)
Lemma ent_len_pos t : ent_ok t -> 0 < t_len t.
Proof. intros (_ & en & ex & _ & _ & R & _). lia. Qed.

Lemma lay_range base lay t : lay_ok base lay -> In t lay -> base <= t_base t /\ t_base t + t_len t <= lay_end base lay.
Proof.
  revert base. induction lay as [|u r IH]; intros base L I; [destruct I|]. cbn in L. destruct L as (B & O & L). cbn [lay_end].
  assert (Mono : forall b l, lay_ok b l -> b <= lay_end b l).
  { clear. intros b l. revert b. induction l as [|v l IH]; intros b L; cbn; [lia|]. destruct L as (_ & O & L). specialize (IH _ L).
    pose proof (ent_len_pos _ O). lia. }
  destruct I as [<-|I].
  - specialize (Mono _ _ L). lia.
  - destruct (IH _ L I) as [A C]. pose proof (ent_len_pos _ O). lia.
Qed.

Lemma lay_range_inj base lay t1 t2 i : lay_ok base lay -> In t1 lay -> In t2 lay ->
  t_base t1 <= i < t_base t1 + t_len t1 -> t_base t2 <= i < t_base t2 + t_len t2 -> t1 = t2.
Proof.
  revert base. induction lay as [|u r IH]; intros base L I1 I2 R1 R2; [destruct I1|]. cbn in L. destruct L as (B & O & L).
  destruct I1 as [<-|I1], I2 as [<-|I2]; [reflexivity | | | eapply IH; eassumption].
  - destruct (lay_range _ _ _ L I2). lia.
  - destruct (lay_range _ _ _ L I1). lia.
Qed.

Lemma find_block_shift base bs j : find_block (map (shift_block base) bs) (j + base) = option_map (shift_block base) (find_block bs j).
Proof.
  induction bs as [|b t IH]; cbn [map find_block]; [reflexivity|]. cbn [shift_block b_index].
  destruct (Z.eqb_spec (b_index b) j) as [E|E].
  - subst j. rewrite Z.eqb_refl. reflexivity.
  - destruct (Z.eqb_spec (b_index b + base) (j + base)); [lia | exact IH].
Qed.
Lemma find_block_app_none l1 l2 i : find_block l1 i = None -> find_block (l1 ++ l2) i = find_block l2 i.
Proof. induction l1 as [|b t IH]; cbn; [reflexivity|]. destruct (b_index b =? i); [discriminate | exact IH]. Qed.
Lemma find_block_none_range k bs i : idx_seq k bs -> ~ (k <= i < k + Z.of_nat (length bs)) -> find_block bs i = None.
Proof.
  intros S N. destruct (find_block bs i) as [b|] eqn:F; [|reflexivity]. exfalso. destruct (find_block_spec _ _ _ F) as [Ei Ib].
  pose proof (idx_seq_ge _ _ _ S Ib). lia.
Qed.

Lemma find_block_lay base lay t j b : lay_ok base lay -> In t lay -> find_block (g_blocks (t_ig t)) j = Some b ->
  find_block (lay_blocks lay) (j + t_base t) = Some (shift_block (t_base t) b).
Proof.
  revert base. induction lay as [|u r IH]; intros base L I F; [destruct I|]. cbn in L. destruct L as (B & O & L).
  unfold lay_blocks. cbn [flat_map]. fold (lay_blocks r). destruct I as [<-|I].
  - apply find_block_app. rewrite find_block_shift, F. reflexivity.
  - rewrite find_block_app_none; [eapply IH; eassumption|].
    destruct (find_block (map (shift_block (t_base u)) (g_blocks (t_ig u))) (j + t_base t)) as [b'|] eqn:F'; [|reflexivity]. exfalso.
    replace (j + t_base t) with ((j + t_base t - t_base u) + t_base u) in F' by lia. rewrite find_block_shift in F'.
    destruct (find_block (g_blocks (t_ig u)) (j + t_base t - t_base u)) as [b0|] eqn:F0; [|discriminate].
    destruct O as (S & _). destruct (find_block_spec _ _ _ F0) as [Ei Ib]. pose proof (idx_seq_ge _ _ _ S Ib) as Rg.
    destruct (find_block_spec _ _ _ F) as [Ej Ibj]. destruct (lay_range _ _ _ L I) as [Lo _].
    assert (0 <= j).
    { assert (St : ig_wf (t_ig t)). { clear -L I. revert L I. generalize (base + t_len u). induction r as [|v r IH]; intros b0 L I; [destruct I|]. destruct L as (_ & (S & _) & L). destruct I as [<-|I]; [exact S | eapply IH; eassumption]. }
      pose proof (idx_seq_ge _ _ _ St Ibj). lia. }
    unfold t_len in *. lia.
Qed.

(* ------------------------------------------------------------------ joined successors have distinct targets *)
Definition jupd (t : Z) (c : option expr) :=
  fix upd (l : list (Z * option expr)) : option (list (Z * option expr)) :=
    match l with
    | [] => None
    | (t', c') :: r =>
        if t' =? t then Some ((t', match c', c with Some a, Some b => Some (EBin Or a b) | _, _ => None end) :: r)
        else match upd r with Some r' => Some ((t', c') :: r') | None => None end
    end.
Lemma join_succ_cons acc t c rest :
  join_succ acc ((t, c) :: rest) = join_succ (match jupd t c acc with Some acc' => acc' | None => acc ++ [(t, c)] end) rest.
Proof. reflexivity. Qed.
Lemma jupd_keys t c l : match jupd t c l with Some l' => map fst l' = map fst l /\ In t (map fst l) | None => ~ In t (map fst l) end.
Proof.
  induction l as [|[t' c'] r IH]; cbn [jupd map fst]; [intros []|].
  destruct (Z.eqb_spec t' t) as [E|E].
  - split; [reflexivity | left; exact E].
  - fold (jupd t c r). destruct (jupd t c r) as [r'|].
    + destruct IH as [A B]. split; [cbn [map fst]; rewrite A; reflexivity | right; exact B].
    + intros [X|X]; [contradiction | exact (IH X)].
Qed.
Lemma join_succ_nodup s : forall acc, NoDup (map fst acc) -> NoDup (map fst (join_succ acc s)).
Proof.
  induction s as [|[t c] rest IH]; intros acc N; [exact N|]. rewrite join_succ_cons. apply IH.
  pose proof (jupd_keys t c acc) as K. destruct (jupd t c acc) as [acc'|].
  - destruct K as [-> _]. exact N.
  - rewrite map_app. cbn [map fst]. apply NoDup_snoc; assumption.
Qed.

(* ------------------------------------------------------------------ the recovered graph, edge by edge *)
Section RecSpec.
  Variable prog : Z -> option minstr.

  Definition mlinks (x : Z) (p : minstr) : list (Z * option expr) :=
    match mi_succ p with None => [(x + mi_len p, None)] | Some s => join_succ [] s end.
  (* the machine goes from x to y under guard c (successors with one target joined) *)
  Definition mlink (x y : Z) (c : option expr) : Prop := exists p, prog x = Some p /\ In (y, c) (mlinks x p).
  Lemma mlinks_nodup x p : NoDup (map fst (mlinks x p)).
  Proof. unfold mlinks. destruct (mi_succ p); [apply join_succ_nodup; constructor | repeat constructor; intros []]. Qed.
  Lemma mlink_fun x y c c' : mlink x y c -> mlink x y c' -> c = c'.
  Proof.
    intros (p & P & I) (p' & P' & I'). rewrite P in P'. injection P' as <-.
    pose proof (mlinks_nodup x p) as N. revert I I' N. generalize (mlinks x p). induction l as [|[t0 c0] l IH]; intros I I' N; [destruct I|].
    cbn [map fst] in N. inversion N as [|? ? N1 N2]; subst. destruct I as [E|I], I' as [E'|I'].
    - congruence.
    - injection E as -> ->. exfalso. apply N1. apply in_map_iff. exists (y, c'). split; [reflexivity | exact I'].
    - injection E' as -> ->. exfalso. apply N1. apply in_map_iff. exists (y, c). split; [reflexivity | exact I].
    - eapply IH; eassumption.
  Qed.

  Definition consec (x y : Z) : Prop := exists p, prog x = Some p /\ mi_succ p = None /\ y = x + mi_len p /\ prog y <> None.

  (* instruction graphs as the translators build them; nothing leaves an instruction's exit block inside its own graph *)
  Record ig_ok (ig : cfg) : Prop := {
    io_wf : ig_wf ig;
    io_in : forall e, In e (g_edges ig) -> 0 <= e_head e < Z.of_nat (length (g_blocks ig)) /\ 0 <= e_tail e < Z.of_nat (length (g_blocks ig));
    io_exit : forall e ex, In e (g_edges ig) -> g_exit ig = Some ex -> e_head e <> ex;
    io_nodup : NoDup (g_edges ig) }.
  Definition prog_ok : Prop := forall x p, prog x = Some p -> ig_ok (mi_graph p).

  Lemma empty_ig_ok : ig_ok empty_block_cfg.
  Proof. constructor; cbn; [split; [reflexivity | exact I] | intros ? [] | intros ? ? [] | constructor]. Qed.
  Lemma graph_at_ok : prog_ok -> forall x, ig_ok (graph_at prog x).
  Proof. intros PO x. unfold graph_at. destruct (prog x) as [p|] eqn:P; [apply (PO _ _ P) | apply empty_ig_ok]. Qed.

  Lemma run_chain a ins s : run_spec prog a ins s -> forall pa, match pa with Some p => consec p a | None => True end ->
    chain_ok consec pa ins.
  Proof.
    induction 1 as [a p s P K|a p P K|a p rest s P K R IH]; intros pa Hp; cbn [chain_ok]; try (split; [exact Hp | exact I]).
    split; [exact Hp|]. destruct (run_head _ _ _ _ R) as (g0 & tl & E). rewrite E in *. apply IH. exists p.
    split; [exact P|]. split; [exact K|]. split; [reflexivity|]. destruct (run_graphs _ _ _ _ R _ _ (or_introl eq_refl)) as [_ X]. exact X.
  Qed.

  Lemma run_last a ins s : run_spec prog a ins s -> exists z p, last_addr ins = Some z /\ prog z = Some p /\ join_succ [] s = mlinks z p.
  Proof.
    induction 1 as [a p s P K|a p P K|a p rest s P K R IH].
    - exists a, p. unfold mlinks. rewrite K. repeat split; assumption || reflexivity.
    - exists a, p. unfold mlinks. rewrite K. repeat split; assumption || reflexivity.
    - destruct IH as (z & q & L & Q & J). exists z, q. split; [|split; assumption].
      destruct (run_head _ _ _ _ R) as (g0 & tl & E). rewrite E in *. cbn [last_addr] in *. exact L.
  Qed.

  Lemma run_links g lay a ins s : run_spec prog a ins s -> forall pa, links_done g lay pa ins ->
    forall x, In x (map fst ins) -> last_addr ins = Some x \/ exists p, prog x = Some p /\ mi_succ p = None /\ linked g lay x (x + mi_len p).
  Proof.
    induction 1 as [a p s P K|a p P K|a p rest s P K R IH]; intros pa LD x Ix.
    - destruct Ix as [<-|[]]. left. reflexivity.
    - destruct Ix as [<-|[]]. left. reflexivity.
    - destruct (run_head _ _ _ _ R) as (g0 & tl & E). cbn [links_done] in LD. destruct LD as [_ LD].
      destruct Ix as [<-|Ix].
      + right. exists p. split; [exact P|]. split; [exact K|]. rewrite E in LD. cbn [links_done] in LD. destruct LD as [L _]. exact L.
      + destruct (IH _ LD x Ix) as [L|Rr]; [left | right; exact Rr]. rewrite E in *. cbn [last_addr] in *. exact L.
  Qed.

  (* ---------- discovery yields distinct keys ---------- *)
  Lemma bt_insert_keys {A} (m : list (Z * A)) a v x : In x (map fst (bt_insert m a v)) <-> x = a \/ In x (map fst m).
  Proof.
    induction m as [|[k w] t IH]; cbn [bt_insert map fst In]; [intuition|].
    destruct (Z.ltb_spec a k); cbn [map fst In]; [intuition|]. destruct (Z.eqb_spec a k); cbn [map fst In]; [subst; intuition|].
    rewrite IH. intuition.
  Qed.
  Lemma bt_insert_nodup {A} (m : list (Z * A)) a v : NoDup (map fst m) -> bt_mem m a = false -> NoDup (map fst (bt_insert m a v)).
  Proof.
    induction m as [|[k w] t IH]; cbn [bt_insert bt_mem map fst]; intros N M; [repeat constructor; intros []|].
    apply orb_false_elim in M as [M1 M2]. apply Z.eqb_neq in M1. inversion N as [|? ? N1 N2]; subst.
    assert (Na : ~ In a (map fst t)).
    { clear -M2. induction t as [|[k' w'] t IH]; cbn in *; [intros []|]. apply orb_false_elim in M2 as [Q1 Q2]. apply Z.eqb_neq in Q1. intros [X|X]; [congruence | exact (IH Q2 X)]. }
    destruct (Z.ltb_spec a k); cbn [map fst].
    - constructor; [intros [X|X]; [congruence | exact (Na X)] | exact N].
    - destruct (Z.eqb_spec a k); [congruence|]. cbn [map fst]. constructor; [|apply IH; assumption].
      rewrite bt_insert_keys. intros [X|X]; [congruence | exact (N1 X)].
  Qed.
  Lemma discover_nodup tb : forall fuel q results final, NoDup (map fst results) ->
    discover tb fuel q results = Ok final -> NoDup (map fst final).
  Proof.
    induction fuel as [|fuel IH]; intros q results final N H; cbn [discover] in H; [discriminate|].
    destruct q as [|a q']; [injection H as <-; exact N|]. destruct (bt_mem results a) eqn:M; [eapply IH; eassumption|].
    destruct (tb_lookup tb a) as [[r| |]|]; try discriminate; (eapply IH; [|exact H]); apply bt_insert_nodup; assumption.
  Qed.
End RecSpec.

Lemma join_succ_keys s : forall acc x, In x (map fst (join_succ acc s)) -> In x (map fst acc) \/ In x (map fst s).
Proof.
  induction s as [|[t c] rest IH]; intros acc x I; [left; exact I|]. rewrite join_succ_cons in I.
  destruct (IH _ _ I) as [A|A]; [|right; right; exact A].
  pose proof (jupd_keys t c acc) as K. destruct (jupd t c acc) as [acc'|].
  - destruct K as [E _]. rewrite E in A. left. exact A.
  - rewrite map_app in A. apply in_app_or in A as [A|[<-|[]]]; [left; exact A | right; left; reflexivity].
Qed.

Lemma lay_ent_ok base lay t : lay_ok base lay -> In t lay -> ent_ok t.
Proof.
  revert base. induction lay as [|u r IH]; intros base L I; [destruct I|]. destruct L as (_ & O & L).
  destruct I as [<-|I]; [exact O | eapply IH; eassumption].
Qed.
Lemma ent_exit_range t : ent_ok t -> t_base t <= t_exit t < t_base t + t_len t.
Proof. intros (_ & en & ex & _ & Ex & _ & R). unfold t_exit. rewrite Ex. lia. Qed.
Lemma ent_entry_range t : ent_ok t -> t_base t <= t_entry t < t_base t + t_len t.
Proof. intros (_ & en & ex & En & _ & R & _). unfold t_entry. rewrite En. lia. Qed.

(* the structure of a recovered graph: G_prog laid out in the order [lay] *)
Record rspec (prog : Z -> option minstr) (roots : list Z) (fa : Z) (lay : list ent) (g : cfg) : Prop := {
  rs_blocks : g_blocks g = lay_blocks lay;
  rs_ok : lay_ok 0 lay;
  rs_keys : NoDup (map t_addr lay);
  rs_graph : forall t, In t lay -> t_ig t = graph_at prog (t_addr t);
  rs_reach : forall x, In x (map t_addr lay) <-> reach prog roots x;
  rs_pairs : NoDup (map pair_of (g_edges g));
  rs_edges : forall e, In e (g_edges g) <->
               In e (lay_edges lay) \/
               exists tx ty c, In tx lay /\ In ty lay /\ mlink prog (t_addr tx) (t_addr ty) c /\ e = mkedge (t_exit tx) (t_entry ty) c;
  rs_entry : exists t0, In t0 lay /\ t_addr t0 = fa /\ g_entry g = Some (t_entry t0);
  rs_exit : g_exit g = None }.

Section Exact.
  Variable prog : Z -> option minstr.
  Hypothesis PO : prog_ok prog.
  Variable lay : list ent.
  Hypothesis LO : lay_ok 0 lay.
  Hypothesis LK : NoDup (map t_addr lay).
  Hypothesis LG : forall t, In t lay -> t_ig t = graph_at prog (t_addr t).

  Lemma internal_shape e : In e (lay_edges lay) -> exists tz e0, In tz lay /\ In e0 (g_edges (t_ig tz)) /\ e = shift_edge (t_base tz) e0 /\
    t_base tz <= e_head e < t_base tz + t_len tz /\ t_base tz <= e_tail e < t_base tz + t_len tz.
  Proof.
    unfold lay_edges. intros I. apply in_flat_map in I as (tz & Iz & I). apply in_map_iff in I as (e0 & <- & I0).
    exists tz, e0. split; [exact Iz|]. split; [exact I0|]. split; [reflexivity|].
    pose proof (graph_at_ok prog PO (t_addr tz)) as GO. rewrite <- (LG _ Iz) in GO. destruct (io_in _ GO _ I0) as [A B].
    unfold shift_edge, t_len. cbn [e_head e_tail]. lia.
  Qed.

  Lemma same_addr_ent t1 t2 : In t1 lay -> In t2 lay -> t_addr t1 = t_addr t2 -> t1 = t2.
  Proof. intros I1 I2 E. pose proof (find_ent_nodup _ _ LK I1) as F1. pose proof (find_ent_nodup _ _ LK I2) as F2. rewrite E in F1. congruence. Qed.

  (* an edge that leaves the exit block of x's copy and enters the entry block of y's copy is THE link edge *)
  Lemma exact_link e tx ty c : In tx lay -> In ty lay -> mlink prog (t_addr tx) (t_addr ty) c ->
    (In e (lay_edges lay) \/ exists tx' ty' c', In tx' lay /\ In ty' lay /\ mlink prog (t_addr tx') (t_addr ty') c' /\ e = mkedge (t_exit tx') (t_entry ty') c') ->
    pair_of e = (t_exit tx, t_entry ty) -> e = mkedge (t_exit tx) (t_entry ty) c.
  Proof.
    intros Ix Iy ML Cl Pe. pose proof (ent_exit_range _ (lay_ent_ok _ _ _ LO Ix)) as Rx. pose proof (ent_entry_range _ (lay_ent_ok _ _ _ LO Iy)) as Ry.
    unfold pair_of in Pe. injection Pe as Eh Et. destruct Cl as [Int|(tx' & ty' & c' & Ix' & Iy' & ML' & ->)].
    - exfalso. destruct (internal_shape _ Int) as (tz & e0 & Iz & I0 & -> & Rh & _). rewrite Eh in Rh.
      assert (tz = tx) by (eapply lay_range_inj; [exact LO | exact Iz | exact Ix | exact Rh | exact Rx]). subst tz.
      pose proof (graph_at_ok prog PO (t_addr tx)) as GO. rewrite <- (LG _ Ix) in GO.
      destruct (lay_ent_ok _ _ _ LO Ix) as (_ & en & ex & _ & Ex & _). unfold t_exit in Eh. rewrite Ex in Eh. cbn [shift_edge e_head] in Eh.
      apply (io_exit _ GO e0 ex I0 Ex). lia.
    - cbn [e_head e_tail] in Eh, Et.
      pose proof (ent_exit_range _ (lay_ent_ok _ _ _ LO Ix')) as Rx'. pose proof (ent_entry_range _ (lay_ent_ok _ _ _ LO Iy')) as Ry'.
      assert (tx' = tx) by (eapply lay_range_inj; [exact LO | exact Ix' | exact Ix | exact Rx' | rewrite Eh; exact Rx]). subst tx'.
      assert (ty' = ty) by (eapply lay_range_inj; [exact LO | exact Iy' | exact Iy | exact Ry' | rewrite Et; exact Ry]). subst ty'.
      rewrite (mlink_fun _ _ _ _ _ ML' ML). reflexivity.
  Qed.
End Exact.

(* ------------------------------------------------------------------ recover_graph_spec *)
Theorem recover_graph_spec prog tb fa f : tb_spec prog tb -> prog_ok prog -> recover tb fa [] = Ok f ->
  exists lay, rspec prog [fa] fa lay (f_cfg f) /\ f_addr f = fa.
Proof.
  intros TS PO H. unfold recover in H. cbn [flat_map] in H. inv_bind H. rename a into results. inv_bind H. destruct a as [st bi]. cbn [fst snd] in H.
  cbn [fold_left bind] in H. inv_bind H. rename a into g2. inv_bind H. destruct a as [en0 ex0]. cbn [fst] in H.
  destruct (gs_has_block g2 en0) eqn:HB; [|discriminate]. injection H as <-.
  set (roots := [fa]) in *.
  (* discovery *)
  assert (I0 : dinv prog tb roots roots []).
  { constructor; [intros ? ? [] | intros ? ? ? [] | intros x Hx; right; exact Hx |]. split; [intros ? ? [] | intros x Hx; apply reach_root; exact Hx]. }
  pose proof (discover_inv prog tb roots TS _ _ _ _ I0 E) as [De Ds Dr [Dk _]].
  assert (NDk : NoDup (map fst results)) by (eapply (discover_nodup prog tb); [|exact E]; constructor).
  assert (Shape : forall a r, In (a, r) results ->
            (run_spec prog a (br_instrs r) (br_succ r)) \/ (prog a = None /\ r = mkbr [(a, empty_block_cfg)] [])).
  { intros a r Ia. pose proof (TS a) as Ta. destruct (De a r Ia) as [Q|[Q ->]]; rewrite Q in Ta; [left; exact Ta | right; split; [exact Ta | reflexivity]]. }
  assert (Head : forall a r, In (a, r) results -> exists g0 rest, br_instrs r = (a, g0) :: rest).
  { intros a r Ia. destruct (Shape _ _ Ia) as [Rs|[_ ->]]; [exact (run_head _ _ _ _ Rs) | eexists; eexists; reflexivity]. }
  assert (RO : forall ar, In ar results -> res_ok (graph_at prog) (consec prog) ar).
  { intros [a r] Ia. unfold res_ok. cbn [snd]. destruct (Shape _ _ Ia) as [Rs|[Pa ->]].
    - split; [intros x ig Ix; apply (run_graphs _ _ _ _ Rs _ _ Ix)|]. split; [apply (run_chain _ _ _ _ Rs None I)|].
      destruct (run_head _ _ _ _ Rs) as (g0 & tl & ->). discriminate.
    - cbn [br_instrs]. split; [intros x ig [Q|[]]; injection Q as <- <-; unfold graph_at; rewrite Pa; reflexivity|].
      split; [cbn; tauto | discriminate]. }
  (* assembly *)
  assert (L0 : linv (graph_at prog) (consec prog) (mkas (mkgs [] [] 0) []) [] []).
  { constructor; cbn; try (constructor; fail); try tauto; try reflexivity; intros; contradiction. }
  destruct (asm_spec (graph_at prog) (fun x => io_wf _ (graph_at_ok prog PO x)) (consec prog) results _ [] [] [] _ _ L0 RO NDk (fun _ _ => eq_refl) E0)
    as (lay & lk & LI & _ & _ & LD & Cov & BI & _ & Pv).
  cbn [app] in *. destruct LI as [Vb Ve Vp Vo Vn Vk Vg Vi Vl].
  (* successor edges *)
  assert (NE : forall ar, In ar results -> br_instrs (snd ar) <> []) by (intros ar Ia; apply (RO ar Ia)).
  assert (CL : forall ar s c, In ar results -> In (s, c) (join_succ [] (br_succ (snd ar))) ->
            exists rs g0 rest, In (s, rs) results /\ br_instrs rs = (s, g0) :: rest).
  { intros [a r] s c Ia Is. cbn [snd] in Is.
    assert (Ik : In s (map fst (br_succ r))).
    { destruct (join_succ_keys _ [] s (in_map fst _ _ Is)) as [[]|X]; exact X. }
    destruct (Ds _ _ _ Ia Ik) as [M|[]]. apply bt_mem_in in M as [rs Irs]. destruct (Head _ _ Irs) as (g0 & rest & Eh).
    exists rs, g0, rest. split; assumption. }
  assert (S0 : sinv2 lay results (gs_edges (as_g st)) (as_g st) []).
  { constructor; [exact Vb | intros e; cbn [In]; tauto | exact Vp | intros ? []]. }
  destruct (succ_phase lay bi results BI NE CL (gs_edges (as_g st)) results (as_g st) [] g2 (fun ar Ia => Ia) S0 E1) as (sk & [Sb Se Sp Ss] & M2 & SD).
  (* every address of the layout is an instruction of some discovered block *)
  assert (Prov : forall t, In t lay -> exists a r, In (a, r) results /\ In (t_addr t) (map fst (br_instrs r))).
  { intros t It. destruct (Pv t It) as ([a r] & Ia & X). exists a, r. split; assumption. }
  (* classification of the edges *)
  assert (Sound : forall e, In e (gs_edges g2) -> In e (lay_edges lay) \/
            exists tx ty c, In tx lay /\ In ty lay /\ mlink prog (t_addr tx) (t_addr ty) c /\ e = mkedge (t_exit tx) (t_entry ty) c).
  { intros e He. apply Se in He as [He|He].
    - apply Ve in He as [He|He]; [left; exact He|]. right. destruct (Vl _ He) as (tx & ty & Ix & Iy & -> & (p & P & K & Ey & _)).
      exists tx, ty, None. repeat (split; [assumption|]). split; [|reflexivity]. exists p. split; [exact P|]. unfold mlinks. rewrite K, Ey. left. reflexivity.
    - right. destruct (Ss _ He) as ([a r] & tl & ts & c & Ia & Il & Its & La & Ij & ->). cbn [snd] in La, Ij.
      exists tl, ts, c. repeat (split; [assumption|]). split; [|reflexivity].
      destruct (Shape _ _ Ia) as [Rs|[_ ->]]; [|destruct Ij].
      destruct (run_last _ _ _ _ Rs) as (z & p & Lz & P & J). rewrite La in Lz. injection Lz as <-. exists p. split; [exact P|]. rewrite <- J. exact Ij. }
  assert (LGr : forall t, In t lay -> t_ig t = graph_at prog (t_addr t)) by exact Vg.
  exists lay. split; [|reflexivity]. constructor; cbn [f_cfg g_blocks g_edges g_entry g_exit].
  - exact Sb.
  - exact Vo.
  - exact Vk.
  - exact Vg.
  - (* exactly the reachable addresses *)
    intros x. split.
    + intros Hx. apply in_map_iff in Hx as (t & <- & It). destruct (Prov t It) as (a & r & Ia & Ix). pose proof (Dk _ _ Ia) as Ra.
      destruct (Shape _ _ Ia) as [Rs|[_ ->]].
      * destruct (run_reach prog roots _ _ _ Rs Ra) as [R1 _]. apply R1. exact Ix.
      * destruct Ix as [<-|[]]. exact Ra.
    + intros Rx. assert (X : exists a r, In (a, r) results /\ In x (map fst (br_instrs r))).
      { induction Rx as [r0 Ir|a0 y Ra IH Dy].
        - destruct (Dr _ Ir) as [M|[]]. apply bt_mem_in in M as [r Ia]. exists r0, r. split; [exact Ia|].
          destruct (Head _ _ Ia) as (g0 & tl & ->). left. reflexivity.
        - destruct IH as (b & r & Ib & Ia0). destruct (Shape _ _ Ib) as [Rs|[Pb ->]].
          + destruct (run_step prog _ _ _ Rs _ _ Ia0 Dy) as [Iy|Iy]; [exists b, r; split; assumption|].
            destruct (Ds _ _ _ Ib Iy) as [M|[]]. apply bt_mem_in in M as [r' Iy']. exists y, r'. split; [exact Iy'|].
            destruct (Head _ _ Iy') as (g0 & tl & ->). left. reflexivity.
          + exfalso. destruct Ia0 as [<-|[]]. destruct Dy as (p & Pp & _). cbn [fst] in Pp. rewrite Pb in Pp. discriminate. }
      destruct X as (a & r & Ia & Ix). apply in_map_iff in Ix as ([x' ig] & Q & Ix). cbn [fst] in Q. subst x'.
      apply (Cov (a, r) x ig Ia Ix).
  - exact Sp.
  - intros e. split; [apply Sound|]. intros [Int|(tx & ty & c & Ix & Iy & ML & ->)].
    + apply M2. apply Ve. left. exact Int.
    + (* completeness: the pair exists, hence the exact edge *)
      destruct (Prov tx Ix) as (a & r & Ia & Ixr). destruct ML as (p & P & Il).
      assert (Pair : In (t_exit tx, t_entry ty) (map pair_of (gs_edges g2))).
      { destruct (Shape _ _ Ia) as [Rs|[Pa ->]].
        - destruct (run_links prog (as_g st) lay _ _ _ Rs None (LD (a, r) Ia) _ Ixr) as [La|(q & Q & K & Lk)].
          + destruct (run_last _ _ _ _ Rs) as (z & q & Lz & Q & J). rewrite La in Lz. injection Lz as <-. rewrite P in Q. injection Q as <-.
            rewrite <- J in Il. destruct (SD (a, r) Ia _ _ Il) as (tl & ts & Itl & Its & La' & Ts & Pr). cbn [snd] in La'.
            rewrite La in La'. injection La' as Ea. rewrite (same_addr_ent lay Vk tx tl Ix Itl Ea), (same_addr_ent lay Vk ty ts Iy Its (eq_sym Ts)). exact Pr.
          + rewrite P in Q. injection Q as <-. unfold mlinks in Il. rewrite K in Il. destruct Il as [Q|[]]. injection Q as Ey <-.
            destruct Lk as (tx' & ty' & Ix' & Iy' & Ax & Ay & Pr).
            rewrite (same_addr_ent lay Vk tx tx' Ix Ix' (eq_sym Ax)), (same_addr_ent lay Vk ty ty' Iy Iy' (eq_trans (eq_sym Ey) (eq_sym Ay))).
            apply in_map_iff in Pr as (e & Pe & Ie). rewrite <- Pe. apply in_map. apply M2. exact Ie.
        - exfalso. destruct Ixr as [Q|[]]. cbn [fst] in Q. rewrite <- Q in P. rewrite Pa in P. discriminate. }
      apply in_map_iff in Pair as (e & Pe & Ie). pose proof (Sound e Ie) as Cl.
      rewrite <- (exact_link prog PO lay Vo Vg e tx ty c Ix Iy (ex_intro _ p (conj P Il)) Cl Pe). exact Ie.
  - (* the entry *)
    unfold bi_get in E2. destruct (bt_get bi fa) as [ee|] eqn:Gb; [|discriminate]. injection E2 as ->.
    destruct (Dr fa (or_introl eq_refl)) as [M|[]]. apply bt_mem_in in M as [r Ia]. destruct (Head _ _ Ia) as (g0 & rest & Eh).
    destruct (BI (fa, r) Ia _ _ _ Eh) as (t0 & tl & I0' & _ & T0 & _ & Gb'). cbn [fst] in Gb'. rewrite Gb in Gb'. injection Gb' as -> _.
    exists t0. split; [exact I0'|]. split; [exact T0 | reflexivity].
  - reflexivity.
Qed.

(* ------------------------------------------------------------------ graphs with the same blocks and the same edge SET *)
From Coq Require Import Permutation.

Section SameEdges.
  Variables g1 g2 : cfg.
  Hypothesis HB : g_blocks g1 = g_blocks g2.
  Hypothesis HE : forall e, In e (g_edges g1) <-> In e (g_edges g2).
  Hypothesis N1 : NoDup (map pair_of (g_edges g1)).
  Hypothesis N2 : NoDup (map pair_of (g_edges g2)).

  Lemma out_perm b : Permutation (out_edges g1 b) (out_edges g2 b).
  Proof.
    unfold out_edges. apply NoDup_Permutation.
    - apply NoDup_filter. eapply NoDup_map_inv. exact N1.
    - apply NoDup_filter. eapply NoDup_map_inv. exact N2.
    - intros e. rewrite !filter_In, HE. tauto.
  Qed.

  Definition krel (k1 k2 : kind) : Prop :=
    k1 = k2 \/ exists l1 l2, k1 = KBranch l1 /\ k2 = KBranch l2 /\ forall x, In x l1 <-> In x l2.

  Lemma kind_same p : krel (kind_of g1 p) (kind_of g2 p).
  Proof.
    unfold kind_of. rewrite HB. destruct (find_block (g_blocks g2) (fst p)) as [b|]; [|left; reflexivity].
    destruct (nth_error (b_instrs b) (snd p)); [left; reflexivity|].
    pose proof (out_perm (fst p)) as Pm. destruct (out_edges g1 (fst p)) as [|e1 [|e1' r1]] eqn:O1.
    - apply Permutation_nil in Pm. rewrite Pm. left. reflexivity.
    - apply Permutation_length_1_inv in Pm. rewrite Pm. left. reflexivity.
    - destruct (out_edges g2 (fst p)) as [|e2 [|e2' r2]] eqn:O2.
      + apply Permutation_sym, Permutation_nil in Pm. discriminate.
      + apply Permutation_sym, Permutation_length_1_inv in Pm. discriminate.
      + right. eexists. eexists. split; [reflexivity|]. split; [reflexivity|]. intros x.
        split; intros I; apply in_map_iff in I as (e & <- & Ie); apply in_map;
          [eapply Permutation_in; [exact Pm | exact Ie] | eapply Permutation_in; [apply Permutation_sym; exact Pm | exact Ie]].
  Qed.

  Lemma run_same p w q : run g1 p w q -> run g2 p w q.
  Proof.
    induction 1 as [p|p t w q K H IH|p x p' w q V H IH].
    - constructor.
    - destruct (kind_same p) as [E|(l1 & l2 & E1 & _)]; [|rewrite K in E1; discriminate].
      eapply run_sil; [rewrite <- E; exact K | exact IH].
    - eapply run_vis; [|exact IH]. inversion V as [x0 q0 K|l c t K I]; subst.
      + destruct (kind_same p) as [E|(l1 & l2 & E1 & _)]; [|rewrite K in E1; discriminate]. apply vs_ins. rewrite <- E. exact K.
      + destruct (kind_same p) as [E|(l1 & l2 & E1 & E2 & EL)].
        * eapply vs_grd; [rewrite <- E; exact K | exact I].
        * rewrite K in E1. injection E1 as <-. eapply vs_grd; [exact E2 | apply EL; exact I].
  Qed.
End SameEdges.

Theorem lang_same_edges g1 g2 : g_blocks g1 = g_blocks g2 -> g_entry g1 = g_entry g2 ->
  (forall e, In e (g_edges g1) <-> In e (g_edges g2)) ->
  NoDup (map pair_of (g_edges g1)) -> NoDup (map pair_of (g_edges g2)) -> forall w, lang g1 w <-> lang g2 w.
Proof.
  intros HB HEn HE N1 N2 w. unfold lang, lang_from. rewrite HEn. split; intros (e & E & q & R); exists e; (split; [exact E|]); exists q.
  - eapply run_same; eassumption.
  - eapply (run_same g2 g1); try eassumption; [symmetry; exact HB | intros x; symmetry; apply HE].
Qed.

(* the static view (edges in BTreeMap order) of a graph *)
Lemma insert_sorted_perm e l : Permutation (insert_sorted e l) (e :: l).
Proof.
  induction l as [|x t IH]; cbn [insert_sorted]; [apply Permutation_refl|]. destruct (edge_le e x); [apply Permutation_refl|].
  eapply perm_trans; [apply perm_skip; exact IH | apply perm_swap].
Qed.
Lemma sort_edges_perm l : Permutation (sort_edges l) l.
Proof.
  unfold sort_edges. induction l as [|x t IH]; cbn [fold_right]; [apply Permutation_refl|].
  eapply perm_trans; [apply insert_sorted_perm | apply perm_skip; exact IH].
Qed.
Lemma static_view_lang g : NoDup (map pair_of (g_edges g)) -> forall w, lang (static_view g) w <-> lang g w.
Proof.
  intros N. apply lang_same_edges; cbn [static_view g_blocks g_entry g_edges]; try reflexivity; [| |exact N].
  - intros e. split; intros I; (eapply Permutation_in; [|exact I]); [apply sort_edges_perm | apply Permutation_sym, sort_edges_perm].
  - eapply Permutation_NoDup; [|exact N]. apply Permutation_map. apply Permutation_sym, sort_edges_perm.
Qed.

(* [U] recover_lang_partial: under tb_spec, for programs without manual edges, the recovered graph has exactly the
   language of G_prog -- of EVERY graph that consists of one copy of the instruction graph of each reachable
   address (laid out in the order the recovery produced), the internal edges of the copies and exactly one edge
   per machine-level link, with the entry at the function address's copy. *)
Theorem recover_lang_partial prog tb fa f : tb_spec prog tb -> prog_ok prog -> recover tb fa [] = Ok f ->
  exists lay, rspec prog [fa] fa lay (f_cfg f) /\
    forall gp, rspec prog [fa] fa lay gp -> forall w, lang (f_cfg f) w <-> lang gp w.
Proof.
  intros TS PO H. destruct (recover_graph_spec _ _ _ _ TS PO H) as (lay & RS & _). exists lay. split; [exact RS|].
  intros gp RP. destruct RS as [B1 O1 K1 G1 R1 P1 E1 (t1 & I1 & A1 & N1) X1]. destruct RP as [B2 O2 K2 G2 R2 P2 E2 (t2 & I2 & A2 & N2) X2].
  apply lang_same_edges; [congruence | | | exact P1 | exact P2].
  - rewrite N1, N2. rewrite (same_addr_ent lay K1 t1 t2 I1 I2 (eq_trans A1 (eq_sym A2))). reflexivity.
  - intros e. rewrite E1, E2. tauto.
Qed.

Lemma idx_seq_find k bs i : idx_seq k bs -> k <= i < k + Z.of_nat (length bs) -> exists b, find_block bs i = Some b.
Proof.
  revert k. induction bs as [|x t IH]; intros k S R; cbn [length] in R; [lia|]. destruct S as [E S]. cbn [find_block].
  destruct (Z.eqb_spec (b_index x) i); [exists x; reflexivity|]. apply (IH (k + 1) S). lia.
Qed.

(* [U] recover_struct, clause "the entry block is the function address": the entry block of the recovered graph is
   the (re-indexed) entry block of the instruction graph of the instruction at the function address -- the same
   IL instructions with the same addresses -- and the exit is unset. *)
Theorem recover_entry_block prog tb fa f : tb_spec prog tb -> prog_ok prog -> recover tb fa [] = Ok f ->
  exists b en eb, g_entry (f_cfg f) = Some (b_index b) /\ find_block (g_blocks (f_cfg f)) (b_index b) = Some b /\
    g_entry (graph_at prog fa) = Some en /\ find_block (g_blocks (graph_at prog fa)) en = Some eb /\
    b_instrs b = b_instrs eb /\ g_exit (f_cfg f) = None.
Proof.
  intros TS PO H. destruct (recover_graph_spec _ _ _ _ TS PO H) as (lay & [B1 O1 K1 G1 R1 P1 E1 (t0 & I0 & A0 & N0) X1] & _).
  destruct (lay_ent_ok _ _ _ O1 I0) as (S & en & ex & En & _ & Ren & _).
  destruct (idx_seq_find _ _ _ S Ren) as [eb Feb].
  pose proof (find_block_lay _ _ _ _ _ O1 I0 Feb) as FB. rewrite <- B1 in FB.
  exists (shift_block (t_base t0) eb), en, eb. unfold t_entry in N0. rewrite En in N0.
  destruct (find_block_spec _ _ _ Feb) as [Eidx _]. cbn [shift_block b_index]. rewrite Eidx.
  rewrite (G1 _ I0), A0 in En, Feb. repeat split; assumption || reflexivity.
Qed.

(* ------------------------------------------------------------------ end to end *)
(* [U] The property's first sentence for the MODEL of translate_function_extended, including the final merge:
   for every program `prog` (with instruction graphs as the translators build them: prog_ok), every table of block
   translations that are straight-line runs of prog cut anywhere (tb_spec -- every placement of the 64-byte windows,
   every overlap between lifted blocks), without manual edges: if the model returns a function f' then
   - f' has exactly the language of G_prog, i.e. of every graph gp made of one copy of the instruction graph of each
     address reachable from fa, their internal edges and one edge per machine-level successor (rspec);
   - if moreover f' and gp pass the executable side conditions (det: distinct guards at each branching point; sem_wf),
     every finite run of the reference semantics Exec/Sem.v of f' is matched by a run of gp that executed the same
     instructions (address, operation) through the same states, and conversely: the lifted function executes like
     the machine code executed one instruction at a time.
   merge_ready is the executable precondition of C15's merge theorem (cfg_inv + non-negative counters). *)
Theorem recover_executes_like_machine_code prog tb fa f :
  tb_spec prog tb -> prog_ok prog -> recover tb fa [] = Ok f -> merge_ready (static_view (f_cfg f)) = true ->
  exists f' lay, recover_full tb fa [] = Ok f' /\ f_addr f' = fa /\ rspec prog [fa] fa lay (f_cfg f) /\
    forall gp, rspec prog [fa] fa lay (f_cfg gp) ->
      (forall w, lang (f_cfg f') w <-> lang (f_cfg gp) w) /\
      (det (f_cfg f') = true -> det (f_cfg gp) = true -> sem_wf (f_cfg f') = true -> sem_wf (f_cfg gp) = true ->
       forall st, (forall m1, exists m2, sem_obs m1 f' st = sem_obs m2 gp st) /\
                  (forall m2, exists m1, sem_obs m1 f' st = sem_obs m2 gp st)).
Proof.
  intros TS PO H MR. destruct (recover_full_lang _ _ _ _ H MR) as (f' & HF & Ea & L1).
  destruct (recover_lang_partial _ _ _ _ TS PO H) as (lay & RS & L3).
  exists f', lay. split; [exact HF|]. split; [exact Ea|]. split; [exact RS|]. intros gp RP.
  assert (LL : forall w, lang (f_cfg f') w <-> lang (f_cfg gp) w).
  { intros w. rewrite (L1 w), (static_view_lang _ (rs_pairs _ _ _ _ _ RS) w). apply L3. exact RP. }
  split; [exact LL|]. intros D1 D2 W1 W2. apply lang_eq_exec_sem_lang; try assumption; apply sem_wf_sound; assumption.
Qed.
