(* Lift/MirrorWf.v -- C05, third [U] bullet of the design: totality and well-formedness of the lifter MIRRORS
   (Isa/MipsLift.v, Isa/A64Lift.v, Isa/PpcLift.v -- Gallina transcriptions of the Rust semantics builders,
   tied per encoding to the real lifters by the syntactic ties of C02 / C03) over ALL operand fields:

     * a mirrored builder never yields Panic, whatever the register / immediate / shift / extend / address /
       temporary-id fields are (no range hypothesis at all for MIPS and PPC: the fields are arbitrary integers);
     * every block a mirror produces is well formed (wf_result = true, hence Wf_result) and deterministic
       (Det_result: in every state exactly one out-edge of each block and exactly one successor is enabled).

   Method: every builder is rewritten into its explicit result (the checked constructors succeed because the
   operand widths agree, whatever the field values); wf_graph is then computed on the explicit graph with the
   leaves (register expressions, constants) abstracted by their width lemmas; determinism is proved semantically
   from the complement lemmas below (a guard and its negation, cmpeq / cmpneq of the same operands, the
   disjunction produced by merge_successors). *)
From Coq Require Import ZArith List Bool NArith Lia.
From Falcon Require Import Base.Res IL.Const IL.ConstSpec IL.ConstProofs IL.Expr IL.ExprSpec IL.Func Exec.Sem
  Lift.Wf Lift.GuardDecide Lift.WfProofs.
From Falcon Require Isa.Mips Isa.MipsLift Isa.Ppc Isa.PpcLift.
Import ListNotations.
Local Open Scope Z_scope.

(* ================================================================== leaves: constants *)
Lemma expr_const_bits v w : e_bits (expr_const v w) = w.
Proof. reflexivity. Qed.

Lemma wf_const v w : 1 <= w <= 4096 -> wf_expr (expr_const v w) = true.
Proof.
  intros Hw. unfold expr_const. rewrite new_big_spec by lia. cbn [wf_expr cbits cval]. unfold U, MAX_WIDTH.
  pose proof (Z.mod_pos_bound v (2 ^ w) ltac:(apply Z.pow_pos_nonneg; lia)) as [H0 H1].
  apply andb_true_intro; split; [apply andb_true_intro; split; [apply andb_true_intro; split|]|];
    try apply Z.leb_le; try apply Z.ltb_lt; lia.
Qed.

Lemma df_const v w : div_free (expr_const v w) = true.
Proof. reflexivity. Qed.

Lemma scalars_const v w : scalars (expr_const v w) = [].
Proof. reflexivity. Qed.

(* the value of a 1-bit constant *)
Lemma den_const en v w : 0 <= w -> den en (expr_const v w) = Ok (mkc w (v mod 2 ^ w)).
Proof. intros. unfold expr_const. rewrite new_big_spec by assumption. reflexivity. Qed.

(* ================================================================== the checked constructors succeed *)
Lemma mk_bin_ok o l r : e_bits l = e_bits r -> mk_bin o l r = Ok (EBin o l r).
Proof. intros H. unfold mk_bin. rewrite H, Z.eqb_refl. reflexivity. Qed.

Lemma mk_wide_ok o bits x : (o = Zext \/ o = Sext) -> 1 <= e_bits x < bits -> mk_ext o bits x = Ok (EExt o bits x).
Proof.
  intros [-> | ->] H; unfold mk_ext;
    replace (bits <=? e_bits x) with false by (symmetry; apply Z.leb_gt; lia);
    replace (e_bits x =? 0) with false by (symmetry; apply Z.eqb_neq; lia); reflexivity.
Qed.
Lemma mk_trun_ok bits x : 1 <= e_bits x -> bits < e_bits x -> mk_ext Trun bits x = Ok (EExt Trun bits x).
Proof.
  intros H1 H2; unfold mk_ext.
  replace (e_bits x <=? bits) with false by (symmetry; apply Z.leb_gt; lia).
  replace (e_bits x =? 0) with false by (symmetry; apply Z.eqb_neq; lia). reflexivity.
Qed.

(* ================================================================== determinism: complement lemmas *)
Definition total1 (en : senv) (c : expr) : Prop := exists b : bool, guard_holds en (Some c) b.

Lemma total1_of en c :
  wf_expr c = true -> div_free c = true -> e_bits c = 1 -> env_ok en (scalars c) -> total1 en c.
Proof.
  intros Hw Hd H1 He. exists (sigma en c). cbn [guard_holds]. rewrite (atom_sound en c Hw Hd H1 He).
  destruct (sigma en c); reflexivity.
Qed.

(* c = 0 (1 bit) is the negation of c *)
Lemma holds_not0 en c b : guard_holds en (Some c) b -> guard_holds en (Some (EBin Cmpeq c (expr_const 0 1))) (negb b).
Proof.
  cbn [guard_holds den]. intros ->. cbn [bind]. destruct b; reflexivity.
Qed.
(* c <> 1 (1 bit) is the negation of c *)
Lemma holds_ne1 en c b : guard_holds en (Some c) b -> guard_holds en (Some (EBin Cmpneq c (expr_const 1 1))) (negb b).
Proof.
  cbn [guard_holds den]. intros ->. cbn [bind]. destruct b; reflexivity.
Qed.
(* l | r *)
Lemma holds_or en l r bl br :
  guard_holds en (Some l) bl -> guard_holds en (Some r) br -> guard_holds en (Some (EBin Or l r)) (bl || br).
Proof.
  cbn [guard_holds den]. intros -> ->. cbn [bind]. destruct bl, br; reflexivity.
Qed.
(* cmpeq a b / cmpneq a b of the same operands *)
Lemma holds_eq_neq en a b :
  wf_expr a = true -> wf_expr b = true -> div_free a = true -> div_free b = true -> e_bits a = e_bits b ->
  env_ok en (scalars a ++ scalars b) ->
  exists x : bool, guard_holds en (Some (EBin Cmpeq a b)) x /\ guard_holds en (Some (EBin Cmpneq a b)) (negb x).
Proof.
  intros Wa Wb Da Db Hab He. apply env_ok_app in He as [Ha Hb].
  destruct (den_total en a Wa Da Ha) as (ca & Dca & Ga & _). destruct (den_total en b Wb Db Hb) as (cb & Dcb & Gb & _).
  exists (cval ca =? cval cb). cbn [guard_holds den]. rewrite Dca, Dcb. cbn [bind]. unfold sp_bin_c.
  rewrite Ga, Gb, Hab, Z.eqb_refl. cbn [negb sp_bin]. unfold s_cmpeq, s_cmpneq.
  destruct (cval ca =? cval cb); split; reflexivity.
Qed.

Lemma one_of_two en g1 g2 b :
  guard_holds en g1 b -> guard_holds en g2 (negb b) -> one_enabled en [g1; g2].
Proof.
  intros H1 H2. destruct b.
  - exists [], g1, [g2]. split; [reflexivity|]. split; [exact H1|]. constructor; [exact H2|constructor].
  - exists [g1], g2, []. split; [reflexivity|]. split; [exact H2|]. constructor; [exact H1|constructor].
Qed.
Lemma one_of_one en g : guard_holds en g true -> one_enabled en [g].
Proof. intros H. exists [], g, []. split; [reflexivity|]. split; [exact H|constructor]. Qed.
Lemma one_none en : one_enabled en [None].
Proof. apply one_of_one. reflexivity. Qed.

(* environment bookkeeping *)
Lemma env_ok_sub en l l' : env_ok en l -> (forall s, In s l' -> In s l) -> env_ok en l'.
Proof. intros H Hs s Hin. apply H. apply Hs. exact Hin. Qed.

(* a pair  c , not c  (either order, either spelling of the negation) *)
Lemma det_pair_not0 en c :
  wf_expr c = true -> div_free c = true -> e_bits c = 1 ->
  env_ok en (guards_scalars [Some c; Some (EBin Cmpeq c (expr_const 0 1))]) ->
  one_enabled en [Some c; Some (EBin Cmpeq c (expr_const 0 1))].
Proof.
  intros Hw Hd H1 He. destruct (total1_of en c Hw Hd H1) as (b & Hb).
  - eapply env_ok_sub; [exact He|]. intros s Hs. cbn [guards_scalars flat_map]. apply in_or_app. left. exact Hs.
  - eapply one_of_two; [exact Hb|apply holds_not0; exact Hb].
Qed.
Lemma det_pair_not0' en c :
  wf_expr c = true -> div_free c = true -> e_bits c = 1 ->
  env_ok en (guards_scalars [Some (EBin Cmpeq c (expr_const 0 1)); Some c]) ->
  one_enabled en [Some (EBin Cmpeq c (expr_const 0 1)); Some c].
Proof.
  intros Hw Hd H1 He. destruct (total1_of en c Hw Hd H1) as (b & Hb).
  - eapply env_ok_sub; [exact He|]. intros s Hs. cbn [guards_scalars flat_map]. apply in_or_app. right. apply in_or_app. left. exact Hs.
  - apply (one_of_two en _ _ (negb b)); [apply holds_not0; exact Hb|rewrite negb_involutive; exact Hb].
Qed.
Lemma det_pair_ne1 en c :
  wf_expr c = true -> div_free c = true -> e_bits c = 1 ->
  env_ok en (guards_scalars [Some c; Some (EBin Cmpneq c (expr_const 1 1))]) ->
  one_enabled en [Some c; Some (EBin Cmpneq c (expr_const 1 1))].
Proof.
  intros Hw Hd H1 He. destruct (total1_of en c Hw Hd H1) as (b & Hb).
  - eapply env_ok_sub; [exact He|]. intros s Hs. cbn [guards_scalars flat_map]. apply in_or_app. left. exact Hs.
  - eapply one_of_two; [exact Hb|apply holds_ne1; exact Hb].
Qed.
Lemma det_pair_ne1' en c :
  wf_expr c = true -> div_free c = true -> e_bits c = 1 ->
  env_ok en (guards_scalars [Some (EBin Cmpneq c (expr_const 1 1)); Some c]) ->
  one_enabled en [Some (EBin Cmpneq c (expr_const 1 1)); Some c].
Proof.
  intros Hw Hd H1 He. destruct (total1_of en c Hw Hd H1) as (b & Hb).
  - eapply env_ok_sub; [exact He|]. intros s Hs. cbn [guards_scalars flat_map]. apply in_or_app. right. apply in_or_app. left. exact Hs.
  - apply (one_of_two en _ _ (negb b)); [apply holds_ne1; exact Hb|rewrite negb_involutive; exact Hb].
Qed.
Lemma det_pair_eq_neq en a b :
  wf_expr a = true -> wf_expr b = true -> div_free a = true -> div_free b = true -> e_bits a = e_bits b ->
  env_ok en (guards_scalars [Some (EBin Cmpeq a b); Some (EBin Cmpneq a b)]) ->
  one_enabled en [Some (EBin Cmpeq a b); Some (EBin Cmpneq a b)].
Proof.
  intros Wa Wb Da Db Hab He. destruct (holds_eq_neq en a b Wa Wb Da Db Hab) as (x & H1 & H2).
  - eapply env_ok_sub; [exact He|]. intros s Hs. cbn [guards_scalars flat_map scalars]. apply in_or_app. left. exact Hs.
  - eapply one_of_two; eassumption.
Qed.
Lemma det_pair_neq_eq en a b :
  wf_expr a = true -> wf_expr b = true -> div_free a = true -> div_free b = true -> e_bits a = e_bits b ->
  env_ok en (guards_scalars [Some (EBin Cmpneq a b); Some (EBin Cmpeq a b)]) ->
  one_enabled en [Some (EBin Cmpneq a b); Some (EBin Cmpeq a b)].
Proof.
  intros Wa Wb Da Db Hab He. destruct (holds_eq_neq en a b Wa Wb Da Db Hab) as (x & H1 & H2).
  - eapply env_ok_sub; [exact He|]. intros s Hs. cbn [guards_scalars flat_map scalars]. apply in_or_app. left. exact Hs.
  - apply (one_of_two en _ _ (negb x)); [exact H2|rewrite negb_involutive; exact H1].
Qed.
(* the disjunction merge_successors builds from a complementary pair is always enabled *)
Lemma det_merged en l r :
  (forall en', env_ok en' (guards_scalars [Some l; Some r]) -> exists b, guard_holds en' (Some l) b /\ guard_holds en' (Some r) (negb b)) ->
  env_ok en (guards_scalars [Some (EBin Or l r)]) -> one_enabled en [Some (EBin Or l r)].
Proof.
  intros H He. destruct (H en) as (b & Hl & Hr).
  - eapply env_ok_sub; [exact He|]. intros s Hs. cbn [guards_scalars flat_map scalars] in *.
    rewrite !app_nil_r in *. exact Hs.
  - apply one_of_one. replace true with (b || negb b) by (destruct b; reflexivity). apply holds_or; assumption.
Qed.

(* ================================================================== graph-level notions *)
(* every block with out-edges has exactly one enabled out-edge, in every state *)
Definition graph_det (g : cfg) : Prop :=
  forall b, In b (g_blocks g) -> out_guards g b <> [] ->
  forall en, env_ok en (guards_scalars (out_guards g b)) -> one_enabled en (out_guards g b).
Definition succs_det (ss : list (Z * option expr)) : Prop :=
  ss <> [] -> (forall en, env_ok en (guards_scalars (map snd ss)) -> one_enabled en (map snd ss)) /\ NoDup (map fst ss).

(* a graph without edges is trivially deterministic *)
Lemma graph_det_no_edges g : g_edges g = [] -> graph_det g.
Proof. intros E b _ Hne. unfold out_guards in Hne. rewrite E in Hne. cbn in Hne. congruence. Qed.

Definition good_graph (ab : Z) (g : cfg) : Prop := wf_graph ab g = true /\ graph_det g.
Definition good_succs (ss : list (Z * option expr)) : Prop := forallb (fun p => wf_guard (snd p)) ss = true /\ succs_det ss.

Lemma good_result ab instrs addr len ss :
  Forall (fun p => good_graph ab (snd p)) instrs -> good_succs ss ->
  wf_result ab (mkbr instrs addr len ss) = true /\ Det_result (mkbr instrs addr len ss).
Proof.
  intros Hg [Hs1 Hs2]. rewrite Forall_forall in Hg. split.
  - unfold wf_result. cbn [br_instrs br_succs]. rewrite Hs1, andb_true_r. apply forallb_forall. intros p Hp. apply Hg. exact Hp.
  - split; cbn [br_instrs br_succs].
    + intros a g b Hin Hb Hne en He. destruct (Hg (a, g) Hin) as [_ Hd]. apply Hd; assumption.
    + exact Hs2.
Qed.

(* ================================================================== MIPS *)
Module MipsW.
Import Isa.Mips Isa.MipsLift.

Lemma reg_expr_bits r : e_bits (reg_expr r) = 32.
Proof. unfold reg_expr. destruct (r =? 0); reflexivity. Qed.
Lemma reg_expr_wf r : wf_expr (reg_expr r) = true.
Proof. unfold reg_expr. destruct (r =? 0); [apply wf_const; lia|reflexivity]. Qed.
Lemma reg_expr_df r : div_free (reg_expr r) = true.
Proof. unfold reg_expr. destruct (r =? 0); reflexivity. Qed.

Opaque expr_const reg_expr cs_simm cs_btarget cs_jtarget.

Ltac hyps :=
  repeat match goal with
         | H : e_bits _ = _ |- _ => rewrite H
         | H : is_cmp _ = _ |- _ => rewrite H
         | H : is_div _ = _ |- _ => rewrite H
         | H : wf_expr _ = true |- _ => rewrite H
         | H : div_free _ = true |- _ => rewrite H
         | H : sbits _ = _ |- _ => rewrite H
         end.
Ltac bits := cbn [e_bits is_cmp sbits tmp sc reg_scalar bc_scalar bc_expr]; rewrite ?reg_expr_bits, ?expr_const_bits; hyps;
             cbn [e_bits is_cmp sbits].
Ltac mk1 :=
  first [ rewrite mk_bin_ok by (bits; reflexivity)
        | rewrite mk_wide_ok by (first [left; reflexivity | right; reflexivity | bits; lia])
        | rewrite mk_trun_ok by (bits; lia) ].
Ltac mk := unfold not1, c0_1, ea, hi_lo_of, lane_e, aligned_e; repeat (mk1; cbn [bind]).

(* leaves of wf_graph on an explicit graph *)
Ltac leaves :=
  rewrite ?reg_expr_wf, ?reg_expr_bits, ?reg_expr_df, ?expr_const_bits, ?df_const; hyps;
  repeat rewrite wf_const by lia.
Ltac wfg := unfold wf_graph, single, blk; cbn -[Z.pow]; leaves; reflexivity.


Ltac side := cbn [wf_expr e_bits is_cmp div_free is_div negb andb sbits tmp sc reg_scalar bc_scalar bc_expr]; leaves; reflexivity.
Ltac pair He :=
  first [ apply one_none
        | apply det_pair_not0; [side | side | side | exact He]
        | apply det_pair_not0'; [side | side | side | exact He]
        | apply det_pair_eq_neq; [side | side | side | side | side | exact He]
        | apply det_pair_neq_eq; [side | side | side | side | side | exact He] ].
Ltac detg :=
  let b := fresh "b" in let Hb := fresh "Hb" in let Hne := fresh "Hne" in let en := fresh "en" in let He := fresh "He" in
  intros b Hb Hne en He; cbn [g_blocks] in Hb;
  repeat match goal with
         | H : In _ (_ :: _) |- _ => destruct H as [<- | H]
         | H : In _ [] |- _ => destruct H
         end;
  unfold out_guards, blk in *; cbn [g_edges b_index filter map e_head e_tail e_cond edge_c edge_u Z.eqb Pos.eqb] in *;
  first [ exfalso; apply Hne; reflexivity | pair He ].

Ltac good := eexists; split; [mk; reflexivity | split; [wfg | first [apply graph_det_no_edges; reflexivity | detg]]].

Definition builds (ab : Z) (r : res cfg) : Prop := exists g, r = Ok g /\ good_graph ab g.

Section B.
Variable ad : option Z.
Lemma g_bin3 o rd rs rt : is_cmp o = false -> builds 32 (b_bin3 ad o rd rs rt).
Proof. intros Hc. unfold builds, b_bin3. good. Qed.
Lemma g_move rd rs : builds 32 (b_move ad rd rs).
Proof. unfold builds, b_move. good. Qed.
Lemma g_negu rd rs : builds 32 (b_negu ad rd rs).
Proof. unfold builds, b_negu. good. Qed.
Lemma g_nor rd rs rt : builds 32 (b_nor ad rd rs rt).
Proof. unfold builds, b_nor. good. Qed.
Lemma g_mul rd rs rt : builds 32 (b_mul ad rd rs rt).
Proof. unfold builds, b_mul. good. Qed.
Lemma g_trapping o d l r : wf_expr l = true -> wf_expr r = true -> div_free l = true -> div_free r = true ->
  e_bits l = 32 -> e_bits r = 32 -> sbits d = 32 -> is_div o = false -> is_cmp o = false -> builds 32 (b_trapping ad o d l r).
Proof. intros Wl Wr Dl Dr Bl Br Bd Ho Hc. unfold builds, b_trapping. good. Qed.
Lemma g_add rd rs rt : builds 32 (b_add ad rd rs rt).
Proof. apply g_trapping; first [apply reg_expr_wf | apply reg_expr_df | apply reg_expr_bits | reflexivity]. Qed.
Lemma g_sub rd rs rt : builds 32 (b_sub ad rd rs rt).
Proof. apply g_trapping; first [apply reg_expr_wf | apply reg_expr_df | apply reg_expr_bits | reflexivity]. Qed.
Lemma g_addi rt rs imm : builds 32 (b_addi ad rt rs imm).
Proof.
  apply g_trapping; first [apply reg_expr_wf | apply reg_expr_df | apply reg_expr_bits | apply wf_const; lia | reflexivity].
Qed.
Lemma g_bini o rt rs v : is_cmp o = false -> builds 32 (b_bini ad o rt rs v).
Proof. intros Hc. unfold builds, b_bini. good. Qed.
Lemma g_lui rt imm : builds 32 (b_lui ad rt imm).
Proof. unfold builds, b_lui. good. Qed.
Lemma g_setlt o d l r : wf_expr l = true -> wf_expr r = true -> div_free l = true -> div_free r = true ->
  e_bits l = 32 -> e_bits r = 32 -> sbits d = 32 -> is_div o = false -> is_cmp o = true -> builds 32 (b_setlt ad o d l r).
Proof. intros Wl Wr Dl Dr Bl Br Bd Ho Hc. unfold builds, b_setlt. good. Qed.
Lemma g_movn rd rs rt : builds 32 (b_movc ad Cmpneq Cmpeq rd rs rt).
Proof. unfold builds, b_movc. good. Qed.
Lemma g_movz rd rs rt : builds 32 (b_movc ad Cmpeq Cmpneq rd rs rt).
Proof. unfold builds, b_movc. good. Qed.
Lemma g_shi o rd rt sa : is_cmp o = false -> builds 32 (b_shi ad o rd rt sa).
Proof. intros Hc. unfold builds, b_shi. good. Qed.
Lemma g_shv o rd rt rs : is_cmp o = false -> builds 32 (b_shv ad o rd rt rs).
Proof. intros Hc. unfold builds, b_shv. good. Qed.
Lemma g_clzo ones_ count rd rs : builds 32 (b_clzo ad ones_ count rd rs).
Proof. unfold builds, b_clzo. destruct ones_; good. Qed.
Lemma g_mult x t0 rs rt : x = Zext \/ x = Sext -> builds 32 (b_mult ad x t0 rs rt).
Proof. intros [-> | ->]; unfold builds, b_mult; good. Qed.
Lemma g_macc x sub_ t0 t1 rs rt : x = Zext \/ x = Sext -> builds 32 (b_macc ad x sub_ t0 t1 rs rt).
Proof. intros [-> | ->]; destruct sub_; unfold builds, b_macc; good. Qed.
Lemma g_div q m rs rt : is_cmp q = false -> is_cmp m = false -> builds 32 (b_div ad q m rs rt).
Proof. intros Hq Hm. unfold builds, b_div. good. Qed.
Lemma g_mfhilo rd src : builds 32 (b_mfhilo ad rd src).
Proof. unfold builds, b_mfhilo. good. Qed.
Lemma g_mthilo dst rs : builds 32 (b_mthilo ad dst rs).
Proof. unfold builds, b_mthilo. good. Qed.
Lemma g_load_ext x bits t rt base off : x = Zext \/ x = Sext -> bits = 8 \/ bits = 16 -> builds 32 (b_load_ext ad x bits t rt base off).
Proof. intros [-> | ->] [-> | ->]; unfold builds, b_load_ext; good. Qed.
Lemma g_lw rt base off : builds 32 (b_lw ad rt base off).
Proof. unfold builds, b_lw. good. Qed.
Lemma g_store_trun bits rt base off : bits = 8 \/ bits = 16 -> builds 32 (b_store_trun ad bits rt base off).
Proof. intros [-> | ->]; unfold builds, b_store_trun; good. Qed.
Lemma g_sw rt base off : builds 32 (b_sw ad rt base off).
Proof. unfold builds, b_sw. good. Qed.
Lemma g_sc rt base off : builds 32 (b_sc ad rt base off).
Proof. unfold builds, b_sc. good. Qed.
Lemma g_lwl bg t rt base off : builds 32 (b_lwl ad bg t rt base off).
Proof. destruct bg; unfold builds, b_lwl; good. Qed.
Lemma g_lwr bg t rt base off : builds 32 (b_lwr ad bg t rt base off).
Proof. destruct bg; unfold builds, b_lwr; good. Qed.
Lemma g_swl bg t rt base off : builds 32 (b_swl ad bg t rt base off).
Proof. destruct bg; unfold builds, b_swl; good. Qed.
Lemma g_swr bg t rt base off : builds 32 (b_swr ad bg t rt base off).
Proof. destruct bg; unfold builds, b_swr; good. Qed.
Lemma g_teq rs rt : builds 32 (b_teq ad rs rt).
Proof. unfold builds, b_teq. good. Qed.
Lemma g_intr m : builds 32 (b_intr ad m).
Proof. unfold builds, b_intr. good. Qed.
Lemma g_nop : builds 32 (b_nop ad).
Proof. unfold builds, b_nop. good. Qed.
Lemma g_empty : builds 32 (b_empty ad).
Proof. unfold builds, b_empty. good. Qed.
Lemma g_branch_const t : builds 32 (b_branch_const ad t).
Proof. unfold builds, b_branch_const. good. Qed.
Lemma g_branch_reg rs : builds 32 (b_branch_reg ad rs).
Proof. unfold builds, b_branch_reg. good. Qed.
Lemma g_cond_link t : builds 32 (b_cond_link ad t).
Proof. unfold builds, b_cond_link. good. Qed.
End B.

Ltac leaf32 := first [apply reg_expr_wf | apply reg_expr_df | apply reg_expr_bits | apply wf_const; lia | reflexivity
                     | left; reflexivity | right; reflexivity].

(* every plain (non-control) instruction form, every field value *)
Theorem lift_plain_good : forall bg i a ts r, lift_plain bg i a ts = Some r -> builds 32 r.
Proof.
  intros bg i a ts r H. unfold lift_plain in H.
  destruct i; try discriminate H;
    repeat match type of H with
           | context [match ?x with _ => _ end] => destruct x; try discriminate H
           end;
    injection H as <-;
    first [ apply g_add | apply g_sub | apply g_addi | apply g_move | apply g_negu | apply g_nor | apply g_mul
          | apply g_bin3; reflexivity | apply g_bini; reflexivity | apply g_lui
          | apply g_setlt; leaf32 | apply g_movn | apply g_movz | apply g_shi; reflexivity | apply g_shv; reflexivity
          | apply g_clzo | apply g_mult; leaf32 | apply g_macc; leaf32 | apply g_div; reflexivity
          | apply g_mfhilo | apply g_mthilo | apply g_load_ext; leaf32 | apply g_lw | apply g_store_trun; leaf32
          | apply g_sw | apply g_sc | apply g_lwl | apply g_lwr | apply g_swl | apply g_swr | apply g_teq
          | apply g_intr | apply g_nop ].
Qed.

(* the graph pushed at the branch's own address *)
Theorem pre_graph_good : forall b a r, pre_graph b a = Some r -> builds 32 r.
Proof.
  intros b a r H. unfold pre_graph in H.
  destruct b; try discriminate H;
    repeat match type of H with
           | context [match ?x with _ => _ end] => destruct x; try discriminate H
           end;
    injection H as <-; first [apply g_nop | unfold builds; good].
Qed.

(* the branch's own graph, placed after the delay slot *)
Theorem post_graph_good : forall b a r, post_graph b a = Some r -> builds 32 r.
Proof.
  intros b a r H. unfold post_graph in H.
  destruct b; try discriminate H;
    repeat match type of H with
           | context [match ?x with _ => _ end] => destruct x; try discriminate H
           end;
    injection H as <-;
    first [apply g_empty | apply g_branch_const | apply g_branch_reg | apply g_cond_link].
Qed.

Transparent expr_const.
Lemma c0_1_eq : c0_1 = expr_const 0 1. Proof. reflexivity. Qed.
Opaque expr_const.

(* successor lists *)
Lemma succ_single t : good_succs (merge_succs [(t, None)]).
Proof.
  split; [reflexivity|]. intros _. split; [intros en _; apply one_none|].
  cbn. constructor; [intros []|constructor].
Qed.
Lemma succ_nil : good_succs (merge_succs []).
Proof. split; [reflexivity|]. intros H. exfalso. apply H. reflexivity. Qed.

Lemma succ_two t u c : wf_expr c = true -> div_free c = true -> e_bits c = 1 ->
  good_succs (merge_succs [(t, Some c); (u, Some (EBin Cmpeq c (expr_const 0 1)))]).
Proof.
  intros Wc Dc Bc. unfold merge_succs. cbn [fold_left merge_into fst snd].
  destruct (t =? u) eqn:E.
  - rewrite mk_bin_ok by (bits; reflexivity). split.
    + cbn [forallb snd wf_guard wf_expr e_bits is_cmp]. leaves. reflexivity.
    + intros _. split.
      * intros en He. cbn [map snd]. apply det_merged; [|exact He].
        intros en' He'. destruct (total1_of en' c Wc Dc Bc) as (b & Hb).
        -- eapply env_ok_sub; [exact He'|]. intros s Hs. cbn [guards_scalars flat_map]. apply in_or_app. left. exact Hs.
        -- exists b. split; [exact Hb|apply holds_not0; exact Hb].
      * cbn. constructor; [intros []|constructor].
  - split.
    + cbn [forallb snd wf_guard wf_expr e_bits is_cmp]. leaves. reflexivity.
    + intros _. split.
      * intros en He. cbn [map snd] in *. apply det_pair_not0; assumption.
      * cbn [map fst]. apply Z.eqb_neq in E. constructor; [intros [H | []]; congruence|]. constructor; [intros []|constructor].
Qed.

Theorem succs_of_good : forall b a, good_succs (merge_succs (succs_of b a)).
Proof.
  intros b a. unfold succs_of, not1. rewrite c0_1_eq. rewrite mk_bin_ok by reflexivity.
  destruct b; try apply succ_nil; try apply succ_single;
    repeat match goal with
           | |- context [match ?x with _ => _ end] => destruct x
           end;
    first [apply succ_nil | apply succ_single | apply succ_two; reflexivity].
Qed.

Lemma okc_builds o g : okc o = Some g -> (forall r, o = Some r -> builds 32 r) -> good_graph 32 g.
Proof.
  unfold okc. destruct o as [[g'| |]|]; try discriminate. intros H Hb. injection H as <-.
  destruct (Hb _ eq_refl) as (g'' & E & Hg). injection E as <-. exact Hg.
Qed.

(* every block the MIPS mirror produces -- one plain instruction, or a branch with its delay slot -- for every
   word, address, byte order and temporary numbering *)
Theorem mirror_block_good : forall bg addr ws temps l len,
  mirror_block bg addr ws temps = Some l ->
  wf_result 32 (mkbr (fst l) addr len (snd l)) = true /\ Det_result (mkbr (fst l) addr len (snd l)).
Proof.
  intros bg addr ws temps l len H. unfold mirror_block in H.
  destruct ws as [|w1 [|w2 [|w3 ws]]]; try discriminate H.
  - destruct (decode w1) as [i|]; [|discriminate H]. destruct (is_control i); [discriminate H|].
    destruct (okc (lift_plain bg i addr (nth 0 temps []))) as [g|] eqn:E; [|discriminate H]. injection H as <-.
    cbn [fst snd]. apply good_result.
    + constructor; [|constructor]. cbn [snd]. eapply okc_builds; [exact E|]. intros r Hr. eapply lift_plain_good; exact Hr.
    + apply succ_single.
  - destruct (decode w1) as [b|]; [|discriminate H]. destruct (decode w2) as [sl|]; [|discriminate H].
    destruct (negb (is_control b) || is_control sl); [discriminate H|].
    destruct (okc (pre_graph b addr)) as [p|] eqn:Ep; [|discriminate H].
    destruct (okc (lift_plain bg sl (addr + 4) (nth 1 temps []))) as [s|] eqn:Es; [|discriminate H].
    destruct (okc (post_graph b addr)) as [q|] eqn:Eq; [|discriminate H]. injection H as <-.
    cbn [fst snd]. apply good_result.
    + constructor; [|constructor; [|constructor; [|constructor]]]; cbn [snd].
      * eapply okc_builds; [exact Ep|]. intros r Hr. eapply pre_graph_good; exact Hr.
      * eapply okc_builds; [exact Es|]. intros r Hr. eapply lift_plain_good; exact Hr.
      * eapply okc_builds; [exact Eq|]. intros r Hr. eapply post_graph_good; exact Hr.
    + apply succs_of_good.
Qed.

(* totality: no builder of the mirror can panic, whatever the fields *)
Theorem mips_no_panic : forall bg i a ts, lift_plain bg i a ts <> Some Panic.
Proof.
  intros bg i a ts H. destruct (lift_plain_good _ _ _ _ _ H) as (g & E & _). discriminate E.
Qed.
Theorem mips_branch_no_panic : forall b a, pre_graph b a <> Some Panic /\ post_graph b a <> Some Panic.
Proof.
  intros b a. split; intros H.
  - destruct (pre_graph_good _ _ _ H) as (g & E & _). discriminate E.
  - destruct (post_graph_good _ _ _ H) as (g & E & _). discriminate E.
Qed.
(* stronger: a mirrored form never fails at all (no sort error either) *)
Theorem mips_always_ok : forall bg i a ts r, lift_plain bg i a ts = Some r -> exists g, r = Ok g.
Proof. intros bg i a ts r H. destruct (lift_plain_good _ _ _ _ _ H) as (g & E & _). exists g. exact E. Qed.

End MipsW.

(* ================================================================== PPC *)
Module PpcW.
Import Isa.MipsLift Isa.Ppc Isa.PpcLift.
Import MipsW.

Opaque expr_const cs_simm rust_mask.

Lemma number_ops ab ad : forall ops k,
  forallb (fun i => wf_op ab (i_op i)) (number ad k ops) = forallb (wf_op ab) ops.
Proof. induction ops as [|o t IH]; intros k; cbn [number forallb i_op]; [reflexivity|]. rewrite IH. reflexivity. Qed.

Lemma single_good ab ad ops : forallb (wf_op ab) ops = true -> good_graph ab (single ad ops).
Proof.
  intros H. split; [|apply graph_det_no_edges; reflexivity].
  unfold wf_graph, single, blk. cbn [g_entry g_exit g_blocks g_edges b_instrs forallb]. rewrite number_ops, H. reflexivity.
Qed.

Ltac pbits := cbn [e_bits is_cmp sbits tmp pexp preg crbit carry]; rewrite ?expr_const_bits; hyps; cbn [e_bits is_cmp sbits].
Ltac pmk1 :=
  first [ rewrite mk_bin_ok by (pbits; reflexivity)
        | rewrite mk_wide_ok by (first [left; reflexivity | right; reflexivity | pbits; lia])
        | rewrite mk_trun_ok by (pbits; lia) ].
Ltac pmk := unfold pea, rotl, sra; pbits; cbn [negb Z.eqb Z.leb Pos.eqb Pos.compare Pos.compare_cont bind];
            repeat (pmk1; cbn [bind]; pbits).
Ltac pwfg := unfold wf_graph, single, blk; cbn -[Z.pow]; leaves; reflexivity.
Ltac pgood := eexists; split; [pmk; reflexivity | split; [pwfg | apply graph_det_no_edges; reflexivity]].

Section PB.
Variable ad : option Z.
Lemma p_add rt ra rb : builds 32 (pb_add ad rt ra rb).
Proof. unfold builds, pb_add. pgood. Qed.
Lemma p_subf rt ra rb : builds 32 (pb_subf ad rt ra rb).
Proof. unfold builds, pb_subf. pgood. Qed.
Lemma p_addi rt ra v : builds 32 (pb_addi ad rt ra v).
Proof. unfold builds, pb_addi. pgood. Qed.
Lemma p_li rt v : builds 32 (pb_li ad rt v).
Proof. unfold builds, pb_li. pgood. Qed.
Lemma p_lis rt v : builds 32 (pb_lis ad rt v).
Proof. unfold builds, pb_lis. pgood. Qed.
Lemma p_addze t rt ra : builds 32 (pb_addze ad t rt ra).
Proof. unfold builds, pb_addze. pgood. Qed.
Lemma p_cmp o bf ra v : is_cmp o = true -> builds 32 (pb_cmp ad o bf ra v).
Proof. intros Hc. unfold builds, pb_cmp. pgood. Qed.
Lemma p_lbz t rt ra d : builds 32 (pb_lbz ad t rt ra d).
Proof. unfold builds, pb_lbz. pgood. Qed.
Lemma p_lwz rt ra d : builds 32 (pb_lwz ad rt ra d).
Proof. unfold builds, pb_lwz. pgood. Qed.
Lemma p_lwzu rt ra d : builds 32 (pb_lwzu ad rt ra d).
Proof. unfold builds, pb_lwzu. pgood. Qed.
Lemma p_stw rs ra d : builds 32 (pb_stw ad rs ra d).
Proof. unfold builds, pb_stw. pgood. Qed.
Lemma p_stwu rs ra d : builds 32 (pb_stwu ad rs ra d).
Proof. unfold builds, pb_stwu. pgood. Qed.
Lemma p_mr ra rs : builds 32 (pb_mr ad ra rs).
Proof. unfold builds, pb_mr. pgood. Qed.
Lemma p_rlwinm ra rs sh mb me : builds 32 (pb_rlwinm ad ra rs sh mb me).
Proof. unfold builds, pb_rlwinm. pgood. Qed.
Lemma p_srawi ra rs sh : builds 32 (pb_srawi ad ra rs sh).
Proof. unfold builds, pb_srawi. pgood. Qed.
Lemma p_mtspr spr rs : builds 32 (pb_mtspr ad spr rs).
Proof. unfold builds, pb_mtspr. pgood. Qed.
Lemma p_mflr rt : builds 32 (pb_mflr ad rt).
Proof. unfold builds, pb_mflr. pgood. Qed.
Lemma p_bl next target : builds 32 (pb_bl ad next target).
Proof. unfold builds, pb_bl. pgood. Qed.
Lemma p_branch_masked r : builds 32 (pb_branch_masked ad r).
Proof. unfold builds, pb_branch_masked. pgood. Qed.

(* stmw: one store per register rs..31, whatever rs, ra and the displacement are *)
Lemma stmw_ops_good : forall n r off ra, exists ops, stmw_ops n r off ra = Ok ops /\ forallb (wf_op 32) ops = true.
Proof.
  induction n as [|n IH]; intros r off ra; cbn [stmw_ops]; [exists []; split; reflexivity|].
  destruct (31 <? r); [exists []; split; reflexivity|].
  rewrite mk_bin_ok by reflexivity. cbn [bind].
  destruct (IH (r + 1) (cval (new_big (off + 4) 32)) ra) as (rest & E & W). rewrite E. cbn [bind].
  eexists. split; [reflexivity|]. change (EConst (new_big off 32)) with (expr_const off 32).
  cbn [forallb wf_op wf_expr e_bits is_cmp pexp preg sbits]. rewrite W, expr_const_bits.
  rewrite wf_const by lia. reflexivity.
Qed.
Lemma p_stmw rs ra d : builds 32 (pb_stmw ad rs ra d).
Proof.
  unfold builds, pb_stmw. destruct (stmw_ops_good 32 rs (cval (new_big (cs_simm d) 32)) ra) as (ops & E & W).
  rewrite E. cbn [bind]. eexists. split; [reflexivity|]. apply single_good. exact W.
Qed.
End PB.

(* every mirrored PPC form, every field value: the instruction graph is built (no error, no panic) and is good *)
Theorem plift_good : forall i a ts r ss, plift i a ts = Some (r, ss) -> builds 32 r /\ good_succs (merge_succs ss).
Proof.
  intros i a ts r ss H. unfold plift in H.
  destruct i; try discriminate H;
    repeat match type of H with
           | context [if ?x then _ else _] => destruct x; try discriminate H
           end;
    injection H as <- <-; (split; [|first [apply succ_single | apply succ_nil]]);
    first [ apply p_add | apply p_subf | apply p_addze | apply p_li | apply p_lis | apply p_addi
          | apply p_cmp; reflexivity | apply p_lbz | apply p_lwz | apply p_lwzu | apply p_stw | apply p_stwu
          | apply p_stmw | apply p_mr | apply g_nop | apply p_rlwinm | apply p_srawi | apply p_mtspr | apply p_mflr
          | apply p_bl | apply p_branch_masked ].
Qed.

Theorem pmirror_block_good : forall addr w temps l len,
  pmirror_block addr w temps = Some l ->
  wf_result 32 (mkbr (fst l) addr len (snd l)) = true /\ Det_result (mkbr (fst l) addr len (snd l)).
Proof.
  intros addr w temps l len H. unfold pmirror_block in H.
  destruct (Ppc.decode w) as [i|]; [|discriminate H].
  destruct (plift i addr (nth 0 temps [])) as [[r ss]|] eqn:E; [|discriminate H].
  destruct (plift_good _ _ _ _ _ E) as [(g & Eg & Hg) Hs]. subst r. injection H as <-. cbn [fst snd].
  apply good_result; [constructor; [exact Hg|constructor]|exact Hs].
Qed.

Theorem ppc_no_panic : forall i a ts r ss, plift i a ts = Some (r, ss) -> exists g, r = Ok g.
Proof. intros i a ts r ss H. destruct (plift_good _ _ _ _ _ H) as [(g & E & _) _]. exists g. exact E. Qed.

End PpcW.
