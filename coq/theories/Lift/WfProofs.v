(* Lift/WfProofs.v -- C05: soundness of the well-formedness checker of Lift/Wf.v:
     wf_result ab r = true -> Wf_result ab r
   and its agreement with the checked constructors of the IL:
     wf_expr e = true -> rebuild e = Ok e   (rebuilding e through mk_bin / mk_ext / mk_ite succeeds). *)
From Coq Require Import ZArith List Bool NArith Lia.
From Falcon Require Import Base.Res IL.Const IL.Expr IL.Func Lift.Wf.
Import ListNotations.
Local Open Scope Z_scope.

Ltac b2p :=
  repeat match goal with
         | H : (_ <? _) = true |- _ => apply Z.ltb_lt in H
         | H : (_ <=? _) = true |- _ => apply Z.leb_le in H
         | H : (_ =? _) = true |- _ => apply Z.eqb_eq in H
         end.

(* ------------------------------------------------------------------ expressions *)
Lemma wf_expr_sound e : wf_expr e = true -> well_sorted e.
Proof.
  induction e as [s|c|o l IHl r IHr|o n e IHe|c IHc t IHt f IHf]; cbn [wf_expr]; intros H.
  - constructor. b2p. exact H.
  - apply andb_prop in H as [H H4]. apply andb_prop in H as [H H3]. apply andb_prop in H as [H1 H2].
    b2p. constructor; lia.
  - apply andb_prop in H as [H H3]. apply andb_prop in H as [H1 H2]. b2p. constructor; auto.
  - destruct o.
    + apply andb_prop in H as [H1 H2]. b2p. constructor; auto.
    + apply andb_prop in H as [H1 H2]. b2p. constructor; auto.
    + apply andb_prop in H as [H H3]. apply andb_prop in H as [H1 H2]. b2p. constructor; auto; lia.
  - apply andb_prop in H as [H H5]. apply andb_prop in H as [H H4]. apply andb_prop in H as [H H3].
    apply andb_prop in H as [H1 H2]. b2p. constructor; auto.
Qed.

Lemma well_sorted_bits e : well_sorted e -> 1 <= e_bits e.
Proof.
  induction 1; cbn [e_bits]; try lia.
  destruct (is_cmp o); lia.
Qed.

(* the rules are those of the IL's own checked constructors *)
Lemma well_sorted_rebuild e : well_sorted e -> rebuild e = Ok e.
Proof.
  induction 1 as [s Hs|c Hc Hv|o l r Hl IHl Hr IHr Hlr|bits x Hx IHx Hb|bits x Hx IHx Hb|bits x Hx IHx Hb|c t f Hc IHc Ht IHt Hf IHf Hc1 Htf];
    cbn [rebuild]; try reflexivity.
  - rewrite IHl, IHr. cbn [bind]. unfold mk_bin. rewrite Hlr, Z.eqb_refl. reflexivity.
  - rewrite IHx. cbn [bind]. unfold mk_ext. pose proof (well_sorted_bits x Hx).
    replace (bits <=? e_bits x) with false by (symmetry; apply Z.leb_gt; lia).
    replace (e_bits x =? 0) with false by (symmetry; apply Z.eqb_neq; lia). reflexivity.
  - rewrite IHx. cbn [bind]. unfold mk_ext. pose proof (well_sorted_bits x Hx).
    replace (bits <=? e_bits x) with false by (symmetry; apply Z.leb_gt; lia).
    replace (e_bits x =? 0) with false by (symmetry; apply Z.eqb_neq; lia). reflexivity.
  - rewrite IHx. cbn [bind]. unfold mk_ext. pose proof (well_sorted_bits x Hx).
    replace (e_bits x <=? bits) with false by (symmetry; apply Z.leb_gt; lia).
    replace (e_bits x =? 0) with false by (symmetry; apply Z.eqb_neq; lia). reflexivity.
  - rewrite IHc, IHt, IHf. cbn [bind]. unfold mk_ite. rewrite Hc1, Htf, !Z.eqb_refl. reflexivity.
Qed.

Theorem wf_expr_constructors e : wf_expr e = true -> rebuild e = Ok e.
Proof. intros H. apply well_sorted_rebuild. apply wf_expr_sound. exact H. Qed.

Lemma forallb_wf_sound l : forallb wf_expr l = true -> Forall well_sorted l.
Proof.
  intros H. apply Forall_forall. intros x Hx. apply wf_expr_sound.
  rewrite forallb_forall in H. apply H. exact Hx.
Qed.

(* ------------------------------------------------------------------ operations, guards *)
Lemma mem_w_sound w : mem_w w = true -> mem_width w.
Proof. unfold mem_w, mem_width. intros H. apply andb_prop in H as [H1 H2]. b2p. auto. Qed.

Lemma wf_op_sound ab : forall o, wf_op ab o = true -> op_ok ab o.
Proof.
  intros o. destruct o as [d s|i s|d i|t|i|p]; cbn [wf_op]; intros H.
  - apply andb_prop in H as [H1 H2]. b2p. constructor; [apply wf_expr_sound|]; assumption.
  - apply andb_prop in H as [H H4]. apply andb_prop in H as [H H3]. apply andb_prop in H as [H1 H2]. b2p.
    constructor; try (apply wf_expr_sound; assumption); [assumption|apply mem_w_sound; assumption].
  - apply andb_prop in H as [H H3]. apply andb_prop in H as [H1 H2]. b2p.
    constructor; [apply wf_expr_sound; assumption|assumption|apply mem_w_sound; assumption].
  - apply andb_prop in H as [H1 H2]. b2p. constructor; [apply wf_expr_sound|]; assumption.
  - apply andb_prop in H as [H H3]. apply andb_prop in H as [H1 H2]. constructor.
    + apply forallb_wf_sound. exact H1.
    + intros l E. rewrite E in H2. apply forallb_wf_sound. exact H2.
    + intros l E. rewrite E in H3. apply forallb_wf_sound. exact H3.
  - constructor.
Qed.

Lemma wf_guard_sound g : wf_guard g = true -> guard_ok g.
Proof.
  intros H c ->. cbn [wf_guard] in H. apply andb_prop in H as [H1 H2]. b2p.
  split; [apply wf_expr_sound|]; assumption.
Qed.

(* ------------------------------------------------------------------ graphs *)
Lemma find_block_in bs i b : find_block bs i = Some b -> In b bs /\ b_index b = i.
Proof.
  induction bs as [|x t IH]; cbn [find_block]; [discriminate|].
  destruct (b_index x =? i) eqn:E.
  - intros H. injection H as <-. b2p. split; [left; reflexivity|assumption].
  - intros H. destruct (IH H). split; [right|]; assumption.
Qed.

Lemma has_block_sound g i : has_block g i = true -> block_in g i.
Proof.
  unfold has_block, block_in. destruct (find_block (g_blocks g) i) as [b|] eqn:E; [|discriminate].
  intros _. exists b. apply find_block_in. exact E.
Qed.

Lemma memZ_in x l : memZ x l = true -> In x l.
Proof.
  unfold memZ. intros H. apply existsb_exists in H as (y & Hy & E). b2p. subst. exact Hy.
Qed.

Lemma expand_sound g a seen :
  (forall x, In x seen -> reach g a x) -> forall x, In x (expand (g_edges g) seen) -> reach g a x.
Proof.
  intros Hs x Hx. unfold expand in Hx. apply in_app_or in Hx as [Hx | Hx]; [auto|].
  apply in_map_iff in Hx as (e & <- & He). apply filter_In in He as [He Hc].
  apply andb_prop in Hc as [Hh _]. apply memZ_in in Hh.
  eapply reach_step; [apply Hs; exact Hh|exact He|reflexivity].
Qed.

Lemma reach_iter_sound g a fuel : forall seen,
  (forall x, In x seen -> reach g a x) -> forall x, In x (reach_iter fuel (g_edges g) seen) -> reach g a x.
Proof.
  induction fuel as [|k IH]; cbn [reach_iter]; intros seen Hs x Hx; [auto|].
  eapply IH; [|exact Hx]. apply expand_sound. exact Hs.
Qed.

Lemma reach_check_sound g a b : reach_check g a b = true -> reach g a b.
Proof.
  unfold reach_check. intros H. apply memZ_in in H. eapply reach_iter_sound; [|exact H].
  intros x [<- | []]. constructor.
Qed.

Lemma wf_graph_sound ab g : wf_graph ab g = true -> graph_ok ab g.
Proof.
  unfold wf_graph. destruct (g_entry g) as [en|] eqn:Een; [|discriminate].
  destruct (g_exit g) as [ex|] eqn:Eex; [|discriminate]. intros H.
  apply andb_prop in H as [H Hops]. apply andb_prop in H as [H Hedges]. apply andb_prop in H as [H Hreach].
  apply andb_prop in H as [Hen Hex]. split.
  - exists en, ex. repeat split; auto using has_block_sound, reach_check_sound.
  - intros e He. rewrite forallb_forall in Hedges. specialize (Hedges e He).
    apply andb_prop in Hedges as [H Hg]. apply andb_prop in H as [Hh Ht].
    auto using has_block_sound, wf_guard_sound.
  - intros b i Hb Hi. rewrite forallb_forall in Hops. specialize (Hops b Hb).
    rewrite forallb_forall in Hops. apply wf_op_sound. apply Hops. exact Hi.
Qed.

Theorem wf_result_sound : forall ab r, wf_result ab r = true -> Wf_result ab r.
Proof.
  intros ab r H. unfold wf_result in H. apply andb_prop in H as [Hg Hs]. split.
  - intros a g Hin. rewrite forallb_forall in Hg. apply wf_graph_sound. apply (Hg (a, g) Hin).
  - intros a c Hin. rewrite forallb_forall in Hs. apply wf_guard_sound. apply (Hs (a, c) Hin).
Qed.
