(* Lift/GuardDecide.v -- C05: "in every state exactly one outgoing edge of each block (and one successor
   of each lifted block) is enabled".

   Part 1: SPECIFICATION over the denotation `den` of Exec/Sem.v: for every valuation of the scalars
           (every scalar of the guards defined, with its width, value in range) exactly one guard of the
           list denotes 1 and all the others denote 0 (one_enabled, Det_result).
   Part 2: DECISION PROCEDURE by boolean abstraction (guards_det_check):
             * every maximal sub-term that is not a 1-bit connective -- a comparison of operands wider than
               one bit (cmpeq a b, cmpltu a b, ...), a 1-bit scalar, trun 1 (...), ... -- is an ATOM
               (syntactically equal sub-terms are the same atom; cmpneq a b = the negation of the atom
               cmpeq a b);
             * and / or / xor / cmpeq / cmpneq on 1-bit operands, ite with 1-bit arms and the 1-bit
               constants are interpreted exactly;
             * the truth table over the atoms (at most 10) must show EXACTLY ONE true guard in every row.
           The procedure is sound, not complete: atoms are treated as independent.
   Part 3: soundness proof (guards_det_sound). *)
From Coq Require Import ZArith List Bool NArith Lia.
From Falcon Require Import Base.Res IL.Const IL.ConstSpec IL.Expr IL.ExprSpec IL.Func IL.Loc Exec.Sem Lift.Wf.
Import ListNotations.
Local Open Scope Z_scope.

(* ================================================================== Part 1: specification *)

(* a valuation defines every scalar of l with its own width and a value in range *)
Definition env_ok (en : senv) (l : list scalar) : Prop :=
  forall s, In s l -> exists c, env_get en (skey_of s) = Some c /\ cbits c = sbits s /\ 0 <= cval c < 2 ^ cbits c.

(* the guard g denotes the truth value b in en; an absent guard is always enabled *)
Definition guard_holds (en : senv) (g : option expr) (b : bool) : Prop :=
  match g with
  | None => b = true
  | Some c => den en c = Ok (mkc 1 (if b then 1 else 0))
  end.

(* exactly one guard of gs is enabled, every other one is (defined and) disabled *)
Definition one_enabled (en : senv) (gs : list (option expr)) : Prop :=
  exists pre g post, gs = pre ++ g :: post /\ guard_holds en g true /\
                     Forall (fun h => guard_holds en h false) (pre ++ post).

Definition guards_scalars (gs : list (option expr)) : list scalar :=
  flat_map (fun g => match g with Some c => scalars c | None => [] end) gs.

(* guards of the edges leaving block b of g, in edge order *)
Definition out_guards (g : cfg) (b : block) : list (option expr) :=
  map e_cond (filter (fun e => e_head e =? b_index b) (g_edges g)).

(* the property's last clause.  Successors are (address, guard) pairs that become the edges of the recovered
   function graph, which holds ONE edge per (head, tail): "one successor is enabled" therefore also asks that
   the successors name pairwise distinct addresses (a second successor to the same address is dropped by
   translate_function_extended, leaving a lone guarded edge). *)
Record Det_result (r : bresult) : Prop := {
  dr_blocks : forall a g b, In (a, g) (br_instrs r) -> In b (g_blocks g) -> out_guards g b <> [] ->
              forall en, env_ok en (guards_scalars (out_guards g b)) -> one_enabled en (out_guards g b);
  dr_succs : br_succs r <> [] ->
             (forall en, env_ok en (guards_scalars (map snd (br_succs r))) -> one_enabled en (map snd (br_succs r))) /\
             NoDup (map fst (br_succs r)) }.

(* ================================================================== Part 2: decision procedure *)

Inductive bform :=
| BConst (b : bool)
| BAtom (e : expr)
| BNot (f : bform)
| BAnd (f g : bform)
| BOr (f g : bform)
| BXor (f g : bform)
| BIte (c t f : bform).

Definition is1 (e : expr) : bool := e_bits e =? 1.

Fixpoint abs (e : expr) : bform :=
  match e with
  | EConst c =>
      if cbits c =? 1 then (if cval c =? 1 then BConst true else if cval c =? 0 then BConst false else BAtom e)
      else BAtom e
  | EBin And l r => if is1 l then BAnd (abs l) (abs r) else BAtom e
  | EBin Or l r => if is1 l then BOr (abs l) (abs r) else BAtom e
  | EBin Xor l r => if is1 l then BXor (abs l) (abs r) else BAtom e
  | EBin Cmpeq l r => if is1 l then BNot (BXor (abs l) (abs r)) else BAtom e
  | EBin Cmpneq l r => if is1 l then BXor (abs l) (abs r) else BNot (BAtom (EBin Cmpeq l r))
  | EIte c t f => if is1 t then BIte (abs c) (abs t) (abs f) else BAtom e
  | _ => BAtom e
  end.

Definition absg (g : option expr) : bform := match g with None => BConst true | Some c => abs c end.

Fixpoint beval (v : expr -> bool) (f : bform) : bool :=
  match f with
  | BConst b => b
  | BAtom e => v e
  | BNot f => negb (beval v f)
  | BAnd f g => beval v f && beval v g
  | BOr f g => beval v f || beval v g
  | BXor f g => xorb (beval v f) (beval v g)
  | BIte c t f => if beval v c then beval v t else beval v f
  end.

Fixpoint atoms (f : bform) : list expr :=
  match f with
  | BConst _ => []
  | BAtom e => [e]
  | BNot f => atoms f
  | BAnd f g | BOr f g | BXor f g => atoms f ++ atoms g
  | BIte c t f => atoms c ++ atoms t ++ atoms f
  end.

Fixpoint dedup (l : list expr) : list expr :=
  match l with
  | [] => []
  | x :: t => if existsb (expr_eqb x) t then dedup t else x :: dedup t
  end.

Definition lookup (asg : list (expr * bool)) (e : expr) : bool :=
  match find (fun p => expr_eqb (fst p) e) asg with Some p => snd p | None => false end.

Fixpoint all_asg (ats : list expr) : list (list (expr * bool)) :=
  match ats with
  | [] => [[]]
  | a :: t => let r := all_asg t in map (cons (a, true)) r ++ map (cons (a, false)) r
  end.

Fixpoint count_true (l : list bool) : nat :=
  match l with [] => O | true :: t => Datatypes.S (count_true t) | false :: t => count_true t end.

Definition is_div (o : binop) : bool :=
  match o with Divu | Modu | Divs | Mods => true | _ => false end.
(* a guard must not be able to fault: no division inside *)
Fixpoint div_free (e : expr) : bool :=
  match e with
  | EScalar _ | EConst _ => true
  | EBin o l r => negb (is_div o) && div_free l && div_free r
  | EExt _ _ x => div_free x
  | EIte c t f => div_free c && div_free t && div_free f
  end.

Definition guard_total (g : option expr) : bool :=
  match g with None => true | Some c => wf_expr c && (e_bits c =? 1) && div_free c end.

(* a scalar name stands for one width (otherwise no valuation defines "every scalar with its width") *)
Definition scalars_consistent (l : list scalar) : bool :=
  forallb (fun s => forallb (fun t => negb (skey_eqb (skey_of s) (skey_of t)) || (sbits s =? sbits t)) l) l.

Definition MAX_ATOMS : nat := 10.

Definition exactly_one (gs : list (option expr)) : bool :=
  forallb guard_total gs && scalars_consistent (guards_scalars gs) &&
  let fs := map absg gs in
  let ats := dedup (flat_map atoms fs) in
  (length ats <=? MAX_ATOMS)%nat &&
  forallb (fun asg => (count_true (map (beval (lookup asg)) fs) =? 1)%nat) (all_asg ats).

Definition guards_det_graph (g : cfg) : bool :=
  forallb (fun b => match out_guards g b with [] => true | gs => exactly_one gs end) (g_blocks g).

Definition guards_det_check (r : bresult) : bool :=
  forallb (fun p => guards_det_graph (snd p)) (br_instrs r) &&
  match br_succs r with
  | [] => true
  | ss => exactly_one (map snd ss) && nodupZ (map fst ss)
  end.

(* ================================================================== Part 3: soundness *)

Ltac split_andb :=
  repeat match goal with
         | H : _ && _ = true |- _ => apply andb_prop in H; destruct H
         end.
Ltac b2p :=
  repeat match goal with
         | H : (_ <? _) = true |- _ => apply Z.ltb_lt in H
         | H : (_ <=? _) = true |- _ => apply Z.leb_le in H
         | H : (_ =? _) = true |- _ => apply Z.eqb_eq in H
         end.

(* ---- decidable equalities *)
Lemma optN_eqb_iff a b : optN_eqb a b = true <-> a = b.
Proof.
  destruct a, b; cbn; split; intros H; try discriminate; try reflexivity.
  - apply N.eqb_eq in H. subst. reflexivity.
  - injection H as ->. apply N.eqb_refl.
Qed.
Lemma scalar_eqb_iff a b : scalar_eqb a b = true <-> a = b.
Proof.
  destruct a as [n w s], b as [n' w' s']; unfold scalar_eqb; cbn [sname sbits sssa]. split; intros H.
  - split_andb. apply N.eqb_eq in H. apply Z.eqb_eq in H1. apply optN_eqb_iff in H0. subst. reflexivity.
  - injection H as -> -> ->. rewrite N.eqb_refl, Z.eqb_refl. cbn. apply optN_eqb_iff. reflexivity.
Qed.
Lemma const_eqb_iff a b : const_eqb a b = true <-> a = b.
Proof.
  destruct a as [w v], b as [w' v']; unfold const_eqb; cbn [cbits cval]. split; intros H.
  - split_andb. apply Z.eqb_eq in H. apply Z.eqb_eq in H0. subst. reflexivity.
  - injection H as -> ->. rewrite !Z.eqb_refl. reflexivity.
Qed.
Lemma binop_eqb_iff a b : binop_eqb a b = true <-> a = b.
Proof. destruct a, b; cbn; split; intros H; try discriminate; reflexivity. Qed.
Lemma extop_eqb_iff a b : extop_eqb a b = true <-> a = b.
Proof. destruct a, b; cbn; split; intros H; try discriminate; reflexivity. Qed.

Lemma expr_eqb_sound a : forall b, expr_eqb a b = true -> a = b.
Proof.
  induction a as [s|c|o l IHl r IHr|o n e IHe|c IHc t IHt e IHe]; intros b H; destruct b; cbn in H; try discriminate.
  - apply scalar_eqb_iff in H. subst. reflexivity.
  - apply const_eqb_iff in H. subst. reflexivity.
  - split_andb. apply binop_eqb_iff in H. apply IHl in H1. apply IHr in H0. subst. reflexivity.
  - split_andb. apply extop_eqb_iff in H. apply Z.eqb_eq in H1. apply IHe in H0. subst. reflexivity.
  - split_andb. apply IHc in H. apply IHt in H1. apply IHe in H0. subst. reflexivity.
Qed.
Lemma expr_eqb_refl a : expr_eqb a a = true.
Proof.
  induction a as [s|c|o l IHl r IHr|o n e IHe|c IHc t IHt e IHe]; cbn.
  - apply scalar_eqb_iff. reflexivity.
  - apply const_eqb_iff. reflexivity.
  - rewrite IHl, IHr. replace (binop_eqb o o) with true by (symmetry; apply binop_eqb_iff; reflexivity). reflexivity.
  - rewrite IHe, Z.eqb_refl. replace (extop_eqb o o) with true by (symmetry; apply extop_eqb_iff; reflexivity). reflexivity.
  - rewrite IHc, IHt, IHe. reflexivity.
Qed.

(* ---- widths *)
Lemma wf_expr_bits e : wf_expr e = true -> 1 <= e_bits e.
Proof.
  induction e as [s|c|o l IHl r IHr|o n e IHe|c IHc t IHt e IHe]; cbn [wf_expr e_bits]; intros H.
  - apply Z.leb_le in H. exact H.
  - split_andb. apply Z.leb_le in H. exact H.
  - split_andb. destruct (is_cmp o); [lia|auto].
  - destruct o; split_andb;
      repeat match goal with
             | H : (_ <? _) = true |- _ => apply Z.ltb_lt in H
             | H : (_ <=? _) = true |- _ => apply Z.leb_le in H
             end; specialize (IHe ltac:(assumption)); lia.
  - split_andb. auto.
Qed.

(* ---- every well-sorted, division-free expression denotes a value of its width; a 1-bit one denotes 0 or 1 *)
Definition good (w : Z) (c : const) : Prop := cbits c = w /\ (w = 1 -> cval c = 0 \/ cval c = 1).

Lemma env_ok_app en l1 l2 : env_ok en (l1 ++ l2) -> env_ok en l1 /\ env_ok en l2.
Proof. intros H; split; intros s Hs; apply H; apply in_or_app; auto. Qed.

Lemma bit01_cases x : x = 0 \/ x = 1 -> forall P : Z -> Prop, P 0 -> P 1 -> P x.
Proof. intros [-> | ->] P H0 H1; assumption. Qed.

Lemma sp_bin_good1 o x y c :
  is_div o = false -> (x = 0 \/ x = 1) -> (y = 0 \/ y = 1) -> sp_bin o 1 x y = Ok c -> cval c = 0 \/ cval c = 1.
Proof.
  intros Hd Hx Hy.
  pattern x; apply (bit01_cases x Hx); pattern y; apply (bit01_cases y Hy);
    destruct o; try discriminate Hd; vm_compute; intros H; injection H as <-; cbn; auto.
Qed.

Lemma den_total en e :
  wf_expr e = true -> div_free e = true -> env_ok en (scalars e) ->
  exists c, den en e = Ok c /\ good (e_bits e) c.
Proof.
  induction e as [s|c|o l IHl r IHr|o n e IHe|c IHc t IHt f IHf]; cbn [wf_expr div_free scalars e_bits]; intros Hwf Hdf Hen.
  - destruct (Hen s (or_introl eq_refl)) as (c & Hg & Hb & Hr).
    exists c. cbn [den]. rewrite Hg, Hb, Z.eqb_refl. split; [reflexivity|]. split; [exact Hb|].
    intros H1. rewrite Hb, H1 in Hr. change (2 ^ 1) with 2 in Hr. lia.
  - exists c. split; [reflexivity|]. split; [reflexivity|]. intros H1. split_andb. b2p.
    rewrite H1 in *. change (2 ^ 1) with 2 in *. lia.
  - apply andb_prop in Hwf as [Hwf Hlr]. apply andb_prop in Hwf as [Hwl Hwr]. apply Z.eqb_eq in Hlr.
    apply andb_prop in Hdf as [Hdf Hdr]. apply andb_prop in Hdf as [Hdo Hdl].
    apply env_ok_app in Hen as [Hl Hr].
    destruct (IHl Hwl Hdl Hl) as (a & Da & Wa & Ba). destruct (IHr Hwr Hdr Hr) as (b & Db & Wb & Bb).
    cbn [den]. rewrite Da, Db. cbn [bind]. unfold sp_bin_c. rewrite Wa, Wb, Hlr, Z.eqb_refl. cbn [negb].
    apply negb_true_iff in Hdo.
    assert (Hok : exists c, sp_bin o (e_bits r) (cval a) (cval b) = Ok c /\ cbits c = if is_cmp o then 1 else e_bits r).
    { destruct o; try discriminate Hdo; cbn [sp_bin is_cmp]; eexists; split; reflexivity. }
    destruct Hok as (c & Hc & Wc). exists c. split; [exact Hc|]. split.
    + rewrite Wc. destruct (is_cmp o); [reflexivity|auto].
    + intros H1'.
      destruct (is_cmp o) eqn:Ecmp.
      * destruct o; try discriminate Ecmp; cbn [sp_bin] in Hc; injection Hc as <-; cbn [cval];
          unfold s_cmpeq, s_cmpneq, s_cmplts, s_cmpltu;
          match goal with |- context [if ?x then _ else _] => destruct x end; auto.
      * rewrite H1' in Hc.
        eapply sp_bin_good1; [exact Hdo| apply Ba; congruence | apply Bb; congruence | exact Hc].
  - assert (Hx : wf_expr e = true) by (destruct o; split_andb; assumption).
    destruct (IHe Hx Hdf Hen) as (a & Da & Wa & Ba).
    cbn [den]. rewrite Da. cbn [bind]. pose proof (wf_expr_bits e Hx) as Hb1.
    destruct o; split_andb; b2p; cbn [sp_ext]; rewrite Wa.
    + replace (n <=? e_bits e) with false by (symmetry; apply Z.leb_gt; lia).
      eexists; split; [reflexivity|]. split; [reflexivity|]. intros ->. lia.
    + replace (n <=? e_bits e) with false by (symmetry; apply Z.leb_gt; lia).
      eexists; split; [reflexivity|]. split; [reflexivity|]. intros ->. lia.
    + replace (e_bits e <=? n) with false by (symmetry; apply Z.leb_gt; lia).
      eexists; split; [reflexivity|]. split; [reflexivity|]. intros ->. cbn [cval]. unfold s_trun, U.
      change (2 ^ 1) with 2. pose proof (Z.mod_pos_bound (cval a) 2 ltac:(lia)). lia.
  - apply andb_prop in Hwf as [Hwf Htf]. apply andb_prop in Hwf as [Hwf Hc1]. apply andb_prop in Hwf as [Hwf Hwf3].
    apply andb_prop in Hwf as [Hwc Hwt]. apply Z.eqb_eq in Htf. apply Z.eqb_eq in Hc1.
    apply andb_prop in Hdf as [Hdf Hdf3]. apply andb_prop in Hdf as [Hdc Hdt].
    apply env_ok_app in Hen as [Hc Hen]. apply env_ok_app in Hen as [Ht Hf].
    destruct (IHc Hwc Hdc Hc) as (cv & Dc & Wc & Bc). destruct (IHt Hwt Hdt Ht) as (tv & Dt & Gt).
    destruct (IHf Hwf3 Hdf3 Hf) as (fv & Df & Wf & Bf).
    cbn [den]. rewrite Dc. cbn [bind]. rewrite Wc, Hc1. cbn [Z.eqb negb Pos.eqb].
    destruct (cval cv =? 1).
    + exists tv. split; [exact Dt|exact Gt].
    + exists fv. split; [exact Df|]. split; [congruence|]. intros H1'. apply Bf. congruence.
Qed.

(* ---- the valuation of the atoms induced by a state *)
Definition sigma (en : senv) (a : expr) : bool :=
  match den en a with Ok c => cval c =? 1 | _ => false end.
Definition b2z (b : bool) : Z := if b then 1 else 0.

Lemma good1_shape c : good 1 c -> c = mkc 1 (b2z (cval c =? 1)).
Proof.
  destruct c as [w v]. intros [Hw Hv]. cbn [cbits cval] in *. subst w.
  destruct (Hv eq_refl) as [-> | ->]; reflexivity.
Qed.

Lemma atom_sound en e :
  wf_expr e = true -> div_free e = true -> e_bits e = 1 -> env_ok en (scalars e) ->
  den en e = Ok (mkc 1 (b2z (sigma en e))).
Proof.
  intros Hwf Hdf H1 Hen. destruct (den_total en e Hwf Hdf Hen) as (c & Dc & Gc).
  rewrite H1 in Gc. unfold sigma. rewrite Dc. f_equal. apply good1_shape. exact Gc.
Qed.

Lemma is1_true e : is1 e = true -> e_bits e = 1.
Proof. apply Z.eqb_eq. Qed.

Lemma abs_sound en e :
  wf_expr e = true -> div_free e = true -> e_bits e = 1 -> env_ok en (scalars e) ->
  den en e = Ok (mkc 1 (b2z (beval (sigma en) (abs e)))).
Proof.
  induction e as [s|c|o l IHl r IHr|o n e IHe|c IHc t IHt f IHf]; intros Hwf Hdf H1 Hen.
  - apply atom_sound; assumption.
  - cbn [abs]. cbn [e_bits] in H1. rewrite H1. cbn [Z.eqb Pos.eqb].
    destruct (cval c =? 1) eqn:E1.
    + apply Z.eqb_eq in E1. destruct c as [w v]. cbn [cbits cval] in *. subst. reflexivity.
    + destruct (cval c =? 0) eqn:E0.
      * apply Z.eqb_eq in E0. destruct c as [w v]. cbn [cbits cval] in *. subst. reflexivity.
      * apply atom_sound; assumption.
  - pose proof Hwf as Hwf'. pose proof Hdf as Hdf'. pose proof Hen as Hen'.
    cbn [wf_expr div_free scalars] in Hwf', Hdf', Hen'.
    apply andb_prop in Hwf' as [Hwf' Hlr]. apply andb_prop in Hwf' as [Hwl Hwr]. apply Z.eqb_eq in Hlr.
    apply andb_prop in Hdf' as [Hdf' Hdr]. apply andb_prop in Hdf' as [Hdo Hdl].
    apply env_ok_app in Hen' as [Hl Hr].
    (* operands one bit wide: the connective is interpreted *)
    assert (Conn : is1 l = true ->
                   den en l = Ok (mkc 1 (b2z (beval (sigma en) (abs l)))) /\
                   den en r = Ok (mkc 1 (b2z (beval (sigma en) (abs r))))).
    { intros E. apply is1_true in E. split; [apply IHl; assumption|apply IHr; try assumption; congruence]. }
    destruct o; try (apply atom_sound; assumption); cbn [abs]; destruct (is1 l) eqn:E;
      try (apply atom_sound; assumption);
      try (destruct (Conn eq_refl) as (Dl & Dr); cbn [den]; rewrite Dl, Dr; cbn [bind beval];
           destruct (beval (sigma en) (abs l)), (beval (sigma en) (abs r)); reflexivity).
    (* cmpneq of wide operands = negation of the atom cmpeq *)
    destruct (den_total en l Hwl Hdl Hl) as (a & Da & Wa & _). destruct (den_total en r Hwr Hdr Hr) as (b & Db & Wb & _).
    cbn [beval]. unfold sigma. cbn [den]. rewrite Da, Db. cbn [bind]. unfold sp_bin_c.
    rewrite Wa, Wb, Hlr, Z.eqb_refl. cbn [negb sp_bin cval]. unfold s_cmpneq, s_cmpeq.
    destruct (cval a =? cval b); reflexivity.
  - apply atom_sound; assumption.
  - pose proof Hwf as Hwf'. pose proof Hdf as Hdf'. pose proof Hen as Hen'.
    cbn [wf_expr div_free scalars] in Hwf', Hdf', Hen'.
    apply andb_prop in Hwf' as [Hwf' Htf]. apply andb_prop in Hwf' as [Hwf' Hc1]. apply andb_prop in Hwf' as [Hwf' Hwf3].
    apply andb_prop in Hwf' as [Hwc Hwt]. apply Z.eqb_eq in Htf. apply Z.eqb_eq in Hc1.
    apply andb_prop in Hdf' as [Hdf' Hdf3]. apply andb_prop in Hdf' as [Hdc Hdt].
    apply env_ok_app in Hen' as [Hc Hen']. apply env_ok_app in Hen' as [Ht Hf].
    cbn [abs]. destruct (is1 t) eqn:E; [|apply atom_sound; assumption].
    apply is1_true in E.
    cbn [den beval]. rewrite (IHc Hwc Hdc Hc1 Hc). cbn [bind cbits cval Z.eqb Pos.eqb negb].
    destruct (beval (sigma en) (abs c)); cbn [b2z Z.eqb Pos.eqb].
    + apply IHt; assumption.
    + apply IHf; try assumption. congruence.
Qed.

Lemma absg_sound en g :
  guard_total g = true -> env_ok en (guards_scalars [g]) ->
  guard_holds en g (beval (sigma en) (absg g)).
Proof.
  destruct g as [c|]; cbn [guard_total absg guard_holds guards_scalars flat_map]; intros H Hen.
  - apply andb_prop in H as [H Hd]. apply andb_prop in H as [Hw H1]. apply Z.eqb_eq in H1. rewrite app_nil_r in Hen.
    rewrite (abs_sound en c Hw Hd H1 Hen). destruct (beval (sigma en) (abs c)); reflexivity.
  - reflexivity.
Qed.

(* ---- the row of the truth table that corresponds to a state *)
Definition row (en : senv) (ats : list expr) : list (expr * bool) := map (fun a => (a, sigma en a)) ats.

Lemma row_in_all en ats : In (row en ats) (all_asg ats).
Proof.
  induction ats as [|a t IH]; cbn; [auto|].
  apply in_or_app. destruct (sigma en a); [left|right]; apply in_map; exact IH.
Qed.

Lemma lookup_row en ats a : In a ats -> lookup (row en ats) a = sigma en a.
Proof.
  unfold lookup. induction ats as [|x t IH]; [intros []|]. intros Hin. cbn [row map find fst].
  destruct (expr_eqb x a) eqn:E.
  - apply expr_eqb_sound in E. subst. reflexivity.
  - destruct Hin as [-> | Hin]; [rewrite expr_eqb_refl in E; discriminate|]. apply IH. exact Hin.
Qed.

Lemma dedup_in a l : In a l -> In a (dedup l).
Proof.
  induction l as [|x t IH]; [intros []|]. intros Hin. cbn [dedup].
  destruct (existsb (expr_eqb x) t) eqn:E.
  - destruct Hin as [<- | Hin]; [|auto].
    apply existsb_exists in E as (y & Hy & Ey). apply expr_eqb_sound in Ey. subst. auto.
  - destruct Hin as [<- | Hin]; [left; reflexivity | right; auto].
Qed.

Lemma beval_ext v w f : (forall a, In a (atoms f) -> v a = w a) -> beval v f = beval w f.
Proof.
  induction f; cbn [beval atoms]; intros H; try reflexivity.
  - apply H. left. reflexivity.
  - rewrite IHf; auto.
  - rewrite IHf1, IHf2; auto; intros; apply H; apply in_or_app; auto.
  - rewrite IHf1, IHf2; auto; intros; apply H; apply in_or_app; auto.
  - rewrite IHf1, IHf2; auto; intros; apply H; apply in_or_app; auto.
  - rewrite IHf1, IHf2, IHf3; auto; intros; apply H; apply in_or_app; [right; apply in_or_app| right; apply in_or_app|]; auto.
Qed.

(* ---- exactly one true in a list of booleans *)
Lemma count_true_one l : count_true l = 1%nat ->
  exists pre post, l = pre ++ true :: post /\ Forall (fun b => b = false) (pre ++ post).
Proof.
  induction l as [|b t IH]; [discriminate|]. destruct b; cbn [count_true]; intros H.
  - exists [], t. split; [reflexivity|]. cbn. injection H as H.
    clear IH. induction t as [|b u IHu]; [constructor|]. destruct b; [discriminate|]. constructor; auto.
  - destruct (IH H) as (pre & post & -> & Hall). exists (false :: pre), post. split; [reflexivity|].
    cbn. constructor; auto.
Qed.

Lemma guards_scalars_app l1 l2 : guards_scalars (l1 ++ l2) = guards_scalars l1 ++ guards_scalars l2.
Proof. unfold guards_scalars. apply flat_map_app. Qed.

Lemma env_ok_guard en gs g : env_ok en (guards_scalars gs) -> In g gs -> env_ok en (guards_scalars [g]).
Proof.
  intros Hen Hin s Hs. apply Hen. unfold guards_scalars in *. apply in_flat_map. exists g. split; [exact Hin|].
  cbn in Hs. rewrite app_nil_r in Hs. exact Hs.
Qed.

Theorem exactly_one_sound gs :
  exactly_one gs = true -> forall en, env_ok en (guards_scalars gs) -> one_enabled en gs.
Proof.
  unfold exactly_one. intros H0 en Hen.
  apply andb_prop in H0 as [H0 H1]. apply andb_prop in H0 as [H _]. apply andb_prop in H1 as [_ H1].
  set (fs := map absg gs) in *. set (ats := dedup (flat_map atoms fs)) in *.
  rewrite forallb_forall in H1. specialize (H1 _ (row_in_all en ats)). apply Nat.eqb_eq in H1.
  (* the table row of `en` evaluates every guard formula as sigma en does *)
  assert (Hrow : map (beval (lookup (row en ats))) fs = map (beval (sigma en)) fs).
  { apply map_ext_in. intros f Hf. apply beval_ext. intros a Ha. apply lookup_row. apply dedup_in.
    apply in_flat_map. exists f. auto. }
  rewrite Hrow in H1. unfold fs in H1. rewrite map_map in H1.
  (* every guard holds with the value of its formula *)
  assert (Hall : forall g, In g gs -> guard_holds en g (beval (sigma en) (absg g))).
  { intros g Hg. apply absg_sound.
    - rewrite forallb_forall in H. apply H. exact Hg.
    - eapply env_ok_guard; eassumption. }
  clear Hrow H fs ats.
  destruct (count_true_one _ H1) as (pre & post & Hsplit & Hfalse). clear H1.
  (* transport the split of the boolean list back to the list of guards *)
  revert pre Hsplit Hfalse Hall. induction gs as [|g t IH]; intros pre Hsplit Hfalse Hall.
  - destruct pre; discriminate.
  - destruct pre as [|b pre]; cbn [map app] in Hsplit; injection Hsplit as Hb Ht.
    + exists [], g, t. split; [reflexivity|]. split.
      * rewrite <- Hb. apply Hall. left. reflexivity.
      * cbn [app] in *. rewrite <- Ht in Hfalse. clear - Hfalse Hall.
        assert (Hall' : forall h, In h t -> guard_holds en h (beval (sigma en) (absg h))) by (intros; apply Hall; right; assumption).
        clear Hall. induction t as [|h u IHu]; [constructor|]. cbn [map] in Hfalse. inversion Hfalse; subst.
        constructor.
        -- rewrite <- H1. apply Hall'. left. reflexivity.
        -- apply IHu; [assumption|]. intros; apply Hall'; right; assumption.
    + cbn [app] in Hfalse. inversion Hfalse; subst.
      assert (Hen' : env_ok en (guards_scalars t)).
      { intros s Hs. apply Hen. change (g :: t) with ([g] ++ t). rewrite guards_scalars_app. apply in_or_app. right. exact Hs. }
      destruct (IH Hen' pre Ht H2 (fun h Hh => Hall h (or_intror Hh))) as (p & x & q & -> & Hx & Hrest).
      exists (g :: p), x, q. split; [reflexivity|]. split; [exact Hx|]. cbn [app]. constructor; [|exact Hrest].
      rewrite <- H1. apply Hall. left. reflexivity.
Qed.

Lemma nodupZ_NoDup l : nodupZ l = true -> NoDup l.
Proof.
  induction l as [|x t IH]; cbn [nodupZ]; intros H; [constructor|]. split_andb. constructor; [|auto].
  intros Hin. apply negb_true_iff in H. assert (existsb (Z.eqb x) t = true); [|congruence].
  apply existsb_exists. exists x. split; [exact Hin|apply Z.eqb_refl].
Qed.

Theorem guards_det_sound : forall r, guards_det_check r = true -> Det_result r.
Proof.
  intros r H. unfold guards_det_check in H. split_andb. split.
  - intros a g b Hg Hb Hne en Hen. rewrite forallb_forall in H. specialize (H _ Hg). cbn [snd] in H.
    unfold guards_det_graph in H. rewrite forallb_forall in H. specialize (H _ Hb).
    destruct (out_guards g b) eqn:E; [congruence|]. rewrite <- E in *. apply exactly_one_sound; assumption.
  - intros Hne. destruct (br_succs r) eqn:E; [congruence|]. rewrite <- E in *. split_andb. split.
    + apply exactly_one_sound. assumption.
    + apply nodupZ_NoDup. assumption.
Qed.

(* ---- the hypothesis of the theorem is satisfiable for everything the checker accepts:
        the all-zero valuation defines every scalar of the guards with its width *)
Definition zero_env (l : list scalar) : senv := map (fun s => (skey_of s, mkc (sbits s) 0)) l.

Lemma skey_eqb_refl k : skey_eqb k k = true.
Proof. destruct k as [n s]. unfold skey_eqb. cbn. rewrite N.eqb_refl. apply optN_eqb_iff. reflexivity. Qed.

Lemma zero_env_get l s : forallb (fun t => negb (skey_eqb (skey_of t) (skey_of s)) || (sbits t =? sbits s)) l = true ->
  In s l -> forallb (fun t => 1 <=? sbits t) l = true ->
  exists c, env_get (zero_env l) (skey_of s) = Some c /\ cbits c = sbits s /\ 0 <= cval c < 2 ^ cbits c.
Proof.
  induction l as [|t u IH]; [intros _ []|]. cbn [forallb zero_env map env_get]. intros H Hin Hw. split_andb.
  destruct (skey_eqb (skey_of t) (skey_of s)) eqn:E.
  - cbn [negb orb] in H. apply Z.eqb_eq in H. eexists. split; [reflexivity|]. cbn [cbits cval]. split; [exact H|].
    apply Z.leb_le in H0. split; [lia|]. apply Z.pow_pos_nonneg; lia.
  - destruct Hin as [-> | Hin]; [rewrite skey_eqb_refl in E; discriminate|]. apply IH; assumption.
Qed.

Theorem env_ok_satisfiable l :
  scalars_consistent l = true -> forallb (fun t => 1 <=? sbits t) l = true -> env_ok (zero_env l) l.
Proof.
  intros Hc Hw s Hs. apply zero_env_get; try assumption.
  unfold scalars_consistent in Hc. rewrite forallb_forall in Hc.
  apply forallb_forall. intros t Ht. specialize (Hc t Ht). rewrite forallb_forall in Hc. apply Hc. exact Hs.
Qed.
