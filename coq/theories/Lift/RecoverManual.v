(* Lift/RecoverManual.v -- the theorems of Lift/RecoverLang.v extended to manual edges whose head run fits one window
   (man_fit): the manual-edge loop, run_end / man_link, rspec_m, recover_graph_spec_m, recover_lang_m,
   recover_executes_like_machine_code_m. *)
From Coq Require Import ZArith List Bool NArith Lia Permutation.
From Falcon Require Import Base.Res IL.Const IL.Expr IL.Func Exec.Sem Cfg.SOps Lift.Lang Lift.LangSem Lift.Recover Lift.C06Check Lift.RecoverProofs.
From Falcon Require Import Lift.RecoverLang.
Import ListNotations.
Local Open Scope Z_scope.

(* ------------------------------------------------------------------ the manual-edge loop *)
Definition m_edge (bi : list (Z * (Z * Z))) (m : medge_m) : edge :=
  mkedge (match bt_get bi (mm_head m) with Some x => snd x | None => 0 end)
         (match bt_get bi (mm_tail m) with Some x => fst x | None => 0 end) (mm_cond m).

(* the request that wins its (head, tail) pair: the first one *)
Definition man_first (bi : list (Z * (Z * Z))) (ms : list medge_m) (e : edge) : Prop :=
  exists l1 m l2, ms = l1 ++ m :: l2 /\ e = m_edge bi m /\ forall m', In m' l1 -> pair_of (m_edge bi m') <> pair_of e.

Section Manual.
  Variable bi : list (Z * (Z * Z)).
  Variable E0 : list edge.

  Record minv (g : gstate) (done : list medge_m) (mk : list edge) : Prop := {
    mi_edges : forall e, In e (gs_edges g) <-> In e E0 \/ In e mk;
    mi_pairs : NoDup (map pair_of (gs_edges g));
    mi_first : forall e, In e mk -> man_first bi done e;
    mi_done : forall m, In m done -> In (pair_of (m_edge bi m)) (map pair_of (gs_edges g));
    mi_comp : forall l1 m l2, done = l1 ++ m :: l2 -> (forall m', In m' l1 -> pair_of (m_edge bi m') <> pair_of (m_edge bi m)) ->
              In (m_edge bi m) mk }.

  Lemma snoc_split {A} (done : list A) m l1 m1 l2 : done ++ [m] = l1 ++ m1 :: l2 ->
    (exists l2', l2 = l2' ++ [m] /\ done = l1 ++ m1 :: l2') \/ (l2 = [] /\ l1 = done /\ m1 = m).
  Proof.
    destruct l2 as [|x l2 _] using rev_ind.
    - intros H. right. apply app_inj_tail in H as [-> ->]. repeat split.
    - intros H. left. exists l2. rewrite app_comm_cons, app_assoc in H. apply app_inj_tail in H as [-> ->]. split; reflexivity.
  Qed.

  Lemma add_manual_step g m g' : add_manual bi g m = Ok g' ->
    (if gs_has_edge g (e_head (m_edge bi m)) (e_tail (m_edge bi m)) then Ok g else gs_insert_edge g (m_edge bi m)) = Ok g'.
  Proof.
    unfold add_manual, bi_get, m_edge. cbn [e_head e_tail]. intros H.
    destruct (bt_get bi (mm_head m)) as [h|]; [|discriminate]. destruct (bt_get bi (mm_tail m)) as [t|]; [|discriminate]. exact H.
  Qed.

  Lemma manual_phase : forall ms g done mk g',
    (forall m, In m ms -> ~ In (pair_of (m_edge bi m)) (map pair_of E0)) ->
    minv g done mk -> fold_left (fun acc m => g0 <- acc ;; add_manual bi g0 m) ms (Ok g) = Ok g' ->
    exists mk', minv g' (done ++ ms) mk' /\ gs_blocks g' = gs_blocks g /\ (forall e, In e (gs_edges g) -> In e (gs_edges g')).
  Proof.
    induction ms as [|m ms IH]; intros g done mk g' H0 I H; cbn [fold_left] in H.
    - injection H as <-. exists mk. rewrite app_nil_r. split; [exact I|]. split; [reflexivity | intros e He; exact He].
    - cbn [bind] in H. destruct (add_manual bi g m) as [g1| |] eqn:E.
      + pose proof (add_manual_step _ _ _ E) as St. destruct I as [Me Mp Mf Md Mc].
        assert (Step : exists mk1, minv g1 (done ++ [m]) mk1 /\ gs_blocks g1 = gs_blocks g /\ (forall e, In e (gs_edges g) -> In e (gs_edges g1))).
        { unfold gs_has_edge in St. destruct (find_edge (gs_edges g) (e_head (m_edge bi m)) (e_tail (m_edge bi m))) as [e0|] eqn:F.
          - injection St as <-. destruct (find_edge_some_pair _ _ _ _ F) as [Ie Pe]. exists mk. split; [|split; [reflexivity | intros e He; exact He]].
            constructor; [exact Me | exact Mp | | |].
            + intros e He. destruct (Mf e He) as (l1 & m0 & l2 & -> & Ee & Fr). exists l1, m0, (l2 ++ [m]). rewrite <- app_assoc. split; [reflexivity|]. split; assumption.
            + intros m0 Hm. apply in_app_or in Hm as [Hm|[<-|[]]]; [apply Md; exact Hm|]. unfold pair_of at 1. rewrite <- Pe. apply in_map. exact Ie.
            + intros l1 m1 l2 Ed Fi. destruct (snoc_split _ _ _ _ _ Ed) as [(l2' & -> & Ed')|(-> & -> & ->)]; [eapply Mc; eassumption|].
              exfalso. apply Me in Ie as [Ie|Ie].
              * apply (H0 m (or_introl eq_refl)). unfold pair_of at 1. rewrite <- Pe. apply in_map. exact Ie.
              * destruct (Mf _ Ie) as (k1 & m0 & k2 & Ek & Ee & _). apply (Fi m0); [rewrite Ek; apply in_or_app; right; left; reflexivity|].
                rewrite <- Ee, Pe. reflexivity.
          - destruct (insert_edge_spec _ _ _ St) as [-> Fr]. exists (mk ++ [m_edge bi m]). split; [|split; [reflexivity | intros e He; cbn [gs_edges]; apply in_or_app; left; exact He]].
            constructor; cbn [gs_edges].
            + intros e. rewrite !in_app_iff, (Me e). tauto.
            + apply NoDup_pairs_snoc; assumption.
            + intros e He. apply in_app_or in He as [He|[<-|[]]].
              * destruct (Mf e He) as (l1 & m0 & l2 & -> & Ee & Fr'). exists l1, m0, (l2 ++ [m]). rewrite <- app_assoc. split; [reflexivity|]. split; assumption.
              * exists done, m, []. split; [reflexivity|]. split; [reflexivity|]. intros m' Hm' Eq. apply Fr. rewrite <- Eq. apply Md. exact Hm'.
            + intros m0 Hm. rewrite map_app. apply in_or_app. apply in_app_or in Hm as [Hm|[<-|[]]]; [left; apply Md; exact Hm | right; left; reflexivity].
            + intros l1 m1 l2 Ed Fi. apply in_or_app. destruct (snoc_split _ _ _ _ _ Ed) as [(l2' & -> & Ed')|(-> & -> & ->)];
                [left; eapply Mc; eassumption | right; left; reflexivity]. }
        destruct Step as (mk1 & I1 & B1 & M1).
        destruct (IH g1 (done ++ [m]) mk1 g' (fun x Hx => H0 x (or_intror Hx)) I1 H) as (mk' & I' & B' & M').
        exists mk'. rewrite <- app_assoc in I'. split; [exact I'|]. split; [congruence | intros e He; apply M'; apply M1; exact He].
      + exfalso. clear -H. induction ms as [|y t IH]; cbn in H; [discriminate | apply IH; exact H].
      + exfalso. clear -H. induction ms as [|y t IH]; cbn in H; [discriminate | apply IH; exact H].
  Qed.
End Manual.

(* ------------------------------------------------------------------ manual edges at the level of the program *)
Section ManSpec.
  Variable prog : Z -> option minstr.

  (* the last unit of the straight-line run that starts at h (the oracle's run_end) *)
  Inductive run_end : Z -> Z -> Prop :=
  | re_hole h : prog h = None -> run_end h h
  | re_ctl h p : prog h = Some p -> mi_succ p <> None -> run_end h h
  | re_cut h p : prog h = Some p -> mi_succ p = None -> prog (h + mi_len p) = None -> run_end h h
  | re_next h p z : prog h = Some p -> mi_succ p = None -> prog (h + mi_len p) <> None -> run_end (h + mi_len p) z -> run_end h z.

  Lemma run_end_fun h z : run_end h z -> forall z', run_end h z' -> z = z'.
  Proof.
    induction 1 as [h P|h p P K|h p P K N|h p z P K N R IH]; intros z' R'; inversion R' as [h0 P'|h0 p' P' K'|h0 p' P' K' N'|h0 p' z0 P' K' N' R0]; subst;
      try reflexivity; try congruence;
      try (rewrite P in P'; injection P' as <-); try contradiction; try congruence; try (apply IH; assumption).
  Qed.
  Lemma run_end_not_consec h z : run_end h z -> forall y, ~ consec prog z y.
  Proof.
    induction 1 as [h P|h p P K|h p P K N|h p z P K N R IH]; intros y C; try (eapply IH; exact C);
      destruct C as (q & Q & Kq & Ey & Ny); try congruence; rewrite P in Q; injection Q as <-; try contradiction; subst y; contradiction.
  Qed.

  (* every manual head's block translation ends where the straight-line run from the head ends (fits one window) *)
  Definition man_fit (tb : tbtable) (ms : list medge_m) : Prop :=
    forall m r z, In m ms -> tb_lookup tb (mm_head m) = Some (Ok r) -> last_addr (br_instrs r) = Some z -> run_end (mm_head m) z.

  (* the manual request that wins the link z -> t: the first one *)
  Definition man_link (ms : list medge_m) (z t : Z) (c : option expr) : Prop :=
    exists l1 m l2, ms = l1 ++ m :: l2 /\ run_end (mm_head m) z /\ mm_tail m = t /\ mm_cond m = c /\
      forall m', In m' l1 -> ~ (run_end (mm_head m') z /\ mm_tail m' = t).

  Record rspec_m (ms : list medge_m) (roots : list Z) (fa : Z) (lay : list ent) (g : cfg) : Prop := {
    rm_blocks : g_blocks g = lay_blocks lay;
    rm_ok : lay_ok 0 lay;
    rm_keys : NoDup (map t_addr lay);
    rm_graph : forall t, In t lay -> t_ig t = graph_at prog (t_addr t);
    rm_reach : forall x, In x (map t_addr lay) <-> reach prog roots x;
    rm_pairs : NoDup (map pair_of (g_edges g));
    rm_edges : forall e, In e (g_edges g) <->
       In e (lay_edges lay) \/
       (exists tz tt c, In tz lay /\ In tt lay /\ man_link ms (t_addr tz) (t_addr tt) c /\ e = mkedge (t_exit tz) (t_entry tt) c) \/
       (exists tx ty c, In tx lay /\ In ty lay /\ mlink prog (t_addr tx) (t_addr ty) c /\
                        (forall c', man_link ms (t_addr tx) (t_addr ty) c' -> c' = c) /\ e = mkedge (t_exit tx) (t_entry ty) c);
    rm_entry : exists t0, In t0 lay /\ t_addr t0 = fa /\ g_entry g = Some (t_entry t0);
    rm_exit : g_exit g = None }.
End ManSpec.

Lemma nodup_pair_eq es e1 e2 : NoDup (map pair_of es) -> In e1 es -> In e2 es -> pair_of e1 = pair_of e2 -> e1 = e2.
Proof.
  induction es as [|x t IH]; intros N I1 I2 E; [destruct I1|]. cbn [map] in N. inversion N as [|? ? Nx Nt]; subst.
  destruct I1 as [<-|I1], I2 as [<-|I2]; [reflexivity | | | apply IH; assumption].
  - exfalso. apply Nx. rewrite E. apply in_map. exact I2.
  - exfalso. apply Nx. rewrite <- E. apply in_map. exact I1.
Qed.

Lemma no_internal_from_exit prog lay e tx : prog_ok prog -> lay_ok 0 lay -> (forall t, In t lay -> t_ig t = graph_at prog (t_addr t)) ->
  In e (lay_edges lay) -> In tx lay -> e_head e = t_exit tx -> False.
Proof.
  intros PO LO LG Int Ix Eh. destruct (internal_shape prog PO lay LG _ Int) as (tz & e0 & Iz & I0 & -> & Rh & _). rewrite Eh in Rh.
  pose proof (ent_exit_range _ (lay_ent_ok _ _ _ LO Ix)) as Rx.
  assert (tz = tx) by (eapply lay_range_inj; [exact LO | exact Iz | exact Ix | exact Rh | exact Rx]). subst tz.
  pose proof (graph_at_ok prog PO (t_addr tx)) as GO. rewrite <- (LG _ Ix) in GO.
  destruct (lay_ent_ok _ _ _ LO Ix) as (_ & en & ex & _ & Ex & _). unfold t_exit in Eh. rewrite Ex in Eh. cbn [shift_edge e_head] in Eh.
  apply (io_exit _ GO e0 ex I0 Ex). lia.
Qed.

(* ------------------------------------------------------------------ recover_graph_spec with manual edges *)
Theorem recover_graph_spec_m prog tb fa ms f : tb_spec prog tb -> prog_ok prog -> man_fit prog tb ms -> recover tb fa ms = Ok f ->
  exists lay, rspec_m prog ms (fa :: flat_map (fun m => [mm_head m; mm_tail m]) ms) fa lay (f_cfg f) /\ f_addr f = fa.
Proof.
  intros TS PO MF H. unfold recover in H. set (roots := fa :: flat_map (fun m => [mm_head m; mm_tail m]) ms) in *.
  inv_bind H. rename a into results. inv_bind H. destruct a as [st bi]. cbn [fst snd] in H.
  inv_bind H. rename a into g1. inv_bind H. rename a into g2. inv_bind H. destruct a as [en0 ex0]. cbn [fst] in H.
  destruct (gs_has_block g2 en0) eqn:HB; [|discriminate]. injection H as <-.
  (* discovery *)
  assert (I0 : dinv prog tb roots roots []).
  { constructor; [intros ? ? [] | intros ? ? ? [] | intros x Hx; right; exact Hx |]. split; [intros ? ? [] | intros x Hx; apply reach_root; exact Hx]. }
  pose proof (discover_inv prog tb roots TS _ _ _ _ I0 E) as [De Ds Dr [Dk _]].
  assert (NDk : NoDup (map fst results)) by (eapply (discover_nodup prog tb); [|exact E]; constructor).
  assert (Shape : forall a r, In (a, r) results ->
            (tb_lookup tb a = Some (Ok r) /\ run_spec prog a (br_instrs r) (br_succ r)) \/ (prog a = None /\ r = mkbr [(a, empty_block_cfg)] [])).
  { intros a r Ia. pose proof (TS a) as Ta. destruct (De a r Ia) as [Q|[Q ->]]; rewrite Q in Ta; [left; split; [exact Q | exact Ta] | right; split; [exact Ta | reflexivity]]. }
  assert (Head : forall a r, In (a, r) results -> exists g0 rest, br_instrs r = (a, g0) :: rest).
  { intros a r Ia. destruct (Shape _ _ Ia) as [[_ Rs]|[_ ->]]; [exact (run_head _ _ _ _ Rs) | eexists; eexists; reflexivity]. }
  assert (RO : forall ar, In ar results -> res_ok (graph_at prog) (consec prog) ar).
  { intros [a r] Ia. unfold res_ok. cbn [snd]. destruct (Shape _ _ Ia) as [[_ Rs]|[Pa ->]].
    - split; [intros x ig Ix; apply (run_graphs _ _ _ _ Rs _ _ Ix)|]. split; [apply (run_chain _ _ _ _ Rs None I)|].
      destruct (run_head _ _ _ _ Rs) as (g0 & tl & ->). discriminate.
    - cbn [br_instrs]. split; [intros x ig [Q|[]]; injection Q as <- <-; unfold graph_at; rewrite Pa; reflexivity|].
      split; [cbn; tauto | discriminate]. }
  (* assembly *)
  assert (L0 : linv (graph_at prog) (consec prog) (mkas (mkgs [] [] 0) []) [] []).
  { constructor; cbn; try (constructor; fail); try tauto; try reflexivity; intros; contradiction. }
  destruct (asm_spec (graph_at prog) (fun x => io_wf _ (graph_at_ok prog PO x)) (consec prog) results _ [] [] [] _ _ L0 RO NDk (fun _ _ => eq_refl) E0)
    as (lay & lk & LI & _ & _ & LD & Cov & BI & _ & Pv).
  cbn [app] in *. destruct LI as [Vb Ve Vp Vo Vn Vk Vg Vi Vl].
  assert (InRes : forall x, In x roots -> exists r, In (x, r) results).
  { intros x Hx. destruct (Dr x Hx) as [M|[]]. apply bt_mem_in in M. exact M. }
  (* the shape of every requested edge *)
  assert (MS : forall m, In m ms -> exists tz tt, In tz lay /\ In tt lay /\ run_end prog (mm_head m) (t_addr tz) /\ t_addr tt = mm_tail m /\
                m_edge bi m = mkedge (t_exit tz) (t_entry tt) (mm_cond m)).
  { intros m Im.
    assert (Rh : In (mm_head m) roots) by (right; apply in_flat_map; exists m; split; [exact Im | left; reflexivity]).
    assert (Rt : In (mm_tail m) roots) by (right; apply in_flat_map; exists m; split; [exact Im | right; left; reflexivity]).
    destruct (InRes _ Rh) as [rh Ih]. destruct (InRes _ Rt) as [rt It].
    destruct (Head _ _ Ih) as (gh & resth & Eh). destruct (Head _ _ It) as (gt & restt & Et).
    destruct (BI _ Ih _ _ _ Eh) as (t0 & tl & _ & Il & _ & La & Gb). destruct (BI _ It _ _ _ Et) as (t0' & tl' & I0' & _ & T0' & _ & Gb').
    cbn [fst snd] in *. exists tl, t0'. split; [exact Il|]. split; [exact I0'|]. split.
    - destruct (Shape _ _ Ih) as [[Q _]|[Ph ->]].
      + eapply MF; eassumption.
      + cbn in La. injection La as <-. apply re_hole. exact Ph.
    - split; [exact T0'|]. unfold m_edge. rewrite Gb, Gb'. reflexivity. }
  (* no edge of the assembled graph leaves the exit of a manual head's run *)
  assert (H0 : forall m, In m ms -> ~ In (pair_of (m_edge bi m)) (map pair_of (gs_edges (as_g st)))).
  { intros m Im Hp. destruct (MS m Im) as (tz & tt & Iz & It & Re & _ & Em). apply in_map_iff in Hp as (e0 & Pe & Ie).
    rewrite Em in Pe. unfold pair_of in Pe. cbn [e_head e_tail] in Pe. injection Pe as Ph _.
    apply Ve in Ie as [Ie|Ie].
    - exact (no_internal_from_exit prog lay e0 tz PO Vo Vg Ie Iz Ph).
    - destruct (Vl _ Ie) as (tx & ty & Ix & Iy & -> & Cs). cbn [e_head] in Ph.
      pose proof (ent_exit_range _ (lay_ent_ok _ _ _ Vo Ix)) as Rx. pose proof (ent_exit_range _ (lay_ent_ok _ _ _ Vo Iz)) as Rz.
      assert (tx = tz) by (eapply lay_range_inj; [exact Vo | exact Ix | exact Iz | exact Rx | rewrite Ph; exact Rz]). subst tx.
      exact (run_end_not_consec prog _ _ Re _ Cs). }
  assert (MI0 : minv bi (gs_edges (as_g st)) (as_g st) [] []).
  { constructor; [intros e; cbn [In]; tauto | exact Vp | intros ? [] | intros ? [] |]. intros l1 m l2 Ed. destruct l1; discriminate Ed. }
  destruct (manual_phase bi (gs_edges (as_g st)) ms (as_g st) [] [] g1 H0 MI0 E1) as (mk & [Me Mp Mf Md Mc] & Bm & Mm). cbn [app] in *.
  (* successor edges *)
  assert (NE : forall ar, In ar results -> br_instrs (snd ar) <> []) by (intros ar Ia; apply (RO ar Ia)).
  assert (CL : forall ar s c, In ar results -> In (s, c) (join_succ [] (br_succ (snd ar))) ->
            exists rs g0 rest, In (s, rs) results /\ br_instrs rs = (s, g0) :: rest).
  { intros [a r] s c Ia Is. cbn [snd] in Is.
    assert (Ik : In s (map fst (br_succ r))).
    { destruct (join_succ_keys _ [] s (in_map fst _ _ Is)) as [[]|X]; exact X. }
    destruct (Ds _ _ _ Ia Ik) as [M|[]]. apply bt_mem_in in M as [rs Irs]. destruct (Head _ _ Irs) as (g0 & rest & Eh).
    exists rs, g0, rest. split; assumption. }
  assert (S0 : sinv2 lay results (gs_edges g1) g1 []).
  { constructor; [rewrite Bm; exact Vb | intros e; cbn [In]; tauto | exact Mp | intros ? []]. }
  destruct (succ_phase lay bi results BI NE CL (gs_edges g1) results g1 [] g2 (fun ar Ia => Ia) S0 E2) as (sk & [Sb Se Sp Ss] & M2 & SD).
  assert (Prov : forall t, In t lay -> exists a r, In (a, r) results /\ In (t_addr t) (map fst (br_instrs r))).
  { intros t It. destruct (Pv t It) as ([a r] & Ia & X). exists a, r. split; assumption. }
  (* a winning request at the level of pairs is a winning request at the level of addresses, and conversely *)
  assert (PairAddr : forall m m', In m ms -> In m' ms -> forall tz, In tz lay -> run_end prog (mm_head m) (t_addr tz) ->
            (pair_of (m_edge bi m') = pair_of (m_edge bi m) <-> (run_end prog (mm_head m') (t_addr tz) /\ mm_tail m' = mm_tail m))).
  { intros m m' Im Im' tz Iz Re. destruct (MS m Im) as (tz0 & tt & Iz0 & It & Re0 & Tt & Em). destruct (MS m' Im') as (tz' & tt' & Iz' & It' & Re' & Tt' & Em').
    assert (tz0 = tz) by (apply (same_addr_ent lay Vk); [exact Iz0 | exact Iz | exact (run_end_fun prog _ _ Re0 _ Re)]). subst tz0.
    rewrite Em, Em'. unfold pair_of. cbn [e_head e_tail]. split.
    - intros Q. injection Q as Q1 Q2.
      pose proof (ent_exit_range _ (lay_ent_ok _ _ _ Vo Iz')) as R1. pose proof (ent_exit_range _ (lay_ent_ok _ _ _ Vo Iz)) as R2.
      assert (tz' = tz) by (eapply lay_range_inj; [exact Vo | exact Iz' | exact Iz | exact R1 | rewrite Q1; exact R2]). subst tz'.
      pose proof (ent_entry_range _ (lay_ent_ok _ _ _ Vo It')) as R3. pose proof (ent_entry_range _ (lay_ent_ok _ _ _ Vo It)) as R4.
      assert (tt' = tt) by (eapply lay_range_inj; [exact Vo | exact It' | exact It | exact R3 | rewrite Q2; exact R4]). subst tt'.
      split; [exact Re' | congruence].
    - intros [Q1 Q2].
      assert (tz' = tz) by (apply (same_addr_ent lay Vk); [exact Iz' | exact Iz | exact (run_end_fun prog _ _ Re' _ Q1)]). subst tz'.
      assert (tt' = tt) by (apply (same_addr_ent lay Vk); [exact It' | exact It | congruence]). subst tt'. reflexivity. }
  assert (First2Link : forall e, man_first bi ms e -> exists tz tt c, In tz lay /\ In tt lay /\ man_link prog ms (t_addr tz) (t_addr tt) c /\ e = mkedge (t_exit tz) (t_entry tt) c).
  { intros e (l1 & m & l2 & Ems & -> & Fr).
    assert (Im : In m ms) by (rewrite Ems; apply in_or_app; right; left; reflexivity).
    destruct (MS m Im) as (tz & tt & Iz & It & Re & Tt & Em). exists tz, tt, (mm_cond m). split; [exact Iz|]. split; [exact It|]. split; [|exact Em].
    exists l1, m, l2. split; [exact Ems|]. split; [exact Re|]. split; [symmetry; exact Tt|]. split; [reflexivity|].
    intros m' Im' [Q1 Q2]. apply (Fr m' Im').
    assert (Im'' : In m' ms) by (rewrite Ems; apply in_or_app; left; exact Im').
    apply (proj2 (PairAddr m m' Im Im'' tz Iz Re)). split; [exact Q1 | rewrite Q2, Tt; reflexivity]. }
  assert (Link2Edge : forall tz tt c, In tz lay -> In tt lay -> man_link prog ms (t_addr tz) (t_addr tt) c -> In (mkedge (t_exit tz) (t_entry tt) c) (gs_edges g2)).
  { intros tz tt c Iz It (l1 & m & l2 & Ems & Re & Tt & Ec & Fr).
    assert (Im : In m ms) by (rewrite Ems; apply in_or_app; right; left; reflexivity).
    destruct (MS m Im) as (tz0 & tt0 & Iz0 & It0 & Re0 & Tt0 & Em).
    assert (tz0 = tz) by (apply (same_addr_ent lay Vk); [exact Iz0 | exact Iz | exact (run_end_fun prog _ _ Re0 _ Re)]). subst tz0.
    assert (tt0 = tt) by (apply (same_addr_ent lay Vk); [exact It0 | exact It | congruence]). subst tt0.
    rewrite <- Ec, <- Em. apply M2. apply Me. right. apply (Mc l1 m l2 Ems).
    intros m' Im' Q. apply (Fr m' Im').
    assert (Im'' : In m' ms) by (rewrite Ems; apply in_or_app; left; exact Im').
    apply (proj1 (PairAddr m m' Im Im'' tz Iz Re)) in Q. destruct Q as [Q1 Q2]. split; [exact Q1 | congruence]. }
  (* classification of the edges *)
  assert (Class : forall e, In e (gs_edges g2) -> In e (lay_edges lay) \/ man_first bi ms e \/
            exists tx ty c, In tx lay /\ In ty lay /\ mlink prog (t_addr tx) (t_addr ty) c /\ e = mkedge (t_exit tx) (t_entry ty) c).
  { intros e He. apply Se in He as [He|He].
    - apply Me in He as [He|He]; [|right; left; apply Mf; exact He].
      apply Ve in He as [He|He]; [left; exact He|]. right. right. destruct (Vl _ He) as (tx & ty & Ix & Iy & -> & (p & P & K & Ey & _)).
      exists tx, ty, None. repeat (split; [assumption|]). split; [|reflexivity]. exists p. split; [exact P|]. unfold mlinks. rewrite K, Ey. left. reflexivity.
    - right. right. destruct (Ss _ He) as ([a r] & tl & ts & c & Ia & Il & Its & La & Ij & ->). cbn [snd] in La, Ij.
      exists tl, ts, c. repeat (split; [assumption|]). split; [|reflexivity].
      destruct (Shape _ _ Ia) as [[_ Rs]|[_ ->]]; [|destruct Ij].
      destruct (run_last _ _ _ _ Rs) as (z & p & Lz & P & J). rewrite La in Lz. injection Lz as <-. exists p. split; [exact P|]. rewrite <- J. exact Ij. }
  exists lay. split; [|reflexivity]. constructor; cbn [f_cfg g_blocks g_edges g_entry g_exit].
  - exact Sb.
  - exact Vo.
  - exact Vk.
  - exact Vg.
  - intros x. split.
    + intros Hx. apply in_map_iff in Hx as (t & <- & It). destruct (Prov t It) as (a & r & Ia & Ix). pose proof (Dk _ _ Ia) as Ra.
      destruct (Shape _ _ Ia) as [[_ Rs]|[_ ->]].
      * destruct (run_reach prog roots _ _ _ Rs Ra) as [R1 _]. apply R1. exact Ix.
      * destruct Ix as [<-|[]]. exact Ra.
    + intros Rx. assert (X : exists a r, In (a, r) results /\ In x (map fst (br_instrs r))).
      { induction Rx as [r0 Ir|a0 y Ra IH Dy].
        - destruct (InRes _ Ir) as [r Ia]. exists r0, r. split; [exact Ia|]. destruct (Head _ _ Ia) as (g0 & tl & ->). left. reflexivity.
        - destruct IH as (b & r & Ib & Ia0). destruct (Shape _ _ Ib) as [[_ Rs]|[Pb ->]].
          + destruct (run_step prog _ _ _ Rs _ _ Ia0 Dy) as [Iy|Iy]; [exists b, r; split; assumption|].
            destruct (Ds _ _ _ Ib Iy) as [M|[]]. apply bt_mem_in in M as [r' Iy']. exists y, r'. split; [exact Iy'|].
            destruct (Head _ _ Iy') as (g0 & tl & ->). left. reflexivity.
          + exfalso. destruct Ia0 as [<-|[]]. destruct Dy as (p & Pp & _). cbn [fst] in Pp. rewrite Pb in Pp. discriminate. }
      destruct X as (a & r & Ia & Ix). apply in_map_iff in Ix as ([x' ig] & Q & Ix). cbn [fst] in Q. subst x'.
      apply (Cov (a, r) x ig Ia Ix).
  - exact Sp.
  - intros e. split.
    + intros He. destruct (Class e He) as [Int|[Mf1|(tx & ty & c & Ix & Iy & ML & ->)]]; [left; exact Int | right; left; apply First2Link; exact Mf1|].
      right. right. exists tx, ty, c. repeat (split; [assumption|]). split; [|reflexivity].
      intros c' ML'. pose proof (Link2Edge tx ty c' Ix Iy ML') as He'.
      pose proof (nodup_pair_eq _ _ _ Sp He' He eq_refl) as Q. injection Q as Q. exact Q.
    + intros [Int|[(tz & tt & c & Iz & It & ML & ->)|(tx & ty & c & Ix & Iy & ML & Ov & ->)]].
      * apply M2. apply Mm. apply Ve. left. exact Int.
      * apply Link2Edge; assumption.
      * destruct (Prov tx Ix) as (a & r & Ia & Ixr). destruct ML as (p & P & Il).
        assert (Pair : In (t_exit tx, t_entry ty) (map pair_of (gs_edges g2))).
        { destruct (Shape _ _ Ia) as [[_ Rs]|[Pa ->]].
          - destruct (run_links prog (as_g st) lay _ _ _ Rs None (LD (a, r) Ia) _ Ixr) as [La|(q & Q & K & Lk)].
            + destruct (run_last _ _ _ _ Rs) as (z & q & Lz & Q & J). rewrite La in Lz. injection Lz as <-. rewrite P in Q. injection Q as <-.
              rewrite <- J in Il. destruct (SD (a, r) Ia _ _ Il) as (tl & ts & Itl & Its & La' & Ts & Pr). cbn [snd] in La'.
              rewrite La in La'. injection La' as Ea. rewrite (same_addr_ent lay Vk tx tl Ix Itl Ea), (same_addr_ent lay Vk ty ts Iy Its (eq_sym Ts)). exact Pr.
            + rewrite P in Q. injection Q as <-. unfold mlinks in Il. rewrite K in Il. destruct Il as [Q|[]]. injection Q as Ey <-.
              destruct Lk as (tx' & ty' & Ix' & Iy' & Ax & Ay & Pr).
              rewrite (same_addr_ent lay Vk tx tx' Ix Ix' (eq_sym Ax)), (same_addr_ent lay Vk ty ty' Iy Iy' (eq_trans (eq_sym Ey) (eq_sym Ay))).
              apply in_map_iff in Pr as (e & Pe & Ie). rewrite <- Pe. apply in_map. apply M2. apply Mm. exact Ie.
          - exfalso. destruct Ixr as [Q|[]]. cbn [fst] in Q. rewrite <- Q in P. rewrite Pa in P. discriminate. }
        apply in_map_iff in Pair as (e & Pe & Ie). destruct (Class e Ie) as [Int|[Mf1|Lk]].
        -- rewrite <- (exact_link prog PO lay Vo Vg e tx ty c Ix Iy (ex_intro _ p (conj P Il)) (or_introl Int) Pe). exact Ie.
        -- destruct (First2Link e Mf1) as (tz & tt & c' & Iz & It & ML' & Ee). subst e. unfold pair_of in Pe. cbn [e_head e_tail] in Pe. injection Pe as Q1 Q2.
           pose proof (ent_exit_range _ (lay_ent_ok _ _ _ Vo Iz)) as R1. pose proof (ent_exit_range _ (lay_ent_ok _ _ _ Vo Ix)) as R2.
           assert (tz = tx) by (eapply lay_range_inj; [exact Vo | exact Iz | exact Ix | exact R1 | rewrite Q1; exact R2]). subst tz.
           pose proof (ent_entry_range _ (lay_ent_ok _ _ _ Vo It)) as R3. pose proof (ent_entry_range _ (lay_ent_ok _ _ _ Vo Iy)) as R4.
           assert (tt = ty) by (eapply lay_range_inj; [exact Vo | exact It | exact Iy | exact R3 | rewrite Q2; exact R4]). subst tt.
           rewrite <- (Ov c' ML'). exact Ie.
        -- rewrite <- (exact_link prog PO lay Vo Vg e tx ty c Ix Iy (ex_intro _ p (conj P Il)) (or_intror Lk) Pe). exact Ie.
  - unfold bi_get in E3. destruct (bt_get bi fa) as [ee|] eqn:Gb; [|discriminate]. injection E3 as ->.
    destruct (InRes fa (or_introl eq_refl)) as [r Ia]. destruct (Head _ _ Ia) as (g0 & rest & Eh).
    destruct (BI (fa, r) Ia _ _ _ Eh) as (t0 & tl & I0' & _ & T0 & _ & Gb'). cbn [fst] in Gb'. rewrite Gb in Gb'. injection Gb' as -> _.
    exists t0. split; [exact I0'|]. split; [exact T0 | reflexivity].
  - reflexivity.
Qed.

(* [U] recover_lang_partial with manual edges (every manual head's block fits one window: man_fit) *)
Theorem recover_lang_m prog tb fa ms f : tb_spec prog tb -> prog_ok prog -> man_fit prog tb ms -> recover tb fa ms = Ok f ->
  let roots := fa :: flat_map (fun m => [mm_head m; mm_tail m]) ms in
  exists lay, rspec_m prog ms roots fa lay (f_cfg f) /\
    forall gp, rspec_m prog ms roots fa lay gp -> forall w, lang (f_cfg f) w <-> lang gp w.
Proof.
  intros TS PO MF H roots. destruct (recover_graph_spec_m _ _ _ _ _ TS PO MF H) as (lay & RS & _). exists lay. split; [exact RS|].
  intros gp RP. destruct RS as [B1 O1 K1 G1 R1 P1 E1 (t1 & I1 & A1 & N1) X1]. destruct RP as [B2 O2 K2 G2 R2 P2 E2 (t2 & I2 & A2 & N2) X2].
  apply lang_same_edges; [congruence | | | exact P1 | exact P2].
  - rewrite N1, N2. rewrite (same_addr_ent lay K1 t1 t2 I1 I2 (eq_trans A1 (eq_sym A2))). reflexivity.
  - intros e. rewrite E1, E2. tauto.
Qed.

(* [U] end to end, with manual edges *)
Theorem recover_executes_like_machine_code_m prog tb fa ms f :
  tb_spec prog tb -> prog_ok prog -> man_fit prog tb ms -> recover tb fa ms = Ok f -> merge_ready (static_view (f_cfg f)) = true ->
  let roots := fa :: flat_map (fun m => [mm_head m; mm_tail m]) ms in
  exists f' lay, recover_full tb fa ms = Ok f' /\ f_addr f' = fa /\ rspec_m prog ms roots fa lay (f_cfg f) /\
    forall gp, rspec_m prog ms roots fa lay (f_cfg gp) ->
      (forall w, lang (f_cfg f') w <-> lang (f_cfg gp) w) /\
      (det (f_cfg f') = true -> det (f_cfg gp) = true -> sem_wf (f_cfg f') = true -> sem_wf (f_cfg gp) = true ->
       forall st, (forall m1, exists m2, sem_obs m1 f' st = sem_obs m2 gp st) /\
                  (forall m2, exists m1, sem_obs m1 f' st = sem_obs m2 gp st)).
Proof.
  intros TS PO MF H MR roots. destruct (recover_full_lang _ _ _ _ H MR) as (f' & HF & Ea & L1).
  destruct (recover_lang_m _ _ _ _ _ TS PO MF H) as (lay & RS & L3).
  exists f', lay. split; [exact HF|]. split; [exact Ea|]. split; [exact RS|]. intros gp RP.
  assert (LL : forall w, lang (f_cfg f') w <-> lang (f_cfg gp) w).
  { intros w. rewrite (L1 w), (static_view_lang _ (rm_pairs _ _ _ _ _ _ RS) w). apply L3. exact RP. }
  split; [exact LL|]. intros D1 D2 W1 W2. apply lang_eq_exec_sem_lang; try assumption; apply sem_wf_sound; assumption.
Qed.
