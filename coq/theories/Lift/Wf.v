(* Lift/Wf.v -- C05: well-formedness of a lifted block (a dumped BlockTranslationResult).

   Part 1: the SPECIFICATION, written from the property text as readable propositions
           (well_sorted, op_ok, graph_ok, Wf_result) -- no reference to the checker.
   Part 2: the executable CHECKER wf_result (evaluated in the kernel on what the Rust lifters return).
   Soundness (checker = true -> specification) is proved in Lift/WfProofs.v. *)
From Coq Require Import ZArith List Bool NArith.
From Falcon Require Import Base.Res IL.Const IL.Expr IL.Func.
Import ListNotations.
Local Open Scope Z_scope.

(* translator::BlockTranslationResult: one graph per machine instruction, keyed by its address;
   successors = (address, optional guard) *)
Record bresult := mkbr {
  br_instrs : list (Z * cfg);
  br_addr : Z;
  br_len : Z;
  br_succs : list (Z * option expr) }.

(* ================================================================== Part 1: specification *)

(* "every expression obeys the width rules" -- the rules of il::Expression's constructors:
   operands of a binary operator have one width; an extension strictly widens, a truncation strictly
   narrows; the condition of an ite is one bit wide and its arms agree; no width is zero; a constant
   fits its width. *)
Inductive well_sorted : expr -> Prop :=
| WS_scalar s : 1 <= sbits s -> well_sorted (EScalar s)
| WS_const c : 1 <= cbits c -> 0 <= cval c < 2 ^ cbits c -> well_sorted (EConst c)
| WS_bin o l r : well_sorted l -> well_sorted r -> e_bits l = e_bits r -> well_sorted (EBin o l r)
| WS_zext bits x : well_sorted x -> e_bits x < bits -> well_sorted (EExt Zext bits x)
| WS_sext bits x : well_sorted x -> e_bits x < bits -> well_sorted (EExt Sext bits x)
| WS_trun bits x : well_sorted x -> 1 <= bits < e_bits x -> well_sorted (EExt Trun bits x)
| WS_ite c t f : well_sorted c -> well_sorted t -> well_sorted f ->
                 e_bits c = 1 -> e_bits t = e_bits f -> well_sorted (EIte c t f).

(* width of a memory access: a positive number of whole bytes *)
Definition mem_width (w : Z) : Prop := 0 < w /\ w mod 8 = 0.

(* "every assignment, load, store, branch target ... has the width its operation requires";
   ab = width of an address of the architecture *)
Inductive op_ok (ab : Z) : operation -> Prop :=
| OK_assign d s : well_sorted s -> e_bits s = sbits d -> op_ok ab (OAssign d s)
| OK_store i s : well_sorted i -> well_sorted s -> e_bits i = ab -> mem_width (e_bits s) -> op_ok ab (OStore i s)
| OK_load d i : well_sorted i -> e_bits i = ab -> mem_width (sbits d) -> op_ok ab (OLoad d i)
| OK_branch t : well_sorted t -> e_bits t = ab -> op_ok ab (OBranch t)
| OK_intrinsic i :
    Forall well_sorted (in_args i) ->
    (forall l, in_written i = Some l -> Forall well_sorted l) ->
    (forall l, in_read i = Some l -> Forall well_sorted l) -> op_ok ab (OIntrinsic i)
| OK_nop p : op_ok ab (ONop p).   (* a placeholder is never executed: the property is silent on its content *)

(* "... and edge guard has the width its operation requires": one bit *)
Definition guard_ok (g : option expr) : Prop :=
  forall c, g = Some c -> well_sorted c /\ e_bits c = 1.

Definition block_in (g : cfg) (i : Z) : Prop := exists b, In b (g_blocks g) /\ b_index b = i.

(* paths along the edges of g *)
Inductive reach (g : cfg) (a : Z) : Z -> Prop :=
| reach_refl : reach g a a
| reach_step b e : reach g a b -> In e (g_edges g) -> e_head e = b -> reach g a (e_tail e).

(* "each per-instruction graph has an entry and an exit joined through existing blocks" *)
Record graph_ok (ab : Z) (g : cfg) : Prop := {
  go_entry_exit : exists en ex, g_entry g = Some en /\ g_exit g = Some ex /\
                                block_in g en /\ block_in g ex /\ reach g en ex;
  go_edges : forall e, In e (g_edges g) ->
                       block_in g (e_head e) /\ block_in g (e_tail e) /\ guard_ok (e_cond e);
  go_ops : forall b i, In b (g_blocks g) -> In i (b_instrs b) -> op_ok ab (i_op i) }.

Record Wf_result (ab : Z) (r : bresult) : Prop := {
  wr_graphs : forall a g, In (a, g) (br_instrs r) -> graph_ok ab g;
  wr_succs : forall a c, In (a, c) (br_succs r) -> guard_ok c }.

(* ================================================================== Part 2: checker *)

(* widths above this bound are rejected outright (nothing the lifters emit is wider than 512 bits);
   keeps 2 ^ width cheap *)
Definition MAX_WIDTH : Z := 4096.

Fixpoint wf_expr (e : expr) : bool :=
  match e with
  | EScalar s => 1 <=? sbits s
  | EConst c => (1 <=? cbits c) && (cbits c <=? MAX_WIDTH) && (0 <=? cval c) && (cval c <? 2 ^ cbits c)
  | EBin _ l r => wf_expr l && wf_expr r && (e_bits l =? e_bits r)
  | EExt Trun bits x => wf_expr x && (1 <=? bits) && (bits <? e_bits x)
  | EExt _ bits x => wf_expr x && (e_bits x <? bits)
  | EIte c t f => wf_expr c && wf_expr t && wf_expr f && (e_bits c =? 1) && (e_bits t =? e_bits f)
  end.

(* the same tree rebuilt through the checked constructors of IL/Expr.v (the model of
   il::Expression::{add,..,zext,sext,trun,ite}); wf_expr e = true -> rebuild e = Ok e (WfProofs) *)
Fixpoint rebuild (e : expr) : res expr :=
  match e with
  | EScalar _ | EConst _ => Ok e
  | EBin o l r => l' <- rebuild l ;; r' <- rebuild r ;; mk_bin o l' r'
  | EExt o bits x => x' <- rebuild x ;; mk_ext o bits x'
  | EIte c t f => c' <- rebuild c ;; t' <- rebuild t ;; f' <- rebuild f ;; mk_ite c' t' f'
  end.

Definition mem_w (w : Z) : bool := (0 <? w) && (w mod 8 =? 0).

Definition wf_exprs_opt (o : option (list expr)) : bool :=
  match o with Some l => forallb wf_expr l | None => true end.

Definition wf_op (ab : Z) (o : operation) : bool :=
  match o with
  | OAssign d s => wf_expr s && (e_bits s =? sbits d)
  | OStore i s => wf_expr i && wf_expr s && (e_bits i =? ab) && mem_w (e_bits s)
  | OLoad d i => wf_expr i && (e_bits i =? ab) && mem_w (sbits d)
  | OBranch t => wf_expr t && (e_bits t =? ab)
  | OIntrinsic i => forallb wf_expr (in_args i) && wf_exprs_opt (in_written i) && wf_exprs_opt (in_read i)
  | ONop _ => true
  end.

Definition wf_guard (g : option expr) : bool :=
  match g with None => true | Some c => wf_expr c && (e_bits c =? 1) end.

(* reachability by saturation: `seen` grows by the tails of the edges leaving it *)
Definition memZ (x : Z) (l : list Z) : bool := existsb (Z.eqb x) l.
Definition expand (es : list edge) (seen : list Z) : list Z :=
  seen ++ map e_tail (filter (fun e => memZ (e_head e) seen && negb (memZ (e_tail e) seen)) es).
Fixpoint reach_iter (fuel : nat) (es : list edge) (seen : list Z) : list Z :=
  match fuel with O => seen | S k => reach_iter k es (expand es seen) end.
Definition reach_check (g : cfg) (a b : Z) : bool :=
  memZ b (reach_iter (length (g_blocks g)) (g_edges g) [a]).

Definition wf_graph (ab : Z) (g : cfg) : bool :=
  match g_entry g, g_exit g with
  | Some en, Some ex =>
      has_block g en && has_block g ex && reach_check g en ex &&
      forallb (fun e => has_block g (e_head e) && has_block g (e_tail e) && wf_guard (e_cond e)) (g_edges g) &&
      forallb (fun b => forallb (fun i => wf_op ab (i_op i)) (b_instrs b)) (g_blocks g)
  | _, _ => false
  end.

Definition wf_result (ab : Z) (r : bresult) : bool :=
  forallb (fun p => wf_graph ab (snd p)) (br_instrs r) &&
  forallb (fun p => wf_guard (snd p)) (br_succs r).
