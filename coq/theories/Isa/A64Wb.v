(* Isa/A64Wb.v -- single-register loads and stores in ALL three immediate addressing modes
   (offset, pre-index, post-index with write-back of the base): LDR / LDRB / LDRH / LDRSB / LDRSH / LDRSW /
   STR / STRB / STRH.  Subsumes A64Load.ldr_imm_sim and A64Store.str_imm_sim.  [U] *)
From Coq Require Import ZArith List Bool NArith Lia ZifyBool.
From Falcon Require Import Base.Res IL.Const IL.ConstSpec IL.Expr IL.ExprSpec IL.Func IL.Loc Exec.Sem
     IL.ConstProofs IL.ExprProofs Isa.A64 Isa.A64Lift Isa.A64Run Isa.A64Proofs Isa.A64Sim Isa.A64Arith
     Isa.A64Mem Isa.A64Load Isa.A64Store Isa.A64Pair Isa.A64Pair2.
Import ListNotations.
Local Open Scope Z_scope.
Ltac Zify.zify_post_hook ::= Z.div_mod_to_equations.

Section Builders.
Variables (s : a64state) (st : sstate) (k : mkind) (rt' base : areg) (off : Z).
Hypotheses (Hw : wf s) (He : emb s st) (Hrt : areg_ok rt') (Hbase : areg_ok base) (Hb64 : reg_bits base = 64).
Let B := areg_val s base.
Let A := match k with KPost => B | _ => wrap64 (B + off) end.

Lemma A_range : 0 <= A < 2 ^ 64.
Proof.
  unfold A. destruct k; try apply wrap64_range. unfold B. pose proof (areg_val_range s base Hw) as H. rewrite Hb64 in H. exact H.
Qed.

(* fn ldr / ldrb / ldrh *)
Lemma b_ldr_sim_k fixed n data :
  (1 <= n <= 8)%nat -> (match fixed with Some b => b | None => reg_bits rt' end) = 8 * Z.of_nat n ->
  mapped st (addr_range A n) -> mem_rd s A n = Some data ->
  (k = KOffset \/ areg_val (areg_write s rt' data) base = B) ->
  exists ops st', b_ldr fixed [OReg rt'; mem_opnd k base off] = Ok (ops, []) /\ (length ops <= 3)%nat /\
    run_ops ops st = OFall st' /\
    emb (match k with KOffset => areg_write s rt' data | _ => areg_write (areg_write s rt' data) base (wrap64 (B + off)) end) st'.
Proof.
  intros Hn Hbits Hm Hrd Hwb.
  destruct (mem_opnd_address k base off Hbase Hb64) as (be & G & Bb & MA).
  destruct (base_den s st base be He Hbase Hb64 G) as [Db Da].
  assert (DA : den (st_env st) (match k with KPost => be | _ => EBin Add be (expr_const off 64) end) = Ok (mkc 64 A))
    by (unfold A, B; destruct k; [apply Da|apply Da|exact Db]).
  unfold b_ldr, nth_op. cbn [nth_error res_of_option bind]. rewrite MA. cbn [bind fst snd].
  assert (Hbits' : (match fixed with Some b => Ok b | None => operand_storing_width (OReg rt') end) = Ok (8 * Z.of_nat n))
    by (destruct fixed; cbn [operand_storing_width]; congruence).
  rewrite Hbits'. cbn [bind operand_store].
  destruct (exec_load s st 70%N (8 * Z.of_nat n) _ A n data He ltac:(lia) ltac:(lia) eq_refl DA A_range Hm Hrd) as (st1 & E1 & He1 & G1).
  assert (Dt : den (st_env st1) (EScalar (s_temp0 (8 * Z.of_nat n))) = Ok (mkc (8 * Z.of_nat n) data))
    by (apply den_scalar_get; [exact G1|reflexivity]).
  destruct (reg_set_sim_w s st1 rt' (EScalar (s_temp0 (8 * Z.of_nat n))) (8 * Z.of_nat n) data He1 Hrt ltac:(lia) eq_refl Dt)
    as (op & st2 & kk & c & S1 & S2 & S3).
  rewrite S1. cbn [bind].
  destruct Hwb as [-> | Hv2].
  - cbn [sideeffect bind app]. eexists; exists st2. split; [reflexivity|]. split; [cbn; lia|]. split; [|exact S3].
    rewrite (run_ops_step _ _ _ _ _ E1 I), (run_ops_assign _ _ _ _ _ _ S2). reflexivity.
  - destruct (sideeffect_sim s k base off be _ st2 Hbase Hb64 G Bb S3 Hv2) as (wops & st3 & SE & SL & SR & SEmb).
    rewrite SE. cbn [bind]. eexists; exists st3. split; [reflexivity|]. split; [cbn [length app]; lia|]. split; [|exact SEmb].
    cbn [app]. rewrite (run_ops_step _ _ _ _ _ E1 I), (run_ops_assign _ _ _ _ _ _ S2). exact SR.
Qed.

(* fn ldrsb / ldrsh / ldrsw *)
Lemma b_ldrs_sim_k width n data :
  (1 <= n <= 4)%nat -> width = 8 * Z.of_nat n -> width < reg_bits rt' -> (width = 32 -> reg_bits rt' = 64) ->
  mapped st (addr_range A n) -> mem_rd s A n = Some data ->
  let v := s_sext (reg_bits rt') width data in
  (k = KOffset \/ areg_val (areg_write s rt' v) base = B) ->
  exists ops st', b_ldrs width [OReg rt'; mem_opnd k base off] = Ok (ops, []) /\ (length ops <= 3)%nat /\
    run_ops ops st = OFall st' /\
    emb (match k with KOffset => areg_write s rt' v | _ => areg_write (areg_write s rt' v) base (wrap64 (B + off)) end) st'.
Proof.
  intros Hn Hwd Hlt H32 Hm Hrd v Hwb.
  destruct (mem_opnd_address k base off Hbase Hb64) as (be & G & Bb & MA).
  destruct (base_den s st base be He Hbase Hb64 G) as [Db Da].
  assert (DA : den (st_env st) (match k with KPost => be | _ => EBin Add be (expr_const off 64) end) = Ok (mkc 64 A))
    by (unfold A, B; destruct k; [apply Da|apply Da|exact Db]).
  unfold b_ldrs, nth_op. cbn [nth_error res_of_option bind operand_storing_width].
  assert (Hck : (width =? 32) && negb (reg_bits rt' =? 64) = false).
  { destruct (Z.eqb_spec width 32) as [E|_]; [|reflexivity]. rewrite (H32 E). reflexivity. }
  rewrite Hck. cbn [bind]. rewrite MA. cbn [bind fst snd].
  rewrite mk_ext_ok by (cbn [e_bits s_temp0 sbits]; lia). cbn [unwrap bind operand_store].
  subst width.
  destruct (exec_load s st 70%N (8 * Z.of_nat n) _ A n data He ltac:(lia) ltac:(lia) eq_refl DA A_range Hm Hrd) as (st1 & E1 & He1 & G1).
  assert (Dt : den (st_env st1) (EExt Sext (reg_bits rt') (EScalar (s_temp0 (8 * Z.of_nat n)))) = Ok (mkc (reg_bits rt') v)).
  { rewrite (den_ext _ _ _ _ (mkc (8 * Z.of_nat n) data)) by (apply den_scalar_get; [exact G1|reflexivity]).
    cbn [sp_ext cbits cval]. destruct (Z.leb_spec (reg_bits rt') (8 * Z.of_nat n)); [lia|reflexivity]. }
  destruct (reg_set_sim s st1 rt' (EExt Sext (reg_bits rt') (EScalar (s_temp0 (8 * Z.of_nat n)))) (reg_bits rt') v He1 Hrt (reg_bits_cases rt') eq_refl Dt)
    as (op & st2 & kk & c & S1 & S2 & S3).
  rewrite S1. cbn [bind].
  destruct Hwb as [-> | Hv2].
  - cbn [sideeffect bind app]. eexists; exists st2. split; [reflexivity|]. split; [cbn; lia|]. split; [|exact S3].
    rewrite (run_ops_step _ _ _ _ _ E1 I), (run_ops_assign _ _ _ _ _ _ S2). reflexivity.
  - destruct (sideeffect_sim s k base off be _ st2 Hbase Hb64 G Bb S3 Hv2) as (wops & st3 & SE & SL & SR & SEmb).
    rewrite SE. cbn [bind]. eexists; exists st3. split; [reflexivity|]. split; [cbn [length app]; lia|]. split; [|exact SEmb].
    cbn [app]. rewrite (run_ops_step _ _ _ _ _ E1 I), (run_ops_assign _ _ _ _ _ _ S2). exact SR.
Qed.

(* fn str / strb / strh *)
Lemma b_str_sim_k trunc n s1 :
  (1 <= n <= 8)%nat ->
  match trunc with
  | None => reg_bits rt' = 8 * Z.of_nat n
  | Some w => w = 8 * Z.of_nat n /\ reg_bits rt' = 32 /\ w < 32
  end ->
  mem_wr s A n (areg_val s rt' mod 2 ^ (8 * Z.of_nat n)) = Some s1 ->
  exists ops st', b_str trunc [OReg rt'; mem_opnd k base off] = Ok (ops, []) /\ (length ops <= 2)%nat /\
    run_ops ops st = OFall st' /\
    emb (match k with KOffset => s1 | _ => areg_write s1 base (wrap64 (B + off)) end) st'.
Proof.
  intros Hn Htr Hwr.
  destruct (mem_opnd_address k base off Hbase Hb64) as (be & G & Bb & MA).
  destruct (base_den s st base be He Hbase Hb64 G) as [Db Da].
  assert (DA : den (st_env st) (match k with KPost => be | _ => EBin Add be (expr_const off 64) end) = Ok (mkc 64 A))
    by (unfold A, B; destruct k; [apply Da|apply Da|exact Db]).
  destruct (reg_get_den s st rt' Hw He Hrt) as (e & G1 & B1 & D).
  pose proof (areg_val_range s rt' Hw) as Hvr.
  destruct (mem_wr_facts s A n _ s1 Hw Hwr) as (Hw1 & Hx1 & Hsp1 & Hpc1 & _).
  assert (Hv2 : areg_val s1 base = areg_val s base) by (apply areg_val_same; assumption).
  unfold b_str, nth_op. cbn [nth_error res_of_option bind].
  destruct trunc as [w|].
  - destruct Htr as (Hw8 & H32 & Hlt). cbn [operand_load]. rewrite G1. cbn [bind]. rewrite MA. cbn [bind fst snd].
    rewrite mk_ext_ok by (rewrite B1, H32; lia). cbn [unwrap bind].
    assert (Dv : den (st_env st) (EExt Trun w e) = Ok (mkc (8 * Z.of_nat n) (areg_val s rt' mod 2 ^ (8 * Z.of_nat n)))).
    { rewrite (den_ext _ _ _ _ _ D). cbn [sp_ext cbits cval]. rewrite H32. destruct (Z.leb_spec 32 w); [lia|].
      unfold s_trun, U. rewrite Hw8. reflexivity. }
    destruct (exec_store s st _ _ A n _ s1 He ltac:(lia) DA A_range Dv Hwr) as (st1 & E1 & E2).
    destruct (sideeffect_sim s k base off be s1 st1 Hbase Hb64 G Bb E2 Hv2) as (wops & st3 & SE & SL & SR & SEmb).
    rewrite SE. cbn [bind]. eexists; exists st3. split; [reflexivity|]. split; [cbn [length app]; lia|]. split; [|exact SEmb].
    cbn [app]. rewrite (run_ops_step _ _ _ _ _ E1 I). exact SR.
  - cbn [operand_storing_width operand_load bind]. rewrite G1. cbn [bind]. rewrite MA. cbn [bind fst snd].
    assert (Dv : den (st_env st) e = Ok (mkc (8 * Z.of_nat n) (areg_val s rt' mod 2 ^ (8 * Z.of_nat n)))).
    { rewrite D, Htr. rewrite Z.mod_small by (rewrite <- Htr; exact Hvr). reflexivity. }
    destruct (exec_store s st _ _ A n _ s1 He ltac:(lia) DA A_range Dv Hwr) as (st1 & E1 & E2).
    destruct (sideeffect_sim s k base off be s1 st1 Hbase Hb64 G Bb E2 Hv2) as (wops & st3 & SE & SL & SR & SEmb).
    rewrite SE. cbn [bind]. eexists; exists st3. split; [reflexivity|]. split; [cbn [length app]; lia|]. split; [|exact SEmb].
    cbn [app]. rewrite (run_ops_step _ _ _ _ _ E1 I). exact SR.
Qed.
End Builders.

Definition kind_of_wb (m : wbmode) : mkind := match m with WOffset => KOffset | WPre => KPre | WPost => KPost end.

(* ------------------------------------------------------------------ all single-register immediate-mode loads and stores *)
Theorem ldst_imm_sim addr size opc mode (scaled : bool) imm rn rt :
  0 <= size < 4 -> 0 <= opc < 4 -> decode_ldst_opc_ok size opc = true ->
  0 <= rn < 32 -> 0 <= rt < 32 ->
  sim addr (ILdStImm size opc mode scaled imm rn rt).
Proof.
  intros Hsz Hop Hok Hn Ht s st ops succs s' Hw Hpc Ha He Hm Hl Hs.
  destruct (xzr_xsp_range true rn Hn) as [_ Hbase].
  set (offset := if scaled then imm * 2 ^ size else sext_imm 9 imm) in *.
  set (k := kind_of_wb mode).
  set (B := SPorX s rn).
  set (A := match k with KPost => B | _ => wrap64 (B + offset) end).
  set (wback := match mode with WOffset => false | _ => true end).
  (* specification *)
  cbn [a64step] in Hs. fold offset wback B in Hs.
  destruct (ldst_regsize_signed size opc) as [[rs0 sg0] il0].
  destruct (wback && (rn =? rt) && negb (rn =? 31)) eqn:Eunp; [discriminate|].
  assert (HAeq : (if match mode with WPost => true | _ => false end then B else wrap64 (B + offset)) = A)
    by (unfold A, k; destruct mode; reflexivity).
  rewrite HAeq in Hs.
  (* footprint *)
  cbn [footprint] in Hm. fold offset B in Hm.
  assert (HAeq' : match mode with WPost => B | _ => wrap64 (B + offset) end = A) by (unfold A, k; destruct mode; reflexivity).
  rewrite HAeq' in Hm.
  (* the lifter *)
  unfold lift in Hl. cbn [operands_of] in Hl. fold offset in Hl.
  set (off := if scaled then imm * 2 ^ size else u64 (sext_imm 9 imm)) in *.
  set (base := xreg_sp true rn) in *.
  assert (Hmem : (match mode with WOffset => OMemOffset base off | WPre => OMemPreIdx base off | WPost => OMemPostIdxImm base off end)
                 = mem_opnd k base off) by (unfold k; destruct mode; reflexivity).
  rewrite Hmem in Hl.
  assert (HB : areg_val s base = B) by (apply areg_val_sp64; assumption).
  assert (Hw64 : wrap64 (B + off) = wrap64 (B + offset)) by (unfold off, offset; destruct scaled; [reflexivity|apply wrap_u64]).
  assert (HAil : match k with KPost => areg_val s base | _ => wrap64 (areg_val s base + off) end = A) by (rewrite HB, Hw64; reflexivity).
  assert (Hb64 : reg_bits base = 64) by apply reg_bits_sp.
  assert (Hc : k = KOffset \/ rn = 31 \/ rt <> rn).
  { unfold k, wback in *. destruct mode; cbn [kind_of_wb]; try (left; reflexivity); right; cbn [andb] in Eunp;
      (destruct (Z.eqb_spec rn 31) as [E31|N31]; [left; exact E31|right]); cbn [negb] in Eunp; rewrite andb_true_r in Eunp;
      apply Z.eqb_neq in Eunp; congruence. }
  (* closing: the state the builder lemma reaches is the specification's *)
  assert (Hfin : forall R ops',
            apc R = apc s ->
            (exists st', (length ops' <= 3)%nat /\ run_ops ops' st = OFall st' /\
                         emb (match k with KOffset => R | _ => areg_write R base (wrap64 (areg_val s base + off)) end) st') ->
            exists st', run_lifted (graph_of addr ops') (merge_successors [(addr + 4, None)]) st =
                          Ok (st', apc (nextPC (if wback then setSPorX R rn (wrap64 (B + offset)) else R))) /\
                        emb (nextPC (if wback then setSPorX R rn (wrap64 (B + offset)) else R)) st').
  { intros R ops' HpR (st' & Hlen & Hr & Hemb). rewrite HB, Hw64 in Hemb.
    assert (Hst : (if wback then setSPorX R rn (wrap64 (B + offset)) else R) =
                  match k with KOffset => R | _ => areg_write R base (wrap64 (B + offset)) end).
    { unfold k, wback, base. destruct mode; cbn [kind_of_wb]; try reflexivity; symmetry; apply areg_write_sp. }
    rewrite Hst. apply (finish_fall_ops' addr s st _ ops' st'); try assumption; [lia|].
    unfold base. destruct k; [|rewrite areg_write_sp, apc_setSPorX|rewrite areg_write_sp, apc_setSPorX]; exact HpR. }
  assert (size = 0 \/ size = 1 \/ size = 2 \/ size = 3) as Hsize by lia.
  destruct (Z.eq_dec opc 0) as [-> | Hopn].
  - (* stores *)
    rewrite ldst_access_store in Hs by assumption.
    destruct (mem_wr s A (Z.to_nat (2 ^ size)) (X s rt mod 2 ^ (8 * 2 ^ size))) as [s1|] eqn:Ewr; [|discriminate].
    inversion Hs; subst s'; clear Hs.
    assert (Hp1 : apc s1 = apc s).
    { unfold mem_wr in Ewr. destruct (2 ^ 64 <? A + Z.of_nat (Z.to_nat (2 ^ size))); [discriminate|]. inversion Ewr. reflexivity. }
    rewrite <- HAil in Ewr.
    Ltac strk_case Hl Hfin Hw He Ht Hbase Hb64 Ewr Hp1 sfr trunc n :=
      destruct (xzr_xsp_range sfr _ Ht) as [Hrt _];
      destruct (b_str_sim_k _ _ _ _ _ _ Hw He Hrt Hbase Hb64 trunc n _ ltac:(lia)
                  ltac:(first [ (rewrite reg_bits_zr; reflexivity) | (split; [reflexivity|split; [rewrite reg_bits_zr; reflexivity|lia]]) ]) Ewr)
        as (ops' & st' & B1 & Blen & B2 & B3);
      cbn [dispatch terminating] in Hl; rewrite B1 in Hl; cbn [bind fst snd] in Hl; inversion Hl; subst; clear Hl;
      match goal with HB2 : run_ops ?o _ = OFall ?s2 |- _ => apply (Hfin _ o Hp1); exists s2; (split; [lia|split; assumption]) end.
    destruct Hsize as [-> | [-> | [-> | ->]]].
    + change (ldst_mnem 0 0) with MStrb in Hl. change (ldst_rt 0 0 rt) with (xreg_zr false rt) in Hl.
      change (Z.to_nat (2 ^ 0)) with 1%nat in *.
      replace (X s rt mod 2 ^ (8 * 2 ^ 0)) with (areg_val s (xreg_zr false rt) mod 2 ^ (8 * Z.of_nat 1)) in Ewr
        by (rewrite areg_val_zr by assumption; unfold Xw; cbn [dsize]; change (2 ^ (8 * Z.of_nat 1)) with 256;
            change (2 ^ (8 * 2 ^ 0)) with 256; change (2 ^ 32) with 4294967296; lia).
      strk_case Hl Hfin Hw He Ht Hbase Hb64 Ewr Hp1 false (Some 8) 1%nat.
    + change (ldst_mnem 1 0) with MStrh in Hl. change (ldst_rt 1 0 rt) with (xreg_zr false rt) in Hl.
      change (Z.to_nat (2 ^ 1)) with 2%nat in *.
      replace (X s rt mod 2 ^ (8 * 2 ^ 1)) with (areg_val s (xreg_zr false rt) mod 2 ^ (8 * Z.of_nat 2)) in Ewr
        by (rewrite areg_val_zr by assumption; unfold Xw; cbn [dsize]; change (2 ^ (8 * Z.of_nat 2)) with 65536;
            change (2 ^ (8 * 2 ^ 1)) with 65536; change (2 ^ 32) with 4294967296; lia).
      strk_case Hl Hfin Hw He Ht Hbase Hb64 Ewr Hp1 false (Some 16) 2%nat.
    + change (ldst_mnem 2 0) with MStr in Hl. change (ldst_rt 2 0 rt) with (xreg_zr false rt) in Hl.
      change (Z.to_nat (2 ^ 2)) with 4%nat in *.
      replace (X s rt mod 2 ^ (8 * 2 ^ 2)) with (areg_val s (xreg_zr false rt) mod 2 ^ (8 * Z.of_nat 4)) in Ewr
        by (rewrite areg_val_zr by assumption; unfold Xw; cbn [dsize]; change (2 ^ (8 * Z.of_nat 4)) with 4294967296;
            change (2 ^ (8 * 2 ^ 2)) with 4294967296; change (2 ^ 32) with 4294967296; lia).
      strk_case Hl Hfin Hw He Ht Hbase Hb64 Ewr Hp1 false (@None Z) 4%nat.
    + change (ldst_mnem 3 0) with MStr in Hl. change (ldst_rt 3 0 rt) with (xreg_zr true rt) in Hl.
      change (Z.to_nat (2 ^ 3)) with 8%nat in *.
      replace (X s rt mod 2 ^ (8 * 2 ^ 3)) with (areg_val s (xreg_zr true rt) mod 2 ^ (8 * Z.of_nat 8)) in Ewr
        by (rewrite areg_val_zr by assumption; unfold Xw; cbn [dsize]; change (2 ^ (8 * Z.of_nat 8)) with 18446744073709551616;
            change (2 ^ (8 * 2 ^ 3)) with 18446744073709551616; change (2 ^ 64) with 18446744073709551616; lia).
      strk_case Hl Hfin Hw He Ht Hbase Hb64 Ewr Hp1 true (@None Z) 8%nat.
  - (* loads *)
    rewrite ldst_access_load in Hs by lia.
    destruct (mem_rd s A (Z.to_nat (2 ^ size))) as [data|] eqn:Erd; [|discriminate]. inversion Hs; subst s'; clear Hs.
    assert (Hm' : mapped st (addr_range A (Z.to_nat (2 ^ size)))) by exact Hm.
    rewrite <- HAil in Hm', Erd.
    assert (Hwbv : forall sfr v, k = KOffset \/ areg_val (areg_write s (xreg_zr sfr rt) v) base = areg_val s base).
    { intros sfr v. destruct Hc as [Hk | Hc]; [left; exact Hk|right]. rewrite areg_write_zr. unfold base.
      apply (base_after_write _ sfr rt v rn Hn). destruct Hc; [left|right]; assumption. }
    assert (opc = 1 \/ opc = 2 \/ opc = 3) as Hopc by lia.
    Ltac ldrk_case Hl Hfin Hw He Ht Hbase Hb64 Hm' Erd Hwbv sfr fixed n :=
      destruct (xzr_xsp_range sfr _ Ht) as [Hrt _];
      destruct (b_ldr_sim_k _ _ _ _ _ _ Hw He Hrt Hbase Hb64 fixed n _ ltac:(lia)
                  ltac:(first [reflexivity | (cbv beta iota; rewrite reg_bits_zr; reflexivity)]) Hm' Erd (Hwbv sfr _))
        as (ops' & st' & B1 & Blen & B2 & B3);
      cbn [dispatch terminating] in Hl; rewrite B1 in Hl; cbn [bind fst snd] in Hl; inversion Hl; subst; clear Hl;
      rewrite !areg_write_zr in B3;
      match goal with HB2 : run_ops ?o _ = OFall ?s2 |- _ => apply (Hfin _ o (apc_setX _ _ _)); exists s2; (split; [lia|split; assumption]) end.
    Ltac ldrsk_case Hl Hfin Hw He Ht Hbase Hb64 Hm' Erd Hwbv sfr width n :=
      destruct (xzr_xsp_range sfr _ Ht) as [Hrt _];
      destruct (b_ldrs_sim_k _ _ _ _ _ _ Hw He Hrt Hbase Hb64 width n _ ltac:(lia) ltac:(reflexivity)
                  ltac:(rewrite reg_bits_zr; cbn; lia) ltac:(intros; rewrite reg_bits_zr; try reflexivity; try lia) Hm' Erd (Hwbv sfr _))
        as (ops' & st' & B1 & Blen & B2 & B3);
      cbn [dispatch terminating] in Hl; rewrite B1 in Hl; cbn [bind fst snd] in Hl; inversion Hl; subst; clear Hl;
      rewrite !areg_write_zr, reg_bits_zr in B3;
      match goal with HB2 : run_ops ?o _ = OFall ?s2 |- _ => apply (Hfin _ o (apc_setX _ _ _)); exists s2; (split; [lia|split; assumption]) end.
    destruct Hsize as [-> | [-> | [-> | ->]]]; destruct Hopc as [-> | [-> | ->]]; try discriminate Hok.
    + change (ldst_mnem 0 1) with MLdrb in Hl. change (ldst_rt 0 1 rt) with (xreg_zr false rt) in Hl.
      change (Z.to_nat (2 ^ 0)) with 1%nat in *. ldrk_case Hl Hfin Hw He Ht Hbase Hb64 Hm' Erd Hwbv false (Some 8) 1%nat.
    + change (ldst_mnem 0 2) with MLdrsb in Hl. change (ldst_rt 0 2 rt) with (xreg_zr true rt) in Hl.
      change (Z.to_nat (2 ^ 0)) with 1%nat in *. ldrsk_case Hl Hfin Hw He Ht Hbase Hb64 Hm' Erd Hwbv true 8 1%nat.
    + change (ldst_mnem 0 3) with MLdrsb in Hl. change (ldst_rt 0 3 rt) with (xreg_zr false rt) in Hl.
      change (Z.to_nat (2 ^ 0)) with 1%nat in *. ldrsk_case Hl Hfin Hw He Ht Hbase Hb64 Hm' Erd Hwbv false 8 1%nat.
    + change (ldst_mnem 1 1) with MLdrh in Hl. change (ldst_rt 1 1 rt) with (xreg_zr false rt) in Hl.
      change (Z.to_nat (2 ^ 1)) with 2%nat in *. ldrk_case Hl Hfin Hw He Ht Hbase Hb64 Hm' Erd Hwbv false (Some 16) 2%nat.
    + change (ldst_mnem 1 2) with MLdrsh in Hl. change (ldst_rt 1 2 rt) with (xreg_zr true rt) in Hl.
      change (Z.to_nat (2 ^ 1)) with 2%nat in *. ldrsk_case Hl Hfin Hw He Ht Hbase Hb64 Hm' Erd Hwbv true 16 2%nat.
    + change (ldst_mnem 1 3) with MLdrsh in Hl. change (ldst_rt 1 3 rt) with (xreg_zr false rt) in Hl.
      change (Z.to_nat (2 ^ 1)) with 2%nat in *. ldrsk_case Hl Hfin Hw He Ht Hbase Hb64 Hm' Erd Hwbv false 16 2%nat.
    + change (ldst_mnem 2 1) with MLdr in Hl. change (ldst_rt 2 1 rt) with (xreg_zr false rt) in Hl.
      change (Z.to_nat (2 ^ 2)) with 4%nat in *. ldrk_case Hl Hfin Hw He Ht Hbase Hb64 Hm' Erd Hwbv false (@None Z) 4%nat.
    + change (ldst_mnem 2 2) with MLdrsw in Hl. change (ldst_rt 2 2 rt) with (xreg_zr true rt) in Hl.
      change (Z.to_nat (2 ^ 2)) with 4%nat in *. ldrsk_case Hl Hfin Hw He Ht Hbase Hb64 Hm' Erd Hwbv true 32 4%nat.
    + change (ldst_mnem 3 1) with MLdr in Hl. change (ldst_rt 3 1 rt) with (xreg_zr true rt) in Hl.
      change (Z.to_nat (2 ^ 3)) with 8%nat in *. ldrk_case Hl Hfin Hw He Ht Hbase Hb64 Hm' Erd Hwbv true (@None Z) 8%nat.
Qed.
