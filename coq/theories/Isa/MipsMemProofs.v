(* Isa/MipsMemProofs.v -- per-form theorems for the MIPS loads and stores (continuation of MipsProofs.v).
   The IL memory is a sub-map of the machine memory (emb_mem); `access_ok` asks that the bytes a load reads
   are mapped and that the ISA raises no AddressError. *)
From Coq Require Import ZArith List Bool NArith Lia ZifyBool.
From Falcon Require Import Base.Res IL.Const IL.ConstSpec IL.Expr IL.ExprSpec IL.Func IL.Loc Exec.Sem
  Isa.ILRun Isa.Mips Isa.MipsLift Isa.MipsProofs.
Import ListNotations.
Local Open Scope Z_scope.
Ltac Zify.zify_post_hook ::= Z.div_mod_to_equations.

(* ------------------------------------------------------------------ temporaries *)
Lemma nthN_key ts i : temps_ok ts -> nthN ts i = 0%N \/ (40 <= nthN ts i)%N.
Proof.
  intros H. unfold nthN. destruct (nth_in_or_default i ts 0%N) as [Hin | ->]; [right; apply H; assumption|left; reflexivity].
Qed.
Lemma tmp_not_arch ts i : temps_ok ts -> ~ arch_key (nthN ts i, None).
Proof.
  intros H. destruct (nthN_key ts i H) as [-> | Hge].
  - apply (not_arch_kreg 0); lia.
  - apply not_arch_tmp. assumption.
Qed.
Lemma tmp_not_kbc ts i : temps_ok ts -> (nthN ts i, None) <> kbc.
Proof.
  intros H. unfold kbc, kreg, R_BC. destruct (nthN_key ts i H) as [-> | Hge]; intros E; inversion E; lia.
Qed.
Lemma tmp_not_reg ts i r : temps_ok ts -> 1 <= r <= 33 -> (nthN ts i, None) <> kreg r.
Proof.
  intros H Hr E. apply (tmp_not_arch ts i H). exists r. split; [lia|exact E].
Qed.

(* ------------------------------------------------------------------ effective address *)
Lemma den_ea s st base off : wf_m s -> emb s st -> reg_ok base -> 0 <= off < 2 ^ 16 ->
  den (st_env st) (EBin Add (reg_expr base) (expr_const (cs_simm off) 32)) = Ok (mkc 32 (vaddr s base off)).
Proof.
  intros Hw He Hb Ho. eapply eq_trans; [eapply den_bin; den_tac|].
  cbn [sp_bin]. unfold s_add, vaddr, a32, U, W. rewrite cs_simm_mod by assumption.
  rewrite Z.add_mod_idemp_r by lia. reflexivity.
Qed.
Lemma ea_ok base off : ea base off = Ok (EBin Add (reg_expr base) (expr_const (cs_simm off) 32)).
Proof. unfold ea. apply mk_bin_ok. rewrite e_bits_reg. reflexivity. Qed.
Lemma vaddr_range s base off : 0 <= vaddr s base off < 2 ^ 32.
Proof. unfold vaddr. apply a32_range. Qed.

(* ------------------------------------------------------------------ IL memory vs machine memory *)
Lemma covers_get m a n k : covers m a n -> 0 <= k < n -> exists b, bm_get m (a + k) = Some b.
Proof. intros H Hk. specialize (H k Hk). destruct (bm_get m (a + k)) as [b|]; [exists b; reflexivity|congruence]. Qed.

Lemma a32_id x : 0 <= x < 2 ^ 32 -> a32 x = x.
Proof. apply a32_small. Qed.

Lemma mem_load8 s st a : emb s st -> 0 <= a < 2 ^ 32 -> covers (st_mem st) a 1 ->
  mem_load (st_mem st) a 8 = Ok (mkc 8 (mem s a)).
Proof.
  intros He Ha Hc. unfold mem_load. cbn [Z.leb Z.compare orb negb Z.modulo Z.div_eucl Z.pos_div_eucl Z.eqb].
  change (8 mod 8 =? 0) with true. change (8 / 8) with 1. cbn [negb orb].
  unfold ADDR_LIMIT. destruct (Z.ltb_spec (2 ^ 64) (a + 1)); [lia|].
  destruct (covers_get _ _ _ 0 Hc ltac:(lia)) as [b0 H0]. rewrite Z.add_0_r in H0.
  change (Z.to_nat 1) with 1%nat. cbn [read_bytes]. rewrite H0.
  rewrite (emb_mem _ _ He _ _ H0). unfold bytes_value. destruct (bm_big (st_mem st)); cbn [rev app le_value]; f_equal; f_equal; lia.
Qed.

Lemma mem_load16 s st a : emb s st -> 0 <= a -> a + 2 <= 2 ^ 32 -> covers (st_mem st) a 2 ->
  mem_load (st_mem st) a 16 = Ok (mkc 16 (ld2 s a)).
Proof.
  intros He Ha Ha2 Hc. unfold mem_load. change (16 mod 8 =? 0) with true. change (16 / 8) with 2. change (16 <=? 0) with false. cbn [negb orb].
  unfold ADDR_LIMIT. destruct (Z.ltb_spec (2 ^ 64) (a + 2)); [lia|].
  destruct (covers_get _ _ _ 0 Hc ltac:(lia)) as [b0 H0]. rewrite Z.add_0_r in H0.
  destruct (covers_get _ _ _ 1 Hc ltac:(lia)) as [b1 H1].
  change (Z.to_nat 2) with 2%nat. cbn [read_bytes]. rewrite H0, H1.
  rewrite (emb_mem _ _ He _ _ H0), (emb_mem _ _ He _ _ H1).
  unfold ld2, mb. rewrite !a32_id by lia. rewrite (emb_big _ _ He).
  unfold bytes_value. destruct (big s); cbn [rev app le_value]; f_equal; f_equal; lia.
Qed.

Lemma mem_load32 s st a : emb s st -> 0 <= a -> a + 4 <= 2 ^ 32 -> covers (st_mem st) a 4 ->
  mem_load (st_mem st) a 32 = Ok (mkc 32 (ld4 s a)).
Proof.
  intros He Ha Ha2 Hc. unfold mem_load. change (32 mod 8 =? 0) with true. change (32 / 8) with 4. change (32 <=? 0) with false. cbn [negb orb].
  unfold ADDR_LIMIT. destruct (Z.ltb_spec (2 ^ 64) (a + 4)); [lia|].
  destruct (covers_get _ _ _ 0 Hc ltac:(lia)) as [b0 H0]. rewrite Z.add_0_r in H0.
  destruct (covers_get _ _ _ 1 Hc ltac:(lia)) as [b1 H1].
  destruct (covers_get _ _ _ 2 Hc ltac:(lia)) as [b2 H2].
  destruct (covers_get _ _ _ 3 Hc ltac:(lia)) as [b3 H3].
  change (Z.to_nat 4) with 4%nat. cbn [read_bytes].
  replace (a + 1 + 1) with (a + 2) by lia. replace (a + 2 + 1) with (a + 3) by lia.
  rewrite H0, H1, H2, H3.
  rewrite (emb_mem _ _ He _ _ H0), (emb_mem _ _ He _ _ H1), (emb_mem _ _ He _ _ H2), (emb_mem _ _ He _ _ H3).
  unfold ld4, mb. rewrite !a32_id by lia. rewrite (emb_big _ _ He).
  unfold bytes_value. destruct (big s); cbn [rev app le_value]; f_equal; f_equal; lia.
Qed.

(* ------------------------------------------------------------------ running loads / stores *)
Lemma run_load addr i d idx t st a v : den (st_env st) idx = Ok (mkc 32 a) -> 0 <= a < 2 ^ 32 ->
  mem_load (st_mem st) a (sbits d) = Ok v ->
  run_instrs (mkinstr i (OLoad d idx) addr :: t) st = run_instrs t (set_env st (skey_of d) v).
Proof.
  intros Hd Ha Hm. cbn [run_instrs i_op exec_op]. rewrite Hd. cbn [bind]. unfold addr_of. cbn [cval].
  unfold ADDR_LIMIT. destruct (Z.ltb_spec a (2 ^ 64)); [|lia]. cbn [bind]. rewrite Hm. reflexivity.
Qed.

Lemma run_store addr i idx src t st a v m' : den (st_env st) src = Ok v -> den (st_env st) idx = Ok (mkc 32 a) ->
  0 <= a < 2 ^ 32 -> mem_store (st_mem st) a v = Ok m' ->
  run_instrs (mkinstr i (OStore idx src) addr :: t) st = run_instrs t (mkst (st_env st) m').
Proof.
  intros Hs Hd Ha Hm. cbn [run_instrs i_op exec_op]. rewrite Hs, Hd. cbn [bind]. unfold addr_of. cbn [cval].
  unfold ADDR_LIMIT. destruct (Z.ltb_spec a (2 ^ 64)); [|lia]. cbn [bind]. rewrite Hm. reflexivity.
Qed.

(* ------------------------------------------------------------------ posts *)
Lemma post_fin_emb s st st' : emb s st' -> env_get (st_env st') kbc = env_get (st_env st) kbc -> post (ok s) st (Fin st').
Proof. intros He Hf. unfold ok, post. exists st'. split; [reflexivity|]. split; [apply emb_emb_u; assumption|assumption]. Qed.

Lemma emb_tmp_reg s st tk tv rd V : emb s st -> ~ arch_key tk -> reg_ok rd ->
  emb (setr s rd V) (set_env (set_env st tk tv) (kreg rd) (mkc 32 V)).
Proof. intros He Hk Hd. apply emb_setr; [apply emb_set_other; assumption|assumption]. Qed.

Lemma frame_tmp_reg st tk tv rd v : tk <> kbc -> reg_ok rd ->
  env_get (st_env (set_env (set_env st tk tv) (kreg rd) v)) kbc = env_get (st_env st) kbc.
Proof.
  intros Hk Hd. unfold set_env. cbn [st_env]. rewrite env_get_set_other by (apply kbc_not_reg; unfold reg_ok in Hd; lia).
  apply env_get_set_other. assumption.
Qed.

Lemma den_tmp st tk bits v : den (st_env (set_env st (tk, None) (mkc bits v))) (EScalar (mks tk bits None)) = Ok (mkc bits v).
Proof. cbn [den skey_of sname sssa set_env st_env]. rewrite env_get_set_same. cbn [cbits sbits]. rewrite Z.eqb_refl. reflexivity. Qed.

(* ------------------------------------------------------------------ lb lbu lh lhu *)
Definition imm_ok (x : Z) : Prop := 0 <= x < 2 ^ 16.

Theorem load_ext_correct bg k rt base off :
  (k = LLb \/ k = LLbu \/ k = LLh \/ k = LLhu) -> reg_ok rt -> reg_ok base -> imm_ok off ->
  plain_correct bg (MLoad k rt base off).
Proof.
  intros Hk Ht Hbs Ho a ts s st Hw Hb He Hts Hacc Htd. unfold imm_ok in Ho.
  pose proof (vaddr_range s base off) as Rv.
  pose proof (tmp_not_arch ts 0 Hts) as Ta. pose proof (tmp_not_kbc ts 0 Hts) as Tk.
  destruct Hk as [-> | [-> | [-> | ->]]]; cbn [lift_plain exec1 exec_load access_ok] in *; unfold b_load_ext; rewrite ea_ok; cbn [bind];
    set (t := nthN ts 0) in *.
  - change (mk_ext Sext 32 (EScalar (tmp t 8))) with (Ok (EExt Sext 32 (EScalar (tmp t 8)))). cbn [bind].
    rewrite run_single. cbn [number].
    erewrite run_load; [|eapply den_ea; eassumption|exact Rv|apply mem_load8; [eassumption|exact Rv|exact Hacc]].
    erewrite run_assign; [|eapply eq_trans; [eapply den_ext; apply (den_tmp st t 8 _)|reflexivity]].
    cbn [run_instrs]. apply post_fin_emb.
    + unfold ld1, mb. rewrite (a32_id (vaddr s base off)) by exact Rv. rewrite skey_reg. apply emb_tmp_reg; assumption.
    + rewrite skey_reg. apply frame_tmp_reg; assumption.
  - change (mk_ext Zext 32 (EScalar (tmp t 8))) with (Ok (EExt Zext 32 (EScalar (tmp t 8)))). cbn [bind].
    rewrite run_single. cbn [number].
    erewrite run_load; [|eapply den_ea; eassumption|exact Rv|apply mem_load8; [eassumption|exact Rv|exact Hacc]].
    erewrite run_assign; [|eapply eq_trans; [eapply den_ext; apply (den_tmp st t 8 _)|reflexivity]].
    cbn [run_instrs]. apply post_fin_emb.
    + unfold ld1, mb. rewrite (a32_id (vaddr s base off)) by exact Rv. rewrite skey_reg. apply emb_tmp_reg; assumption.
    + rewrite skey_reg. apply frame_tmp_reg; assumption.
  - destruct Hacc as [Hal Hc]. rewrite Hal. cbn [Z.eqb].
    change (mk_ext Sext 32 (EScalar (tmp t 16))) with (Ok (EExt Sext 32 (EScalar (tmp t 16)))). cbn [bind].
    rewrite run_single. cbn [number].
    erewrite run_load; [|eapply den_ea; eassumption|exact Rv|apply mem_load16; [eassumption|lia| |exact Hc]].
    2: { change (2 ^ 32) with 4294967296 in *. lia. }
    erewrite run_assign; [|eapply eq_trans; [eapply den_ext; apply (den_tmp st t 16 _)|reflexivity]].
    cbn [run_instrs]. apply post_fin_emb.
    + rewrite skey_reg. apply emb_tmp_reg; assumption.
    + rewrite skey_reg. apply frame_tmp_reg; assumption.
  - destruct Hacc as [Hal Hc]. rewrite Hal. cbn [Z.eqb].
    change (mk_ext Zext 32 (EScalar (tmp t 16))) with (Ok (EExt Zext 32 (EScalar (tmp t 16)))). cbn [bind].
    rewrite run_single. cbn [number].
    erewrite run_load; [|eapply den_ea; eassumption|exact Rv|apply mem_load16; [eassumption|lia| |exact Hc]].
    2: { change (2 ^ 32) with 4294967296 in *. lia. }
    erewrite run_assign; [|eapply eq_trans; [eapply den_ext; apply (den_tmp st t 16 _)|reflexivity]].
    cbn [run_instrs]. apply post_fin_emb.
    + rewrite skey_reg. apply emb_tmp_reg; assumption.
    + rewrite skey_reg. apply frame_tmp_reg; assumption.
Qed.

(* ------------------------------------------------------------------ lw ll *)
Theorem lw_correct bg k rt base off : (k = LLw \/ k = LLl) -> reg_ok rt -> reg_ok base -> imm_ok off ->
  plain_correct bg (MLoad k rt base off).
Proof.
  intros Hk Ht Hbs Ho a ts s st Hw Hb He Hts Hacc Htd. unfold imm_ok in Ho.
  pose proof (vaddr_range s base off) as Rv.
  assert (G : match b_lw (Some a) rt base off with
              | Ok g => post (exec1 (MLoad LLw rt base off) s) st (run_graph g st) | _ => False end).
  { assert (Hacc' : vaddr s base off mod 4 = 0 /\ covers (st_mem st) (vaddr s base off) 4)
      by (destruct Hk as [-> | ->]; exact Hacc).
    destruct Hacc' as [Hal Hc].
    cbn [exec1 exec_load]. rewrite Hal. cbn [Z.eqb]. unfold b_lw. rewrite ea_ok. cbn [bind].
    rewrite run_single. cbn [number].
    erewrite run_load; [|eapply den_ea; eassumption|exact Rv|apply mem_load32; [eassumption|lia| |exact Hc]].
    2: { change (2 ^ 32) with 4294967296 in *. lia. }
    cbn [run_instrs]. apply post_fin_emb.
    - rewrite skey_reg. apply emb_setr; assumption.
    - rewrite skey_reg. unfold set_env. cbn [st_env]. apply env_get_set_other. apply kbc_not_reg. unfold reg_ok in Ht. lia. }
  destruct Hk as [-> | ->]; exact G.
Qed.

(* ------------------------------------------------------------------ stores *)
Lemma emb_new_mem s st bytes' mem' : emb s st ->
  (forall k b, bytes_get bytes' k = Some b -> b = mem' k) ->
  emb (set_mem s mem') (mkst (st_env st) (mkbmem (bm_big (st_mem st)) bytes')).
Proof.
  intros [A B C D E] H. constructor; cbn [st_env st_mem set_mem gpr hi lo big mem bm_big]; auto.
Qed.

Lemma mem_store8 m a x : 0 <= a < 2 ^ 32 ->
  mem_store m a (mkc 8 x) = Ok (mkbmem (bm_big m) ((a, x mod 256) :: bm_bytes m)).
Proof.
  intros Ha. unfold mem_store. cbn [cbits cval]. change (8 mod 8 =? 0) with true. change (8 <=? 0) with false. change (8 / 8) with 1.
  cbn [negb orb]. unfold ADDR_LIMIT. destruct (Z.ltb_spec (2 ^ 64) (a + 1)); [lia|].
  unfold value_bytes. change (Z.to_nat 1) with 1%nat. destruct (bm_big m); reflexivity.
Qed.
Lemma mem_store16 m a x : 0 <= a < 2 ^ 32 ->
  mem_store m a (mkc 16 x) =
  Ok (mkbmem (bm_big m) (if bm_big m then (a + 1, x mod 256) :: (a, (x / 256) mod 256) :: bm_bytes m
                         else (a + 1, (x / 256) mod 256) :: (a, x mod 256) :: bm_bytes m)).
Proof.
  intros Ha. unfold mem_store. cbn [cbits cval]. change (16 mod 8 =? 0) with true. change (16 <=? 0) with false. change (16 / 8) with 2.
  cbn [negb orb]. unfold ADDR_LIMIT. destruct (Z.ltb_spec (2 ^ 64) (a + 2)); [lia|].
  unfold value_bytes. change (Z.to_nat 2) with 2%nat. destruct (bm_big m); reflexivity.
Qed.
Lemma mem_store32 m a x : 0 <= a < 2 ^ 32 ->
  mem_store m a (mkc 32 x) =
  Ok (mkbmem (bm_big m)
        (if bm_big m
         then (a + 1 + 1 + 1, x mod 256) :: (a + 1 + 1, (x / 256) mod 256) :: (a + 1, (x / 256 / 256) mod 256) :: (a, (x / 256 / 256 / 256) mod 256) :: bm_bytes m
         else (a + 1 + 1 + 1, (x / 256 / 256 / 256) mod 256) :: (a + 1 + 1, (x / 256 / 256) mod 256) :: (a + 1, (x / 256) mod 256) :: (a, x mod 256) :: bm_bytes m)).
Proof.
  intros Ha. unfold mem_store. cbn [cbits cval]. change (32 mod 8 =? 0) with true. change (32 <=? 0) with false. change (32 / 8) with 4.
  cbn [negb orb]. unfold ADDR_LIMIT. destruct (Z.ltb_spec (2 ^ 64) (a + 4)); [lia|].
  unfold value_bytes. change (Z.to_nat 4) with 4%nat. destruct (bm_big m); reflexivity.
Qed.

Ltac bytes_cases Hold :=
  intros k b; cbn [bytes_get]; unfold wr;
  repeat match goal with |- context [?x =? ?y] => destruct (Z.eqb_spec x y) end;
  intros Hk; try (exfalso; lia); try (inversion Hk; subst; lia); try (apply Hold; exact Hk).

Lemma store1_emb s st a v : emb s st -> 0 <= a < 2 ^ 32 ->
  emb (st1 s a v) (mkst (st_env st) (mkbmem (bm_big (st_mem st)) ((a, (v mod 2 ^ 8) mod 256) :: bm_bytes (st_mem st)))).
Proof.
  intros He Ha. unfold st1. apply emb_new_mem; [assumption|].
  pose proof (emb_mem _ _ He) as Hold. unfold bm_get in Hold.
  unfold wr. rewrite (a32_id a Ha). change (2 ^ 8) with 256. bytes_cases Hold.
Qed.

Lemma store2_emb s st a x : emb s st -> 0 <= a -> a + 2 <= 2 ^ 32 ->
  emb (st2 s a x)
      (mkst (st_env st) (mkbmem (bm_big (st_mem st))
         (if bm_big (st_mem st) then (a + 1, x mod 256) :: (a, (x / 256) mod 256) :: bm_bytes (st_mem st)
          else (a + 1, (x / 256) mod 256) :: (a, x mod 256) :: bm_bytes (st_mem st)))).
Proof.
  intros He Ha Ha2. unfold st2. apply emb_new_mem; [assumption|].
  pose proof (emb_mem _ _ He) as Hold. unfold bm_get in Hold.
  rewrite (emb_big _ _ He). destruct (big s); unfold wr; rewrite (a32_id a), (a32_id (a + 1)) by lia; bytes_cases Hold.
Qed.

Lemma store4_emb s st a x : emb s st -> 0 <= a -> a + 4 <= 2 ^ 32 ->
  emb (st4 s a x)
      (mkst (st_env st) (mkbmem (bm_big (st_mem st))
        (if bm_big (st_mem st)
         then (a + 1 + 1 + 1, x mod 256) :: (a + 1 + 1, (x / 256) mod 256) :: (a + 1, (x / 256 / 256) mod 256) :: (a, (x / 256 / 256 / 256) mod 256) :: bm_bytes (st_mem st)
         else (a + 1 + 1 + 1, (x / 256 / 256 / 256) mod 256) :: (a + 1 + 1, (x / 256 / 256) mod 256) :: (a + 1, (x / 256) mod 256) :: (a, x mod 256) :: bm_bytes (st_mem st)))).
Proof.
  intros He Ha Ha2. unfold st4. apply emb_new_mem; [assumption|].
  pose proof (emb_mem _ _ He) as Hold. unfold bm_get in Hold.
  rewrite (emb_big _ _ He). change (2 ^ 24) with 16777216. change (2 ^ 16) with 65536. change (2 ^ 8) with 256.
  destruct (big s); unfold wr; rewrite (a32_id a), (a32_id (a + 1)), (a32_id (a + 2)), (a32_id (a + 3)) by lia; bytes_cases Hold.
Qed.

Lemma post_store s' st env' m' : emb s' (mkst env' m') -> env_get env' kbc = env_get (st_env st) kbc ->
  post (ok s') st (Fin (mkst env' m')).
Proof. intros He Hf. apply post_fin_emb; assumption. Qed.

Theorem store_correct bg k rt base off :
  (k = SSb \/ k = SSh \/ k = SSw \/ k = SSc) -> reg_ok rt -> reg_ok base -> imm_ok off ->
  plain_correct bg (MStore k rt base off).
Proof.
  intros Hk Ht Hbs Ho a ts s st Hw Hb He Hts Hacc Htd. unfold imm_ok in Ho.
  pose proof (vaddr_range s base off) as Rv. pose proof (gpr_range s rt Hw) as Rt.
  set (va := vaddr s base off) in *.
  destruct Hk as [-> | [-> | [-> | ->]]]; cbn [lift_plain exec1 exec_store access_ok] in *; fold va in Hacc |- *.
  - (* sb *)
    unfold b_store_trun. rewrite ea_ok. cbn [bind].
    assert (E : mk_ext Trun 8 (reg_expr rt) = Ok (EExt Trun 8 (reg_expr rt))) by (unfold mk_ext; rewrite e_bits_reg; reflexivity).
    rewrite E. cbn [bind]. rewrite run_single. cbn [number].
    erewrite run_store; [|eapply eq_trans; [eapply den_ext; den_tac|reflexivity]|eapply den_ea; eassumption|exact Rv|apply mem_store8; exact Rv].
    cbn [run_instrs]. apply post_store; [|reflexivity].
    unfold s_trun, U. cbn [cbits cval]. apply store1_emb; assumption.
  - (* sh *)
    rewrite Hacc. cbn [Z.eqb].
    unfold b_store_trun. rewrite ea_ok. cbn [bind].
    assert (E : mk_ext Trun 16 (reg_expr rt) = Ok (EExt Trun 16 (reg_expr rt))) by (unfold mk_ext; rewrite e_bits_reg; reflexivity).
    rewrite E. cbn [bind]. rewrite run_single. cbn [number].
    erewrite run_store; [|eapply eq_trans; [eapply den_ext; den_tac|reflexivity]|eapply den_ea; eassumption|exact Rv|apply mem_store16; exact Rv].
    cbn [run_instrs]. apply post_store; [|reflexivity].
    unfold s_trun, U. cbn [cbits cval]. apply store2_emb; [assumption|lia|].
    change (2 ^ 32) with 4294967296 in *. lia.
  - (* sw *)
    rewrite Hacc. cbn [Z.eqb].
    unfold b_sw. rewrite ea_ok. cbn [bind]. rewrite run_single. cbn [number].
    erewrite run_store; [|den_tac|eapply den_ea; eassumption|exact Rv|apply mem_store32; exact Rv].
    cbn [run_instrs]. apply post_store; [|reflexivity].
    apply store4_emb; [assumption|lia|]. change (2 ^ 32) with 4294967296 in *. lia.
  - (* sc *)
    rewrite Hacc. cbn [Z.eqb].
    unfold b_sc. rewrite ea_ok. cbn [bind]. rewrite run_single. cbn [number].
    erewrite run_store; [|den_tac|eapply den_ea; eassumption|exact Rv|apply mem_store32; exact Rv].
    erewrite run_assign by (rewrite den_const, new_big_32; reflexivity).
    cbn [run_instrs]. change (1 mod 2 ^ 32) with 1. apply post_fin_emb.
    + rewrite skey_reg. apply (emb_setr (st4 s va (gpr s rt))); [|assumption].
      apply store4_emb; [assumption|lia|]. change (2 ^ 32) with 4294967296 in *. lia.
    + rewrite skey_reg. unfold set_env. cbn [st_env]. apply env_get_set_other. apply kbc_not_reg. unfold reg_ok in Ht. lia.
Qed.

(* ------------------------------------------------------------------ bit-vector facts for lwl lwr swl swr *)
Lemma lor_add_disjoint h k lo : 0 <= k -> 0 <= h -> 0 <= lo < 2 ^ k -> Z.lor (h * 2 ^ k) lo = h * 2 ^ k + lo.
Proof.
  intros Hk Hh Hlo.
  assert (L : Z.land (h * 2 ^ k) lo = 0).
  { apply Z.bits_inj'. intros n Hn. rewrite Z.land_spec, Z.bits_0.
    destruct (Z.ltb_spec n k).
    - rewrite Z.mul_pow2_bits_low by lia. reflexivity.
    - rewrite <- (Z.mod_small lo (2 ^ k)) by lia. rewrite Z.mod_pow2_bits_high by lia. apply andb_false_r. }
  rewrite (Z.add_nocarry_lxor _ _ L). symmetry. apply Z.lxor_lor. exact L.
Qed.

Lemma U32_mul_pow x k : 0 <= k <= 32 -> U 32 (x * 2 ^ k) = (x mod 2 ^ (32 - k)) * 2 ^ k.
Proof.
  intros Hk. unfold U. replace (2 ^ 32) with (2 ^ (32 - k) * 2 ^ k) by (rewrite <- Z.pow_add_r by lia; f_equal; lia).
  apply Zmult_mod_distr_r.
Qed.

Lemma shapeA x y k : 0 <= k <= 32 -> 0 <= y ->
  Z.lor (U 32 (x * 2 ^ k)) (Z.land y (2 ^ k - 1)) = U 32 (x * 2 ^ k) + y mod 2 ^ k.
Proof.
  intros Hk Hy. replace (2 ^ k - 1) with (Z.ones k) by (rewrite Z.ones_equiv; lia).
  rewrite Z.land_ones by lia. rewrite U32_mul_pow by assumption.
  apply lor_add_disjoint; [lia| |apply Z.mod_pos_bound; apply Z.pow_pos_nonneg; lia].
  apply Z.mod_pos_bound. apply Z.pow_pos_nonneg; lia.
Qed.

Lemma land_high x k : 0 <= k <= 32 -> 0 <= x < 2 ^ 32 -> Z.land x (2 ^ 32 - 2 ^ k) = x / 2 ^ k * 2 ^ k.
Proof.
  intros Hk Hx.
  assert (E : 2 ^ 32 - 2 ^ k = Z.land (Z.lnot (Z.ones k)) (Z.ones 32)).
  { rewrite Z.land_ones by lia. unfold Z.lnot. rewrite Z.ones_equiv.
    assert (P : 0 < 2 ^ k <= 2 ^ 32) by (split; [apply Z.pow_pos_nonneg; lia|apply Z.pow_le_mono_r; lia]).
    replace (Z.pred (- Z.pred (2 ^ k))) with (- 2 ^ k) by lia.
    destruct (Z.eqb_spec k 32) as [->|N].
    - rewrite Z.sub_diag. symmetry. apply Z_mod_zero_opp_full. apply Z.mod_same. lia.
    - assert (2 ^ k < 2 ^ 32) by (apply Z.pow_lt_mono_r; lia).
      rewrite <- (Z.mod_small (2 ^ 32 - 2 ^ k) (2 ^ 32)) by lia.
      replace (2 ^ 32 - 2 ^ k) with (- 2 ^ k + 1 * 2 ^ 32) by lia. apply Z.mod_add. lia. }
  rewrite E. rewrite (Z.land_comm (Z.lnot (Z.ones k)) (Z.ones 32)). rewrite Z.land_assoc.
  rewrite (Z.land_ones x 32) by lia. rewrite (Z.mod_small x) by lia.
  rewrite <- Z.ldiff_land. rewrite Z.ldiff_ones_r by lia.
  rewrite Z.shiftl_mul_pow2, Z.shiftr_div_pow2 by lia. reflexivity.
Qed.

Lemma shapeB x lo k : 0 <= k <= 32 -> 0 <= x < 2 ^ 32 -> 0 <= lo < 2 ^ k ->
  Z.lor (Z.land x (2 ^ 32 - 2 ^ k)) lo = x / 2 ^ k * 2 ^ k + lo.
Proof.
  intros Hk Hx Hlo. rewrite land_high by assumption. apply lor_add_disjoint; [lia| |assumption].
  apply Z.div_pos; [lia|apply Z.pow_pos_nonneg; lia].
Qed.

Lemma land_align va : 0 <= va < 2 ^ 32 -> Z.land 4294967292 va = aligned4 va.
Proof.
  intros H. rewrite Z.land_comm. change 4294967292 with (2 ^ 32 - 2 ^ 2). rewrite land_high by lia.
  unfold aligned4. change (2 ^ 2) with 4. lia.
Qed.
Lemma land3 va : 0 <= va -> Z.land va 3 = va mod 4.
Proof. intros H. change 3 with (Z.ones 2). rewrite Z.land_ones by lia. reflexivity. Qed.

(* values computed by the four builders, as den produces them (L = byte lane, 0..3) *)
Definition c32 (n : Z) : Z := n mod 2 ^ 32.
Definition il_sh8 (x : Z) : Z := s_shl 32 x (c32 3).             (* x << 3 *)

Definition lwl_il (L mw r : Z) : Z :=
  let shift := il_sh8 (s_sub 32 (c32 3) L) in
  s_or 32 (s_shl 32 mw shift) (s_and 32 r (s_sub 32 (s_shl 32 (c32 1) shift) (c32 1))).
Definition lwr_il (L mw r : Z) : Z :=
  let shift := il_sh8 L in
  s_or 32 (s_shr 32 mw shift) (s_and 32 r (s_shl 32 (c32 4294967295) (s_sub 32 (c32 32) shift))).
Definition swl_il (L mw r : Z) : Z :=
  let keep := s_shl 32 (c32 4294967295) (il_sh8 (s_add 32 L (c32 1))) in
  s_or 32 (s_and 32 mw keep) (s_shr 32 r (il_sh8 (s_sub 32 (c32 3) L))).
Definition swr_il (L mw r : Z) : Z :=
  let shift := il_sh8 L in
  s_or 32 (s_shl 32 r shift) (s_and 32 mw (s_sub 32 (s_shl 32 (c32 1) shift) (c32 1))).

Lemma lane_cases L : 0 <= L <= 3 -> L = 0 \/ L = 1 \/ L = 2 \/ L = 3.
Proof. lia. Qed.

Lemma lwl_val L mw r : 0 <= L <= 3 -> 0 <= r ->
  lwl_il L mw r = U 32 (mw * 2 ^ (8 * (3 - L))) + r mod 2 ^ (8 * (3 - L)).
Proof.
  intros HL Hr. destruct (lane_cases L HL) as [-> | [-> | [-> | ->]]].
  - exact (shapeA mw r 24 ltac:(lia) Hr).
  - exact (shapeA mw r 16 ltac:(lia) Hr).
  - exact (shapeA mw r 8 ltac:(lia) Hr).
  - exact (shapeA mw r 0 ltac:(lia) Hr).
Qed.

Lemma swr_val L mw r : 0 <= L <= 3 -> 0 <= mw ->
  swr_il L mw r = U 32 (r * 2 ^ (8 * L)) + mw mod 2 ^ (8 * L).
Proof.
  intros HL Hr. destruct (lane_cases L HL) as [-> | [-> | [-> | ->]]].
  - exact (shapeA r mw 0 ltac:(lia) Hr).
  - exact (shapeA r mw 8 ltac:(lia) Hr).
  - exact (shapeA r mw 16 ltac:(lia) Hr).
  - exact (shapeA r mw 24 ltac:(lia) Hr).
Qed.

Lemma div_lt_pow x k : 0 <= k <= 32 -> 0 <= x < 2 ^ 32 -> 0 <= x / 2 ^ (32 - k) < 2 ^ k.
Proof.
  intros Hk Hx. assert (P : 0 < 2 ^ (32 - k)) by (apply Z.pow_pos_nonneg; lia).
  split; [apply Z.div_pos; lia|]. apply Z.div_lt_upper_bound; [lia|].
  rewrite <- Z.pow_add_r by lia. replace (32 - k + k) with 32 by lia. lia.
Qed.

Lemma swl_val L mw r : 0 <= L <= 3 -> 0 <= mw < 2 ^ 32 -> 0 <= r < 2 ^ 32 ->
  swl_il L mw r = mw / 2 ^ (8 * (L + 1)) * 2 ^ (8 * (L + 1)) + r / 2 ^ (8 * (3 - L)).
Proof.
  intros HL Hm Hr. destruct (lane_cases L HL) as [-> | [-> | [-> | ->]]].
  - exact (shapeB mw (r / 2 ^ 24) 8 ltac:(lia) Hm (div_lt_pow r 8 ltac:(lia) Hr)).
  - exact (shapeB mw (r / 2 ^ 16) 16 ltac:(lia) Hm (div_lt_pow r 16 ltac:(lia) Hr)).
  - exact (shapeB mw (r / 2 ^ 8) 24 ltac:(lia) Hm (div_lt_pow r 24 ltac:(lia) Hr)).
  - exact (shapeB mw (r / 2 ^ 0) 32 ltac:(lia) Hm (div_lt_pow r 32 ltac:(lia) Hr)).
Qed.

Lemma lwr_val L mw r : 0 <= L <= 3 -> 0 <= mw < 2 ^ 32 -> 0 <= r < 2 ^ 32 ->
  lwr_il L mw r = r / 2 ^ (32 - 8 * L) * 2 ^ (32 - 8 * L) + mw / 2 ^ (8 * L).
Proof.
  intros HL Hm Hr. unfold lwr_il. cbv zeta. unfold s_or at 1. rewrite Z.lor_comm.
  destruct (lane_cases L HL) as [-> | [-> | [-> | ->]]].
  - exact (shapeB r (mw / 2 ^ 0) 32 ltac:(lia) Hr (div_lt_pow mw 32 ltac:(lia) Hm)).
  - exact (shapeB r (mw / 2 ^ 8) 24 ltac:(lia) Hr (div_lt_pow mw 24 ltac:(lia) Hm)).
  - exact (shapeB r (mw / 2 ^ 16) 16 ltac:(lia) Hr (div_lt_pow mw 16 ltac:(lia) Hm)).
  - exact (shapeB r (mw / 2 ^ 24) 8 ltac:(lia) Hr (div_lt_pow mw 8 ltac:(lia) Hm)).
Qed.

Lemma ld4_range s a : wf_m s -> 0 <= ld4 s a < 2 ^ 32.
Proof.
  intros (_ & _ & _ & _ & _ & F). unfold ld4, mb.
  pose proof (F (a32 a)); pose proof (F (a32 (a + 1))); pose proof (F (a32 (a + 2))); pose proof (F (a32 (a + 3))).
  change (2 ^ 32) with 4294967296. destruct (big s); lia.
Qed.

Ltac den_tac_m :=
  lazymatch goal with
  | |- den _ (EBin Add (reg_expr _) (expr_const (cs_simm _) 32)) = _ => eapply den_ea; eassumption
  | |- den _ (EScalar (tmp _ _)) = _ => apply den_tmp
  | |- den _ (reg_expr _) = _ => eapply den_reg; [eassumption|eassumption|unfold reg_ok in *; lia]
  | |- den _ (expr_const _ 32) = _ => rewrite den_const, new_big_32; reflexivity
  | |- den _ (EBin _ _ _) = _ => eapply eq_trans; [eapply den_bin; den_tac_m|cbn [sp_bin]; reflexivity]
  end.

Lemma lane_il_big va : 0 <= va < 2 ^ 32 -> s_sub 32 (3 mod 2 ^ 32) (s_and 32 va (3 mod 2 ^ 32)) = 3 - va mod 4.
Proof.
  intros H. unfold s_sub, s_and. change (3 mod 2 ^ 32) with 3. rewrite land3 by lia.
  apply U_small. change (2 ^ 32) with 4294967296. lia.
Qed.
Lemma lane_il_little va : 0 <= va < 2 ^ 32 -> s_and 32 va (3 mod 2 ^ 32) = va mod 4.
Proof. intros H. unfold s_and. change (3 mod 2 ^ 32) with 3. apply land3. lia. Qed.
Lemma lane_range s va : 0 <= lane s va <= 3.
Proof. unfold lane. destruct (big s); lia. Qed.
Lemma aligned4_ok va : 0 <= va < 2 ^ 32 -> 0 <= aligned4 va /\ aligned4 va + 4 <= 2 ^ 32.
Proof. unfold aligned4. change (2 ^ 32) with 4294967296. lia. Qed.

Lemma den_aligned s st base off : wf_m s -> emb s st -> reg_ok base -> 0 <= off < 2 ^ 16 ->
  den (st_env st) (EBin And (expr_const 4294967292 32) (EBin Add (reg_expr base) (expr_const (cs_simm off) 32)))
  = Ok (mkc 32 (aligned4 (vaddr s base off))).
Proof.
  intros Hw He Hb Ho. eapply eq_trans; [eapply den_bin; den_tac_m|]. cbn [sp_bin]. unfold s_and.
  change (4294967292 mod 2 ^ 32) with 4294967292. rewrite land_align by apply vaddr_range. reflexivity.
Qed.

Theorem lwl_correct bg rt base off : reg_ok rt -> reg_ok base -> imm_ok off ->
  plain_correct bg (MLoad LLwl rt base off).
Proof.
  intros Ht Hbs Ho a ts s st Hw Hb He Hts Hacc Htd. unfold imm_ok in Ho.
  pose proof (vaddr_range s base off) as Rv. pose proof (gpr_range s rt Hw) as Rt.
  pose proof (tmp_not_arch ts 0 Hts) as Ta. pose proof (tmp_not_kbc ts 0 Hts) as Tk.
  cbn [lift_plain exec1 exec_load access_ok] in *.
  set (va := vaddr s base off) in *. set (t := nthN ts 0) in *.
  destruct (aligned4_ok va Rv) as [A0 A4].
  pose proof (ld4_range s (aligned4 va) Hw) as Rm. set (mw := ld4 s (aligned4 va)) in *.
  assert (He1 : emb s (set_env st (t, None) (mkc 32 mw))) by (apply emb_set_other; assumption).
  unfold b_lwl, lane_e, aligned_e. rewrite ea_ok. cbn [bind].
  destruct bg; builder_ok; rewrite run_single; cbn [number];
    (erewrite run_load; [|eapply den_aligned; eassumption|fold va; lia|apply mem_load32; [eassumption|fold va; lia|fold va; lia|exact Hacc]]);
    fold va; fold mw; cbn [skey_of tmp sname sssa].
  - erewrite run_assign.
    2: { eapply eq_trans; [den_tac_m|]. fold va. rewrite lane_il_big by exact Rv. reflexivity. }
    cbn [run_instrs]. apply post_fin_emb.
    + rewrite skey_reg. replace (lane s va) with (3 - va mod 4) by (unfold lane; rewrite Hb; reflexivity).
      rewrite <- (lwl_val (3 - va mod 4) mw (gpr s rt)) by lia.
      apply emb_tmp_reg; assumption.
    + rewrite skey_reg. apply frame_tmp_reg; assumption.
  - erewrite run_assign.
    2: { eapply eq_trans; [den_tac_m|]. fold va. rewrite lane_il_little by exact Rv. reflexivity. }
    cbn [run_instrs]. apply post_fin_emb.
    + rewrite skey_reg. replace (lane s va) with (va mod 4) by (unfold lane; rewrite Hb; reflexivity).
      rewrite <- (lwl_val (va mod 4) mw (gpr s rt)) by lia.
      apply emb_tmp_reg; assumption.
    + rewrite skey_reg. apply frame_tmp_reg; assumption.
Qed.

Theorem lwr_correct bg rt base off : reg_ok rt -> reg_ok base -> imm_ok off ->
  plain_correct bg (MLoad LLwr rt base off).
Proof.
  intros Ht Hbs Ho a ts s st Hw Hb He Hts Hacc Htd. unfold imm_ok in Ho.
  pose proof (vaddr_range s base off) as Rv. pose proof (gpr_range s rt Hw) as Rt.
  pose proof (tmp_not_arch ts 0 Hts) as Ta. pose proof (tmp_not_kbc ts 0 Hts) as Tk.
  cbn [lift_plain exec1 exec_load access_ok] in *.
  set (va := vaddr s base off) in *. set (t := nthN ts 0) in *.
  destruct (aligned4_ok va Rv) as [A0 A4].
  pose proof (ld4_range s (aligned4 va) Hw) as Rm. set (mw := ld4 s (aligned4 va)) in *.
  assert (He1 : emb s (set_env st (t, None) (mkc 32 mw))) by (apply emb_set_other; assumption).
  unfold b_lwr, lane_e, aligned_e. rewrite ea_ok. cbn [bind].
  destruct bg; builder_ok; rewrite run_single; cbn [number];
    (erewrite run_load; [|eapply den_aligned; eassumption|fold va; lia|apply mem_load32; [eassumption|fold va; lia|fold va; lia|exact Hacc]]);
    fold va; fold mw; cbn [skey_of tmp sname sssa].
  - erewrite run_assign.
    2: { eapply eq_trans; [den_tac_m|]. fold va. rewrite lane_il_big by exact Rv. reflexivity. }
    cbn [run_instrs]. apply post_fin_emb.
    + rewrite skey_reg. replace (lane s va) with (3 - va mod 4) by (unfold lane; rewrite Hb; reflexivity).
      rewrite <- (lwr_val (3 - va mod 4) mw (gpr s rt)) by lia.
      apply emb_tmp_reg; assumption.
    + rewrite skey_reg. apply frame_tmp_reg; assumption.
  - erewrite run_assign.
    2: { eapply eq_trans; [den_tac_m|]. fold va. rewrite lane_il_little by exact Rv. reflexivity. }
    cbn [run_instrs]. apply post_fin_emb.
    + rewrite skey_reg. replace (lane s va) with (va mod 4) by (unfold lane; rewrite Hb; reflexivity).
      rewrite <- (lwr_val (va mod 4) mw (gpr s rt)) by lia.
      apply emb_tmp_reg; assumption.
    + rewrite skey_reg. apply frame_tmp_reg; assumption.
Qed.

Lemma frame_tmp st tk tv : tk <> kbc -> env_get (st_env (set_env st tk tv)) kbc = env_get (st_env st) kbc.
Proof. intros H. unfold set_env. cbn [st_env]. apply env_get_set_other. assumption. Qed.

Theorem swl_correct bg rt base off : reg_ok rt -> reg_ok base -> imm_ok off ->
  plain_correct bg (MStore SSwl rt base off).
Proof.
  intros Ht Hbs Ho a ts s st Hw Hb He Hts Hacc Htd. unfold imm_ok in Ho.
  pose proof (vaddr_range s base off) as Rv. pose proof (gpr_range s rt Hw) as Rt.
  pose proof (tmp_not_arch ts 0 Hts) as Ta. pose proof (tmp_not_kbc ts 0 Hts) as Tk.
  cbn [lift_plain exec1 exec_store access_ok] in *.
  set (va := vaddr s base off) in *. set (t := nthN ts 0) in *.
  destruct (aligned4_ok va Rv) as [A0 A4].
  pose proof (ld4_range s (aligned4 va) Hw) as Rm. set (mw := ld4 s (aligned4 va)) in *.
  assert (He1 : emb s (set_env st (t, None) (mkc 32 mw))) by (apply emb_set_other; assumption).
  unfold b_swl, lane_e, aligned_e. rewrite ea_ok. cbn [bind].
  destruct bg; builder_ok; rewrite run_single; cbn [number];
    (erewrite run_load; [|eapply den_aligned; eassumption|fold va; lia|apply mem_load32; [eassumption|fold va; lia|fold va; lia|exact Hacc]]);
    fold va; fold mw; cbn [skey_of tmp sname sssa].
  - erewrite run_store; [| |eapply den_aligned; eassumption|fold va; lia|apply mem_store32; fold va; lia].
    2: { eapply eq_trans; [den_tac_m|]. fold va. rewrite lane_il_big by exact Rv. reflexivity. }
    cbn [run_instrs]. apply post_store; [|apply frame_tmp; assumption]. fold va.
    replace (lane s va) with (3 - va mod 4) by (unfold lane; rewrite Hb; reflexivity).
    rewrite <- (swl_val (3 - va mod 4) mw (gpr s rt)) by lia.
    apply (store4_emb s (set_env st (t, None) (mkc 32 mw))); [assumption|lia|lia].
  - erewrite run_store; [| |eapply den_aligned; eassumption|fold va; lia|apply mem_store32; fold va; lia].
    2: { eapply eq_trans; [den_tac_m|]. fold va. rewrite lane_il_little by exact Rv. reflexivity. }
    cbn [run_instrs]. apply post_store; [|apply frame_tmp; assumption]. fold va.
    replace (lane s va) with (va mod 4) by (unfold lane; rewrite Hb; reflexivity).
    rewrite <- (swl_val (va mod 4) mw (gpr s rt)) by lia.
    apply (store4_emb s (set_env st (t, None) (mkc 32 mw))); [assumption|lia|lia].
Qed.

Theorem swr_correct bg rt base off : reg_ok rt -> reg_ok base -> imm_ok off ->
  plain_correct bg (MStore SSwr rt base off).
Proof.
  intros Ht Hbs Ho a ts s st Hw Hb He Hts Hacc Htd. unfold imm_ok in Ho.
  pose proof (vaddr_range s base off) as Rv. pose proof (gpr_range s rt Hw) as Rt.
  pose proof (tmp_not_arch ts 0 Hts) as Ta. pose proof (tmp_not_kbc ts 0 Hts) as Tk.
  cbn [lift_plain exec1 exec_store access_ok] in *.
  set (va := vaddr s base off) in *. set (t := nthN ts 0) in *.
  destruct (aligned4_ok va Rv) as [A0 A4].
  pose proof (ld4_range s (aligned4 va) Hw) as Rm. set (mw := ld4 s (aligned4 va)) in *.
  assert (He1 : emb s (set_env st (t, None) (mkc 32 mw))) by (apply emb_set_other; assumption).
  unfold b_swr, lane_e, aligned_e. rewrite ea_ok. cbn [bind].
  destruct bg; builder_ok; rewrite run_single; cbn [number];
    (erewrite run_load; [|eapply den_aligned; eassumption|fold va; lia|apply mem_load32; [eassumption|fold va; lia|fold va; lia|exact Hacc]]);
    fold va; fold mw; cbn [skey_of tmp sname sssa].
  - erewrite run_store; [| |eapply den_aligned; eassumption|fold va; lia|apply mem_store32; fold va; lia].
    2: { eapply eq_trans; [den_tac_m|]. fold va. rewrite lane_il_big by exact Rv. reflexivity. }
    cbn [run_instrs]. apply post_store; [|apply frame_tmp; assumption]. fold va.
    replace (lane s va) with (3 - va mod 4) by (unfold lane; rewrite Hb; reflexivity).
    rewrite <- (swr_val (3 - va mod 4) mw (gpr s rt)) by lia.
    apply (store4_emb s (set_env st (t, None) (mkc 32 mw))); [assumption|lia|lia].
  - erewrite run_store; [| |eapply den_aligned; eassumption|fold va; lia|apply mem_store32; fold va; lia].
    2: { eapply eq_trans; [den_tac_m|]. fold va. rewrite lane_il_little by exact Rv. reflexivity. }
    cbn [run_instrs]. apply post_store; [|apply frame_tmp; assumption]. fold va.
    replace (lane s va) with (va mod 4) by (unfold lane; rewrite Hb; reflexivity).
    rewrite <- (swr_val (va mod 4) mw (gpr s rt)) by lia.
    apply (store4_emb s (set_env st (t, None) (mkc 32 mw))); [assumption|lia|lia].
Qed.
