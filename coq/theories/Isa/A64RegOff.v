(* Isa/A64RegOff.v -- register-offset addressing (LDR/STR (register): LSL, UXTW, SXTW, SXTX with optional
   scaling) for every single-register load and store.  [U] *)
From Coq Require Import ZArith List Bool NArith Lia ZifyBool.
From Falcon Require Import Base.Res IL.Const IL.ConstSpec IL.Expr IL.ExprSpec IL.Func IL.Loc Exec.Sem
     IL.ConstProofs IL.ExprProofs Isa.A64 Isa.A64Lift Isa.A64Run Isa.A64Proofs Isa.A64Sim Isa.A64Arith
     Isa.A64Mem Isa.A64Load Isa.A64Store Isa.A64Pair Isa.A64Pair2 Isa.A64Wb.
Import ListNotations.
Local Open Scope Z_scope.
Ltac Zify.zify_post_hook ::= Z.div_mod_to_equations.

(* ------------------------------------------------------------------ builders over an arbitrary write-back-free memory operand *)
Section Gen.
Variables (s : a64state) (st : sstate) (rt' : areg) (o1 : opnd) (a_e : expr) (A : Z).
Hypotheses (Hw : wf s) (He : emb s st) (Hrt : areg_ok rt').
Hypotheses (MA : mem_operand_address o1 = Ok (a_e, None)) (DA : den (st_env st) a_e = Ok (mkc 64 A)) (HA : 0 <= A < 2 ^ 64).

Lemma b_ldr_sim_g fixed n data :
  (1 <= n <= 8)%nat -> (match fixed with Some b => b | None => reg_bits rt' end) = 8 * Z.of_nat n ->
  mapped st (addr_range A n) -> mem_rd s A n = Some data ->
  exists ops st', b_ldr fixed [OReg rt'; o1] = Ok (ops, []) /\ (length ops <= 3)%nat /\
    run_ops ops st = OFall st' /\ emb (areg_write s rt' data) st'.
Proof.
  intros Hn Hbits Hm Hrd.
  unfold b_ldr, nth_op. cbn [nth_error res_of_option bind]. rewrite MA. cbn [bind fst snd].
  assert (Hbits' : (match fixed with Some b => Ok b | None => operand_storing_width (OReg rt') end) = Ok (8 * Z.of_nat n))
    by (destruct fixed; cbn [operand_storing_width]; congruence).
  rewrite Hbits'. cbn [bind operand_store sideeffect].
  destruct (exec_load s st 38%N (8 * Z.of_nat n) _ A n data He ltac:(lia) ltac:(lia) eq_refl DA HA Hm Hrd) as (st1 & E1 & He1 & G1).
  assert (Dt : den (st_env st1) (EScalar (s_temp0 (8 * Z.of_nat n))) = Ok (mkc (8 * Z.of_nat n) data))
    by (apply den_scalar_get; [exact G1|reflexivity]).
  destruct (reg_set_sim_w s st1 rt' (EScalar (s_temp0 (8 * Z.of_nat n))) (8 * Z.of_nat n) data He1 Hrt ltac:(lia) eq_refl Dt)
    as (op & st2 & kk & c & S1 & S2 & S3).
  rewrite S1. cbn [bind app]. eexists; exists st2. split; [reflexivity|]. split; [cbn; lia|]. split; [|exact S3].
  rewrite (run_ops_step _ _ _ _ _ E1 I), (run_ops_assign _ _ _ _ _ _ S2). reflexivity.
Qed.

Lemma b_ldrs_sim_g width n data :
  (1 <= n <= 4)%nat -> width = 8 * Z.of_nat n -> width < reg_bits rt' -> (width = 32 -> reg_bits rt' = 64) ->
  mapped st (addr_range A n) -> mem_rd s A n = Some data ->
  exists ops st', b_ldrs width [OReg rt'; o1] = Ok (ops, []) /\ (length ops <= 3)%nat /\
    run_ops ops st = OFall st' /\ emb (areg_write s rt' (s_sext (reg_bits rt') width data)) st'.
Proof.
  intros Hn Hwd Hlt H32 Hm Hrd.
  unfold b_ldrs, nth_op. cbn [nth_error res_of_option bind operand_storing_width].
  assert (Hck : (width =? 32) && negb (reg_bits rt' =? 64) = false).
  { destruct (Z.eqb_spec width 32) as [E|_]; [|reflexivity]. rewrite (H32 E). reflexivity. }
  rewrite Hck. cbn [bind]. rewrite MA. cbn [bind fst snd].
  rewrite mk_ext_ok by (cbn [e_bits s_temp0 sbits]; lia). cbn [unwrap bind operand_store sideeffect].
  subst width.
  destruct (exec_load s st 38%N (8 * Z.of_nat n) _ A n data He ltac:(lia) ltac:(lia) eq_refl DA HA Hm Hrd) as (st1 & E1 & He1 & G1).
  assert (Dt : den (st_env st1) (EExt Sext (reg_bits rt') (EScalar (s_temp0 (8 * Z.of_nat n)))) =
               Ok (mkc (reg_bits rt') (s_sext (reg_bits rt') (8 * Z.of_nat n) data))).
  { rewrite (den_ext _ _ _ _ (mkc (8 * Z.of_nat n) data)) by (apply den_scalar_get; [exact G1|reflexivity]).
    cbn [sp_ext cbits cval]. destruct (Z.leb_spec (reg_bits rt') (8 * Z.of_nat n)); [lia|reflexivity]. }
  destruct (reg_set_sim s st1 rt' (EExt Sext (reg_bits rt') (EScalar (s_temp0 (8 * Z.of_nat n)))) (reg_bits rt') _ He1 Hrt (reg_bits_cases rt') eq_refl Dt)
    as (op & st2 & kk & c & S1 & S2 & S3).
  rewrite S1. cbn [bind app]. eexists; exists st2. split; [reflexivity|]. split; [cbn; lia|]. split; [|exact S3].
  rewrite (run_ops_step _ _ _ _ _ E1 I), (run_ops_assign _ _ _ _ _ _ S2). reflexivity.
Qed.

Lemma b_str_sim_g trunc n s1 :
  (1 <= n <= 8)%nat ->
  match trunc with
  | None => reg_bits rt' = 8 * Z.of_nat n
  | Some w => w = 8 * Z.of_nat n /\ reg_bits rt' = 32 /\ w < 32
  end ->
  mem_wr s A n (areg_val s rt' mod 2 ^ (8 * Z.of_nat n)) = Some s1 ->
  exists ops st', b_str trunc [OReg rt'; o1] = Ok (ops, []) /\ (length ops <= 2)%nat /\
    run_ops ops st = OFall st' /\ emb s1 st'.
Proof.
  intros Hn Htr Hwr.
  destruct (reg_get_den s st rt' Hw He Hrt) as (e & G1 & B1 & D).
  pose proof (areg_val_range s rt' Hw) as Hvr.
  unfold b_str, nth_op. cbn [nth_error res_of_option bind].
  destruct trunc as [w|].
  - destruct Htr as (Hw8 & H32 & Hlt). cbn [operand_load]. rewrite G1. cbn [bind]. rewrite MA. cbn [bind fst snd].
    rewrite mk_ext_ok by (rewrite B1, H32; lia). cbn [unwrap bind sideeffect app].
    assert (Dv : den (st_env st) (EExt Trun w e) = Ok (mkc (8 * Z.of_nat n) (areg_val s rt' mod 2 ^ (8 * Z.of_nat n)))).
    { rewrite (den_ext _ _ _ _ _ D). cbn [sp_ext cbits cval]. rewrite H32. destruct (Z.leb_spec 32 w); [lia|].
      unfold s_trun, U. rewrite Hw8. reflexivity. }
    destruct (exec_store s st _ _ A n _ s1 He ltac:(lia) DA HA Dv Hwr) as (st1 & E1 & E2).
    eexists; exists st1. split; [reflexivity|]. split; [cbn; lia|]. split; [|exact E2].
    rewrite (run_ops_step _ _ _ _ _ E1 I). reflexivity.
  - cbn [operand_storing_width operand_load bind]. rewrite G1. cbn [bind]. rewrite MA. cbn [bind fst snd sideeffect app].
    assert (Dv : den (st_env st) e = Ok (mkc (8 * Z.of_nat n) (areg_val s rt' mod 2 ^ (8 * Z.of_nat n)))).
    { rewrite D, Htr. rewrite Z.mod_small by (rewrite <- Htr; exact Hvr). reflexivity. }
    destruct (exec_store s st _ _ A n _ s1 He ltac:(lia) DA HA Dv Hwr) as (st1 & E1 & E2).
    eexists; exists st1. split; [reflexivity|]. split; [cbn; lia|]. split; [|exact E2].
    rewrite (run_ops_step _ _ _ _ _ E1 I). reflexivity.
Qed.
End Gen.

(* ------------------------------------------------------------------ the extended / shifted offset register *)
Definition regoff_shift (k : extk) (sbit : bool) (amount : Z) : option bshift :=
  match k with XUXTX => if sbit then Some (BLSL amount) else None | _ => Some (bext_of k amount) end.

Lemma X64 s n : wf s -> Xw s n 64 = X s n.
Proof. intros Hw. unfold Xw. apply Z.mod_small. unfold X. destruct (n =? 31); [lia|apply (proj1 Hw)]. Qed.

Lemma regoff_den s st rm option (sbit : bool) amount :
  wf s -> emb s st -> 0 <= rm < 32 -> (option = 2 \/ option = 3 \/ option = 6 \/ option = 7) ->
  (amount = 0 \/ amount = 1 \/ amount = 2 \/ amount = 3) -> (sbit = false -> amount = 0) ->
  let k := decode_ext option in
  exists o1, (o0 <- reg_get (xreg_zr (ext_is_x k) rm) ;;
              match regoff_shift k sbit amount with Some sh => shift_ o0 sh 64 | None => Ok o0 end) = Ok o1 /\
             e_bits o1 = 64 /\
             den (st_env st) o1 = Ok (mkc 64 (ExtendReg s 64 rm k amount)).
Proof.
  intros Hw He Hm Hopt Ham Hsb k.
  assert (HX : 0 <= X s rm < 2 ^ 64) by (unfold X; destruct (rm =? 31); [lia|apply (proj1 Hw)]).
  unfold ExtendReg. rewrite X64 by assumption.
  destruct Hopt as [-> | [-> | [-> | ->]]]; subst k; cbn [decode_ext Z.eqb Pos.eqb ext_is_x regoff_shift bext_of ext_len ext_unsigned].
  - (* UXTW *)
    destruct (xzr_xsp_range false rm Hm) as [Hr _].
    destruct (reg_get_den s st _ Hw He Hr) as (e & G & B & D). rewrite G. cbn [bind shift_].
    rewrite reg_bits_zr in B, D. cbn [dsize] in B, D. rewrite areg_val_zr in D by assumption. unfold Xw in D. cbn [dsize] in D.
    rewrite B. change (32 <? 32) with false. change (32 <? 64) with true. cbv iota. cbn [bind].
    rewrite mk_ext_ok by (rewrite B; lia). cbn [unwrap bind]. rewrite mk_bin_ok by reflexivity. cbn [unwrap].
    eexists; split; [reflexivity|]. split; [reflexivity|].
    assert (Dz : den (st_env st) (EExt Zext 64 e) = Ok (mkc 64 (X s rm mod 2 ^ 32))) by (rewrite (den_ext _ _ _ _ _ D); reflexivity).
    rewrite (den_bin _ Shl _ _ 64 _ (U 64 amount) Dz) by (apply den_const; lia). cbn [sp_bin]. unfold s_shl, U.
    replace (amount mod 2 ^ 64) with amount by (symmetry; apply Z.mod_small; lia).
    destruct (Z.leb_spec 64 amount) as [Hbig|_]; [lia|]. f_equal. f_equal.
    destruct Ham as [-> | [-> | [-> | ->]]]; vm_compute Z.min; change (2 ^ 0) with 1; change (2 ^ 1) with 2; change (2 ^ 2) with 4; change (2 ^ 3) with 8; cbn [Z.mul Z.pow Z.pow_pos Pos.iter Z.mul Pos.mul]; lia.
  - (* LSL / UXTX *)
    destruct (xzr_xsp_range true rm Hm) as [Hr _].
    destruct (reg_get_den s st _ Hw He Hr) as (e & G & B & D). rewrite G. cbn [bind].
    rewrite reg_bits_zr in B, D. cbn [dsize] in B, D. rewrite areg_val_zr, X64 in D by assumption.
    destruct sbit.
    + cbn [shift_]. unfold lsl_. rewrite mk_bin_ok by (rewrite B; reflexivity). cbn [unwrap].
      eexists; split; [reflexivity|]. split; [exact B|].
      rewrite (den_bin _ Shl _ _ 64 _ (U 64 amount) D) by (apply den_const; lia). cbn [sp_bin]. unfold s_shl, U.
      replace (amount mod 2 ^ 64) with amount by (symmetry; apply Z.mod_small; lia).
      destruct (Z.leb_spec 64 amount) as [Hbig|_]; [lia|]. f_equal. f_equal.
      destruct Ham as [-> | [-> | [-> | ->]]]; vm_compute Z.min; change (2 ^ 0) with 1; change (2 ^ 1) with 2; change (2 ^ 2) with 4; change (2 ^ 3) with 8; cbn [Z.mul Z.pow Z.pow_pos Pos.iter Pos.mul]; lia.
    + rewrite (Hsb eq_refl). eexists; split; [reflexivity|]. split; [exact B|]. rewrite D. f_equal. f_equal.
      vm_compute Z.min. change (2 ^ 0) with 1. lia.
  - (* SXTW *)
    destruct (xzr_xsp_range false rm Hm) as [Hr _].
    destruct (reg_get_den s st _ Hw He Hr) as (e & G & B & D). rewrite G. cbn [bind shift_].
    rewrite reg_bits_zr in B, D. cbn [dsize] in B, D. rewrite areg_val_zr in D by assumption. unfold Xw in D. cbn [dsize] in D.
    rewrite B. change (32 <? 32) with false. change (32 <? 64) with true. cbv iota. cbn [bind].
    rewrite mk_ext_ok by (rewrite B; lia). cbn [unwrap bind]. rewrite mk_bin_ok by reflexivity. cbn [unwrap].
    eexists; split; [reflexivity|]. split; [reflexivity|].
    assert (Dz : den (st_env st) (EExt Sext 64 e) = Ok (mkc 64 (s_sext 64 32 (X s rm mod 2 ^ 32)))) by (rewrite (den_ext _ _ _ _ _ D); reflexivity).
    rewrite (den_bin _ Shl _ _ 64 _ (U 64 amount) Dz) by (apply den_const; lia). cbn [sp_bin]. unfold s_shl, s_sext, U, S.
    replace (amount mod 2 ^ 64) with amount by (symmetry; apply Z.mod_small; lia).
    destruct (Z.leb_spec 64 amount) as [Hbig|_]; [lia|]. f_equal. f_equal.
    destruct Ham as [-> | [-> | [-> | ->]]]; vm_compute Z.min; change (2 ^ 0) with 1; change (2 ^ 1) with 2; change (2 ^ 2) with 4; change (2 ^ 3) with 8; cbn [Z.mul Z.pow Z.pow_pos Pos.iter Pos.mul Z.sub Z.pos_sub Pos.pred_double];
      change (2 ^ 31) with 2147483648; change (2 ^ 32) with 4294967296; change (2 ^ 64) with 18446744073709551616;
      destruct (Z.ltb_spec (X s rm mod 4294967296 mod 4294967296) 2147483648); destruct (Z.ltb_spec (X s rm mod 4294967296) 2147483648); lia.
  - (* SXTX *)
    destruct (xzr_xsp_range true rm Hm) as [Hr _].
    destruct (reg_get_den s st _ Hw He Hr) as (e & G & B & D). rewrite G. cbn [bind shift_].
    rewrite reg_bits_zr in B, D. cbn [dsize] in B, D. rewrite areg_val_zr, X64 in D by assumption.
    rewrite B. change (64 <? 64) with false. cbv iota. cbn [bind]. rewrite mk_bin_ok by (rewrite B; reflexivity). cbn [unwrap].
    eexists; split; [reflexivity|]. split; [exact B|].
    rewrite (den_bin _ Shl _ _ 64 _ (U 64 amount) D) by (apply den_const; lia). cbn [sp_bin]. unfold s_shl, U, S.
    replace (amount mod 2 ^ 64) with amount by (symmetry; apply Z.mod_small; lia).
    destruct (Z.leb_spec 64 amount) as [Hbig|_]; [lia|]. f_equal. f_equal.
    destruct Ham as [-> | [-> | [-> | ->]]]; vm_compute Z.min; change (2 ^ 0) with 1; change (2 ^ 1) with 2; change (2 ^ 2) with 4; change (2 ^ 3) with 8; cbn [Z.mul Z.pow Z.pow_pos Pos.iter Pos.mul Z.sub Z.pos_sub Pos.pred_double];
      change (2 ^ 64) with 18446744073709551616;
      match goal with |- context [?a <? ?b] => destruct (Z.ltb_spec a b) end; lia.
Qed.
