(* Isa/A64RegOff.v -- register-offset addressing (LDR/STR (register): LSL, UXTW, SXTW, SXTX with optional
   scaling) for every single-register load and store.  [U] *)
From Coq Require Import ZArith List Bool NArith Lia ZifyBool.
From Falcon Require Import Base.Res IL.Const IL.ConstSpec IL.Expr IL.ExprSpec IL.Func IL.Loc Exec.Sem
     IL.ConstProofs IL.ExprProofs Isa.A64 Isa.A64Lift Isa.A64Run Isa.A64Proofs Isa.A64Sim Isa.A64Arith
     Isa.A64Mem Isa.A64Load Isa.A64Store Isa.A64Pair Isa.A64Pair2 Isa.A64Wb.
Import ListNotations.
Local Open Scope Z_scope.
Ltac Zify.zify_post_hook ::= Z.div_mod_to_equations.

(* ------------------------------------------------------------------ builders over an arbitrary write-back-free memory operand *)
Section Gen.
Variables (s : a64state) (st : sstate) (rt' : areg) (o1 : opnd) (a_e : expr) (A : Z).
Hypotheses (Hw : wf s) (He : emb s st) (Hrt : areg_ok rt').
Hypotheses (MA : mem_operand_address o1 = Ok (a_e, None)) (DA : den (st_env st) a_e = Ok (mkc 64 A)) (HA : 0 <= A < 2 ^ 64).

Lemma b_ldr_sim_g fixed n data :
  (1 <= n <= 8)%nat -> (match fixed with Some b => b | None => reg_bits rt' end) = 8 * Z.of_nat n ->
  mapped st (addr_range A n) -> mem_rd s A n = Some data ->
  exists ops st', b_ldr fixed [OReg rt'; o1] = Ok (ops, []) /\ (length ops <= 3)%nat /\
    run_ops ops st = OFall st' /\ emb (areg_write s rt' data) st'.
Proof.
  intros Hn Hbits Hm Hrd.
  unfold b_ldr, nth_op. cbn [nth_error res_of_option bind]. rewrite MA. cbn [bind fst snd].
  assert (Hbits' : (match fixed with Some b => Ok b | None => operand_storing_width (OReg rt') end) = Ok (8 * Z.of_nat n))
    by (destruct fixed; cbn [operand_storing_width]; congruence).
  rewrite Hbits'. cbn [bind operand_store sideeffect].
  destruct (exec_load s st 70%N (8 * Z.of_nat n) _ A n data He ltac:(lia) ltac:(lia) eq_refl DA HA Hm Hrd) as (st1 & E1 & He1 & G1).
  assert (Dt : den (st_env st1) (EScalar (s_temp0 (8 * Z.of_nat n))) = Ok (mkc (8 * Z.of_nat n) data))
    by (apply den_scalar_get; [exact G1|reflexivity]).
  destruct (reg_set_sim_w s st1 rt' (EScalar (s_temp0 (8 * Z.of_nat n))) (8 * Z.of_nat n) data He1 Hrt ltac:(lia) eq_refl Dt)
    as (op & st2 & kk & c & S1 & S2 & S3).
  rewrite S1. cbn [bind app]. eexists; exists st2. split; [reflexivity|]. split; [cbn; lia|]. split; [|exact S3].
  rewrite (run_ops_step _ _ _ _ _ E1 I), (run_ops_assign _ _ _ _ _ _ S2). reflexivity.
Qed.

Lemma b_ldrs_sim_g width n data :
  (1 <= n <= 4)%nat -> width = 8 * Z.of_nat n -> width < reg_bits rt' -> (width = 32 -> reg_bits rt' = 64) ->
  mapped st (addr_range A n) -> mem_rd s A n = Some data ->
  exists ops st', b_ldrs width [OReg rt'; o1] = Ok (ops, []) /\ (length ops <= 3)%nat /\
    run_ops ops st = OFall st' /\ emb (areg_write s rt' (s_sext (reg_bits rt') width data)) st'.
Proof.
  intros Hn Hwd Hlt H32 Hm Hrd.
  unfold b_ldrs, nth_op. cbn [nth_error res_of_option bind operand_storing_width].
  assert (Hck : (width =? 32) && negb (reg_bits rt' =? 64) = false).
  { destruct (Z.eqb_spec width 32) as [E|_]; [|reflexivity]. rewrite (H32 E). reflexivity. }
  rewrite Hck. cbn [bind]. rewrite MA. cbn [bind fst snd].
  rewrite mk_ext_ok by (cbn [e_bits s_temp0 sbits]; lia). cbn [unwrap bind operand_store sideeffect].
  subst width.
  destruct (exec_load s st 70%N (8 * Z.of_nat n) _ A n data He ltac:(lia) ltac:(lia) eq_refl DA HA Hm Hrd) as (st1 & E1 & He1 & G1).
  assert (Dt : den (st_env st1) (EExt Sext (reg_bits rt') (EScalar (s_temp0 (8 * Z.of_nat n)))) =
               Ok (mkc (reg_bits rt') (s_sext (reg_bits rt') (8 * Z.of_nat n) data))).
  { rewrite (den_ext _ _ _ _ (mkc (8 * Z.of_nat n) data)) by (apply den_scalar_get; [exact G1|reflexivity]).
    cbn [sp_ext cbits cval]. destruct (Z.leb_spec (reg_bits rt') (8 * Z.of_nat n)); [lia|reflexivity]. }
  destruct (reg_set_sim s st1 rt' (EExt Sext (reg_bits rt') (EScalar (s_temp0 (8 * Z.of_nat n)))) (reg_bits rt') _ He1 Hrt (reg_bits_cases rt') eq_refl Dt)
    as (op & st2 & kk & c & S1 & S2 & S3).
  rewrite S1. cbn [bind app]. eexists; exists st2. split; [reflexivity|]. split; [cbn; lia|]. split; [|exact S3].
  rewrite (run_ops_step _ _ _ _ _ E1 I), (run_ops_assign _ _ _ _ _ _ S2). reflexivity.
Qed.

Lemma b_str_sim_g trunc n s1 :
  (1 <= n <= 8)%nat ->
  match trunc with
  | None => reg_bits rt' = 8 * Z.of_nat n
  | Some w => w = 8 * Z.of_nat n /\ reg_bits rt' = 32 /\ w < 32
  end ->
  mem_wr s A n (areg_val s rt' mod 2 ^ (8 * Z.of_nat n)) = Some s1 ->
  exists ops st', b_str trunc [OReg rt'; o1] = Ok (ops, []) /\ (length ops <= 2)%nat /\
    run_ops ops st = OFall st' /\ emb s1 st'.
Proof.
  intros Hn Htr Hwr.
  destruct (reg_get_den s st rt' Hw He Hrt) as (e & G1 & B1 & D).
  pose proof (areg_val_range s rt' Hw) as Hvr.
  unfold b_str, nth_op. cbn [nth_error res_of_option bind].
  destruct trunc as [w|].
  - destruct Htr as (Hw8 & H32 & Hlt). cbn [operand_load]. rewrite G1. cbn [bind]. rewrite MA. cbn [bind fst snd].
    rewrite mk_ext_ok by (rewrite B1, H32; lia). cbn [unwrap bind sideeffect app].
    assert (Dv : den (st_env st) (EExt Trun w e) = Ok (mkc (8 * Z.of_nat n) (areg_val s rt' mod 2 ^ (8 * Z.of_nat n)))).
    { rewrite (den_ext _ _ _ _ _ D). cbn [sp_ext cbits cval]. rewrite H32. destruct (Z.leb_spec 32 w); [lia|].
      unfold s_trun, U. rewrite Hw8. reflexivity. }
    destruct (exec_store s st _ _ A n _ s1 He ltac:(lia) DA HA Dv Hwr) as (st1 & E1 & E2).
    eexists; exists st1. split; [reflexivity|]. split; [cbn; lia|]. split; [|exact E2].
    rewrite (run_ops_step _ _ _ _ _ E1 I). reflexivity.
  - cbn [operand_storing_width operand_load bind]. rewrite G1. cbn [bind]. rewrite MA. cbn [bind fst snd sideeffect app].
    assert (Dv : den (st_env st) e = Ok (mkc (8 * Z.of_nat n) (areg_val s rt' mod 2 ^ (8 * Z.of_nat n)))).
    { rewrite D, Htr. rewrite Z.mod_small by (rewrite <- Htr; exact Hvr). reflexivity. }
    destruct (exec_store s st _ _ A n _ s1 He ltac:(lia) DA HA Dv Hwr) as (st1 & E1 & E2).
    eexists; exists st1. split; [reflexivity|]. split; [cbn; lia|]. split; [|exact E2].
    rewrite (run_ops_step _ _ _ _ _ E1 I). reflexivity.
Qed.
End Gen.

(* ------------------------------------------------------------------ the extended / shifted offset register *)
Definition regoff_shift (k : extk) (sbit : bool) (amount : Z) : option bshift :=
  match k with XUXTX => if sbit then Some (BLSL amount) else None | _ => Some (bext_of k amount) end.

Lemma X64 s n : wf s -> Xw s n 64 = X s n.
Proof. intros Hw. unfold Xw. apply Z.mod_small. unfold X. destruct (n =? 31); [lia|apply (proj1 Hw)]. Qed.

(* arithmetic of ExtendReg at N = 64 for the four extend kinds of register-offset addressing *)
Lemma s_shl_small v a : 0 <= a < 64 -> s_shl 64 v (U 64 a) = (v * 2 ^ a) mod 2 ^ 64.
Proof.
  intros Ha. unfold s_shl, U. rewrite (Z.mod_small a) by lia. destruct (Z.leb_spec 64 a); [lia|reflexivity].
Qed.
Lemma pow2_small a : (a = 0 \/ a = 1 \/ a = 2 \/ a = 3) -> 2 ^ a = 1 \/ 2 ^ a = 2 \/ 2 ^ a = 4 \/ 2 ^ a = 8.
Proof. intros [-> | [-> | [-> | ->]]]; auto. Qed.

Lemma ExtendReg_uxtw s rm a : wf s -> (a = 0 \/ a = 1 \/ a = 2 \/ a = 3) ->
  ExtendReg s 64 rm XUXTW a = (X s rm mod 2 ^ 32 * 2 ^ a) mod 2 ^ 64.
Proof.
  intros Hw Ha. unfold ExtendReg. rewrite X64 by assumption. cbn [ext_len ext_unsigned].
  assert (Hmin : Z.min 32 (64 - a) = 32) by lia. rewrite Hmin. reflexivity.
Qed.
Lemma ExtendReg_sxtw s rm a : wf s -> (a = 0 \/ a = 1 \/ a = 2 \/ a = 3) ->
  ExtendReg s 64 rm XSXTW a = (S 32 (X s rm mod 2 ^ 32) * 2 ^ a) mod 2 ^ 64.
Proof.
  intros Hw Ha. unfold ExtendReg. rewrite X64 by assumption. cbn [ext_len ext_unsigned].
  assert (Hmin : Z.min 32 (64 - a) = 32) by lia. rewrite Hmin. reflexivity.
Qed.
Lemma ExtendReg_uxtx s rm a : wf s -> (a = 0 \/ a = 1 \/ a = 2 \/ a = 3) ->
  ExtendReg s 64 rm XUXTX a = (X s rm * 2 ^ a) mod 2 ^ 64.
Proof.
  intros Hw Ha. unfold ExtendReg. rewrite X64 by assumption. cbn [ext_len ext_unsigned].
  assert (HX : 0 <= X s rm < 2 ^ 64) by (unfold X; destruct (rm =? 31); [lia|apply (proj1 Hw)]).
  assert (Hmin : Z.min 64 (64 - a) = 64 - a) by lia. rewrite Hmin.
  destruct Ha as [-> | [-> | [-> | ->]]].
  - change (64 - 0) with 64. change (2 ^ 0) with 1. rewrite (Z.mod_small (X s rm)) by exact HX. reflexivity.
  - change (64 - 1) with 63. change (2 ^ 1) with 2. change (2 ^ 63) with 9223372036854775808. change (2 ^ 64) with 18446744073709551616 in *. lia.
  - change (64 - 2) with 62. change (2 ^ 2) with 4. change (2 ^ 62) with 4611686018427387904. change (2 ^ 64) with 18446744073709551616 in *. lia.
  - change (64 - 3) with 61. change (2 ^ 3) with 8. change (2 ^ 61) with 2305843009213693952. change (2 ^ 64) with 18446744073709551616 in *. lia.
Qed.
Lemma ExtendReg_sxtx s rm a : wf s -> (a = 0 \/ a = 1 \/ a = 2 \/ a = 3) ->
  ExtendReg s 64 rm XSXTX a = (X s rm * 2 ^ a) mod 2 ^ 64.
Proof.
  intros Hw Ha. unfold ExtendReg. rewrite X64 by assumption. cbn [ext_len ext_unsigned].
  assert (HX : 0 <= X s rm < 2 ^ 64) by (unfold X; destruct (rm =? 31); [lia|apply (proj1 Hw)]).
  assert (Hmin : Z.min 64 (64 - a) = 64 - a) by lia. rewrite Hmin. unfold S.
  destruct Ha as [-> | [-> | [-> | ->]]].
  - change (64 - 0) with 64. change (2 ^ 0) with 1. change (2 ^ (64 - 1)) with 9223372036854775808. change (2 ^ 64) with 18446744073709551616 in *.
    destruct (Z.ltb_spec (X s rm mod 18446744073709551616) 9223372036854775808); lia.
  - change (64 - 1) with 63. change (2 ^ 1) with 2. change (2 ^ 63) with 9223372036854775808. change (2 ^ (63 - 1)) with 4611686018427387904.
    change (2 ^ 64) with 18446744073709551616 in *.
    destruct (Z.ltb_spec (X s rm mod 9223372036854775808) 4611686018427387904); lia.
  - change (64 - 2) with 62. change (2 ^ 2) with 4. change (2 ^ 62) with 4611686018427387904. change (2 ^ (62 - 1)) with 2305843009213693952.
    change (2 ^ 64) with 18446744073709551616 in *.
    destruct (Z.ltb_spec (X s rm mod 4611686018427387904) 2305843009213693952); lia.
  - change (64 - 3) with 61. change (2 ^ 3) with 8. change (2 ^ 61) with 2305843009213693952. change (2 ^ (61 - 1)) with 1152921504606846976.
    change (2 ^ 64) with 18446744073709551616 in *.
    destruct (Z.ltb_spec (X s rm mod 2305843009213693952) 1152921504606846976); lia.
Qed.

Lemma regoff_den s st rm option (sbit : bool) amount :
  wf s -> emb s st -> 0 <= rm < 32 -> (option = 2 \/ option = 3 \/ option = 6 \/ option = 7) ->
  (amount = 0 \/ amount = 1 \/ amount = 2 \/ amount = 3) -> (sbit = false -> amount = 0) ->
  let k := decode_ext option in
  exists o1, (o0 <- reg_get (xreg_zr (ext_is_x k) rm) ;;
              match regoff_shift k sbit amount with Some sh => shift_ o0 sh 64 | None => Ok o0 end) = Ok o1 /\
             e_bits o1 = 64 /\
             den (st_env st) o1 = Ok (mkc 64 (ExtendReg s 64 rm k amount)).
Proof.
  intros Hw He Hm Hopt Ham Hsb k.
  assert (Ha64 : 0 <= amount < 64) by lia.
  assert (HX : 0 <= X s rm < 2 ^ 64) by (unfold X; destruct (rm =? 31); [lia|apply (proj1 Hw)]).
  destruct Hopt as [-> | [-> | [-> | ->]]]; subst k.
  - (* UXTW *)
    change (decode_ext 2) with XUXTW. rewrite ExtendReg_uxtw by assumption. cbn [ext_is_x regoff_shift bext_of].
    destruct (xzr_xsp_range false rm Hm) as [Hr _].
    destruct (reg_get_den s st _ Hw He Hr) as (e & G & B & D). rewrite G. cbn [bind shift_].
    rewrite reg_bits_zr in B, D. cbn [dsize] in B, D. rewrite areg_val_zr in D by assumption. unfold Xw in D. cbn [dsize] in D.
    rewrite B. change (32 <? 32) with false. change (32 <? 64) with true. cbv iota. cbn [bind].
    rewrite mk_ext_ok by (rewrite B; lia). cbn [unwrap bind]. rewrite mk_bin_ok by reflexivity. cbn [unwrap].
    eexists; split; [reflexivity|]. split; [reflexivity|].
    assert (Dz : den (st_env st) (EExt Zext 64 e) = Ok (mkc 64 (X s rm mod 2 ^ 32))) by (rewrite (den_ext _ _ _ _ _ D); reflexivity).
    rewrite (den_bin _ Shl _ _ 64 _ (U 64 amount) Dz) by (apply den_const; lia). cbn [sp_bin].
    rewrite s_shl_small by assumption. reflexivity.
  - (* LSL / UXTX *)
    change (decode_ext 3) with XUXTX. rewrite ExtendReg_uxtx by assumption. cbn [ext_is_x regoff_shift].
    destruct (xzr_xsp_range true rm Hm) as [Hr _].
    destruct (reg_get_den s st _ Hw He Hr) as (e & G & B & D). rewrite G. cbn [bind].
    rewrite reg_bits_zr in B, D. cbn [dsize] in B, D. rewrite areg_val_zr, X64 in D by assumption.
    destruct sbit.
    + cbn [shift_]. unfold lsl_. rewrite mk_bin_ok by (rewrite B; reflexivity). cbn [unwrap].
      eexists; split; [reflexivity|]. split; [exact B|].
      rewrite (den_bin _ Shl _ _ 64 _ (U 64 amount) D) by (apply den_const; lia). cbn [sp_bin].
      rewrite s_shl_small by assumption. reflexivity.
    + rewrite (Hsb eq_refl). eexists; split; [reflexivity|]. split; [exact B|]. rewrite D.
      change (2 ^ 0) with 1. rewrite Z.mul_1_r, Z.mod_small by exact HX. reflexivity.
  - (* SXTW *)
    change (decode_ext 6) with XSXTW. rewrite ExtendReg_sxtw by assumption. cbn [ext_is_x regoff_shift bext_of].
    destruct (xzr_xsp_range false rm Hm) as [Hr _].
    destruct (reg_get_den s st _ Hw He Hr) as (e & G & B & D). rewrite G. cbn [bind shift_].
    rewrite reg_bits_zr in B, D. cbn [dsize] in B, D. rewrite areg_val_zr in D by assumption. unfold Xw in D. cbn [dsize] in D.
    rewrite B. change (32 <? 32) with false. change (32 <? 64) with true. cbv iota. cbn [bind].
    rewrite mk_ext_ok by (rewrite B; lia). cbn [unwrap bind]. rewrite mk_bin_ok by reflexivity. cbn [unwrap].
    eexists; split; [reflexivity|]. split; [reflexivity|].
    assert (Dz : den (st_env st) (EExt Sext 64 e) = Ok (mkc 64 (s_sext 64 32 (X s rm mod 2 ^ 32)))) by (rewrite (den_ext _ _ _ _ _ D); reflexivity).
    rewrite (den_bin _ Shl _ _ 64 _ (U 64 amount) Dz) by (apply den_const; lia). cbn [sp_bin].
    rewrite s_shl_small by assumption. unfold s_sext, U. rewrite Z.mul_mod_idemp_l by lia. reflexivity.
  - (* SXTX *)
    change (decode_ext 7) with XSXTX. rewrite ExtendReg_sxtx by assumption. cbn [ext_is_x regoff_shift bext_of].
    destruct (xzr_xsp_range true rm Hm) as [Hr _].
    destruct (reg_get_den s st _ Hw He Hr) as (e & G & B & D). rewrite G. cbn [bind shift_].
    rewrite reg_bits_zr in B, D. cbn [dsize] in B, D. rewrite areg_val_zr, X64 in D by assumption.
    rewrite B. change (64 <? 64) with false. cbv iota. cbn [bind]. rewrite mk_bin_ok by (rewrite B; reflexivity). cbn [unwrap].
    eexists; split; [reflexivity|]. split; [exact B|].
    rewrite (den_bin _ Shl _ _ 64 _ (U 64 amount) D) by (apply den_const; lia). cbn [sp_bin].
    rewrite s_shl_small by assumption. reflexivity.
Qed.

Lemma memext_den s st rn rm option (sbit : bool) amount :
  wf s -> emb s st -> 0 <= rn < 32 -> 0 <= rm < 32 -> (option = 2 \/ option = 3 \/ option = 6 \/ option = 7) ->
  (amount = 0 \/ amount = 1 \/ amount = 2 \/ amount = 3) -> (sbit = false -> amount = 0) ->
  let k := decode_ext option in
  exists a_e, mem_operand_address (OMemExt (xreg_sp true rn) (xreg_zr (ext_is_x k) rm) (regoff_shift k sbit amount)) = Ok (a_e, None) /\
              den (st_env st) a_e = Ok (mkc 64 (wrap64 (SPorX s rn + ExtendReg s 64 rm k amount))).
Proof.
  intros Hw He Hn Hm Hopt Ham Hsb k.
  destruct (regoff_den s st rm option sbit amount Hw He Hm Hopt Ham Hsb) as (o1 & C1 & B1 & D1). fold k in C1, D1.
  destruct (xzr_xsp_range true rn Hn) as [_ Hbase].
  destruct (reg_get_den s st _ Hw He Hbase) as (be & G & Bb & Db).
  rewrite reg_bits_sp in Bb, Db. cbn [dsize] in Bb, Db. rewrite areg_val_sp64 in Db by assumption.
  cbn [mem_operand_address]. rewrite G. cbn [bind].
  destruct (reg_get (xreg_zr (ext_is_x k) rm)) as [o0| |]; cbn [bind] in C1 |- *; try discriminate.
  rewrite C1. cbn [bind]. rewrite mk_bin_ok by congruence. cbn [unwrap bind].
  eexists. split; [reflexivity|].
  rewrite (den_bin _ Add _ _ 64 _ _ Db D1). cbn [sp_bin]. reflexivity.
Qed.

(* ------------------------------------------------------------------ C6.2.168 LDR (register) .. C6.2.323 STR (register) and the B/H/S variants *)
Theorem ldst_reg_sim addr size opc rm option (sbit : bool) rn rt :
  0 <= size < 4 -> 0 <= opc < 4 -> decode_ldst_opc_ok size opc = true ->
  (option = 2 \/ option = 3 \/ option = 6 \/ option = 7) ->
  0 <= rm < 32 -> 0 <= rn < 32 -> 0 <= rt < 32 ->
  sim addr (ILdStReg size opc rm option sbit rn rt).
Proof.
  intros Hsz Hop Hok Hopt Hm_ Hn Ht s st ops succs s' Hw Hpc Ha He Hm Hl Hs.
  set (amount := if sbit then size else 0) in *.
  assert (Ham : amount = 0 \/ amount = 1 \/ amount = 2 \/ amount = 3) by (unfold amount; destruct sbit; lia).
  assert (Hsb : sbit = false -> amount = 0) by (intros ->; reflexivity).
  set (k := decode_ext option) in *.
  set (A := wrap64 (SPorX s rn + ExtendReg s 64 rm k amount)).
  destruct (memext_den s st rn rm option sbit amount Hw He Hn Hm_ Hopt Ham Hsb) as (a_e & MA & DA). fold k A in MA, DA.
  assert (HA : 0 <= A < 2 ^ 64) by apply wrap64_range.
  (* specification *)
  cbn [a64step] in Hs. fold amount k A in Hs.
  cbn [footprint] in Hm. fold amount k A in Hm.
  (* the lifter *)
  unfold lift in Hl. cbn [operands_of] in Hl. fold k amount in Hl.
  change (match k with XUXTX => if sbit then Some (BLSL amount) else None | _ => Some (bext_of k amount) end)
    with (regoff_shift k sbit amount) in Hl.
  assert (Hfin : forall R ops', apc R = apc s ->
            (exists st', (length ops' <= 3)%nat /\ run_ops ops' st = OFall st' /\ emb R st') ->
            exists st', run_lifted (graph_of addr ops') (merge_successors [(addr + 4, None)]) st = Ok (st', apc (nextPC R)) /\
                        emb (nextPC R) st').
  { intros R ops' HpR (st' & Hlen & Hr & Hemb). apply (finish_fall_ops' addr s st _ ops' st'); try assumption. lia. }
  assert (size = 0 \/ size = 1 \/ size = 2 \/ size = 3) as Hsize by lia.
  destruct (Z.eq_dec opc 0) as [-> | Hopn].
  - rewrite ldst_access_store in Hs by assumption.
    destruct (mem_wr s A (Z.to_nat (2 ^ size)) (X s rt mod 2 ^ (8 * 2 ^ size))) as [s1|] eqn:Ewr; [|discriminate].
    inversion Hs; subst s'; clear Hs.
    assert (Hp1 : apc s1 = apc s).
    { unfold mem_wr in Ewr. destruct (2 ^ 64 <? A + Z.of_nat (Z.to_nat (2 ^ size))); [discriminate|]. inversion Ewr. reflexivity. }
    Ltac strg_case Hl Hfin Hw He Ht MA DA HA Ewr Hp1 sfr trunc n :=
      destruct (xzr_xsp_range sfr _ Ht) as [Hrt _];
      destruct (b_str_sim_g _ _ _ _ _ _ Hw He Hrt MA DA HA trunc n _ ltac:(lia)
                  ltac:(first [ (rewrite reg_bits_zr; reflexivity) | (split; [reflexivity|split; [rewrite reg_bits_zr; reflexivity|lia]]) ]) Ewr)
        as (ops' & st' & B1 & Blen & B2 & B3);
      cbn [dispatch terminating] in Hl; rewrite B1 in Hl; cbn [bind fst snd] in Hl; inversion Hl; subst; clear Hl;
      match goal with HB2 : run_ops ?o _ = OFall ?s2 |- _ => apply (Hfin _ o Hp1); exists s2; (split; [lia|split; assumption]) end.
    destruct Hsize as [-> | [-> | [-> | ->]]].
    + change (ldst_mnem 0 0) with MStrb in Hl. change (ldst_rt 0 0 rt) with (xreg_zr false rt) in Hl.
      change (Z.to_nat (2 ^ 0)) with 1%nat in *.
      replace (X s rt mod 2 ^ (8 * 2 ^ 0)) with (areg_val s (xreg_zr false rt) mod 2 ^ (8 * Z.of_nat 1)) in Ewr
        by (rewrite areg_val_zr by assumption; unfold Xw; cbn [dsize]; change (2 ^ (8 * Z.of_nat 1)) with 256;
            change (2 ^ (8 * 2 ^ 0)) with 256; change (2 ^ 32) with 4294967296; lia).
      strg_case Hl Hfin Hw He Ht MA DA HA Ewr Hp1 false (Some 8) 1%nat.
    + change (ldst_mnem 1 0) with MStrh in Hl. change (ldst_rt 1 0 rt) with (xreg_zr false rt) in Hl.
      change (Z.to_nat (2 ^ 1)) with 2%nat in *.
      replace (X s rt mod 2 ^ (8 * 2 ^ 1)) with (areg_val s (xreg_zr false rt) mod 2 ^ (8 * Z.of_nat 2)) in Ewr
        by (rewrite areg_val_zr by assumption; unfold Xw; cbn [dsize]; change (2 ^ (8 * Z.of_nat 2)) with 65536;
            change (2 ^ (8 * 2 ^ 1)) with 65536; change (2 ^ 32) with 4294967296; lia).
      strg_case Hl Hfin Hw He Ht MA DA HA Ewr Hp1 false (Some 16) 2%nat.
    + change (ldst_mnem 2 0) with MStr in Hl. change (ldst_rt 2 0 rt) with (xreg_zr false rt) in Hl.
      change (Z.to_nat (2 ^ 2)) with 4%nat in *.
      replace (X s rt mod 2 ^ (8 * 2 ^ 2)) with (areg_val s (xreg_zr false rt) mod 2 ^ (8 * Z.of_nat 4)) in Ewr
        by (rewrite areg_val_zr by assumption; unfold Xw; cbn [dsize]; change (2 ^ (8 * Z.of_nat 4)) with 4294967296;
            change (2 ^ (8 * 2 ^ 2)) with 4294967296; change (2 ^ 32) with 4294967296; lia).
      strg_case Hl Hfin Hw He Ht MA DA HA Ewr Hp1 false (@None Z) 4%nat.
    + change (ldst_mnem 3 0) with MStr in Hl. change (ldst_rt 3 0 rt) with (xreg_zr true rt) in Hl.
      change (Z.to_nat (2 ^ 3)) with 8%nat in *.
      replace (X s rt mod 2 ^ (8 * 2 ^ 3)) with (areg_val s (xreg_zr true rt) mod 2 ^ (8 * Z.of_nat 8)) in Ewr
        by (rewrite areg_val_zr by assumption; unfold Xw; cbn [dsize]; change (2 ^ (8 * Z.of_nat 8)) with 18446744073709551616;
            change (2 ^ (8 * 2 ^ 3)) with 18446744073709551616; change (2 ^ 64) with 18446744073709551616; lia).
      strg_case Hl Hfin Hw He Ht MA DA HA Ewr Hp1 true (@None Z) 8%nat.
  - rewrite ldst_access_load in Hs by lia.
    destruct (mem_rd s A (Z.to_nat (2 ^ size))) as [data|] eqn:Erd; [|discriminate]. inversion Hs; subst s'; clear Hs.
    assert (Hm' : mapped st (addr_range A (Z.to_nat (2 ^ size)))) by exact Hm.
    assert (opc = 1 \/ opc = 2 \/ opc = 3) as Hopc by lia.
    Ltac ldrg_case Hl Hfin Hw He Ht MA DA HA Hm' Erd sfr fixed n :=
      destruct (xzr_xsp_range sfr _ Ht) as [Hrt _];
      destruct (b_ldr_sim_g _ _ _ _ _ _ He Hrt MA DA HA fixed n _ ltac:(lia)
                  ltac:(first [reflexivity | (cbv beta iota; rewrite reg_bits_zr; reflexivity)]) Hm' Erd)
        as (ops' & st' & B1 & Blen & B2 & B3);
      cbn [dispatch terminating] in Hl; rewrite B1 in Hl; cbn [bind fst snd] in Hl; inversion Hl; subst; clear Hl;
      rewrite !areg_write_zr in B3;
      match goal with HB2 : run_ops ?o _ = OFall ?s2 |- _ => apply (Hfin _ o (apc_setX _ _ _)); exists s2; (split; [lia|split; assumption]) end.
    Ltac ldrsg_case Hl Hfin Hw He Ht MA DA HA Hm' Erd sfr width n :=
      destruct (xzr_xsp_range sfr _ Ht) as [Hrt _];
      destruct (b_ldrs_sim_g _ _ _ _ _ _ He Hrt MA DA HA width n _ ltac:(lia) ltac:(reflexivity)
                  ltac:(rewrite reg_bits_zr; cbn; lia) ltac:(intros; rewrite reg_bits_zr; try reflexivity; try lia) Hm' Erd)
        as (ops' & st' & B1 & Blen & B2 & B3);
      cbn [dispatch terminating] in Hl; rewrite B1 in Hl; cbn [bind fst snd] in Hl; inversion Hl; subst; clear Hl;
      rewrite !areg_write_zr, reg_bits_zr in B3;
      match goal with HB2 : run_ops ?o _ = OFall ?s2 |- _ => apply (Hfin _ o (apc_setX _ _ _)); exists s2; (split; [lia|split; assumption]) end.
    destruct Hsize as [-> | [-> | [-> | ->]]]; destruct Hopc as [-> | [-> | ->]]; try discriminate Hok.
    + change (ldst_mnem 0 1) with MLdrb in Hl. change (ldst_rt 0 1 rt) with (xreg_zr false rt) in Hl.
      change (Z.to_nat (2 ^ 0)) with 1%nat in *. ldrg_case Hl Hfin Hw He Ht MA DA HA Hm' Erd false (Some 8) 1%nat.
    + change (ldst_mnem 0 2) with MLdrsb in Hl. change (ldst_rt 0 2 rt) with (xreg_zr true rt) in Hl.
      change (Z.to_nat (2 ^ 0)) with 1%nat in *. ldrsg_case Hl Hfin Hw He Ht MA DA HA Hm' Erd true 8 1%nat.
    + change (ldst_mnem 0 3) with MLdrsb in Hl. change (ldst_rt 0 3 rt) with (xreg_zr false rt) in Hl.
      change (Z.to_nat (2 ^ 0)) with 1%nat in *. ldrsg_case Hl Hfin Hw He Ht MA DA HA Hm' Erd false 8 1%nat.
    + change (ldst_mnem 1 1) with MLdrh in Hl. change (ldst_rt 1 1 rt) with (xreg_zr false rt) in Hl.
      change (Z.to_nat (2 ^ 1)) with 2%nat in *. ldrg_case Hl Hfin Hw He Ht MA DA HA Hm' Erd false (Some 16) 2%nat.
    + change (ldst_mnem 1 2) with MLdrsh in Hl. change (ldst_rt 1 2 rt) with (xreg_zr true rt) in Hl.
      change (Z.to_nat (2 ^ 1)) with 2%nat in *. ldrsg_case Hl Hfin Hw He Ht MA DA HA Hm' Erd true 16 2%nat.
    + change (ldst_mnem 1 3) with MLdrsh in Hl. change (ldst_rt 1 3 rt) with (xreg_zr false rt) in Hl.
      change (Z.to_nat (2 ^ 1)) with 2%nat in *. ldrsg_case Hl Hfin Hw He Ht MA DA HA Hm' Erd false 16 2%nat.
    + change (ldst_mnem 2 1) with MLdr in Hl. change (ldst_rt 2 1 rt) with (xreg_zr false rt) in Hl.
      change (Z.to_nat (2 ^ 2)) with 4%nat in *. ldrg_case Hl Hfin Hw He Ht MA DA HA Hm' Erd false (@None Z) 4%nat.
    + change (ldst_mnem 2 2) with MLdrsw in Hl. change (ldst_rt 2 2 rt) with (xreg_zr true rt) in Hl.
      change (Z.to_nat (2 ^ 2)) with 4%nat in *. ldrsg_case Hl Hfin Hw He Ht MA DA HA Hm' Erd true 32 4%nat.
    + change (ldst_mnem 3 1) with MLdr in Hl. change (ldst_rt 3 1 rt) with (xreg_zr true rt) in Hl.
      change (Z.to_nat (2 ^ 3)) with 8%nat in *. ldrg_case Hl Hfin Hw He Ht MA DA HA Hm' Erd true (@None Z) 8%nat.
Qed.
