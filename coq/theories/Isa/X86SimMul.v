(* Isa/X86SimMul.v -- round 6, step 1: a uniform lemma for reading two operands (at most one of them in memory),
   and two-/three-operand imul on top of it. *)
From Coq Require Import ZArith List Bool NArith Lia ZifyBool.
From Falcon Require Import Base.Res IL.Const IL.ConstSpec IL.ConstProofs IL.Expr IL.ExprSpec IL.Func IL.Loc Exec.Sem.
From Falcon Require Import Isa.X86 Isa.X86Run Isa.X86Lift Isa.X86Mirror Isa.X86Proofs Isa.X86Sim Isa.C01Check Isa.X86Tie Isa.X86SimMem Isa.X86SimCarry Isa.X86SimMore Isa.X86SimXchg.
Import ListNotations.
Local Open Scope Z_scope.
Ltac Zify.zify_post_hook ::= Z.div_mod_to_equations.

(* ---------- operands of any mirrored kind ---------- *)
Definition opnd_ok (m : mode) (sz : Z) (o : operand) : Prop :=
  match o with OMem _ _ _ _ => mem_operand_ok m o | _ => src_operand_ok m sz o end.
Definition opnd_nw (sz : Z) (o : operand) (s : xstate) : Prop :=
  match o with OMem _ _ _ _ => no_wrap sz o s | _ => True end.
(* what the builders' proofs need to know about an operand expression in the state after the loads *)
Definition opnd_facts (sz : Z) (e : expr) (v : Z) (st1 : sstate) : Prop :=
  e_bits e = sz /\ 0 <= v < 2 ^ sz /\ den (st_env st1) e = Ok (mkc sz v) /\ clean e = true /\ mentions kT1 e = false.

Lemma opl_nonmem m sz o : is_mem o = false -> opl m sz o = (e <- opv m sz o ;; Ok ([], e)).
Proof. destruct o; try discriminate; reflexivity. Qed.
Lemma opl_mem m sz o ae : is_mem o = true -> addr_expr m o = Some (Ok ae) ->
  opl m sz o = Ok ([OLoad (temp_main sz) ae], EScalar (temp_main sz)) /\ opnd_mirrored m o = true.
Proof. destruct o; try discriminate. intros _ E. unfold opl, opnd_mirrored. rewrite E. split; reflexivity. Qed.
Lemma ost_mem m sz o ae v : is_mem o = true -> addr_expr m o = Some (Ok ae) -> ost m sz o v = Ok [OStore ae v].
Proof. destruct o; try discriminate. intros _ E. unfold ost. rewrite E. reflexivity. Qed.
Lemma ost_reg m sz o v : isreg o = true -> ost m sz o v = ops_store m sz o v.
Proof. destruct o; try discriminate; reflexivity. Qed.

Lemma nonmem_facts m sz o s st v : wf m s -> emb m s st -> opnd_ok m sz o -> is_mem o = false -> rd_op sz o s = Some v ->
  exists e, opv m sz o = Ok e /\ opnd_facts sz e v st.
Proof.
  intros Hw He Ho Im Hrd.
  assert (Hso: src_operand_ok m sz o) by (destruct o; try discriminate; exact Ho).
  destruct (src_expr m sz o s st Hw He Hso) as (e & b & Oe & Be & Hb & De & Ce & Re).
  rewrite Hrd in Re. inversion Re; subst b. exists e. split; [exact Oe|].
  unfold opnd_facts. repeat split; try assumption; try lia. apply (opv_no_T1 m sz o e Hso Oe).
Qed.

(* Mode::operand_load of two operands in sequence; at most one of them is a memory operand *)
Lemma read2 m sza szb a b s st va vb :
  wf m s -> emb m s st -> opnd_ok m sza a -> opnd_ok m szb b -> is_mem a = false \/ is_mem b = false -> width_ok sza -> width_ok szb ->
  opnd_nw sza a s -> opnd_nw szb b s -> rd_op sza a s = Some va -> rd_op szb b s = Some vb ->
  exists pa ea pb eb st1,
    opl m sza a = Ok (pa, ea) /\ opl m szb b = Ok (pb, eb) /\ opnd_mirrored m a = true /\ opnd_mirrored m b = true /\
    nobranch (pa ++ pb) = true /\ (length (pa ++ pb) <= 1)%nat /\
    exec_ops st (pa ++ pb) = Ok st1 /\ emb m s st1 /\ opnd_facts sza ea va st1 /\ opnd_facts szb eb vb st1.
Proof.
  intros Hw He Hoa Hob Hone Hwa Hwb Hna Hnb Hra Hrb.
  assert (Mir: forall o, is_mem o = false -> opnd_mirrored m o = true) by (intros o; destruct o; try discriminate; reflexivity).
  destruct (is_mem a) eqn:Ima; [destruct Hone as [Hone|Imb]; [discriminate|]|destruct (is_mem b) eqn:Imb].
  - (* a in memory *)
    assert (Hma: mem_operand_ok m a) by (destruct a; try discriminate; exact Hoa).
    assert (Hnw: no_wrap sza a s) by (destruct a; try discriminate; exact Hna).
    destruct (load_step m sza a s st va Hw He Hma Hwa Hnw Hra) as (ae & ev & Ea & Ex1 & _ & Hva).
    set (st1 := mkst (env_set (st_env st) kTM (mkc sza va)) (st_mem st)) in *.
    pose proof (emb_set_temp m s st sza va He) as He1. fold st1 in He1.
    destruct (nonmem_facts m szb b s st1 vb Hw He1 Hob Imb Hrb) as (eb & Ob & Fb).
    destruct (opl_mem m sza a ae Ima Ea) as (Oa & Ma).
    exists [OLoad (temp_main sza) ae], (EScalar (temp_main sza)), [], eb, st1.
    split; [exact Oa|]. split; [rewrite (opl_nonmem _ _ _ Imb), Ob; reflexivity|]. split; [exact Ma|]. split; [apply Mir; exact Imb|].
    split; [reflexivity|]. split; [cbn; lia|]. split; [cbn [app exec_ops]; rewrite Ex1; reflexivity|]. split; [exact He1|].
    split; [|exact Fb]. unfold opnd_facts. repeat split; try lia.
    apply temp_main_den. unfold st1. cbn [st_env]. apply env_get_set_same.
  - (* b in memory *)
    assert (Hmb: mem_operand_ok m b) by (destruct b; try discriminate; exact Hob).
    assert (Hnw: no_wrap szb b s) by (destruct b; try discriminate; exact Hnb).
    destruct (load_step m szb b s st vb Hw He Hmb Hwb Hnw Hrb) as (ae & ev & Ea & Ex1 & _ & Hvb).
    set (st1 := mkst (env_set (st_env st) kTM (mkc szb vb)) (st_mem st)) in *.
    pose proof (emb_set_temp m s st szb vb He) as He1. fold st1 in He1.
    destruct (nonmem_facts m sza a s st1 va Hw He1 Hoa Ima Hra) as (ea & Oa & Fa).
    destruct (opl_mem m szb b ae Imb Ea) as (Ob & Mb).
    exists [], ea, [OLoad (temp_main szb) ae], (EScalar (temp_main szb)), st1.
    split; [rewrite (opl_nonmem _ _ _ Ima), Oa; reflexivity|]. split; [exact Ob|]. split; [apply Mir; exact Ima|]. split; [exact Mb|].
    split; [reflexivity|]. split; [cbn; lia|]. split; [cbn [app exec_ops]; rewrite Ex1; reflexivity|]. split; [exact He1|].
    split; [exact Fa|]. unfold opnd_facts. repeat split; try lia.
    apply temp_main_den. unfold st1. cbn [st_env]. apply env_get_set_same.
  - (* neither *)
    destruct (nonmem_facts m sza a s st va Hw He Hoa Ima Hra) as (ea & Oa & Fa).
    destruct (nonmem_facts m szb b s st vb Hw He Hob Imb Hrb) as (eb & Ob & Fb).
    exists [], ea, [], eb, st.
    split; [rewrite (opl_nonmem _ _ _ Ima), Oa; reflexivity|]. split; [rewrite (opl_nonmem _ _ _ Imb), Ob; reflexivity|].
    split; [apply Mir; exact Ima|]. split; [apply Mir; exact Imb|].
    split; [reflexivity|]. split; [cbn; lia|]. split; [reflexivity|]. auto.
Qed.

(* ---------- the arithmetic of a signed multiplication at double width ---------- *)
Lemma sg_range w a : width_ok w -> 0 <= a < 2 ^ w -> - 2 ^ (w - 1) <= X86.Sg w a < 2 ^ (w - 1).
Proof. intros Hw Ha. destruct Hw as [->|[->|[->| ->]]]; unfold X86.Sg, ConstSpec.S in *; pows; split_ifs; lia. Qed.

Lemma mod_inj m a b : 0 < m -> a mod m = b mod m -> - m < a - b < m -> a = b.
Proof.
  intros Hm E Hd. rewrite (Z.div_mod a m), (Z.div_mod b m) by lia. rewrite E.
  assert (a / m = b / m); [|congruence].
  pose proof (Z.mod_pos_bound a m Hm). pose proof (Z.mod_pos_bound b m Hm).
  pose proof (Z.div_mod a m ltac:(lia)). pose proof (Z.div_mod b m ltac:(lia)). nia.
Qed.

Lemma imul_vals sz a b : width_ok sz -> 0 <= a < 2 ^ sz -> 0 <= b < 2 ^ sz ->
  let p := X86.Sg sz a * X86.Sg sz b in
  U (2 * sz) (U (2 * sz) (X86.Sg sz a) * U (2 * sz) (X86.Sg sz b)) = U (2 * sz) p /\
  U sz (U (2 * sz) p) = U sz p /\
  (U (2 * sz) p =? U (2 * sz) (X86.Sg sz (U sz (U (2 * sz) p)))) = negb (X86.sovf sz p).
Proof.
  intros Hw Ha Hb p.
  pose proof (sg_range sz a Hw Ha) as Rx. pose proof (sg_range sz b Hw Hb) as Ry.
  set (x := X86.Sg sz a) in *. set (y := X86.Sg sz b) in *.
  assert (P2: 2 ^ (2 * sz) = 2 ^ sz * 2 ^ sz) by (rewrite <- Z.pow_add_r by (destruct Hw as [->|[->|[->| ->]]]; lia); f_equal; lia).
  assert (Hp: 0 < 2 ^ sz) by (destruct Hw as [->|[->|[->| ->]]]; reflexivity).
  assert (Hh: 2 * 2 ^ (sz - 1) = 2 ^ sz) by (destruct Hw as [->|[->|[->| ->]]]; reflexivity).
  assert (E2: U sz (U (2 * sz) p) = U sz p).
  { unfold U. rewrite P2. symmetry. apply Znumtheory.Zmod_div_mod; try lia. exists (2 ^ sz). reflexivity. }
  split; [|split; [exact E2|]].
  - unfold U. rewrite <- Zmult_mod. reflexivity.
  - rewrite E2.
    assert (Bp: - (2 ^ (sz - 1) * 2 ^ (sz - 1)) <= p <= 2 ^ (sz - 1) * 2 ^ (sz - 1)) by (unfold p; nia).
    set (h := 2 ^ (sz - 1)) in *. set (n := 2 ^ sz) in *.
    unfold X86.sovf, X86.Sg, ConstSpec.S, U. fold h n. rewrite P2. fold n.
    clearbody p h n. clear - Bp Hh Hp.
    assert (Hh1: 1 <= h) by nia.
    set (sg := if p mod n <? h then p mod n else p mod n - n).
    assert (Rs: - h <= sg < h) by (unfold sg; split_ifs; lia).
    assert (Cs: sg mod n = p mod n).
    { unfold sg. destruct (p mod n <? h); [apply Z.mod_mod; lia|]. rewrite <- (Z.mod_add _ 1 n) by lia. replace (p mod n - n + 1 * n) with (p mod n) by lia. apply Z.mod_mod; lia. }
    destruct ((p <? - h) || (h <=? p)) eqn:Ov; cbn [negb].
    + apply Z.eqb_neq. intros E. assert (p = sg) by (apply (mod_inj (n * n)); [nia|exact E|nia]). lia.
    + assert (p = sg) by (apply (mod_inj n); [lia|symmetry; exact Cs|lia]). subst sg. apply Z.eqb_eq. congruence.
Qed.

Lemma emb_flag_weaken f en k : emb_flag f en k -> emb_flag FU en k.
Proof. destruct f; cbn [emb_flag]; intros H; [eexists; exact H|exact H]. Qed.

Lemma sext_expr en sz e v : width_ok sz -> e_bits e = sz -> den en e = Ok (mkc sz v) ->
  mk_ext Sext (2 * sz) e = Ok (EExt Sext (2 * sz) e) /\ den en (EExt Sext (2 * sz) e) = Ok (mkc (2 * sz) (U (2 * sz) (X86.Sg sz v))).
Proof.
  intros Hw Be De.
  assert (Q: (2 * sz <=? sz) = false) by (destruct Hw as [->|[->|[->| ->]]]; reflexivity).
  assert (Q0: (sz =? 0) = false) by (destruct Hw as [->|[->|[->| ->]]]; reflexivity).
  split; [unfold mk_ext; rewrite Be, Q, Q0; reflexivity|].
  cbn [den]. rewrite De. cbn [bind]. unfold sp_ext. cbn [cbits cval]. rewrite Q. reflexivity.
Qed.
Lemma trun_expr en sz e v : width_ok sz -> e_bits e = 2 * sz -> den en e = Ok (mkc (2 * sz) v) ->
  mk_ext Trun sz e = Ok (EExt Trun sz e) /\ den en (EExt Trun sz e) = Ok (mkc sz (U sz v)).
Proof.
  intros Hw Be De.
  assert (Q: (2 * sz <=? sz) = false) by (destruct Hw as [->|[->|[->| ->]]]; reflexivity).
  assert (Q0: (2 * sz =? 0) = false) by (destruct Hw as [->|[->|[->| ->]]]; reflexivity).
  split; [unfold mk_ext; rewrite Be, Q, Q0; reflexivity|].
  cbn [den]. rewrite De. cbn [bind]. unfold sp_ext. cbn [cbits cval]. rewrite Q. reflexivity.
Qed.

Definition imul_flags (sz p : Z) (f : flags) : flags := mkfl (FB (X86.sovf sz p)) FU FU FU (FB (X86.sovf sz p)) (f_df f).

(* the builder on two operands (at most one in memory) and a register destination *)
Lemma imul_gen m addr nx sz dst a b s st va vb :
  wf m s -> emb m s st -> reg_operand_ok m sz (OReg dst) -> opnd_ok m sz a -> opnd_ok m sz b -> is_mem a = false \/ is_mem b = false ->
  width_ok sz -> opnd_nw sz a s -> opnd_nw sz b s -> rd_op sz a s = Some va -> rd_op sz b s = Some vb ->
  let p := X86.Sg sz va * X86.Sg sz vb in
  let s' := set_fl (set_gpr s (reg_write sz dst (U sz p) (x_gpr s))) (imul_flags sz p (x_fl s)) in
  exists ops st', lift_imul m sz dst a b = Ok ops /\ opnd_mirrored m a = true /\ opnd_mirrored m b = true /\
    run_instr 600 (one_block addr ops) [(nx, None)] addr st = RunOk st' (Some nx) /\ emb m s' st' /\ wf m s'.
Proof.
  intros Hw He Hd Hoa Hob Hone Hwd Hna Hnb Hra Hrb p s'.
  destruct (read2 m sz sz a b s st va vb Hw He Hoa Hob Hone Hwd Hwd Hna Hnb Hra Hrb)
    as (pa & ea & pb & eb & st1 & Oa & Ob & Ma & Mb & Nb & Ln & Ex1 & He1 & (Ba & Hva & Da & Ca & Ta) & (Bb & Hvb & Db & Cb & Tb)).
  destruct (imul_vals sz va vb Hwd Hva Hvb) as (V1 & V2 & V3). fold p in V1, V2, V3.
  set (w := 2 * sz) in *.
  assert (W0: 0 <= sz) by (destruct Hwd as [->|[->|[->| ->]]]; lia).
  assert (Hp: 0 < 2 ^ sz) by (destruct Hwd as [->|[->|[->| ->]]]; reflexivity).
  destruct (sext_expr (st_env st1) sz ea va Hwd Ba Da) as (Xa & Dxa). destruct (sext_expr (st_env st1) sz eb vb Hwd Bb Db) as (Xb & Dxb).
  fold w in Xa, Dxa, Xb, Dxb.
  set (x := EExt Sext w ea) in *. set (y := EExt Sext w eb) in *.
  assert (Pm: mk_bin Mul x y = Ok (EBin Mul x y)) by (unfold mk_bin; cbn [e_bits x y]; rewrite Z.eqb_refl; reflexivity).
  assert (Dp: den (st_env st1) (EBin Mul x y) = Ok (mkc w (U w p))).
  { rewrite den_bin, Dxa, Dxb. cbn [bind]. unfold sp_bin_c. cbn [cbits cval]. rewrite Z.eqb_refl. cbn [negb sp_bin]. unfold s_mul. rewrite V1. reflexivity. }
  set (st2 := mkst (env_set (st_env st1) kT0 (mkc w (U w p))) (st_mem st1)).
  pose proof (emb_set_T0 m s st1 w (U w p) He1) as He2. fold st2 in He2.
  assert (G2: env_get (st_env st2) kT0 = Some (mkc w (U w p))) by (unfold st2; cbn [st_env]; apply env_get_set_same).
  destruct (trun_expr (st_env st2) sz (T0e w) (U w p) Hwd eq_refl (T0e_den _ _ _ G2)) as (Xt & Dt). rewrite V2 in Dt.
  set (tr := EExt Trun sz (T0e w)) in *.
  assert (Hup: 0 <= U sz p < 2 ^ sz) by (unfold U; apply Z.mod_pos_bound; exact Hp).
  destruct (reg_operand_shape m sz (OReg dst) Hd) as (sd & Hs & Hr & Hi).
  destruct (assign_reg_exec2 m s st2 (OReg dst) sz sd tr (U sz p) Hw He2 Hr Hi Hs eq_refl Hup Dt)
    as (o1 & st3 & g1 & Hops1 & Ia1 & Hex1 & Hwr1 & Hemb1 & Hwf1 & Hfr1 & Hm1).
  assert (Eg: g1 = reg_write sz dst (U sz p) (x_gpr s)).
  { unfold wr_op, wr_op_at in Hwr1. inversion Hwr1 as [Q]. reflexivity. }
  assert (G3: env_get (st_env st3) kT0 = Some (mkc w (U w p))) by (rewrite Hfr1 by (apply kT0_ne_reg; exact Hr); exact G2).
  destruct (trun_expr (st_env st3) sz (T0e w) (U w p) Hwd eq_refl (T0e_den _ _ _ G3)) as (_ & Dt3). fold tr in Dt3.
  destruct (sext_expr (st_env st3) sz tr (U sz (U w p)) Hwd eq_refl Dt3) as (Xs & Dsx). fold w in Xs, Dsx.
  set (sx := EExt Sext w tr) in *.
  assert (Cm: mk_bin Cmpneq (T0e w) sx = Ok (EBin Cmpneq (T0e w) sx)) by (unfold mk_bin; cbn [e_bits T0e temp_k sbits sx]; rewrite Z.eqb_refl; reflexivity).
  set (ov := X86.sovf sz p) in *.
  assert (Dc: den (st_env st3) (EBin Cmpneq (T0e w) sx) = Ok (mkc 1 (X86.b2z ov))).
  { rewrite den_bin, (T0e_den _ _ _ G3), Dsx. cbn [bind]. unfold sp_bin_c. cbn [cbits cval]. rewrite Z.eqb_refl. cbn [negb sp_bin]. unfold s_cmpneq.
    rewrite V3. destruct ov; reflexivity. }
  set (e4 := env_set (st_env st3) kOF (mkc 1 (X86.b2z ov))).
  assert (Do: den e4 (EScalar (flag_scalar X86Lift.n_OF)) = Ok (mkc 1 (X86.b2z ov))).
  { cbn [den]. change (skey_of (flag_scalar X86Lift.n_OF)) with kOF. unfold e4. rewrite env_get_set_same. reflexivity. }
  set (e5 := env_set e4 kCF (mkc 1 (X86.b2z ov))).
  set (st5 := mkst e5 (st_mem st3)).
  set (tail := [assign_flag X86Lift.n_OF (EBin Cmpneq (T0e w) sx); assign_flag X86Lift.n_CF (EScalar (flag_scalar X86Lift.n_OF))]).
  assert (Hex5: exec_ops st3 tail = Ok st5).
  { unfold tail, assign_flag. cbn [exec_ops].
    rewrite (exec_assign st3 _ _ _ Dc). cbn [bind fst st_env st_mem]. change (skey_of (flag_scalar X86Lift.n_OF)) with kOF. fold e4.
    rewrite (exec_assign (mkst e4 _) _ _ _ Do). cbn [bind fst st_env st_mem]. reflexivity. }
  assert (Fr: forall r0, 0 <= r0 < ngpr m -> env_get (st_env st5) (gpr_name m r0, None) = env_get (st_env st3) (gpr_name m r0, None)).
  { intros r0 Hr0. destruct (reg_key_facts m r0 Hr0) as (_ & _ & _ & K3 & K4 & _). unfold st5, e5, e4. cbn [st_env]. rewrite !env_get_set_other by assumption. reflexivity. }
  assert (Fo: forall k, k <> kOF -> k <> kCF -> env_get (st_env st5) k = env_get (st_env st3) k).
  { intros k K3 K4. unfold st5, e5, e4. cbn [st_env]. rewrite !env_get_set_other by assumption. reflexivity. }
  assert (Fd: env_get (st_env st5) kDF = env_get (st_env st3) kDF) by (apply Fo; flagkeys; congruence).
  assert (Ez: emb_flag FU (st_env st5) kZF).
  { pose proof (emb_flag_weaken _ _ _ (emb_zf _ _ _ Hemb1)) as [v0 Q]. exists v0. rewrite Fo by (flagkeys; congruence). exact Q. }
  assert (Es: emb_flag FU (st_env st5) kSF).
  { pose proof (emb_flag_weaken _ _ _ (emb_sf _ _ _ Hemb1)) as [v0 Q]. exists v0. rewrite Fo by (flagkeys; congruence). exact Q. }
  assert (Ec: emb_flag (FB ov) (st_env st5) kCF) by (unfold st5, e5; cbn [st_env emb_flag]; apply env_get_set_same).
  assert (Eo: emb_flag (FB ov) (st_env st5) kOF).
  { unfold st5, e5, e4. cbn [st_env emb_flag]. rewrite env_get_set_other by (flagkeys; congruence). apply env_get_set_same. }
  destruct (emb_after_flags m (set_gpr s g1) st3 st5 (imul_flags sz p (x_fl s)) Hwf1 Hemb1 Fr Fd eq_refl eq_refl Ec Ez Es Eo) as (He5 & Hw5).
  rewrite Eg in He5, Hw5.
  exists (pa ++ pb ++ [OAssign (temp_k 0 w) (EBin Mul x y)] ++ [o1] ++ tail), st5.
  split.
  { unfold lift_imul. rewrite Oa, Ob. cbn [bind fst snd]. fold w. rewrite Xa. cbn [bind]. rewrite Xb. cbn [bind]. fold x y. rewrite Pm. cbn [bind].
    fold (T0e w). rewrite Xt. cbn [bind]. fold tr. change (ost m sz (OReg dst) tr) with (ops_store m sz (OReg dst) tr). rewrite Hops1. cbn [bind].
    rewrite Xs. cbn [bind]. fold sx. rewrite Cm. cbn [bind]. reflexivity. }
  split; [exact Ma|]. split; [exact Mb|].
  split; [|split; [exact He5|exact Hw5]].
  rewrite app_assoc. apply run_one_block_nb.
  - unfold nobranch in *. rewrite forallb_app, Nb. cbn [app forallb is_branch negb andb assign_flag tail]. destruct o1; try discriminate Ia1; reflexivity.
  - intros E. apply app_eq_nil in E. destruct E as [_ E]. discriminate.
  - rewrite app_length. cbn [app length tail]. lia.
  - rewrite (exec_ops_app (pa ++ pb) _ st st1 Ex1).
    rewrite (exec_ops_app [OAssign (temp_k 0 w) (EBin Mul x y)] _ st1 st2) by (cbn [exec_ops]; rewrite (exec_assign st1 _ _ _ Dp); reflexivity).
    rewrite (exec_ops_app [o1] _ st2 st3 Hex1). exact Hex5.
Qed.

(* imul r, r | [m] *)
Theorem imul2_sim m addr len sz dst src :
  reg_operand_ok m sz (OReg dst) -> opnd_ok m sz src -> isreg src = true \/ is_mem src = true -> width_ok sz ->
  sim_when (opnd_nw sz src) m addr len (IImul2 sz dst src).
Proof.
  intros Hd Hos Hk Hwd s st s' ip Hw He Hnw Hstep.
  unfold step in Hstep. destruct (rd_op sz src s) as [b|] eqn:Hrb; [|discriminate].
  assert (Hoa: opnd_ok m sz (OReg dst)) by exact Hd.
  destruct (imul_gen m addr (addr + len) sz dst (OReg dst) src s st _ b Hw He Hd Hoa Hos (or_introl eq_refl) Hwd I Hnw eq_refl Hrb)
    as (ops & st' & Hl & _ & Mb & Hrun & Hemb & Hwf).
  inversion Hstep; subst s' ip.
  exists (one_block addr ops). split.
  - unfold mirror_instr. rewrite Mb. destruct Hk as [Hk|Hk]; rewrite Hk; [|rewrite orb_true_r]; cbn [orb andb]; rewrite Hl; reflexivity.
  - exists st'. split; [exact Hrun|]. split; [exact Hemb|exact Hwf].
Qed.

(* imul r, r | [m], imm *)
Theorem imul3_sim m addr len sz dst src imm :
  reg_operand_ok m sz (OReg dst) -> opnd_ok m sz src -> isreg src = true \/ is_mem src = true -> 0 <= imm < 2 ^ sz -> width_ok sz ->
  sim_when (opnd_nw sz src) m addr len (IImul3 sz dst src imm).
Proof.
  intros Hd Hos Hk Himm Hwd s st s' ip Hw He Hnw Hstep.
  unfold step in Hstep. destruct (rd_op sz src s) as [b|] eqn:Hrb; [|discriminate].
  assert (Hoi: opnd_ok m sz (OImm imm)) by (split; assumption).
  destruct (imul_gen m addr (addr + len) sz dst src (OImm imm) s st b imm Hw He Hd Hos Hoi (or_intror eq_refl) Hwd Hnw I Hrb eq_refl)
    as (ops & st' & Hl & Ma & _ & Hrun & Hemb & Hwf).
  inversion Hstep; subst s' ip.
  exists (one_block addr ops). split.
  - unfold mirror_instr. rewrite Ma. destruct Hk as [Hk|Hk]; rewrite Hk; [|rewrite orb_true_r]; cbn [orb andb]; rewrite Hl; reflexivity.
  - exists st'. split; [exact Hrun|]. split; [exact Hemb|exact Hwf].
Qed.
