(* Isa/A64Lift.v -- Gallina MIRROR of lib/translator/aarch64/{semantics.rs, register.rs, mod.rs}
   for the instruction classes of property C03.

   Two layers:
   1. [operands_of]: how the decoder the lifter uses (bad64 0.6 = Binary Ninja's arm64 disassembler)
      presents a decoded instruction: mnemonic (with the Arm ARM's preferred aliases) and operand
      descriptors.  This layer is *checked per encoding* by the syntactic tie (C03Check): for every
      enumerated word, [lift (decode word)] must equal the IL the real lifter produced.
   2. the builders (operand_load / operand_store / shift / mem_operand_address + side effect /
      add adds sub subs mov ldr* str* ldp ldpsw stp b b_cc br bl blr ret cbz cbnz tbz tbnz),
      transcribed through the checked constructors of IL/Expr.v: an `unwrap` on a sort error is Panic,
      `Err(unsupported())` is [Err ECustom] (what translate_block returns under the default options).

   Scalar names are interned by the harness in a FIXED order (harness/src/bin/c03.rs, `seed_interner`):
     x0..x30 -> 0..30, sp -> 31, n z c v -> 32..35, xzr -> 36, wzr -> 37,
     v0..v31 -> 38..69, then by first occurrence: temp_0x<addr> -> 70, temp_0x<addr+1> -> 71. *)
From Coq Require Import ZArith List Bool NArith.
From Falcon Require Import Base.Res IL.Const IL.Expr IL.Func Isa.A64.
Import ListNotations.
Local Open Scope Z_scope.

(* ------------------------------------------------------------------ scalars *)
Definition sx (n : Z) : scalar := mks (Z.to_N n) 64 None.      (* x0..x30 *)
Definition s_sp : scalar := mks 31%N 64 None.
Definition s_n : scalar := mks 32%N 1 None.
Definition s_z : scalar := mks 33%N 1 None.
Definition s_c : scalar := mks 34%N 1 None.
Definition s_v : scalar := mks 35%N 1 None.
Definition s_xzr : scalar := mks 36%N 64 None.
Definition s_vreg (n : Z) : scalar := mks (Z.to_N (38 + n)) 128 None.      (* v0..v31 *)
Definition s_temp0 (bits : Z) : scalar := mks 70%N bits None.
Definition s_temp1 (bits : Z) : scalar := mks 71%N bits None.

(* ------------------------------------------------------------------ register.rs *)
Inductive areg := RX (n : Z) | RW (n : Z) | RXZR | RWZR | RSP | RWSP.

Definition reg_bits (r : areg) : Z := match r with RX _ | RXZR | RSP => 64 | _ => 32 end.
Definition full_scalar (r : areg) : scalar :=
  match r with RX n | RW n => sx n | RXZR | RWZR => s_xzr | RSP | RWSP => s_sp end.

Definition unwrap {A} (r : res A) : res A := match r with Ok a => Ok a | _ => Panic end.

(* AArch64Register::get *)
Definition reg_get (r : areg) : res expr :=
  match r with
  | RXZR => Ok (expr_const 0 64)
  | RWZR => Ok (expr_const 0 32)
  | RX _ | RSP => Ok (EScalar (full_scalar r))
  | RW _ | RWSP => unwrap (mk_ext Trun 32 (EScalar (full_scalar r)))
  end.

(* AArch64Register::set : the assignment it appends *)
Definition reg_set (r : areg) (value : expr) : res operation :=
  if 64 <? e_bits value then Panic                       (* assert!(value.bits() <= self.bits) on the full register *)
  else if e_bits value =? 64 then Ok (OAssign (full_scalar r) value)
  else v <- unwrap (mk_ext Zext 64 value) ;; Ok (OAssign (full_scalar r) v).

(* ------------------------------------------------------------------ operands as bad64 presents them *)
Inductive bshift :=
| BLSL (a : Z) | BLSR (a : Z) | BASR (a : Z) | BROR (a : Z)
| BSXTB (a : Z) | BSXTH (a : Z) | BSXTW (a : Z) | BSXTX (a : Z)
| BUXTB (a : Z) | BUXTH (a : Z) | BUXTW (a : Z) | BUXTX (a : Z).

Inductive opnd :=
| OReg (r : areg)
| OVReg (bits n : Z)                         (* the B / H / S / D / Q view (bits = 8 .. 128) of SIMD&FP register n *)
| OVArr (n shift width : Z) (indexed : bool)  (* Vn with an arrangement specifier: arr_spec_offset_width, is_arr_spec_indexed *)
| OImm32 (v : Z) (sh : option bshift)         (* v : the u64 bit pattern of the immediate *)
| OImm64 (v : Z) (sh : option bshift)
| OShiftReg (r : areg) (sh : bshift)
| OLabel (v : Z)
| OMemReg (r : areg)
| OMemOffset (r : areg) (off : Z)             (* off : u64 bit pattern (imm_to_u64) *)
| OMemPreIdx (r : areg) (imm : Z)
| OMemPostIdxImm (r : areg) (imm : Z)
| OMemExt (r ro : areg) (sh : option bshift).

(* ------------------------------------------------------------------ semantics.rs helpers *)
Definition lsl_ (v s : expr) : res expr := unwrap (mk_bin Shl v s).
Definition lsr_ (v s : expr) : res expr := unwrap (mk_bin Shr v s).
Definition asr_ (v s : expr) : res expr := unwrap (sra v s).
Definition ror_ (v s : expr) : res expr :=
  d <- unwrap (mk_bin Sub (expr_const (e_bits v) (e_bits v)) s) ;;
  a <- unwrap (mk_bin Shl v d) ;;
  b <- unwrap (mk_bin Shr v s) ;;
  unwrap (mk_bin Or a b).

(* fn shift(value, bad64_shift, out_bits) *)
Definition shift_ (value : expr) (sh : bshift) (out_bits : Z) : res expr :=
  let ext (unsigned : bool) (len amount : Z) : res expr :=
    e1 <- (if len <? e_bits value then unwrap (mk_ext Trun len value) else Ok value) ;;
    e2 <- (if len <? out_bits
           then (if unsigned then unwrap (mk_ext Zext out_bits e1) else unwrap (mk_ext Sext out_bits e1))
           else Ok e1) ;;
    unwrap (mk_bin Shl e2 (expr_const amount out_bits)) in
  match sh with
  | BLSL a => lsl_ value (expr_const a out_bits)
  | BLSR a => lsr_ value (expr_const a out_bits)
  | BASR a => asr_ value (expr_const a out_bits)
  | BROR a => ror_ value (expr_const a out_bits)
  | BSXTB a => ext false 8 a | BSXTH a => ext false 16 a | BSXTW a => ext false 32 a | BSXTX a => ext false 64 a
  | BUXTB a => ext true 8 a | BUXTH a => ext true 16 a | BUXTW a => ext true 32 a | BUXTX a => ext true 64 a
  end.

Definition maybe_shift (value : expr) (sh : option bshift) (out_bits : Z) : res expr :=
  match sh with Some s => shift_ value s out_bits | None => Ok value end.

(* fn operand_load (non-memory operands) *)
Definition operand_load (o : opnd) (out_bits : Z) : res expr :=
  match o with
  | OReg r => reg_get r
  | OVReg bits n => if bits =? 128 then Ok (EScalar (s_vreg n)) else unwrap (mk_ext Trun bits (EScalar (s_vreg n)))
  | OVArr n shift width _ =>
      v <- unwrap (mk_bin Shr (EScalar (s_vreg n)) (expr_const shift 128)) ;;
      if width =? 128 then Ok v else unwrap (mk_ext Trun width v)          (* resize_zext(width, value), width <= 128 *)
  | OImm32 v sh => maybe_shift (expr_const (v mod 2 ^ 32) 32) sh out_bits
  | OImm64 v sh => maybe_shift (expr_const v 64) sh out_bits
  | OShiftReg r sh => v <- reg_get r ;; shift_ v sh out_bits
  | OLabel v => Ok (expr_const v 64)
  | _ => Err ECustom                                       (* a memory operand where a register or an immediate is expected *)
  end.

(* fn operand_imm_u64 *)
Definition operand_imm_u64 (o : opnd) : res Z :=
  match o with OImm32 v None | OImm64 v None => Ok v | _ => Err ECustom end.

(* fn operand_store *)
Definition operand_store (o : opnd) (value : expr) : res operation :=
  match o with
  | OReg r => reg_set r value
  | OVArr n shift width indexed =>
      let vset (e : expr) : res operation :=
        if 128 <? e_bits e then Panic
        else if e_bits e =? 128 then Ok (OAssign (s_vreg n) e)
        else z <- unwrap (mk_ext Zext 128 e) ;; Ok (OAssign (s_vreg n) z) in
      let resize128 (e : expr) : res expr :=
        if e_bits e =? 128 then Ok e else if e_bits e <? 128 then unwrap (mk_ext Zext 128 e) else unwrap (mk_ext Trun 128 e) in
      if negb indexed then (r <- resize128 value ;; vset r)
      else
        lower <- (if 0 <? shift
                  then t <- unwrap (mk_ext Trun shift (EScalar (s_vreg n))) ;; z <- unwrap (mk_ext Zext 128 t) ;; Ok (Some z)
                  else Ok None) ;;
        upper <- (if shift + width <? 128
                  then a <- unwrap (mk_bin Shr (EScalar (s_vreg n)) (expr_const (shift + width) 128)) ;;
                       b <- unwrap (mk_bin Shl a (expr_const (shift + width) 128)) ;; Ok (Some b)
                  else Ok None) ;;
        match (match lower, upper with
               | Some x, Some y => m <- unwrap (mk_bin Or x y) ;; Ok (Some m)
               | Some x, None | None, Some x => Ok (Some x)
               | None, None => Ok None
               end) with
        | Ok None => r <- resize128 value ;; vset r
        | Ok (Some masked) =>
            repl <- (if e_bits value <=? width then Ok value else unwrap (mk_ext Trun width value)) ;;
            r <- resize128 repl ;;
            sh <- unwrap (mk_bin Shl r (expr_const shift 128)) ;;
            o <- unwrap (mk_bin Or masked sh) ;; vset o
        | Err e => Err e
        | Panic => Panic
        end
  | OVReg _ n =>                                         (* AArch64Register::set through the full V register *)
      if 128 <? e_bits value then Panic
      else if e_bits value =? 128 then Ok (OAssign (s_vreg n) value)
      else v <- unwrap (mk_ext Zext 128 value) ;; Ok (OAssign (s_vreg n) v)
  | _ => Err ECustom
  end.

(* fn operand_storing_width *)
Definition operand_storing_width (o : opnd) : res Z :=
  match o with
  | OReg r => Ok (reg_bits r)
  | OVReg bits _ => Ok bits
  | OVArr _ _ width _ => Ok width
  | _ => Err ECustom
  end.

(* fn mem_operand_address : (address expression, write-back assignment) *)
Definition mem_operand_address (o : opnd) : res (expr * option (areg * expr)) :=
  match o with
  | OMemReg r => a <- reg_get r ;; Ok (a, None)
  | OMemOffset r off =>
      b <- reg_get r ;; a <- unwrap (mk_bin Add b (expr_const off 64)) ;; Ok (a, None)
  | OMemPreIdx r imm =>
      b <- reg_get r ;; a <- unwrap (mk_bin Add b (expr_const imm 64)) ;; Ok (a, Some (r, a))
  | OMemPostIdxImm r imm =>
      b <- reg_get r ;; a <- unwrap (mk_bin Add b (expr_const imm 64)) ;; Ok (b, Some (r, a))
  | OMemExt r ro sh =>
      b <- reg_get r ;;
      o0 <- reg_get ro ;;
      o1 <- (match sh with Some s => shift_ o0 s 64 | None => Ok o0 end) ;;
      a <- unwrap (mk_bin Add b o1) ;; Ok (a, None)
  | _ => Err ECustom                                       (* not a memory operand (LDR literal's label) *)
  end.

(* MemOperandSideeffect::apply *)
Definition sideeffect (se : option (areg * expr)) : res (list operation) :=
  match se with
  | None => Ok []
  | Some (r, v) => o <- reg_set r v ;; Ok [o]
  end.

Definition nth_op (l : list opnd) (k : nat) : res opnd := res_of_option (nth_error l k).   (* operands()[k] *)

(* what a builder contributes: the operations of its single block, and the successors it pushes *)
Definition built := (list operation * list (Z * option expr))%type.

(* ------------------------------------------------------------------ builders *)
Inductive arith := AAdd | ASub.
Definition arith_op (a : arith) : binop := match a with AAdd => Add | ASub => Sub end.

(* fn add / fn sub *)
Definition b_addsub (a : arith) (ops : list opnd) : res built :=
  o0 <- nth_op ops 0 ;; o1 <- nth_op ops 1 ;; o2 <- nth_op ops 2 ;;
  bits <- operand_storing_width o0 ;;
  lhs <- operand_load o1 bits ;;
  rhs <- operand_load o2 bits ;;
  src <- unwrap (mk_bin (arith_op a) lhs rhs) ;;
  st <- operand_store o0 src ;;
  Ok ([st], []).

(* fn adds / fn subs  (after the `fix:` commit: the flags are assigned BEFORE the destination is
   written, so that their expressions are evaluated on the source operands) *)
Definition b_addsubs (a : arith) (ops : list opnd) : res built :=
  o0 <- nth_op ops 0 ;; o1 <- nth_op ops 1 ;; o2 <- nth_op ops 2 ;;
  bits <- operand_storing_width o0 ;;
  lhs <- operand_load o1 bits ;;
  rhs <- operand_load o2 bits ;;
  result <- unwrap (mk_bin (arith_op a) lhs rhs) ;;
  zl <- unwrap (mk_ext Zext 72 lhs) ;; zr <- unwrap (mk_ext Zext 72 rhs) ;;
  unsigned_sum <- unwrap (mk_bin (arith_op a) zl zr) ;;
  sl <- unwrap (mk_ext Sext 72 lhs) ;; sr <- unwrap (mk_ext Sext 72 rhs) ;;
  signed_sum <- unwrap (mk_bin (arith_op a) sl sr) ;;
  n <- unwrap (mk_bin Cmplts result (expr_const 0 bits)) ;;
  z <- unwrap (mk_bin Cmpeq result (expr_const 0 bits)) ;;
  zres <- unwrap (mk_ext Zext 72 result) ;;
  c <- unwrap (mk_bin Cmpneq zres unsigned_sum) ;;
  sres <- unwrap (mk_ext Sext 72 result) ;;
  v <- unwrap (mk_bin Cmpneq sres signed_sum) ;;
  st <- operand_store o0 result ;;
  Ok ([OAssign s_n n; OAssign s_z z; OAssign s_c c; OAssign s_v v; st], []).

(* fn mov *)
Definition b_mov (ops : list opnd) : res built :=
  o0 <- nth_op ops 0 ;; o1 <- nth_op ops 1 ;;
  bits <- operand_storing_width o0 ;;
  rhs <- operand_load o1 bits ;;
  st <- operand_store o0 rhs ;;
  Ok ([st], []).

(* fn ldr (bits = None: width of the destination) / ldrb / ldrh (bits = Some 8 / 16) *)
Definition b_ldr (fixed : option Z) (ops : list opnd) : res built :=
  o0 <- nth_op ops 0 ;; o1 <- nth_op ops 1 ;;
  ma <- mem_operand_address o1 ;;
  bits <- (match fixed with Some b => Ok b | None => operand_storing_width o0 end) ;;
  let temp := s_temp0 bits in
  st <- operand_store o0 (EScalar temp) ;;
  wb <- sideeffect (snd ma) ;;
  Ok ([OLoad temp (fst ma); st] ++ wb, []).

(* fn ldrsb / ldrsh / ldrsw (width 8 / 16 / 32) *)
Definition b_ldrs (width : Z) (ops : list opnd) : res built :=
  o0 <- nth_op ops 0 ;; o1 <- nth_op ops 1 ;;
  bits <- operand_storing_width o0 ;;
  _ <- (if (width =? 32) && negb (bits =? 64) then Panic else Ok tt) ;;   (* ldrsw: assert_eq!(bits, 64) *)
  ma <- mem_operand_address o1 ;;
  let temp := s_temp0 width in
  ext <- unwrap (mk_ext Sext bits (EScalar temp)) ;;
  st <- operand_store o0 ext ;;
  wb <- sideeffect (snd ma) ;;
  Ok ([OLoad temp (fst ma); st] ++ wb, []).

(* fn ldp *)
Definition b_ldp (ops : list opnd) : res built :=
  o0 <- nth_op ops 0 ;; o1 <- nth_op ops 1 ;; o2 <- nth_op ops 2 ;;
  ma <- mem_operand_address o2 ;;
  bits <- operand_storing_width o0 ;;
  let t0 := s_temp0 bits in let t1 := s_temp1 bits in
  a2 <- unwrap (mk_bin Add (fst ma) (expr_const (bits / 8) 64)) ;;
  st0 <- operand_store o0 (EScalar t0) ;;
  st1 <- operand_store o1 (EScalar t1) ;;
  wb <- sideeffect (snd ma) ;;
  Ok ([OLoad t0 (fst ma); OLoad t1 a2; st0; st1] ++ wb, []).

(* fn ldpsw *)
Definition b_ldpsw (ops : list opnd) : res built :=
  o0 <- nth_op ops 0 ;; o1 <- nth_op ops 1 ;; o2 <- nth_op ops 2 ;;
  ma <- mem_operand_address o2 ;;
  let t0 := s_temp0 32 in let t1 := s_temp1 32 in
  a2 <- unwrap (mk_bin Add (fst ma) (expr_const 4 64)) ;;
  e0 <- unwrap (mk_ext Sext 64 (EScalar t0)) ;;
  st0 <- operand_store o0 e0 ;;
  e1 <- unwrap (mk_ext Sext 64 (EScalar t1)) ;;
  st1 <- operand_store o1 e1 ;;
  wb <- sideeffect (snd ma) ;;
  Ok ([OLoad t0 (fst ma); OLoad t1 a2; st0; st1] ++ wb, []).

(* fn str (trunc = None) / strb / strh (trunc = Some 8 / 16: value loaded with out_bits 32, then truncated) *)
Definition b_str (trunc : option Z) (ops : list opnd) : res built :=
  o0 <- nth_op ops 0 ;; o1 <- nth_op ops 1 ;;
  value <- (match trunc with
            | None => bits <- operand_storing_width o0 ;; operand_load o0 bits
            | Some w => v <- operand_load o0 32 ;; Ok v
            end) ;;
  ma <- mem_operand_address o1 ;;
  value' <- (match trunc with None => Ok value | Some w => unwrap (mk_ext Trun w value) end) ;;
  wb <- sideeffect (snd ma) ;;
  Ok ([OStore (fst ma) value'] ++ wb, []).

(* fn stp *)
Definition b_stp (ops : list opnd) : res built :=
  o0 <- nth_op ops 0 ;; o1 <- nth_op ops 1 ;; o2 <- nth_op ops 2 ;;
  bits <- operand_storing_width o0 ;;
  v0 <- operand_load o0 bits ;;
  v1 <- operand_load o1 bits ;;
  ma <- mem_operand_address o2 ;;
  a2 <- unwrap (mk_bin Add (fst ma) (expr_const (bits / 8) 64)) ;;
  wb <- sideeffect (snd ma) ;;
  Ok ([OStore (fst ma) v0; OStore a2 v1] ++ wb, []).

(* `.get_constant().expect(..).value_u64().expect(..)` on a loaded operand *)
Definition const_target (o : opnd) : res Z :=
  e <- operand_load o 64 ;;
  match e with EConst c => if cval c <? 2 ^ 64 then Ok (cval c) else Panic | _ => Panic end.

(* fn b *)
Definition b_b (ops : list opnd) : res built :=
  o0 <- nth_op ops 0 ;; dst <- const_target o0 ;; Ok ([], [(dst, None)]).

(* fn b_cc *)
Definition b_bcc (addr cond : Z) (ops : list opnd) : res built :=
  if Z.land cond 14 =? 14 then b_b ops
  else
    o0 <- nth_op ops 0 ;; dst <- const_target o0 ;;
    let ne1 (e : expr) := unwrap (mk_bin Cmpneq e (expr_const 1 1)) in
    let k := Z.land cond 14 / 2 in
    cond_true <-
      (if k =? 0 then Ok (EScalar s_z)
       else if k =? 1 then Ok (EScalar s_c)
       else if k =? 2 then Ok (EScalar s_n)
       else if k =? 3 then Ok (EScalar s_v)
       else if k =? 4 then nz <- ne1 (EScalar s_z) ;; unwrap (mk_bin And (EScalar s_c) nz)
       else if k =? 5 then unwrap (mk_bin Cmpeq (EScalar s_n) (EScalar s_v))
       else if k =? 6 then e <- unwrap (mk_bin Cmpeq (EScalar s_n) (EScalar s_v)) ;;
                           nz <- ne1 (EScalar s_z) ;; unwrap (mk_bin And e nz)
       else Panic) ;;
    cond_false <- ne1 cond_true ;;
    let '(t, f) := if (Z.land cond 1 =? 1) && negb (cond =? 15) then (cond_false, cond_true) else (cond_true, cond_false) in
    Ok ([], [(dst, Some t); (addr + 4, Some f)]).

(* fn br *)
Definition b_br (ops : list opnd) : res built :=
  o0 <- nth_op ops 0 ;; dst <- operand_load o0 64 ;; Ok ([OBranch dst], []).

(* fn bl (= blr).  After the `fix:` commit a register target is latched in a temporary before the
   link register is written (`blr x30`). *)
Definition b_bl (addr : Z) (ops : list opnd) : res built :=
  o0 <- nth_op ops 0 ;; dst <- operand_load o0 64 ;;
  let link := OAssign (sx 30) (expr_const ((addr + 4) mod 2 ^ 64) 64) in
  match dst with
  | EConst _ => Ok ([link; OBranch dst], [])
  | _ => let t := s_temp0 64 in Ok ([OAssign t dst; link; OBranch (EScalar t)], [])
  end.

(* fn ret (after the `fix:` commit: the operand, when present, is the target; default x30) *)
Definition b_ret (ops : list opnd) : res built :=
  match ops with
  | [] => Ok ([OBranch (EScalar (sx 30))], [])
  | o0 :: _ => dst <- operand_load o0 64 ;; Ok ([OBranch dst], [])
  end.

(* fn cbz_cbnz_tbz_tbnz *)
Definition b_cbtb (addr : Z) (branch_if_zero test_bit : bool) (ops : list opnd) : res built :=
  ot <- nth_op ops (if test_bit then 2 else 1)%nat ;;
  dst <- const_target ot ;;
  o0 <- nth_op ops 0 ;;
  bits <- operand_storing_width o0 ;;
  value <- operand_load o0 bits ;;
  value' <- (if test_bit then
               ob <- nth_op ops 1 ;; bit <- operand_imm_u64 ob ;;
               if bits <=? bit then Err ECustom
               else unwrap (mk_bin And value (expr_const (2 ^ bit) bits))
             else Ok value) ;;
  ct <- unwrap (mk_bin Cmpneq value' (expr_const 0 bits)) ;;
  cf <- unwrap (mk_bin Cmpeq value' (expr_const 0 bits)) ;;
  let '(t, f) := if branch_if_zero then (cf, ct) else (ct, cf) in
  Ok ([], [(dst, Some t); (addr + 4, Some f)]).

(* ------------------------------------------------------------------ bad64's presentation of an instruction *)
Inductive mnem :=
| MAdd | MAdds | MSub | MSubs | MMov
| MLdr | MLdrb | MLdrh | MLdrsb | MLdrsh | MLdrsw | MLdp | MLdpsw
| MStr | MStrb | MStrh | MStp
| MNop
| MB | MBcc (cond : Z) | MBl | MBr | MRet | MCbz | MCbnz | MTbz | MTbnz
| MUnsupported.                     (* an Op the dispatch table of mod.rs answers with Err(unsupported()) *)

Definition xreg_zr (sf : bool) (n : Z) : areg :=           (* register 31 = zero register *)
  if n =? 31 then (if sf then RXZR else RWZR) else (if sf then RX n else RW n).
Definition xreg_sp (sf : bool) (n : Z) : areg :=           (* register 31 = stack pointer *)
  if n =? 31 then (if sf then RSP else RWSP) else (if sf then RX n else RW n).
Definition imm_opnd (sf : bool) (v : Z) (sh : option bshift) : opnd :=
  if sf then OImm64 v sh else OImm32 v sh.
Definition u64 (v : Z) : Z := v mod 2 ^ 64.

Definition bshift_of (k : shiftk) (a : Z) : bshift :=
  match k with SLSL => BLSL a | SLSR => BLSR a | SASR => BASR a | SROR => BROR a end.
Definition bext_of (k : extk) (a : Z) : bshift :=
  match k with
  | XUXTB => BUXTB a | XUXTH => BUXTH a | XUXTW => BUXTW a | XUXTX => BUXTX a
  | XSXTB => BSXTB a | XSXTH => BSXTH a | XSXTW => BSXTW a | XSXTX => BSXTX a
  end.
(* a shifted-register operand: `LSL #0` is presented as a plain register *)
Definition shifted_reg (sf : bool) (rm : Z) (k : shiftk) (a : Z) : opnd :=
  match k with
  | SLSL => if a =? 0 then OReg (xreg_zr sf rm) else OShiftReg (xreg_zr sf rm) (BLSL a)
  | _ => OShiftReg (xreg_zr sf rm) (bshift_of k a)
  end.
(* an extended-register operand (C6.2.3: <R> is X only for option = x11; LSL is the preferred
   spelling of UXTX (64-bit) / UXTW (32-bit) when Rd or Rn is the stack pointer, and is omitted
   when the amount is zero) *)
Definition ext_is_x (k : extk) : bool := match k with XUXTX | XSXTX => true | _ => false end.
Definition extended_reg (sf : bool) (rm : Z) (k : extk) (a : Z) (sp_involved : bool) : opnd :=
  let r := xreg_zr (sf && ext_is_x k) rm in
  let lsl_pref := sp_involved && (match k with XUXTX => sf | XUXTW => negb sf | _ => false end) in
  if lsl_pref then (if (a =? 0) && sf then OReg r else OShiftReg r (BLSL a))   (* the 32-bit form keeps `#0` *)
  else OShiftReg r (bext_of k a).

Definition ldst_mnem (size opc : Z) : mnem :=
  if opc =? 0 then (if size =? 0 then MStrb else if size =? 1 then MStrh else MStr)
  else if opc =? 1 then (if size =? 0 then MLdrb else if size =? 1 then MLdrh else MLdr)
  else (if size =? 0 then MLdrsb else if size =? 1 then MLdrsh else MLdrsw).
(* the transfer register: X for 64-bit accesses and for sign-extension to 64 bits *)
Definition ldst_rt (size opc rt : Z) : areg :=
  let '(regsize, _, _) := ldst_regsize_signed size opc in xreg_zr (regsize =? 64) rt.

Definition operands_of (addr : Z) (i : instr) : mnem * list opnd :=
  match i with
  | IAddSubImm sf sub setflags sh imm12 rn rd =>
      if setflags && (rd =? 31) then (MUnsupported, [])                  (* CMN / CMP *)
      else if negb sub && negb setflags && negb sh && (imm12 =? 0) && ((rd =? 31) || (rn =? 31))
      then (MMov, [OReg (xreg_sp sf rd); OReg (xreg_sp sf rn)])          (* MOV (to/from SP) *)
      else
        let d := if setflags then xreg_zr sf rd else xreg_sp sf rd in
        ((if sub then (if setflags then MSubs else MSub) else (if setflags then MAdds else MAdd)),
         [OReg d; OReg (xreg_sp sf rn); imm_opnd sf imm12 (if sh then Some (BLSL 12) else None)])
  | IAddSubShift sf sub setflags k rm imm6 rn rd =>
      if setflags && (rd =? 31) then (MUnsupported, [])                  (* CMN / CMP *)
      else if sub && (rn =? 31) then (MUnsupported, [])                  (* NEG / NEGS *)
      else
        ((if sub then (if setflags then MSubs else MSub) else (if setflags then MAdds else MAdd)),
         [OReg (xreg_zr sf rd); OReg (xreg_zr sf rn); shifted_reg sf rm k imm6])
  | IAddSubExt sf sub setflags k rm imm3 rn rd =>
      if setflags && (rd =? 31) then (MUnsupported, [])                  (* CMN / CMP *)
      else
        let d := if setflags then xreg_zr sf rd else xreg_sp sf rd in
        let sp_involved := (rn =? 31) || (negb setflags && (rd =? 31)) in
        ((if sub then (if setflags then MSubs else MSub) else (if setflags then MAdds else MAdd)),
         [OReg d; OReg (xreg_sp sf rn); extended_reg sf rm k imm3 sp_involved])
  | IOrrShift sf k rm imm6 rn rd =>
      match k with
      | SLSL => if (imm6 =? 0) && (rn =? 31)
                then (MMov, [OReg (xreg_zr sf rd); OReg (xreg_zr sf rm)])   (* MOV (register) *)
                else (MUnsupported, [])
      | _ => (MUnsupported, [])
      end
  | IMovWide sf opc hw imm16 rd =>
      let N := dsize sf in
      let plain := negb ((imm16 =? 0) && negb (hw =? 0)) in
      if opc =? 2 then                                                    (* MOVZ -> MOV (wide immediate) *)
        if plain then (MMov, [OReg (xreg_zr sf rd); imm_opnd sf (imm16 * 2 ^ (hw * 16)) None])
        else (MUnsupported, [])
      else if opc =? 0 then                                               (* MOVN -> MOV (inverted wide immediate) *)
        if plain && (sf || negb (imm16 =? 65535))
        then (MMov, [OReg (xreg_zr sf rd); imm_opnd sf (NOT N (imm16 * 2 ^ (hw * 16))) None])
        else (MUnsupported, [])
      else (MUnsupported, [])                                             (* MOVK *)
  | ILdStImm size opc mode scaled imm rn rt =>
      let off := if scaled then imm * 2 ^ size else u64 (sext_imm 9 imm) in
      let base := xreg_sp true rn in
      (ldst_mnem size opc,
       [OReg (ldst_rt size opc rt);
        match mode with
        | WOffset => OMemOffset base off
        | WPre => OMemPreIdx base off
        | WPost => OMemPostIdxImm base off
        end])
  | ILdStReg size opc rm option sbit rn rt =>
      let k := decode_ext option in
      let amount := if sbit then size else 0 in
      let sh := match k with
                | XUXTX => if sbit then Some (BLSL amount) else None
                | _ => Some (bext_of k amount)
                end in
      (ldst_mnem size opc,
       [OReg (ldst_rt size opc rt); OMemExt (xreg_sp true rn) (xreg_zr (ext_is_x k) rm) sh])
  | ILdLit opc imm19 rt =>
      ((if opc =? 2 then MLdrsw else MLdr),
       [OReg (xreg_zr (negb (opc =? 0)) rt); OLabel (u64 (addr + sext_imm 21 (imm19 * 4)))])
  | ILdStPair opc mode load imm7 rt2 rn rt =>
      let sf := negb (opc =? 0) in
      let off := u64 (sext_imm 7 imm7 * 2 ^ (2 + opc / 2)) in
      let base := xreg_sp true rn in
      ((if load then (if opc =? 1 then MLdpsw else MLdp) else MStp),
       [OReg (xreg_zr sf rt); OReg (xreg_zr sf rt2);
        match mode with
        | PNoAlloc | POffset => OMemOffset base off
        | PPre => OMemPreIdx base off
        | PPost => OMemPostIdxImm base off
        end])
  | ILdStOrd size load o0 rn rt =>
      (ldst_mnem size (if load then 1 else 0),
       [OReg (xreg_zr (size =? 3) rt); OMemOffset (xreg_sp true rn) 0])
  | IVLdStImm scale load mode scaled imm rn rt =>
      let off := if scaled then imm * 2 ^ scale else u64 (sext_imm 9 imm) in
      let base := xreg_sp true rn in
      ((if load then MLdr else MStr),
       [OVReg (8 * 2 ^ scale) rt;
        match mode with
        | WOffset => OMemOffset base off
        | WPre => OMemPreIdx base off
        | WPost => OMemPostIdxImm base off
        end])
  | IVLdStReg scale load rm option sbit rn rt =>
      let k := decode_ext option in
      let amount := if sbit then scale else 0 in
      let sh := match k with
                | XUXTX => if sbit then Some (BLSL amount) else None
                | _ => Some (bext_of k amount)
                end in
      ((if load then MLdr else MStr),
       [OVReg (8 * 2 ^ scale) rt; OMemExt (xreg_sp true rn) (xreg_zr (ext_is_x k) rm) sh])
  | IVLdStPair opc mode load imm7 rt2 rn rt =>
      let off := u64 (sext_imm 7 imm7 * 2 ^ (2 + opc)) in
      let base := xreg_sp true rn in
      ((if load then MLdp else MStp),
       [OVReg (8 * 2 ^ (2 + opc)) rt; OVReg (8 * 2 ^ (2 + opc)) rt2;
        match mode with
        | PNoAlloc | POffset => OMemOffset base off
        | PPre => OMemPreIdx base off
        | PPost => OMemPostIdxImm base off
        end])
  | IVIns size dst src rn rd =>
      let es := 8 * 2 ^ size in (MMov, [OVArr rd (dst * es) es true; OVArr rn (src * es) es true])
  | IVInsG size idx rn rd =>
      let es := 8 * 2 ^ size in (MMov, [OVArr rd (idx * es) es true; OReg (xreg_zr (size =? 3) rn)])
  | IVUmov size idx rn rd =>
      let es := 8 * 2 ^ size in (MMov, [OReg (xreg_zr (size =? 3) rd); OVArr rn (idx * es) es true])
  | IVDupS size idx rn rd =>
      let es := 8 * 2 ^ size in (MMov, [OVReg es rd; OVArr rn (idx * es) es true])
  | IVMovV q rn rd =>
      let w := if q then 128 else 64 in (MMov, [OVArr rd 0 w false; OVArr rn 0 w false])
  | IVAddSubD sub rm rn rd =>
      ((if sub then MSub else MAdd), [OVReg 64 rd; OVReg 64 rn; OVReg 64 rm])
  | ILdStOrdU size load o0 rn rt =>
      (ldst_mnem size (if load then 1 else 0),
       [OReg (xreg_zr (size =? 3) rt); OMemOffset (xreg_sp true rn) 0])
  | IOrrImm sf n immr imms rn rd =>
      if (rn =? 31) && negb (move_wide_preferred sf n imms immr)
      then (MMov, [OReg (xreg_sp sf rd); imm_opnd sf (decode_bit_mask (dsize sf) n immr imms) None])   (* MOV (bitmask immediate) *)
      else (MUnsupported, [])
  | INop => (MNop, [])
  | IBImm link imm26 => ((if link then MBl else MB), [OLabel (u64 (addr + sext_imm 28 (imm26 * 4)))])
  | IBReg opc rn =>
      ((if opc =? 0 then MBr else if opc =? 1 then MBl else MRet),
       if (opc =? 2) && (rn =? 30) then [] else [OReg (xreg_zr true rn)])
  | IBCond cond imm19 => (MBcc cond, [OLabel (u64 (addr + sext_imm 21 (imm19 * 4)))])
  | ICB sf nz imm19 rt =>
      ((if nz then MCbnz else MCbz), [OReg (xreg_zr sf rt); OLabel (u64 (addr + sext_imm 21 (imm19 * 4)))])
  | ITB b5 nz b40 imm14 rt =>
      ((if nz then MTbnz else MTbz),
       [OReg (xreg_zr b5 rt); OImm32 ((if b5 then 32 else 0) + b40) None; OLabel (u64 (addr + sext_imm 16 (imm14 * 4)))])
  end.

(* the dispatch of translate_block (mod.rs) *)
Definition dispatch (addr : Z) (m : mnem) (ops : list opnd) : res built :=
  match m with
  | MAdd => b_addsub AAdd ops | MSub => b_addsub ASub ops
  | MAdds => b_addsubs AAdd ops | MSubs => b_addsubs ASub ops
  | MMov => b_mov ops
  | MLdr => b_ldr None ops | MLdrb => b_ldr (Some 8) ops | MLdrh => b_ldr (Some 16) ops
  | MLdrsb => b_ldrs 8 ops | MLdrsh => b_ldrs 16 ops | MLdrsw => b_ldrs 32 ops
  | MLdp => b_ldp ops | MLdpsw => b_ldpsw ops
  | MStr => b_str None ops | MStrb => b_str (Some 8) ops | MStrh => b_str (Some 16) ops
  | MStp => b_stp ops
  | MNop => Ok ([ONop None], [])
  | MB => b_b ops | MBcc c => b_bcc addr c ops | MBl => b_bl addr ops | MBr => b_br ops | MRet => b_ret ops
  | MCbz => b_cbtb addr true false ops | MCbnz => b_cbtb addr false false ops
  | MTbz => b_cbtb addr true true ops | MTbnz => b_cbtb addr false true ops
  | MUnsupported => Err ECustom
  end.

Definition terminating (m : mnem) : bool :=
  match m with MB | MBcc _ | MBr | MRet | MCbz | MCbnz | MTbz | MTbnz => true | _ => false end.

(* translate_block on the single word at [addr]: the instruction graph's operations and the block's
   successors (a non-terminating instruction falls through to addr + 4) *)
(* BlockTranslationResult::new -> merge_successors: successors naming the same address are merged
   into one whose guard is the disjunction (an unguarded one wins) *)
Fixpoint merge_into (merged : list (Z * option expr)) (a : Z) (c : option expr) : list (Z * option expr) :=
  match merged with
  | [] => [(a, c)]
  | (a', c') :: t =>
      if a' =? a
      then (a', match c', c with
                | Some l, Some r => match mk_bin Or l r with Ok e => Some e | _ => Some l end
                | _, _ => None
                end) :: t
      else (a', c') :: merge_into t a c
  end.
Definition merge_successors (l : list (Z * option expr)) : list (Z * option expr) :=
  fold_left (fun m s => merge_into m (fst s) (snd s)) l [].

Definition lift (addr : Z) (i : instr) : res built :=
  let '(m, ops) := operands_of addr i in
  b <- dispatch addr m ops ;;
  Ok (fst b, merge_successors (if terminating m then snd b else [(addr + 4, None)])).

(* the instruction graph translate_block pushes: one block, instruction indices 0.., every
   instruction addressed (ControlFlowGraph::set_address), entry = exit = block 0 *)
Fixpoint number_from (k : Z) (addr : Z) (ops : list operation) : list instruction :=
  match ops with [] => [] | o :: t => mkinstr k o (Some addr) :: number_from (k + 1) addr t end.
Definition graph_of (addr : Z) (ops : list operation) : cfg :=
  mkcfg [mkblock 0 (Z.of_nat (length ops)) (number_from 0 addr ops) []] [] 1 (Some 0) (Some 0).
